// Free-running stress of one real shard (built with -race by the driver): N writers (each the only writer of its
// series, monotone logical time per series, some overwriting and late points), M readers, a flusher, a
// compaction/merge trigger, and a final close while everything is in flight. Every reader checks each of its
// queries against the writers' logs with the property's DIRECT ORACLE.
package main

import (
	"fmt"
	"os"
	"path/filepath"
	"runtime/debug"
	"sort"
	"strings"
	"sync"
	"sync/atomic"
	"time"

	"github.com/openGemini/openGemini/engine"
	"github.com/openGemini/openGemini/lib/util/lifted/vm/protoparser/influx"
	"verifharness/internal/gen"
)

// one written row in a writer's log; published (log.n advanced) BEFORE WriteRows is called, ack stored after.
type wentry struct {
	s        int
	k        int64
	code     int64
	startSeq int64
	ackSeq   atomic.Int64 // 0: not acknowledged (in flight, or the write returned an error)
}

type wlog struct {
	ents []wentry
	n    atomic.Int64
}

type failure struct {
	Sig    string `json:"sig,omitempty"` // for lost points: "ooo-row" (the lost write was at or before a time of its series acknowledged earlier) or "in-order-row"
	Kind   string `json:"kind"`
	Detail string `json:"detail"`
	Client int    `json:"client"`
	Query  int    `json:"query"`
}

type stressCfg struct {
	Round       int    `json:"round"`
	Seed        uint64 `json:"seed"`
	Writers     int    `json:"writers"`
	Readers     int    `json:"readers"`
	SeriesPerW  int    `json:"series_per_writer"`
	LateSeries  int    `json:"late_series_per_writer"`
	DurationMs  int    `json:"duration_ms"`
	FlushMinMs  int    `json:"flush_min_ms"`
	FlushMaxMs  int    `json:"flush_max_ms"`
	WriterPause int    `json:"writer_pause_us"`
	Engine      bool   `json:"engine,omitempty"` // operations go through the engine API (partition references, plan path)
	Fin         string `json:"fin,omitempty"`    // engine mode: "close" (Engine.Close) or "dropdb" (DeleteDatabase) while everything is in flight
}

type stressOut struct {
	Kind               string    `json:"kind"`
	Cfg                stressCfg `json:"cfg"`
	Writes             int64     `json:"writes"`
	Acked              int64     `json:"acked"`
	WriteErrs          int64     `json:"write_errors_before_close"`
	Overwrites         int64     `json:"overwrites"`
	LateRows           int64     `json:"late_rows"`
	Queries            int64     `json:"queries"`
	CountQueries       int64     `json:"count_queries"`
	QueriesDuringFlush int64     `json:"queries_overlapping_flush"`
	QueriesDuringComp  int64     `json:"queries_overlapping_compaction"`
	QueryErrs          int64     `json:"query_errors_before_close"`
	RowsChecked        int64     `json:"rows_checked"`
	Flushes            int64     `json:"flushes"`
	CompCalls          int64     `json:"compaction_calls"`
	MergeCalls         int64     `json:"merge_calls"`
	MaxOrder           int       `json:"max_order_files"`
	MaxUnorder         int       `json:"max_unordered_files"`
	FileSeqEnd         uint64    `json:"file_seq_end"`
	EndOrder           int       `json:"end_order_files"`
	EndUnorder         int       `json:"end_unordered_files"`
	CloseMs            int64     `json:"close_ms"`
	CloseErr           string    `json:"close_err,omitempty"`
	PostCloseQ         int64     `json:"queries_after_close"`
	DropMstMs          int64     `json:"drop_measurement_ms,omitempty"`
	M2Writes           int64     `json:"m2_writes,omitempty"`
	RaftLookups        int64     `json:"raft_lookups,omitempty"`
	EngFlushes         int64     `json:"engine_flushes,omitempty"`
	Failures           []failure `json:"failures"`
	NFailures          int       `json:"n_failures"`
	NInOrderLost       int       `json:"n_in_order_lost"`
}

type bgEvent struct {
	Kind       string `json:"kind"`
	Start, End int64
	Files      string `json:"files"`
}

type stress struct {
	evMu   sync.Mutex
	events []bgEvent
	cfg    stressCfg
	sh     *engine.VerifC04Shard
	env    *engEnv // engine mode only
	seq    atomic.Int64 // global logical clock
	logs   []*wlog
	// per series: clock value at the end of the first query that returned the series (0: never seen)
	seen       []atomic.Int64
	closing    atomic.Bool // close has been called
	closed     atomic.Bool // close has returned
	stop       atomic.Bool
	flushing   atomic.Int64
	compacting atomic.Int64
	pauseW     atomic.Bool // quiet window: writers pause (the shard goes write-cold with unflushed rows)
	pauseF     atomic.Bool // quiet window: no forced flush (the background snapshot goroutine gets its turn)
	bgWindows  atomic.Int64
	flushGen   atomic.Int64
	compGen    atomic.Int64
	out        stressOut
	mu         sync.Mutex
}

func (st *stress) fail(kind string, client, q int, format string, a ...any) {
	st.failSig("", kind, client, q, format, a...)
}

func (st *stress) failSig(sig, kind string, client, q int, format string, a ...any) {
	st.mu.Lock()
	defer st.mu.Unlock()
	st.out.NFailures++
	if sig == "in-order-row" {
		st.out.NInOrderLost++
	}
	if len(st.out.Failures) < 40 || (sig == "in-order-row" && len(st.out.Failures) < 60) {
		st.out.Failures = append(st.out.Failures, failure{sig, kind, fmt.Sprintf(format, a...), client, q})
	}
}

// sigOf classifies a lost write e of point p: was it an out-of-order row when it was written, i.e. had a write of the
// same series at a time >= p.K been acknowledged before e started?  (Such rows are flushed to the out-of-order list.)
func (ix *ridx) sigOf(p point, e *wentry) string {
	for q, ents := range ix.byPt {
		if q.S != p.S || q.K < p.K {
			continue
		}
		for _, o := range ents {
			if o == e {
				continue
			}
			if a := o.ackSeq.Load(); a != 0 && a < e.startSeq {
				return "ooo-row"
			}
		}
	}
	return "in-order-row"
}

func (st *stress) tick() int64 { return st.seq.Add(1) }

func (st *stress) doWrite(rows []influx.Row) error {
	if st.env != nil {
		return st.env.write(rows)
	}
	return writeRows(st.sh, rows)
}

func (st *stress) doQuery(m string, kmin, kmax int64, asc bool) qresult {
	if st.env != nil {
		res, refErr := st.env.queryRange(m, kmin, kmax, asc, nil)
		if refErr != nil && res.err == nil {
			res.err = refErr
		}
		return res
	}
	return runQueryOf(st.sh, m, kmin, kmax, asc)
}

func (st *stress) doClose() error {
	if st.env != nil {
		if st.cfg.Fin == "dropdb" {
			return st.env.e.DeleteDatabase(engDB, engPT)
		}
		return st.env.e.Close()
	}
	return st.sh.CloseShard()
}

func (st *stress) event(kind string, start int64) {
	ts := st.sh.TableStore()
	// (no GetFileSeq here: it is an unsynchronised accessor meant for quiesced shards - MergeShards -, calling it while
	// flushes run would be a race the harness itself introduces)
	e := bgEvent{kind, start, st.tick(), fmt.Sprintf("%d/%d", ts.GetTableFileNum(mst, true), ts.GetTableFileNum(mst, false))}
	st.evMu.Lock()
	st.events = append(st.events, e)
	st.evMu.Unlock()
}

func (st *stress) eventsBetween(a, b int64) string {
	st.evMu.Lock()
	defer st.evMu.Unlock()
	out := ""
	for _, e := range st.events {
		if e.End >= a && e.Start <= b {
			out += fmt.Sprintf(" [%s %d..%d files %s]", e.Kind, e.Start, e.End, e.Files)
		}
	}
	return out
}

func (st *stress) nseries() int          { return st.cfg.Writers * (st.cfg.SeriesPerW + st.cfg.LateSeries) }
func (st *stress) seriesID(w, j int) int { return w*(st.cfg.SeriesPerW+st.cfg.LateSeries) + j }

func (st *stress) writer(w int, r *gen.Rand, wg *sync.WaitGroup) {
	defer wg.Done()
	defer func() {
		if e := recover(); e != nil {
			st.fail("panic", w, -1, "writer panicked: %v\n%s", e, debug.Stack())
		}
	}()
	lg := st.logs[w]
	nser := st.cfg.SeriesPerW
	next := make([]int64, st.cfg.SeriesPerW+st.cfg.LateSeries) // next fresh logical time per series
	for j := range next {
		next[j] = 1 // k=0 is the warm-up point
	}
	code := int64(w+1) * 1_000_000_000
	lateAt := make([]int, st.cfg.LateSeries)
	for j := range lateAt {
		lateAt[j] = r.Range(50, 2000)
	}
	batches := 0
	for !st.stop.Load() {
		for st.pauseW.Load() && !st.stop.Load() {
			time.Sleep(3 * time.Millisecond)
		}
		batches++
		for j := range lateAt {
			if batches == lateAt[j] && nser == st.cfg.SeriesPerW+j {
				nser++
			}
		}
		nrows := 1
		if r.Chance(1, 2) {
			nrows = r.Range(2, 6)
		}
		if int(lg.n.Load())+nrows > len(lg.ents) {
			return
		}
		rows := make([]influx.Row, 0, nrows)
		first := lg.n.Load()
		startSeq := st.tick()
		used := map[point]bool{}
		for i := 0; i < nrows; i++ {
			j := r.Intn(nser)
			var k int64
			switch {
			case next[j] > 1 && r.Chance(1, 6): // overwrite a recent point
				k = next[j] - 1 - int64(r.Intn(int(min64(next[j]-1, 8))))
				atomic.AddInt64(&st.out.Overwrites, 1)
			case next[j] > 4 && r.Chance(1, 12): // late point far in the past (goes to an out-of-order file)
				k = int64(r.Intn(int(next[j])))
				atomic.AddInt64(&st.out.LateRows, 1)
			default:
				k = next[j]
				next[j]++
				if r.Chance(1, 10) { // leave a gap that a late point can fill later
					next[j] += int64(r.Range(1, 3))
				}
			}
			p := point{st.seriesID(w, j), k}
			if used[p] {
				continue // one write per point per batch keeps the last-write order trivial
			}
			used[p] = true
			code++
			idx := first + int64(len(rows))
			e := &lg.ents[idx]
			e.s, e.k, e.code, e.startSeq = p.S, p.K, code, startSeq
			rows = append(rows, mkRow(p.S, p.K, code))
		}
		lg.n.Store(first + int64(len(rows))) // publish before the write starts
		err := st.doWrite(rows)
		atomic.AddInt64(&st.out.Writes, int64(len(rows)))
		if err == nil {
			ack := st.tick()
			for i := first; i < first+int64(len(rows)); i++ {
				lg.ents[i].ackSeq.Store(ack)
			}
			atomic.AddInt64(&st.out.Acked, int64(len(rows)))
		} else if !st.closing.Load() {
			atomic.AddInt64(&st.out.WriteErrs, 1)
			st.fail("write-error", w, -1, "write failed before close was called: %v", err)
		} else if st.closed.Load() {
			return
		}
		if st.cfg.WriterPause > 0 {
			time.Sleep(time.Duration(r.Intn(st.cfg.WriterPause*2)) * time.Microsecond)
		}
	}
}

func min64(a, b int64) int64 {
	if a < b {
		return a
	}
	return b
}

// reader-private incremental index over the writers' logs
type ridx struct {
	upto []int64
	byPt map[point][]*wentry // in program order of the (single) writer of that series
}

func (st *stress) reader(c int, r *gen.Rand, wg *sync.WaitGroup) {
	defer wg.Done()
	defer func() {
		if e := recover(); e != nil {
			st.fail("panic", c, -1, "reader panicked: %v\n%s", e, debug.Stack())
		}
	}()
	ix := &ridx{upto: make([]int64, len(st.logs)), byPt: map[point][]*wentry{}}
	everSeen := map[point]bool{}
	qn := 0
	after := 0
	for {
		if st.closed.Load() {
			after++
			if after > 2 {
				return
			}
		}
		qn++
		if r.Chance(1, 6) && !st.closing.Load() {
			st.countQuery(c, qn, ix, []string{mst, mst3}[r.Intn(2)])
			continue
		}
		var kmin, kmax int64 = 0, kInf
		if r.Chance(1, 3) { // sub-range query (exercises the time filter of the file lists)
			hi := int64(r.Range(1, 400))
			kmin = int64(r.Intn(int(hi)))
			kmax = hi
		}
		asc := r.Chance(3, 4)
		qm := mst
		if r.Chance(1, 2) {
			qm = mst3
		}
		fg, cg := st.flushGen.Load(), st.compGen.Load()
		fl, cp := st.flushing.Load() > 0, st.compacting.Load() > 0
		wasClosing := st.closing.Load()
		startSeq := st.tick()
		res := st.doQuery(qm, kmin, kmax, asc)
		endSeq := st.tick()
		nowClosing := st.closing.Load()
		atomic.AddInt64(&st.out.Queries, 1)
		if fl || st.flushing.Load() > 0 || st.flushGen.Load() != fg {
			atomic.AddInt64(&st.out.QueriesDuringFlush, 1)
		}
		if cp || st.compacting.Load() > 0 || st.compGen.Load() != cg {
			atomic.AddInt64(&st.out.QueriesDuringComp, 1)
		}
		if wasClosing {
			atomic.AddInt64(&st.out.PostCloseQ, 1)
		}
		if res.err != nil {
			if len(res.err.Error()) > 5 && res.err.Error()[:5] == "PANIC" {
				st.fail("panic", c, qn, "%v", res.err)
				return
			}
			if !nowClosing {
				atomic.AddInt64(&st.out.QueryErrs, 1)
				st.fail("query-error", c, qn, "query failed before close was called: %v", res.err)
			} else {
				time.Sleep(200 * time.Microsecond) // refused after the close / drop: do not spin
			}
			continue
		}
		// ---- direct oracle ----
		for _, b := range res.bad {
			st.fail("malformed-row", c, qn, "%s", b)
		}
		for _, p := range res.dups {
			st.fail("duplicate-point", c, qn, "series %d time %d returned more than once (range %d..%d asc=%v)", p.S, p.K, kmin, kmax, asc)
		}
		// refresh the index with everything published so far
		for w, lg := range st.logs {
			n := lg.n.Load()
			for i := ix.upto[w]; i < n; i++ {
				e := &lg.ents[i]
				p := point{e.s, e.k}
				ix.byPt[p] = append(ix.byPt[p], e)
			}
			ix.upto[w] = n
		}
		for p := range res.rows {
			if mstOf(p.S) != qm {
				st.fail("malformed-row", c, qn, "series %d of measurement %s returned by a query on %s", p.S, mstOf(p.S), qm)
			}
		}
		// mark series visibility
		for p := range res.rows {
			if st.seen[p.S].Load() == 0 {
				st.seen[p.S].CompareAndSwap(0, endSeq)
			}
		}
		recheck := 0
		// values: every returned row is exactly one write that had started before the query ended, not torn, and
		// not older than the last write of that point acknowledged before the query started
		for p, x := range res.rows {
			atomic.AddInt64(&st.out.RowsChecked, 1)
			ents := ix.byPt[p]
			match, lastAcked := -1, -1
			for i, e := range ents {
				if e.startSeq < endSeq && e.code == x.V {
					match = i
				}
				if a := e.ackSeq.Load(); a != 0 && a < startSeq {
					lastAcked = i
				}
			}
			if p.K == 0 && x.V == int64(-1-p.S) { // warm-up row
				if lastAcked >= 0 {
					st.failSig(ix.sigOf(p, ents[lastAcked]), "stale-value", c, qn, "series %d time %d: warm-up value returned although write code %d was acknowledged before the query started", p.S, p.K, ents[lastAcked].code)
				}
				if x.W != wOf(x.V) {
					st.fail("torn-row", c, qn, "series %d time %d: v=%d w=%d", p.S, p.K, x.V, x.W)
				}
				continue
			}
			if match < 0 {
				st.fail("value-never-written", c, qn, "series %d time %d: v=%d w=%d matches no write begun before the query ended", p.S, p.K, x.V, x.W)
				continue
			}
			if x.W != wOf(x.V) {
				st.fail("torn-row", c, qn, "series %d time %d: v=%d from one write but w=%d (expected %d)", p.S, p.K, x.V, x.W, wOf(x.V))
			}
			if match < lastAcked {
				hist := ""
				for _, e := range ents {
					hist += fmt.Sprintf(" (code %d start %d ack %d)", e.code, e.startSeq, e.ackSeq.Load())
				}
				// is the stale answer transient (a torn view) or durable (the newer version is lost / shadowed)?
				again := "not re-read"
				if recheck < 3 {
					recheck++
					r2 := st.doQuery(qm, p.K, p.K, true)
					if y, ok := r2.rows[p]; ok {
						again = fmt.Sprintf("a second query at clock %d returns code %d", st.tick(), y.V)
					} else {
						again = fmt.Sprintf("a second query returns no row (err %v)", r2.err)
					}
				}
				st.failSig(ix.sigOf(p, ents[lastAcked]), "stale-value", c, qn, "series %d time %d: returned code %d although the later write %d was acknowledged before the query started; %s; query clock %d..%d range %d..%d asc=%v flush gen %d..%d flushing %v..%v; writes of the point:%s; background events since the lost write:%s", p.S, p.K, x.V, ents[lastAcked].code, again, startSeq, endSeq, kmin, kmax, asc, fg, st.flushGen.Load(), fl, st.flushing.Load() > 0, hist, st.eventsBetween(ents[lastAcked].startSeq, endSeq))
			}
		}
		if nowClosing {
			// completeness / monotonicity are only demanded of queries that finished before close was called
			continue
		}
		// completeness: all points acknowledged before the query started (series already visible in the index)
		for p, ents := range ix.byPt {
			if p.K < kmin || p.K > kmax || mstOf(p.S) != qm {
				continue
			}
			if _, ok := res.rows[p]; ok {
				continue
			}
			vis := st.seen[p.S].Load()
			if vis == 0 || vis >= startSeq {
				continue
			}
			for _, e := range ents {
				if a := e.ackSeq.Load(); a != 0 && a < startSeq {
					st.failSig(ix.sigOf(p, e), "missing-acked-point", c, qn, "series %d time %d (write code %d acknowledged at clock %d) absent from a query started at clock %d (range %d..%d asc=%v, %d rows returned); background events since the write:%s", p.S, p.K, e.code, a, startSeq, kmin, kmax, asc, len(res.rows), st.eventsBetween(e.startSeq, endSeq))
					break
				}
			}
		}
		// successive queries of this client never lose a point
		for p := range everSeen {
			if p.K < kmin || p.K > kmax || mstOf(p.S) != qm {
				continue
			}
			if _, ok := res.rows[p]; !ok {
				sig := "in-order-row"
				if ents := ix.byPt[p]; len(ents) > 0 {
					sig = ix.sigOf(p, ents[len(ents)-1])
				}
				st.failSig(sig, "point-disappeared", c, qn, "series %d time %d was returned by an earlier query of this client and is absent now (range %d..%d)", p.S, p.K, kmin, kmax)
			}
		}
		for p := range res.rows {
			everSeen[p] = true
		}
		if st.stop.Load() && !st.closing.Load() {
			return
		}
	}
}

// countQuery: count(v) group by series over all times >= 1 through the aggregate path (pre-aggregation from chunk
// metadata where the files allow it).  DIRECT ORACLE per visible series: at least the distinct points acknowledged
// before the query started, at most the number of WRITES (versions) begun when it ended - a view that held the
// snapshot table together with a file flushed from it counts every write of that table twice.
func (st *stress) countQuery(c, qn int, ix *ridx, qm string) {
	startSeq := st.tick()
	counts, err := runCount(st.sh, qm, 1, kInf)
	endSeq := st.tick()
	atomic.AddInt64(&st.out.CountQueries, 1)
	if st.closing.Load() {
		return
	}
	if err != nil {
		if strings.HasPrefix(err.Error(), "PANIC") {
			st.fail("panic", c, qn, "%v", err)
		} else {
			st.fail("query-error", c, qn, "count query failed before close was called: %v", err)
		}
		return
	}
	for w, lg := range st.logs {
		n := lg.n.Load()
		for i := ix.upto[w]; i < n; i++ {
			e := &lg.ents[i]
			p := point{e.s, e.k}
			ix.byPt[p] = append(ix.byPt[p], e)
		}
		ix.upto[w] = n
	}
	lower := map[int]int64{}
	upper := map[int]int64{}
	for p, ents := range ix.byPt {
		if p.K < 1 {
			continue
		}
		acked := false
		for _, e := range ents {
			if a := e.ackSeq.Load(); a != 0 && a < startSeq {
				acked = true
			}
			if e.startSeq < endSeq {
				// every VERSION of a point counts towards the upper bound: without the exact-statistics hint the
				// statistics shortcut counts an overwritten point once per container that holds a version of it
				// (documented approximation, see C09) - but never a single write twice
				upper[p.S]++
			}
		}
		if acked {
			lower[p.S]++
		}
	}
	for s := 0; s < st.nseries(); s++ {
		vis := st.seen[s].Load()
		if vis == 0 || vis >= startSeq || mstOf(s) != qm {
			continue
		}
		got := counts[s]
		if got < lower[s] {
			st.fail("count-too-low", c, qn, "series %d: count(v) = %d although %d distinct points were acknowledged before the query started (clock %d..%d)%s", s, got, lower[s], startSeq, endSeq, st.eventsBetween(startSeq, endSeq))
		}
		if got > upper[s] {
			st.fail("count-too-high", c, qn, "series %d: count(v) = %d although only %d writes of the series had begun when the query ended: some write is counted more than once (clock %d..%d)%s", s, got, upper[s], startSeq, endSeq, st.eventsBetween(startSeq, endSeq))
		}
	}
}

func (st *stress) flusher(r *gen.Rand, wg *sync.WaitGroup) {
	defer wg.Done()
	defer func() {
		if e := recover(); e != nil {
			st.fail("panic", -1, -1, "flusher panicked: %v\n%s", e, debug.Stack())
		}
	}()
	for !st.stop.Load() && !st.closed.Load() {
		time.Sleep(time.Duration(r.Range(st.cfg.FlushMinMs, st.cfg.FlushMaxMs)) * time.Millisecond)
		for st.pauseF.Load() && !st.stop.Load() {
			time.Sleep(2 * time.Millisecond)
		}
		st.flushing.Add(1)
		t0 := st.tick()
		if st.env != nil && r.Chance(1, 2) {
			st.env.e.ForceFlush()
			atomic.AddInt64(&st.out.EngFlushes, 1)
		} else {
			st.sh.ForceFlush()
		}
		st.event("flush", t0)
		st.flushing.Add(-1)
		st.flushGen.Add(1)
		atomic.AddInt64(&st.out.Flushes, 1)
	}
}

func (st *stress) compactor(r *gen.Rand, wg *sync.WaitGroup) {
	defer wg.Done()
	defer func() {
		if e := recover(); e != nil {
			st.fail("panic", -1, -1, "compaction trigger panicked: %v\n%s", e, debug.Stack())
		}
	}()
	ts := st.sh.TableStore()
	id := st.sh.ID()
	for !st.stop.Load() && !st.closed.Load() {
		time.Sleep(time.Duration(r.Range(30, 250)) * time.Millisecond)
		if n := ts.GetTableFileNum(mst, true); n > st.out.MaxOrder {
			st.out.MaxOrder = n
		}
		if n := ts.GetTableFileNum(mst, false); n > st.out.MaxUnorder {
			st.out.MaxUnorder = n
		}
		st.compacting.Add(1)
		pick := r.Intn(6)
		if os.Getenv("C04_NOCOMP") != "" && pick <= 3 {
			pick = 4
		}
		if os.Getenv("C04_NOMERGE") != "" && pick > 3 {
			pick = 0
		}
		if os.Getenv("C04_NOCOMP") != "" && os.Getenv("C04_NOMERGE") != "" {
			st.compacting.Add(-1)
			continue
		}
		t0 := st.tick()
		switch pick {
		case 0, 1, 2:
			lv := uint16(r.Intn(3))
			_ = ts.LevelCompact(lv, id)
			atomic.AddInt64(&st.out.CompCalls, 1)
			st.event(fmt.Sprintf("levelcompact%d", lv), t0)
		case 3:
			_ = ts.FullCompact(id)
			atomic.AddInt64(&st.out.CompCalls, 1)
			st.event("fullcompact", t0)
		default:
			full := r.Chance(1, 4)
			_ = ts.MergeOutOfOrder(id, full, true)
			atomic.AddInt64(&st.out.MergeCalls, 1)
			st.event(fmt.Sprintf("merge(full=%v)", full), t0)
		}
		st.compacting.Add(-1)
		st.compGen.Add(1)
	}
}

// engine mode: a writer of the measurement that gets dropped (its writes may fail or vanish: the oracle only looks at
// the other measurement), the drop itself, and the partition lookups of WriteToRaft
func (st *stress) m2writer(r *gen.Rand, wg *sync.WaitGroup) {
	defer wg.Done()
	defer func() {
		if e := recover(); e != nil {
			st.fail("panic", -1, -1, "writer of the dropped measurement panicked: %v\n%s", e, debug.Stack())
		}
	}()
	k := int64(1)
	for !st.stop.Load() && !st.closed.Load() {
		rows := []influx.Row{mkRowM(mst2, 0, k, k), mkRowM(mst2, 1, k, k)}
		k++
		_ = st.env.write(rows)
		atomic.AddInt64(&st.out.M2Writes, 2)
		time.Sleep(time.Duration(r.Range(50, 800)) * time.Microsecond)
	}
}

func (st *stress) dropper(r *gen.Rand, wg *sync.WaitGroup) {
	defer wg.Done()
	defer func() {
		if e := recover(); e != nil {
			st.fail("panic", -1, -1, "DropMeasurement panicked: %v\n%s", e, debug.Stack())
		}
	}()
	time.Sleep(time.Duration(st.cfg.DurationMs*r.Range(15, 70)/100) * time.Millisecond)
	if st.stop.Load() || st.closing.Load() {
		return
	}
	t0 := time.Now()
	h := startOp(func() error { return st.env.e.DropMeasurement(engDB, engRP, mst2, []uint64{engSID}) })
	select {
	case <-h.done:
		if h.pan != "" {
			st.fail("panic", -1, -1, "%s", h.pan)
		} else if h.err != nil && !st.closing.Load() {
			st.fail("close-error", -1, -1, "DropMeasurement returned %v", h.err)
		}
	case <-time.After(2 * watchdog):
		st.fail("close-deadlock", -1, -1, "DropMeasurement did not return within %v\n%s", 2*watchdog, allStacks())
	}
	st.out.DropMstMs = time.Since(t0).Milliseconds()
}

func (st *stress) raftLookups(r *gen.Rand, wg *sync.WaitGroup) {
	defer wg.Done()
	defer func() {
		if e := recover(); e != nil {
			st.fail("panic", -1, -1, "checkAndGetDBPTInfo panicked: %v\n%s", e, debug.Stack())
		}
	}()
	for !st.stop.Load() && !st.closed.Load() {
		_ = st.env.e.VerifC04CheckAndGetDBPTInfo(engDB, engPT)
		atomic.AddInt64(&st.out.RaftLookups, 1)
		time.Sleep(time.Duration(r.Range(100, 3000)) * time.Microsecond)
	}
}

func runStress(cfg stressCfg) stressOut {
	twoMeasurements = true
	st := &stress{cfg: cfg}
	st.out.Kind = "stress"
	st.out.Cfg = cfg
	st.out.Failures = []failure{}
	var sh *engine.VerifC04Shard
	var err error
	if cfg.Engine {
		st.env, err = openEngine(fmt.Sprintf("c04-stress-%d", cfg.Round))
		if err == nil {
			sh = st.env.e.VerifC04Partition(engDB, engPT).VerifC04ShardNoLock(engSID)
		}
	} else {
		sh, err = openShard(fmt.Sprintf("c04-stress-%d", cfg.Round))
	}
	if err != nil || sh == nil {
		st.fail("harness", -1, -1, "open shard: %v", err)
		return st.out
	}
	st.sh = sh
	r := gen.New(cfg.Seed)
	capPerW := 20000 + cfg.DurationMs*60
	for w := 0; w < cfg.Writers; w++ {
		st.logs = append(st.logs, &wlog{ents: make([]wentry, capPerW)})
	}
	st.seen = make([]atomic.Int64, st.nseries())
	// warm-up: one point per early series, make the index entries visible, check them
	var warm []influx.Row
	for w := 0; w < cfg.Writers; w++ {
		for j := 0; j < cfg.SeriesPerW; j++ {
			s := st.seriesID(w, j)
			warm = append(warm, mkRow(s, 0, int64(-1-s)))
		}
	}
	if cfg.Engine {
		warm = append(warm, mkRowM(mst2, 0, 0, 0))
	}
	if err := st.doWrite(warm); err != nil {
		st.fail("harness", -1, -1, "warm-up write: %v", err)
		return st.out
	}
	if cfg.Engine {
		warm = warm[:len(warm)-1]
	}
	sh.FlushIndex()
	deadline := time.Now().Add(10 * time.Second)
	for {
		res := st.doQuery(mst, 0, kInf, true)
		if res.err == nil {
			res3 := st.doQuery(mst3, 0, kInf, true)
			res.err = res3.err
			for p, x := range res3.rows {
				res.rows[p] = x
			}
		}
		if res.err == nil && len(res.rows) == len(warm) {
			t := st.tick()
			for p := range res.rows {
				st.seen[p.S].Store(t)
			}
			break
		}
		if time.Now().After(deadline) {
			st.fail("harness", -1, -1, "warm-up rows not visible after 10s: %d of %d err=%v", len(res.rows), len(warm), res.err)
			return st.out
		}
		time.Sleep(50 * time.Millisecond)
	}
	var wgW, wgR, wgB sync.WaitGroup
	for w := 0; w < cfg.Writers; w++ {
		wgW.Add(1)
		go st.writer(w, r.Fork(), &wgW)
	}
	for c := 0; c < cfg.Readers; c++ {
		wgR.Add(1)
		go st.reader(c, r.Fork(), &wgR)
	}
	wgB.Add(2)
	go st.flusher(r.Fork(), &wgB)
	go st.compactor(r.Fork(), &wgB)
	if cfg.Engine {
		wgB.Add(2)
		go st.m2writer(r.Fork(), &wgB)
		go st.dropper(r.Fork(), &wgB)
		if os.Getenv("C04_SKIP_RAFT_LOOKUPS") == "" {
			wgB.Add(1)
			go st.raftLookups(r.Fork(), &wgB)
		}
	}

	// one quiet window per round: forced flushes stop, then writers stop with rows left in the memtable; after the
	// write-cold duration (1 s, second granularity) the shard's own Snapshot goroutine flushes; forced flushes resume at
	// a random moment inside the window so that a forced flush may meet a background snapshot in flight
	go func() {
		time.Sleep(time.Duration(cfg.DurationMs*35/100) * time.Millisecond)
		st.pauseF.Store(true)
		time.Sleep(120 * time.Millisecond)
		st.pauseW.Store(true)
		time.Sleep(time.Duration(1000+int(cfg.Seed%1100)) * time.Millisecond)
		st.pauseF.Store(false)
		time.Sleep(150 * time.Millisecond)
		st.pauseW.Store(false)
		st.bgWindows.Add(1)
	}()
	time.Sleep(time.Duration(cfg.DurationMs) * time.Millisecond)
	// final close while everything is in flight
	st.out.EndOrder = sh.TableStore().GetTableFileNum(mst, true)
	st.out.EndUnorder = sh.TableStore().GetTableFileNum(mst, false)
	st.closing.Store(true)
	t0 := time.Now()
	done := make(chan error, 1)
	go func() {
		defer func() {
			if e := recover(); e != nil {
				done <- fmt.Errorf("PANIC in close: %v\n%s", e, debug.Stack())
			}
		}()
		done <- st.doClose()
	}()
	select {
	case err := <-done:
		if err != nil {
			st.out.CloseErr = err.Error()
			if len(st.out.CloseErr) > 5 && st.out.CloseErr[:5] == "PANIC" {
				st.fail("panic", -1, -1, "%s", st.out.CloseErr)
			} else {
				st.fail("close-error", -1, -1, "close returned %v", err)
			}
		}
	case <-time.After(2 * watchdog):
		st.fail("close-deadlock", -1, -1, "close / drop did not return within %v while writers/readers/flush/compaction were in flight\n%s", 2*watchdog, allStacks())
		return st.abandoned()
	}
	st.out.CloseMs = time.Since(t0).Milliseconds()
	st.closed.Store(true)
	st.stop.Store(true)
	st.out.FileSeqEnd = sh.TableStore().GetFileSeq()
	fin := make(chan struct{})
	go func() { wgW.Wait(); wgR.Wait(); wgB.Wait(); close(fin) }()
	select {
	case <-fin:
	case <-time.After(2 * watchdog):
		st.fail("post-close-hang", -1, -1, "clients still blocked %v after close returned\n%s", 2*watchdog, allStacks())
		return st.abandoned()
	}
	if cfg.Engine {
		if cfg.Fin == "dropdb" && st.out.CloseErr == "" {
			if _, err := os.Stat(filepath.Join(st.env.dir, "data", engDB, fmt.Sprint(engPT))); err == nil {
				st.fail("close-error", -1, -1, "DeleteDatabase returned nil but the partition directory is still there")
			}
		}
		if cfg.Fin == "dropdb" {
			h := startOp(st.env.e.Close)
			select {
			case <-h.done:
			case <-time.After(2 * watchdog):
				st.fail("close-deadlock", -1, -1, "Engine.Close after DeleteDatabase did not return\n%s", allStacks())
			}
		}
		return st.out
	}
	_ = sh.CloseIndex()
	return st.out
}

// abandoned: the round is given up while clients are still running (they update the counters atomically): report the
// configuration and the failures only
func (st *stress) abandoned() stressOut {
	st.mu.Lock()
	defer st.mu.Unlock()
	return stressOut{Kind: "stress", Cfg: st.cfg, Failures: append([]failure{}, st.out.Failures...), NFailures: st.out.NFailures, NInOrderLost: st.out.NInOrderLost}
}

func allStacks() string {
	buf := make([]byte, 1<<20)
	n := runtimeStack(buf)
	s := string(buf[:n])
	os.Stderr.WriteString("==== goroutine dump ====\n" + s + "\n==== end dump ====\n")
	// keep only the goroutines that are inside the storage engine
	var keep []string
	for _, g := range strings.Split(s, "\n\n") {
		if strings.Contains(g, "openGemini/engine") && !strings.Contains(g, "Compactor).run") {
			keep = append(keep, g)
		}
	}
	// goroutines waiting for a read/write mutex first: they are what a deadlock report is about
	sort.SliceStable(keep, func(i, j int) bool {
		return strings.Contains(keep[i], "sync.(*RWMutex)") && !strings.Contains(keep[j], "sync.(*RWMutex)")
	})
	s = strings.Join(keep, "\n\n")
	if len(s) > 30000 {
		s = s[:30000]
	}
	return s
}
