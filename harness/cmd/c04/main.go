// C04 harness: concurrent writes, flushes, compactions and queries on one real shard.
//
//	c04 stress <rounds> <duration-ms>     free-running stress (build with -race), direct oracle per query
//	c04 sched  <file>                      model-guided forced schedules read from <file> (one JSON per line)
//	c04 eng    <file>                      engine / partition level probes (see eng.go)
//
// One JSON object per line on stdout; everything else (logs, race reports) goes to stderr.
package main

import (
	"flag"
	"fmt"
	"os"
	"runtime"
	"strconv"

	"verifharness/internal/gen"
)

func runtimeStack(buf []byte) int { return runtime.Stack(buf, true) }

func main() {
	flag.Parse() // the lifted VictoriaMetrics memory package insists on it
	if len(os.Args) < 2 {
		fmt.Fprintln(os.Stderr, "usage: c04 stress <rounds> <ms> | c04 sched <file>")
		os.Exit(2)
	}
	switch os.Args[1] {
	case "stress":
		rounds, _ := strconv.Atoi(os.Args[2])
		ms, _ := strconv.Atoi(os.Args[3])
		initEngine(30 << 20)
		calibrate()
		r := gen.FromEnv(0xC04)
		for i := 0; i < rounds; i++ {
			cfg := stressCfg{Round: i, Seed: r.Uint64(), Writers: r.Range(2, 4), Readers: r.Range(2, 4),
				SeriesPerW: r.Range(1, 3), LateSeries: r.Range(0, 2), DurationMs: ms,
				FlushMinMs: 5, FlushMaxMs: r.Range(20, 120), WriterPause: []int{0, 50, 300}[r.Intn(3)]}
			// odd rounds go through the engine API and end with Engine.Close or DeleteDatabase in flight
			if i%2 == 1 {
				cfg.Engine = true
				cfg.Fin = []string{"close", "dropdb"}[r.Intn(2)]
			}
			out := runStress(cfg)
			gen.Emit(out)
		}
		gen.Emit(map[string]any{"kind": "done"})
	case "sched":
		runSched(os.Args[2:])
	case "eng":
		runEng(os.Args[2:])
	default:
		fmt.Fprintln(os.Stderr, "unknown mode")
		os.Exit(2)
	}
}
