// Model-guided forced schedules: each case names actors (writer / reader / flusher / merge / closer) and a schedule
// over the steps of the Coq machine (C04/Model.v, flusher in the 4-step layout of variant `current`).  The harness
// forces that interleaving on a real shard by parking goroutines at lib/verifhook.Yield points, and reports the set
// of batches every query returned.  Batch b is the row (series 1, logical time b, value b).
package main

import (
	"bufio"
	"encoding/json"
	"fmt"
	"os"
	"runtime/debug"
	"sort"
	"sync"
	"time"

	"github.com/openGemini/openGemini/engine"
	"github.com/openGemini/openGemini/lib/util/lifted/vm/protoparser/influx"
	"github.com/openGemini/openGemini/lib/verifhook"
	"verifharness/internal/gen"
)

type actorSpec struct {
	K  string  `json:"k"` // W R F M C
	Bs []int64 `json:"bs,omitempty"`
	N  int     `json:"n,omitempty"`
}

type schedCase struct {
	ID     int         `json:"id"`
	Actors []actorSpec `json:"actors"`
	Sched  []int       `json:"sched"`
	Tag    string      `json:"tag,omitempty"`
}

type schedOut struct {
	Kind    string               `json:"kind"`
	ID      int                  `json:"id"`
	Tag     string               `json:"tag,omitempty"`
	Results map[string][][]int64 `json:"results"` // reader actor index -> result sets of its queries, in order
	Trace   []string             `json:"trace"`
	Err     string               `json:"err,omitempty"`
	Stuck   bool                 `json:"stuck,omitempty"`
}

type event struct {
	point string // "" = finished
}

type sactor struct {
	spec    actorSpec
	idx     int
	step    int // model steps of this actor executed so far
	running bool
	at      string // park point the goroutine is waiting at ("" if none)
	targets map[string]bool
	ev      chan event
	resume  chan struct{}
	results [][]int64
	err     error
}

type controller struct {
	mu  sync.Mutex
	cur *sactor
	out *schedOut
}

var ctl controller

func hookHandler(point string) {
	ctl.mu.Lock()
	a := ctl.cur
	park := a != nil && a.targets[point]
	ctl.mu.Unlock()
	if !park {
		return
	}
	a.ev <- event{point}
	<-a.resume
}

const stepTimeout = 5 * time.Second

// advance lets actor a run (starting it with start, or resuming it) until it parks at one of targets or finishes.
// quiet > 0: the work happens in engine goroutines; "no park within quiet" counts as finished.
func (c *controller) advance(a *sactor, targets []string, start func(), quiet time.Duration) (string, bool) {
	c.mu.Lock()
	c.cur = a
	a.targets = map[string]bool{}
	for _, t := range targets {
		a.targets[t] = true
	}
	c.mu.Unlock()
	if a.at != "" {
		a.at = ""
		a.resume <- struct{}{}
	} else if start != nil {
		a.running = true
		go start()
	}
	to := stepTimeout
	if quiet > 0 {
		to = quiet
	}
	select {
	case e := <-a.ev:
		a.at = e.point
		if e.point == "" {
			a.running = false
		}
		return e.point, true
	case <-time.After(to):
		if quiet > 0 {
			a.running = false
			return "", true
		}
		return "", false
	}
}

func sortedKeys(m map[point]val) []int64 {
	ks := []int64{}
	for p := range m {
		ks = append(ks, p.K)
	}
	sort.Slice(ks, func(i, j int) bool { return ks[i] < ks[j] })
	return ks
}

func runCase(cs schedCase) (out schedOut) {
	out = schedOut{Kind: "sched", ID: cs.ID, Tag: cs.Tag, Results: map[string][][]int64{}, Trace: []string{}}
	defer func() {
		if e := recover(); e != nil {
			out.Err = fmt.Sprintf("PANIC in harness/engine: %v\n%s", e, debug.Stack())
		}
	}()
	sh, err := openShard(fmt.Sprintf("c04-sched-%d", cs.ID))
	if err != nil {
		out.Err = "open shard: " + err.Error()
		return
	}
	closed := false
	// make the series visible in the index before the schedule starts (the row at logical time 0 is not a batch
	// and lies outside the range the queries ask for)
	if err := writeRows(sh, []influx.Row{mkRow(1, 0, 0)}); err != nil {
		out.Err = "warm-up: " + err.Error()
		return
	}
	sh.FlushIndex()
	actors := make([]*sactor, len(cs.Actors))
	for i, sp := range cs.Actors {
		actors[i] = &sactor{spec: sp, idx: i, ev: make(chan event, 4), resume: make(chan struct{})}
	}
	ctl.mu.Lock()
	ctl.cur = nil
	ctl.mu.Unlock()
	verifhook.SetHandler(hookHandler)
	defer verifhook.SetHandler(nil)
	trace := func(a *sactor, what string) { out.Trace = append(out.Trace, fmt.Sprintf("%d:%s", a.idx, what)) }

	for pos, ai := range cs.Sched {
		if ai < 0 || ai >= len(actors) {
			out.Err = fmt.Sprintf("bad actor index %d", ai)
			break
		}
		a := actors[ai]
		st := a.step
		a.step++
		ok := true
		var at string
		switch a.spec.K {
		case "W":
			if st%2 == 0 {
				b := a.spec.Bs[st/2]
				err := writeRows(sh, []influx.Row{mkRow(1, b, b)})
				if err != nil {
					trace(a, fmt.Sprintf("write %d rejected", b))
				} else {
					trace(a, fmt.Sprintf("write %d", b))
				}
			}
		case "R":
			switch st % 5 {
			case 0:
				at, ok = ctl.advance(a, []string{"cloneReaders.afterSnapshotPtr"}, func() {
					res := runQuery(sh, 1, (1<<20)-1, true)
					if res.err != nil {
						a.err = res.err
					}
					a.results = append(a.results, sortedKeys(res.rows))
					a.ev <- event{""}
				}, 0)
			case 1:
				if a.running {
					at, ok = ctl.advance(a, []string{"cloneReaders.beforeMemRef"}, nil, 0)
				}
			case 2:
				if a.running {
					at, ok = ctl.advance(a, nil, nil, 0)
				}
			}
			if st%5 <= 2 {
				trace(a, "query@"+at)
			}
		case "F":
			switch st % 4 {
			case 0:
				at, ok = ctl.advance(a, []string{"writeSnapshot.afterSwap"}, func() {
					sh.ForceFlush()
					a.ev <- event{""}
				}, 0)
			case 1:
				if a.running {
					at, ok = ctl.advance(a, []string{"AddBothTSSPFiles.beforeLock", "writeSnapshot.beforeDrop"}, nil, 0)
				}
			case 2:
				if a.running && a.at != "writeSnapshot.beforeDrop" {
					at, ok = ctl.advance(a, []string{"writeSnapshot.beforeDrop"}, nil, 0)
				}
			case 3:
				if a.running {
					at, ok = ctl.advance(a, nil, nil, 0)
				}
			}
			trace(a, "flush@"+at)
		case "M":
			switch st {
			case 0:
				at, ok = ctl.advance(a, []string{"ReplaceFiles.beforeLock"}, func() {
					_ = sh.TableStore().MergeOutOfOrder(sh.ID(), false, true)
				}, 450*time.Millisecond)
			case 1:
				if a.running {
					at, ok = ctl.advance(a, []string{"deleteUnorderedFiles.beforeMapDelete"}, nil, 450*time.Millisecond)
				}
			case 2:
				if a.running {
					at, ok = ctl.advance(a, nil, nil, 200*time.Millisecond)
				}
			}
			if !a.running && st <= 2 {
				// nothing (more) to do for the merge: make sure its goroutines are gone
				ctl.mu.Lock()
				ctl.cur = nil
				ctl.mu.Unlock()
				sh.DisableCompAndMerge()
				sh.EnableCompAndMerge()
			}
			trace(a, "merge@"+at)
		case "C":
			if st == 0 {
				done := make(chan error, 1)
				go func() { done <- sh.CloseShard() }()
				select {
				case err := <-done:
					if err != nil {
						out.Err = "close: " + err.Error()
					}
					closed = true
				case <-time.After(stepTimeout):
					ok = false
				}
				trace(a, "close")
			}
		default:
			out.Err = "unknown actor kind " + a.spec.K
		}
		if !ok {
			out.Stuck = true
			out.Err = fmt.Sprintf("step %d (actor %d %s, its step %d) did not reach its park point or finish within %v: the implementation blocks where the model says the step is enabled\n%s",
				pos, ai, a.spec.K, st, stepTimeout, engineStacks())
			return // goroutines may be leaked; the driver treats a stuck case as a correspondence failure
		}
		if out.Err != "" {
			break
		}
	}
	// let everything that is still parked finish
	for _, a := range actors {
		for a.running && a.at != "" {
			if _, ok := ctl.advance(a, nil, nil, 0); !ok {
				out.Stuck = true
				out.Err = "leftover actor did not finish"
				return
			}
		}
	}
	ctl.mu.Lock()
	ctl.cur = nil
	ctl.mu.Unlock()
	for i, a := range actors {
		if a.spec.K == "R" {
			out.Results[fmt.Sprint(i)] = a.results
			if a.results == nil {
				out.Results[fmt.Sprint(i)] = [][]int64{}
			}
			if a.err != nil && out.Err == "" {
				out.Err = "query: " + a.err.Error()
			}
		}
	}
	if !closed {
		if err := closeWithTimeout(sh); err != nil && out.Err == "" {
			out.Err = err.Error()
		}
	}
	_ = sh.CloseIndex()
	return
}

func closeWithTimeout(sh *engine.VerifC04Shard) error {
	done := make(chan error, 1)
	go func() { done <- sh.CloseShard() }()
	select {
	case err := <-done:
		return err
	case <-time.After(20 * time.Second):
		return fmt.Errorf("final close did not return within 20s")
	}
}

func engineStacks() string {
	buf := make([]byte, 1<<20)
	n := runtimeStack(buf)
	s := string(buf[:n])
	if len(s) > 12000 {
		s = s[:12000]
	}
	return s
}

func runSched(args []string) {
	coldDuration = time.Hour // no background snapshot may interfere with a forced schedule
	initEngine(30 << 20)
	f, err := os.Open(args[0])
	if err != nil {
		fmt.Fprintln(os.Stderr, err)
		os.Exit(2)
	}
	defer f.Close()
	sc := bufio.NewScanner(f)
	sc.Buffer(make([]byte, 1<<20), 1<<24)
	n := 0
	for sc.Scan() {
		var cs schedCase
		if err := json.Unmarshal(sc.Bytes(), &cs); err != nil {
			continue
		}
		out := runCase(cs)
		gen.Emit(out)
		n++
		if out.Stuck {
			// goroutines parked inside the engine are leaked and may hold engine-wide resources: stop here, the driver
			// reports the stuck case (a correspondence failure) and does not count the remaining cases
			gen.Emit(map[string]any{"kind": "done", "cases": n, "aborted": true})
			os.Exit(0)
		}
	}
	gen.Emit(map[string]any{"kind": "done", "cases": n})
}
