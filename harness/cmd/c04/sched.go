// Model-guided forced schedules: each case names actors (writer / reader / flusher / merge / closer) and a schedule
// over the steps of the Coq machine (C04/Model.v, flusher in the 4-step layout of variant `current`).  The harness
// forces that interleaving on a real shard by parking goroutines at lib/verifhook.Yield points, and reports the set
// of batches every query returned.  Batch b is the row (series 1, logical time b, value b).
package main

import (
	"bufio"
	"encoding/json"
	"fmt"
	"os"
	"runtime"
	"runtime/debug"
	"sort"
	"sync"
	"time"

	"github.com/openGemini/openGemini/engine"
	"github.com/openGemini/openGemini/lib/util/lifted/vm/protoparser/influx"
	"github.com/openGemini/openGemini/lib/verifhook"
	"verifharness/internal/gen"
)

type actorSpec struct {
	K  string  `json:"k"` // W R F M C, B = the shard's own background snapshot goroutine (write-cold trigger)
	Bs []int64 `json:"bs,omitempty"`
	N  int     `json:"n,omitempty"`
}

type schedCase struct {
	ID     int         `json:"id"`
	Actors []actorSpec `json:"actors"`
	Sched  []int       `json:"sched"`
	Tag    string      `json:"tag,omitempty"`
}

type schedOut struct {
	Kind      string               `json:"kind"`
	ID        int                  `json:"id"`
	Tag       string               `json:"tag,omitempty"`
	Results   map[string][][]int64 `json:"results"` // reader actor index -> result sets of its queries, in order
	Trace     []string             `json:"trace"`
	Err       string               `json:"err,omitempty"`
	Stuck     bool                 `json:"stuck,omitempty"`
	ProbeFail string               `json:"probe_fail,omitempty"` // a step the model says is disabled went ahead in the implementation
}

type event struct {
	point string // "" = finished
}

type sactor struct {
	spec    actorSpec
	idx     int
	step    int // model steps of this actor executed so far
	running bool
	started bool   // started early by a negative probe (was blocked then)
	at      string // park point the goroutine is waiting at ("" if none)
	targets map[string]bool
	ev      chan event
	resume  chan struct{}
	results [][]int64
	err     error
	nUnord  int // out-of-order files when the merge started
}

type controller struct {
	mu    sync.Mutex
	cur   *sactor
	byGID map[uint64]*sactor // goroutines started by the harness for an actor
	out   *schedOut
}

var ctl controller

// curGID parses "goroutine N [" from the current goroutine's stack header
func curGID() uint64 {
	var b [64]byte
	n := runtime.Stack(b[:], false)
	var id uint64
	for _, c := range b[len("goroutine "):n] {
		if c < '0' || c > '9' {
			break
		}
		id = id*10 + uint64(c-'0')
	}
	return id
}

func (c *controller) register(a *sactor) {
	id := curGID()
	c.mu.Lock()
	c.byGID[id] = a
	c.mu.Unlock()
}

// a point reached in a goroutine the harness started belongs to that actor; points reached in engine goroutines
// (flush workers, merge, the background snapshot loop) belong to the actor that is being advanced
func hookHandler(point string) {
	gid := curGID()
	ctl.mu.Lock()
	a := ctl.byGID[gid]
	if a == nil {
		a = ctl.cur
	}
	park := a != nil && a.targets[point]
	ctl.mu.Unlock()
	if !park {
		return
	}
	a.ev <- event{point}
	<-a.resume
}

const stepTimeout = 5 * time.Second

// advance lets actor a run (starting it with start, or resuming it) until it parks at one of targets or finishes.
// quiet > 0: the work happens in engine goroutines; "no park within quiet" counts as finished.
func (c *controller) advance(a *sactor, targets []string, start func(), quiet time.Duration) (string, bool) {
	c.mu.Lock()
	c.cur = a
	a.targets = map[string]bool{}
	for _, t := range targets {
		a.targets[t] = true
	}
	c.mu.Unlock()
	if a.at != "" {
		a.at = ""
		a.resume <- struct{}{}
	} else if start != nil && !a.started {
		a.running = true
		go start()
	}
	a.started = false
	to := stepTimeout
	if quiet > 0 {
		to = quiet
	}
	select {
	case e := <-a.ev:
		a.at = e.point
		if e.point == "" {
			a.running = false
		}
		return e.point, true
	case <-time.After(to):
		if quiet > 0 {
			a.running = false
			return "", true
		}
		return "", false
	}
}

func sortedKeys(m map[point]val) []int64 {
	ks := []int64{}
	for p, x := range m {
		// a batch b >= 1000 overwrites the point at time b%1000 (value b): the reported batch is the VALUE found at the
		// time (for b < 1000 value = time), so the newest write of a point is what a view must show
		if x.W != wOf(x.V) {
			ks = append(ks, -1) // torn row
			continue
		}
		_ = p
		ks = append(ks, x.V)
	}
	sort.Slice(ks, func(i, j int) bool { return ks[i] < ks[j] })
	return ks
}

func runCase(cs schedCase) (out schedOut) {
	out = schedOut{Kind: "sched", ID: cs.ID, Tag: cs.Tag, Results: map[string][][]int64{}, Trace: []string{}}
	defer func() {
		if e := recover(); e != nil {
			out.Err = fmt.Sprintf("PANIC in harness/engine: %v\n%s", e, debug.Stack())
		}
	}()
	cold := time.Hour
	for _, sp := range cs.Actors {
		if sp.K == "B" {
			cold = time.Second // the background snapshot fires after ~1-2 s without writes
		}
	}
	sh, err := openShardCold(fmt.Sprintf("c04-sched-%d", cs.ID), cold)
	if err != nil {
		out.Err = "open shard: " + err.Error()
		return
	}
	closed := false
	// make the series visible in the index before the schedule starts (the row at logical time 0 is not a batch
	// and lies outside the range the queries ask for)
	if err := writeRows(sh, []influx.Row{mkRow(1, 0, 0)}); err != nil {
		out.Err = "warm-up: " + err.Error()
		return
	}
	sh.FlushIndex()
	actors := make([]*sactor, len(cs.Actors))
	for i, sp := range cs.Actors {
		actors[i] = &sactor{spec: sp, idx: i, ev: make(chan event, 4), resume: make(chan struct{})}
	}
	ctl.mu.Lock()
	ctl.cur = nil
	ctl.byGID = map[uint64]*sactor{}
	ctl.mu.Unlock()
	verifhook.SetHandler(hookHandler)
	defer verifhook.SetHandler(nil)
	trace := func(a *sactor, what string) { out.Trace = append(out.Trace, fmt.Sprintf("%d:%s", a.idx, what)) }

	flushBody := func(a *sactor) func() {
		return func() {
			ctl.register(a)
			defer func() {
				if e := recover(); e != nil {
					a.err = fmt.Errorf("PANIC in flush: %v\n%s", e, debug.Stack())
				}
				a.ev <- event{""}
			}()
			sh.ForceFlush()
		}
	}
	for pos, ai := range cs.Sched {
		if ai < 0 && -ai-1 < len(actors) && actors[-ai-1].spec.K == "F" {
			// negative probe: the model says the next flush of this actor cannot start here (a snapshot is in flight);
			// the implementation must block as well
			a := actors[-ai-1]
			ctl.mu.Lock()
			a.targets = map[string]bool{"writeSnapshot.afterSwap": true}
			ctl.mu.Unlock()
			a.running = true
			a.started = true
			go flushBody(a)()
			select {
			case e := <-a.ev:
				a.at = e.point
				a.started = false
				if e.point == "" {
					a.running = false
				}
				if out.ProbeFail == "" {
					out.ProbeFail = fmt.Sprintf("schedule position %d: ForceFlush of actor %d went ahead (reached %q) although a snapshot was in flight; the model says this step is disabled", pos, a.idx, e.point)
				}
				trace(a, "probe-NOT-blocked@"+e.point)
			case <-time.After(300 * time.Millisecond):
				trace(a, "probe-blocked")
			}
			continue
		}
		if ai < 0 || ai >= len(actors) {
			out.Err = fmt.Sprintf("bad actor index %d", ai)
			break
		}
		a := actors[ai]
		st := a.step
		a.step++
		ok := true
		var at string
		switch a.spec.K {
		case "W":
			if st%2 == 0 {
				b := a.spec.Bs[st/2]
				err := writeRows(sh, []influx.Row{mkRow(1, b%1000, b)})
				if err != nil {
					trace(a, fmt.Sprintf("write %d rejected", b))
				} else {
					trace(a, fmt.Sprintf("write %d", b))
				}
			}
		case "R", "A":
			switch st % 5 {
			case 0:
				at, ok = ctl.advance(a, []string{"cloneReaders.afterSnapshotPtr"}, func() {
					ctl.register(a)
					if a.spec.K == "A" {
						// aggregate reader: count(v) of series 1 through the pre-aggregation path; the "result" is [count]
						counts, err := runCount(sh, mst, 1, (1<<20)-1)
						if err != nil {
							a.err = err
						}
						a.results = append(a.results, []int64{counts[1]})
						a.ev <- event{""}
						return
					}
					res := runQuery(sh, 1, (1<<20)-1, true)
					if res.err != nil {
						a.err = res.err
					}
					a.results = append(a.results, sortedKeys(res.rows))
					a.ev <- event{""}
				}, 0)
			case 1:
				if a.running {
					at, ok = ctl.advance(a, []string{"cloneReaders.beforeMemRef"}, nil, 0)
				}
			case 2:
				if a.running {
					at, ok = ctl.advance(a, nil, nil, 0)
				}
			}
			if st%5 <= 2 {
				trace(a, "query@"+at)
			}
		case "F":
			switch st % 4 {
			case 0:
				if a.at == "writeSnapshot.afterSwap" { // already there (a failed negative probe let it through)
					at = a.at
				} else {
					at, ok = ctl.advance(a, []string{"writeSnapshot.afterSwap"}, flushBody(a), 0)
				}
			case 1:
				if a.running {
					at, ok = ctl.advance(a, []string{"AddBothTSSPFiles.beforeLock", "writeSnapshot.beforeDrop"}, nil, 0)
				}
			case 2:
				if a.running && a.at != "writeSnapshot.beforeDrop" {
					at, ok = ctl.advance(a, []string{"writeSnapshot.beforeDrop"}, nil, 0)
				}
			case 3:
				if a.running {
					at, ok = ctl.advance(a, nil, nil, 0)
				}
			}
			trace(a, "flush@"+at)
			if a.err != nil && out.Err == "" {
				out.Err = a.err.Error()
			}
		case "B":
			// the shard's own Snapshot goroutine: it starts when the shard has been idle for the cold duration
			switch st % 4 {
			case 0:
				a.running = true
				at, ok = ctl.advance(a, []string{"writeSnapshot.afterSwap"}, func() {}, 4*time.Second)
				if at == "" {
					ok = false // the background snapshot did not start
				}
			case 1:
				at, ok = ctl.advance(a, []string{"AddBothTSSPFiles.beforeLock", "writeSnapshot.beforeDrop"}, nil, 0)
			case 2:
				if a.at != "writeSnapshot.beforeDrop" {
					at, ok = ctl.advance(a, []string{"writeSnapshot.beforeDrop"}, nil, 0)
				}
			case 3:
				at, ok = ctl.advance(a, nil, nil, 150*time.Millisecond)
			}
			trace(a, "bgsnapshot@"+at)
		case "M":
			ts := sh.TableStore()
			switch st {
			case 0:
				a.nUnord = ts.GetTableFileNum(mst, false)
				if a.nUnord == 0 || ts.GetTableFileNum(mst, true) == 0 {
					// nothing to merge: the call returns without touching the lists (the model skips the operation)
					_ = ts.MergeOutOfOrder(sh.ID(), false, true)
				} else {
					at, ok = ctl.advance(a, []string{"ReplaceFiles.beforeLock"}, func() {
						_ = ts.MergeOutOfOrder(sh.ID(), false, true)
					}, 1500*time.Millisecond)
				}
			case 1:
				if a.running {
					q := 1500 * time.Millisecond
					if ts.GetTableFileNum(mst, false) > a.nUnord {
						q = 60 * time.Millisecond // a flush added an out-of-order file: the list will not become empty, no park
					}
					at, ok = ctl.advance(a, []string{"deleteUnorderedFiles.beforeMapDelete"}, nil, q)
				}
			case 2:
				if a.running {
					at, ok = ctl.advance(a, nil, nil, 20*time.Millisecond)
				}
			}
			if !a.running && st <= 2 {
				// nothing (more) to do for the merge: make sure its goroutines are gone
				ctl.mu.Lock()
				ctl.cur = nil
				ctl.mu.Unlock()
				sh.DisableCompAndMerge()
				sh.EnableCompAndMerge()
			}
			trace(a, "merge@"+at)
		case "C":
			if st == 0 {
				done := make(chan error, 1)
				go func() { done <- sh.CloseShard() }()
				select {
				case err := <-done:
					if err != nil {
						out.Err = "close: " + err.Error()
					}
					closed = true
				case <-time.After(stepTimeout):
					ok = false
				}
				trace(a, "close")
			}
		default:
			out.Err = "unknown actor kind " + a.spec.K
		}
		if !ok {
			out.Stuck = true
			out.Err = fmt.Sprintf("step %d (actor %d %s, its step %d) did not reach its park point or finish within %v: the implementation blocks where the model says the step is enabled\n%s",
				pos, ai, a.spec.K, st, stepTimeout, engineStacks())
			return // goroutines may be leaked; the driver treats a stuck case as a correspondence failure
		}
		if out.Err != "" {
			break
		}
	}
	// let everything that is still parked finish
	for _, a := range actors {
		for a.running && a.at != "" {
			if _, ok := ctl.advance(a, nil, nil, 0); !ok {
				out.Stuck = true
				out.Err = "leftover actor did not finish"
				return
			}
		}
	}
	ctl.mu.Lock()
	ctl.cur = nil
	ctl.mu.Unlock()
	for i, a := range actors {
		if a.spec.K == "R" || a.spec.K == "A" {
			out.Results[fmt.Sprint(i)] = a.results
			if a.results == nil {
				out.Results[fmt.Sprint(i)] = [][]int64{}
			}
			if a.err != nil && out.Err == "" {
				out.Err = "query: " + a.err.Error()
			}
		}
	}
	if !closed {
		if err := closeWithTimeout(sh); err != nil && out.Err == "" {
			out.Err = err.Error()
		}
	}
	_ = sh.CloseIndex()
	return
}

func closeWithTimeout(sh *engine.VerifC04Shard) error {
	done := make(chan error, 1)
	go func() { done <- sh.CloseShard() }()
	select {
	case err := <-done:
		return err
	case <-time.After(20 * time.Second):
		return fmt.Errorf("final close did not return within 20s")
	}
}

func engineStacks() string {
	buf := make([]byte, 1<<20)
	n := runtimeStack(buf)
	s := string(buf[:n])
	if len(s) > 12000 {
		s = s[:12000]
	}
	return s
}

func runSched(args []string) {
	coldDuration = time.Hour // no background snapshot may interfere with a forced schedule
	initEngine(30 << 20)
	f, err := os.Open(args[0])
	if err != nil {
		fmt.Fprintln(os.Stderr, err)
		os.Exit(2)
	}
	defer f.Close()
	sc := bufio.NewScanner(f)
	sc.Buffer(make([]byte, 1<<20), 1<<24)
	n := 0
	for sc.Scan() {
		var cs schedCase
		if err := json.Unmarshal(sc.Bytes(), &cs); err != nil {
			continue
		}
		gen.Emit(map[string]any{"kind": "start", "id": cs.ID})
		out := runCase(cs)
		gen.Emit(out)
		n++
		if out.Stuck {
			// goroutines parked inside the engine are leaked and may hold engine-wide resources: stop here, the driver
			// reports the stuck case (a correspondence failure) and does not count the remaining cases
			gen.Emit(map[string]any{"kind": "done", "cases": n, "aborted": true})
			os.Exit(0)
		}
	}
	gen.Emit(map[string]any{"kind": "done", "cases": n})
}
