// Engine / partition level of C04: operations go through the engine API (EngineImpl.mu -> DBPTInfo.ref/unref,
// DBPTInfo.mu -> shard.mu), close and drop run while operations are in flight.
//
//	c04 eng <file>     probes read from <file> (one JSON per line); one JSON object per probe on stdout
//
// A probe never decides "blocked" from a time-out: an operation counts as blocked only when the stack of its
// goroutine shows it waiting inside sync.RWMutex (RLock / Lock) or on the drain channel of DeleteDatabase; it counts
// as finished when it returned. The watchdog (scaled with the measured speed of the machine) only guards against the
// third case "neither", which is reported as a harness error.
package main

import (
	"bufio"
	"context"
	"encoding/json"
	"fmt"
	"os"
	"path/filepath"
	"regexp"
	"runtime"
	"runtime/debug"
	"strings"
	"sync"
	"time"

	"github.com/openGemini/openGemini/engine"
	"github.com/openGemini/openGemini/lib/config"
	"github.com/openGemini/openGemini/lib/metaclient"
	"github.com/openGemini/openGemini/lib/record"
	"github.com/openGemini/openGemini/lib/util"
	"github.com/openGemini/openGemini/lib/util/lifted/influx/influxql"
	"github.com/openGemini/openGemini/lib/util/lifted/influx/meta"
	"github.com/openGemini/openGemini/lib/util/lifted/influx/query"
	"github.com/openGemini/openGemini/lib/util/lifted/vm/protoparser/influx"
	"verifharness/internal/gen"

	"github.com/openGemini/openGemini/engine/executor"
)

const (
	engDB  = "db0"
	engRP  = "rp0"
	engPT  = uint32(1)
	engSID = uint64(1)
	mst2   = "m2" // the measurement that gets dropped
)

type engEnv struct {
	e   *engine.EngineImpl
	dir string
}

var loadCtxOnce sync.Once
var loadCtx *metaclient.LoadCtx

func sharedLoadCtx() *metaclient.LoadCtx {
	loadCtxOnce.Do(func() {
		loadCtx = &metaclient.LoadCtx{LoadCh: make(chan *metaclient.DBPTCtx, 16)}
		go func() {
			for c := range loadCtx.LoadCh {
				loadCtx.PutReportCtx(c)
			}
		}()
	})
	return loadCtx
}

// openEngine builds an engine instance and fills it through the public API: SetMetaClient, CreateDBPT, CreateShard.
func openEngine(name string) (*engEnv, error) {
	dir := filepath.Join(workDir(), name)
	_ = os.RemoveAll(dir)
	// the process-wide part of NewEngine has run once in initEngine; further engines are plain instances
	impl := engine.VerifC04NewEngineInstance(dir, dir, engOpt, sharedLoadCtx())
	cli := metaclient.NewClient("", false, 0)
	impl.SetMetaClient(cli)
	impl.CreateDBPT(engDB, engPT, false)
	st := time.Date(1970, 1, 1, 1, 0, 0, 0, time.UTC)
	en := time.Date(2099, 1, 1, 1, 0, 0, 0, time.UTC)
	tr := meta.TimeRangeInfo{StartTime: st, EndTime: en}
	tri := &meta.ShardTimeRangeInfo{
		TimeRange:  tr,
		OwnerIndex: meta.IndexDescriptor{IndexID: 1, IndexGroupID: 1, TimeRange: tr},
		ShardDuration: &meta.ShardDurationInfo{
			Ident:        meta.ShardIdentifier{ShardID: engSID, ShardGroupID: 1, Policy: engRP, OwnerDb: engDB, OwnerPt: engPT},
			DurationInfo: meta.DurationDescriptor{Tier: util.Hot, TierDuration: time.Hour, Duration: time.Hour},
		},
	}
	if err := impl.CreateShard(engDB, engRP, engPT, engSID, tri, &meta.MeasurementInfo{EngineType: config.TSSTORE}); err != nil {
		return nil, err
	}
	return &engEnv{e: impl, dir: dir}, nil
}

func mkRowM(m string, s int, k int64, code int64) influx.Row {
	r := mkRow(s, k, code)
	r.Name = m
	r.UnmarshalIndexKeys(nil)
	return r
}

func (v *engEnv) write(rows []influx.Row) error {
	buf, err := influx.FastMarshalMultiRows(nil, rows)
	if err != nil {
		return err
	}
	return v.e.WriteRows(engDB, engRP, engPT, engSID, rows, buf, nil)
}

func mkSchemaM(m string, kmin, kmax int64, asc bool) *executor.QuerySchema {
	opt := &query.ProcessorOptions{}
	opt.Name = m
	opt.Ascending = asc
	opt.FieldAux = fieldAux
	opt.MaxParallel = 4
	opt.ChunkSize = 1000
	opt.StartTime = tsOf(kmin)
	opt.EndTime = tsOf(kmax)
	var fields influxql.Fields
	var names []string
	for i := range fieldAux {
		fields = append(fields, &influxql.Field{Expr: &fieldAux[i]})
		names = append(names, fieldAux[i].Val)
	}
	return executor.NewQuerySchema(fields, names, opt, nil)
}

// query through the engine the way the store's select handler does: DbPTRef, GetShard, cursors, DbPTUnref.
// mid (optional) runs while the reference is held.
func (v *engEnv) query(m string, mid func()) (res qresult, refErr error) {
	return v.queryRange(m, 1, kInf, true, mid)
}

func (v *engEnv) queryRange(m string, kmin, kmax int64, asc bool, mid func()) (res qresult, refErr error) {
	res.rows = make(map[point]val)
	if err := v.e.DbPTRef(engDB, engPT); err != nil {
		return res, err
	}
	defer v.e.DbPTUnref(engDB, engPT)
	defer func() {
		if e := recover(); e != nil {
			res.err = fmt.Errorf("PANIC in query: %v\n%s", e, debug.Stack())
		}
	}()
	if mid != nil {
		mid()
	}
	// the ordinary plan path: EngineImpl.CreateLogicalPlan -> GetShard -> shard.CreateLogicalPlan (under shard.mu.RLock)
	// -> CreateCursor; the cursors are then read outside the shard lock on the references they took
	src := influxql.Sources{&influxql.Measurement{Database: engDB, RetentionPolicy: engRP, Name: m}}
	plan, err := v.e.CreateLogicalPlan(context.Background(), engDB, engPT, []uint64{engSID}, src, mkSchemaM(m, kmin, kmax, asc))
	if err != nil || plan == nil {
		res.err = err
		return
	}
	dummy, ok := plan.(*executor.LogicalDummyShard)
	if !ok {
		res.err = fmt.Errorf("CreateLogicalPlan returned %T", plan)
		return
	}
	_, err = engine.VerifC04DrainInfo(dummy.GetIndexInfo(), func(key []byte, rec *record.Record) {
		s, ok := seriesOfKey(key)
		if !ok {
			res.bad = append(res.bad, fmt.Sprintf("unparsable series key %q", key))
			return
		}
		vi, wi := rec.FieldIndexs("v"), rec.FieldIndexs("w")
		times := rec.Times()
		for i := range times {
			p := point{s, kOf(times[i])}
			var x val
			var n1, n2 bool = true, true
			if vi >= 0 {
				x.V, n1 = rec.ColVals[vi].IntegerValue(i)
			}
			if wi >= 0 {
				x.W, n2 = rec.ColVals[wi].IntegerValue(i)
			}
			if n1 || n2 {
				res.bad = append(res.bad, fmt.Sprintf("null field in row s=%d k=%d", p.S, p.K))
				continue
			}
			if _, dup := res.rows[p]; dup {
				res.dups = append(res.dups, p)
			}
			res.rows[p] = x
		}
	})
	res.err = err
	return
}

// ---------------------------------------------------------------- goroutine states

var reHdr = regexp.MustCompile(`^goroutine (\d+) \[([^\]]*)\]`)

type gstate struct {
	wait  string // text between the brackets of the header
	stack string
}

func goroutineStates() map[uint64]gstate {
	buf := make([]byte, 4<<20)
	n := runtime.Stack(buf, true)
	out := map[uint64]gstate{}
	for _, blk := range strings.Split(string(buf[:n]), "\n\n") {
		m := reHdr.FindStringSubmatch(blk)
		if m == nil {
			continue
		}
		var id uint64
		fmt.Sscan(m[1], &id)
		out[id] = gstate{wait: m[2], stack: blk}
	}
	return out
}

// where a blocked goroutine waits: "emu" / "pmu" / "smu" (+ ":R" / ":W"), "drain" (DeleteDatabase waiting for the
// operation counter), "" = not recognisably blocked
func classifyWait(g gstate) string {
	w := g.wait
	if i := strings.Index(w, ","); i >= 0 {
		w = w[:i]
	}
	lines := strings.Split(g.stack, "\n")
	// innermost repository frame below the sync frames
	first := ""
	for i := 1; i < len(lines); i += 2 {
		f := strings.TrimSpace(lines[i])
		if strings.Contains(f, "openGemini/openGemini/") || strings.HasPrefix(f, "main.") {
			first = f
			break
		}
	}
	mode := ""
	switch {
	case strings.Contains(w, "RWMutex.RLock"):
		mode = "R"
	case strings.Contains(w, "RWMutex.Lock"):
		mode = "W"
	case strings.Contains(w, "sync.Mutex.Lock") && strings.Contains(g.stack, "sync.(*RWMutex).Lock("):
		mode = "W" // behind another writer: RWMutex.Lock waits on the RWMutex's internal writer mutex
	case w == "select" || w == "chan receive":
		if strings.Contains(first, "(*EngineImpl).DeleteDatabase") {
			return "drain"
		}
		return ""
	default:
		return ""
	}
	return mode + "@" + first
}

type opHandle struct {
	gid  uint64
	done chan struct{}
	err  error
	pan  string
}

func startOp(f func() error) *opHandle {
	h := &opHandle{done: make(chan struct{})}
	ready := make(chan struct{})
	go func() {
		h.gid = curGID()
		close(ready)
		defer func() {
			if e := recover(); e != nil {
				h.pan = fmt.Sprintf("PANIC: %v\n%s", e, debug.Stack())
			}
			close(h.done)
		}()
		h.err = f()
	}()
	<-ready
	return h
}

var watchdog = 30 * time.Second

// calibrate scales the watchdog with the speed of the machine right now: the time a fixed amount of scheduling
// work (goroutine ping-pong + a small file write) takes, relative to an idle machine (~2 ms)
func calibrate() {
	st := time.Now()
	ch := make(chan int)
	go func() {
		for x := range ch {
			_ = x
		}
	}()
	for i := 0; i < 2000; i++ {
		ch <- i
	}
	close(ch)
	p := filepath.Join(workDir(), "c04-calib")
	for i := 0; i < 5; i++ {
		_ = os.WriteFile(p, make([]byte, 4096), 0o644)
	}
	_ = os.Remove(p)
	d := time.Since(st)
	f := float64(d) / float64(3*time.Millisecond)
	if f < 1 {
		f = 1
	}
	if f > 20 {
		f = 20
	}
	watchdog = time.Duration(float64(30*time.Second) * f)
}

// settle waits until the operation has finished ("done") or its goroutine is recognisably blocked (returns where)
func settle(h *opHandle) (string, bool) {
	deadline := time.Now().Add(watchdog)
	stable := 0
	last := ""
	for time.Now().Before(deadline) {
		select {
		case <-h.done:
			return "done", true
		case <-time.After(20 * time.Millisecond):
		}
		all := goroutineStates()
		g, ok := all[h.gid]
		if !ok {
			continue
		}
		c := classifyWait(g)
		if c == "" && strings.Contains(g.wait, "WaitGroup.Wait") && strings.Contains(g.stack, "engine.(*EngineImpl).Close(") {
			// Engine.Close waits for the goroutines that close the partitions: look at those
			for _, g2 := range all {
				if strings.Contains(g2.stack, "created by github.com/openGemini/openGemini/engine.(*EngineImpl).Close") {
					if c2 := classifyWait(g2); c2 != "" {
						c = c2
						break
					}
				}
			}
		}
		if c != "" && c == last {
			stable++
			if stable >= 3 { // the same wait seen in 4 consecutive samples: parked, not passing through
				return c, true
			}
		} else {
			stable = 0
		}
		last = c
	}
	g := goroutineStates()[h.gid]
	return "undecided: " + g.stack, false
}

func lockName(where string, env *engEnv) string { return where }

// ---------------------------------------------------------------- probes

type engProbe struct {
	ID   int    `json:"id"`
	Kind string `json:"kind"` // footprint | reentry | drain | stress
	Op   string `json:"op,omitempty"`
	Lock string `json:"lock,omitempty"` // emu pmu smu
	Mode string `json:"mode,omitempty"` // R W
	Fin  string `json:"fin,omitempty"`  // close | dropdb (finale of a stress round / pending writer of a re-entry probe)
	Ms   int    `json:"ms,omitempty"`
	Seed uint64 `json:"seed,omitempty"`
}

type engOut struct {
	Kind    string         `json:"kind"`
	ID      int            `json:"id"`
	Probe   engProbe       `json:"probe"`
	Blocked bool           `json:"blocked"`
	Where   string         `json:"where,omitempty"`
	OpErr   string         `json:"op_err,omitempty"`
	Err     string         `json:"err,omitempty"`
	Obs     map[string]any `json:"obs,omitempty"`
}

// the operations of the engine-level model (Coq: C04/EngProgs.v), each through the engine API
func (v *engEnv) op(name string) func() error {
	switch name {
	case "write":
		return func() error { return v.write([]influx.Row{mkRowM(mst, 1, 7, 7)}) }
	case "query":
		return func() error {
			res, err := v.query(mst, nil)
			if err != nil {
				return err
			}
			return res.err
		}
	case "raftlookup":
		return func() error { return v.e.VerifC04CheckAndGetDBPTInfo(engDB, engPT) }
	case "dropmst":
		return func() error { return v.e.DropMeasurement(engDB, engRP, mst2, []uint64{engSID}) }
	case "delmst":
		return func() error { return v.e.DeleteMstInShard(engDB, engPT, engSID, mst2) }
	case "flush":
		return func() error { v.e.ForceFlush(); return nil }
	case "delshard":
		return func() error { return v.e.DeleteShard(engDB, engPT, engSID) }
	case "dropdb":
		return func() error { return v.e.DeleteDatabase(engDB, engPT) }
	case "close":
		return func() error { return v.e.Close() }
	}
	return nil
}

func (v *engEnv) mutex(lock string) *sync.RWMutex {
	switch lock {
	case "emu":
		return v.e.VerifC04EngineMu()
	case "pmu":
		return v.e.VerifC04Partition(engDB, engPT).VerifC04Mu()
	case "smu":
		return v.e.VerifC04Partition(engDB, engPT).VerifC04ShardNoLock(engSID).VerifC04Mu()
	}
	return nil
}

func (v *engEnv) warm() error {
	if err := v.write([]influx.Row{mkRowM(mst, 1, 1, 1), mkRowM(mst2, 1, 1, 1)}); err != nil {
		return err
	}
	v.e.VerifC04Partition(engDB, engPT).VerifC04ShardNoLock(engSID).FlushIndex()
	return nil
}

// which of the three mutexes the wait site belongs to
func lockOfSite(site string) string {
	switch {
	case strings.Contains(site, "(*DBPTInfo)"):
		return "pmu"
	case strings.Contains(site, "(*shard)"):
		return "smu"
	case strings.Contains(site, "(*EngineImpl).deleteShardsAndIndexes"), strings.Contains(site, "(*EngineImpl).DeleteMstInShard"),
		strings.Contains(site, "(*EngineImpl).DropMeasurement"):
		return "?" // decided by the caller from the lock it holds
	case strings.Contains(site, "(*EngineImpl)"):
		return "emu"
	}
	return "?"
}

// footprint probe: the harness holds `lock` in `mode`; does the operation get blocked, and where?
func probeFootprint(p engProbe) (out engOut) {
	out = engOut{Kind: "eng", ID: p.ID, Probe: p}
	env, err := openEngine(fmt.Sprintf("c04-eng-%d", p.ID))
	if err != nil {
		out.Err = "open engine: " + err.Error()
		return
	}
	if err := env.warm(); err != nil {
		out.Err = "warm-up: " + err.Error()
		return
	}
	mu := env.mutex(p.Lock)
	if p.Mode == "W" {
		mu.Lock()
	} else {
		mu.RLock()
	}
	h := startOp(env.op(p.Op))
	where, ok := settle(h)
	if !ok {
		out.Err = "probe undecided within the watchdog: " + where
	}
	out.Blocked = where != "done"
	out.Where = where
	if p.Mode == "W" {
		mu.Unlock()
	} else {
		mu.RUnlock()
	}
	// released: the operation must finish now
	select {
	case <-h.done:
	case <-time.After(watchdog):
		out.Err = "operation did not finish after the probe lock was released:\n" + goroutineStates()[h.gid].stack
		return
	}
	if h.pan != "" {
		out.Err = h.pan
	}
	if h.err != nil {
		out.OpErr = h.err.Error()
	}
	env.finish(&out, p.Op)
	return
}

func (v *engEnv) finish(out *engOut, lastOp string) {
	if lastOp == "close" || lastOp == "dropdb" {
		return
	}
	h := startOp(v.e.Close)
	select {
	case <-h.done:
		if h.pan != "" && out.Err == "" {
			out.Err = "final close: " + h.pan
		}
	case <-time.After(watchdog):
		if out.Err == "" {
			out.Err = "final Engine.Close did not return:\n" + goroutineStates()[h.gid].stack
		}
	}
}

// re-entry probe (writer preference): the operation is stalled inside its partition lookup (the harness holds
// DBPTInfo.mu exclusively, so DBPTInfo.ref blocks while the operation holds EngineImpl.mu.RLock); then the finale
// (Engine.Close or DeleteDatabase - anything that calls EngineImpl.mu.Lock) starts and becomes a pending writer;
// then the harness releases DBPTInfo.mu.  Go's RWMutex blocks new readers while a writer waits, so an operation that
// takes EngineImpl.mu.RLock AGAIN before releasing the first one now deadlocks with the finale.
func probeReentry(p engProbe) (out engOut) {
	out = engOut{Kind: "eng", ID: p.ID, Probe: p, Obs: map[string]any{}}
	env, err := openEngine(fmt.Sprintf("c04-eng-%d", p.ID))
	if err != nil {
		out.Err = "open engine: " + err.Error()
		return
	}
	if err := env.warm(); err != nil {
		out.Err = "warm-up: " + err.Error()
		return
	}
	pmu := env.mutex("pmu")
	pmu.Lock()
	h := startOp(env.op(p.Op))
	w1, ok := settle(h)
	out.Obs["op_stalled_at"] = w1
	if !ok || w1 == "done" || !strings.Contains(w1, "(*DBPTInfo).ref") {
		pmu.Unlock()
		out.Err = "the operation did not stall in DBPTInfo.ref under the held partition lock: " + w1
		return
	}
	fin := startOp(env.op(p.Fin))
	w2, ok := settle(fin)
	out.Obs["finale_pending_at"] = w2
	if !ok || !strings.HasPrefix(w2, "W@") {
		pmu.Unlock()
		out.Err = "the finale did not become a pending writer of EngineImpl.mu: " + w2
		return
	}
	pmu.Unlock()
	w3, ok := settle(h)
	out.Obs["op_after_release"] = w3
	if !ok {
		out.Err = "undecided: " + w3
		return
	}
	if w3 != "done" {
		// the operation is blocked again while the finale is still pending: who waits for whom?
		w4, _ := settle(fin)
		out.Obs["finale_after_release"] = w4
		out.Blocked = true
		out.Where = w3
		return // deadlock: both goroutines are leaked, the engine is abandoned
	}
	select {
	case <-fin.done:
	case <-time.After(watchdog):
		out.Err = "the finale did not finish although the operation returned:\n" + goroutineStates()[fin.gid].stack
		return
	}
	if fin.pan != "" {
		out.Err = fin.pan
	}
	if h.pan != "" {
		out.Err = h.pan
	}
	return
}

// drain probe: DeleteDatabase while a query holds a partition reference.  Observables: DeleteDatabase waits on the
// drain channel (not finished) while the reference is held; a new reference is refused while the partition is
// offloading; after the reference is released DeleteDatabase finishes, the partition is gone from the engine and its
// directory from the disk; with a short DeleteDatabaseTimeout instead the drop gives up and references work again.
func probeDrain(p engProbe) (out engOut) {
	out = engOut{Kind: "eng", ID: p.ID, Probe: p, Obs: map[string]any{}}
	env, err := openEngine(fmt.Sprintf("c04-eng-%d", p.ID))
	if err != nil {
		out.Err = "open engine: " + err.Error()
		return
	}
	if err := env.warm(); err != nil {
		out.Err = "warm-up: " + err.Error()
		return
	}
	saved := engine.DeleteDatabaseTimeout
	defer func() { engine.DeleteDatabaseTimeout = saved }()
	timeoutPath := p.Op == "timeout"
	if timeoutPath {
		engine.DeleteDatabaseTimeout = 300 * time.Millisecond
	} else {
		engine.DeleteDatabaseTimeout = 10 * watchdog
	}
	pt := env.e.VerifC04Partition(engDB, engPT)
	hold := make(chan struct{})
	inside := make(chan struct{})
	var qres qresult
	q := startOp(func() error {
		var err error
		qres, err = env.query(mst, func() { close(inside); <-hold })
		return err
	})
	<-inside
	out.Obs["refs_while_query"] = pt.VerifC04RefCount()
	d := startOp(env.op("dropdb"))
	if timeoutPath {
		select {
		case <-d.done:
		case <-time.After(watchdog):
			out.Err = "DeleteDatabase did not give up after its time-out:\n" + goroutineStates()[d.gid].stack
			return
		}
		out.Obs["drop_err"] = fmt.Sprint(d.err)
		out.Obs["offloading_after_timeout"] = pt.VerifC04Offloading()
		err := env.e.DbPTRef(engDB, engPT)
		out.Obs["ref_after_timeout_ok"] = err == nil
		if err == nil {
			env.e.DbPTUnref(engDB, engPT)
		}
		close(hold)
		<-q.done
		out.Obs["query_rows"] = len(qres.rows)
		out.Obs["query_err"] = fmt.Sprint(q.err, qres.err)
		env.finish(&out, "")
		return
	}
	w, ok := settle(d)
	out.Obs["drop_waits_at"] = w
	if !ok {
		out.Err = "undecided: " + w
		return
	}
	out.Obs["offloading_while_waiting"] = pt.VerifC04Offloading()
	err = env.e.DbPTRef(engDB, engPT)
	out.Obs["ref_while_offloading_ok"] = err == nil
	if err == nil {
		env.e.DbPTUnref(engDB, engPT)
	}
	_, statErr := os.Stat(filepath.Join(env.dir, "data", engDB, fmt.Sprint(engPT)))
	out.Obs["dir_present_while_waiting"] = statErr == nil
	close(hold)
	select {
	case <-q.done:
	case <-time.After(watchdog):
		out.Err = "the query did not finish:\n" + goroutineStates()[q.gid].stack
		return
	}
	out.Obs["query_rows"] = len(qres.rows)
	out.Obs["query_err"] = fmt.Sprint(q.err, qres.err)
	if q.pan != "" {
		out.Err = q.pan
		return
	}
	select {
	case <-d.done:
	case <-time.After(watchdog):
		out.Err = "DeleteDatabase did not finish after the last reference was released:\n" + goroutineStates()[d.gid].stack
		return
	}
	if d.pan != "" {
		out.Err = d.pan
		return
	}
	out.Obs["drop_err"] = fmt.Sprint(d.err)
	out.Obs["partition_present_after"] = env.e.VerifC04Partition(engDB, engPT) != nil
	_, statErr = os.Stat(filepath.Join(env.dir, "data", engDB, fmt.Sprint(engPT)))
	out.Obs["dir_present_after"] = statErr == nil
	out.Obs["ref_after_drop_ok"] = env.e.DbPTRef(engDB, engPT) == nil
	werr := env.write([]influx.Row{mkRowM(mst, 1, 9, 9)})
	out.Obs["write_after_drop_ok"] = werr == nil
	return
}

func runEng(args []string) {
	coldDuration = time.Hour
	initEngine(30 << 20)
	calibrate()
	f, err := os.Open(args[0])
	if err != nil {
		fmt.Fprintln(os.Stderr, err)
		os.Exit(2)
	}
	defer f.Close()
	sc := bufio.NewScanner(f)
	sc.Buffer(make([]byte, 1<<20), 1<<24)
	n := 0
	gen.Emit(map[string]any{"kind": "calib", "watchdog_ms": watchdog.Milliseconds()})
	for sc.Scan() {
		var p engProbe
		if err := json.Unmarshal(sc.Bytes(), &p); err != nil {
			continue
		}
		gen.Emit(map[string]any{"kind": "start", "id": p.ID})
		var out engOut
		switch p.Kind {
		case "footprint":
			out = probeFootprint(p)
		case "reentry":
			out = probeReentry(p)
		case "drain":
			out = probeDrain(p)
		default:
			out = engOut{Kind: "eng", ID: p.ID, Probe: p, Err: "unknown probe kind"}
		}
		gen.Emit(out)
		n++
	}
	gen.Emit(map[string]any{"kind": "done", "cases": n})
}
