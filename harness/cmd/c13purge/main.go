// C13 purge harness (in-process): the physical purge of dropped series (IndexBuilder.DropSeries ->
// mergeset.Table.RemoveItemsByDelTsidsFromParts, run hourly by services/series) must remove the dropped series' index items
// and NOTHING else. Builds a real index with a few thousand series on disk, records some as dropped exactly as the DROP SERIES
// handler does, runs the purge and checks every surviving series: its key still resolves to its id, its tag filters still
// find it, the dropped ones stay hidden. Prints one JSON object.
package main

import (
	"flag"
	"fmt"
	"os"
	"sort"
	"time"

	"github.com/openGemini/openGemini/engine/index/tsi"
	"github.com/openGemini/openGemini/lib/config"
	"github.com/openGemini/openGemini/lib/index"
	"github.com/openGemini/openGemini/lib/logger"
	"github.com/openGemini/openGemini/lib/util/lifted/influx/influxql"
	"github.com/openGemini/openGemini/lib/util/lifted/influx/meta"
	"github.com/openGemini/openGemini/lib/util/lifted/influx/query"
	"github.com/openGemini/openGemini/lib/util/lifted/vm/protoparser/influx"
	"github.com/savsgio/dictpool"
	"go.uber.org/zap"
	"verifharness/internal/gen"
)

func must(err error) {
	if err != nil {
		panic(err)
	}
}

func open(dir string, id uint64, clock uint64, seq *uint64) (*tsi.IndexBuilder, *tsi.MergeSetIndex) {
	lock := ""
	ident := &meta.IndexIdentifier{OwnerDb: "db0", OwnerPt: 1, Policy: "rp0"}
	ident.Index = &meta.IndexDescriptor{IndexID: id, IndexGroupID: 3, TimeRange: meta.TimeRangeInfo{}}
	opts := new(tsi.Options).Path(dir).Ident(ident).IndexType(index.MergeSet).EngineType(config.TSSTORE).
		StartTime(time.Now()).EndTime(time.Now().Add(time.Hour)).Duration(time.Hour).LogicalClock(clock).SequenceId(seq).Lock(&lock)
	b := tsi.NewIndexBuilder(opts)
	pi, err := tsi.NewIndex(opts)
	must(err)
	pi.SetIndexBuilder(b)
	rel, err := tsi.NewIndexRelation(opts, pi, b)
	must(err)
	b.Relations[uint32(index.MergeSet)] = rel
	must(b.Open())
	return b, pi.(*tsi.MergeSetIndex)
}

func main() {
	logger.SetLogger(zap.NewNop())
	flag.Parse()
	n := 6000
	if len(flag.Args()) > 0 {
		fmt.Sscan(flag.Args()[0], &n)
	}
	base := os.Getenv("VERIF_WORK") + "/c13probe"
	os.RemoveAll(base)
	seq := uint64(1000)
	b, idx := open(base+"/main", 2, 1, &seq)
	ids := map[string]uint64{}
	for i := 0; i < n; i++ {
		row := influx.Row{Name: "m_0000", Tags: influx.PointTags{{Key: "host", Value: fmt.Sprintf("h%05d", i)}, {Key: "zone", Value: fmt.Sprintf("z%d", i%7)}}}
		sort.Sort(&row.Tags)
		row.UnmarshalIndexKeys(nil)
		rows := []influx.Row{row}
		d := &dictpool.Dict{}
		d.Set("m_0000", &rows)
		must(b.CreateIndexIfNotExists(d, false))
		ids[row.Tags[0].Value] = rows[0].SeriesId
	}
	must(b.Close()) // items reach file parts, rows of one tag are merged
	b, idx = open(base+"/main", 2, 2, &seq)
	seqd := uint64(1)
	bd, del := open(base+"/del", 0, 2, &seqd)
	idx.SetDeleteMergeSet(del)
	must(del.LoadDeletedTSIDs())
	count := func(cond influxql.Expr) int {
		r, err := idx.SearchSeriesByTableAndCond([]byte("m_0000"), cond, tsi.DefaultTR)
		must(err)
		return len(r)
	}
	r := gen.FromEnv(1313)
	dropped := map[string]bool{}
	nd := r.Range(2, 8)
	for len(dropped) < nd {
		dropped[fmt.Sprintf("h%05d", r.Intn(n))] = true
	}
	// the newest series is the last id of its merged tag->tsids rows; one more in the middle of a row
	dropped[fmt.Sprintf("h%05d", n-1)] = true
	dropped[fmt.Sprintf("h%05d", n/2)] = true
	var dl []string
	for h := range dropped {
		dl = append(dl, h)
	}
	sort.Strings(dl)
	before := count(nil)
	for _, h := range dl {
		cond := &influxql.BinaryExpr{Op: influxql.EQ, LHS: &influxql.VarRef{Val: "host", Type: influxql.Tag}, RHS: &influxql.StringLiteral{Val: h}}
		ids, err := idx.SearchSeriesByTableAndCond([]byte("m_0000"), cond, tsi.DefaultTR) // what the DropSeries handler does
		must(err)
		must(del.WriteDeleteTsids(ids))
	}
	afterDrop := count(nil)
	del.DebugFlush()     // the dropped ids reach a part of the deleted-series table (its periodic flush does that within seconds)
	must(b.DropSeries()) // the purge task: a complete pass discards those flushed ids
	afterPurge := count(nil)
	must(idx.ClearCache())
	lostKey, lostTag, lostZone := []string{}, []string{}, 0
	for i := 0; i < n; i++ {
		h := fmt.Sprintf("h%05d", i)
		if dropped[h] {
			continue
		}
		row := influx.Row{Name: "m_0000", Tags: influx.PointTags{{Key: "host", Value: h}, {Key: "zone", Value: fmt.Sprintf("z%d", i%7)}}}
		sort.Sort(&row.Tags)
		row.UnmarshalIndexKeys(nil)
		id, err := idx.GetSeriesIdBySeriesKey(row.IndexKey)
		must(err)
		if id != ids[h] && len(lostKey) < 50 {
			lostKey = append(lostKey, h)
		}
		cond := &influxql.BinaryExpr{Op: influxql.EQ, LHS: &influxql.VarRef{Val: "host", Type: influxql.Tag}, RHS: &influxql.StringLiteral{Val: h}}
		if count(cond) != 1 && len(lostTag) < 50 {
			lostTag = append(lostTag, h)
		}
	}
	for z := 0; z < 7; z++ {
		cond := &influxql.BinaryExpr{Op: influxql.EQ, LHS: &influxql.VarRef{Val: "zone", Type: influxql.Tag}, RHS: &influxql.StringLiteral{Val: fmt.Sprintf("z%d", z)}}
		want := 0
		for i := 0; i < n; i++ {
			if i%7 == z && !dropped[fmt.Sprintf("h%05d", i)] {
				want++
			}
		}
		if got := count(cond); got != want {
			lostZone += want - got
		}
	}
	// the purge also discards the purged part of the deleted-ids table: after a restart nothing may bring a dropped series back
	must(b.Close())
	must(bd.Close())
	b, idx = open(base+"/main", 2, 3, &seq)
	bd, del = open(base+"/del", 0, 3, &seqd)
	idx.SetDeleteMergeSet(del)
	must(del.LoadDeletedTSIDs())
	reappeared := []string{}
	for _, h := range dl {
		cond := &influxql.BinaryExpr{Op: influxql.EQ, LHS: &influxql.VarRef{Val: "host", Type: influxql.Tag}, RHS: &influxql.StringLiteral{Val: h}}
		if count(cond) != 0 {
			reappeared = append(reappeared, "host="+h)
		}
	}
	for z := 0; z < 7; z++ {
		cond := &influxql.BinaryExpr{Op: influxql.EQ, LHS: &influxql.VarRef{Val: "zone", Type: influxql.Tag}, RHS: &influxql.StringLiteral{Val: fmt.Sprintf("z%d", z)}}
		want := 0
		for i := 0; i < n; i++ {
			if i%7 == z && !dropped[fmt.Sprintf("h%05d", i)] {
				want++
			}
		}
		if got := count(cond); got > want {
			reappeared = append(reappeared, fmt.Sprintf("zone=z%d:+%d", z, got-want))
		}
	}
	afterReopen := count(nil)
	must(b.Close())
	must(bd.Close())
	os.RemoveAll(base)
	leak := crossIndexLeak(base + "x")
	skip := skippedPart(base + "s")
	gen.Emit(map[string]any{"purge": true, "skipped_part": skip, "cross_index_leak": leak, "series": n, "dropped": dl, "count_before": before, "count_after_drop": afterDrop,
		"count_after_purge": afterPurge, "expected_after": n - len(dl), "key_no_longer_resolves": lostKey,
		"not_found_by_own_tag_filter": lostTag, "missing_from_shared_tag_filters": lostZone,
		"count_after_reopen": afterReopen, "dropped_reappeared_after_reopen": reappeared})
}

// crossIndexLeak: two indexes whose series ids coincide (same logical clock, same sequence start - as two databases
// created in the same second have). Series are dropped in A only. A select-path search on A followed by a listing-path
// search on B on the same goroutine gets the same pooled search object; B must still list all of its series.
func crossIndexLeak(base string) []string {
	os.RemoveAll(base)
	seqA, seqB, seqD := uint64(5000), uint64(5000), uint64(1)
	ba, ia := open(base+"/a", 2, 7, &seqA)
	bb, ib := open(base+"/b", 2, 7, &seqB)
	bd, del := open(base+"/adel", 0, 7, &seqD)
	ia.SetDeleteMergeSet(del)
	must(del.LoadDeletedTSIDs())
	const ns = 8
	for _, b := range []*tsi.IndexBuilder{ba, bb} {
		for i := 0; i < ns; i++ {
			row := influx.Row{Name: "m_0000", Tags: influx.PointTags{{Key: "host", Value: fmt.Sprintf("h%d", i)}}}
			row.UnmarshalIndexKeys(nil)
			rows := []influx.Row{row}
			d := &dictpool.Dict{}
			d.Set("m_0000", &rows)
			must(b.CreateIndexIfNotExists(d, false))
		}
		b.Flush()
	}
	all, err := ia.SearchSeriesByTableAndCond([]byte("m_0000"), nil, tsi.DefaultTR)
	must(err)
	must(del.WriteDeleteTsids(all[:ns/2])) // DROP SERIES of half of A's series
	bad := []string{}
	for k := 0; k < 30; k++ {
		opt := &query.ProcessorOptions{StartTime: tsi.DefaultTR.Min, EndTime: tsi.DefaultTR.Max}
		_, _, err := ia.SearchSeriesWithOpts(nil, []byte("m_0000"), opt, func(int64) error { return nil }, nil)
		must(err)
		got, err := ib.SearchSeriesByTableAndCond([]byte("m_0000"), nil, tsi.DefaultTR)
		must(err)
		if len(got) != ns && len(bad) < 5 {
			bad = append(bad, fmt.Sprintf("round %d: index B lists %d of its %d series after a select on index A (which dropped %d)", k, len(got), ns, ns/2))
		}
		cond := &influxql.BinaryExpr{Op: influxql.EQ, LHS: &influxql.VarRef{Val: "host", Type: influxql.Tag}, RHS: &influxql.StringLiteral{Val: "h0"}}
		_, _, err = ia.SearchSeriesWithOpts(nil, []byte("m_0000"), opt, func(int64) error { return nil }, nil)
		must(err)
		tv, err := ib.SearchTagValues([]byte("m_0000"), [][]byte{[]byte("host")}, cond)
		must(err)
		if (len(tv) != 1 || len(tv[0]) != 1) && len(bad) < 5 {
			bad = append(bad, fmt.Sprintf("round %d: index B tag values of host where host='h0': %v", k, tv))
		}
	}
	must(ba.Close())
	must(bb.Close())
	must(bd.Close())
	os.RemoveAll(base)
	return bad
}

// skippedPart: the purge of dropped series while one part of the index table carries the in-merge mark (a background merge is
// reading it - the normal state of a busy table). The purge leaves such a part alone. The dropped ids have reached a part of
// the deleted-series table (its periodic flush does that within seconds of a DROP SERIES). After the purge the index and the
// table are closed and opened again: the dropped series must still be hidden.
func skippedPart(base string) map[string]any {
	os.RemoveAll(base)
	const ns = 400
	seq, seqd := uint64(9000), uint64(1)
	b, idx := open(base+"/main", 2, 11, &seq)
	for i := 0; i < ns; i++ {
		row := influx.Row{Name: "m_0000", Tags: influx.PointTags{{Key: "host", Value: fmt.Sprintf("s%04d", i)}}}
		row.UnmarshalIndexKeys(nil)
		rows := []influx.Row{row}
		d := &dictpool.Dict{}
		d.Set("m_0000", &rows)
		must(b.CreateIndexIfNotExists(d, false))
	}
	must(b.Close())
	b, idx = open(base+"/main", 2, 12, &seq)
	bd, del := open(base+"/del", 0, 12, &seqd)
	idx.SetDeleteMergeSet(del)
	must(del.LoadDeletedTSIDs())
	time.Sleep(1200 * time.Millisecond) // background merges of the reopened table settle
	tb := idx.VerifC13Table()
	parts := tb.VerifC13PartCount()
	cond := func(h string) influxql.Expr {
		return &influxql.BinaryExpr{Op: influxql.EQ, LHS: &influxql.VarRef{Val: "host", Type: influxql.Tag}, RHS: &influxql.StringLiteral{Val: h}}
	}
	dropped := []string{"s0007", "s0200", "s0399"}
	for _, h := range dropped {
		ids, err := idx.SearchSeriesByTableAndCond([]byte("m_0000"), cond(h), tsi.DefaultTR)
		must(err)
		must(del.WriteDeleteTsids(ids))
	}
	del.DebugFlush() // what the periodic flush of the table does
	all, err := idx.SearchSeriesByTableAndCond([]byte("m_0000"), nil, tsi.DefaultTR)
	must(err)
	afterDrop := len(all)
	for i := 0; i < parts; i++ {
		tb.VerifC13SetInMerge(i, true)
	}
	perr := b.DropSeries() // the purge task: every part is "being merged" and is left alone
	for i := 0; i < parts; i++ {
		tb.VerifC13SetInMerge(i, false)
	}
	must(b.Close())
	must(bd.Close())
	b, idx = open(base+"/main", 2, 13, &seq)
	bd, del = open(base+"/del", 0, 13, &seqd)
	idx.SetDeleteMergeSet(del)
	must(del.LoadDeletedTSIDs())
	all, err = idx.SearchSeriesByTableAndCond([]byte("m_0000"), nil, tsi.DefaultTR)
	must(err)
	back := []string{}
	for _, h := range dropped {
		ids, err := idx.SearchSeriesByTableAndCond([]byte("m_0000"), cond(h), tsi.DefaultTR)
		must(err)
		if len(ids) != 0 {
			back = append(back, h)
		}
	}
	must(b.Close())
	must(bd.Close())
	os.RemoveAll(base)
	res := map[string]any{"series": ns, "dropped": len(dropped), "parts_marked_in_merge": parts, "listed_after_drop": afterDrop,
		"listed_after_purge_and_reopen": len(all), "expected": ns - len(dropped), "dropped_listed_again": back}
	if perr != nil {
		res["purge_error"] = perr.Error()
	}
	return res
}
