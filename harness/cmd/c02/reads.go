// Additional read paths of C02, driven at statement level through engine.VerifShard.Select (parse -> QuerySchema ->
// shard.CreateCursor -> the planner's series / measurement plan -> ChunkReader over the returned cursors):
//
//	zone   SELECT <fields>, host FROM m WHERE <range> GROUP BY zone [ORDER BY time DESC]
//	       tag sets with SEVERAL series: tagSetCursor merges the series cursors of one tag set by time (heap cursor);
//	       rows are attributed to their series by the aux tag column
//	limit  SELECT <fields> | * FROM m WHERE <range> GROUP BY host [ORDER BY time DESC] LIMIT n [OFFSET m]
//	       LIMIT push-down: lazily initialised series cursors, groupCursor.limitBound, itrsInitWithLimit
//	agg    SELECT /*+ Exact_Statistic_Query */ count(x), sum(y), min(z), max(w) FROM m WHERE <range> GROUP BY host [ORDER BY time DESC]
//	       the FILE-CURSOR path (AggTagSetCursor -> fileLoopCursor -> fileCursor.readData): ordered files are walked one
//	       by one and the memtable / out-of-order rows of a series are merged into each file's chunk up to that chunk's
//	       own time range (getMemEndIndex); the partial results must combine to the aggregate over the LWW rows
//
// Every read is compared with the Go last-write-wins oracle.
package main

import (
	"fmt"
	"os"
	"sort"
	"strconv"
	"strings"

	"github.com/openGemini/openGemini/engine"
	"verifharness/internal/gen"
	"verifharness/internal/tsdrv"
)

type XRead struct {
	Kind   string  `json:"kind"`
	SQL    string  `json:"sql"`
	Desc   bool    `json:"desc,omitempty"`
	Limit  int     `json:"limit,omitempty"`
	Offset int     `json:"offset,omitempty"`
	Star   bool    `json:"star,omitempty"` // SELECT *
	Tmin   int     `json:"tmin"`
	Tmax   int     `json:"tmax"`
	Fields []int   `json:"fields,omitempty"`
	Calls  []XCall `json:"calls,omitempty"`
}

type XCall struct {
	Fn    string `json:"fn"`
	Field int    `json:"field"`
}

type XFail struct {
	Op     int            `json:"op"`
	Read   XRead          `json:"read"`
	Series int            `json:"series"`
	What   string         `json:"what"`
	Want   []tsdrv.OutRow `json:"want,omitempty"`
	Got    []tsdrv.OutRow `json:"got,omitempty"`
	WantV  *int64         `json:"want_v,omitempty"`
	GotV   *int64         `json:"got_v,omitempty"`
	Call   *XCall         `json:"call,omitempty"`
}

func cellCode(f int, c engine.VerifCell) int64 {
	switch f {
	case 0:
		return c.I
	case 1:
		return int64(c.F * 4)
	case 2:
		if c.B {
			return 1
		}
		return 0
	default:
		for k, p := range tsdrv.StrPool {
			if p == c.S {
				return int64(k)
			}
		}
		return -1
	}
}

func fieldByName(n string) int {
	for i, x := range tsdrv.FieldNames {
		if x == n {
			return i
		}
	}
	return -1
}

func whereOf(a, b int) string {
	return fmt.Sprintf("time >= %d AND time <= %d", tsdrv.TimeOf(a), tsdrv.TimeOf(b))
}

func pickRangeX(r *gen.Rand, files []tsdrv.File) (int, int) {
	// boundary-biased: on / next to the per-series time ranges of the files
	var cands []int
	for _, f := range files {
		for _, s := range f.Series {
			cands = append(cands, s.MinT-1, s.MinT, s.MinT+1, s.MaxT-1, s.MaxT, s.MaxT+1)
		}
	}
	pick := func() int {
		if len(cands) > 0 && r.Chance(1, 2) {
			return gen.Pick(r, cands)
		}
		return r.Range(-1, NT)
	}
	if r.Chance(1, 3) {
		return -1, NT
	}
	a, b := pick(), pick()
	if a > b {
		a, b = b, a
	}
	if a < -1 {
		a = -1
	}
	if b > NT {
		b = NT
	}
	return a, b
}

func pickFields(r *gen.Rand) []int {
	mask := r.Range(1, 15)
	if r.Chance(1, 3) {
		mask = 15
	}
	var fs []int
	for f := 0; f < tsdrv.NFields; f++ {
		if mask&(1<<uint(f)) != 0 {
			fs = append(fs, f)
		}
	}
	return fs
}

func fieldList(fs []int) string {
	var n []string
	for _, f := range fs {
		n = append(n, tsdrv.FieldNames[f])
	}
	return strings.Join(n, ", ")
}

// rowsBySeries decodes the rows of a plain select into per-series rows in arrival order. The series comes from the
// group tag "host" or from an aux tag column "host".
func rowsBySeries(rows []engine.VerifAggRow, info *engine.VerifSelectInfo, nser int) (map[int][]tsdrv.OutRow, []tsdrv.Arrival, []string, error) {
	out := map[int][]tsdrv.OutRow{}
	var arr []tsdrv.Arrival
	var groups []string
	var names []string
	if info != nil {
		names = info.Columns // positional: one output column per selected column (the time column is omitted)
	}
	for _, ar := range rows {
		if len(ar.Cells) != len(names) {
			return nil, nil, nil, fmt.Errorf("row with %d cells, reader reports %d columns", len(ar.Cells), len(names))
		}
		host := ar.Tags["host"]
		var o tsdrv.OutRow
		o.T = tsdrv.IdxOf(ar.Time)
		if tsdrv.TimeOf(o.T) != ar.Time {
			return nil, nil, nil, fmt.Errorf("timestamp %d is not on the grid", ar.Time)
		}
		for ci, c := range ar.Cells {
			if names[ci] == "host" {
				if !c.Nil {
					host = c.S
				}
				continue
			}
			f := fieldByName(names[ci])
			if f < 0 || c.Nil {
				continue // other tag columns (zone) / null cells
			}
			o.F = append(o.F, tsdrv.FV{F: f, V: cellCode(f, c)})
		}
		sort.Slice(o.F, func(a, b int) bool { return o.F[a].F < o.F[b].F })
		sr := -1
		if len(host) > 1 && host[0] == 'h' {
			if n, err := strconv.Atoi(host[1:]); err == nil {
				sr = n
			}
		}
		if sr < 0 || sr >= nser {
			return nil, nil, nil, fmt.Errorf("row of unknown series %q", host)
		}
		if len(o.F) == 0 {
			continue // a row whose selected fields are all null is not part of the answer
		}
		out[sr] = append(out[sr], o)
		arr = append(arr, tsdrv.Arrival{S: sr, T: o.T})
		groups = append(groups, ar.Tags["zone"])
	}
	return out, arr, groups, nil
}

func isPrefix(p, full []tsdrv.OutRow) bool {
	return len(p) <= len(full) && tsdrv.EqRows(p, full[:len(p)])
}

type xctx struct {
	op   int
	sh   *tsdrv.Shard
	lww  *tsdrv.LWW
	nser int
	agg  []XAgg // the aggregate results observed (replayed on the Coq model of the file-cursor walk by the driver)
	zone []ReadObs
	lim  []ReadObs
}

// XAgg: the combined result of one call of an aggregate read for one series, as the real store returned it
type XAgg struct {
	Desc  bool   `json:"desc,omitempty"`
	S     int    `json:"s"`
	Tmin  int    `json:"tmin"`
	Tmax  int    `json:"tmax"`
	Field int    `json:"f"`
	Fn    string `json:"fn"`
	Has   bool   `json:"has"` // a result exists (count: always, 0 when nothing came back)
	V     int64  `json:"v"`
	T     int    `json:"t"` // first / last: time index of the selected point
}

func (c *xctx) expect(s int, fs []int, a, b int, desc bool) []tsdrv.OutRow {
	w := c.lww.Rows(s, tsdrv.Query{Fields: fs, Tmin: a, Tmax: b}, NT)
	if desc {
		w = tsdrv.Reverse(w)
	}
	return w
}

func orderBy(desc bool) string {
	if desc {
		return " ORDER BY time DESC"
	}
	return ""
}

// buildSQL fills x.SQL from the structured description (so that a stored read can be re-run)
func buildSQL(x *XRead) {
	switch x.Kind {
	case "zone":
		x.SQL = fmt.Sprintf("SELECT %s, host::tag FROM m WHERE %s GROUP BY zone%s", fieldList(x.Fields), whereOf(x.Tmin, x.Tmax), orderBy(x.Desc))
	case "limit":
		sel := fieldList(x.Fields)
		if x.Star {
			sel = "*"
		}
		x.SQL = fmt.Sprintf("SELECT %s FROM m WHERE %s GROUP BY host%s LIMIT %d", sel, whereOf(x.Tmin, x.Tmax), orderBy(x.Desc), x.Limit)
		if x.Offset > 0 {
			x.SQL += fmt.Sprintf(" OFFSET %d", x.Offset)
		}
	case "agg":
		var sel []string
		for _, c := range x.Calls {
			sel = append(sel, fmt.Sprintf("%s(%s)", c.Fn, tsdrv.FieldNames[c.Field]))
		}
		x.SQL = fmt.Sprintf("SELECT /*+ Exact_Statistic_Query */ %s FROM m WHERE %s GROUP BY host%s", strings.Join(sel, ", "), whereOf(x.Tmin, x.Tmax), orderBy(x.Desc))
	}
}

// runRead executes one statement-level read and applies the direct oracle.
func (c *xctx) runRead(x XRead) (fails []XFail) {
	buildSQL(&x)
	rows, info, err := c.sh.Select(x.SQL)
	if os.Getenv("VERIF_C02_XDEBUG") != "" {
		fmt.Fprintf(os.Stderr, "XDEBUG %s\n  info=%+v err=%v\n  rows=%+v\n", x.SQL, info, err, rows)
	}
	if err != nil {
		return []XFail{{Op: c.op, Read: x, What: "query error: " + err.Error()}}
	}
	a, b := x.Tmin, x.Tmax
	switch x.Kind {
	case "zone":
		// (the rows of one tag set come from up to MaxParallel sub-cursors; merging them by time is the executor's job)
		got, _, _, err := rowsBySeries(rows, info, c.nser)
		if err != nil {
			return []XFail{{Op: c.op, Read: x, What: "decode: " + err.Error()}}
		}
		ro := ReadObs{Tmin: a, Tmax: b, Fields: x.Fields, Asc: !x.Desc, Kind: "zone", Rows: map[string][]tsdrv.OutRow{}}
		for s, rows := range got {
			ro.Rows[strconv.Itoa(s)] = rows
		}
		c.zone = append(c.zone, ro)
		for s := 0; s < c.nser; s++ {
			if want := c.expect(s, x.Fields, a, b, x.Desc); !tsdrv.EqRows(want, got[s]) {
				fails = append(fails, XFail{Op: c.op, Read: x, Series: s, Want: want, Got: got[s], What: classify(want, got[s], !x.Desc)})
			}
		}
	case "limit":
		got, _, _, err := rowsBySeries(rows, info, c.nser)
		if err != nil {
			return []XFail{{Op: c.op, Read: x, What: "decode: " + err.Error()}}
		}
		lo := ReadObs{Tmin: a, Tmax: b, Fields: x.Fields, Asc: !x.Desc, Kind: "limit", Need: x.Limit + x.Offset, Rows: map[string][]tsdrv.OutRow{}}
		for s, rows := range got {
			lo.Rows[strconv.Itoa(s)] = rows
		}
		c.lim = append(c.lim, lo)
		total, avail := 0, 0
		for s := 0; s < c.nser; s++ {
			want := c.expect(s, x.Fields, a, b, x.Desc)
			avail += len(want)
			total += len(got[s])
			if !isPrefix(got[s], want) {
				fails = append(fails, XFail{Op: c.op, Read: x, Series: s, Want: want, Got: got[s], What: "rows under LIMIT are not a prefix of the last-write-wins rows"})
			}
		}
		need := x.Limit + x.Offset
		if avail < need {
			need = avail
		}
		if total < need {
			fails = append(fails, XFail{Op: c.op, Read: x, Series: -1, What: fmt.Sprintf("LIMIT push-down returned %d rows, at least %d are due", total, need)})
		}
	case "agg":
		for ci := range x.Calls {
			cl := x.Calls[ci]
			// combine the partial results per series (what the executor's upper aggregation stage does)
			type acc struct {
				v int64
				t int
			}
			part := map[int]*acc{}
			for _, ar := range rows {
				if len(ar.Cells) != len(x.Calls) {
					return append(fails, XFail{Op: c.op, Read: x, What: fmt.Sprintf("aggregate row with %d cells", len(ar.Cells))})
				}
				host := ar.Tags["host"]
				sr := -1
				if len(host) > 1 {
					if n, err := strconv.Atoi(host[1:]); err == nil {
						sr = n
					}
				}
				if sr < 0 || sr >= c.nser {
					return append(fails, XFail{Op: c.op, Read: x, What: "aggregate row of unknown series " + host})
				}
				cell := ar.Cells[ci]
				if cell.Nil {
					continue
				}
				var v int64
				if cl.Fn == "count" {
					v = cell.I
				} else {
					v = cellCode(cl.Field, cell)
				}
				ct := tsdrv.IdxOf(cell.Time)
				p := part[sr]
				if p == nil {
					part[sr] = &acc{v: v, t: ct}
					continue
				}
				switch cl.Fn {
				case "first":
					if ct < p.t {
						p.v, p.t = v, ct
					}
				case "last":
					if ct > p.t {
						p.v, p.t = v, ct
					}
				case "count", "sum":
					p.v += v
				case "min":
					if v < p.v {
						p.v = v
					}
				case "max":
					if v > p.v {
						p.v = v
					}
				}
			}
			for s := 0; s < c.nser; s++ {
				want := c.expect(s, []int{cl.Field}, a, b, false)
				var wv int64
				wt := 0
				whas := len(want) > 0
				for i, w := range want {
					v := w.F[0].V
					switch cl.Fn {
					case "first":
						if i == 0 {
							wv, wt = v, w.T
						}
					case "last":
						wv, wt = v, w.T
					case "count":
						wv++
					case "sum":
						wv += v
					case "min":
						if i == 0 || v < wv {
							wv = v
						}
					case "max":
						if i == 0 || v > wv {
							wv = v
						}
					}
				}
				p := part[s]
				ghas := p != nil
				var gv int64
				gt := 0
				if ghas {
					gv = p.v
					if cl.Fn == "first" || cl.Fn == "last" {
						gt = p.t
					}
				}
				var ok bool
				if cl.Fn == "count" { // count of nothing: 0 or no result
					ok = wv == gv
					c.agg = append(c.agg, XAgg{Desc: x.Desc, S: s, Tmin: a, Tmax: b, Field: cl.Field, Fn: cl.Fn, Has: true, V: gv})
				} else {
					ok = whas == ghas && (!whas || (wv == gv && wt == gt))
					c.agg = append(c.agg, XAgg{Desc: x.Desc, S: s, Tmin: a, Tmax: b, Field: cl.Field, Fn: cl.Fn, Has: ghas, V: gv, T: gt})
				}
				if !ok {
					w, g, cc := wv, gv, cl
					what := "aggregate over the file-cursor path differs from the aggregate over the last-write-wins rows"
					if !whas {
						what += " (no row is due)"
					}
					if !ghas {
						what += " (no result)"
					}
					fails = append(fails, XFail{Op: c.op, Read: x, Series: s, What: what, WantV: &w, GotV: &g, Call: &cc})
				}
			}
		}
	default:
		return []XFail{{Op: c.op, Read: x, What: "unknown read kind " + x.Kind}}
	}
	return
}

// extraReads generates and runs one read of every enabled kind and returns the oracle failures.
func extraReads(opIdx int, sh *tsdrv.Shard, lww *tsdrv.LWW, r *gen.Rand, nser int, files []tsdrv.File, kinds map[string]int) (fails []XFail, n int, aggs []XAgg, zone []ReadObs, lim []ReadObs) {
	c := &xctx{op: opIdx, sh: sh, lww: lww, nser: nser}
	defer func() { aggs, zone, lim = c.agg, c.zone, c.lim }()
	only := envKinds()
	if only["zone"] {
		a, b := pickRangeX(r, files)
		x := XRead{Kind: "zone", Desc: r.Bool(), Tmin: a, Tmax: b, Fields: pickFields(r)}
		fails = append(fails, c.runRead(x)...)
		n++
		kinds["zone"]++
	}
	if only["limit"] {
		a, b := pickRangeX(r, files)
		x := XRead{Kind: "limit", Desc: r.Bool(), Tmin: a, Tmax: b, Fields: pickFields(r), Limit: r.Range(1, 5)}
		if r.Chance(1, 3) {
			x.Offset = r.Range(1, 3)
		}
		if r.Chance(1, 3) {
			x.Star, x.Fields = true, []int{0, 1, 2, 3}
		}
		fails = append(fails, c.runRead(x)...)
		n++
		kinds["limit"]++
	}
	if only["agg"] {
		a, b := pickRangeX(r, files)
		x := XRead{Kind: "agg", Tmin: a, Tmax: b}
		if only["aggdesc"] {
			x.Desc = r.Chance(1, 3)
		}
		ncall := r.Range(1, 3)
		used := map[string]bool{}
		for len(x.Calls) < ncall {
			cl := XCall{Fn: gen.Pick(r, []string{"count", "count", "sum", "min", "max", "first", "last"}), Field: r.Intn(4)}
			if cl.Fn == "sum" || cl.Fn == "min" || cl.Fn == "max" {
				cl.Field = r.Intn(2) // numeric fields
			}
			k := cl.Fn + strconv.Itoa(cl.Field)
			if used[k] {
				continue
			}
			used[k] = true
			x.Calls = append(x.Calls, cl)
		}
		fails = append(fails, c.runRead(x)...)
		n++
		kinds["agg"]++
		if x.Desc {
			kinds["agg-desc"]++
		}
	}
	return
}

func envKinds() map[string]bool {
	m := map[string]bool{"zone": true, "limit": true, "agg": true, "aggdesc": true}
	if v := os.Getenv("VERIF_C02_XREADS"); v != "" {
		m = map[string]bool{}
		for _, k := range strings.Split(v, ",") {
			m[k] = true
		}
	}
	return m
}
