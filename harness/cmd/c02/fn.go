// Function-level tie of the row algebra: the exported lib/record functions the layout model is built from are called
// directly on generated inputs - larger and more duplicate-heavy than anything a write batch of the history machine holds -
// and the driver compares every result with the Coq functions of Model.v:
//
//	sort   record.ColumnSortHelper.Sort (stable sort by time + left-to-right replace of equal timestamps)   = sort_dedup
//	merge  Record.MergeRecord(newer, older)       (two-pointer merge, newer fields win, missing fields stay)  = over
//	mergd  Record.MergeRecordDescend(newer, older) on descending inputs                                       = rev (over (rev ..))
//
// DIRECT ORACLE: a Go last-write-wins map over (time, field). usage: c02 fn <n>
package main

import (
	"encoding/json"
	"os"
	"sort"

	"github.com/openGemini/openGemini/lib/record"
	"github.com/openGemini/openGemini/lib/util/lifted/vm/protoparser/influx"
	"verifharness/internal/gen"
	"verifharness/internal/tsdrv"
)

type FnCase struct {
	Fn   string         `json:"fn"`
	A    []tsdrv.OutRow `json:"a"`
	B    []tsdrv.OutRow `json:"b,omitempty"`
	Out  []tsdrv.OutRow `json:"out"`
	Bad  string         `json:"bad,omitempty"` // the direct oracle's complaint
	Err  string         `json:"err,omitempty"`
	Want []tsdrv.OutRow `json:"want,omitempty"`
}

func fnSchema() record.Schemas {
	var s record.Schemas
	for i, n := range tsdrv.FieldNames {
		s = append(s, record.Field{Name: n, Type: int(tsdrv.FieldTypes[i])})
	}
	return append(s, record.Field{Name: "time", Type: influx.Field_Type_Int})
}

func recOf(rows []tsdrv.OutRow) *record.Record {
	rec := record.NewRecord(fnSchema(), false)
	for _, r := range rows {
		have := map[int]int64{}
		for _, fv := range r.F {
			have[fv.F] = fv.V
		}
		for f := 0; f < tsdrv.NFields; f++ {
			col := &rec.ColVals[f]
			v, ok := have[f]
			switch f {
			case 0:
				if ok {
					col.AppendInteger(v)
				} else {
					col.AppendIntegerNull()
				}
			case 1:
				if ok {
					col.AppendFloat(tsdrv.FloatOf(v))
				} else {
					col.AppendFloatNull()
				}
			case 2:
				if ok {
					col.AppendBoolean(v&1 == 1)
				} else {
					col.AppendBooleanNull()
				}
			default:
				if ok {
					col.AppendString(tsdrv.StrPool[int(v)%len(tsdrv.StrPool)])
				} else {
					col.AppendStringNull()
				}
			}
		}
		rec.AppendTime(tsdrv.TimeOf(r.T))
	}
	return rec
}

func fnRow(r *gen.Rand, nt int) tsdrv.OutRow {
	o := tsdrv.OutRow{T: r.Intn(nt)}
	mask := r.Range(1, 15)
	if r.Chance(1, 3) {
		mask = 1 << uint(r.Intn(4))
	}
	for f := 0; f < tsdrv.NFields; f++ {
		if mask&(1<<uint(f)) != 0 {
			var v int64
			switch f {
			case 0:
				v = int64(r.Range(-3, 40))
			case 1:
				v = int64(r.Range(-8, 60))
			case 2:
				v = int64(r.Intn(2))
			default:
				v = int64(r.Intn(len(tsdrv.StrPool)))
			}
			o.F = append(o.F, tsdrv.FV{F: f, V: v})
		}
	}
	return o
}

// lwwRows: replay of rows in order into a (time, field) map; ascending rows
func lwwRows(seqs ...[]tsdrv.OutRow) []tsdrv.OutRow {
	m := map[int]map[int]int64{}
	for _, rows := range seqs {
		for _, r := range rows {
			if m[r.T] == nil {
				m[r.T] = map[int]int64{}
			}
			for _, fv := range r.F {
				m[r.T][fv.F] = fv.V
			}
		}
	}
	var ts []int
	for t := range m {
		ts = append(ts, t)
	}
	sort.Ints(ts)
	var out []tsdrv.OutRow
	for _, t := range ts {
		o := tsdrv.OutRow{T: t}
		for f := 0; f < tsdrv.NFields; f++ {
			if v, ok := m[t][f]; ok {
				o.F = append(o.F, tsdrv.FV{F: f, V: v})
			}
		}
		out = append(out, o)
	}
	return out
}

func sortedTable(r *gen.Rand, n, nt int) []tsdrv.OutRow {
	var raw []tsdrv.OutRow
	for i := 0; i < n; i++ {
		raw = append(raw, fnRow(r, nt))
	}
	return lwwRows(raw)
}

func runFn(n int) {
	enc := json.NewEncoder(os.Stdout)
	master := gen.FromEnv(2202)
	for i := 0; i < n; i++ {
		r := master.Fork()
		var c FnCase
		func() {
			defer func() {
				if e := recover(); e != nil {
					c.Err = "panic"
				}
			}()
			switch i % 3 {
			case 0:
				c.Fn = "sort"
				nrows := gen.Pick(r, []int{1, 2, 3, 5, 8, 13, 14, 20, 33, 60})
				nt := gen.Pick(r, []int{2, 4, 8, 40})
				for k := 0; k < nrows; k++ {
					c.A = append(c.A, fnRow(r, nt))
				}
				h := record.NewColumnSortHelper()
				out := h.Sort(recOf(c.A))
				rows, _, err := tsdrv.RowsOf(out)
				if err != nil {
					c.Err = err.Error()
				}
				c.Out = rows
				h.Release()
				c.Want = lwwRows(c.A)
			default:
				nt := gen.Pick(r, []int{3, 6, 12, 30})
				c.A = sortedTable(r, r.Range(1, 12), nt) // newer
				c.B = sortedTable(r, r.Range(1, 12), nt) // older
				if r.Chance(1, 4) {                      // disjoint ranges: the non-overlap fast paths
					for k := range c.A {
						c.A[k].T += 40
					}
					if r.Bool() {
						c.A, c.B = c.B, c.A
					}
				}
				c.Want = lwwRows(c.B, c.A)
				res := &record.Record{} // as MemTables.Values / tsmMergeCursor do: the merge builds the schema itself
				if i%3 == 1 {
					c.Fn = "merge"
					res.MergeRecord(recOf(c.A), recOf(c.B))
				} else {
					c.Fn = "mergd"
					res.MergeRecordDescend(recOf(tsdrv.Reverse(c.A)), recOf(tsdrv.Reverse(c.B)))
				}
				rows, _, err := tsdrv.RowsOf(res)
				if err != nil {
					c.Err = err.Error()
				}
				if c.Fn == "mergd" {
					rows = tsdrv.Reverse(rows)
				}
				c.Out = rows
			}
		}()
		if c.Err == "" && !tsdrv.EqRows(c.Want, c.Out) {
			c.Bad = "result differs from the last-write-wins replay"
		}
		if c.Bad == "" && c.Err == "" {
			c.Want = nil
		}
		_ = enc.Encode(c)
	}
}
