// C02 correspondence harness: generated histories of write batches interleaved with flush (plain and paused after the
// memtable swap), level / full compaction, out-of-order merge (into ordered files, and merge-self) and close/reopen are
// run on a REAL shard (engine/verif_export_c02.go). After every op the shard is read back through the real cursors
// (ascending, descending, sub-ranges, field subsets) and compared with the DIRECT ORACLE: a Go last-write-wins map over
// the acknowledged writes. One JSON object per history is printed; it also carries the file listing and the full dump
// after every op so that the driver can replay the history on the Coq model.
//
// usage: c02 <n-histories> [replay-file]
package main

import (
	"encoding/json"
	"flag"
	"fmt"
	"os"
	"path/filepath"
	"runtime/debug"
	"sort"
	"strconv"
	"time"

	"github.com/openGemini/openGemini/engine/immutable"
	"verifharness/internal/gen"
	"verifharness/internal/tsdrv"
)

const NT = 12 // timestamps 0..11

type Op struct {
	K     string      `json:"k"` // W F FB FE LC FC MO MS R | BG (background tick) | MOB (the tick's non-forced merge)
	Rows  []tsdrv.Row `json:"rows,omitempty"`
	Level int         `json:"level,omitempty"`
	Bg    bool        `json:"bg,omitempty"`    // a step the background tick (real planner, real schedule) made
	X     *XRead      `json:"x,omitempty"`     // K = "X": an explicit statement-level read (corpus witnesses)
	Agg   []XAgg      `json:"agg,omitempty"`   // aggregate results observed after the op (file-cursor path)
	Reads []ReadObs   `json:"reads,omitempty"` // shaped reads observed after the op (replayed on the model's read_layout)
	Lim   []ReadObs   `json:"lim,omitempty"`   // LIMIT/OFFSET reads observed after the op (replayed on the model's limit predicate)
	// observations after the op
	Files []tsdrv.File              `json:"files"`
	Dump  map[string][]tsdrv.OutRow `json:"dump"` // all fields, full range, ascending; key = series
	Err   string                    `json:"err,omitempty"`
}

// ReadObs: one shaped read as delivered: per series the rows in delivery order
type ReadObs struct {
	Tmin   int                       `json:"tmin"`
	Tmax   int                       `json:"tmax"`
	Fields []int                     `json:"fields"`
	Asc    bool                      `json:"asc"`
	Kind   string                    `json:"kind"`           // plain | zone
	Arr    [][2]int                  `json:"arr,omitempty"`  // flat read through ONE group cursor: (series, time) in arrival order
	Need   int                       `json:"need,omitempty"` // limit reads: limit + offset
	Rows   map[string][]tsdrv.OutRow `json:"rows"`
}

type Fail struct {
	Op     int            `json:"op"`
	Query  tsdrv.Query    `json:"query"`
	Series int            `json:"series"`
	Want   []tsdrv.OutRow `json:"want"`
	Got    []tsdrv.OutRow `json:"got"`
	What   string         `json:"what"`
}

type History struct {
	Case    int            `json:"case"`
	NWal    int            `json:"nwal"`
	NSer    int            `json:"nser"`
	Auto    bool           `json:"auto,omitempty"` // a background tick (merge + level compaction schedule) follows every flush / reopen
	In      []Op           `json:"in,omitempty"`   // the generated ops (Ops additionally holds the steps the background ticks made)
	Ops     []Op           `json:"ops"`
	Oracle  []Fail         `json:"oracle"`
	XOracle []XFail        `json:"xoracle,omitempty"` // failures of the statement-level reads (reads.go)
	XReads  int            `json:"xreads"`
	XKinds  map[string]int `json:"xkinds,omitempty"`
	Queries int            `json:"queries"`
	Flags   Flags          `json:"flags"`
	Crash   string         `json:"crash,omitempty"`
}

type Flags struct {
	CrossOverwrite bool `json:"cross_overwrite"` // a (series,time,field) rewritten after a flush/reopen moved the older value
	Late           bool `json:"late"`            // a row older than already flushed data of its series
	Partial        bool `json:"partial"`         // a row carrying a strict subset of the fields later completed/overwritten
	InBatchRepeat  bool `json:"in_batch_repeat"`
	Snapshot       bool `json:"snapshot"` // reads happened while a snapshot table was live
	Compacted      bool `json:"compacted"`
	Merged         bool `json:"merged"`
	Reopened       bool `json:"reopened"`
	OOOFile        bool `json:"ooo_file"`
	Background     bool `json:"background"` // a background tick (planner-chosen merge / compaction schedule) changed the layout
}

// ---- generation ----

type genState struct {
	r       *gen.Rand
	nser    int
	now     int // drifting "current time" index
	written map[[2]int]bool
}

func (g *genState) value(f int) int64 {
	switch f {
	case 0:
		return int64(g.r.Range(-3, 40))
	case 1:
		return int64(g.r.Range(-8, 60))
	case 2:
		return int64(g.r.Intn(2))
	default:
		if g.r.Chance(1, 12) {
			return 0 // empty string
		}
		return int64(g.r.Range(1, len(tsdrv.StrPool)-1))
	}
}

func (g *genState) row() tsdrv.Row {
	var r tsdrv.Row
	r.S = g.r.Intn(g.nser)
	switch g.r.Intn(10) {
	case 0, 1, 2, 3, 4: // near now
		r.T = g.now + g.r.Range(-1, 1)
	case 5, 6: // late
		r.T = g.r.Intn(g.now + 1)
	case 7: // an already written point of this series, if any
		var c []int
		for t := 0; t < NT; t++ {
			if g.written[[2]int{r.S, t}] {
				c = append(c, t)
			}
		}
		if len(c) > 0 {
			r.T = gen.Pick(g.r, c)
		} else {
			r.T = g.now
		}
	default:
		r.T = g.r.Intn(NT)
	}
	if r.T < 0 {
		r.T = 0
	}
	if r.T >= NT {
		r.T = NT - 1
	}
	// field subset: full rows are less common than partial ones
	mask := g.r.Range(1, 15)
	if g.r.Chance(1, 4) {
		mask = 15
	}
	if g.r.Chance(1, 4) {
		mask = 1 << uint(g.r.Intn(4))
	}
	for f := 0; f < tsdrv.NFields; f++ {
		if mask&(1<<uint(f)) != 0 {
			r.F = append(r.F, tsdrv.FV{F: f, V: g.value(f)})
		}
	}
	g.written[[2]int{r.S, r.T}] = true
	return r
}

func (g *genState) batch() []tsdrv.Row {
	n := g.r.Range(1, 6)
	var rows []tsdrv.Row
	for i := 0; i < n; i++ {
		row := g.row()
		rows = append(rows, row)
		if g.r.Chance(1, 5) { // repeat the same (series, time) inside the batch with other fields/values
			r2 := g.row()
			r2.S, r2.T = row.S, row.T
			g.written[[2]int{r2.S, r2.T}] = true
			rows = append(rows, r2)
		}
	}
	if g.r.Chance(1, 2) && g.now < NT-1 {
		g.now++
	}
	return rows
}

func genHistory(r *gen.Rand) (int, int, []Op) {
	nser := r.Range(1, 4)
	nwal := gen.Pick(r, []int{1, 2, 3, 4, 16, 16})
	g := &genState{r: r, nser: nser, now: r.Range(1, 4), written: map[[2]int]bool{}}
	n := r.Range(5, 18)
	var ops []Op
	paused := 0
	// "deep layout" profile (about a third of the histories): first several rounds of writes + flush with the clock
	// advancing, so that the reorganisations that follow find three or more ordered files and several out-of-order
	// files (late rows of every round) instead of one or two
	if r.Chance(7, 20) {
		rounds := r.Range(3, 5)
		for k := 0; k < rounds; k++ {
			for w := r.Range(1, 2); w > 0; w-- {
				ops = append(ops, Op{K: "W", Rows: g.batch()})
			}
			ops = append(ops, Op{K: "F"})
			if g.now < NT-1 {
				g.now++
			}
		}
		n = len(ops) + r.Range(4, 10)
	}
	for len(ops) < n || paused > 0 {
		if paused > 0 {
			paused--
			if paused == 0 {
				ops = append(ops, Op{K: "FE"})
			} else {
				ops = append(ops, Op{K: "W", Rows: g.batch()})
			}
			continue
		}
		switch x := r.Intn(100); {
		case x < 50:
			ops = append(ops, Op{K: "W", Rows: g.batch()})
		case x < 64:
			ops = append(ops, Op{K: "F"})
		case x < 70:
			ops = append(ops, Op{K: "FB"})
			paused = r.Range(1, 3)
		case x < 76:
			ops = append(ops, Op{K: "LC", Level: r.Intn(2)})
		case x < 81:
			ops = append(ops, Op{K: "FC"})
		case x < 86:
			ops = append(ops, Op{K: "MO"})
		case x < 89:
			ops = append(ops, Op{K: "MS"})
		case x < 93:
			ops = append(ops, Op{K: "BG"})
		default:
			ops = append(ops, Op{K: "R"})
		}
	}
	return nser, nwal, ops
}

// ---- execution ----

func allFields() []int { return []int{0, 1, 2, 3} }

func queries(r *gen.Rand) []tsdrv.Query {
	qs := []tsdrv.Query{
		{Fields: allFields(), Tmin: -1, Tmax: NT, Asc: true, Parallel: 1},
		{Fields: allFields(), Tmin: -1, Tmax: NT, Asc: false, Parallel: r.Range(1, 3), Flat: r.Bool()},
	}
	for i := 0; i < 2; i++ {
		var q tsdrv.Query
		a, b := r.Range(-1, NT), r.Range(-1, NT)
		if a > b {
			a, b = b, a
		}
		if r.Chance(1, 5) {
			b = a // single instant
		}
		q.Tmin, q.Tmax = a, b
		mask := r.Range(1, 15)
		for f := 0; f < tsdrv.NFields; f++ {
			if mask&(1<<uint(f)) != 0 {
				q.Fields = append(q.Fields, f)
			}
		}
		q.Asc = r.Bool()
		q.Parallel = r.Range(1, 4)
		q.Flat = r.Bool()
		qs = append(qs, q)
	}
	return qs
}

func runHistory(idx int, work string, nser, nwal int, auto bool, in []Op, qr *gen.Rand) (h History) {
	h = History{Case: idx, NWal: nwal, NSer: nser, Auto: auto, In: in, XKinds: map[string]int{}}
	dir := filepath.Join(work, "c02", strconv.Itoa(idx))
	_ = os.RemoveAll(dir)
	defer os.RemoveAll(dir)
	defer func() {
		if e := recover(); e != nil {
			h.Crash = fmt.Sprint("panic: ", e)
			if os.Getenv("VERIF_DEBUG") != "" {
				fmt.Fprintf(os.Stderr, "PANIC %v\n%s\n", e, debug.Stack())
			}
		}
	}()
	tsdrv.SetWalPartitions(nwal)
	sh, err := tsdrv.Open(dir, nser)
	if err != nil {
		h.Crash = "open: " + err.Error()
		return
	}
	defer func() { _ = sh.Close() }()
	lww := tsdrv.NewLWW()
	// bookkeeping for the coverage flags
	gen_ := 0                      // flush generation
	lastGen := map[tsdrv.Key]int{} // generation of the last write of a key
	flushedMax := map[int]int{}    // per series: max time flushed so far
	memMax := map[int]int{}        // per series: max time in memtable
	rowFields := map[[2]int]int{}  // fields ever written per (s,t)
	bump := func() {
		gen_++
		for s, t := range memMax {
			if ft, ok := flushedMax[s]; !ok || t > ft {
				flushedMax[s] = t
			}
		}
		memMax = map[int]int{}
	}
	pausedLive := false
	var prevFiles []tsdrv.File
	xreads := os.Getenv("VERIF_C02_XREADS") != "none"

	// observe: file listing + reads after an executed op; the op is appended to h.Ops. false = abort the history
	observe := func(op Op) bool {
		i := len(h.Ops)
		files, err := sh.Files()
		if err != nil {
			h.Crash = "files: " + err.Error()
			return false
		}
		op.Files = files
		for _, f := range files {
			if !f.Order {
				h.Flags.OOOFile = true
			}
		}
		changed := i > 0 && !sameFiles(prevFiles, files)
		if changed && (op.K == "LC" || op.K == "FC") {
			h.Flags.Compacted = true
		}
		if changed && (op.K == "MO" || op.K == "MS" || op.K == "MOB") {
			h.Flags.Merged = true
		}
		if changed && op.Bg {
			h.Flags.Background = true
		}
		prevFiles = files
		if pausedLive {
			h.Flags.Snapshot = true
		}
		for qi, q := range queries(qr) {
			d, arrival, err := sh.DumpOrdered(q)
			h.Queries++
			if err != nil {
				h.Oracle = append(h.Oracle, Fail{Op: i, Query: q, What: "query error: " + err.Error()})
				continue
			}
			if qi == 0 {
				op.Dump = map[string][]tsdrv.OutRow{}
				for s, rows := range d {
					op.Dump[strconv.Itoa(s)] = rows
				}
			} else {
				ro := ReadObs{Tmin: q.Tmin, Tmax: q.Tmax, Fields: q.Fields, Asc: q.Asc, Kind: "plain", Rows: map[string][]tsdrv.OutRow{}}
				for s, rows := range d {
					ro.Rows[strconv.Itoa(s)] = rows
				}
				if q.Flat && q.Parallel == 1 {
					ro.Kind = "flat1"
					for _, a := range arrival {
						ro.Arr = append(ro.Arr, [2]int{a.S, a.T})
					}
				}
				op.Reads = append(op.Reads, ro)
			}
			if q.Flat && q.Parallel == 1 { // one merged stream: globally sorted by time
				for k := 1; k < len(arrival); k++ {
					if arrival[k].T != arrival[k-1].T && (arrival[k].T > arrival[k-1].T) != q.Asc {
						h.Oracle = append(h.Oracle, Fail{Op: i, Query: q, Series: arrival[k].S, What: "merged stream not sorted by time"})
						break
					}
				}
			}
			for s := 0; s < nser; s++ {
				want := lww.Rows(s, q, NT)
				if !q.Asc {
					want = tsdrv.Reverse(want)
				}
				if !tsdrv.EqRows(want, d[s]) {
					h.Oracle = append(h.Oracle, Fail{Op: i, Query: q, Series: s, Want: want, Got: d[s], What: classify(want, d[s], q.Asc)})
				}
			}
		}
		if op.K == "X" && op.X != nil {
			c := &xctx{op: i, sh: sh, lww: lww, nser: nser}
			h.XOracle = append(h.XOracle, c.runRead(*op.X)...)
			op.Agg = append(op.Agg, c.agg...)
			h.XReads++
			h.XKinds[op.X.Kind]++
		}
		if xreads && qr.Chance(2, 3) {
			xf, n, aggs, zone, lim := extraReads(i, sh, lww, qr, nser, files, h.XKinds)
			op.Agg = append(op.Agg, aggs...)
			op.Reads = append(op.Reads, zone...)
			op.Lim = append(op.Lim, lim...)
			h.XOracle = append(h.XOracle, xf...)
			h.XReads += n
		}
		h.Ops = append(h.Ops, op)
		return true
	}

	// one tick of the background machinery, synchronously and in the order Compactor.run uses: the out-of-order merge
	// with the planner's own (non-forced) trigger, then shard.Compact's schedule = LevelCompact for every level of
	// immutable.LevelCompactRule; every plan is the real planner's. Each step that changed the layout is observed as
	// an op of its own (MOB / LC, bg=true); a tick that changed nothing is observed once as BG.
	tick := func() bool {
		did := false
		step := func(op Op, f func() error) bool {
			if err := f(); err != nil {
				op.Err = err.Error()
			}
			files, err := sh.Files()
			if err != nil {
				h.Crash = "files: " + err.Error()
				return false
			}
			if op.Err != "" || !sameFiles(prevFiles, files) {
				did = true
				return observe(op)
			}
			return true
		}
		sh.V.SetBackground(true, true)
		defer sh.V.SetBackground(false, false)
		if !step(Op{K: "MOB", Bg: true}, func() error { return sh.V.MergeOutOfOrder(false, false) }) {
			return false
		}
		for _, lv := range immutable.LevelCompactRule {
			lv := lv
			if !step(Op{K: "LC", Level: int(lv), Bg: true}, func() error { return sh.V.LevelCompact(lv) }) {
				return false
			}
		}
		if !did {
			return observe(Op{K: "BG", Bg: true})
		}
		return true
	}

	for i := range in {
		op := in[i]
		op.Files, op.Dump, op.Err = nil, nil, ""
		flushed := false
		switch op.K {
		case "W":
			seen := map[[2]int]bool{}
			for _, r := range op.Rows {
				k2 := [2]int{r.S, r.T}
				if seen[k2] {
					h.Flags.InBatchRepeat = true
				}
				seen[k2] = true
				if ft, ok := flushedMax[r.S]; ok && r.T <= ft {
					h.Flags.Late = true
				}
				m := 0
				for _, fv := range r.F {
					m |= 1 << uint(fv.F)
					k := tsdrv.Key{S: r.S, T: r.T, F: fv.F}
					if g0, ok := lastGen[k]; ok && g0 < gen_ {
						h.Flags.CrossOverwrite = true
					}
					lastGen[k] = gen_
				}
				if old, ok := rowFields[k2]; ok && old != m && len(r.F) < tsdrv.NFields {
					h.Flags.Partial = true
				}
				rowFields[k2] |= m
				if t, ok := memMax[r.S]; !ok || r.T > t {
					memMax[r.S] = r.T
				}
			}
			if err := sh.Write(op.Rows); err != nil {
				op.Err = err.Error() // not acknowledged: not applied to the reference
			} else {
				lww.Apply(op.Rows)
			}
		case "F":
			sh.V.ForceFlush()
			bump()
			flushed = true
		case "FB":
			if sh.V.BeginPausedFlush() {
				pausedLive = true
				bump()
			} else {
				op.Err = "nothing-to-flush"
			}
		case "FE":
			sh.V.FinishPausedFlush()
			pausedLive = false
			flushed = true
		case "LC":
			sh.V.SetBackground(true, false)
			if err := sh.V.LevelCompact(uint16(op.Level)); err != nil {
				op.Err = err.Error()
			}
			sh.V.SetBackground(false, false)
		case "FC":
			sh.V.SetBackground(true, false)
			if err := sh.V.FullCompact(); err != nil {
				op.Err = err.Error()
			}
			sh.V.SetBackground(false, false)
		case "MO":
			sh.V.SetBackground(false, true)
			if err := sh.V.MergeOutOfOrder(false, true); err != nil {
				op.Err = err.Error()
			}
			sh.V.SetBackground(false, false)
		case "MS":
			sh.V.SetBackground(false, true)
			if err := sh.V.MergeOutOfOrder(true, false); err != nil {
				op.Err = err.Error()
			}
			sh.V.SetBackground(false, false)
		case "R":
			if err := sh.Reopen(); err != nil {
				h.Crash = "reopen: " + err.Error()
				return
			}
			bump()
			h.Flags.Reopened = true
			flushed = true
		case "BG":
			if op.Bg { // a recorded step of an earlier run: the tick is re-derived from the generated op
				continue
			}
			if !tick() {
				return
			}
			continue
		case "MOB":
			continue // only ever derived
		}
		if !observe(op) {
			return
		}
		if auto && flushed && !pausedLive {
			if !tick() {
				return
			}
		}
	}
	if pausedLive {
		sh.V.FinishPausedFlush()
	}
	return
}

// guarded runs one history under a watchdog: a read or reorganisation that never returns (e.g. a merge loop that stops
// making progress) must not stall the whole check until its global timeout. On expiry the history is reported with
// Crash = "timeout ..." (its ops are the failing input) and the process exits with status 3.
func guarded(enc *json.Encoder, idx, nser, nwal int, auto bool, ops []Op, f func() History) History {
	limit := 240 * time.Second
	if v, err := strconv.Atoi(os.Getenv("VERIF_C02_HISTORY_TIMEOUT_S")); err == nil && v > 0 {
		limit = time.Duration(v) * time.Second
	}
	done := make(chan History, 1)
	go func() { done <- f() }()
	select {
	case out := <-done:
		return out
	case <-time.After(limit):
		_ = enc.Encode(History{Case: idx, NSer: nser, NWal: nwal, Auto: auto, In: ops, Ops: ops,
			Crash: fmt.Sprintf("timeout: the history did not finish within %s (an operation or a read never returned)", limit)})
		os.Exit(3)
	}
	return History{}
}

// inputOps: the generated ops of a stored history (steps recorded from background ticks are re-derived, not replayed)
func inputOps(h History) []Op {
	if len(h.In) > 0 {
		return h.In
	}
	var out []Op
	for _, o := range h.Ops {
		if !o.Bg {
			out = append(out, o)
		}
	}
	return out
}

func sameFiles(a, b []tsdrv.File) bool {
	x, _ := json.Marshal(a)
	y, _ := json.Marshal(b)
	return string(x) == string(y)
}

func classify(want, got []tsdrv.OutRow, asc bool) string {
	for i := 1; i < len(got); i++ {
		if got[i].T == got[i-1].T {
			return "duplicate timestamp"
		}
		if (got[i].T > got[i-1].T) != asc {
			return "rows not sorted by time"
		}
	}
	if len(got) < len(want) {
		return "row missing"
	}
	if len(got) > len(want) {
		return "extra row"
	}
	return "value differs from last-write-wins replay"
}

func main() {
	flag.Parse() // the lifted VictoriaMetrics memory package insists on it
	args := flag.Args()
	n := 300
	if len(args) > 0 {
		n, _ = strconv.Atoi(args[0])
	}
	work := os.Getenv("VERIF_WORK")
	if work == "" {
		work = filepath.Join(os.TempDir(), "verif-c02")
	}
	if err := tsdrv.Init(work); err != nil {
		fmt.Fprintln(os.Stderr, "init:", err)
		os.Exit(2)
	}
	if len(args) > 0 && args[0] == "fn" { // function-level tie (fn.go)
		n := 600
		if len(args) > 1 {
			n, _ = strconv.Atoi(args[1])
		}
		runFn(n)
		return
	}
	enc := json.NewEncoder(os.Stdout)
	if len(args) > 1 { // replay: a file holding one History (its ops are re-run)
		b, err := os.ReadFile(args[1])
		if err != nil {
			fmt.Fprintln(os.Stderr, err)
			os.Exit(2)
		}
		var h History
		if err := json.Unmarshal(b, &h); err != nil {
			fmt.Fprintln(os.Stderr, err)
			os.Exit(2)
		}
		out := runHistory(h.Case, work, h.NSer, h.NWal, h.Auto, inputOps(h), gen.FromEnv(2002))
		_ = enc.Encode(out)
		return
	}
	// corpus first (hand-picked and minimised histories), then generated ones
	idx := 0
	if dir := os.Getenv("VERIF_CORPUS"); dir != "" {
		names, _ := filepath.Glob(filepath.Join(dir, "*.case"))
		sort.Strings(names)
		for _, p := range names {
			b, err := os.ReadFile(p)
			if err != nil {
				continue
			}
			var h History
			if json.Unmarshal(b, &h) != nil {
				continue
			}
			hh, cidx := h, 100000+idx
			out := guarded(enc, cidx, hh.NSer, hh.NWal, hh.Auto, inputOps(hh), func() History {
				return runHistory(cidx, work, hh.NSer, hh.NWal, hh.Auto, inputOps(hh), gen.FromEnv(2002).Fork())
			})
			_ = enc.Encode(out)
			idx++
		}
	}
	master := gen.FromEnv(2)
	for i := 0; i < n; i++ {
		r := master.Fork()
		nser, nwal, ops := genHistory(r)
		auto := r.Chance(3, 10)
		if only := os.Getenv("VERIF_ONLY"); only != "" && only != strconv.Itoa(i) {
			continue
		}
		if os.Getenv("VERIF_DEBUG") != "" {
			b, _ := json.Marshal(History{Case: i, NWal: nwal, NSer: nser, Ops: ops})
			fmt.Fprintf(os.Stderr, "BEGIN %s\n", b)
		}
		out := guarded(enc, i, nser, nwal, auto, ops, func() History { return runHistory(i, work, nser, nwal, auto, ops, r.Fork()) })
		_ = enc.Encode(out)
	}
}
