// Regular-expression atoms: the syntax tree of a pattern as Go's parser produces it (the input of the Coq model of the
// tag-filter translation), the stages of the real translation (diagnostics), language samples of a pattern used as probe
// values, and the pattern x value matrix measured on the real index.
package main

import (
	"fmt"
	"regexp"
	"regexp/syntax"
	"sort"
	"unicode/utf8"
	"verifharness/internal/gen"

	"github.com/openGemini/openGemini/engine/index/tsi"
)

// ReAST mirrors syntax.Regexp (operator, FoldCase flag, runes, repeat bounds, children).
type ReAST struct {
	Op   string   `json:"op"`
	Fold bool     `json:"fold,omitempty"`
	R    []int32  `json:"r,omitempty"`
	Min  int      `json:"min,omitempty"`
	Max  int      `json:"max,omitempty"`
	Sub  []*ReAST `json:"sub,omitempty"`
}

var opNames = map[syntax.Op]string{
	syntax.OpEmptyMatch: "empty", syntax.OpLiteral: "lit", syntax.OpCharClass: "class", syntax.OpAnyCharNotNL: "anynl",
	syntax.OpAnyChar: "any", syntax.OpBeginLine: "bol", syntax.OpEndLine: "eol", syntax.OpBeginText: "bot",
	syntax.OpEndText: "eot", syntax.OpWordBoundary: "wb", syntax.OpNoWordBoundary: "nwb", syntax.OpCapture: "cap",
	syntax.OpStar: "star", syntax.OpPlus: "plus", syntax.OpQuest: "quest", syntax.OpRepeat: "repeat",
	syntax.OpConcat: "concat", syntax.OpAlternate: "alt", syntax.OpNoMatch: "nomatch",
}

func astOf(r *syntax.Regexp) *ReAST {
	if r == nil {
		return nil
	}
	a := &ReAST{Op: opNames[r.Op]}
	if a.Op == "" {
		a.Op = fmt.Sprintf("op%d", r.Op)
	}
	switch r.Op {
	case syntax.OpLiteral:
		a.Fold = r.Flags&syntax.FoldCase != 0
		a.R = append([]int32{}, r.Rune...)
	case syntax.OpCharClass:
		a.R = append([]int32{}, r.Rune...)
	case syntax.OpRepeat:
		a.Min, a.Max = r.Min, r.Max
	}
	for _, s := range r.Sub {
		a.Sub = append(a.Sub, astOf(s))
	}
	return a
}

func parseAST(p string) *ReAST {
	sre, err := syntax.Parse(p, syntax.Perl)
	if err != nil {
		return nil
	}
	return astOf(sre)
}

// PatInfo: one pattern, its tree, the results of the stages of the real translation, and measured rows.
type PatInfo struct {
	Pat    string    `json:"pat"`
	AST    *ReAST    `json:"ast"`
	VText  string    `json:"vtext"`  // tagFilter.value after Init
	Final  *ReAST    `json:"final"`  // simplifyRegexp(Parse(pat)); op "empty" also for the emptyRegexp sentinel
	Prefix string    `json:"prefix"` // extractRegexpPrefix
	HasSfx bool      `json:"has_sfx"`
	Sfx    *ReAST    `json:"sfx,omitempty"` // Parse(escape(suffix expression))
	OrV    []string  `json:"orv"`           // getOrValues(escape(suffix expression))
	AOV    []string  `json:"aov"`           // anchoredOrValues(pat): today's exact-value lookups for ^X$
	ALP    string    `json:"alp"`           // anchoredLiteralPrefix(pat)
	All    bool      `json:"all"`           // regexMatchesEverything(pat)
	Rows   []AtomRow `json:"rows"`
	Gen    bool      `json:"gen,omitempty"` // generated from the grammar (genPattern), not from the curated list
}

// filterValueText: the value text of a regex tag filter after Init. It is part of the key of the tag-filter result cache
// and of the cost cache (tagFilter.Marshal), and the expression the pruning path compiles (matchSeriesKeyTagFilter).
func filterValueText(p string) string {
	tf, err := tsi.VerifC10NewTagFilter([]byte("m"), []byte("k"), []byte(p), false, true)
	if err != nil {
		return p
	}
	return string(tf.Value())
}

func stagesOf(p string) *PatInfo {
	pi := &PatInfo{Pat: p, AST: parseAST(p), VText: filterValueText(p), OrV: []string{}, AOV: []string{}}
	pi.AOV = append(pi.AOV, tsi.VerifC10AnchoredOrValues(p)...)
	pi.ALP = string(tsi.VerifC10AnchoredLiteralPrefix(p))
	pi.All = tsi.VerifC10RegexMatchesEverything(p)
	sre, err := syntax.Parse(p, syntax.Perl)
	if err != nil {
		return pi
	}
	pi.Final = astOf(tsi.VerifC10SimplifyRegexp(sre))
	pre, suf := tsi.VerifC10ExtractRegexpPrefix([]byte(p))
	pi.Prefix = string(pre)
	if len(suf) > 0 {
		pi.HasSfx = true
		esc := tsi.VerifC10EscapeRegexp(string(suf))
		if ps, err := syntax.Parse(esc, syntax.Perl); err == nil {
			pi.Sfx = astOf(ps)
		}
		pi.OrV = append(pi.OrV, tsi.VerifC10GetOrValues(esc)...)
	}
	return pi
}

// ---------------------------------------------------------------------------------------------------------
// language samples of a pattern (bounded), used as probe values together with near misses

func capList(a []string, n int) []string {
	if len(a) > n {
		return a[:n]
	}
	return a
}

func samplesOf(r *syntax.Regexp) []string {
	switch r.Op {
	case syntax.OpLiteral:
		return []string{string(r.Rune)}
	case syntax.OpCharClass:
		var out []string
		for i := 0; i+1 < len(r.Rune) && len(out) < 24; i += 2 {
			lo, hi := r.Rune[i], r.Rune[i+1]
			for c := lo; c <= hi && c < lo+12 && len(out) < 24; c++ {
				if utf8.ValidRune(c) && c > 2 {
					out = append(out, string(c))
				}
			}
			if hi >= lo+12 && utf8.ValidRune(hi) {
				out = append(out, string(hi))
			}
		}
		return out
	case syntax.OpAnyCharNotNL, syntax.OpAnyChar:
		return []string{"x", "é"}
	case syntax.OpCapture:
		return samplesOf(r.Sub[0])
	case syntax.OpStar:
		s := capList(samplesOf(r.Sub[0]), 2)
		out := []string{""}
		for _, x := range s {
			out = append(out, x, x+x)
		}
		return out
	case syntax.OpPlus:
		s := capList(samplesOf(r.Sub[0]), 2)
		var out []string
		for _, x := range s {
			out = append(out, x, x+x)
		}
		return out
	case syntax.OpQuest:
		return append([]string{""}, capList(samplesOf(r.Sub[0]), 2)...)
	case syntax.OpRepeat:
		s := capList(samplesOf(r.Sub[0]), 1)
		var out []string
		for _, x := range s {
			a := ""
			for i := 0; i < r.Min; i++ {
				a += x
			}
			out = append(out, a, a+x)
		}
		return out
	case syntax.OpConcat:
		parts := make([][]string, len(r.Sub))
		for i, s := range r.Sub {
			parts[i] = samplesOf(s)
			if len(parts[i]) == 0 {
				parts[i] = []string{""}
			}
		}
		base := ""
		for _, p := range parts {
			base += p[0]
		}
		out := []string{base}
		for i := range parts { // vary one position at a time
			for _, alt := range parts[i][1:] {
				s := ""
				for j, p := range parts {
					if j == i {
						s += alt
					} else {
						s += p[0]
					}
				}
				out = append(out, s)
			}
		}
		return capList(out, 30)
	case syntax.OpAlternate:
		var out []string
		for _, s := range r.Sub {
			out = append(out, capList(samplesOf(s), 8)...)
		}
		return capList(out, 30)
	}
	return []string{""} // assertions, empty match
}

// probeValues: samples of the pattern's language and near misses (a character added in front / behind, a separator byte
// appended), without the empty string (it cannot be stored) and without bytes the write path cannot carry.
func probeValues(p string) []string {
	sre, err := syntax.Parse(p, syntax.Perl)
	if err != nil {
		return nil
	}
	seen := map[string]bool{}
	var out []string
	add := func(s string) {
		if s == "" || seen[s] || !utf8.ValidString(s) || len(s) > 40 {
			return
		}
		seen[s] = true
		out = append(out, s)
	}
	ss := capList(samplesOf(sre), 28)
	for _, s := range ss {
		add(s)
	}
	for i, s := range ss {
		if i >= 6 {
			break
		}
		add("x" + s)
		add(s + "x")
		add(s + "0")
		add("x" + s + "x")
		// truncations: the sample without its first / last rune, alone and followed by another character
		rs := []rune(s)
		if len(rs) > 1 {
			add(string(rs[1:]))
			add(string(rs[:len(rs)-1]))
			add(string(rs[1:]) + "x")
			add("x" + string(rs[:len(rs)-1]))
		}
	}
	if len(ss) > 0 {
		add(ss[0] + "\x01")
		add("\x02" + ss[0])
	}
	return out
}

// ---------------------------------------------------------------------------------------------------------
// patterns from a grammar (the model starts from Go's parse tree of whatever comes out):
//   pattern := ['(?i)'] ['^'] alt ['$']      alt := concat ('|' concat)*      concat := piece+      piece := atom [quant]
//   atom := literal | class | '.' | '\d' | '\w' | '(' alt ')' | '(?:' alt ')' | '\b' (rare) | '^' / '$' inside (rare)
//   quant := '*' | '+' | '?' | '{2}' | '{1,2}'
// restricted to what the model's matcher covers exactly: ASCII / alphabet literals, byte-free of 0-2.

var genLits = []string{"web", "db", "w", "d", "a", "b", "c", "ab", "we", "-", "1", "0", "x", "eb", "e", "\\.", "é", "a b", "="}
var genClasses = []string{"[wd]", "[a-c]", "[0-9]", "[^a]", "[ab]", "[a-z]", "[^0-9]", "[eé]", "\\d", "\\w", "."}

func genAtomPat(r *gen.Rand, depth int) string {
	switch c := r.Intn(12); {
	case c < 6:
		return gen.Pick(r, genLits)
	case c < 9:
		return gen.Pick(r, genClasses)
	case c < 11 && depth > 0:
		if r.Bool() {
			return "(" + genAltPat(r, depth-1) + ")"
		}
		return "(?:" + genAltPat(r, depth-1) + ")"
	default:
		return gen.Pick(r, []string{"\\b", "^", "$", ".", "a", "b"})
	}
}

func genConcatPat(r *gen.Rand, depth int) string {
	out := ""
	for n := 1 + r.Intn(3); n > 0; n-- {
		a := genAtomPat(r, depth)
		if r.Chance(1, 4) && a != "^" && a != "$" && a != "\\b" {
			a += gen.Pick(r, []string{"*", "+", "?", "{2}", "{1,2}"})
		}
		out += a
	}
	return out
}

func genAltPat(r *gen.Rand, depth int) string {
	out := genConcatPat(r, depth)
	for n := r.Intn(3); n > 0 && r.Chance(1, 2); n-- {
		out += "|" + genConcatPat(r, depth)
	}
	return out
}

// genPatterns returns n distinct generated patterns that compile and are not in the curated list
func genPatterns(r *gen.Rand, n int, have []string) []string {
	seen := map[string]bool{}
	for _, p := range have {
		seen[p] = true
	}
	var out []string
	for tries := 0; len(out) < n && tries < 50*n; tries++ {
		p := genAltPat(r, 2)
		if r.Chance(1, 3) {
			p = "^" + p
		}
		if r.Chance(1, 3) {
			p += "$"
		}
		if r.Chance(1, 12) {
			// the model folds ASCII letters only (Go folds é/É, k/K(Kelvin), s/long-s ...): no case folding over non-ASCII literals
			ascii := true
			for _, c := range p {
				if c > 127 {
					ascii = false
				}
			}
			if ascii {
				p = "(?i)" + p
			}
		}
		if seen[p] || len(p) > 40 {
			continue
		}
		if _, err := regexp.Compile(p); err != nil {
			continue
		}
		seen[p] = true
		out = append(out, p)
	}
	return out
}

// ---------------------------------------------------------------------------------------------------------
// the pattern x value matrix on the real index: every pattern of the alphabet against every value of the alphabet and
// the pattern's own probe values (and the absent tag), through both search paths

type RegexMatrix struct {
	Kind string `json:"kind"` // "regex"
	// constants of the translation read from the package: maxOrValues and the three bytes marshalTagValue escapes
	MaxOrValues int        `json:"max_or_values"`
	Escape      [3]int     `json:"escape"`
	Perl        bool       `json:"perl"`
	Pats        []*PatInfo `json:"pats"`
	Fail        []Fail     `json:"oracle"`
}

func regexMatrix(dir string, patterns []string, generated map[string]bool) *RegexMatrix {
	seq := uint64(1000)
	e := &env{dir: dir, clock: 1, seq: &seq}
	e.open()
	out := &RegexMatrix{Kind: "regex", Perl: perlMode, Fail: []Fail{}, MaxOrValues: tsi.VerifC10MaxOrValues,
		Escape: [3]int{int(tsi.VerifC10EscapeBytes[0]), int(tsi.VerifC10EscapeBytes[1]), int(tsi.VerifC10EscapeBytes[2])}}
	probes := map[string][]string{}
	all := map[string]bool{}
	for _, v := range vals {
		if v != "" {
			all[v] = true
		}
	}
	for _, p := range patterns {
		probes[p] = probeValues(p)
		for _, v := range probes[p] {
			all[v] = true
		}
	}
	var vl []string
	for v := range all {
		vl = append(vl, v)
	}
	sort.Strings(vl)
	idOf := map[string]uint64{}
	idOf[""] = e.insert(probeMst, nil)
	for _, v := range vl {
		idOf[v] = e.insert(probeMst, [][2]string{{"k", v}})
	}
	e.b.Flush()
	for pi, p := range patterns {
		info := stagesOf(p)
		info.Gen = generated[p]
		x := &Expr{T: "atom", K: "k", O: "re", V: p}
		// the show-series path evaluates the filter afresh; the select path keeps a tag-filter result cache, which is emptied
		// here so that every pattern is measured on its own
		g1 := e.queryIDs(probeMst, x)
		must(e.b.ClearCache())
		g2 := e.queryOpts(probeMst, x)
		if !eqU(g1, g2) && !perlMode {
			out.Fail = append(out.Fail, Fail{Kind: "atom-paths-differ", Op: pi, What: fmt.Sprintf("k =~ /%s/ on the probe series: show-series path %v, select path %v", p, g1, g2)})
		}
		in := map[uint64]bool{}
		for _, id := range g1 {
			in[id] = true
		}
		re := regexp.MustCompile(p)
		rowVals := map[string]bool{"": true}
		for _, v := range vals {
			rowVals[v] = true
		}
		for _, v := range probes[p] {
			rowVals[v] = true
		}
		var rv []string
		for v := range rowVals {
			rv = append(rv, v)
		}
		sort.Strings(rv)
		for _, v := range rv {
			info.Rows = append(info.Rows, AtomRow{V: v, U: re.MatchString(v), A: matchA(p, v), I: in[idOf[v]]})
		}
		out.Pats = append(out.Pats, info)
	}
	must(e.b.Close())
	return out
}
