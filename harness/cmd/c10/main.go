// C10 correspondence harness: drives the repository's real series index (tsi.MergeSetIndex behind a
// tsi.IndexBuilder, on disk under VERIF_WORK) with generated series-key sets and tag-predicate trees,
// interleaved with index flush, cache clear and close/reopen. For every case it prints the operations, what
// the implementation answered (ids on insert, id sets per query on both search paths, listings), the
// regex-atom match tables (Go regexp unanchored = the language's meaning; anchored = today's index
// behaviour) and the failures of the DIRECT ORACLE (brute force over the written series).
package main

import (
	"encoding/json"
	"flag"
	"fmt"
	"os"
	"path/filepath"
	"regexp"
	"regexp/syntax"
	"sort"
	"strconv"
	"strings"
	"time"

	"github.com/openGemini/openGemini/engine/index/tsi"
	"github.com/openGemini/openGemini/lib/config"
	"github.com/openGemini/openGemini/lib/index"
	"github.com/openGemini/openGemini/lib/logger"
	"github.com/openGemini/openGemini/lib/util/lifted/influx/influxql"
	"github.com/openGemini/openGemini/lib/util/lifted/influx/meta"
	"github.com/openGemini/openGemini/lib/util/lifted/influx/query"
	"github.com/openGemini/openGemini/lib/util/lifted/vm/protoparser/influx"
	"github.com/savsgio/dictpool"
	"go.uber.org/zap"
	"verifharness/internal/gen"
)

// ---------------------------------------------------------------------------------------------------------
// case format

type Expr struct {
	T  string   `json:"t"`           // and | or | paren | atom
	L  *Expr    `json:"l,omitempty"` // and/or: left; paren: inner
	R  *Expr    `json:"r,omitempty"`
	K  string   `json:"k,omitempty"`  // atom: tag key
	O  string   `json:"o,omitempty"`  // eq neq re nre in notin
	V  string   `json:"v,omitempty"`  // eq/neq: literal value; re/nre: pattern
	K2 string   `json:"k2,omitempty"` // teq/tneq: the other tag key (tag = tag, tag != tag)
	Vs []string `json:"vs,omitempty"` // in/notin: the set (select path only; the show-series path does not implement IN)
}

type Op struct {
	Op   string      `json:"op"` // insert flush clear reopen query list
	Mst  string      `json:"mst,omitempty"`
	Tags [][2]string `json:"tags,omitempty"` // insert: sorted by key, no empty key/value (write path drops them)
	ID   uint64      `json:"id,omitempty"`   // insert: id the implementation returned
	Bump uint64      `json:"bump,omitempty"` // reopen: how far the id generator jumped (new base - old high-water mark)
	// reopen after a crash in the middle of a part merge of the index table: which on-disk state was fabricated between close
	// and open ("" = clean): A merged part in tmp, no transaction file yet; B transaction file written, nothing executed;
	// C source part already removed, merged part still in tmp; D merged part renamed into place, transaction file still there
	Crash string `json:"crash,omitempty"`
	// reopen: the index configuration of the new process: series-key bloom filter "on" / "off" ("" = unchanged). The first op
	// of a case may be {op: "config", bf: ..}: the configuration the index is created with.
	BF   string   `json:"bf,omitempty"`
	Expr *Expr    `json:"expr,omitempty"`
	IDs  []uint64 `json:"ids,omitempty"`  // query: ids by the show-series/drop path (searchTSIDs)
	IDs2 []uint64 `json:"ids2,omitempty"` // query: ids by the select path (SearchSeriesWithOpts)
	// list
	Series []SeriesOut         `json:"series,omitempty"` // every listed series (one entry per id)
	Values map[string][]string `json:"values,omitempty"` // tag key -> sorted distinct values
	Keys   []string            `json:"keys,omitempty"`   // tag keys seen in the listing
	// clist: listings with a condition and cardinalities
	Card  uint64            `json:"card"`            // SeriesCardinality(mst, expr)
	VCard map[string]uint64 `json:"vcard,omitempty"` // SearchTagValuesCardinality(mst, key)
	Only2 bool              `json:"only2,omitempty"` // query: the predicate has IN / NOT IN atoms, only the select path is observed
}

type SeriesOut struct {
	Mst  string      `json:"mst"`
	Tags [][2]string `json:"tags"`
	Bad  string      `json:"bad,omitempty"` // an id that did not resolve to exactly one key
}

type AtomRow struct {
	V string `json:"v"`
	U bool   `json:"u"` // Go regexp.MatchString(pattern, v): unanchored, the language's meaning
	A bool   `json:"a"` // anchored ^(?:pattern)$ unless pattern is a pure literal (then Contains)
	I bool   `json:"i"` // what the index's own translation of the pattern matches (measured: single-atom search on probe series)
	P bool   `json:"p"` // what the pruning path (doPrune) matches: Go regexp compiled from the filter's value text after Init
}
type AtomTab struct {
	Pat     string    `json:"pat"`
	AST     *ReAST    `json:"ast"`     // the pattern's syntax tree (Go parser, Perl flags): input of the Coq model of the translation
	VText   string    `json:"vtext"`   // tagFilter.value after Init: cache-key text and the expression doPrune compiles
	Prune   *ReAST    `json:"prune"`   // syntax tree of VText
	Literal bool      `json:"literal"` // pattern is a pure literal
	Anchors bool      `json:"anchors"` // pattern contains an explicit position assertion (^ $ \A \z \b \B)
	Rows    []AtomRow `json:"rows"`
}

type Fail struct {
	Kind string   `json:"kind"`
	Op   int      `json:"op"`
	What string   `json:"what"`
	Path int      `json:"path,omitempty"` // search-not-bruteforce: 1 show-series/drop path, 2 select path
	Got  []uint64 `json:"got,omitempty"`
	Want []uint64 `json:"want,omitempty"`
}

type Case struct {
	I       int       `json:"i"`
	Kind    string    `json:"kind"` // gen | corpus
	Ops     []Op      `json:"ops"`
	Atoms   []AtomTab `json:"atoms"`
	Oracle  []Fail    `json:"oracle"`
	Nontriv bool      `json:"nontrivial"`
	Perl    bool      `json:"perl"` // EnablePerlRegrep mode
}

// ---------------------------------------------------------------------------------------------------------
// the real index

type env struct {
	bf    bool // bloom-filter-enable of the index configuration used by the next open
	dir   string
	clock uint64
	seq   *uint64
	idx   *tsi.MergeSetIndex
	b     *tsi.IndexBuilder
}

func (e *env) open() {
	cfg := *config.GetIndexConfig()
	cfg.BloomFilterEnabled = e.bf
	config.SetIndexConfig(&cfg)
	lock := ""
	ident := &meta.IndexIdentifier{OwnerDb: "db0", OwnerPt: 1, Policy: "rp0"}
	ident.Index = &meta.IndexDescriptor{IndexID: 2, IndexGroupID: 3, TimeRange: meta.TimeRangeInfo{}}
	opts := new(tsi.Options).Path(e.dir).Ident(ident).IndexType(index.MergeSet).EngineType(config.TSSTORE).
		StartTime(time.Now()).EndTime(time.Now().Add(time.Hour)).Duration(time.Hour).
		LogicalClock(e.clock).SequenceId(e.seq).Lock(&lock)
	b := tsi.NewIndexBuilder(opts)
	pi, err := tsi.NewIndex(opts)
	must(err)
	pi.SetIndexBuilder(b)
	rel, err := tsi.NewIndexRelation(opts, pi, b)
	must(err)
	b.Relations[uint32(index.MergeSet)] = rel
	must(b.Open())
	e.b = b
	e.idx = pi.(*tsi.MergeSetIndex)
}

func must(err error) {
	if err != nil {
		panic(err)
	}
}

func uuidBase(clock, seq uint64) uint64 { return clock<<40 | (seq & (1<<40 - 1)) }

func (e *env) insert(mst string, tags [][2]string) uint64 {
	row := influx.Row{Name: mst}
	for _, t := range tags {
		row.Tags = append(row.Tags, influx.Tag{Key: t[0], Value: t[1]})
	}
	sort.Sort(&row.Tags)
	row.UnmarshalIndexKeys(nil)
	rows := []influx.Row{row}
	d := &dictpool.Dict{}
	d.Set(mst, &rows)
	must(e.b.CreateIndexIfNotExists(d, false))
	return rows[0].SeriesId
}

func toInflux(x *Expr) influxql.Expr {
	switch x.T {
	case "and":
		return &influxql.BinaryExpr{Op: influxql.AND, LHS: toInflux(x.L), RHS: toInflux(x.R)}
	case "or":
		return &influxql.BinaryExpr{Op: influxql.OR, LHS: toInflux(x.L), RHS: toInflux(x.R)}
	case "paren":
		return &influxql.ParenExpr{Expr: toInflux(x.L)}
	}
	ref := &influxql.VarRef{Val: x.K, Type: influxql.Tag}
	switch x.O {
	case "eq":
		return &influxql.BinaryExpr{Op: influxql.EQ, LHS: ref, RHS: &influxql.StringLiteral{Val: x.V}}
	case "neq":
		return &influxql.BinaryExpr{Op: influxql.NEQ, LHS: ref, RHS: &influxql.StringLiteral{Val: x.V}}
	case "re":
		return &influxql.BinaryExpr{Op: influxql.EQREGEX, LHS: ref, RHS: &influxql.RegexLiteral{Val: regexp.MustCompile(x.V)}}
	case "nre":
		return &influxql.BinaryExpr{Op: influxql.NEQREGEX, LHS: ref, RHS: &influxql.RegexLiteral{Val: regexp.MustCompile(x.V)}}
	case "teq", "tneq":
		op := influxql.EQ
		if x.O == "tneq" {
			op = influxql.NEQ
		}
		return &influxql.BinaryExpr{Op: influxql.Token(op), LHS: ref, RHS: &influxql.VarRef{Val: x.K2, Type: influxql.Tag}}
	case "in", "notin":
		set := map[interface{}]bool{}
		for _, v := range x.Vs {
			set[v] = true
		}
		op := influxql.IN
		if x.O == "notin" {
			op = influxql.NOTIN
		}
		return &influxql.BinaryExpr{Op: influxql.Token(op), LHS: ref, RHS: &influxql.SetLiteral{Vals: set}}
	}
	panic("bad expr")
}

func sortedU(a []uint64) []uint64 {
	b := append([]uint64{}, a...)
	sort.Slice(b, func(i, j int) bool { return b[i] < b[j] })
	return b
}

func (e *env) queryIDs(mst string, x *Expr) []uint64 {
	var cond influxql.Expr
	if x != nil {
		cond = toInflux(x)
	}
	ids, err := e.idx.SearchSeriesByTableAndCond([]byte(mst), cond, tsi.DefaultTR)
	must(err)
	return sortedU(ids)
}

func (e *env) queryOpts(mst string, x *Expr) []uint64 {
	opt := &query.ProcessorOptions{StartTime: tsi.DefaultTR.Min, EndTime: tsi.DefaultTR.Max}
	if x != nil {
		opt.Condition = toInflux(x)
	}
	groups, _, err := e.idx.SearchSeriesWithOpts(nil, []byte(mst), opt, func(int64) error { return nil }, nil)
	must(err)
	var ids []uint64
	for _, g := range groups {
		for i := 0; i < g.Len(); i++ {
			ids = append(ids, g.GetTagSetItem(i).ID)
		}
	}
	return sortedU(ids)
}

func canon(mst string, tags [][2]string) string {
	var sb strings.Builder
	sb.WriteString(mst)
	for _, t := range tags {
		sb.WriteByte(0)
		sb.WriteString(t[0])
		sb.WriteByte(0)
		sb.WriteString(t[1])
	}
	return sb.String()
}

func (e *env) list(mst string, keys []string) (out []SeriesOut, series []string, seen []string, values map[string][]string) {
	ids := e.queryIDs(mst, nil)
	seenK := map[string]bool{}
	for _, id := range ids {
		n := 0
		must(e.idx.GetSeries(id, nil, nil, func(k *influx.SeriesKey) {
			n++
			tags := [][2]string{}
			for _, kv := range k.TagSet {
				tags = append(tags, [2]string{string(kv.Key), string(kv.Value)})
				seenK[string(kv.Key)] = true
			}
			series = append(series, canon(string(k.Measurement), tags))
			out = append(out, SeriesOut{Mst: string(k.Measurement), Tags: tags})
		}))
		if n != 1 {
			series = append(series, fmt.Sprintf("<id %d resolved to %d keys>", id, n))
			out = append(out, SeriesOut{Bad: fmt.Sprintf("id %d resolved to %d keys", id, n)})
		}
	}
	sort.Slice(out, func(i, j int) bool { return canon(out[i].Mst, out[i].Tags) < canon(out[j].Mst, out[j].Tags) })
	sort.Strings(series)
	for k := range seenK {
		seen = append(seen, k)
	}
	sort.Strings(seen)
	values = map[string][]string{}
	if len(keys) > 0 {
		var bk [][]byte
		for _, k := range keys {
			bk = append(bk, []byte(k))
		}
		res, err := e.idx.SearchTagValues([]byte(mst), bk, nil)
		must(err)
		for i, k := range keys {
			vs := []string{}
			if i < len(res) {
				vs = append(vs, res[i]...)
			}
			sort.Strings(vs)
			values[k] = vs
		}
	}
	return
}

// ---------------------------------------------------------------------------------------------------------
// reference (direct oracle): brute force over the written series

type ser struct {
	mst  string
	tags map[string]string
	id   uint64
	key  string
}

func isPureLiteral(p string) bool {
	re, err := syntax.Parse(p, syntax.Perl)
	if err != nil {
		return false
	}
	re = re.Simplify()
	if re.Op == syntax.OpEmptyMatch {
		return true
	}
	return re.Op == syntax.OpLiteral && re.Flags&syntax.FoldCase == 0
}

func hasAnchors(p string) bool {
	re, err := syntax.Parse(p, syntax.Perl)
	if err != nil {
		return false
	}
	var walk func(r *syntax.Regexp) bool
	walk = func(r *syntax.Regexp) bool {
		switch r.Op {
		case syntax.OpBeginLine, syntax.OpEndLine, syntax.OpBeginText, syntax.OpEndText, syntax.OpWordBoundary, syntax.OpNoWordBoundary:
			return true
		}
		for _, x := range r.Sub {
			if walk(x) {
				return true
			}
		}
		return false
	}
	return walk(re)
}

func matchU(p, v string) bool { return regexp.MustCompile(p).MatchString(v) }
func matchA(p, v string) bool {
	if isPureLiteral(p) {
		return matchU(p, v)
	}
	return regexp.MustCompile("^(?:" + p + ")$").MatchString(v)
}

func eval(x *Expr, tags map[string]string, m func(p, v string) bool) bool {
	switch x.T {
	case "and":
		return eval(x.L, tags, m) && eval(x.R, tags, m)
	case "or":
		return eval(x.L, tags, m) || eval(x.R, tags, m)
	case "paren":
		return eval(x.L, tags, m)
	}
	v := tags[x.K] // absent tag = empty string
	switch x.O {
	case "eq":
		return v == x.V
	case "neq":
		return v != x.V
	case "re":
		return m(x.V, v)
	case "nre":
		return !m(x.V, v)
	case "teq":
		return v == tags[x.K2]
	case "tneq":
		return v != tags[x.K2]
	case "in", "notin":
		in := false
		for _, w := range x.Vs {
			if w == v {
				in = true
			}
		}
		return in == (x.O == "in")
	}
	panic("bad atom")
}

func atomsOf(x *Expr, f func(a *Expr)) {
	if x == nil {
		return
	}
	if x.T == "atom" {
		f(x)
		return
	}
	atomsOf(x.L, f)
	atomsOf(x.R, f)
}

func eqU(a, b []uint64) bool {
	if len(a) != len(b) {
		return false
	}
	for i := range a {
		if a[i] != b[i] {
			return false
		}
	}
	return true
}

// ---------------------------------------------------------------------------------------------------------
// generation

var (
	msts    = []string{"cpu_0000", "cpu_0001", "cp_0000", "mem,x_0000", "m é_0000"}
	tagKeys = []string{"host", "hos", "region", "a=b", "k,1", "sp ace", "ü"}
	vals    = []string{"web", "db", "web-1", "web-2", "w", "d", "a", "ab", "abc", "b", "x,y", "k=v", "a b", "é", "日本", "web-10",
		"\x01", "a\x02b", "\x00z", "A", "0", "10", "", "dbx", "xdb", "a.c", "axc"}
	pats = []string{"web", "db", "w", "[wd]", "web|db", "web-[0-9]", "^web", "b$", "^web$", "^(web|db)$", ".*", ".+", "^$", "a*",
		"web-1|web-2", "a.c", "^a", "[0-9]+", "é", "x,y", "web.*", ".*b", "a|", "(web)", "^w.*b$", "e", "A", "(?i)a", "b|d", "we", "a\\.c", "^web-", "web-[0-9]+"}
)

// further patterns of the pattern x value matrix: one for every branch of the translation (prefix extraction, or-values and
// their size limit, the optimised prefix / suffix / middle matchers, the generic literal pre-check, anchors in every
// position, captures, repetition, case folding, classes, escapes, multi-byte runes)
var matrixPats = []string{"web.+", ".+b", ".+b.*", ".*b.+", ".+b.+", ".*web.*", "(web).*", "w.b", "w.*b", "[a-c]x", "x[a-c]",
	"[a-z]", "[a-t]", "[a-u]", "(a|b)(c|d)", "(a|b|c)(0|1|2)(x|y|z)", "a?", "ab?", "a+", "(ab)+", "a{2}", "a{1,2}", "^a.c$",
	"^[wd]", "[wd]$", "^(web)", "web$", "^.*$", "^.+$", ".", "..", "\\.", "a\\.b", "\\d+", "\\w+", "web-\\d", "[^a]", "(?i)web",
	"(?i)w.*", "web|", "(web|db)-1", "(web|db).*", "web-(1|2)0?", "^(a|ab)$", "a|ab", "é.", "日.", "\\bweb", "web\\b",
	"(?m)^a", "(?s).", "a.*c", "^web-", "-1$", "^(web|db)", "(web|db)$", "^w", "x$", "^web.*", ".*b$", "^.*b$", "^web-[0-9]$",
	"web-[0-9]+", "^web-[0-9]+$", "(a)(b)", "a(b|c)d", "^$|a", "(^a)", "(a$)", "a|b|c", "ab|cd", "abc|abd",
	// expressions that name the separator bytes (as escapes): the value is matched unescaped, the lookups use the marshaled form
	"a\\x02b", "^\\x01$", "[\\x00-\\x01]", "^\\x00z", "^(\\x01|a\\x02b)$", "\\x02"}

type genState struct {
	r      *gen.Rand
	series []*ser
	byKey  map[string]*ser
}

func (g *genState) genTags() [][2]string {
	n := g.r.Intn(4)
	used := map[string]bool{}
	var t [][2]string
	for i := 0; i < n; i++ {
		k := gen.Pick(g.r, tagKeys[:3+g.r.Intn(len(tagKeys)-2)])
		if used[k] {
			continue
		}
		used[k] = true
		v := gen.Pick(g.r, vals)
		if v == "" { // the write path drops tags with an empty value (protoparser/influx/parser.go "Skip empty tag")
			continue
		}
		t = append(t, [2]string{k, v})
	}
	sort.Slice(t, func(i, j int) bool { return t[i][0] < t[j][0] })
	return t
}

// perlMode: the store runs with enable-perl-regrep = true (second configuration). What a regular expression means in that
// mode is not specified, so cases carry no regex atoms there; the pattern x value matrix is recorded for the evidence only.
var perlMode = false

func (g *genState) genAtom(mst string) *Expr {
	k := gen.Pick(g.r, tagKeys[:3+g.r.Intn(len(tagKeys)-2)])
	a := &Expr{T: "atom", K: k}
	pick := g.r.Intn(11)
	if perlMode && pick >= 5 && pick <= 9 {
		pick = g.r.Intn(5)
	}
	if false && g.r.Chance(1, 30) { // tag compared with another tag: not generated (the repository's own tests pin the present behaviour, see NOTES.md)
		a.O = "teq"
		if g.r.Bool() {
			a.O = "tneq"
		}
		a.K2 = gen.Pick(g.r, tagKeys[:4])
		return a
	}
	switch pick {
	case 10:
		a.O = "in"
		if g.r.Bool() {
			a.O = "notin"
		}
		for n := 1 + g.r.Intn(3); n > 0; n-- {
			a.Vs = append(a.Vs, gen.Pick(g.r, vals))
		}
	case 0, 1, 2:
		a.O, a.V = "eq", gen.Pick(g.r, vals)
	case 3, 4:
		a.O, a.V = "neq", gen.Pick(g.r, vals)
	case 5, 6, 7:
		a.O, a.V = "re", gen.Pick(g.r, pats)
	default:
		a.O, a.V = "nre", gen.Pick(g.r, pats)
	}
	// bias literal values towards ones stored under that key
	if (a.O == "in" || a.O == "notin") && g.r.Chance(2, 3) {
		for _, s := range g.series {
			if v, ok := s.tags[k]; ok && s.mst == mst && g.r.Chance(1, 2) {
				a.Vs[0] = v
			}
		}
	}
	if (a.O == "eq" || a.O == "neq") && g.r.Chance(2, 3) {
		var have []string
		for _, s := range g.series {
			if s.mst == mst {
				if v, ok := s.tags[k]; ok {
					have = append(have, v)
				}
			}
		}
		if len(have) > 0 {
			a.V = gen.Pick(g.r, have)
		}
	}
	return a
}

func (g *genState) genExpr(mst string, depth int) *Expr {
	if depth <= 0 || g.r.Chance(2, 5) {
		return g.genAtom(mst)
	}
	switch g.r.Intn(5) {
	case 0, 1:
		return &Expr{T: "and", L: g.genExpr(mst, depth-1), R: g.genExpr(mst, depth-1)}
	case 2, 3:
		return &Expr{T: "or", L: g.genExpr(mst, depth-1), R: g.genExpr(mst, depth-1)}
	default:
		return &Expr{T: "paren", L: g.genExpr(mst, depth-1)}
	}
}

type runner struct {
	e    *env
	c    *Case
	g    *genState
	pats map[string]bool
	// the last queried atom and its measurement: the next query is sometimes the same key and text under a different
	// operator (= 'web' then =~ /web/, =~ then !~, ...), which is what result caches keyed by the filter must tell apart
	last     *Expr
	lastMst  string
	lastExpr *Expr
}

func isWordText(v string) bool {
	if v == "" {
		return false
	}
	for _, c := range v {
		if !(c >= 'a' && c <= 'z' || c >= 'A' && c <= 'Z' || c >= '0' && c <= '9') {
			return false
		}
	}
	return true
}

func relatedAtom(a *Expr, r *gen.Rand) *Expr {
	b := *a
	switch a.O {
	case "eq":
		b.O = "neq"
		if isWordText(a.V) && r.Bool() && !perlMode {
			b.O = "re"
		}
	case "neq":
		b.O = "eq"
		if isWordText(a.V) && r.Bool() && !perlMode {
			b.O = "nre"
		}
	case "re":
		b.O = "nre"
		if isWordText(a.V) && r.Bool() {
			b.O = "eq"
		}
	case "nre":
		b.O = "re"
		if isWordText(a.V) && r.Bool() {
			b.O = "neq"
		}
	case "in":
		b.O = "notin"
	case "notin":
		b.O = "in"
	}
	return &b
}

func (rn *runner) doInsert(mst string, tags [][2]string) {
	id := rn.e.insert(mst, tags)
	key := canon(mst, tags)
	opi := len(rn.c.Ops)
	rn.c.Ops = append(rn.c.Ops, Op{Op: "insert", Mst: mst, Tags: tags, ID: id})
	if id == 0 {
		rn.fail("insert-zero-id", opi, "insert returned id 0 for "+strconv.Quote(key))
		return
	}
	if s, ok := rn.g.byKey[key]; ok {
		if s.id != id {
			rn.fail("id-unstable", opi, fmt.Sprintf("series %q had id %d, now %d", key, s.id, id))
		}
		return
	}
	for _, s := range rn.g.series {
		if s.id == id {
			rn.fail("id-shared", opi, fmt.Sprintf("series %q and %q share id %d", s.key, key, id))
		}
	}
	tm := map[string]string{}
	for _, t := range tags {
		tm[t[0]] = t[1]
	}
	s := &ser{mst: mst, tags: tm, id: id, key: key}
	rn.g.series = append(rn.g.series, s)
	rn.g.byKey[key] = s
}

func (rn *runner) fail(kind string, op int, what string) {
	rn.c.Oracle = append(rn.c.Oracle, Fail{Kind: kind, Op: op, What: what})
}

func (rn *runner) brute(mst string, x *Expr, m func(p, v string) bool) []uint64 {
	var ids []uint64
	for _, s := range rn.g.series {
		if s.mst == mst && (x == nil || eval(x, s.tags, m)) {
			ids = append(ids, s.id)
		}
	}
	return sortedU(ids)
}

func hasIn(x *Expr) bool {
	found := false
	atomsOf(x, func(a *Expr) {
		if a.O == "in" || a.O == "notin" {
			found = true
		}
	})
	return found
}

func (rn *runner) doQuery(mst string, x *Expr) {
	opi := len(rn.c.Ops)
	only2 := false // IN / NOT IN are judged on both paths since round 5 (the show-series path ignored them: finding)
	ids := rn.e.queryIDs(mst, x)
	ids2 := rn.e.queryOpts(mst, x)
	rn.c.Ops = append(rn.c.Ops, Op{Op: "query", Mst: mst, Expr: x, IDs: ids, IDs2: ids2, Only2: only2})
	atomsOf(x, func(a *Expr) {
		if a.O == "re" || a.O == "nre" {
			rn.pats[a.V] = true
		}
	})
	want := rn.brute(mst, x, matchU)
	if len(want) > 0 && len(want) < len(rn.brute(mst, nil, matchU)) {
		rn.c.Nontriv = true
	}
	for pi, got := range [][]uint64{ids, ids2} {
		if eqU(got, want) || (pi == 0 && only2) {
			continue
		}
		f := Fail{Kind: "search-not-bruteforce", Op: opi, Path: pi + 1, Got: got, Want: want,
			What: fmt.Sprintf("path %d: predicate selects ids %v, brute force over the written series (unanchored regexp) gives %v", pi+1, got, want)}
		rn.c.Oracle = append(rn.c.Oracle, f)
	}
}

func (rn *runner) doList(mst string) {
	opi := len(rn.c.Ops)
	keysWritten := map[string]bool{}
	wantVals := map[string]map[string]bool{}
	var wantSeries []string
	for _, s := range rn.g.series {
		if s.mst != mst {
			continue
		}
		wantSeries = append(wantSeries, s.key)
		for k, v := range s.tags {
			keysWritten[k] = true
			if wantVals[k] == nil {
				wantVals[k] = map[string]bool{}
			}
			wantVals[k][v] = true
		}
	}
	sort.Strings(wantSeries)
	var keys []string
	for k := range keysWritten {
		keys = append(keys, k)
	}
	// also ask for one key that was never written under this measurement
	for _, k := range tagKeys {
		if !keysWritten[k] {
			keys = append(keys, k)
			break
		}
	}
	sort.Strings(keys)
	out, series, seen, values := rn.e.list(mst, keys)
	rn.c.Ops = append(rn.c.Ops, Op{Op: "list", Mst: mst, Series: out, Keys: seen, Values: values})
	if strings.Join(series, "\x03") != strings.Join(wantSeries, "\x03") {
		rn.fail("listing-series", opi, fmt.Sprintf("series listing %q, written %q", series, wantSeries))
	}
	var wk []string
	for k := range keysWritten {
		wk = append(wk, k)
	}
	sort.Strings(wk)
	if strings.Join(seen, "\x03") != strings.Join(wk, "\x03") {
		rn.fail("listing-keys", opi, fmt.Sprintf("tag keys listed %q, written %q", seen, wk))
	}
	for _, k := range keys {
		var wv []string
		for v := range wantVals[k] {
			wv = append(wv, v)
		}
		sort.Strings(wv)
		if strings.Join(values[k], "\x03") != strings.Join(wv, "\x03") {
			rn.fail("listing-values", opi, fmt.Sprintf("tag values of %q listed %q, written %q", k, values[k], wv))
		}
	}
}

// render: the text SearchSeriesKeys gives for a series key (measurement,k=v,... without any escaping)
func render(mst string, tags [][2]string) string {
	var sb strings.Builder
	sb.WriteString(mst)
	for _, t := range tags {
		sb.WriteByte(',')
		sb.WriteString(t[0])
		sb.WriteByte('=')
		sb.WriteString(t[1])
	}
	return sb.String()
}

func sortedTags(m map[string]string) [][2]string {
	var t [][2]string
	for k, v := range m {
		t = append(t, [2]string{k, v})
	}
	sort.Slice(t, func(i, j int) bool { return t[i][0] < t[j][0] })
	return t
}

// doCondList: SHOW SERIES ... WHERE (SearchSeriesKeys), SHOW TAG VALUES ... WHERE (SearchTagValues with a condition),
// SHOW SERIES CARDINALITY [WHERE] (SeriesCardinality), SHOW TAG VALUES CARDINALITY (SearchTagValuesCardinality)
func (rn *runner) doCondList(mst string, x *Expr) {
	opi := len(rn.c.Ops)
	var cond influxql.Expr
	if x != nil {
		cond = toInflux(x)
	}
	atomsOf(x, func(a *Expr) {
		if a.O == "re" || a.O == "nre" {
			rn.pats[a.V] = true
		}
	})
	// expectations
	var sel []*ser
	keysWritten := map[string]bool{}
	allVals := map[string]map[string]bool{}
	for _, s := range rn.g.series {
		if s.mst != mst {
			continue
		}
		for k, v := range s.tags {
			keysWritten[k] = true
			if allVals[k] == nil {
				allVals[k] = map[string]bool{}
			}
			allVals[k][v] = true
		}
		if x == nil || eval(x, s.tags, matchU) {
			sel = append(sel, s)
		}
	}
	var keys []string
	for k := range keysWritten {
		keys = append(keys, k)
	}
	for _, k := range tagKeys {
		if !keysWritten[k] {
			keys = append(keys, k)
			break
		}
	}
	sort.Strings(keys)
	op := Op{Op: "clist", Mst: mst, Expr: x, Values: map[string][]string{}, VCard: map[string]uint64{}}
	// cardinality
	card, err := rn.e.idx.SeriesCardinality([]byte(mst), cond, tsi.DefaultTR)
	must(err)
	op.Card = card
	if int(card) != len(sel) {
		rn.fail("cardinality", opi, fmt.Sprintf("series cardinality %d, %d written series satisfy the predicate", card, len(sel)))
	}
	// series keys
	got, err := rn.e.idx.SearchSeriesKeys(nil, []byte(mst), cond)
	must(err)
	var gotS, wantS []string
	byRender := map[string][]*ser{}
	used := map[string]int{}
	for _, s := range rn.g.series {
		if s.mst == mst {
			r := render(s.mst, sortedTags(s.tags))
			byRender[r] = append(byRender[r], s)
		}
	}
	for _, b := range got {
		r := string(b)
		gotS = append(gotS, r)
		if l := byRender[r]; len(l) > 0 {
			// resolve the text to a written series. Texts are not injective (no escaping): the k-th occurrence of a text is the
			// k-th written series with that text; a text listed more often than written (a series with two ids) repeats the last
			k := used[r]
			if k >= len(l) {
				k = len(l) - 1
			}
			used[r]++
			op.Series = append(op.Series, SeriesOut{Mst: l[k].mst, Tags: sortedTags(l[k].tags)})
		} else {
			op.Series = append(op.Series, SeriesOut{Bad: "unknown series text " + strconv.Quote(r)})
		}
	}
	for _, s := range sel {
		wantS = append(wantS, render(s.mst, sortedTags(s.tags)))
	}
	sort.Strings(gotS)
	sort.Strings(wantS)
	// the text of a listed key must determine the key: with ',' between pairs and '=' inside a pair, a ',' or '=' inside a
	// name has to be escaped (as the line protocol and InfluxDB's SHOW SERIES do), otherwise the text reads as another key
	for _, s := range sel {
		amb := strings.ContainsAny(s.mst, ",")
		for k, v := range s.tags {
			if strings.ContainsAny(k, ",=") || strings.ContainsAny(v, ",=") {
				amb = true
			}
		}
		if amb {
			rn.fail("listing-text", opi, fmt.Sprintf("series key text %q does not determine the key (',' or '=' inside a name is not escaped)",
				render(s.mst, sortedTags(s.tags))))
			break
		}
	}
	if strings.Join(gotS, "\x03") != strings.Join(wantS, "\x03") {
		rn.fail("listing-cond-series", opi, fmt.Sprintf("series listing with condition %q, written and satisfying %q", gotS, wantS))
	}
	// tag values with condition, tag value cardinality
	if len(keys) > 0 {
		var bk [][]byte
		for _, k := range keys {
			bk = append(bk, []byte(k))
		}
		res, err := rn.e.idx.SearchTagValues([]byte(mst), bk, cond)
		must(err)
		for i, k := range keys {
			vs := []string{}
			if i < len(res) {
				vs = append(vs, res[i]...)
			}
			sort.Strings(vs)
			op.Values[k] = vs
			want := map[string]bool{}
			for _, s := range sel {
				if v, ok := s.tags[k]; ok {
					want[v] = true
				}
			}
			var wv []string
			for v := range want {
				wv = append(wv, v)
			}
			sort.Strings(wv)
			if strings.Join(vs, "\x03") != strings.Join(wv, "\x03") {
				rn.fail("listing-cond-values", opi, fmt.Sprintf("tag values of %q with condition listed %q, written and satisfying %q", k, vs, wv))
			}
			vc, err := rn.e.idx.SearchTagValuesCardinality([]byte(mst), []byte(k))
			must(err)
			op.VCard[k] = vc
			if int(vc) != len(allVals[k]) {
				rn.fail("listing-vcard", opi, fmt.Sprintf("tag value cardinality of %q is %d, %d distinct values written", k, vc, len(allVals[k])))
			}
		}
	}
	sort.Slice(op.Series, func(i, j int) bool {
		return canon(op.Series[i].Mst, op.Series[i].Tags) < canon(op.Series[j].Mst, op.Series[j].Tags)
	})
	rn.c.Ops = append(rn.c.Ops, op)
}

func (rn *runner) doReopen() {
	crash := ""
	if rn.g.r.Chance(1, 3) {
		crash = gen.Pick(rn.g.r, []string{"A", "B", "C", "D"})
	}
	bf := ""
	if rn.g.r.Chance(1, 3) { // the process restarts with another configuration
		bf = "on"
		if rn.e.bf {
			bf = "off"
		}
	}
	rn.doReopenCfg(crash, bf)
}

var partDirRe = regexp.MustCompile(`^[0-9]+_[0-9]+_[0-9A-F]{16}$`)
var crashSeq = 0

func copyDir(src, dst string) {
	must(os.MkdirAll(dst, 0o750))
	ents, err := os.ReadDir(src)
	must(err)
	for _, e := range ents {
		if e.IsDir() {
			copyDir(filepath.Join(src, e.Name()), filepath.Join(dst, e.Name()))
			continue
		}
		b, err := os.ReadFile(filepath.Join(src, e.Name()))
		must(err)
		must(os.WriteFile(filepath.Join(dst, e.Name()), b, 0o640))
	}
}

// fabricateMergeCrash puts the closed index directory into a state a kill -9 during a part merge of a mergeset table
// leaves behind (mergeParts writes the merged part to <table>/tmp/<id>, then the transaction file <table>/txn/<id> =
// "<source parts> \n tmp/<id> -> <final dir>", then removes the sources, renames the merged part, removes the transaction
// file). The merge of ONE part yields a part with the same items, so a copy of the part is its merged output.
// Returns false when the index has no file part yet.
func fabricateMergeCrash(root, state string) bool {
	var tables []string
	filepath.WalkDir(root, func(p string, d os.DirEntry, err error) error {
		if err == nil && d.IsDir() && d.Name() == "txn" {
			tables = append(tables, filepath.Dir(p))
		}
		return nil
	})
	sort.Strings(tables)
	for _, tb := range tables {
		ents, err := os.ReadDir(tb)
		if err != nil {
			continue
		}
		var parts []string
		for _, e := range ents {
			if e.IsDir() && partDirRe.MatchString(e.Name()) {
				parts = append(parts, e.Name())
			}
		}
		if len(parts) == 0 {
			continue
		}
		sort.Strings(parts)
		src := parts[0]
		f := strings.Split(src, "_")
		crashSeq++
		id := fmt.Sprintf("17FFFFFFFFFF%04X", crashSeq)
		srcPart := filepath.Join(tb, src)
		tmpPart := filepath.Join(tb, "tmp", id)
		dstPart := filepath.Join(tb, fmt.Sprintf("%s_%s_%s", f[0], f[1], id))
		txn := fmt.Sprintf("%s\n%s -> %s\n", srcPart, tmpPart, dstPart)
		txnFile := filepath.Join(tb, "txn", id)
		switch state {
		case "A":
			copyDir(srcPart, tmpPart)
		case "B":
			copyDir(srcPart, tmpPart)
			must(os.WriteFile(txnFile, []byte(txn), 0o640))
		case "C":
			copyDir(srcPart, tmpPart)
			must(os.WriteFile(txnFile, []byte(txn), 0o640))
			must(os.RemoveAll(srcPart))
		case "D":
			copyDir(srcPart, dstPart)
			must(os.WriteFile(txnFile, []byte(txn), 0o640))
			must(os.RemoveAll(srcPart))
		}
		return true
	}
	return false
}

// doBgFlush waits for the table's own periodic flush of the raw items (every second or two) instead of forcing one: the
// written series become visible to searches, but - unlike a forced flush - the flush callback that invalidates the
// tag-filter result cache is deferred to a 10 s ticker. Returns when every written series is listed by the uncached path.
func (rn *runner) doBgFlush() {
	want := map[string]int{}
	for _, s := range rn.g.series {
		want[s.mst]++
	}
	deadline := time.Now().Add(8 * time.Second)
	for {
		ok := true
		for m, n := range want {
			if len(rn.e.queryIDs(m, nil)) < n {
				ok = false
			}
		}
		if ok || time.Now().After(deadline) {
			break
		}
		time.Sleep(100 * time.Millisecond)
	}
	rn.c.Ops = append(rn.c.Ops, Op{Op: "bgflush"})
}

func (rn *runner) doReopenCrash(crash string) { rn.doReopenCfg(crash, "") }

func (rn *runner) doReopenCfg(crash, bf string) {
	must(rn.e.b.Close())
	if bf != "" {
		rn.e.bf = bf == "on"
	}
	if crash != "" && !fabricateMergeCrash(rn.e.dir, crash) {
		crash = ""
	}
	old := uuidBase(rn.e.clock, *rn.e.seq)
	// a restart: the partition's logical clock moves on (engine_ha.go), the sequence restarts from wall-clock seconds,
	// which may well be BELOW the previous high-water mark
	rn.e.clock++
	ns := uint64(1000 + rn.g.r.Intn(50))
	rn.e.seq = &ns
	rn.e.open()
	rn.c.Ops = append(rn.c.Ops, Op{Op: "reopen", Bump: uuidBase(rn.e.clock, ns) - old, Crash: crash, BF: bf})
}

const probeMst = "zzprobe_0000"

// finishAtoms measures, for every regex pattern used in the case and every tag value stored in the case (and the absent
// tag), what the index's own translation of the pattern matches: one probe series per value under tag key "k" in a
// measurement of its own, one probe series without tags, and the single-atom search  k =~ /p/  on both search paths.
func (rn *runner) finishAtoms() {
	vs := map[string]bool{}
	for _, s := range rn.g.series {
		for _, v := range s.tags {
			vs[v] = true
		}
	}
	var vl []string
	for v := range vs {
		vl = append(vl, v)
	}
	sort.Strings(vl)
	var pl []string
	for p := range rn.pats {
		pl = append(pl, p)
	}
	sort.Strings(pl)
	if len(pl) == 0 {
		return
	}
	idOf := map[string]uint64{}
	idOf[""] = rn.e.insert(probeMst, nil)
	for _, v := range vl {
		idOf[v] = rn.e.insert(probeMst, [][2]string{{"k", v}})
	}
	rn.e.b.Flush()
	vl = append([]string{""}, vl...)
	for _, p := range pl {
		x := &Expr{T: "atom", K: "k", O: "re", V: p}
		// the show-series path evaluates the filter afresh; the select path keeps a tag-filter result cache, emptied here so that
		// every pattern is measured on its own
		g1 := rn.e.queryIDs(probeMst, x)
		must(rn.e.b.ClearCache())
		g2 := rn.e.queryOpts(probeMst, x)
		if !eqU(g1, g2) {
			rn.fail("atom-paths-differ", len(rn.c.Ops), fmt.Sprintf("k =~ /%s/ on the probe series: show-series path %v, select path %v", p, g1, g2))
		}
		in := map[uint64]bool{}
		for _, id := range g1 {
			in[id] = true
		}
		vt := filterValueText(p)
		t := AtomTab{Pat: p, AST: parseAST(p), VText: vt, Prune: parseAST(vt), Literal: isPureLiteral(p), Anchors: hasAnchors(p)}
		for _, v := range vl {
			t.Rows = append(t.Rows, AtomRow{V: v, U: matchU(p, v), A: matchA(p, v), I: in[idOf[v]], P: matchU(vt, v)})
		}
		rn.c.Atoms = append(rn.c.Atoms, t)
	}
}

func newRunner(r *gen.Rand, dir string, i int, kind string) *runner {
	seq := uint64(1000)
	e := &env{dir: dir, clock: 1, seq: &seq}
	c := &Case{I: i, Kind: kind, Perl: perlMode, Oracle: []Fail{}, Atoms: []AtomTab{}}
	if kind != "corpus" && r.Chance(1, 4) { // the index is created with the series-key bloom filter switched on
		e.bf = true
		c.Ops = append(c.Ops, Op{Op: "config", BF: "on"})
	}
	e.open()
	return &runner{e: e, c: c, g: &genState{r: r, byKey: map[string]*ser{}}, pats: map[string]bool{}}
}

func genCase(r *gen.Rand, dir string, i int) *Case {
	rn := newRunner(r, dir, i, "gen")
	g := rn.g
	nm := 1 + r.Intn(3)
	ms := append([]string{}, msts...)
	for j := range ms { // shuffle
		k := j + r.Intn(len(ms)-j)
		ms[j], ms[k] = ms[k], ms[j]
	}
	ms = ms[:nm]
	nops := r.Range(8, 30)
	dirty := false // inserts since the last flush: a search sees items only after a flush (mergeset contract)
	for k := 0; k < nops; k++ {
		c := r.Intn(21)
		switch {
		case c < 9 || len(g.series) == 0:
			mst := gen.Pick(r, ms)
			var tags [][2]string
			if len(g.series) > 0 && r.Chance(1, 4) { // re-insert an existing key
				s := gen.Pick(r, g.series)
				mst = s.mst
				for k2, v := range s.tags {
					tags = append(tags, [2]string{k2, v})
				}
				sort.Slice(tags, func(a, b int) bool { return tags[a][0] < tags[b][0] })
			} else {
				tags = g.genTags()
			}
			rn.doInsert(mst, tags)
			dirty = true
		case c < 11:
			rn.e.b.Flush()
			dirty = false
			rn.c.Ops = append(rn.c.Ops, Op{Op: "flush"})
		case c < 12:
			if dirty && !r.Chance(1, 4) { // mostly flush first; sometimes clear the cache while items are still pending
				rn.e.b.Flush()
				dirty = false
				rn.c.Ops = append(rn.c.Ops, Op{Op: "flush"})
			}
			must(rn.e.b.ClearCache())
			rn.c.Ops = append(rn.c.Ops, Op{Op: "clear"})
		case c < 13:
			rn.doReopen()
			dirty = false
		case c < 19 || c == 20:
			if dirty {
				rn.e.b.Flush()
				dirty = false
				rn.c.Ops = append(rn.c.Ops, Op{Op: "flush"})
			}
			mst := gen.Pick(r, ms)
			var x *Expr
			if rn.lastExpr != nil && r.Chance(1, 6) {
				// the same predicate once more in the same index lifetime: plans depend on costs cached by earlier evaluations
				mst, x = rn.lastMst, rn.lastExpr
			} else if rn.last != nil && r.Chance(1, 4) {
				mst = rn.lastMst
				x = relatedAtom(rn.last, r)
				if r.Chance(1, 3) { // under an AND, so that the multi-filter path (cost order, pruning) sees it too
					x = &Expr{T: "and", L: x, R: g.genAtom(mst)}
				}
			} else if !r.Chance(1, 12) {
				x = g.genExpr(mst, r.Intn(4))
			}
			rn.doQuery(mst, x)
			var as []*Expr
			atomsOf(x, func(a *Expr) { as = append(as, a) })
			if len(as) > 0 {
				rn.last, rn.lastMst, rn.lastExpr = as[r.Intn(len(as))], mst, x
			}
		default:
			if dirty {
				rn.e.b.Flush()
				dirty = false
				rn.c.Ops = append(rn.c.Ops, Op{Op: "flush"})
			}
			if r.Bool() {
				rn.doList(gen.Pick(r, ms))
			} else {
				// listings with a condition / cardinalities
				mst := gen.Pick(r, ms)
				var x *Expr
				if !r.Chance(1, 5) {
					x = g.genExpr(mst, r.Intn(3))
				}
				rn.doCondList(mst, x)
			}
		}
	}
	rn.finishAtoms()
	must(rn.e.b.Close())
	return rn.c
}

// sweep: one base history of inserts (with re-inserts of earlier keys) is run once for every position p and every
// maintenance operation (cache clear, index flush, flush + cache clear, close/reopen) forced at p - the mergeset contract
// "items are visible to a lookup only after a flush" against the key cache at every point of the history. Each run ends with
// a flush and a listing of every measurement.
func genSweeps(r *gen.Rand, base string, idx *int) []*Case {
	type ins struct {
		mst  string
		tags [][2]string
	}
	g := &genState{r: r, byKey: map[string]*ser{}}
	ms := []string{gen.Pick(r, msts)}
	if r.Bool() {
		ms = append(ms, gen.Pick(r, msts))
	}
	var hist []ins
	n := r.Range(5, 8)
	for k := 0; k < n; k++ {
		if len(hist) > 0 && r.Chance(2, 5) { // re-insert an earlier key
			hist = append(hist, hist[r.Intn(len(hist))])
			continue
		}
		hist = append(hist, ins{gen.Pick(r, ms), g.genTags()})
	}
	var out []*Case
	for p := 0; p <= len(hist); p++ {
		for _, kind := range []string{"clear", "flush", "flushclear", "reopen", "reopencfg"} {
			dir := filepath.Join(base, fmt.Sprintf("s%d", *idx))
			rn := newRunner(r.Fork(), dir, *idx, "sweep")
			for k, h := range hist {
				if k == p {
					rn.maintenance(kind)
				}
				rn.doInsert(h.mst, h.tags)
			}
			if p == len(hist) {
				rn.maintenance(kind)
			}
			rn.e.b.Flush()
			rn.c.Ops = append(rn.c.Ops, Op{Op: "flush"})
			seen := map[string]bool{}
			for _, m := range ms {
				if !seen[m] {
					seen[m] = true
					rn.doQuery(m, nil)
					rn.doList(m)
				}
			}
			must(rn.e.b.Close())
			os.RemoveAll(dir)
			out = append(out, rn.c)
			*idx++
		}
	}
	return out
}

// genDense: one measurement with 14-22 series whose tag keys differ a lot in selectivity (host: one series per value;
// region: two values or absent; a=b: few values or absent), and AND-only predicates of 2-3 filters, each evaluated three
// times in a row, once more after a cache clear and once more after a reopen. The select path orders the filters of an
// AND-only predicate by the cost cached by earlier evaluations and checks the expensive ones against the series keys of the
// current candidates (doPrune) - the second evaluation of a predicate can take another plan than the first.
func genDense(r *gen.Rand, dir string, i int) *Case {
	rn := newRunner(r, dir, i, "dense")
	g := rn.g
	mst := gen.Pick(r, msts)
	hv := append([]string{}, vals...)
	for j := range hv {
		k := j + r.Intn(len(hv)-j)
		hv[j], hv[k] = hv[k], hv[j]
	}
	n := r.Range(14, 22)
	regions := []string{gen.Pick(r, vals[:12]), gen.Pick(r, vals[:12])}
	third := gen.Pick(r, tagKeys[3:])
	for k := 0; k < n && k < len(hv); k++ {
		var tags [][2]string
		if hv[k] != "" && !r.Chance(1, 8) {
			tags = append(tags, [2]string{"host", hv[k]})
		}
		if !r.Chance(1, 3) {
			tags = append(tags, [2]string{"region", gen.Pick(r, regions)})
		}
		if r.Bool() {
			tags = append(tags, [2]string{third, gen.Pick(r, vals[:6])})
		}
		sort.Slice(tags, func(a, b int) bool { return tags[a][0] < tags[b][0] })
		rn.doInsert(mst, tags)
	}
	rn.e.b.Flush()
	rn.c.Ops = append(rn.c.Ops, Op{Op: "flush"})
	otherAtom := func() *Expr {
		k := gen.Pick(r, []string{"region", third, "host", "hos"})
		a := &Expr{T: "atom", K: k}
		var have []string
		for _, s := range g.series {
			if v, ok := s.tags[k]; ok {
				have = append(have, v)
			}
		}
		v := gen.Pick(r, vals)
		if len(have) > 0 && r.Chance(3, 4) {
			v = gen.Pick(r, have)
		}
		if r.Chance(1, 6) {
			v = ""
		}
		switch r.Intn(8) {
		case 0, 1:
			a.O, a.V = "eq", v
		case 2, 3, 4:
			a.O, a.V = "neq", v
		case 5:
			a.O, a.V = "re", gen.Pick(r, pats)
		case 6:
			a.O, a.V = "nre", gen.Pick(r, pats)
		default:
			a.O, a.Vs = "notin", []string{v, gen.Pick(r, vals)}
		}
		return a
	}
	np := r.Range(4, 6)
	var preds []*Expr
	for p := 0; p < np; p++ {
		s := gen.Pick(r, g.series)
		// a selective first filter: the host value (or another tag) of one written series
		var x *Expr
		if hvv, ok := s.tags["host"]; ok && !r.Chance(1, 5) {
			x = &Expr{T: "atom", K: "host", O: "eq", V: hvv}
		} else {
			x = otherAtom()
		}
		for extra := 1 + r.Intn(2); extra > 0; extra-- {
			if r.Bool() {
				x = &Expr{T: "and", L: x, R: otherAtom()}
			} else {
				x = &Expr{T: "and", L: otherAtom(), R: x}
			}
		}
		preds = append(preds, x)
		for rep := 0; rep < 3; rep++ {
			rn.doQuery(mst, x)
		}
	}
	must(rn.e.b.ClearCache())
	rn.c.Ops = append(rn.c.Ops, Op{Op: "clear"})
	for _, x := range preds {
		rn.doQuery(mst, x)
		rn.doQuery(mst, x)
	}
	rn.doReopen()
	for _, x := range preds {
		rn.doQuery(mst, x)
		rn.doQuery(mst, x)
	}
	rn.finishAtoms()
	must(rn.e.b.Close())
	return rn.c
}

// genStale: filters are evaluated (and cached by the select path), new series are written and become visible through the
// table's own periodic flush (bgflush), and the same filters are evaluated again; then after a forced flush that has
// nothing to flush, and finally after a forced flush of one more new series.
func genStale(r *gen.Rand, dir string, i int) *Case {
	rn := newRunner(r, dir, i, "stale")
	g := rn.g
	mst := gen.Pick(r, msts)
	for k := r.Range(4, 7); k > 0; k-- {
		rn.doInsert(mst, g.genTags())
	}
	rn.e.b.Flush()
	rn.c.Ops = append(rn.c.Ops, Op{Op: "flush"})
	var preds []*Expr
	for k := 0; k < 4; k++ {
		x := g.genExpr(mst, k%3)
		preds = append(preds, x)
		rn.doQuery(mst, x)
	}
	for k := r.Range(2, 4); k > 0; k-- {
		rn.doInsert(mst, g.genTags())
	}
	rn.doBgFlush()
	for _, x := range preds {
		rn.doQuery(mst, x)
	}
	rn.e.b.Flush()
	rn.c.Ops = append(rn.c.Ops, Op{Op: "flush"})
	for _, x := range preds {
		rn.doQuery(mst, x)
	}
	rn.doList(mst)
	nt := append(g.genTags(), [2]string{"zz", "new"})
	sort.Slice(nt, func(a, b int) bool { return nt[a][0] < nt[b][0] })
	rn.doInsert(mst, nt)
	rn.e.b.Flush()
	rn.c.Ops = append(rn.c.Ops, Op{Op: "flush"})
	for _, x := range preds {
		rn.doQuery(mst, x)
	}
	rn.finishAtoms()
	must(rn.e.b.Close())
	return rn.c
}

// genBigRows: one measurement with 70-150 series that share a tag value (the tag -> ids items of a value are merged into rows
// of at most 64 ids at flush / reopen), unique hosts, and listings with a condition that selects single series - early ones,
// late ones (their id sits in the second or third row of the shared value) - plus the same predicates as queries.
func genBigRows(r *gen.Rand, dir string, i int) *Case {
	rn := newRunner(r, dir, i, "bigrows")
	mst := gen.Pick(r, msts)
	n := r.Range(70, 150)
	shared := gen.Pick(r, vals[:12])
	var hosts []string
	for k := 0; k < n; k++ {
		h := fmt.Sprintf("h%03d", k)
		hosts = append(hosts, h)
		tags := [][2]string{{"host", h}, {"region", shared}}
		if k%3 == 0 {
			tags = append(tags, [2]string{"ü", gen.Pick(r, vals[:4])})
		}
		rn.doInsert(mst, tags)
		if k == n/2 && r.Bool() {
			rn.e.b.Flush()
			rn.c.Ops = append(rn.c.Ops, Op{Op: "flush"})
		}
	}
	rn.e.b.Flush()
	rn.c.Ops = append(rn.c.Ops, Op{Op: "flush"})
	if r.Bool() {
		rn.doReopen()
	}
	for _, k := range []int{n - 1, n - 2, 64 + r.Intn(n-64), 65, r.Intn(64), 0} {
		x := &Expr{T: "atom", K: "host", O: "eq", V: hosts[k]}
		if r.Chance(1, 3) {
			x = &Expr{T: "and", L: x, R: &Expr{T: "atom", K: "region", O: "eq", V: shared}}
		}
		rn.doCondList(mst, x)
		rn.doQuery(mst, x)
	}
	rn.doCondList(mst, &Expr{T: "atom", K: "host", O: "re", V: "^h1"})
	rn.doCondList(mst, nil)
	rn.finishAtoms()
	must(rn.e.b.Close())
	return rn.c
}

// pairsCase: a fixed series set and, for a few texts, every ordered pair of operators (= != =~ !~) on the same key and text,
// the two queries back to back on both search paths with the caches emptied before each pair: whatever is cached for the first
// filter must not answer the second one.
func pairsCase(dir string, i int) *Case {
	rn := newRunner(gen.New(7), dir, i, "pairs")
	mst := "cpu_0000"
	for _, h := range []string{"web", "web-1", "xweb", "db", "a", "ab", "b"} {
		rn.doInsert(mst, [][2]string{{"host", h}})
	}
	rn.doInsert(mst, [][2]string{{"region", "eu"}})
	rn.e.b.Flush()
	rn.c.Ops = append(rn.c.Ops, Op{Op: "flush"})
	opsL := []string{"eq", "neq", "re", "nre"}
	for _, t := range []string{"web", "a"} {
		for _, o1 := range opsL {
			for _, o2 := range opsL {
				if o1 == o2 {
					continue
				}
				must(rn.e.b.ClearCache())
				rn.c.Ops = append(rn.c.Ops, Op{Op: "clear"})
				rn.doQuery(mst, &Expr{T: "atom", K: "host", O: o1, V: t})
				rn.doQuery(mst, &Expr{T: "atom", K: "host", O: o2, V: t})
			}
		}
	}
	rn.finishAtoms()
	must(rn.e.b.Close())
	return rn.c
}

func (rn *runner) maintenance(kind string) {
	switch kind {
	case "clear":
		must(rn.e.b.ClearCache())
		rn.c.Ops = append(rn.c.Ops, Op{Op: "clear"})
	case "flush":
		rn.e.b.Flush()
		rn.c.Ops = append(rn.c.Ops, Op{Op: "flush"})
	case "flushclear":
		rn.e.b.Flush()
		rn.c.Ops = append(rn.c.Ops, Op{Op: "flush"})
		must(rn.e.b.ClearCache())
		rn.c.Ops = append(rn.c.Ops, Op{Op: "clear"})
	case "reopen":
		rn.doReopen()
	case "reopencfg":
		// restart with the bloom filter switched the other way, then drop the key cache: the next insert of a known key has to
		// find it in the table whatever the filter says
		bf := "on"
		if rn.e.bf {
			bf = "off"
		}
		rn.doReopenCfg("", bf)
		must(rn.e.b.ClearCache())
		rn.c.Ops = append(rn.c.Ops, Op{Op: "clear"})
	}
}

// corpus / replay: a case file gives ops without observations; they are re-run on the implementation
func replayCase(in *Case, dir string, i int) *Case {
	rn := newRunner(gen.New(1), dir, i, "corpus")
	for _, op := range in.Ops {
		switch op.Op {
		case "insert":
			rn.doInsert(op.Mst, op.Tags)
		case "flush":
			rn.e.b.Flush()
			rn.c.Ops = append(rn.c.Ops, Op{Op: "flush"})
		case "clear":
			must(rn.e.b.ClearCache())
			rn.c.Ops = append(rn.c.Ops, Op{Op: "clear"})
		case "reopen":
			rn.doReopenCfg(op.Crash, op.BF)
		case "config":
			// the configuration the index of this case is created with: nothing has been written yet, so open it anew
			must(rn.e.b.Close())
			os.RemoveAll(rn.e.dir)
			rn.e.bf = op.BF == "on"
			rn.e.open()
			rn.c.Ops = append(rn.c.Ops, Op{Op: "config", BF: op.BF})
		case "bgflush":
			rn.doBgFlush()
		case "query":
			rn.doQuery(op.Mst, op.Expr)
		case "list":
			rn.doList(op.Mst)
		case "clist":
			rn.doCondList(op.Mst, op.Expr)
		}
	}
	rn.finishAtoms()
	must(rn.e.b.Close())
	return rn.c
}

func main() {
	logger.SetLogger(zap.NewNop())
	work := os.Getenv("VERIF_WORK")
	if work == "" {
		fmt.Fprintln(os.Stderr, "VERIF_WORK not set")
		os.Exit(3)
	}
	base := filepath.Join(work, "c10idx")
	must(os.MkdirAll(base, 0o755))
	flag.Parse() // the lifted VictoriaMetrics memory package insists on it
	args := flag.Args()
	n := 150
	if len(args) > 0 {
		n, _ = strconv.Atoi(args[0])
		args = args[1:]
	}
	idx := 0
	if os.Getenv("C10_PERL") != "" {
		perlMode = true
		config.GetStoreConfig().EnablePerlRegrep = true
	}
	if os.Getenv("C10_NO_MATRIX") == "" {
		// the pattern x value matrix of the regular-expression translation (deterministic, once per run)
		dir := filepath.Join(base, "matrix")
		all := append(append([]string{}, pats...), matrixPats...)
		ngen := 40
		if gen.Tier() != "quick" {
			ngen = 600
		}
		gp := genPatterns(gen.FromEnv(14), ngen, all)
		gm := map[string]bool{}
		for _, p := range gp {
			gm[p] = true
		}
		gen.Emit(regexMatrix(dir, append(all, gp...), gm))
		os.RemoveAll(dir)
	}
	// corpus / replay files first
	for _, f := range args {
		data, err := os.ReadFile(f)
		must(err)
		for _, line := range strings.Split(string(data), "\n") {
			line = strings.TrimSpace(line)
			if line == "" || !strings.HasPrefix(line, "{") {
				continue
			}
			var in Case
			must(json.Unmarshal([]byte(line), &in))
			dir := filepath.Join(base, fmt.Sprintf("k%d", idx))
			c := replayCase(&in, dir, idx)
			gen.Emit(c)
			os.RemoveAll(dir)
			idx++
		}
	}
	r := gen.FromEnv(10)
	if n > 0 && !perlMode {
		dir := filepath.Join(base, "pairs")
		gen.Emit(pairsCase(dir, idx))
		os.RemoveAll(dir)
		idx++
		nsweep := 2
		if gen.Tier() != "quick" {
			nsweep = 12
		}
		ndense := 8
		if gen.Tier() != "quick" {
			ndense = 120
		}
		rd := gen.FromEnv(12)
		for k := 0; k < ndense; k++ {
			dir := filepath.Join(base, fmt.Sprintf("d%d", idx))
			gen.Emit(genDense(rd.Fork(), dir, idx))
			os.RemoveAll(dir)
			idx++
		}
		nbig := 2
		if gen.Tier() != "quick" {
			nbig = 12
		}
		rb := gen.FromEnv(15)
		for k := 0; k < nbig; k++ {
			dir := filepath.Join(base, fmt.Sprintf("b%d", idx))
			gen.Emit(genBigRows(rb.Fork(), dir, idx))
			os.RemoveAll(dir)
			idx++
		}
		nstale := 2
		if gen.Tier() != "quick" {
			nstale = 10
		}
		rt := gen.FromEnv(13)
		for k := 0; k < nstale; k++ {
			dir := filepath.Join(base, fmt.Sprintf("t%d", idx))
			gen.Emit(genStale(rt.Fork(), dir, idx))
			os.RemoveAll(dir)
			idx++
		}
		rs := gen.FromEnv(11)
		for k := 0; k < nsweep; k++ {
			for _, c := range genSweeps(rs.Fork(), base, &idx) {
				gen.Emit(c)
			}
		}
	}
	for i := 0; i < n; i++ {
		dir := filepath.Join(base, fmt.Sprintf("c%d", i))
		c := genCase(r.Fork(), dir, idx)
		gen.Emit(c)
		os.RemoveAll(dir)
		idx++
	}
}
