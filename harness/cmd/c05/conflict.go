// Follower-side log conflicts WITHOUT reopen on the REAL raftlog.RaftDiskStorage, read back and applied through the
// real path (Store.Entries -> RaftNode.PublishEntries -> readCommitFromRaft -> dealCommitData -> shard):
// leader A replicates e1..ek (term 1) to this follower and dies; the new leader (term 2) overwrites the last j
// entries (its no-op first, or its own writes) and possibly appends more. What the follower applies must be exactly
// the new leader's log.
package main

import (
	"fmt"
	"path/filepath"
	"time"

	"github.com/openGemini/openGemini/engine"
	"github.com/openGemini/openGemini/lib/logger"
	"github.com/openGemini/openGemini/lib/raftconn"
	"github.com/openGemini/openGemini/lib/raftlog"
	"go.etcd.io/etcd/raft/v3"
	"go.etcd.io/etcd/raft/v3/raftpb"
)

type ConflictCase struct {
	Kind    string         `json:"kind"` // "conflict"
	Old     [][][2]int64   `json:"old"`  // batches of e1..ek written under term 1
	J       int            `json:"j"`    // number of tail entries the new leader overwrites
	New     [][][2]int64   `json:"new"`  // the new leader's entries from index k-j+1 on; an empty batch = its no-op entry
	Rounds  int            `json:"rounds"` // 1 = all of New in one Save; 2 = overwrite first, append the rest separately
	Applied [][][2]int64   `json:"applied"` // batches applied to the shard, in order
	Terms   []uint64       `json:"terms"`   // terms read back for entries 1..last
	Oracle  []string       `json:"oracle"`
}

func genConflict(r prng) *ConflictCase {
	c := &ConflictCase{Kind: "conflict", Rounds: r.Range(1, 2)}
	val := int64(1000)
	mk := func(minLen int) [][2]int64 {
		var b [][2]int64
		for k := r.Range(minLen, 3); k > 0; k-- {
			val++
			b = append(b, [2]int64{int64(r.Range(1, 4)), val})
		}
		return b
	}
	k := r.Range(1, 6)
	for i := 0; i < k; i++ {
		c.Old = append(c.Old, mk(1))
	}
	c.J = r.Range(1, 3)
	if c.J > k {
		c.J = k
	}
	if r.Chance(1, 2) {
		c.J = 1 // the single stale tail entry: leader killed in the middle of one write
	}
	n := c.J + r.Intn(3)
	if r.Chance(1, 6) && c.J > 1 {
		n = r.Range(1, c.J-1) // the new leader's log is shorter than the stale tail
	}
	for i := 0; i < n; i++ {
		if i == 0 && r.Chance(1, 2) {
			c.New = append(c.New, [][2]int64{}) // no-op entry of the new leader
		} else {
			c.New = append(c.New, mk(1))
		}
	}
	return c
}

func corpusConflict() []*ConflictCase {
	return []*ConflictCase{
		{Kind: "conflict", Rounds: 1, Old: [][][2]int64{{{1, 10}}, {{1, 11}}, {{1, 99}}}, J: 1, New: [][][2]int64{{}}},
		{Kind: "conflict", Rounds: 2, Old: [][][2]int64{{{1, 10}}, {{1, 11}}, {{1, 99}}}, J: 1, New: [][][2]int64{{{1, 20}}, {{2, 21}}}},
		{Kind: "conflict", Rounds: 1, Old: [][][2]int64{{{1, 10}}, {{2, 11}}, {{3, 99}}}, J: 2, New: [][][2]int64{{}, {{2, 30}}, {{3, 31}}}},
	}
}

func entryOf(idx, term uint64, b [][2]int64) raftpb.Entry {
	e := raftpb.Entry{Index: idx, Term: term, Type: raftpb.EntryNormal}
	if len(b) > 0 {
		dw := &raftlog.DataWrapper{DataType: raftlog.Normal, Identity: "db0_1", ProposeId: idx, Data: tailOf(b)}
		e.Data = dw.Marshal()
	}
	return e
}

func runConflict(work string, id int, c *ConflictCase) {
	defer func() {
		if r := recover(); r != nil {
			c.Oracle = append(c.Oracle, fmt.Sprintf("panic: %v", r))
		}
	}()
	dir := filepath.Join(work, fmt.Sprintf("conflict-%d", id))
	store, err := raftlog.Init(dir, 0)
	if err != nil {
		panic(err)
	}
	defer store.Close()
	k := len(c.Old)
	var ents []raftpb.Entry
	for i, b := range c.Old {
		ents = append(ents, entryOf(uint64(i+1), 1, b))
	}
	if err = store.Save(&raftpb.HardState{Term: 1, Vote: 1, Commit: uint64(k - c.J)}, ents, nil); err != nil {
		panic(err)
	}
	// the new leader's entries, starting at the first conflicting index (raft hands exactly these to Storage)
	var nents []raftpb.Entry
	for i, b := range c.New {
		nents = append(nents, entryOf(uint64(k-c.J+1+i), 2, b))
	}
	hs := &raftpb.HardState{Term: 2, Vote: 2, Commit: uint64(k - c.J)}
	if c.Rounds == 2 && len(nents) > 1 {
		if err = store.Save(hs, nents[:1], nil); err == nil {
			err = store.Save(nil, nents[1:], nil)
		}
	} else {
		err = store.Save(hs, nents, nil)
	}
	if err != nil {
		c.Oracle = append(c.Oracle, "Save of the new leader's entries failed: "+err.Error())
		return
	}
	last := uint64(k - c.J + len(c.New))
	got, err := store.Entries(1, last+1, 1<<40)
	if err != nil {
		c.Oracle = append(c.Oracle, "Entries failed: "+err.Error())
		return
	}
	for _, e := range got {
		c.Terms = append(c.Terms, e.Term)
	}
	// apply what the storage returns through the real publish/apply path
	mc := &fakeMeta{}
	st := &recStorage{}
	node := raftconn.StartNode(store, 2, "db0", 2, []raft.Peer{{ID: 1}, {ID: 2}, {ID: 3}}, mc, map[uint32]uint64{0: 1, 1: 2, 2: 3})
	node.WithLogger(logger.NewLogger(0))
	go engine.VerifReadCommitFromRaft(node, mc, st)
	want := 0
	var exp [][][2]int64
	for i := 0; i < k-c.J; i++ {
		exp = append(exp, c.Old[i])
	}
	for _, b := range c.New {
		if len(b) > 0 {
			exp = append(exp, b)
		}
	}
	want = len(exp)
	node.PublishEntries(got)
	deadline := time.Now().Add(2 * time.Second)
	for time.Now().Before(deadline) {
		if _, n := st.snapshot(); n >= want {
			break
		}
		time.Sleep(time.Millisecond)
	}
	time.Sleep(10 * time.Millisecond) // an entry that must NOT be applied would show up now
	node.Stop()
	st.mu.Lock()
	for _, a := range st.applied {
		var b [][2]int64
		for i := range a.Keys {
			b = append(b, [2]int64{a.Keys[i], a.Vals[i]})
		}
		c.Applied = append(c.Applied, b)
	}
	st.mu.Unlock()
	// DIRECT ORACLE: the follower applies exactly the new leader's log (kept prefix + new entries, no-ops apply nothing)
	if fmt.Sprint(c.Applied) != fmt.Sprint(exp) {
		c.Oracle = append(c.Oracle, fmt.Sprintf("follower applied %v, the new leader's log is %v", c.Applied, exp))
	}
	if uint64(len(got)) != last {
		c.Oracle = append(c.Oracle, fmt.Sprintf("log has %d entries after the overwrite, want %d", len(got), last))
	}
}
