// Read path "which replica answers never changes the answer": the coordinator reads a replicated database through
// metaclient.Client.GetAliveShards (replica group Health: the shard of the MASTER partition; SubHealth: the first
// Online partition of the group in shard order); when the store owning the master partition fails, ts-meta's
// electRgMaster makes the first Online slave peer the new master. Neither looks at how far the chosen replica has
// caught up. Scenario "lagmaster" on the real 3-node group: the member that is first in the peer list is down while
// acknowledged overwrites are written, restarts (its partitions are Online again as soon as its own log is replayed)
// and right then the store of the master partition is killed: the REAL electRgMaster and the REAL GetAliveShards are
// asked who answers reads now, and that member's shard is read at once.
package main

import (
	"fmt"
	"time"

	metasvc "github.com/openGemini/openGemini/app/ts-meta/meta"
	"github.com/openGemini/openGemini/lib/config"
	"github.com/openGemini/openGemini/lib/metaclient"
	meta2 "github.com/openGemini/openGemini/lib/util/lifted/influx/meta"
)

// readTarget: the partition whose shard a query of db0 is mapped to, given the replica group and the pt statuses
func readTarget(master uint32, peers []meta2.Peer, status meta2.RGStatus, online [3]bool) (int, []int) {
	_ = config.SetHaPolicy("replication")
	pts := make(meta2.DBPtInfos, 3)
	for i := range pts {
		st := meta2.Offline
		if online[i] {
			st = meta2.Online
		}
		pts[i] = meta2.PtInfo{PtId: uint32(i), Owner: meta2.PtOwner{NodeID: uint64(i + 1)}, Status: st, RGID: 0}
	}
	data := &meta2.Data{
		Databases:     map[string]*meta2.DatabaseInfo{"db0": {Name: "db0", ReplicaN: 3}},
		PtView:        map[string]meta2.DBPtInfos{"db0": pts},
		ReplicaGroups: map[string][]meta2.ReplicaGroup{"db0": {{ID: 0, MasterPtID: master, Peers: peers, Status: status}}},
	}
	cl := metaclient.NewClient("", false, 0)
	cl.SetCacheData(data)
	sgi := &meta2.ShardGroupInfo{ID: 1, Shards: []meta2.ShardInfo{{ID: 11, Owners: []uint32{0}}, {ID: 12, Owners: []uint32{1}}, {ID: 13, Owners: []uint32{2}}}}
	idx := cl.GetAliveShards("db0", sgi, true)
	if len(idx) != 1 {
		return -1, idx
	}
	return int(sgi.Shards[idx[0]].Owners[0]), idx
}

func runLagMaster(work string, c *GroupCase) {
	defer func() {
		if r := recover(); r != nil {
			c.Oracle = append(c.Oracle, fmt.Sprintf("harness panic: %v", r))
		}
	}()
	config.ElectionTick = 3
	config.WaitCommitTimeout = 5 * time.Second
	sc := config.GetStoreConfig()
	sc.ClearEntryLogTolerateTime = 1 << 60
	sc.ClearEntryLogTolerateSize = 1 << 60
	g := newGroup(work, fmt.Sprintf("%s-%d", c.Forced, time.Now().UnixNano()))
	defer g.stopAll()
	l := g.leader(15 * time.Second)
	if l < 0 {
		c.Note = append(c.Note, "no leader within 15s")
		c.Scenario = "not-run"
		return
	}
	c.Leader = l
	v, h := (l+1)%3, (l+2)%3
	c.Victim = v
	// the replica group as meta records it: the raft leader's partition is the master, the victim is the first peer
	master := uint32(l)
	peers := []meta2.Peer{{ID: uint32(v), PtRole: meta2.Slave}, {ID: uint32(h), PtRole: meta2.Slave}}
	acked := map[int64]int64{}
	for k := int64(1); k <= 5; k++ {
		if err := g.write(l, k, 10+k, 6*time.Second); err == nil {
			acked[k] = 10 + k
		}
	}
	waitFor(5*time.Second, func() bool { _, n := g.ms[v].st.snapshot(); return n >= len(acked) })
	if t, _ := readTarget(master, peers, meta2.Health, [3]bool{true, true, true}); t != l {
		c.Oracle = append(c.Oracle, fmt.Sprintf("healthy group: reads are mapped to partition %d, the master is %d", t, l))
	}
	_, c.VictimLast = g.ms[v].store.GetFirstLast()
	g.kill(v)
	g.bulk(l, 0, c.Entries)
	for k := int64(1); k <= 5; k++ {
		if err := g.write(l, k, 100+k, 20*time.Second); err == nil {
			acked[k] = 100 + k
		}
	}
	total := 5 + c.Entries + 5
	waitFor(60*time.Second, func() bool { _, n := g.ms[l].st.snapshot(); return n >= total })
	waitFor(30*time.Second, func() bool { _, n := g.ms[h].st.snapshot(); return n >= total })
	c.AckedN = len(acked)
	// the victim is back: its partition is Online as soon as its own log is replayed; the master's store dies right then
	// (the master's store dies while the victim's process is replaying its own log: from the victim's first raft tick on,
	// nothing from the old leader reaches it - one store down at any time)
	g.mu.Lock()
	g.ms[l].cut = true
	g.mu.Unlock()
	g.start(v)
	g.kill(l)
	online := [3]bool{true, true, true}
	online[l] = false
	ptInfos := make(meta2.DBPtInfos, 3)
	for i := range ptInfos {
		st := meta2.Offline
		if online[i] {
			st = meta2.Online
		}
		ptInfos[i] = meta2.PtInfo{PtId: uint32(i), Status: st}
	}
	rg := meta2.NewReplicaGroup(0, master, peers, meta2.Health, 1)
	nm, npeers, ok := metasvc.VerifElectRgMaster(rg, ptInfos, "db0")
	if !ok {
		c.Note = append(c.Note, "electRgMaster found no master")
		c.Scenario = "not-run"
		return
	}
	target, idx := readTarget(nm, npeers, meta2.Health, online) // 2 of 3 online: the group stays Health
	c.Note = append(c.Note, fmt.Sprintf("new master partition %d, reads mapped to shards %v = partition %d", nm, idx, target))
	c.Scenario = "ran"
	if target < 0 || !online[target] {
		c.Oracle = append(c.Oracle, fmt.Sprintf("reads are mapped to %v although partitions %v are online", idx, online))
		return
	}
	// DIRECT ORACLE: with a minority down, the replica that answers returns every acknowledged point with its latest value
	lww, _ := g.ms[target].st.snapshot()
	c.VictimApplied = g.ms[target].node.VerifAppliedIndex()
	for k, val := range acked {
		if lww[k] != val {
			c.Missing++
		}
	}
	c.Target = target
	c.GroupCommit = g.ms[h].node.VerifAppliedIndex()
	if c.Missing > 0 {
		c.Oracle = append(c.Oracle, fmt.Sprintf("one store down (old master %d); reads are answered by partition %d (new master by electRgMaster: first online slave peer), which rejoined a moment ago and has applied index %d: %d of %d acknowledged points are missing or stale there",
			l, target, c.VictimApplied, c.Missing, len(acked)))
	}
	// eventually it catches up (a new raft leader is elected among the two live members)
	ok2 := waitFor(30*time.Second, func() bool {
		m, _ := g.ms[target].st.snapshot()
		for k, val := range acked {
			if m[k] != val {
				return false
			}
		}
		return true
	})
	c.Note = append(c.Note, fmt.Sprintf("answers are complete after catch-up: %v", ok2))
	if !ok2 {
		c.Oracle = append(c.Oracle, "the new master never catches up")
	}
}

// ReadSelCase: GetAliveShards on one replica group of 3 or 5 partitions with generated statuses and shard order
type ReadSelCase struct {
	Kind     string   `json:"kind"` // "readsel"
	N        int      `json:"n"`
	Master   uint32   `json:"master"`
	Health   bool     `json:"health"` // replica group status Health (else SubHealth)
	Online   []bool   `json:"online"` // per partition
	ShardPts []uint32 `json:"shardPts"` // owner partition of every shard, in shard-group order
	Sel      []int    `json:"sel"`      // selected shard positions
	Oracle   []string `json:"oracle"`
}

func genReadSel(r prng) *ReadSelCase {
	c := &ReadSelCase{Kind: "readsel", N: []int{3, 3, 5}[r.Intn(3)]}
	c.Master = uint32(r.Intn(c.N))
	down := 0
	for i := 0; i < c.N; i++ {
		on := !r.Chance(1, 3)
		if !on {
			down++
		}
		c.Online = append(c.Online, on)
	}
	// the status meta derives: Health iff a majority of the partitions is online (nextHealth / nextSubHealth)
	c.Health = c.N-down > c.N/2
	if r.Chance(1, 10) {
		c.Health = !c.Health // a status that lags behind the pt view
	}
	perm := make([]uint32, c.N)
	for i := range perm {
		perm[i] = uint32(i)
	}
	for i := c.N - 1; i > 0; i-- {
		j := r.Intn(i + 1)
		perm[i], perm[j] = perm[j], perm[i]
	}
	c.ShardPts = perm
	return c
}

func runReadSel(c *ReadSelCase) *ReadSelCase {
	c.Oracle, c.Sel = nil, nil
	_ = config.SetHaPolicy("replication")
	pts := make(meta2.DBPtInfos, c.N)
	var peers []meta2.Peer
	for i := range pts {
		st := meta2.Offline
		if c.Online[i] {
			st = meta2.Online
		}
		pts[i] = meta2.PtInfo{PtId: uint32(i), Owner: meta2.PtOwner{NodeID: uint64(i + 1)}, Status: st, RGID: 0}
		if uint32(i) != c.Master {
			peers = append(peers, meta2.Peer{ID: uint32(i), PtRole: meta2.Slave})
		}
	}
	status := meta2.SubHealth
	if c.Health {
		status = meta2.Health
	}
	data := &meta2.Data{
		Databases:     map[string]*meta2.DatabaseInfo{"db0": {Name: "db0", ReplicaN: c.N}},
		PtView:        map[string]meta2.DBPtInfos{"db0": pts},
		ReplicaGroups: map[string][]meta2.ReplicaGroup{"db0": {{ID: 0, MasterPtID: c.Master, Peers: peers, Status: status}}},
	}
	cl := metaclient.NewClient("", false, 0)
	cl.SetCacheData(data)
	sgi := &meta2.ShardGroupInfo{ID: 1}
	for i, p := range c.ShardPts {
		sgi.Shards = append(sgi.Shards, meta2.ShardInfo{ID: uint64(11 + i), Owners: []uint32{p}})
	}
	c.Sel = cl.GetAliveShards("db0", sgi, true)
	// DIRECT ORACLE: a query of a replicated database reads every replica group exactly once, and while a majority of
	// the group is online (status Health) it reads the master partition
	if len(c.Sel) > 1 {
		c.Oracle = append(c.Oracle, fmt.Sprintf("%d shards of one replica group are read: every point is returned more than once", len(c.Sel)))
	}
	if c.Health && (len(c.Sel) != 1 || c.ShardPts[c.Sel[0]] != c.Master) {
		c.Oracle = append(c.Oracle, "healthy replica group: the shard that is read is not the master partition's")
	}
	return c
}
