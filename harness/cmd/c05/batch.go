// One write request that touches several shards: PointsWriter.writeShardMap writes every shard concurrently (each
// through the retry loop writeRowToShard) and returns an error if ANY shard failed - the request is acknowledged
// only if every shard was stored; what was stored on the other shards stays (unacknowledged data may be visible).
package main

import (
	"errors"
	"sync"
	"time"

	"github.com/openGemini/openGemini/coordinator"
	"github.com/openGemini/openGemini/lib/errno"
	"github.com/openGemini/openGemini/lib/netstorage"
	meta2 "github.com/openGemini/openGemini/lib/util/lifted/influx/meta"
)

type BatchCase struct {
	Kind    string     `json:"kind"`    // "batch"
	Scripts [][]string `json:"scripts"` // per shard: answers of the store, the last one repeats
	Timeout int        `json:"timeoutMs"`
	Acked   bool       `json:"acked"`
	Calls   []int      `json:"calls"`   // store calls per shard
	StoreOK []int      `json:"storeOk"` // successful store calls per shard
	Oracle  []string   `json:"oracle"`
}

type batchStore struct {
	mu sync.Mutex
	c  *BatchCase
}

func (s *batchStore) WriteRows(ctx *netstorage.WriteContext, nodeID uint64, pt uint32, database, rp string, timeout time.Duration) error {
	s.mu.Lock()
	defer s.mu.Unlock()
	sh := int(ctx.Shard.ID) - 1
	sc := s.c.Scripts[sh]
	i := s.c.Calls[sh]
	s.c.Calls[sh]++
	if i >= len(sc) {
		i = len(sc) - 1
	}
	switch sc[i] {
	case "ok":
		s.c.StoreOK[sh]++
		return nil
	case "retry-pt":
		return errno.NewError(errno.PtNotFound)
	case "retry-conn":
		return errors.New("dial tcp 127.0.0.2:20540: connect: connection refused")
	case "shardmeta":
		return errno.NewError(errno.ShardMetaNotFound, uint64(1))
	default:
		return errors.New("field type conflict")
	}
}

type batchMeta struct {
	coordinator.PWMetaClient
	n int
}

func (m *batchMeta) DBPtView(database string) (meta2.DBPtInfos, error) {
	var v meta2.DBPtInfos
	for i := 0; i < m.n; i++ {
		v = append(v, meta2.PtInfo{PtId: uint32(i), Owner: meta2.PtOwner{NodeID: uint64(i + 2)}, Status: meta2.Online})
	}
	return v, nil
}

func genBatch(r prng) *BatchCase {
	c := &BatchCase{Kind: "batch", Timeout: 3000}
	n := r.Range(2, 4)
	for s := 0; s < n; s++ {
		c.Scripts = append(c.Scripts, genCoordScript(r))
	}
	return c
}

// a per-shard script without the "longer than the timeout" class (one slow shard would make every case slow)
func genCoordScript(r prng) []string {
	var sc []string
	for i, k := 0, r.Intn(3); i < k; i++ {
		sc = append(sc, []string{"retry-pt", "retry-conn"}[r.Intn(2)])
	}
	switch x := r.Intn(10); {
	case x < 7:
		sc = append(sc, "ok")
	case x < 9:
		sc = append(sc, "fail")
	default:
		sc = append(sc, "shardmeta")
	}
	return sc
}

func corpusBatch() []*BatchCase {
	return []*BatchCase{
		{Kind: "batch", Timeout: 3000, Scripts: [][]string{{"ok"}, {"ok"}, {"ok"}}},
		{Kind: "batch", Timeout: 3000, Scripts: [][]string{{"ok"}, {"fail"}, {"ok"}}},                  // partial: some shards stored
		{Kind: "batch", Timeout: 3000, Scripts: [][]string{{"retry-pt", "ok"}, {"ok"}, {"retry-conn", "retry-pt", "ok"}}},
		{Kind: "batch", Timeout: 250, Scripts: [][]string{{"ok"}, {"retry-pt"}}},                       // one shard has no master for too long
	}
}

func runBatch(c *BatchCase) *BatchCase {
	n := len(c.Scripts)
	c.Calls, c.StoreOK, c.Oracle, c.Acked = make([]int, n), make([]int, n), nil, false
	var shards []*meta2.ShardInfo
	for i := 0; i < n; i++ {
		shards = append(shards, &meta2.ShardInfo{ID: uint64(i + 1), Owners: []uint32{uint32(i)}})
	}
	err := coordinator.VerifC05WriteShardMap(&batchMeta{n: n}, &batchStore{c: c}, time.Duration(c.Timeout)*time.Millisecond, shards, "db0", "autogen")
	c.Acked = err == nil
	// DIRECT ORACLE: the request is acknowledged iff EVERY shard it touches was stored
	all := true
	for i := 0; i < n; i++ {
		if c.StoreOK[i] == 0 {
			all = false
		}
	}
	if c.Acked && !all {
		c.Oracle = append(c.Oracle, "the coordinator acknowledged a request although a shard of it was not stored")
	}
	if !c.Acked && all {
		c.Oracle = append(c.Oracle, "every shard was stored but the coordinator reported an error")
	}
	return c
}
