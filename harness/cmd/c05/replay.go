// Restart-replay scenarios on the REAL raftlog.RaftDiskStorage + raftconn.RaftNode.InitAndStartNode:
// a partition's durable raft state (entries, hard-state commit, snapshot index, ClearEntryLog deletions applied
// through the real dealCommitData) is built on disk, the node is "killed" (storage closed) and restarted, and the
// payloads handed to the replay channel plus the node's applied index are observed.
package main

import (
	"encoding/binary"
	"fmt"
	"os"
	"path/filepath"
	"time"

	"github.com/openGemini/openGemini/engine"
	"github.com/openGemini/openGemini/lib/logger"
	"github.com/openGemini/openGemini/lib/raftconn"
	"github.com/openGemini/openGemini/lib/raftlog"
	"go.etcd.io/etcd/raft/v3"
	"go.etcd.io/etcd/raft/v3/raftpb"
)

// ReplayCase is one generated restart scenario. Indexes are raft indexes (1-based).
type ReplayCase struct {
	Kind      string   `json:"kind"` // "replay"
	N         uint64   `json:"n"`         // entries 1..N are in the durable log
	Commit    uint64   `json:"commit"`    // durable HardState.Commit
	Snap      uint64   `json:"snap"`      // the node's own snapshot index (0 = none: only the conf state is stored)
	Clears    []uint64 `json:"clears"`    // ClearEntryLog indexes applied (through dealCommitData) before the kill
	AppliedAt uint64   `json:"appliedAt"` // entries applied to the shard before the kill (<= Commit)
	FileSize  uint64   `json:"fileSize"`  // entries per entry-log file (constant of lib/raftlog)
	// observed
	First     uint64   `json:"first"`     // first index of the entry log after the deletions
	Replayed  []uint64 `json:"replayed"`  // indexes handed to ReplayC by the restart, in order
	Applied   uint64   `json:"applied"`   // the node's applied index after the restart (raft never publishes <= this)
	Err       string   `json:"err,omitempty"`
	Oracle    []string `json:"oracle"`
}

func payload(i uint64) []byte {
	var b [8]byte
	binary.BigEndian.PutUint64(b[:], i)
	dw := &raftlog.DataWrapper{DataType: raftlog.Normal, Identity: "db0_0", ProposeId: i, Data: b[:]}
	return dw.Marshal()
}

func payloadIndex(data []byte) uint64 {
	dw, err := raftlog.Unmarshal(data)
	if err != nil || len(dw.Data) != 8 {
		return 0
	}
	return binary.BigEndian.Uint64(dw.Data)
}

func runReplayCase(work string, id int, c *ReplayCase) {
	dir := filepath.Join(work, fmt.Sprintf("replay-%d", id))
	_ = os.RemoveAll(dir)
	defer os.RemoveAll(dir)
	defer func() {
		if r := recover(); r != nil {
			c.Err = fmt.Sprintf("panic: %v", r)
		}
	}()
	store, err := raftlog.Init(dir, 0)
	if err != nil {
		c.Err = "init: " + err.Error()
		return
	}
	ents := make([]raftpb.Entry, 0, c.N)
	for i := uint64(1); i <= c.N; i++ {
		ents = append(ents, raftpb.Entry{Index: i, Term: 1, Type: raftpb.EntryNormal, Data: payload(i)})
	}
	hs := raftpb.HardState{Term: 1, Vote: 1, Commit: c.Commit}
	cs := raftpb.ConfState{Voters: []uint64{1, 2, 3}}
	// the conf state is stored by the node when the initial conf changes are applied (saveConfStateToMeta)
	if err = store.Save(&hs, ents, &raftpb.Snapshot{Metadata: raftpb.SnapshotMetadata{ConfState: cs}}); err != nil {
		c.Err = "save: " + err.Error()
		return
	}
	if c.Snap > 0 {
		if err = store.CreateSnapshot(c.Snap, &cs, []byte("snapshot")); err != nil {
			c.Err = "snapshot: " + err.Error()
			return
		}
	}
	peers := []raft.Peer{{ID: 1}, {ID: 2}, {ID: 3}}
	trans := map[uint32]uint64{0: 1, 1: 2, 2: 3}
	mc := &fakeMeta{}
	n0 := raftconn.StartNode(store, 1, "db0", 1, peers, mc, trans)
	n0.WithLogger(logger.NewLogger(0))
	for _, idx := range c.Clears {
		var b [8]byte
		binary.BigEndian.PutUint64(b[:], idx)
		dw := &raftlog.DataWrapper{DataType: raftlog.ClearEntryLog, Data: b[:]}
		engine.VerifDealCommitData(n0, mc, &recStorage{}, dw.Marshal(), "db0", 0)
	}
	c.First, _ = store.GetFirstLast()
	_ = store.Close() // kill

	store2, err := raftlog.Init(dir, 0)
	if err != nil {
		c.Err = "reinit: " + err.Error()
		return
	}
	defer store2.Close()
	n := raftconn.StartNode(store2, 1, "db0", 1, peers, mc, trans)
	n.WithLogger(logger.NewLogger(0))
	replayC := make(chan *raftconn.Commit, 1)
	n.ReplayC = replayC
	if err = n.InitAndStartNode(); err != nil {
		c.Err = "start: " + err.Error()
		return
	}
	close(replayC)
	for cm := range replayC {
		if cm == nil {
			continue
		}
		for _, d := range cm.Data {
			c.Replayed = append(c.Replayed, payloadIndex(d))
		}
	}
	c.Applied = n.VerifAppliedIndex()
	n.Stop()
	time.Sleep(5 * time.Millisecond)

	// DIRECT ORACLE: every committed entry must be in the shard already (<= AppliedAt), or be replayed, or be
	// published by raft later (> applied index of the restarted node).
	have := map[uint64]bool{}
	for _, i := range c.Replayed {
		have[i] = true
	}
	for i := uint64(1); i <= c.Commit; i++ {
		if i <= c.AppliedAt || have[i] || i > c.Applied {
			continue
		}
		c.Oracle = append(c.Oracle, fmt.Sprintf("committed entry %d is neither in the shard (applied before kill=%d), nor replayed, nor published later (applied index after restart=%d)", i, c.AppliedAt, c.Applied))
		break
	}
}

const entryFileSize = raftlog.VerifMaxNumEntries // entries per entry-log file, taken from the tree (hook of C17: maxNumEntries)

// the witness of finding C05-replay-skipped-after-truncation, and its harmless neighbours
func corpusReplay() []*ReplayCase {
	return []*ReplayCase{
		{Kind: "replay", N: 30100, Commit: 30100, Snap: 29900, Clears: []uint64{30050}, AppliedAt: 30060, FileSize: entryFileSize},
		{Kind: "replay", N: 30100, Commit: 30100, Snap: 30050, Clears: []uint64{30050}, AppliedAt: 30060, FileSize: entryFileSize},
		{Kind: "replay", N: 30100, Commit: 30100, Snap: 29900, Clears: []uint64{29950}, AppliedAt: 30060, FileSize: entryFileSize},
		{Kind: "replay", N: 100, Commit: 90, Snap: 40, AppliedAt: 80, FileSize: entryFileSize},
		{Kind: "replay", N: 100, Commit: 90, Snap: 0, AppliedAt: 80, FileSize: entryFileSize},
	}
}

func genReplay(r interface {
	Intn(int) int
	Range(int, int) int
	Chance(int, int) bool
}, big bool) *ReplayCase {
	c := &ReplayCase{Kind: "replay", FileSize: entryFileSize}
	if !big {
		c.N = uint64(r.Range(3, 120))
		c.Snap = uint64(r.Intn(int(c.N) + 1))
		if r.Chance(1, 4) {
			c.Snap = 0
		}
		lo := c.Snap
		if r.Chance(1, 2) && c.N > 2 {
			idx := uint64(r.Range(1, int(c.N)))
			c.Clears = append(c.Clears, idx)
			if idx > lo {
				lo = idx
			}
		}
		c.Commit = lo + uint64(r.Intn(int(c.N-lo)+1))
		c.AppliedAt = lo + uint64(r.Intn(int(c.Commit-lo)+1))
		if r.Chance(1, 3) {
			c.AppliedAt = lo // killed right after the snapshot / truncation point: everything later must be replayed
		}
		return c
	}
	files := uint64(r.Range(1, 2))
	c.N = files*entryFileSize + uint64(r.Range(1, 300))
	edge := files * entryFileSize
	// the member's own snapshot index around the file boundary
	c.Snap = edge - 150 + uint64(r.Intn(300))
	if c.Snap > c.N {
		c.Snap = c.N
	}
	lo := c.Snap
	for k := r.Range(1, 2); k > 0; k-- {
		idx := edge - 100 + uint64(r.Intn(int(c.N-edge)+100))
		if idx > c.N {
			idx = c.N
		}
		c.Clears = append(c.Clears, idx)
		if idx > lo {
			lo = idx
		}
	}
	c.Commit = lo + uint64(r.Intn(int(c.N-lo)+1))
	c.AppliedAt = lo + uint64(r.Intn(int(c.Commit-lo)+1))
	return c
}
