// The coordinator's per-shard write/retry loop (coordinator.PointsWriter.writeRowToShard) with a scripted store
// transport: "writes are accepted again as soon as a master exists" - the request is retried while the store
// answers with retryable errors, and it is acknowledged only if the store finally acknowledged it.
package main

import (
	"errors"
	"time"

	"github.com/openGemini/openGemini/coordinator"
	"github.com/openGemini/openGemini/lib/errno"
	"github.com/openGemini/openGemini/lib/netstorage"
	meta2 "github.com/openGemini/openGemini/lib/util/lifted/influx/meta"
)

type CoordCase struct {
	Kind    string   `json:"kind"`   // "coord"
	Script  []string `json:"script"` // per store call: ok | retry-pt | retry-conn | fail | shardmeta ; the last one repeats forever
	Timeout int      `json:"timeoutMs"`
	Acked   bool     `json:"acked"` // writeRowToShard returned nil
	Calls   int      `json:"calls"`
	StoreOK int      `json:"storeOk"` // store calls that succeeded
	Oracle  []string `json:"oracle"`
}

type scriptedStore struct {
	c *CoordCase
}

func (s *scriptedStore) WriteRows(ctx *netstorage.WriteContext, nodeID uint64, pt uint32, database, rp string, timeout time.Duration) error {
	i := s.c.Calls
	s.c.Calls++
	if i >= len(s.c.Script) {
		i = len(s.c.Script) - 1
	}
	switch s.c.Script[i] {
	case "ok":
		s.c.StoreOK++
		return nil
	case "retry-pt":
		return errno.NewError(errno.PtNotFound)
	case "retry-conn":
		return errors.New("dial tcp 127.0.0.2:20540: connect: connection refused")
	case "shardmeta":
		return errno.NewError(errno.ShardMetaNotFound, uint64(1))
	default:
		return errors.New("field type conflict")
	}
}

type coordMeta struct {
	coordinator.PWMetaClient
}

func (m *coordMeta) DBPtView(database string) (meta2.DBPtInfos, error) {
	return meta2.DBPtInfos{{PtId: 0, Owner: meta2.PtOwner{NodeID: 2}, Status: meta2.Online}}, nil
}

func genCoord(r prng) *CoordCase {
	c := &CoordCase{Kind: "coord", Timeout: 3000}
	k := r.Intn(3)
	for i := 0; i < k; i++ {
		c.Script = append(c.Script, []string{"retry-pt", "retry-conn"}[r.Intn(2)])
	}
	switch x := r.Intn(10); {
	case x < 5:
		c.Script = append(c.Script, "ok")
	case x < 7:
		c.Script = append(c.Script, "fail")
	case x < 8:
		c.Script = append(c.Script, "shardmeta")
	default: // no master for longer than the coordinator waits
		if len(c.Script) == 0 {
			c.Script = append(c.Script, "retry-pt")
		}
		c.Timeout = 250
	}
	return c
}

func corpusCoord() []*CoordCase {
	return []*CoordCase{
		{Kind: "coord", Script: []string{"retry-conn", "retry-pt", "ok"}, Timeout: 3000},
		{Kind: "coord", Script: []string{"retry-pt"}, Timeout: 250},
		{Kind: "coord", Script: []string{"retry-conn", "fail"}, Timeout: 3000},
	}
}

func runCoord(c *CoordCase) *CoordCase {
	c.Calls, c.StoreOK, c.Oracle, c.Acked = 0, 0, nil, false
	err := coordinator.VerifC05WriteRowToShard(&coordMeta{}, &scriptedStore{c: c}, time.Duration(c.Timeout)*time.Millisecond, []uint32{0}, "db0", "autogen")
	c.Acked = err == nil
	// DIRECT ORACLE: acknowledged iff the store acknowledged the last attempt
	if c.Acked && c.StoreOK == 0 {
		c.Oracle = append(c.Oracle, "the coordinator acknowledged a write that no store accepted")
	}
	if !c.Acked && c.StoreOK > 0 {
		c.Oracle = append(c.Oracle, "the store accepted the write but the coordinator reported an error")
	}
	return c
}
