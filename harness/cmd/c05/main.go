// C05 correspondence harness (C1 + in-process part).
//
//	c05 cases <n>   generated cases from ONE PRNG (VERIF_SEED): replica-group rotation/creation functions of meta,
//	                the DataWrapper codec, restart-replay scenarios on the real raft storage + RaftNode, and the
//	                real WriteToRaft / readCommitFromRaft / dealCommitData ack path driven by a fake raft (channels).
//
// One JSON object per case on stdout. Every case carries the DIRECT-ORACLE verdicts in "oracle" (non-empty = the
// property statement itself fails on the implementation for this input).
package main

import (
	"encoding/hex"
	"encoding/json"
	"fmt"
	"os"
	"sort"
	"strconv"

	"github.com/openGemini/openGemini/lib/logger"
	"github.com/openGemini/openGemini/lib/raftlog"
	meta2 "github.com/openGemini/openGemini/lib/util/lifted/influx/meta"
	proto2 "github.com/openGemini/openGemini/lib/util/lifted/influx/meta/proto"
	metasvc "github.com/openGemini/openGemini/app/ts-meta/meta"
	"go.uber.org/zap"
	"verifharness/internal/gen"
)

// ---------------------------------------------------------------- rotation

type RG struct {
	OK bool     `json:"ok"`
	M  uint32   `json:"m"`
	Ps []uint32 `json:"ps"`
}

type RotCase struct {
	Kind   string   `json:"kind"` // "rot"
	M      uint32   `json:"m"`
	Ps     []uint32 `json:"ps"`
	Roles  []uint32 `json:"roles"`  // PtRole of each peer (1 = Slave)
	Online []uint32 `json:"online"` // pt ids that are Online
	NewM   uint32   `json:"newm"`
	GetNew RG       `json:"getnew"` // Data.GetNewRg
	Upd    RG       `json:"upd"`    // replica group after Data.UpdateReplication with GetNewRg's answer
	GenP   []uint32 `json:"genp"`   // ReplicaGroup.GenerateNewPeer
	Elect  RG       `json:"elect"`  // electRgMaster
	Valid  bool     `json:"valid"`  // well-formed group (master not a peer, peers distinct)
	Oracle []string `json:"oracle"`
}

func ids(ps []meta2.Peer) []uint32 {
	r := make([]uint32, len(ps))
	for i := range ps {
		r[i] = ps[i].ID
	}
	return r
}

func sameSet(a []uint32, b []uint32) bool {
	x := append([]uint32{}, a...)
	y := append([]uint32{}, b...)
	sort.Slice(x, func(i, j int) bool { return x[i] < x[j] })
	sort.Slice(y, func(i, j int) bool { return y[i] < y[j] })
	if len(x) != len(y) {
		return false
	}
	for i := range x {
		if x[i] != y[i] {
			return false
		}
	}
	return true
}

func contains(a []uint32, x uint32) bool {
	for _, y := range a {
		if y == x {
			return true
		}
	}
	return false
}

func genRot(r *gen.Rand) *RotCase {
	c := &RotCase{Kind: "rot"}
	n := []int{3, 3, 3, 5, 5, 7, 2, 1}[r.Intn(8)] // replicas
	universe := n + 2
	perm := make([]uint32, universe)
	for i := range perm {
		perm[i] = uint32(i)
	}
	for i := universe - 1; i > 0; i-- {
		j := r.Intn(i + 1)
		perm[i], perm[j] = perm[j], perm[i]
	}
	c.M = perm[0]
	c.Ps = append([]uint32{}, perm[1:n]...)
	c.Valid = true
	if r.Chance(1, 12) && len(c.Ps) > 1 { // malformed: duplicate peer
		c.Ps[len(c.Ps)-1] = c.Ps[0]
		c.Valid = false
	}
	if r.Chance(1, 20) && len(c.Ps) > 0 { // malformed: master among peers
		c.Ps[r.Intn(len(c.Ps))] = c.M
		c.Valid = false
	}
	for range c.Ps {
		role := uint32(1)
		if r.Chance(1, 8) {
			role = uint32(r.Intn(3))
		}
		c.Roles = append(c.Roles, role)
	}
	for i := 0; i < universe; i++ {
		if r.Chance(2, 3) {
			c.Online = append(c.Online, uint32(i))
		}
	}
	switch r.Intn(6) {
	case 0:
		c.NewM = c.M
	case 1:
		c.NewM = perm[universe-1] // not a member
	default:
		if len(c.Ps) > 0 {
			c.NewM = c.Ps[r.Intn(len(c.Ps))]
		} else {
			c.NewM = c.M
		}
	}
	return c
}

func runRot(c *RotCase) {
	mk := func() (*meta2.Data, *meta2.ReplicaGroup) {
		peers := make([]meta2.Peer, len(c.Ps))
		for i := range c.Ps {
			peers[i] = meta2.Peer{ID: c.Ps[i], PtRole: meta2.Role(c.Roles[i])}
		}
		d := &meta2.Data{ReplicaGroups: map[string][]meta2.ReplicaGroup{"db0": {
			*meta2.NewReplicaGroup(0, 100, nil, meta2.SubHealth, 0),
			*meta2.NewReplicaGroup(1, c.M, peers, meta2.SubHealth, 3)}}}
		return d, &d.ReplicaGroups["db0"][1]
	}
	d, rg := mk()
	m, ps, err := d.GetNewRg("db0", 1, c.NewM)
	c.GetNew = RG{OK: err == nil, M: m, Ps: ids(ps)}
	if err == nil {
		pp := make([]*proto2.Peer, len(ps))
		for i := range ps {
			id, role := ps[i].ID, uint32(ps[i].PtRole)
			pp[i] = &proto2.Peer{ID: &id, Role: &role}
		}
		old, err2 := d.UpdateReplication("db0", 1, m, pp)
		c.Upd = RG{OK: err2 == nil && old == c.M, M: rg.MasterPtID, Ps: ids(rg.Peers)}
	}
	_, rg = mk()
	c.GenP = ids(rg.GenerateNewPeer(c.NewM))
	_, rg = mk()
	maxID := uint32(0)
	for _, x := range append(append([]uint32{c.M, c.NewM}, c.Ps...), c.Online...) {
		if x > maxID {
			maxID = x
		}
	}
	ptInfos := make(meta2.DBPtInfos, maxID+1)
	for i := range ptInfos {
		ptInfos[i] = meta2.PtInfo{PtId: uint32(i), Status: meta2.Offline}
		if contains(c.Online, uint32(i)) {
			ptInfos[i].Status = meta2.Online
		}
	}
	em, eps, ok := metasvc.VerifElectRgMaster(rg, ptInfos, "db0")
	c.Elect = RG{OK: ok, M: em, Ps: ids(eps)}

	// DIRECT ORACLE (well-formed groups): a rotation keeps {master} u peers, has exactly one master, and the new
	// master is no longer a peer; UpdateReplication installs exactly that; every peer can be made master.
	if !c.Valid {
		return
	}
	old := append([]uint32{c.M}, c.Ps...)
	if c.GetNew.OK {
		if !sameSet(append([]uint32{c.GetNew.M}, c.GetNew.Ps...), old) || contains(c.GetNew.Ps, c.GetNew.M) || c.GetNew.M != c.NewM {
			c.Oracle = append(c.Oracle, "GetNewRg does not permute the group")
		}
		if !c.Upd.OK || c.Upd.M != c.GetNew.M || !sameSet(c.Upd.Ps, c.GetNew.Ps) || len(c.Upd.Ps) != len(c.GetNew.Ps) {
			c.Oracle = append(c.Oracle, "UpdateReplication does not install GetNewRg's group")
		}
	} else if contains(c.Ps, c.NewM) {
		c.Oracle = append(c.Oracle, "GetNewRg refuses a peer as new master")
	}
	if contains(c.Ps, c.NewM) {
		if !sameSet(append([]uint32{c.NewM}, c.GenP...), old) || contains(c.GenP, c.NewM) {
			c.Oracle = append(c.Oracle, "GenerateNewPeer does not permute the group")
		}
	}
	if c.Elect.OK {
		if !sameSet(append([]uint32{c.Elect.M}, c.Elect.Ps...), old) || contains(c.Elect.Ps, c.Elect.M) || !contains(c.Online, c.Elect.M) {
			c.Oracle = append(c.Oracle, "electRgMaster does not permute the group / elects an offline partition")
		}
	} else {
		for i, p := range c.Ps {
			if c.Roles[i] == 1 && contains(c.Online, p) {
				c.Oracle = append(c.Oracle, "electRgMaster finds no master although an online slave exists")
				break
			}
		}
	}
}

// ---------------------------------------------------------------- replica group creation (direct oracle only)

type CreateCase struct {
	Kind     string     `json:"kind"` // "rgcreate"
	Nodes    int        `json:"nodes"`
	PtPer    int        `json:"ptper"`
	ReplicaN int        `json:"replican"`
	Groups   [][]uint32 `json:"groups"` // per replica group: master first, then peers
	Status   []uint32   `json:"status"`
	Oracle   []string   `json:"oracle"`
}

func runCreate(r *gen.Rand) *CreateCase {
	c := &CreateCase{Kind: "rgcreate", ReplicaN: []int{3, 3, 5}[r.Intn(3)]}
	c.Nodes = c.ReplicaN * r.Range(1, 2)
	if r.Chance(1, 4) {
		c.Nodes += r.Range(1, c.ReplicaN-1) // leaves an UnFull group
	}
	c.PtPer = r.Range(1, 2)
	runCreateCase(c)
	return c
}

func runCreateCase(c *CreateCase) *CreateCase {
	c.Groups, c.Status, c.Oracle = nil, nil, nil
	d := &meta2.Data{PtView: map[string]meta2.DBPtInfos{}}
	for i := 0; i < c.Nodes; i++ {
		d.DataNodes = append(d.DataNodes, meta2.DataNode{NodeInfo: meta2.NodeInfo{ID: uint64(i + 2)}})
	}
	var pts meta2.DBPtInfos
	for p := 0; p < c.Nodes*c.PtPer; p++ {
		pts = append(pts, meta2.PtInfo{PtId: uint32(p), Owner: meta2.PtOwner{NodeID: uint64(p%c.Nodes + 2)}, Status: meta2.Online})
	}
	d.PtView["db0"] = pts
	meta2.SetRepDisPolicy(uint8(meta2.NodeHard))
	if err := d.CreateDBReplication("db0", uint32(c.ReplicaN)); err != nil {
		c.Oracle = append(c.Oracle, "CreateDBReplication: "+err.Error())
		return c
	}
	owner := map[uint32]uint64{}
	for _, p := range d.PtView["db0"] {
		owner[p.PtId] = p.Owner.NodeID
	}
	seen := map[uint32]int{}
	for gi, rg := range d.ReplicaGroups["db0"] {
		g := append([]uint32{rg.MasterPtID}, ids(rg.Peers)...)
		c.Groups = append(c.Groups, g)
		c.Status = append(c.Status, uint32(rg.Status))
		nodes := map[uint64]bool{}
		for _, p := range g {
			seen[p]++
			if nodes[owner[p]] {
				c.Oracle = append(c.Oracle, fmt.Sprintf("group %d has two members on one node", gi))
			}
			nodes[owner[p]] = true
			if d.PtView["db0"][p].RGID != rg.ID {
				c.Oracle = append(c.Oracle, fmt.Sprintf("pt %d RGID does not point to its group", p))
			}
		}
		if rg.Status != meta2.UnFull && len(g) != c.ReplicaN {
			c.Oracle = append(c.Oracle, fmt.Sprintf("full group %d has %d members, want %d", gi, len(g), c.ReplicaN))
		}
		if rg.Status == meta2.UnFull && len(g) >= c.ReplicaN {
			c.Oracle = append(c.Oracle, fmt.Sprintf("group %d with %d members is still UnFull", gi, len(g)))
		}
	}
	for p := 0; p < c.Nodes*c.PtPer; p++ {
		if seen[uint32(p)] != 1 {
			c.Oracle = append(c.Oracle, fmt.Sprintf("pt %d is in %d groups", p, seen[uint32(p)]))
		}
	}
	return c
}

// ---------------------------------------------------------------- DataWrapper codec

type DwCase struct {
	Kind   string `json:"kind"` // "dw" (round trip) or "dwbad" (arbitrary bytes)
	Type   uint32 `json:"type"`
	Ident  string `json:"ident"` // hex
	Pid    uint64 `json:"pid"`
	Data   string `json:"data"`  // hex
	Bytes  string `json:"bytes"` // hex: Marshal output (dw) / input (dwbad)
	OK     bool   `json:"ok"`    // Unmarshal succeeded (no error, no panic)
	UType  uint32 `json:"utype"`
	UIdent string `json:"uident"`
	UPid   uint64 `json:"upid"`
	UData  string `json:"udata"`
	Oracle []string `json:"oracle"`
}

func safeUnmarshal(b []byte) (dw *raftlog.DataWrapper, ok bool) {
	defer func() {
		if r := recover(); r != nil {
			dw, ok = nil, false
		}
	}()
	d, err := raftlog.Unmarshal(b)
	if err != nil {
		return nil, false
	}
	return d, true
}

func randBytes(r *gen.Rand, n int) []byte {
	b := make([]byte, n)
	for i := range b {
		b[i] = byte(r.Intn(256))
	}
	return b
}

func runDw(r *gen.Rand) *DwCase {
	c := &DwCase{Kind: "dw"}
	c.Type = []uint32{0, 0, 0, 1, 2, 3, 255, 256, 1 << 31, 0xffffffff}[r.Intn(10)]
	il := []int{0, 1, 5, 5, 5, 8, 20, 254, 255}[r.Intn(9)]
	ident := randBytes(r, il)
	if r.Chance(2, 3) {
		ident = []byte("db" + strconv.Itoa(r.Intn(100)) + "_" + strconv.Itoa(r.Intn(9)))
	}
	c.Pid = uint64(r.Int64Boundary())
	data := randBytes(r, []int{0, 0, 1, 7, 8, 9, 30, 100}[r.Intn(8)])
	c.Ident, c.Data = hex.EncodeToString(ident), hex.EncodeToString(data)
	return runDwCase(c)
}

func runDwCase(c *DwCase) *DwCase {
	c.Oracle = nil
	ident, _ := hex.DecodeString(c.Ident)
	data, _ := hex.DecodeString(c.Data)
	dw := &raftlog.DataWrapper{DataType: raftlog.DataType(c.Type), Identity: string(ident), ProposeId: c.Pid, Data: data}
	bs := dw.Marshal()
	c.Ident, c.Data, c.Bytes = hex.EncodeToString(ident), hex.EncodeToString(data), hex.EncodeToString(bs)
	u, ok := safeUnmarshal(bs)
	c.OK = ok
	if ok {
		c.UType, c.UIdent, c.UPid, c.UData = uint32(u.DataType), hex.EncodeToString([]byte(u.Identity)), u.ProposeId, hex.EncodeToString(u.Data)
	}
	// DIRECT ORACLE: what is proposed is what is applied
	if !ok || c.UType != c.Type || c.UIdent != c.Ident || c.UPid != c.Pid || c.UData != c.Data {
		c.Oracle = append(c.Oracle, "DataWrapper does not round-trip")
	}
	return c
}

func runDwBad(r *gen.Rand) *DwCase {
	c := &DwCase{Kind: "dwbad"}
	var bs []byte
	switch r.Intn(3) {
	case 0:
		bs = randBytes(r, r.Intn(16))
	case 1: // truncated valid message
		dw := &raftlog.DataWrapper{DataType: 0, Identity: "db0_1", ProposeId: 7, Data: randBytes(r, r.Intn(4))}
		m := dw.Marshal()
		bs = m[:r.Intn(len(m)+1)]
	default:
		bs = randBytes(r, 5+r.Intn(40))
		bs[4] = byte([]int{0, 1, 3, 10, 40, 200, 255}[r.Intn(7)])
	}
	c.Bytes = hex.EncodeToString(bs)
	return runDwBadCase(c)
}

func runDwBadCase(c *DwCase) *DwCase {
	bs, _ := hex.DecodeString(c.Bytes)
	u, ok := safeUnmarshal(bs)
	c.OK = ok
	c.UType, c.UIdent, c.UPid, c.UData = 0, "", 0, ""
	if ok {
		c.UType, c.UIdent, c.UPid, c.UData = uint32(u.DataType), hex.EncodeToString([]byte(u.Identity)), u.ProposeId, hex.EncodeToString(u.Data)
	}
	return c
}

// runOne re-runs exactly one recorded case (its inputs) on the implementation
func runOne(work, path string) {
	raw, err := os.ReadFile(path)
	if err != nil {
		panic(err)
	}
	var probe struct {
		Kind string          `json:"kind"`
		Case json.RawMessage `json:"case"`
	}
	_ = json.Unmarshal(raw, &probe)
	if probe.Kind == "" || len(probe.Case) > 0 { // a replay file: the case is under "case"
		if len(probe.Case) > 0 {
			raw = probe.Case
			_ = json.Unmarshal(raw, &probe)
		}
	}
	switch probe.Kind {
	case "rot":
		c := &RotCase{}
		_ = json.Unmarshal(raw, c)
		c.Oracle = nil
		runRot(c)
		gen.Emit(c)
	case "rgcreate":
		c := &CreateCase{}
		_ = json.Unmarshal(raw, c)
		gen.Emit(runCreateCase(c))
	case "dw":
		c := &DwCase{}
		_ = json.Unmarshal(raw, c)
		gen.Emit(runDwCase(c))
	case "dwbad":
		c := &DwCase{}
		_ = json.Unmarshal(raw, c)
		gen.Emit(runDwBadCase(c))
	case "replay":
		c := &ReplayCase{}
		_ = json.Unmarshal(raw, c)
		c.Replayed, c.Oracle, c.Err = nil, nil, ""
		runReplayCase(work, 0, c)
		gen.Emit(c)
	case "ack", "ackerr":
		c := &AckCase{}
		_ = json.Unmarshal(raw, c)
		c.Events, c.Acked, c.Final, c.Oracle, c.OracleSig, c.ErrAcked, c.PidReuse = nil, nil, nil, nil, nil, false, false
		runAckCase(work, c)
		gen.Emit(c)
	case "conflict":
		c := &ConflictCase{}
		_ = json.Unmarshal(raw, c)
		c.Applied, c.Terms, c.Oracle = nil, nil, nil
		runConflict(work, 0, c)
		gen.Emit(c)
	case "persist":
		c := &PersistCase{}
		_ = json.Unmarshal(raw, c)
		runPersistCase(work, c)
		gen.Emit(c)
	case "batch":
		c := &BatchCase{}
		_ = json.Unmarshal(raw, c)
		gen.Emit(runBatch(c))
	case "coord":
		c := &CoordCase{}
		_ = json.Unmarshal(raw, c)
		gen.Emit(runCoord(c))
	case "readsel":
		c := &ReadSelCase{}
		_ = json.Unmarshal(raw, c)
		gen.Emit(runReadSel(c))
	case "send":
		c := &SendCase{}
		_ = json.Unmarshal(raw, c)
		runSendCase(work, c)
		gen.Emit(c)
	case "trunc":
		c := &TruncCase{}
		_ = json.Unmarshal(raw, c)
		w, err := newTruncWorld(work, c.Last)
		if err != nil {
			panic(err)
		}
		defer w.close()
		runTruncCase(w, c)
		gen.Emit(c)
	case "group":
		c := &GroupCase{}
		_ = json.Unmarshal(raw, c)
		c.Oracle, c.Note, c.Missing = nil, nil, 0
		runGroupCase(work, c)
		gen.Emit(c)
	default:
		fmt.Println("unknown case kind", probe.Kind)
		os.Exit(2)
	}
}

// emitTrunc: the truncation-decision sequences (corpus first) on one shared three-file store
func emitTrunc(work string, r *gen.Rand, n int) {
	w, err := newTruncWorld(work, 2*entryFileSize+100)
	if err != nil {
		gen.Emit(&TruncCase{Kind: "trunc", Err: "store: " + err.Error()})
		return
	}
	defer w.close()
	for _, c := range corpusTrunc() {
		runTruncCase(w, c)
		gen.Emit(c)
	}
	for i := 0; i < n; i++ {
		c := genTrunc(r.Fork(), w)
		runTruncCase(w, c)
		gen.Emit(c)
	}
}

// ---------------------------------------------------------------- main

func main() {
	logger.SetLogger(zap.NewNop())
	meta2.DataLogger = zap.NewNop()
	devnull, _ := os.OpenFile(os.DevNull, os.O_WRONLY, 0)
	if devnull != nil && os.Getenv("C05_STDERR") == "" {
		os.Stderr = devnull // etcd/raft's logger writes to stderr
	}
	work := os.Getenv("VERIF_WORK")
	if work == "" {
		work = "/verif/work/c05-manual"
	}
	_ = os.MkdirAll(work, 0755)
	if len(os.Args) >= 3 && os.Args[1] == "one" {
		runOne(work, os.Args[2])
		return
	}
	if len(os.Args) >= 3 && os.Args[1] == "group" {
		n, _ := strconv.Atoi(os.Args[2])
		forced := "time"
		if len(os.Args) > 3 {
			forced = os.Args[3]
		}
		c := &GroupCase{Kind: "group", Entries: n, Forced: forced}
		runGroupCase(work, c)
		gen.Emit(c)
		return
	}
	if len(os.Args) >= 3 && os.Args[1] == "persist" {
		n, _ := strconv.Atoi(os.Args[2])
		r := gen.FromEnv(57)
		for _, c := range corpusPersist() {
			runPersistCase(work, c)
			gen.Emit(c)
		}
		for i := 0; i < n; i++ {
			c := genPersist(r.Fork())
			runPersistCase(work, c)
			gen.Emit(c)
		}
		return
	}
	if len(os.Args) >= 3 && os.Args[1] == "send" {
		n, _ := strconv.Atoi(os.Args[2])
		r := gen.FromEnv(56)
		for i := 0; i < n; i++ {
			c := genSend(r.Fork(), i)
			runSendCase(work, c)
			gen.Emit(c)
		}
		return
	}
	if len(os.Args) >= 3 && os.Args[1] == "trunc" {
		n, _ := strconv.Atoi(os.Args[2])
		emitTrunc(work, gen.FromEnv(55), n)
		return
	}
	if len(os.Args) < 3 || os.Args[1] != "cases" {
		fmt.Println("usage: c05 cases <n>")
		os.Exit(2)
	}
	n, _ := strconv.Atoi(os.Args[2])
	r := gen.FromEnv(5)

	// corpus first: the witnesses of the known findings
	for i, c := range corpusReplay() {
		runReplayCase(work, 100000+i, c)
		gen.Emit(c)
	}
	for _, a := range corpusAck() {
		runAckCase(work, a)
		gen.Emit(a)
	}
	gen.Emit(runStopped(work))
	for _, c := range corpusCoord() {
		gen.Emit(runCoord(c))
	}
	for i := 0; i < n/25+1; i++ {
		gen.Emit(runCoord(genCoord(r.Fork())))
	}
	for _, c := range corpusBatch() {
		gen.Emit(runBatch(c))
	}
	for i := 0; i < n/25+1; i++ {
		gen.Emit(runBatch(genBatch(r.Fork())))
	}
	emitTrunc(work, r.Fork(), n/4+1)
	for i := 0; i < n/8+1; i++ {
		gen.Emit(runReadSel(genReadSel(r.Fork())))
	}
	for i := 0; i < 3+n/400; i++ {
		c := genSend(r.Fork(), i)
		runSendCase(work, c)
		gen.Emit(c)
	}
	for i, c := range corpusConflict() {
		runConflict(work, 200000+i, c)
		gen.Emit(c)
	}
	for i := 0; i < n/8+1; i++ {
		c := genConflict(r.Fork())
		runConflict(work, i, c)
		gen.Emit(c)
	}
	for i := 0; i < n; i++ {
		c := genRot(r)
		runRot(c)
		gen.Emit(c)
	}
	for i := 0; i < n/4+1; i++ {
		gen.Emit(runCreate(r))
	}
	for i := 0; i < n; i++ {
		if i%3 == 2 {
			gen.Emit(runDwBad(r))
		} else {
			gen.Emit(runDw(r))
		}
	}
	nr := n / 10
	for i := 0; i < nr; i++ {
		c := genReplay(r, i < nr/5+1)
		runReplayCase(work, i, c)
		gen.Emit(c)
	}
	na := n / 20
	for i := 0; i < na; i++ {
		a := genAck(r)
		runAckCase(work, a)
		gen.Emit(a)
	}
}
