// The commit/apply/ack path of engine/partition_raft.go + engine.WriteToRaft + raftconn.RaftNode (committedDataC,
// PublishEntries, GenerateProposeId) driven in-process: the harness plays etcd/raft (takes proposals from proposeC,
// orders them in a log, "commits" prefixes by calling PublishEntries) and the shard (recStorage).
package main

import (
	"encoding/binary"
	"fmt"
	"path/filepath"
	"time"

	"github.com/VictoriaMetrics/VictoriaMetrics/lib/encoding"
	"github.com/openGemini/openGemini/engine"
	"github.com/openGemini/openGemini/lib/config"
	"github.com/openGemini/openGemini/lib/logger"
	"github.com/openGemini/openGemini/lib/raftconn"
	"github.com/openGemini/openGemini/lib/raftlog"
	"github.com/openGemini/openGemini/lib/util/lifted/vm/protoparser/influx"
	"go.etcd.io/etcd/raft/v3"
	"go.etcd.io/etcd/raft/v3/raftpb"
)

type AckOp struct {
	Op   string     `json:"op"` // w: local write, f: foreign entry, c: commit up to K, r: restart, e: local write whose apply fails
	B    [][2]int64 `json:"b,omitempty"`
	K    int        `json:"k,omitempty"`
	Gate bool       `json:"gate,omitempty"` // commit with the apply gated: no ack may arrive while the apply is held
}

type AckCase struct {
	Kind     string          `json:"kind"` // "ack" | "ackerr"
	Ops      []AckOp         `json:"ops"`
	Events   [][]interface{} `json:"events"`   // the model events of this scenario
	Acked    [][][2]int64    `json:"acked"`    // batches whose WriteToRaft returned nil
	ErrAcked bool            `json:"erracked"` // ackerr: the write whose apply failed was acknowledged
	PidReuse bool            `json:"pidreuse"` // a propose id of an earlier incarnation was handed out again
	Final    [][2]int64      `json:"final"`    // shard contents at the end (sorted by key)
	Oracle   []string        `json:"oracle"`
	OracleSig []string       `json:"oraclesig"` // per oracle failure: which known signature it falls under ("" = none)
}

func tailOf(b [][2]int64) []byte {
	rows := make([]influx.Row, len(b))
	for i, kv := range b {
		rows[i].Name = "m_0000"
		rows[i].Tags = influx.PointTags{{Key: "t", Value: "a"}}
		rows[i].Fields = influx.Fields{{Key: "v", NumValue: float64(kv[1]), Type: influx.Field_Type_Int}}
		rows[i].Timestamp = kv[0]
		rows[i].UnmarshalIndexKeys(nil)
	}
	var buf []byte
	buf = encoding.MarshalUint64(buf, 7) // master shard id
	buf = encoding.MarshalUint32(buf, 0) // no stream shard ids
	buf, err := influx.FastMarshalMultiRows(buf, rows)
	if err != nil {
		panic(err)
	}
	return buf
}

type writer struct {
	b     [][2]int64
	pid   uint64
	inc   int
	index int // log index (1-based) of its entry
	done  chan error
	res   *error
}

type logEnt struct {
	data  []byte
	local bool
	w     *writer
}

type ackWorld struct {
	dir     string
	store   *raftlog.RaftDiskStorage
	node    *raftconn.RaftNode
	eng     *engine.EngineImpl
	st      *recStorage
	mc      *fakeMeta
	log     []logEnt
	commit  int
	inc     int
	ws      []*writer
	fpid    uint64
	seenPid map[uint64]int // pid -> incarnation that used it first
}

func (w *ackWorld) start() {
	peers := []raft.Peer{{ID: 1}, {ID: 2}, {ID: 3}}
	w.node = raftconn.StartNode(w.store, 1, "db0", 1, peers, w.mc, map[uint32]uint64{0: 1, 1: 2, 2: 3})
	w.node.WithLogger(logger.NewLogger(0))
	w.eng = engine.VerifNewRaftEngine("db0", 0, w.node)
	go engine.VerifReadCommitFromRaft(w.node, w.mc, w.st)
}

func (w *ackWorld) poll() {
	for _, x := range w.ws {
		if x.res != nil {
			continue
		}
		select {
		case err := <-x.done:
			e := err
			x.res = &e
		default:
		}
	}
}

func batchApplied(st *recStorage, b [][2]int64) bool {
	st.mu.Lock()
	defer st.mu.Unlock()
	for _, a := range st.applied {
		if len(a.Keys) != len(b) {
			continue
		}
		ok := true
		for i := range b {
			if a.Keys[i] != b[i][0] || a.Vals[i] != b[i][1] {
				ok = false
				break
			}
		}
		if ok {
			return true
		}
	}
	return false
}

func runAckCase(work string, c *AckCase) {
	defer func() {
		if r := recover(); r != nil {
			c.Oracle = append(c.Oracle, fmt.Sprintf("harness panic: %v", r))
			c.OracleSig = append(c.OracleSig, "")
		}
	}()
	config.WaitCommitTimeout = 600 * time.Millisecond
	dir := filepath.Join(work, fmt.Sprintf("ack-%d", time.Now().UnixNano()))
	store, err := raftlog.Init(dir, 0)
	if err != nil {
		panic(err)
	}
	defer store.Close()
	w := &ackWorld{dir: dir, store: store, st: &recStorage{}, mc: &fakeMeta{}, seenPid: map[uint64]int{}}
	w.start()
	ev := func(xs ...interface{}) { c.Events = append(c.Events, xs) }
	ev("E", 0)
	fail := func(sig, msg string) {
		c.Oracle = append(c.Oracle, msg)
		c.OracleSig = append(c.OracleSig, sig)
	}
	checkAcks := func() {
		w.poll()
		for _, x := range w.ws {
			if x.res != nil && *x.res == nil && x.index >= 0 {
				// DIRECT ORACLE: acknowledged => this writer's own rows have been applied to the local shard
				if !batchApplied(w.st, x.b) {
					sig := ""
					if first, ok := w.seenPid[x.pid]; ok && first < x.inc {
						sig = "C05-proposeid-reuse"
					}
					fail(sig, fmt.Sprintf("write %v (propose id %d, incarnation %d) acknowledged but its rows were never applied locally", x.b, x.pid, x.inc))
				}
				x.index = -1 // reported
			}
		}
	}
	for _, op := range c.Ops {
		switch op.Op {
		case "w", "e":
			x := &writer{b: op.B, inc: w.inc, done: make(chan error, 1)}
			eng := w.eng
			tail := tailOf(op.B)
			go func() { x.done <- eng.WriteToRaft("db0", "autogen", 0, tail) }()
			select {
			case p := <-w.node.GetProposeC():
				dw, _ := raftlog.Unmarshal(p)
				x.pid = dw.ProposeId
				if first, ok := w.seenPid[x.pid]; ok && first < w.inc {
					c.PidReuse = true
				} else if !ok {
					w.seenPid[x.pid] = w.inc
				}
				w.log = append(w.log, logEnt{data: p, local: true, w: x})
				x.index = len(w.log)
			case <-time.After(2 * time.Second):
				fail("", "WriteToRaft did not propose within 2s")
				return
			}
			w.ws = append(w.ws, x)
			ev("P", 0, op.B)
			if op.Op == "e" {
				// the apply of this entry fails on the local shard
				w.st.failAll = true
				w.node.PublishEntries([]raftpb.Entry{{Index: uint64(x.index), Term: 1, Type: raftpb.EntryNormal, Data: w.log[x.index-1].data}})
				select {
				case err := <-x.done:
					c.ErrAcked = err == nil
					e := err
					x.res = &e
					x.index = -1
				case <-time.After(2 * time.Second):
					fail("", "no answer for the write whose apply failed")
				}
				w.st.failAll = false
				w.commit = len(w.log)
			}
		case "f":
			w.fpid++
			dw := &raftlog.DataWrapper{DataType: raftlog.Normal, Identity: "db0_1", ProposeId: w.fpid, Data: tailOf(op.B)}
			w.log = append(w.log, logEnt{data: dw.Marshal()})
			ev("P", 1, op.B)
		case "c":
			k := op.K
			if k > len(w.log) {
				k = len(w.log)
			}
			if k <= w.commit {
				continue
			}
			var ents []raftpb.Entry
			for i := w.commit; i < k; i++ {
				ents = append(ents, raftpb.Entry{Index: uint64(i + 1), Term: 1, Type: raftpb.EntryNormal, Data: w.log[i].data})
			}
			_, before := w.st.snapshot()
			if op.Gate {
				w.st.gate = make(chan struct{})
				w.st.entered = make(chan struct{}, len(ents))
			}
			w.node.PublishEntries(ents)
			if op.Gate {
				for i := w.commit; i < k; i++ {
					select {
					case <-w.st.entered:
					case <-time.After(2 * time.Second):
						fail("", "apply did not start")
						return
					}
					time.Sleep(25 * time.Millisecond)
					w.poll()
					if x := w.log[i].w; x != nil && x.inc == w.inc && x.res != nil && *x.res == nil {
						// DIRECT ORACLE: no acknowledgement while the local apply of the entry is still running
						sig := ""
						if first, ok := w.seenPid[x.pid]; ok && first < x.inc {
							sig = "C05-proposeid-reuse" // acknowledged by the entry of an earlier incarnation with the same id
						}
						fail(sig, fmt.Sprintf("write %v acknowledged before its local apply completed", x.b))
						x.index = -1
					}
					// DIRECT ORACLE: the snapshot-index candidate never runs ahead of the entries applied to the shard
					if ci := w.node.SnapShotter.CommittedIndex; ci > uint64(i) {
						fail("", fmt.Sprintf("SnapShotter.CommittedIndex=%d while only %d entries are applied", ci, i))
					}
					w.st.gate <- struct{}{}
				}
			}
			deadline := time.Now().Add(3 * time.Second)
			for {
				_, now := w.st.snapshot()
				if now-before >= k-w.commit || time.Now().After(deadline) {
					if now-before < k-w.commit {
						fail("", "committed entries were not applied within 3s")
					}
					break
				}
				time.Sleep(time.Millisecond)
			}
			w.st.gate, w.st.entered = nil, nil
			w.commit = k
			ev("RR", 1, k)
			ev("RC", k)
			ev("RL", 0, k)
			ev("A", 0, len(ents))
			time.Sleep(15 * time.Millisecond)
			checkAcks()
		case "r":
			w.node.Stop()
			w.inc++
			w.start()
			ev("K", 0)
			ev("R", 0)
			ev("E", 0)
		}
	}
	// let the remaining writers run into WaitCommitTimeout
	deadline := time.Now().Add(config.WaitCommitTimeout + 500*time.Millisecond)
	for time.Now().Before(deadline) {
		w.poll()
		all := true
		for _, x := range w.ws {
			if x.res == nil {
				all = false
			}
		}
		if all {
			break
		}
		time.Sleep(10 * time.Millisecond)
	}
	checkAcks()
	w.node.Stop()
	for _, x := range w.ws {
		if x.res != nil && *x.res == nil {
			c.Acked = append(c.Acked, x.b)
		}
	}
	m, _ := w.st.snapshot()
	for k, v := range m {
		c.Final = append(c.Final, [2]int64{k, v})
	}
	sortPairs(c.Final)
	_ = binary.BigEndian
}

func sortPairs(p [][2]int64) {
	for i := 1; i < len(p); i++ {
		for j := i; j > 0 && p[j][0] < p[j-1][0]; j-- {
			p[j], p[j-1] = p[j-1], p[j]
		}
	}
}

// witnesses of the known findings
func corpusAck() []*AckCase {
	return []*AckCase{
		{Kind: "ack", Ops: []AckOp{{Op: "w", B: [][2]int64{{1, 10}}}, {Op: "r"}, {Op: "w", B: [][2]int64{{1, 99}}}, {Op: "c", K: 1}}},
		{Kind: "ackerr", Ops: []AckOp{{Op: "e", B: [][2]int64{{5, 50}}}}},
		{Kind: "ack", Ops: []AckOp{{Op: "w", B: [][2]int64{{1, 10}, {2, 20}}}, {Op: "c", K: 1, Gate: true}, {Op: "w", B: [][2]int64{{1, 11}}}, {Op: "f", B: [][2]int64{{2, 21}}}, {Op: "c", K: 3}}},
	}
}

type prng interface {
	Intn(int) int
	Range(int, int) int
	Chance(int, int) bool
}

func genAck(r prng) *AckCase {
	if r.Chance(1, 8) {
		return &AckCase{Kind: "ackerr", Ops: []AckOp{{Op: "e", B: [][2]int64{{int64(r.Range(1, 9)), int64(r.Range(1, 999))}}}}}
	}
	c := &AckCase{Kind: "ack"}
	n := r.Range(3, 9)
	logLen, val := 0, int64(100)
	for i := 0; i < n; i++ {
		mk := func() [][2]int64 {
			var b [][2]int64
			for k := r.Range(1, 3); k > 0; k-- {
				val++
				b = append(b, [2]int64{int64(r.Range(1, 4)), val}) // few keys: overwrites are frequent
			}
			return b
		}
		switch x := r.Intn(10); {
		case x < 4:
			c.Ops = append(c.Ops, AckOp{Op: "w", B: mk()})
			logLen++
		case x < 6:
			c.Ops = append(c.Ops, AckOp{Op: "f", B: mk()})
			logLen++
		case x < 9:
			if logLen > 0 {
				c.Ops = append(c.Ops, AckOp{Op: "c", K: r.Range(1, logLen), Gate: r.Chance(1, 3)})
			}
		default:
			c.Ops = append(c.Ops, AckOp{Op: "r"})
		}
	}
	if r.Chance(2, 3) && logLen > 0 {
		c.Ops = append(c.Ops, AckOp{Op: "c", K: logLen})
	}
	return c
}
