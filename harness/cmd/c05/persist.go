// Raft's persistence-before-send rule under the REAL RaftNode.serveChannels: what a member acknowledges to its leader
// (MsgAppResp) or grants to a candidate (MsgVoteResp) must be in its storage directory when the message leaves the node -
// the leader counts the answer towards the quorum and acknowledges the client; the member may be killed right after.
// (A leader may send its own MsgApp in parallel with its disk write; a follower may not.)
// A real etcd raft node runs under the real serveChannels on a real RaftDiskStorage; the harness plays the other two
// members and the transport (the node's exported Messages channel, unbuffered: the node blocks at every hand-off), and
// a gate in the recording VFS (internal/crashfs) holds back every write below the storage directory while the harness
// waits for a message: a message that arrives while the gate is closed left the node BEFORE anything of its Ready
// was written. Sequences: the node may become leader first, loses the leadership to member 2 at a higher term, receives
// appends, is asked for its vote at a still higher term.
package main

import (
	"context"
	"fmt"
	"os"
	"path/filepath"
	"sync"
	"time"

	"github.com/openGemini/openGemini/lib/logger"
	"github.com/openGemini/openGemini/lib/raftconn"
	"github.com/openGemini/openGemini/lib/raftlog"
	"go.etcd.io/etcd/raft/v3"
	"go.etcd.io/etcd/raft/v3/raftpb"
	"verifharness/internal/crashfs"
)

type PersistStep struct {
	Op      string `json:"op"` // lead | propose | app | vote
	N       int    `json:"n,omitempty"` // app: number of entries
	// observed for app / vote
	Msg     string `json:"msg,omitempty"`     // the answer: "appresp" | "voteresp" | ""
	Index   uint64 `json:"index,omitempty"`   // acknowledged index
	Term    uint64 `json:"term,omitempty"`    // term of the answer
	Gated   bool   `json:"gated,omitempty"`   // the answer left the node while every storage write was held back
	LastAt  uint64 `json:"lastAt,omitempty"`  // last index in the storage directory at the hand-off
	TermAt  uint64 `json:"termAt,omitempty"`  // durable HardState.Term at the hand-off
	VoteAt  uint64 `json:"voteAt,omitempty"`  // durable HardState.Vote at the hand-off
}

type PersistCase struct {
	Kind   string        `json:"kind"` // "persist"
	Steps  []PersistStep `json:"steps"`
	Err    string        `json:"err,omitempty"`
	Oracle []string      `json:"oracle"`
}

type wgate struct {
	mu     sync.Mutex
	closed bool
	cv     *sync.Cond
}

func (g *wgate) set(closed bool) {
	g.mu.Lock()
	g.closed = closed
	g.mu.Unlock()
	g.cv.Broadcast()
}

func (g *wgate) wait() {
	g.mu.Lock()
	for g.closed {
		g.cv.Wait()
	}
	g.mu.Unlock()
}

var persistRec *crashfs.Recorder

func runPersistCase(work string, c *PersistCase) {
	defer func() {
		if r := recover(); r != nil {
			c.Err = fmt.Sprintf("panic: %v", r)
		}
	}()
	c.Oracle, c.Err = nil, ""
	dir := filepath.Join(work, fmt.Sprintf("persist-%d-%d", os.Getpid(), time.Now().UnixNano()))
	_ = os.MkdirAll(dir, 0750)
	defer os.RemoveAll(dir)
	if persistRec == nil {
		persistRec = crashfs.Install()
	}
	gate := &wgate{}
	gate.cv = sync.NewCond(&gate.mu)
	persistRec.Start(dir, func(ev *crashfs.Event) { gate.wait() }, nil)
	defer func() { gate.set(false); persistRec.Stop() }()

	store, err := raftlog.Init(dir, 0)
	if err != nil {
		c.Err = "init: " + err.Error()
		return
	}
	peers := []raft.Peer{{ID: 1}, {ID: 2}, {ID: 3}}
	node := raftconn.StartNode(store, 1, "db0", 1, peers, &fakeMeta{}, map[uint32]uint64{0: 1, 1: 2, 2: 3})
	node.WithLogger(logger.NewLogger(0))
	out := make(chan *raftpb.Message) // unbuffered: the node blocks at every hand-off until the harness takes the message
	node.Messages = out
	rn := raft.StartNode(node.Cfg, node.RaftPeers)
	node.VerifSetRaftNode(rn)
	go func() { // the engine side: committed entries are taken and dropped
		for range node.GetCommitC() {
		}
	}()
	node.VerifServeChannels()
	defer func() {
		gate.set(false)
		stop := make(chan struct{})
		go func() {
			for {
				select {
				case <-out:
				case <-stop:
					return
				}
			}
		}()
		node.Stop()
		time.Sleep(100 * time.Millisecond)
		close(stop)
		_ = store.Close()
	}()
	ctx := context.Background()

	// next message that leaves the node; gated = it left while every storage write was held back
	next := func(limit time.Duration) (*raftpb.Message, bool) {
		end := time.Now().Add(limit)
		for time.Now().Before(end) {
			gate.set(true)
			select {
			case m := <-out:
				return m, true // the gate is still closed: nothing was written since the hand-off
			case <-time.After(60 * time.Millisecond):
			}
			gate.set(false)
			select {
			case m := <-out:
				gate.set(true)
				return m, false
			case <-time.After(60 * time.Millisecond):
			}
		}
		return nil, false
	}
	waitMsg := func(typ raftpb.MessageType, to uint64, pred func(*raftpb.Message) bool) (*raftpb.Message, bool) {
		for i := 0; i < 200; i++ {
			m, g := next(5 * time.Second)
			if m == nil {
				return nil, false
			}
			if m.Type == typ && m.To == to && (pred == nil || pred(m)) {
				return m, g
			}
		}
		return nil, false
	}
	// bootstrap (the three conf changes)
	drainUntilQuiet := func() {
		for {
			gate.set(false)
			select {
			case <-out:
			case <-time.After(150 * time.Millisecond):
				return
			}
		}
	}
	drainUntilQuiet()
	term := uint64(1)      // the group's current term as the harness plays it
	last := uint64(3)      // last index of the common log (three conf changes)
	lastTerm := uint64(1)
	for i := range c.Steps {
		st := &c.Steps[i]
		switch st.Op {
		case "lead": // the node wins an election: it is the leader for a while
			if err := rn.Campaign(ctx); err != nil {
				c.Err = "campaign: " + err.Error()
				return
			}
			v, _ := waitMsg(raftpb.MsgVote, 2, nil)
			if v == nil {
				c.Err = "no vote request"
				return
			}
			term = v.Term
			_ = rn.Step(ctx, raftpb.Message{Type: raftpb.MsgVoteResp, From: 2, To: 1, Term: term})
			a, _ := waitMsg(raftpb.MsgApp, 2, nil)
			if a == nil || rn.Status().RaftState != raft.StateLeader {
				c.Err = "did not become leader"
				return
			}
			// the no-op of its term is replicated and committed
			for _, e := range a.Entries {
				last, lastTerm = e.Index, e.Term
			}
			_ = rn.Step(ctx, raftpb.Message{Type: raftpb.MsgAppResp, From: 2, To: 1, Term: term, Index: last})
			drainUntilQuiet()
		case "propose": // a write while it leads, replicated to member 2
			if rn.Status().RaftState != raft.StateLeader {
				continue
			}
			_ = rn.Propose(ctx, payload(uint64(1000+i)))
			a, _ := waitMsg(raftpb.MsgApp, 2, func(m *raftpb.Message) bool { return len(m.Entries) > 0 })
			if a != nil {
				for _, e := range a.Entries {
					last, lastTerm = e.Index, e.Term
				}
				_ = rn.Step(ctx, raftpb.Message{Type: raftpb.MsgAppResp, From: 2, To: 1, Term: term, Index: last})
			}
			drainUntilQuiet()
		case "app": // member 2 leads a new term and replicates st.N entries to the node
			term++
			var ents []raftpb.Entry
			for k := 0; k < st.N; k++ {
				ents = append(ents, raftpb.Entry{Index: last + 1 + uint64(k), Term: term, Type: raftpb.EntryNormal, Data: payload(last + 1 + uint64(k))})
			}
			want := last + uint64(st.N)
			_ = rn.Step(ctx, raftpb.Message{Type: raftpb.MsgApp, From: 2, To: 1, Term: term, Index: last, LogTerm: lastTerm, Commit: last, Entries: ents})
			m, g := waitMsg(raftpb.MsgAppResp, 2, func(m *raftpb.Message) bool { return !m.Reject && m.Index == want })
			if m == nil {
				c.Err = fmt.Sprintf("step %d: no answer to the append", i)
				return
			}
			var hs raftpb.HardState
			st.LastAt, hs, err = imageState(dir, gate)
			if err != nil {
				c.Err = fmt.Sprintf("step %d: image: %v", i, err)
				return
			}
			st.Msg, st.Index, st.Term, st.Gated, st.TermAt, st.VoteAt = "appresp", m.Index, m.Term, g, hs.Term, hs.Vote
			last, lastTerm = want, term
			// DIRECT ORACLE: an acknowledged append is in the storage directory when the acknowledgement leaves the node
			if st.LastAt < m.Index || hs.Term < m.Term {
				c.Oracle = append(c.Oracle, fmt.Sprintf("step %d: the member acknowledged index %d in term %d to the leader while its storage directory ends at index %d, durable term %d: killed now, it comes back without the entries the leader counted towards the quorum",
					i, m.Index, m.Term, st.LastAt, hs.Term))
			}
			drainUntilQuiet()
		case "vote": // member 3 asks for the node's vote at a higher term
			term++
			_ = rn.Step(ctx, raftpb.Message{Type: raftpb.MsgVote, From: 3, To: 1, Term: term, Index: last, LogTerm: lastTerm})
			m, g := waitMsg(raftpb.MsgVoteResp, 3, nil)
			if m == nil {
				c.Err = fmt.Sprintf("step %d: no answer to the vote request", i)
				return
			}
			var hs raftpb.HardState
			st.LastAt, hs, err = imageState(dir, gate)
			if err != nil {
				c.Err = fmt.Sprintf("step %d: image: %v", i, err)
				return
			}
			st.Msg, st.Term, st.Gated, st.TermAt, st.VoteAt = "voteresp", m.Term, g, hs.Term, hs.Vote
			// DIRECT ORACLE: a granted vote (and its term) is durable when it leaves the node - else the member can vote twice
			if !m.Reject && (hs.Term < m.Term || hs.Vote != 3) {
				c.Oracle = append(c.Oracle, fmt.Sprintf("step %d: the member granted its vote to 3 in term %d while its durable state is term %d, vote %d: killed now, it can vote again in that term",
					i, m.Term, hs.Term, hs.Vote))
			}
			// member 3 now leads the term
			drainUntilQuiet()
		}
	}
}

// imageState: what a SIGKILL at this instant leaves - a copy of the storage directory (file level, no lock of the
// running store is taken: the node may be blocked inside Save), reopened as a restart would
func imageState(dir string, gate *wgate) (uint64, raftpb.HardState, error) {
	img := dir + fmt.Sprintf("-img-%d", time.Now().UnixNano())
	defer os.RemoveAll(img)
	err := crashfs.CopyTree(dir, img) // while the gate is as it was at the hand-off
	gate.set(false)                   // the recorder serialises every file operation: reopen the image with the gate open
	if err != nil {
		return 0, raftpb.HardState{}, err
	}
	st, err := raftlog.Init(img, 0)
	if err != nil {
		return 0, raftpb.HardState{}, err
	}
	defer st.Close()
	_, last := st.GetFirstLast()
	hs, err := st.HardState()
	return last, hs, err
}

func genPersist(r prng) *PersistCase {
	c := &PersistCase{Kind: "persist"}
	if r.Chance(3, 4) {
		c.Steps = append(c.Steps, PersistStep{Op: "lead"})
		for k := r.Intn(3); k > 0; k-- {
			c.Steps = append(c.Steps, PersistStep{Op: "propose"})
		}
	}
	for k := r.Range(1, 3); k > 0; k-- {
		if r.Chance(1, 4) {
			c.Steps = append(c.Steps, PersistStep{Op: "vote"})
		} else {
			c.Steps = append(c.Steps, PersistStep{Op: "app", N: r.Range(1, 4)})
		}
	}
	return c
}

func corpusPersist() []*PersistCase {
	return []*PersistCase{
		{Kind: "persist", Steps: []PersistStep{{Op: "lead"}, {Op: "app", N: 1}}},                                  // was leader, then follower
		{Kind: "persist", Steps: []PersistStep{{Op: "app", N: 2}, {Op: "vote"}}},                                  // never leader
		{Kind: "persist", Steps: []PersistStep{{Op: "lead"}, {Op: "propose"}, {Op: "vote"}, {Op: "app", N: 3}}}, // vote after leading
	}
}
