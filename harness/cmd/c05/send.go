// The leader's choice "append entries vs snapshot" for a follower, on the REAL RaftDiskStorage with an entry log that
// spans three entry files, through etcd/raft itself (raft.RawNode with the store as its Storage): the node is made
// leader, the follower answers the first append with a rejection that says where its log ends (index k), and what the
// leader sends next - MsgApp with prev index k, or MsgSnap (RaftDiskStorage snapshots carry no shard data) - is
// observed. Besides: RaftDiskStorage.SlotGe / Term on indexes around the file boundaries against the model's lookup.
package main

import (
	"errors"
	"fmt"
	"io"
	"log"
	"os"
	"path/filepath"
	"time"

	"github.com/openGemini/openGemini/lib/raftlog"
	"go.etcd.io/etcd/raft/v3"
	"go.etcd.io/etcd/raft/v3/raftpb"
)

type SendProbe struct {
	K       uint64 `json:"k"`   // the follower's last index (its entry k agrees with the leader's)
	Msg     string `json:"msg"` // "app" | "snap" | "none"
	Prev    uint64 `json:"prev"`
	LogTerm uint64 `json:"logTerm"`
	NEnts   int    `json:"nents"`
	FirstE  uint64 `json:"firstEnt"`
}

type SlotProbe struct {
	I      uint64 `json:"i"`
	File   int    `json:"file"` // position among the rotated files, -1 = current file
	Off    int    `json:"off"`
	TermOK bool   `json:"termOk"`
}

type SendCase struct {
	Kind     string       `json:"kind"` // "send"
	FileSize uint64       `json:"fileSize"`
	N        uint64       `json:"n"`        // entries written
	DelAt    uint64       `json:"delAt"`    // DeleteBefore(delAt) applied (0 = none)
	Snap     uint64       `json:"snap"`     // snapshot index
	First    uint64       `json:"first"`    // first index of the entry log
	Last     uint64       `json:"last"`     // last index in the store
	Probes   []SendProbe  `json:"probes"`
	Slots    []SlotProbe  `json:"slots"`
	Err      string       `json:"err,omitempty"`
	Oracle   []string     `json:"oracle"`
}

var quietRaftLogger = &raft.DefaultLogger{Logger: log.New(io.Discard, "", 0)}

// probe: a fresh RawNode on the store becomes leader; follower 2 rejects the first append with hint k
func sendProbe(store *raftlog.RaftDiskStorage, k uint64) (p SendProbe, err error) {
	defer func() {
		if r := recover(); r != nil {
			err = fmt.Errorf("panic: %v", r)
		}
	}()
	p.K = k
	p.Msg = "none"
	rn, e := raft.NewRawNode(&raft.Config{ID: 1, ElectionTick: 10, HeartbeatTick: 1, Storage: store,
		MaxSizePerMsg: 1 << 16, MaxInflightMsgs: 16, Logger: quietRaftLogger})
	if e != nil {
		return p, e
	}
	if e = rn.Campaign(); e != nil {
		return p, e
	}
	var term uint64
	for _, m := range rn.Ready().Messages {
		if m.Type == raftpb.MsgVote {
			term = m.Term
		}
	}
	if term == 0 {
		return p, errors.New("no vote request")
	}
	if e = rn.Step(raftpb.Message{Type: raftpb.MsgVoteResp, From: 2, To: 1, Term: term}); e != nil {
		return p, e
	}
	var firstPrev uint64
	seen := false
	for _, m := range rn.Ready().Messages {
		if m.To == 2 && m.Type == raftpb.MsgApp {
			firstPrev, seen = m.Index, true
		}
	}
	if rn.Status().RaftState != raft.StateLeader || !seen {
		return p, errors.New("not leader / no first append")
	}
	kt := uint64(0)
	if k > 0 {
		kt = 1 // every stored entry has term 1
	}
	if e = rn.Step(raftpb.Message{Type: raftpb.MsgAppResp, From: 2, To: 1, Term: term, Index: firstPrev, Reject: true, RejectHint: k, LogTerm: kt}); e != nil {
		return p, e
	}
	for _, m := range rn.Ready().Messages {
		if m.To != 2 {
			continue
		}
		switch m.Type {
		case raftpb.MsgApp:
			p.Msg, p.Prev, p.LogTerm, p.NEnts = "app", m.Index, m.LogTerm, len(m.Entries)
			if len(m.Entries) > 0 {
				p.FirstE = m.Entries[0].Index
			}
		case raftpb.MsgSnap:
			p.Msg, p.Prev = "snap", m.Snapshot.Metadata.Index
		}
	}
	return p, nil
}

func runSendCase(work string, c *SendCase) {
	defer func() {
		if r := recover(); r != nil {
			c.Err = fmt.Sprintf("panic: %v", r)
		}
	}()
	c.Oracle, c.Err = nil, ""
	c.FileSize = entryFileSize
	dir := filepath.Join(work, fmt.Sprintf("send-%d-%d", os.Getpid(), time.Now().UnixNano()))
	defer os.RemoveAll(dir)
	store, err := newBigStore(dir, c.N)
	if err != nil {
		c.Err = "store: " + err.Error()
		return
	}
	defer store.Close()
	cs := raftpb.ConfState{Voters: []uint64{1, 2, 3}}
	if err = store.CreateSnapshot(c.Snap, &cs, []byte("snapshot")); err != nil {
		c.Err = "snapshot: " + err.Error()
		return
	}
	if c.DelAt > 0 {
		if err = store.DeleteBefore(c.DelAt); err != nil {
			c.Err = "deleteBefore: " + err.Error()
			return
		}
	}
	c.First, c.Last = store.GetFirstLast()
	for i := range c.Slots {
		s := &c.Slots[i]
		s.File, s.Off = store.SlotGe(s.I)
		_, e := store.Term(s.I)
		s.TermOK = e == nil
		// DIRECT ORACLE: the term of every entry of the log is available (raft needs it to append after it)
		if s.I >= c.First && s.I <= c.Last && !s.TermOK {
			c.Oracle = append(c.Oracle, fmt.Sprintf("Term(%d) fails (%v) although the entry log holds entries %d..%d", s.I, e, c.First, c.Last))
		}
	}
	for i := range c.Probes {
		p, e := sendProbe(store, c.Probes[i].K)
		if e != nil {
			c.Err = fmt.Sprintf("probe k=%d: %v", c.Probes[i].K, e)
			return
		}
		c.Probes[i] = p
		// DIRECT ORACLE: a follower whose last entry k is in the leader's log gets entries from k+1 on, never a snapshot
		// (the snapshot carries no shard data: the entries between k and the snapshot index would be lost on that replica)
		if p.K >= c.First && p.K <= c.Last {
			if p.Msg != "app" || p.Prev != p.K || p.NEnts == 0 || p.FirstE != p.K+1 {
				c.Oracle = append(c.Oracle, fmt.Sprintf("follower with last index %d (leader's log: %d..%d) is sent %s (prev %d, %d entries from %d) instead of the entries from %d on",
					p.K, c.First, c.Last, p.Msg, p.Prev, p.NEnts, p.FirstE, p.K+1))
			}
		}
	}
}

func sendIndexes(r prng, first, last, fs uint64, n int) []uint64 {
	var out []uint64
	add := func(v uint64) {
		if v <= last+1 {
			out = append(out, v)
		}
	}
	// every file boundary of the log, both sides
	for b := fs; b <= last; b += fs {
		for d := uint64(0); d < 3; d++ {
			add(b - 1 + d) // b-1, b, b+1
		}
	}
	add(first)
	add(last)
	if first > 1 {
		add(first - 1)
		add(first - 2)
	}
	add(0)
	add(1)
	for i := 0; i < n; i++ {
		add(uint64(r.Intn(int(last) + 1)))
	}
	return out
}

func genSend(r prng, variant int) *SendCase {
	fs := uint64(entryFileSize)
	c := &SendCase{Kind: "send", N: 2*fs + uint64(r.Range(1, 200))}
	if variant%3 == 2 {
		c.N = 2 * fs // the current file is exactly full
	}
	c.Snap = c.N - uint64(r.Intn(50))
	switch variant % 3 {
	case 1: // the first file is gone
		c.DelAt = fs + 1 + uint64(r.Intn(int(fs)-1))
		if c.Snap < c.DelAt {
			c.Snap = c.DelAt
		}
	}
	first := uint64(1)
	if c.DelAt > 0 {
		first = fs + 1
	}
	for _, k := range sendIndexes(r, first, c.N, fs, 4) {
		if k < c.N { // a follower that rejects the first append (prev = last) does not have the last entry
			c.Probes = append(c.Probes, SendProbe{K: k})
		}
	}
	for _, i := range sendIndexes(r, first, c.N, fs, 8) {
		c.Slots = append(c.Slots, SlotProbe{I: i})
	}
	return c
}
