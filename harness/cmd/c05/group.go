// A REAL replica group in one process: three raftconn.RaftNode objects (real etcd/raft, real RaftDiskStorage,
// real WriteToRaft / readCommitFromRaft / dealCommitData / restart replay), connected by an in-memory transport
// (RaftNode.ISend) and a meta client whose node liveness the harness controls. Shards are recording LWW stores that
// survive a "kill" (shard WAL). Used for the leader-side truncation decision (deleteEntryLog / forceDeleteEntryLog /
// genProposeData, incl. the tolerate-time and size branches) and rejoin/catch-up.
package main

import (
	"fmt"
	"path/filepath"
	"sync"
	"time"

	"github.com/openGemini/openGemini/engine"
	"github.com/openGemini/openGemini/lib/config"
	"github.com/openGemini/openGemini/lib/logger"
	"github.com/openGemini/openGemini/lib/metaclient"
	"github.com/openGemini/openGemini/lib/raftconn"
	"github.com/openGemini/openGemini/lib/raftlog"
	"github.com/openGemini/openGemini/lib/util/lifted/hashicorp/serf/serf"
	meta2 "github.com/openGemini/openGemini/lib/util/lifted/influx/meta"
	"go.etcd.io/etcd/raft/v3"
	"go.etcd.io/etcd/raft/v3/raftpb"
)

type member struct {
	id    int // 0..2 ; pt id = id, raft id = id+1, data node id = id+1
	dir   string
	store *raftlog.RaftDiskStorage
	node  *raftconn.RaftNode
	eng   *engine.EngineImpl
	st    *recStorage
	up    bool
	cut   bool // network cut: alive for meta, but no raft message gets in or out (a paused / partitioned store)
}

type group struct {
	mu sync.Mutex
	ms []*member
	mc *groupMeta
	// true: a (re)starting member accepts raft messages as soon as its partition is registered, i.e. BEFORE its restart
	// replay has run (as in EngineImpl.Assign: addDBPTInfo comes before readReplayForReplication); false: after it
	earlyMessages bool
}

type groupMeta struct {
	metaclient.MetaClient
	g *group
}

func (m *groupMeta) ShardOwner(shardID uint64) (string, string, *meta2.ShardGroupInfo) {
	return "db0", "autogen", &meta2.ShardGroupInfo{ID: 1, Shards: []meta2.ShardInfo{{ID: 11}, {ID: 12}, {ID: 13}}}
}

func (m *groupMeta) DataNode(id uint64) (*meta2.DataNode, error) {
	m.g.mu.Lock()
	defer m.g.mu.Unlock()
	st := serf.StatusFailed
	if m.g.ms[id-1].up {
		st = serf.StatusAlive
	}
	return &meta2.DataNode{NodeInfo: meta2.NodeInfo{ID: id, Status: st}}, nil
}

// transport: RaftNode.send -> ISend.SendRaftMessages(nodeID, db, pt, msg)
type router struct {
	g    *group
	from int
}

func (r *router) SendRaftMessages(nodeID uint64, database string, pt uint32, msg raftpb.Message) error {
	r.g.mu.Lock()
	m := r.g.ms[nodeID-1]
	up, node := m.up, m.node
	cut := m.cut || r.g.ms[r.from].cut
	r.g.mu.Unlock()
	if up && node != nil && !cut {
		node.StepRaftMessage([]raftpb.Message{msg})
	}
	return nil
}

func newGroup(work string, tag string) *group {
	g := &group{}
	g.mc = &groupMeta{g: g}
	for i := 0; i < 3; i++ {
		g.ms = append(g.ms, &member{id: i, dir: filepath.Join(work, fmt.Sprintf("group-%s-%d", tag, i)), st: &recStorage{}})
	}
	for i := 0; i < 3; i++ {
		g.start(i)
	}
	return g
}

func (g *group) start(i int) {
	m := g.ms[i]
	store, err := raftlog.Init(m.dir, time.Second)
	if err != nil {
		panic(err)
	}
	peers := []raft.Peer{{ID: 1}, {ID: 2}, {ID: 3}}
	node := raftconn.StartNode(store, uint64(i+1), "db0", uint64(i+1), peers, g.mc, map[uint32]uint64{0: 1, 1: 2, 2: 3})
	node.WithLogger(logger.NewLogger(0))
	node.ISend = &router{g: g, from: i}
	replayC := make(chan *raftconn.Commit, 1)
	node.ReplayC = replayC
	if err = node.InitAndStartNode(); err != nil {
		panic(err)
	}
	close(replayC)
	eng := engine.VerifNewRaftEngine("db0", uint32(i), node)
	// the order of EngineImpl.startRaftNode / Assign: the commit reader is started, then the partition is registered
	// (raft messages are accepted from then on), then the restart replay runs
	go engine.VerifReadCommitFromRaft(node, g.mc, m.st)
	if g.earlyMessages {
		g.mu.Lock()
		m.store, m.node, m.eng, m.up = store, node, eng, true
		g.mu.Unlock()
	}
	engine.VerifReadReplayForReplication(replayC, g.mc, m.st, "db0", uint32(i))
	g.mu.Lock()
	m.store, m.node, m.eng, m.up = store, node, eng, true
	g.mu.Unlock()
}

func (g *group) kill(i int) {
	g.mu.Lock()
	m := g.ms[i]
	m.up = false
	node, store := m.node, m.store
	g.mu.Unlock()
	node.Stop()
	time.Sleep(50 * time.Millisecond)
	_ = store.Close()
}

func (g *group) leader(wait time.Duration) int {
	end := time.Now().Add(wait)
	for time.Now().Before(end) {
		for _, m := range g.ms {
			g.mu.Lock()
			up, node := m.up, m.node
			g.mu.Unlock()
			if !up {
				continue
			}
			st := node.VerifRaftStatus()
			if st.Lead == st.ID && st.RaftState == raft.StateLeader {
				return m.id
			}
		}
		time.Sleep(50 * time.Millisecond)
	}
	return -1
}

func (g *group) stopAll() {
	for i, m := range g.ms {
		if m.up {
			g.kill(i)
		}
	}
}

// GroupCase: the forced-truncation / rejoin scenario
type GroupCase struct {
	Kind      string   `json:"kind"` // "group"
	Scenario  string   `json:"scenario"`
	Entries   int      `json:"entries"`   // entries written while the victim is down
	Forced    string   `json:"forced"`    // "time" | "size" | "none"
	Leader    int      `json:"leader"`
	Victim    int      `json:"victim"`
	FirstL    uint64   `json:"firstLeader"` // first index of the leader's entry log after the truncation round
	VictimLast uint64  `json:"victimLast"`  // last index in the victim's log when it was killed
	AckedN    int      `json:"ackedN"`
	Missing   int      `json:"missing"`     // acknowledged points missing on the rejoined member after catch-up
	VictimApplied uint64 `json:"victimApplied"`
	StaleOld  int      `json:"staleOld"`    // replayrace: acknowledged points that show the value of the replayed (older) entry
	Target    int      `json:"target"`      // lagmaster: the partition that answers reads after the master's store died
	GroupCommit uint64 `json:"groupCommit"` // lagmaster: applied index of the caught-up live member at that moment
	Note      []string `json:"note"`
	Oracle    []string `json:"oracle"`
}

func (g *group) write(via int, key, val int64, timeout time.Duration) error {
	g.mu.Lock()
	eng := g.ms[via].eng
	g.mu.Unlock()
	done := make(chan error, 1)
	go func() { done <- eng.WriteToRaft("db0", "autogen", uint32(via), tailOf([][2]int64{{key, val}})) }()
	select {
	case err := <-done:
		return err
	case <-time.After(timeout):
		return fmt.Errorf("timeout")
	}
}

// bulk proposes n entries straight into the leader's propose channel (identity of a partition that has no waiter)
func (g *group) bulk(leader int, from, n int) {
	g.mu.Lock()
	pc := g.ms[leader].node.GetProposeC()
	g.mu.Unlock()
	for i := 0; i < n; i++ {
		dw := &raftlog.DataWrapper{DataType: raftlog.Normal, Identity: "bulk", ProposeId: uint64(i), Data: tailOf([][2]int64{{int64(1000 + (from+i)%50), int64(from + i)}})}
		pc <- dw.Marshal()
	}
}

// transfer moves the raft leadership from member `from` to member `to` (RaftNode.TransferLeadership, as the master
// rotation does) and waits until `to` leads; cur is updated
func (g *group) transfer(from, to int) bool {
	if err := g.ms[from].node.TransferLeadership(uint64(to + 1)); err != nil {
		return false
	}
	return waitFor(10*time.Second, func() bool { return g.leader(200*time.Millisecond) == to })
}

// firstOutage: the victim is down for a short while (one decision round of the leader sees it: the tolerance period
// starts), comes back and catches up; the group is healthy for a long time (two hours of wall clock, tolerate time one
// hour). "stale": the leader of the first outage loses the leadership before the group is healthy again.
func (g *group) firstOutage(c *GroupCase, l, v, h int, acked map[int64]int64) bool {
	for _, i := range []int{l, h} {
		g.ms[i].node.SnapShotter.RaftFlushC <- true // a snapshot index exists
	}
	time.Sleep(200 * time.Millisecond)
	g.kill(v)
	g.ms[l].node.VerifDeleteEntryLog()
	c.Note = append(c.Note, fmt.Sprintf("first outage: tolerance period running on the leader: %v", g.ms[l].node.VerifTolerateStart() != 0))
	old := l
	if c.Forced == "stale" {
		if !g.transfer(l, h) {
			c.Note = append(c.Note, "leadership transfer failed")
			c.Scenario = "not-run"
			return false
		}
		g.ms[old].node.VerifDeleteEntryLog() // a round of the old leader as a follower
	}
	g.start(v)
	lead := g.leader(10 * time.Second)
	if lead < 0 {
		c.Note = append(c.Note, "no leader after the first outage")
		c.Scenario = "not-run"
		return false
	}
	if err := g.write(lead, 9, 19, 10*time.Second); err != nil {
		c.Note = append(c.Note, "write after the first outage failed: "+err.Error())
		c.Scenario = "not-run"
		return false
	}
	acked[9] = 19
	waitFor(10*time.Second, func() bool { lww, _ := g.ms[v].st.snapshot(); return lww[9] == 19 })
	// healthy rounds on every member (only the leader acts), then a long quiet time
	for _, m := range g.ms {
		m.node.VerifDeleteEntryLog()
	}
	time.Sleep(300 * time.Millisecond)
	for _, m := range g.ms {
		m.node.VerifAgeTolerateTimer(2 * time.Hour)
	}
	c.Note = append(c.Note, fmt.Sprintf("after the healthy period: tolerance period still running on the first leader: %v", g.ms[old].node.VerifTolerateStart() != 0))
	return true
}

func waitFor(d time.Duration, f func() bool) bool {
	end := time.Now().Add(d)
	for time.Now().Before(end) {
		if f() {
			return true
		}
		time.Sleep(20 * time.Millisecond)
	}
	return f()
}

func runGroupCase(work string, c *GroupCase) {
	if c.Forced == "lagmaster" {
		runLagMaster(work, c)
		return
	}
	if c.Forced == "replayrace" {
		runReplayRace(work, c)
		return
	}
	defer func() {
		if r := recover(); r != nil {
			c.Oracle = append(c.Oracle, fmt.Sprintf("harness panic: %v", r))
		}
	}()
	config.ElectionTick = 3
	config.WaitCommitTimeout = 5 * time.Second
	sc := config.GetStoreConfig()
	sc.ClearEntryLogTolerateTime = 0
	sc.ClearEntryLogTolerateSize = 1 << 60
	if c.Forced == "none" || c.Forced == "lag" {
		sc.ClearEntryLogTolerateTime = 1 << 60
	}
	if c.Forced == "size" {
		sc.ClearEntryLogTolerateTime = 1 << 60
		sc.ClearEntryLogTolerateSize = 1 << 20
	}
	if c.Forced == "second" || c.Forced == "stale" {
		// two outages of the same member, each far shorter than the tolerate time, a long healthy period in between
		setTolerate(time.Hour)
	}
	g := newGroup(work, fmt.Sprintf("%s-%d", c.Forced, time.Now().UnixNano()))
	defer g.stopAll()
	l := g.leader(15 * time.Second)
	if l < 0 {
		c.Note = append(c.Note, "no leader within 15s")
		c.Scenario = "not-run"
		return
	}
	c.Leader = l
	acked := map[int64]int64{}
	for k := int64(1); k <= 5; k++ {
		if err := g.write(l, k, 10+k, 6*time.Second); err == nil {
			acked[k] = 10 + k
		}
	}
	v := (l + 1) % 3
	c.Victim = v
	h := (l + 2) % 3
	// everybody has applied the first writes
	waitFor(5*time.Second, func() bool { _, n := g.ms[v].st.snapshot(); return n >= len(acked) })
	cur, extra := l, 0 // cur: the member that leads during the (second) outage
	if c.Forced == "second" || c.Forced == "stale" {
		if !g.firstOutage(c, l, v, h, acked) {
			return
		}
		extra = 1
		if c.Forced == "stale" {
			cur = h
		}
	}
	_, c.VictimLast = g.ms[v].store.GetFirstLast()
	if c.Forced == "lag" {
		// the member stays alive for meta (healthy branch of the truncation decision) but receives nothing
		g.mu.Lock()
		g.ms[v].cut = true
		g.mu.Unlock()
	} else {
		g.kill(v)
	}
	// a long outage: more than one entry-log file is written meanwhile, with overwrites of the acknowledged keys
	g.bulk(cur, 0, c.Entries)
	for k := int64(1); k <= 5; k++ {
		if err := g.write(cur, k, 100+k, 20*time.Second); err == nil {
			acked[k] = 100 + k
		}
	}
	total := 5 + extra + c.Entries + 5
	if !waitFor(60*time.Second, func() bool { _, n := g.ms[l].st.snapshot(); return n >= total }) {
		c.Note = append(c.Note, "leader did not apply all entries in time")
	}
	waitFor(30*time.Second, func() bool { _, n := g.ms[h].st.snapshot(); return n >= total })
	// both live members flush: snapshot index = what they applied
	for _, i := range []int{l, h} {
		g.ms[i].node.SnapShotter.RaftFlushC <- true
	}
	time.Sleep(200 * time.Millisecond)
	if c.Forced == "stale" {
		// the node whose tolerance period was left running gets the leadership back during the second outage
		if !g.transfer(h, l) {
			c.Note = append(c.Note, "leadership transfer back failed")
			c.Scenario = "not-run"
			return
		}
	}
	// the periodic truncation decision on the leader (first round starts the tolerate clock, second acts)
	for r := 0; r < 3; r++ {
		g.ms[l].node.VerifDeleteEntryLog()
		time.Sleep(300 * time.Millisecond)
		if c.Forced == "second" || c.Forced == "stale" {
			g.ms[l].node.VerifAgeTolerateTimer(time.Minute) // one minute between the periodic rounds
		}
	}
	time.Sleep(500 * time.Millisecond)
	c.FirstL, _ = g.ms[l].store.GetFirstLast()
	// the victim comes back
	if c.Forced == "lag" {
		g.mu.Lock()
		g.ms[v].cut = false
		g.mu.Unlock()
	} else {
		g.start(v)
	}
	for k := int64(6); k <= 8; k++ {
		if err := g.write(g.leader(10*time.Second), k, 200+k, 20*time.Second); err == nil {
			acked[k] = 200 + k
		}
	}
	c.AckedN = len(acked)
	// bounded wait for catch-up: the victim's raft applied index reaches the leader's
	lead := g.leader(10 * time.Second)
	if lead < 0 {
		c.Note = append(c.Note, "no leader after rejoin")
		c.Scenario = "not-run"
		return
	}
	caughtUp := waitFor(120*time.Second, func() bool {
		return g.ms[v].node.VerifAppliedIndex() >= g.ms[lead].node.VerifAppliedIndex() && g.ms[v].node.VerifAppliedIndex() > c.VictimLast
	})
	time.Sleep(500 * time.Millisecond)
	c.VictimApplied = g.ms[v].node.VerifAppliedIndex()
	c.Scenario = "ran"
	if !caughtUp {
		// "a store that rejoins catches up": 120 s is 50-100 times what this takes
		c.Oracle = append(c.Oracle, fmt.Sprintf("rejoined member %d did not reach the leader's applied index within 120 s (applied %d, leader %d)",
			v, c.VictimApplied, g.ms[lead].node.VerifAppliedIndex()))
		return
	}
	// DIRECT ORACLE: a store that rejoined and caught up returns every acknowledged point with its latest value
	lww, _ := g.ms[v].st.snapshot()
	for k, val := range acked {
		if lww[k] != val {
			c.Missing++
		}
	}
	if c.Missing > 0 {
		c.Oracle = append(c.Oracle, fmt.Sprintf("rejoined member %d is caught up in raft terms (applied index %d) but lacks %d of %d acknowledged points (leader's log starts at %d, member's log ended at %d)",
			v, c.VictimApplied, c.Missing, len(acked), c.FirstL, c.VictimLast))
	}
}
