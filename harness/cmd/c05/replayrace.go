// Restart replay vs. newly committed entries. EngineImpl.startRaftNode starts `go readCommitFromRaft` and Assign then
// registers the partition (raft messages are accepted) and only then runs readReplayForReplication, which re-applies
// the entries (snapshot index, persisted commit]. Nothing orders the two: entries the leader ships to the restarted
// member can be applied BEFORE the replay re-applies older entries - an older write of the same point then overwrites
// the newer, acknowledged one on that replica, for good (raft never delivers the newer entry again).
// Scenario "replayrace" on the real 3-node group (real InitAndStartNode/replay, readCommitFromRaft,
// readReplayForReplication in the order of the product): the recording shard holds back every apply that carries one of
// the OLD values until the new values have been applied (bounded), i.e. it only slows the replay down.
package main

import (
	"fmt"
	"time"

	"github.com/openGemini/openGemini/lib/config"
)

func runReplayRace(work string, c *GroupCase) {
	defer func() {
		if r := recover(); r != nil {
			c.Oracle = append(c.Oracle, fmt.Sprintf("harness panic: %v", r))
		}
	}()
	config.ElectionTick = 3
	config.WaitCommitTimeout = 5 * time.Second
	sc := config.GetStoreConfig()
	sc.ClearEntryLogTolerateTime = 1 << 60
	sc.ClearEntryLogTolerateSize = 1 << 60
	g := newGroup(work, fmt.Sprintf("%s-%d", c.Forced, time.Now().UnixNano()))
	defer g.stopAll()
	l := g.leader(15 * time.Second)
	if l < 0 {
		c.Note = append(c.Note, "no leader within 15s")
		c.Scenario = "not-run"
		return
	}
	c.Leader = l
	v := (l + 1) % 3
	c.Victim = v
	acked := map[int64]int64{}
	old := map[int64]int64{}
	for k := int64(1); k <= 5; k++ {
		if err := g.write(l, k, 10+k, 6*time.Second); err == nil {
			acked[k], old[k] = 10+k, 10+k
		}
	}
	waitFor(5*time.Second, func() bool { _, n := g.ms[v].st.snapshot(); return n >= len(acked) })
	_, c.VictimLast = g.ms[v].store.GetFirstLast()
	g.kill(v)
	// acknowledged overwrites while the member is down
	n := c.Entries
	if n > 0 {
		g.bulk(l, 0, n)
	}
	newVals := map[int64]bool{}
	for k := int64(1); k <= 5; k++ {
		if err := g.write(l, k, 100+k, 20*time.Second); err == nil {
			acked[k] = 100 + k
			newVals[100+k] = true
		}
	}
	c.AckedN = len(acked)
	// the member restarts: its replay (the old values) is slow, messages are accepted as in Assign
	st := g.ms[v].st
	st.mu.Lock()
	st.holdVals = map[int64]bool{}
	for _, x := range old {
		st.holdVals[x] = true
	}
	st.holdMax = 3 * time.Second
	st.holdRelease = func() bool {
		st.mu.Lock()
		defer st.mu.Unlock()
		for _, val := range st.lww {
			if newVals[val] {
				return true // a newer committed entry has been applied already
			}
		}
		return false
	}
	st.mu.Unlock()
	g.earlyMessages = true
	g.start(v)
	g.earlyMessages = false
	st.mu.Lock()
	st.holdVals, st.holdRelease = nil, nil
	held := st.held
	st.mu.Unlock()
	c.Note = append(c.Note, fmt.Sprintf("applies of old values held back during the restart: %d", held))
	lead := g.leader(10 * time.Second)
	if lead < 0 {
		c.Note = append(c.Note, "no leader after rejoin")
		c.Scenario = "not-run"
		return
	}
	caughtUp := waitFor(120*time.Second, func() bool {
		return g.ms[v].node.VerifAppliedIndex() >= g.ms[lead].node.VerifAppliedIndex() && g.ms[v].node.VerifAppliedIndex() > c.VictimLast
	})
	time.Sleep(300 * time.Millisecond)
	c.VictimApplied = g.ms[v].node.VerifAppliedIndex()
	c.GroupCommit = g.ms[lead].node.VerifAppliedIndex()
	c.Scenario = "ran"
	if !caughtUp {
		c.Oracle = append(c.Oracle, fmt.Sprintf("rejoined member %d did not reach the leader's applied index within 120 s (applied %d, leader %d)",
			v, c.VictimApplied, c.GroupCommit))
		return
	}
	// DIRECT ORACLE: a store that rejoined and caught up returns every acknowledged point with its latest value
	lww, _ := st.snapshot()
	for k, val := range acked {
		if lww[k] != val {
			c.Missing++
			if lww[k] == old[k] {
				c.StaleOld++
			}
		}
	}
	if c.Missing > 0 {
		c.Oracle = append(c.Oracle, fmt.Sprintf("rejoined member %d has caught up in raft terms (applied index %d = the leader's %d) but %d of %d acknowledged points show an older value (%d of them the value its restart replay re-applied after the newer entry)",
			v, c.VictimApplied, c.GroupCommit, c.Missing, len(acked), c.StaleOld))
	}
}
