// The leader-side entry-log truncation decision (raftconn.RaftNode.deleteEntryLog -> forceDeleteEntryLog ->
// genProposeData / prepareDeleteEntryLogProposeData) driven ROUND BY ROUND over generated multi-round sequences:
// the RaftNode object is real, its store is a real RaftDiskStorage spanning three entry-log files, the raft status
// (leadership, Progress.Match of every member) and the meta liveness of the members are scripted per round, and the
// wall clock of the tolerance period is controlled (VerifAgeTolerateTimer = "d of wall-clock time has passed").
// Observed per round: what was put on the propose channel (nothing / ClearEntryLog(index)) and whether the tolerance
// period is running afterwards.
package main

import (
	"encoding/binary"
	"fmt"
	"os"
	"path/filepath"
	"sync"
	"time"

	"github.com/influxdata/influxdb/toml"
	"github.com/openGemini/openGemini/lib/config"
	"github.com/openGemini/openGemini/lib/logger"
	"github.com/openGemini/openGemini/lib/metaclient"
	"github.com/openGemini/openGemini/lib/raftconn"
	"github.com/openGemini/openGemini/lib/raftlog"
	"github.com/openGemini/openGemini/lib/util/lifted/hashicorp/serf/serf"
	meta2 "github.com/openGemini/openGemini/lib/util/lifted/influx/meta"
	"go.etcd.io/etcd/raft/v3"
	"go.etcd.io/etcd/raft/v3/raftpb"
	"go.etcd.io/etcd/raft/v3/tracker"
)

const truncUnit = time.Hour // one clock unit of a sequence (the real time a sequence takes is far below half a unit)

type TRound struct {
	Adv   int      `json:"adv"`   // clock units that pass before this round
	Lead  bool     `json:"lead"`  // this node is the raft leader in this round
	Alive []bool   `json:"alive"` // meta liveness of members 0..2 (member 0 is this node)
	Match []uint64 `json:"match"` // Progress.Match of members 0..2 as the raft status reports it
	Snap  uint64   `json:"snap"`  // this node's snapshot index in this round (0: none yet)
	// observed
	Prop  int64 `json:"prop"`  // -1: nothing proposed, else the index of the proposed ClearEntryLog
	Armed bool  `json:"armed"` // a tolerance period is running after the round
}

type TruncCase struct {
	Kind     string   `json:"kind"` // "trunc"
	FileSize uint64   `json:"fileSize"`
	First    uint64   `json:"first"` // first index of the store's entry log
	Last     uint64   `json:"last"`
	T        int      `json:"t"` // tolerate time = T units + half a unit
	Rounds   []TRound `json:"rounds"`
	Err      string   `json:"err,omitempty"`
	Bad      []int    `json:"bad,omitempty"` // rounds at which the direct oracle failed
	Oracle   []string `json:"oracle"`
}

// scripted etcd/raft node: only Status() is used by the decision
type scriptRaft struct {
	raft.Node
	mu sync.Mutex
	st raft.Status
}

func (s *scriptRaft) Status() raft.Status {
	s.mu.Lock()
	defer s.mu.Unlock()
	st := s.st
	st.Progress = map[uint64]tracker.Progress{}
	for k, v := range s.st.Progress {
		st.Progress[k] = v
	}
	return st
}

type liveMeta struct {
	metaclient.MetaClient
	mu    sync.Mutex
	alive [3]bool
}

func (m *liveMeta) DataNode(id uint64) (*meta2.DataNode, error) {
	m.mu.Lock()
	defer m.mu.Unlock()
	st := serf.StatusFailed
	if m.alive[id-1] {
		st = serf.StatusAlive
	}
	return &meta2.DataNode{NodeInfo: meta2.NodeInfo{ID: id, Status: st}}, nil
}

// truncWorld: one real store (three entry-log files) shared by all sequences of a process; every sequence gets a
// fresh RaftNode object on top of it (a fresh node = a restarted store process: no tolerance period running).
type truncWorld struct {
	dir   string
	store *raftlog.RaftDiskStorage
	first uint64
	last  uint64
	cs    raftpb.ConfState
}

func bigEntries(from, to uint64, term uint64) []raftpb.Entry {
	ents := make([]raftpb.Entry, 0, to-from+1)
	for i := from; i <= to; i++ {
		ents = append(ents, raftpb.Entry{Index: i, Term: term, Type: raftpb.EntryNormal, Data: payload(i)})
	}
	return ents
}

// newBigStore builds a store with entries 1..n (term 1) in batches, as a raft node would
func newBigStore(dir string, n uint64) (*raftlog.RaftDiskStorage, error) {
	_ = os.RemoveAll(dir)
	store, err := raftlog.Init(dir, 0)
	if err != nil {
		return nil, err
	}
	cs := raftpb.ConfState{Voters: []uint64{1, 2, 3}}
	hs := raftpb.HardState{Term: 1, Vote: 1, Commit: n}
	const step = 5000
	for lo := uint64(1); lo <= n; lo += step {
		hi := lo + step - 1
		if hi > n {
			hi = n
		}
		if err = store.Save(&hs, bigEntries(lo, hi, 1), &raftpb.Snapshot{Metadata: raftpb.SnapshotMetadata{ConfState: cs}}); err != nil {
			return nil, err
		}
	}
	return store, nil
}

func newTruncWorld(work string, n uint64) (*truncWorld, error) {
	w := &truncWorld{dir: filepath.Join(work, fmt.Sprintf("trunc-%d-%d", os.Getpid(), time.Now().UnixNano()))}
	store, err := newBigStore(w.dir, n)
	if err != nil {
		return nil, err
	}
	w.store = store
	w.cs = raftpb.ConfState{Voters: []uint64{1, 2, 3}}
	w.first, w.last = store.GetFirstLast()
	return w, nil
}

func (w *truncWorld) close() {
	if w.store != nil {
		_ = w.store.Close()
	}
	_ = os.RemoveAll(w.dir)
}

func runTruncCase(w *truncWorld, c *TruncCase) {
	defer func() {
		if r := recover(); r != nil {
			c.Err = fmt.Sprintf("panic: %v", r)
		}
	}()
	c.Oracle, c.Err, c.Bad = nil, "", nil
	c.FileSize = entryFileSize
	c.First, c.Last = w.first, w.last
	sc := config.GetStoreConfig()
	oldT, oldS := sc.ClearEntryLogTolerateTime, sc.ClearEntryLogTolerateSize
	defer func() { sc.ClearEntryLogTolerateTime, sc.ClearEntryLogTolerateSize = oldT, oldS }()
	setTolerate(time.Duration(c.T)*truncUnit + truncUnit/2)
	sc.ClearEntryLogTolerateSize = 1 << 60
	mc := &liveMeta{}
	node := raftconn.StartNode(w.store, 1, "db0", 1, []raft.Peer{{ID: 1}, {ID: 2}, {ID: 3}}, mc, map[uint32]uint64{0: 1, 1: 2, 2: 3})
	node.WithLogger(logger.NewLogger(0))
	fr := &scriptRaft{}
	node.VerifSetRaftNode(fr)
	pc := node.GetProposeC()
	curSnap := uint64(0)
	// the snapshot meta of the shared store starts from "none" for every sequence
	if err := w.store.Save(&raftpb.HardState{Term: 1, Vote: 1, Commit: w.last}, nil, &raftpb.Snapshot{Metadata: raftpb.SnapshotMetadata{ConfState: w.cs}}); err != nil {
		c.Err = "reset snapshot: " + err.Error()
		return
	}
	for i := range c.Rounds {
		r := &c.Rounds[i]
		if r.Adv > 0 {
			node.VerifAgeTolerateTimer(time.Duration(r.Adv) * truncUnit)
		}
		if r.Snap != curSnap && r.Snap > 0 {
			if err := w.store.CreateSnapshot(r.Snap, &w.cs, []byte("snapshot")); err != nil {
				c.Err = fmt.Sprintf("round %d: CreateSnapshot(%d): %v", i, r.Snap, err)
				return
			}
			curSnap = r.Snap
		}
		mc.mu.Lock()
		copy(mc.alive[:], r.Alive)
		mc.mu.Unlock()
		fr.mu.Lock()
		fr.st = raft.Status{}
		fr.st.ID = 1
		fr.st.Lead = 2
		fr.st.RaftState = raft.StateFollower
		if r.Lead {
			fr.st.Lead = 1
			fr.st.RaftState = raft.StateLeader
		}
		fr.st.Progress = map[uint64]tracker.Progress{}
		for m, v := range r.Match {
			fr.st.Progress[uint64(m+1)] = tracker.Progress{Match: v, Next: v + 1}
		}
		fr.mu.Unlock()
		_, _ = node.VerifDeleteEntryLog()
		r.Prop = -1
		select {
		case data := <-pc:
			dw, err := raftlog.Unmarshal(data)
			if err != nil || dw.DataType != raftlog.ClearEntryLog || len(dw.Data) != 8 {
				c.Err = fmt.Sprintf("round %d: unexpected proposal", i)
				return
			}
			r.Prop = int64(binary.BigEndian.Uint64(dw.Data))
		default:
		}
		r.Armed = node.VerifTolerateStart() != 0
	}
	// DIRECT ORACLE (what the statement needs of this decision): the entries a member that is not alive may still lack
	// are given up (ClearEntryLog proposed in a round in which a member is not alive) only when, at the rounds of this
	// node, the group has been seen with a member down WITHOUT INTERRUPTION for longer than the tolerate time; and
	// never by a node that is not the leader.
	since := -1 // clock (units) of the first round of the current run of consecutive rounds with a member down
	clock := 0
	for i := range c.Rounds {
		r := &c.Rounds[i]
		clock += r.Adv
		down := false
		for _, a := range r.Alive {
			down = down || !a
		}
		if !down {
			since = -1
			continue
		}
		if since < 0 {
			since = clock
		}
		if r.Prop < 0 {
			continue
		}
		if !r.Lead {
			c.Bad = append(c.Bad, i)
			c.Oracle = append(c.Oracle, fmt.Sprintf("round %d: ClearEntryLog(%d) proposed by a node that is not the leader while a member is down", i, r.Prop))
		} else if clock-since <= c.T {
			c.Bad = append(c.Bad, i)
			c.Oracle = append(c.Oracle, fmt.Sprintf("round %d: ClearEntryLog(%d) proposed while a member is down, but the group has been unhealthy without interruption for only %d units (tolerate time %d.5 units)", i, r.Prop, clock-since, c.T))
		}
	}
}

func setTolerate(d time.Duration) {
	config.GetStoreConfig().ClearEntryLogTolerateTime = toml.Duration(d)
}

func genTrunc(r prng, w *truncWorld) *TruncCase {
	c := &TruncCase{Kind: "trunc", T: []int{2, 3, 5, 8}[r.Intn(4)]}
	n := r.Range(5, 14)
	fs := uint64(entryFileSize)
	snap := uint64(0)
	if r.Chance(4, 5) {
		snap = pickIndex(r, w, fs)
	}
	down := -1 // member that is down (1 or 2), -1: healthy
	lead := true
	for i := 0; i < n; i++ {
		rd := TRound{}
		switch r.Intn(10) {
		case 0, 1, 2:
			rd.Adv = 0
		case 3, 4, 5:
			rd.Adv = 1
		case 6:
			rd.Adv = c.T - 1
		case 7:
			rd.Adv = c.T
		case 8:
			rd.Adv = c.T + 1
		default:
			rd.Adv = 3*c.T + r.Intn(4)
		}
		if down < 0 {
			if r.Chance(2, 5) {
				down = r.Range(1, 2)
			}
		} else if r.Chance(1, 3) {
			down = -1
		} else if r.Chance(1, 8) {
			down = 3 - down // the other member instead
		}
		if r.Chance(1, 6) {
			lead = !lead
		}
		rd.Lead = lead
		rd.Alive = []bool{true, down != 1, down != 2}
		if r.Chance(1, 25) {
			rd.Alive[1], rd.Alive[2] = false, false
		}
		if snap == 0 && r.Chance(1, 3) || snap > 0 && r.Chance(1, 5) {
			s := pickIndex(r, w, fs)
			if s > snap {
				snap = s
			}
		}
		rd.Snap = snap
		rd.Match = []uint64{w.last, pickIndex(r, w, fs), pickIndex(r, w, fs)}
		if r.Chance(1, 3) {
			rd.Match[1] = w.last
		}
		if r.Chance(1, 3) {
			rd.Match[2] = w.last
		}
		if r.Chance(1, 20) {
			rd.Match[r.Range(1, 2)] = 0
		}
		c.Rounds = append(c.Rounds, rd)
	}
	return c
}

// indexes around the file boundaries, the ends of the log and in between
func pickIndex(r prng, w *truncWorld, fs uint64) uint64 {
	var v uint64
	switch r.Intn(6) {
	case 0:
		v = w.first + uint64(r.Intn(50))
	case 1:
		v = w.last - uint64(r.Intn(50))
	case 2, 3:
		k := uint64(r.Range(1, int(w.last/fs)))
		v = k*fs - 3 + uint64(r.Intn(7)) // fs*k-3 .. fs*k+3
	default:
		v = w.first + uint64(r.Intn(int(w.last-w.first+1)))
	}
	if v < w.first {
		v = w.first
	}
	if v > w.last {
		v = w.last
	}
	return v
}

// the classes the model's theorems / refutations talk about
func corpusTrunc() []*TruncCase {
	al, d2 := []bool{true, true, true}, []bool{true, true, false}
	m := func(a, b, c uint64) []uint64 { return []uint64{a, b, c} }
	L := uint64(60100)
	return []*TruncCase{
		// outage, recovery, long healthy period, second outage: nothing may be forced at the start of the second outage
		{Kind: "trunc", T: 3, Rounds: []TRound{
			{Adv: 0, Lead: true, Alive: d2, Match: m(L, L, 100), Snap: 60050},
			{Adv: 1, Lead: true, Alive: al, Match: m(L, L, L), Snap: 60050},
			{Adv: 10, Lead: true, Alive: d2, Match: m(L, L, 60060), Snap: 60080},
			{Adv: 1, Lead: true, Alive: d2, Match: m(L, L, 60060), Snap: 60080},
			{Adv: 3, Lead: true, Alive: d2, Match: m(L, L, 60060), Snap: 60080},
		}},
		// a continuous outage longer than the tolerate time: the forced branch fires once, then the period restarts
		{Kind: "trunc", T: 2, Rounds: []TRound{
			{Adv: 0, Lead: true, Alive: d2, Match: m(L, 45000, 7), Snap: 60050},
			{Adv: 1, Lead: true, Alive: d2, Match: m(L, 45000, 7), Snap: 60050},
			{Adv: 2, Lead: true, Alive: d2, Match: m(L, 45000, 7), Snap: 60050},
			{Adv: 1, Lead: true, Alive: d2, Match: m(L, 60070, 7), Snap: 60050},
		}},
		// leadership lost while the tolerance period runs, group healthy again, leadership regained much later
		// during a short second outage
		{Kind: "trunc", T: 3, Rounds: []TRound{
			{Adv: 0, Lead: true, Alive: d2, Match: m(L, L, 100), Snap: 60050},
			{Adv: 1, Lead: false, Alive: d2, Match: m(L, L, 100), Snap: 60050},
			{Adv: 1, Lead: false, Alive: al, Match: m(L, L, L), Snap: 60050},
			{Adv: 20, Lead: false, Alive: al, Match: m(L, L, L), Snap: 60050},
			{Adv: 1, Lead: true, Alive: d2, Match: m(L, L, 60060), Snap: 60080},
		}},
		// no snapshot yet: nothing happens, not even the clock starts
		{Kind: "trunc", T: 2, Rounds: []TRound{
			{Adv: 0, Lead: true, Alive: d2, Match: m(L, L, 5), Snap: 0},
			{Adv: 5, Lead: true, Alive: d2, Match: m(L, L, 5), Snap: 0},
			{Adv: 0, Lead: true, Alive: d2, Match: m(L, L, 5), Snap: 30001},
			{Adv: 3, Lead: true, Alive: d2, Match: m(L, 30000, 5), Snap: 30001},
		}},
		// healthy rounds around the file boundaries
		{Kind: "trunc", T: 2, Rounds: []TRound{
			{Adv: 0, Lead: true, Alive: al, Match: m(L, 30000, L), Snap: 30001},
			{Adv: 0, Lead: true, Alive: al, Match: m(L, 30001, L), Snap: 30001},
			{Adv: 0, Lead: true, Alive: al, Match: m(L, 60000, 60001), Snap: 60001},
			{Adv: 0, Lead: true, Alive: al, Match: m(L, 60001, 60001), Snap: 60100},
			{Adv: 0, Lead: true, Alive: al, Match: m(L, 0, L), Snap: 60100},
		}},
	}
}
