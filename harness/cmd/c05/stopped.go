package main

import (
	"fmt"
	"path/filepath"
	"time"

	"github.com/openGemini/openGemini/lib/raftlog"
)

// StoppedCase: a write that reaches WriteToRaft while the partition's raft node has been stopped (partition close /
// offload). Observation only (outside C05's fault space of kills, restarts and pauses).
type StoppedCase struct {
	Kind     string `json:"kind"` // "stopped"
	Returned bool   `json:"returned"`
	Acked    bool   `json:"acked"` // WriteToRaft returned nil although nothing was proposed
	Proposed bool   `json:"proposed"`
	Err      string `json:"err"`
}

func runStopped(work string) *StoppedCase {
	c := &StoppedCase{Kind: "stopped"}
	store, err := raftlog.Init(filepath.Join(work, fmt.Sprintf("stopped-%d", time.Now().UnixNano())), 0)
	if err != nil {
		c.Err = err.Error()
		return c
	}
	defer store.Close()
	w := &ackWorld{store: store, st: &recStorage{}, mc: &fakeMeta{}, seenPid: map[uint64]int{}}
	w.start()
	w.node.Stop()
	done := make(chan error, 1)
	go func() { done <- w.eng.WriteToRaft("db0", "autogen", 0, tailOf([][2]int64{{1, 1}})) }()
	select {
	case e := <-done:
		c.Returned = true
		c.Acked = e == nil
		if e != nil {
			c.Err = e.Error()
		}
	case <-time.After(3 * time.Second):
	}
	_, n := w.st.snapshot()
	c.Proposed = n > 0
	return c
}
