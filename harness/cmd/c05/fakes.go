package main

import (
	"errors"
	"sync"
	"time"

	"github.com/openGemini/openGemini/engine"
	"github.com/openGemini/openGemini/lib/metaclient"
	"github.com/openGemini/openGemini/lib/raftlog"
	"github.com/openGemini/openGemini/lib/util/lifted/hashicorp/serf/serf"
	meta2 "github.com/openGemini/openGemini/lib/util/lifted/influx/meta"
	"github.com/openGemini/openGemini/lib/util/lifted/vm/protoparser/influx"
)

// fakeMeta implements only what the raft commit/apply path asks of the meta client.
type fakeMeta struct {
	metaclient.MetaClient
}

func (m *fakeMeta) ShardOwner(shardID uint64) (string, string, *meta2.ShardGroupInfo) {
	return "db0", "autogen", &meta2.ShardGroupInfo{ID: 1, Shards: []meta2.ShardInfo{{ID: 11}, {ID: 12}, {ID: 13}}}
}

func (m *fakeMeta) DataNode(id uint64) (*meta2.DataNode, error) {
	return &meta2.DataNode{NodeInfo: meta2.NodeInfo{ID: id, Status: serf.StatusAlive}}, nil
}

// recStorage is the shard of the in-process tie: a recording last-write-wins map. Apply can be gated (blocked until
// released) or made to fail, per call.
type applyRec struct {
	Seq  int     // order of completion
	Keys []int64 // timestamps written (the key of the model)
	Vals []int64
}

type recStorage struct {
	engine.StorageService
	mu      sync.Mutex
	applied []applyRec
	lww     map[int64]int64
	gate    chan struct{} // if non-nil, every Write waits for one token before applying
	failAll bool
	entered chan struct{} // signalled when a Write has entered (before the gate)
	// value-based hold: an apply that carries one of these values waits until holdRelease() is true (or holdMax passed)
	holdVals    map[int64]bool
	holdRelease func() bool
	holdMax     time.Duration
	held        int // applies that were held
}

var errInjected = errors.New("injected apply failure")

func (s *recStorage) Write(db, rp, mst string, ptId uint32, shardID uint64, writeData func() error) error {
	if s.entered != nil {
		s.entered <- struct{}{}
	}
	if s.gate != nil {
		<-s.gate
	}
	if s.failAll {
		return errInjected
	}
	return writeData()
}

func (s *recStorage) WriteDataFunc(db, rp string, ptId uint32, shardID uint64, rows []influx.Row, binaryRows []byte, snp *raftlog.SnapShotter) error {
	s.mu.Lock()
	hv, rel, hmax := s.holdVals, s.holdRelease, s.holdMax
	s.mu.Unlock()
	if hv != nil && rel != nil {
		hold := false
		for i := range rows {
			for _, f := range rows[i].Fields {
				if f.Key == "v" && hv[int64(f.NumValue)] {
					hold = true
				}
			}
		}
		if hold {
			s.mu.Lock()
			s.held++
			s.mu.Unlock()
			end := time.Now().Add(hmax)
			for !rel() && time.Now().Before(end) {
				time.Sleep(5 * time.Millisecond)
			}
		}
	}
	s.mu.Lock()
	defer s.mu.Unlock()
	if s.lww == nil {
		s.lww = map[int64]int64{}
	}
	r := applyRec{Seq: len(s.applied)}
	for i := range rows {
		var v int64
		for _, f := range rows[i].Fields {
			if f.Key == "v" {
				v = int64(f.NumValue)
			}
		}
		s.lww[rows[i].Timestamp] = v
		r.Keys = append(r.Keys, rows[i].Timestamp)
		r.Vals = append(r.Vals, v)
	}
	s.applied = append(s.applied, r)
	return nil
}

func (s *recStorage) GetNodeId() uint64 { return 1 }

func (s *recStorage) snapshot() (map[int64]int64, int) {
	s.mu.Lock()
	defer s.mu.Unlock()
	m := make(map[int64]int64, len(s.lww))
	for k, v := range s.lww {
		m[k] = v
	}
	return m, len(s.applied)
}
