// C08 operator level, part 4: the REAL merge operators on every cut of their input streams.
//
//	kind "merge":     executor.MergeTransform (ordered merge of the readers' partial-aggregate streams below the
//	                  aggregation). Inputs are ordered by (group, time window); oracle: the flattened output is a permutation
//	                  of the input rows, ordered by (group, window), and the interval index of every output chunk marks
//	                  exactly the positions where (group, window) changes (the aggregation above folds by these marks).
//	kind "sortmerge": executor.SortedMergeTransform (plain selections). Inputs are ordered by (group, time, cells with
//	                  null first); oracle: the flattened output is exactly the sorted sequence of all input rows.
//
// The driver has the Coq L2 merges (Pipe.kmerge_k / Model.merge_k) recompute every case.
package main

import (
	"context"
	"fmt"
	"sort"
	"time"

	"github.com/openGemini/openGemini/engine/executor"
	"github.com/openGemini/openGemini/engine/hybridqp"
	"github.com/openGemini/openGemini/lib/util/lifted/influx/influxql"
	"github.com/openGemini/openGemini/lib/util/lifted/influx/query"
	"verifharness/internal/gen"
)

type MRow struct {
	G  int      `json:"g"`
	T  int64    `json:"t"`
	C  []*int64 `json:"c"`
	In int      `json:"in,omitempty"` // sortappend: the input (= measurement) the row comes from
}
type MergeStream struct {
	Kind    string   `json:"kind"`
	Cols    []string `json:"cols"`
	Grouped bool     `json:"grouped"`
	HasIv   bool     `json:"has_iv"`
	Desc    bool     `json:"desc"`
	Inputs  [][]MRow `json:"inputs"`
}
type MergeCase struct {
	Stream    *MergeStream `json:"stream"`
	ChunkSize int          `json:"chunk_size"`
	Cuts      [][]int      `json:"cuts"` // one cut per input
	Got       []MRow       `json:"got"`
	Want      []MRow       `json:"want"` // sortmerge: the exact expected sequence; merge: one admissible order
	Marks     string       `json:"marks,omitempty"`
	Fail      []string     `json:"fail"`
}

func (s *MergeStream) win(t int64) int64 {
	if !s.HasIv {
		return 0
	}
	return floorDivW(t, iv)
}

// cmpRow: total order of rows (ascending): group, time, then cells with null first
func cmpRow(a, b MRow) int {
	if a.G != b.G {
		if a.G < b.G {
			return -1
		}
		return 1
	}
	if a.T != b.T {
		if a.T < b.T {
			return -1
		}
		return 1
	}
	for k := range a.C {
		x, y := a.C[k], b.C[k]
		switch {
		case x == nil && y == nil:
		case x == nil:
			return -1
		case y == nil:
			return 1
		case *x != *y:
			if *x < *y {
				return -1
			}
			return 1
		}
	}
	return 0
}

func sortRows(rows []MRow, desc bool) {
	sort.SliceStable(rows, func(i, j int) bool {
		if desc {
			return cmpRow(rows[i], rows[j]) > 0
		}
		return cmpRow(rows[i], rows[j]) < 0
	})
}

func mergeChunks(s *MergeStream, rt hybridqp.RowDataType, rows []MRow, cut []int, name string) []executor.Chunk {
	b := executor.NewChunkBuilder(rt)
	var chunks []executor.Chunk
	pos := 0
	for _, n := range cut {
		if pos >= len(rows) {
			break
		}
		end := pos + n
		if end > len(rows) {
			end = len(rows)
		}
		part := rows[pos:end]
		pos = end
		ck := b.NewChunk(name)
		var tags []executor.ChunkTags
		var tagIdx, ivIdx []int
		var times []int64
		for i, r := range part {
			if i == 0 || part[i-1].G != r.G {
				if s.Grouped {
					tags = append(tags, hostTag(r.G))
				} else {
					tags = append(tags, executor.ChunkTags{})
				}
				tagIdx = append(tagIdx, i)
			}
			if i == 0 || part[i-1].G != r.G || (s.HasIv && s.win(part[i-1].T) != s.win(r.T)) {
				ivIdx = append(ivIdx, i)
			}
			times = append(times, r.T)
		}
		ck.AppendTagsAndIndexes(tags, tagIdx)
		ck.AppendIntervalIndexes(ivIdx)
		ck.AppendTimes(times)
		for ci, kind := range s.Cols {
			col := ck.Column(ci)
			for _, r := range part {
				v := r.C[ci]
				if v == nil {
					col.AppendNil()
					continue
				}
				if kind == "float" {
					col.AppendFloatValue(float64(*v))
				} else {
					col.AppendIntegerValue(*v)
				}
				col.AppendNotNil()
			}
		}
		chunks = append(chunks, ck)
	}
	return chunks
}

type outChunk struct {
	rows   []MRow
	ivIdx  []int
	tagIdx []int
}

type chunkSink struct {
	executor.BaseProcessor
	in      *executor.ChunkPort
	cols    []string
	grouped bool
	chunks  []outChunk
}

func (s *chunkSink) Name() string                  { return "c08opChunkSink" }
func (s *chunkSink) Explain() []executor.ValuePair { return nil }
func (s *chunkSink) Close()                        {}
func (s *chunkSink) Release() error                { return nil }
func (s *chunkSink) Work(ctx context.Context) error {
	for {
		select {
		case c, ok := <-s.in.State:
			if !ok {
				return nil
			}
			s.take(c)
		case <-ctx.Done():
			return nil
		}
	}
}
func (s *chunkSink) take(c executor.Chunk) {
	oc := outChunk{ivIdx: append([]int{}, c.IntervalIndex()...), tagIdx: append([]int{}, c.TagIndex()...)}
	ti := c.TagIndex()
	for i := 0; i < c.NumberOfRows(); i++ {
		g := 0
		for k := range ti {
			if ti[k] <= i {
				g = k
			}
		}
		tag := ""
		if len(c.Tags()) > g {
			tag = string(c.Tags()[g].Subset(nil))
		}
		r := MRow{G: groupOfTag(s.grouped, tag), T: c.TimeByIndex(i), C: make([]*int64, len(s.cols))}
		for ci, kind := range s.cols {
			col := c.Column(ci)
			if col.IsNilV2(i) {
				continue
			}
			vi := col.GetValueIndexV2(i)
			var v int64
			if kind == "float" {
				v = int64(col.FloatValue(vi))
			} else {
				v = col.IntegerValue(vi)
			}
			r.C[ci] = &v
		}
		oc.rows = append(oc.rows, r)
	}
	s.chunks = append(s.chunks, oc)
}
func (s *chunkSink) GetOutputs() executor.Ports        { return executor.Ports{} }
func (s *chunkSink) GetInputs() executor.Ports         { return executor.Ports{s.in} }
func (s *chunkSink) GetOutputNumber(executor.Port) int { return 0 }
func (s *chunkSink) GetInputNumber(executor.Port) int  { return 0 }

func runMerge(s *MergeStream, chunkSize int, cuts [][]int) (out []outChunk, err error) {
	defer func() {
		if e := recover(); e != nil {
			err = fmt.Errorf("panic: %v", e)
		}
	}()
	rt := plainRowType(s.Cols)
	var fields influxql.Fields
	var names []string
	for i, c := range s.Cols {
		t := influxql.Integer
		if c == "float" {
			t = influxql.Float
		}
		var e influxql.Expr = &influxql.VarRef{Val: fmt.Sprintf("v%d", i), Type: t}
		if s.Kind == "merge" {
			e = &influxql.Call{Name: "sum", Args: []influxql.Expr{e}}
		}
		fields = append(fields, &influxql.Field{Expr: e})
		names = append(names, fmt.Sprintf("v%d", i))
	}
	opt := query.ProcessorOptions{Ordered: true, Ascending: !s.Desc, ChunkSize: chunkSize}
	if s.Grouped {
		opt.Dimensions = []string{"host"}
	}
	if s.HasIv {
		opt.Interval = hybridqp.Interval{Duration: time.Duration(iv)}
	}
	schema := executor.NewQuerySchema(fields, names, &opt, nil)
	schema.SetOpt(&opt)
	var inRTs []hybridqp.RowDataType
	for range s.Inputs {
		inRTs = append(inRTs, rt)
	}
	var trans *executor.MergeTransform
	switch s.Kind {
	case "merge":
		trans = executor.NewMergeTransform(inRTs, []hybridqp.RowDataType{rt}, nil, schema)
	case "sortappend":
		// one input per measurement (m0, m1, ..), identical columns: the reflection tables are the identity
		trans = executor.NewSortAppendTransform(inRTs, []hybridqp.RowDataType{rt}, schema, []hybridqp.QueryNode{})
		ident := make(executor.ReflectionTable, len(s.Cols))
		for i := range ident {
			ident[i] = i
		}
		for range s.Inputs {
			trans.ReflectionTables = append(trans.ReflectionTables, ident)
		}
	default:
		trans = executor.NewSortedMergeTransform(inRTs, []hybridqp.RowDataType{rt}, nil, schema)
	}
	ps := executor.Processors{}
	for i, rows := range s.Inputs {
		name := "m"
		if s.Kind == "sortappend" {
			name = fmt.Sprintf("m%d", i)
		}
		src := &source{out: executor.NewChunkPort(rt), chunks: mergeChunks(s, rt, rows, cuts[i], name)}
		if e := executor.Connect(src.out, trans.Inputs[i]); e != nil {
			return nil, e
		}
		ps = append(ps, src)
	}
	snk := &chunkSink{in: executor.NewChunkPort(rt), cols: s.Cols, grouped: s.Grouped}
	if e := executor.Connect(trans.Outputs[0], snk.in); e != nil {
		return nil, e
	}
	ps = append(ps, trans, snk)
	if e := execute(ps); e != nil {
		return nil, e
	}
	return snk.chunks, nil
}

func flatRows(cs []outChunk) []MRow {
	var out []MRow
	for _, c := range cs {
		out = append(out, c.rows...)
	}
	return out
}

func eqMRows(a, b []MRow) bool {
	if len(a) != len(b) {
		return false
	}
	for i := range a {
		if cmpRow(a[i], b[i]) != 0 {
			return false
		}
	}
	return true
}

// checkMerge: oracles of kind "merge" on the output chunks
func checkMerge(s *MergeStream, out []outChunk, all []MRow) (fails []string, marks string) {
	got := append([]MRow{}, flatRows(out)...)
	// ordered by (group, window)
	for i := 1; i < len(got); i++ {
		a, b := got[i-1], got[i]
		ka, kb := int64(a.G)*1000+s.win(a.T), int64(b.G)*1000+s.win(b.T)
		if (!s.Desc && ka > kb) || (s.Desc && ka < kb) {
			fails = append(fails, "order")
			break
		}
	}
	// permutation of the inputs
	x, y := append([]MRow{}, got...), append([]MRow{}, all...)
	sortRows(x, false)
	sortRows(y, false)
	if !eqMRows(x, y) {
		fails = append(fails, "permutation")
	}
	// interval marks = positions where (group, window) changes
	for ci, c := range out {
		var want []int
		for i, r := range c.rows {
			if i == 0 || c.rows[i-1].G != r.G || s.win(c.rows[i-1].T) != s.win(r.T) {
				want = append(want, i)
			}
		}
		if fmt.Sprint(want) != fmt.Sprint(c.ivIdx) {
			fails = append(fails, "marks")
			marks = fmt.Sprintf("chunk %d: interval index %v, (group,window) changes at %v", ci, c.ivIdx, want)
			break
		}
	}
	return
}

func genMergeStream(r *gen.Rand, kind string) *MergeStream {
	s := &MergeStream{Kind: kind, Grouped: r.Chance(2, 3), Desc: r.Chance(1, 3)}
	if kind == "merge" {
		s.HasIv = r.Chance(3, 4)
	}
	ncol := r.Range(1, 2)
	for k := 0; k < ncol; k++ {
		s.Cols = append(s.Cols, gen.Pick(r, []string{"int", "float"}))
	}
	k := r.Range(2, 3)
	s.Inputs = make([][]MRow, k)
	ng := 1
	if s.Grouped {
		ng = r.Range(1, 3)
	}
	sh := gen.Pick(r, []int64{0, 0, -1, -2, -4}) // windows before the epoch and straddling 0
	for g := 0; g < ng; g++ {
		n := r.Range(1, 7)
		for i := 0; i < n; i++ {
			t := (int64(r.Range(0, 3))+sh)*iv + gen.Pick(r, []int64{0, 0, 1, 4, 9, 9})
			row := MRow{G: g, T: t, C: make([]*int64, ncol)}
			any := false
			for ci := range row.C {
				if r.Chance(3, 4) {
					v := int64(r.Range(1, 5))
					row.C[ci] = &v
					any = true
				}
			}
			if !any {
				v := int64(r.Range(1, 5))
				row.C[0] = &v
			}
			in := r.Range(0, k-1)
			if kind == "sortappend" {
				// rows of one measurement have distinct (group, time); the order between measurements is by name
				row.In = in
				dup := false
				for _, o := range s.Inputs[in] {
					dup = dup || (o.G == row.G && o.T == row.T)
				}
				if dup {
					continue
				}
			}
			s.Inputs[in] = append(s.Inputs[in], row)
		}
	}
	var keep [][]MRow
	for _, in := range s.Inputs {
		if len(in) > 0 {
			sortRows(in, s.Desc)
			keep = append(keep, in)
		}
	}
	s.Inputs = keep
	if kind == "sortappend" { // the measurement of a row is the input it ends up in
		for k := range s.Inputs {
			for j := range s.Inputs[k] {
				s.Inputs[k][j].In = k
			}
		}
	}
	return s
}

func runMergeCases(r *gen.Rand, n int, kind string) {
	for i := 0; i < n; i++ {
		s := genMergeStream(r, kind)
		if len(s.Inputs) == 0 {
			continue
		}
		if tooManyTimeouts() {
			return
		}
		var all []MRow
		for _, in := range s.Inputs {
			all = append(all, in...)
		}
		want := append([]MRow{}, all...)
		sortRows(want, s.Desc)
		if kind == "sortappend" {
			// (group, time, measurement name), all three reversed in a descending statement
			sort.SliceStable(want, func(i, j int) bool {
				a, b := want[i], want[j]
				if a.G != b.G {
					return (a.G < b.G) != s.Desc
				}
				if a.T != b.T {
					return (a.T < b.T) != s.Desc
				}
				return (a.In < b.In) != s.Desc
			})
		}
		// cut combinations: all uncut; every single cut position of one input; all singletons; two random ones
		uncutAll := make([][]int, len(s.Inputs))
		for k, in := range s.Inputs {
			uncutAll[k] = []int{len(in)}
		}
		combos := [][][]int{uncutAll}
		for k, in := range s.Inputs {
			for p := 1; p < len(in); p++ {
				c := make([][]int, len(s.Inputs))
				copy(c, uncutAll)
				c[k] = []int{p, len(in) - p}
				combos = append(combos, c)
			}
		}
		ones := make([][]int, len(s.Inputs))
		for k, in := range s.Inputs {
			ones[k] = make([]int, len(in))
			for j := range ones[k] {
				ones[k][j] = 1
			}
		}
		combos = append(combos, ones)
		for x := 0; x < 2; x++ {
			c := make([][]int, len(s.Inputs))
			for k, in := range s.Inputs {
				left := len(in)
				for left > 0 {
					y := r.Range(1, 3)
					if y > left {
						y = left
					}
					c[k] = append(c[k], y)
					left -= y
				}
			}
			combos = append(combos, c)
		}
		for _, cs := range []int{1024, 1, 2, 3} {
			for _, cuts := range combos {
				c := &MergeCase{Stream: s, ChunkSize: cs, Cuts: cuts, Want: want}
				out, err := runMerge(s, cs, cuts)
				c.Got = flatRows(out)
				if err != nil {
					c.Fail = append(c.Fail, "error:"+err.Error())
				} else if kind == "merge" {
					c.Fail, c.Marks = checkMerge(s, out, all)
				} else if !eqMRows(c.Got, want) {
					c.Fail = append(c.Fail, "spec")
				}
				if kind == "sortappend" {
					for i := range c.Got { // the sink does not see the measurement; take it from the expected sequence for the model
						if i < len(want) {
							c.Got[i].In = want[i].In
						}
					}
				}
				gen.Emit(map[string]any{"mergecase": c})
			}
		}
	}
}
