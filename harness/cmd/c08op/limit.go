// C08 operator level, part 3: the REAL executor.LimitTransform (LIMIT/OFFSET of an ungrouped selection,
// hybridqp.SingleRowIgnoreTagLimit as QuerySchema.LimitType chooses for the core language) on every cut of a row stream.
// Oracle: flattened output = rows[offset : offset+limit] and = the uncut run; the Coq L2 limit machine recomputes it.
package main

import (
	"fmt"

	"github.com/openGemini/openGemini/engine/executor"
	"github.com/openGemini/openGemini/engine/hybridqp"
	"github.com/openGemini/openGemini/lib/util/lifted/influx/influxql"
	"github.com/openGemini/openGemini/lib/util/lifted/influx/query"
	"verifharness/internal/gen"
)

type LimitStream struct {
	Cols   []string `json:"cols"` // int | float
	Limit  int      `json:"limit"`
	Offset int      `json:"offset"`
	Desc   bool     `json:"desc"`
	Tags   []int    `json:"tags"` // series tag id per row (not grouped by: must not influence the result)
	Rows   []Row    `json:"rows"`
}
type LimitCase struct {
	Stream    *LimitStream `json:"stream"`
	ChunkSize int          `json:"chunk_size"`
	Cut       []int        `json:"cut"`
	Got       []Row        `json:"got"`
	Want      []Row        `json:"want"`
	Fail      []string     `json:"fail"`
}

func plainRowType(cols []string) hybridqp.RowDataType {
	var refs []influxql.VarRef
	for i, c := range cols {
		t := influxql.Integer
		if c == "float" {
			t = influxql.Float
		}
		refs = append(refs, influxql.VarRef{Val: fmt.Sprintf("val%d", i), Type: t})
	}
	return hybridqp.NewRowDataTypeImpl(refs...)
}

// plainChunks cuts rows (with a series tag per row) into chunks; a new tag entry starts where the series changes
func plainChunks(rt hybridqp.RowDataType, cols []string, rows []Row, tags []int, cut []int, withIv bool) []executor.Chunk {
	b := executor.NewChunkBuilder(rt)
	var chunks []executor.Chunk
	pos := 0
	for _, n := range cut {
		if pos >= len(rows) {
			break
		}
		end := pos + n
		if end > len(rows) {
			end = len(rows)
		}
		ck := b.NewChunk("m")
		var ctags []executor.ChunkTags
		var tagIdx []int
		var times []int64
		for i := pos; i < end; i++ {
			if i == pos || tags[i] != tags[i-1] {
				ctags = append(ctags, hostTag(tags[i]))
				tagIdx = append(tagIdx, i-pos)
			}
			times = append(times, rows[i].T)
		}
		ck.AppendTagsAndIndexes(ctags, tagIdx)
		ck.AppendIntervalIndexes(tagIdx)
		ck.AppendTimes(times)
		for ci, kind := range cols {
			col := ck.Column(ci)
			for i := pos; i < end; i++ {
				v := rows[i].C[ci]
				if v == nil {
					col.AppendNil()
					continue
				}
				if kind == "float" {
					col.AppendFloatValue(float64(*v))
				} else {
					col.AppendIntegerValue(*v)
				}
				col.AppendNotNil()
			}
		}
		chunks = append(chunks, ck)
		pos = end
	}
	return chunks
}

func runLimit(s *LimitStream, chunkSize int, cut []int) (out []Row, err error) {
	defer func() {
		if e := recover(); e != nil {
			err = fmt.Errorf("panic: %v", e)
		}
	}()
	rt := plainRowType(s.Cols)
	opt := query.ProcessorOptions{Ordered: true, Ascending: !s.Desc, ChunkSize: chunkSize, Limit: s.Limit, Offset: s.Offset}
	trans := executor.NewLimitTransform([]hybridqp.RowDataType{rt}, []hybridqp.RowDataType{rt}, &opt,
		executor.LimitTransformParameters{Limit: s.Limit, Offset: s.Offset, LimitType: hybridqp.SingleRowIgnoreTagLimit})
	src := &source{out: executor.NewChunkPort(rt), chunks: plainChunks(rt, s.Cols, s.Rows, s.Tags, cut, false)}
	snk := &sink{in: executor.NewChunkPort(rt), cols: s.Cols}
	if e := executor.Connect(src.out, trans.Inputs[0]); e != nil {
		return nil, e
	}
	if e := executor.Connect(trans.Outputs[0], snk.in); e != nil {
		return nil, e
	}
	if e := execute(executor.Processors{src, trans, snk}); e != nil {
		return nil, e
	}
	for _, r := range snk.rows {
		out = append(out, r.r)
	}
	return out, nil
}

func eqRows(a, b []Row) bool {
	if len(a) != len(b) {
		return false
	}
	for i := range a {
		if a[i].T != b[i].T || len(a[i].C) != len(b[i].C) {
			return false
		}
		for k := range a[i].C {
			x, y := a[i].C[k], b[i].C[k]
			if (x == nil) != (y == nil) || (x != nil && *x != *y) {
				return false
			}
		}
	}
	return true
}

func genPlainRows(r *gen.Rand, ncol, n int, desc bool) ([]Row, []int) {
	var rows []Row
	var tags []int
	t := int64(0)
	for i := 0; i < n; i++ {
		if !r.Chance(1, 4) { // equal timestamps occur
			t += int64(r.Range(1, 5))
		}
		row := Row{T: t, C: make([]*int64, ncol)}
		any := false
		for ci := range row.C {
			if r.Chance(3, 4) {
				v := int64(r.Range(1, 9))
				row.C[ci] = &v
				any = true
			}
		}
		if !any {
			v := int64(r.Range(1, 9))
			row.C[0] = &v
		}
		rows = append(rows, row)
		tags = append(tags, r.Range(0, 2))
	}
	if desc {
		for i, j := 0, len(rows)-1; i < j; i, j = i+1, j-1 {
			rows[i], rows[j] = rows[j], rows[i]
			tags[i], tags[j] = tags[j], tags[i]
		}
	}
	return rows, tags
}

func runLimitCases(r *gen.Rand, n int) {
	for i := 0; i < n; i++ {
		s := &LimitStream{Limit: r.Range(1, 4), Offset: r.Range(0, 3), Desc: r.Chance(1, 3)}
		ncol := r.Range(1, 2)
		for k := 0; k < ncol; k++ {
			s.Cols = append(s.Cols, gen.Pick(r, []string{"int", "float"}))
		}
		s.Rows, s.Tags = genPlainRows(r, ncol, r.Range(1, 9), s.Desc)
		if tooManyTimeouts() {
			return
		}
		total := len(s.Rows)
		lo, hi := s.Offset, s.Offset+s.Limit
		if lo > total {
			lo = total
		}
		if hi > total {
			hi = total
		}
		want := s.Rows[lo:hi]
		for _, cs := range []int{1024, 1, 2} {
			uncut, uerr := runLimit(s, cs, []int{total})
			for _, cut := range cutsOf(r, total) {
				c := &LimitCase{Stream: s, ChunkSize: cs, Cut: cut, Want: want}
				got, err := runLimit(s, cs, cut)
				c.Got = got
				if err != nil {
					c.Fail = append(c.Fail, "error:"+err.Error())
				} else {
					if !eqRows(got, want) {
						c.Fail = append(c.Fail, "spec")
					}
					if uerr == nil && !eqRows(got, uncut) {
						c.Fail = append(c.Fail, "invariance")
					}
				}
				gen.Emit(map[string]any{"limitcase": c})
			}
		}
	}
}
