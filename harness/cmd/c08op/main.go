// C08 operator-level harness (C1): drives the repository's REAL executor.FillTransform with small generated
// bucket-row streams, cut at every position (and with random multi-cuts) and for several ProcessorOptions.ChunkSize
// values, and compares the flattened output
//
//	(i)  with the uncut run (direct oracle: chunking invariance at operator level) and
//	(ii) with the specification of the operator (Go twin of the Coq L2 fill machine; the driver has the Coq model
//	     recompute it on the same cuts).
//
// One JSON object per case on stdout.
//
// usage: c08op <nStreams> [all|fill|agg|limit|merge]
package main

import (
	"context"
	"fmt"
	"os"
	"strconv"
	"time"

	"github.com/openGemini/openGemini/engine/executor"
	"github.com/openGemini/openGemini/engine/hybridqp"
	"github.com/openGemini/openGemini/lib/util/lifted/influx/influxql"
	"github.com/openGemini/openGemini/lib/util/lifted/influx/query"
	"github.com/openGemini/openGemini/lib/util/lifted/vm/protoparser/influx"
	"verifharness/internal/gen"
)

const iv = int64(10) // bucket width (ns)

type Row struct {
	T int64    `json:"t"`
	C []*int64 `json:"c"`
}
type Group struct {
	Tag  int   `json:"tag"` // host value id
	Rows []Row `json:"rows"`
}
type Stream struct {
	Cols    []string `json:"cols"` // count | int | float
	Fill    string   `json:"fill"` // null num prev
	FillN   int64    `json:"filln"`
	Desc    bool     `json:"desc"`
	Grouped bool     `json:"grouped"` // GROUP BY host (else a single group without dimensions)
	NB      int      `json:"nb"`      // buckets 0 .. nb-1 (times k*iv)
	Groups  []Group  `json:"groups"`  // in iteration order; rows in iteration order
}
type Case struct {
	Stream    *Stream  `json:"stream"`
	ChunkSize int      `json:"chunk_size"`
	Cut       []int    `json:"cut"` // sizes of the input chunks (rows of the flattened stream)
	Got       []Group  `json:"got"`
	Want      []Group  `json:"want"`  // specification
	Uncut     []Group  `json:"uncut"` // same ChunkSize, one input chunk
	Fail      []string `json:"fail"`  // spec | invariance | error:...
	SplitPath bool     `json:"split_path"`
	FastPath  bool     `json:"fast_path"`
}

func hostTag(id int) executor.ChunkTags {
	return *executor.NewChunkTags(influx.PointTags{{Key: "host", Value: string(rune('a' + id))}}, []string{"host"})
}

func rowType(cols []string) hybridqp.RowDataType {
	var refs []influxql.VarRef
	for i, c := range cols {
		switch c {
		case "count":
			refs = append(refs, influxql.VarRef{Val: fmt.Sprintf(`count("v%d")`, i), Type: influxql.Integer})
		case "int":
			refs = append(refs, influxql.VarRef{Val: fmt.Sprintf(`max("v%d")`, i), Type: influxql.Integer})
		default:
			refs = append(refs, influxql.VarRef{Val: fmt.Sprintf(`sum("v%d")`, i), Type: influxql.Float})
		}
	}
	return hybridqp.NewRowDataTypeImpl(refs...)
}

func schemaOf(s *Stream, chunkSize int) *executor.QuerySchema {
	var fields influxql.Fields
	var names []string
	for i, c := range s.Cols {
		fn, typ := "sum", influxql.Float
		switch c {
		case "count":
			fn, typ = "count", influxql.Integer
		case "int":
			fn, typ = "max", influxql.Integer
		}
		fields = append(fields, &influxql.Field{Expr: &influxql.Call{Name: fn, Args: []influxql.Expr{&influxql.VarRef{Val: fmt.Sprintf("v%d", i), Type: typ}}}})
		names = append(names, fmt.Sprintf("v%d", i))
	}
	opt := query.ProcessorOptions{
		Interval:  hybridqp.Interval{Duration: time.Duration(iv)},
		StartTime: 0,
		EndTime:   int64(s.NB)*iv - 1,
		Ordered:   true,
		Ascending: !s.Desc,
		ChunkSize: chunkSize,
	}
	if s.Grouped {
		opt.Dimensions = []string{"host"}
	}
	switch s.Fill {
	case "null":
		opt.Fill = influxql.NullFill
	case "num":
		opt.Fill, opt.FillValue = influxql.NumberFill, s.FillN
	case "prev":
		opt.Fill = influxql.PreviousFill
	}
	schema := executor.NewQuerySchema(fields, names, &opt, nil)
	schema.SetOpt(&opt)
	return schema
}

type flatRow struct {
	g int
	r Row
}

func flatten(s *Stream) []flatRow {
	var out []flatRow
	for gi, g := range s.Groups {
		for _, r := range g.Rows {
			out = append(out, flatRow{gi, r})
		}
	}
	return out
}

func buildChunks(s *Stream, cut []int) []executor.Chunk {
	rt := rowType(s.Cols)
	b := executor.NewChunkBuilder(rt)
	rows := flatten(s)
	var chunks []executor.Chunk
	pos := 0
	for _, n := range cut {
		if pos >= len(rows) {
			break
		}
		end := pos + n
		if end > len(rows) {
			end = len(rows)
		}
		part := rows[pos:end]
		pos = end
		ck := b.NewChunk("m")
		var tags []executor.ChunkTags
		var tagIdx, ivIdx []int
		var times []int64
		lastG := -1
		for i, fr := range part {
			if fr.g != lastG {
				if s.Grouped {
					tags = append(tags, hostTag(s.Groups[fr.g].Tag))
				} else {
					tags = append(tags, executor.ChunkTags{})
				}
				tagIdx = append(tagIdx, i)
				lastG = fr.g
			}
			ivIdx = append(ivIdx, i)
			times = append(times, fr.r.T)
		}
		ck.AppendTagsAndIndexes(tags, tagIdx)
		ck.AppendIntervalIndexes(ivIdx)
		ck.AppendTimes(times)
		for ci, c := range s.Cols {
			col := ck.Column(ci)
			for _, fr := range part {
				v := fr.r.C[ci]
				if v == nil {
					col.AppendNil()
					continue
				}
				if c == "float" {
					col.AppendFloatValue(float64(*v))
				} else {
					col.AppendIntegerValue(*v)
				}
				col.AppendNotNil()
			}
		}
		chunks = append(chunks, ck)
	}
	return chunks
}

type source struct {
	executor.BaseProcessor
	out    *executor.ChunkPort
	chunks []executor.Chunk
}

func (s *source) Name() string                  { return "c08opSource" }
func (s *source) Explain() []executor.ValuePair { return nil }
func (s *source) Close()                        { s.out.Close() }
func (s *source) Release() error                { return nil }
func (s *source) Work(ctx context.Context) error {
	for _, c := range s.chunks {
		select {
		case <-ctx.Done():
			s.out.Close()
			return nil
		case s.out.State <- c:
		}
	}
	s.out.Close()
	return nil
}
func (s *source) GetOutputs() executor.Ports        { return executor.Ports{s.out} }
func (s *source) GetInputs() executor.Ports         { return executor.Ports{} }
func (s *source) GetOutputNumber(executor.Port) int { return 0 }
func (s *source) GetInputNumber(executor.Port) int  { return 0 }

type sink struct {
	executor.BaseProcessor
	in   *executor.ChunkPort
	cols []string
	rows []outRow
}
type outRow struct {
	tag string
	r   Row
}

func (s *sink) Name() string                  { return "c08opSink" }
func (s *sink) Explain() []executor.ValuePair { return nil }
func (s *sink) Close()                        {}
func (s *sink) Release() error                { return nil }
func (s *sink) Work(ctx context.Context) error {
	for {
		select {
		case c, ok := <-s.in.State:
			if !ok {
				return nil
			}
			s.take(c)
		case <-ctx.Done():
			return nil
		}
	}
}
func (s *sink) take(c executor.Chunk) {
	ti := c.TagIndex()
	for i := 0; i < c.NumberOfRows(); i++ {
		g := 0
		for k := range ti {
			if ti[k] <= i {
				g = k
			}
		}
		tag := ""
		if len(c.Tags()) > g {
			tag = string(c.Tags()[g].Subset(nil))
		}
		r := Row{T: c.TimeByIndex(i), C: make([]*int64, len(s.cols))}
		for ci, kind := range s.cols {
			col := c.Column(ci)
			if col.IsNilV2(i) {
				continue
			}
			vi := col.GetValueIndexV2(i)
			var v int64
			if kind == "float" {
				v = int64(col.FloatValue(vi))
			} else {
				v = col.IntegerValue(vi)
			}
			r.C[ci] = &v
		}
		s.rows = append(s.rows, outRow{tag, r})
	}
}
func (s *sink) GetOutputs() executor.Ports        { return executor.Ports{} }
func (s *sink) GetInputs() executor.Ports         { return executor.Ports{s.in} }
func (s *sink) GetOutputNumber(executor.Port) int { return 0 }
func (s *sink) GetInputNumber(executor.Port) int  { return 0 }

// runFill executes the real FillTransform on the cut stream and returns the flattened output per group.
func runFill(s *Stream, chunkSize int, cut []int) (out []Group, err error) {
	defer func() {
		if e := recover(); e != nil {
			err = fmt.Errorf("panic: %v", e)
		}
	}()
	rt := rowType(s.Cols)
	schema := schemaOf(s, chunkSize)
	trans, e := executor.NewFillTransform([]hybridqp.RowDataType{rt}, []hybridqp.RowDataType{rt}, nil, schema)
	if e != nil {
		return nil, e
	}
	src := &source{out: executor.NewChunkPort(rt), chunks: buildChunks(s, cut)}
	snk := &sink{in: executor.NewChunkPort(rt), cols: s.Cols}
	if e := executor.Connect(src.out, trans.Inputs[0]); e != nil {
		return nil, e
	}
	if e := executor.Connect(trans.Outputs[0], snk.in); e != nil {
		return nil, e
	}
	ex := executor.NewPipelineExecutor(executor.Processors{src, trans, snk})
	ctx, cancel := context.WithTimeout(context.Background(), 10*time.Second)
	defer cancel()
	done := make(chan error, 1)
	go func() { done <- ex.Execute(ctx) }()
	select {
	case e := <-done:
		if e != nil {
			return nil, e
		}
	case <-time.After(12 * time.Second):
		return nil, fmt.Errorf("timeout")
	}
	ex.Release()
	// regroup by tag in order of appearance
	for _, r := range snk.rows {
		if n := len(out); n > 0 && tagKey(s, out[n-1].Tag) == r.tag {
			out[n-1].Rows = append(out[n-1].Rows, r.r)
			continue
		}
		id := -1
		for _, g := range s.Groups {
			if tagKey(s, g.Tag) == r.tag {
				id = g.Tag
			}
		}
		out = append(out, Group{Tag: id, Rows: []Row{r.r}})
	}
	return out, nil
}

func tagKey(s *Stream, id int) string {
	if !s.Grouped {
		return ""
	}
	t := hostTag(id)
	return string(t.Subset(nil))
}

// spec: the fill operator's specification (twin of coq/C08 fill machine): every bucket of the range in iteration
// order, null cells filled cell-wise; previous = last non-null emitted value of the column in this group.
func spec(s *Stream) []Group {
	var out []Group
	for _, g := range s.Groups {
		og := Group{Tag: g.Tag}
		by := map[int64]Row{}
		for _, r := range g.Rows {
			by[r.T] = r
		}
		prev := make([]*int64, len(s.Cols))
		for k := 0; k < s.NB; k++ {
			t := int64(k) * iv
			if s.Desc {
				t = int64(s.NB-1-k) * iv
			}
			row := Row{T: t, C: make([]*int64, len(s.Cols))}
			if r, ok := by[t]; ok {
				copy(row.C, r.C)
			}
			for ci := range s.Cols {
				if row.C[ci] != nil {
					prev[ci] = row.C[ci]
					continue
				}
				switch s.Fill {
				case "null":
					if s.Cols[ci] == "count" {
						z := int64(0)
						row.C[ci] = &z
					}
				case "num":
					n := s.FillN
					row.C[ci] = &n
				case "prev":
					row.C[ci] = prev[ci]
				}
			}
			og.Rows = append(og.Rows, row)
		}
		out = append(out, og)
	}
	return out
}

func eqGroups(a, b []Group) bool {
	if len(a) != len(b) {
		return false
	}
	for i := range a {
		if a[i].Tag != b[i].Tag || len(a[i].Rows) != len(b[i].Rows) {
			return false
		}
		for j := range a[i].Rows {
			x, y := a[i].Rows[j], b[i].Rows[j]
			if x.T != y.T || len(x.C) != len(y.C) {
				return false
			}
			for k := range x.C {
				if (x.C[k] == nil) != (y.C[k] == nil) || (x.C[k] != nil && *x.C[k] != *y.C[k]) {
					return false
				}
			}
		}
	}
	return true
}

func genStream(r *gen.Rand) *Stream {
	s := &Stream{NB: r.Range(2, 9), Desc: r.Chance(1, 3), Grouped: r.Chance(2, 3)}
	ncol := r.Range(1, 3)
	for i := 0; i < ncol; i++ {
		s.Cols = append(s.Cols, gen.Pick(r, []string{"count", "int", "float"}))
	}
	s.Fill = gen.Pick(r, []string{"null", "null", "num", "prev", "prev"})
	s.FillN = int64(r.Range(50, 60))
	ng := 1
	if s.Grouped {
		ng = r.Range(1, 3)
	}
	ids := []int{0, 1, 2}
	if s.Desc {
		ids = []int{2, 1, 0}
	}
	for _, id := range ids[:ng] {
		g := Group{Tag: id}
		for k := 0; k < s.NB; k++ {
			if !r.Chance(3, 5) {
				continue
			}
			row := Row{T: int64(k) * iv, C: make([]*int64, ncol)}
			any := false
			for ci := range row.C {
				if r.Chance(3, 4) {
					v := int64(r.Range(1, 40))
					row.C[ci] = &v
					any = true
				}
			}
			if any {
				g.Rows = append(g.Rows, row)
			}
		}
		if s.Desc {
			for i, j := 0, len(g.Rows)-1; i < j; i, j = i+1, j-1 {
				g.Rows[i], g.Rows[j] = g.Rows[j], g.Rows[i]
			}
		}
		if len(g.Rows) > 0 {
			s.Groups = append(s.Groups, g)
		}
	}
	return s
}

func main() {
	n := 100
	if len(os.Args) > 1 {
		n, _ = strconv.Atoi(os.Args[1])
	}
	mode := "all"
	if len(os.Args) > 2 {
		mode = os.Args[2]
	}
	r := gen.FromEnv(88)
	if mode == "all" || mode == "fill" {
		runFillCases(r, n)
	}
	if mode == "all" || mode == "agg" {
		timeouts = 0
		runAggCases(r, n, nil)
	}
	if mode == "all" || mode == "window" {
		runWindowCases(gen.FromEnv(89), n/4+5)
	}
	if mode == "all" || mode == "exec" {
		runExecCases(r)
	}
	if mode == "all" || mode == "limit" {
		timeouts = 0
		runLimitCases(r, n)
	}
	if mode == "all" || mode == "merge" {
		timeouts = 0
		runMergeCases(r, n, "merge")
		timeouts = 0
		runMergeCases(r, n, "sortmerge")
		timeouts = 0
		runMergeCases(r, n/2, "sortappend")
	}
}

func runFillCases(r *gen.Rand, n int) {
	for i := 0; i < n; i++ {
		s := genStream(r)
		total := len(flatten(s))
		if total == 0 {
			continue
		}
		want := spec(s)
		filled := 0
		for _, g := range want {
			filled += len(g.Rows)
		}
		for _, cs := range []int{1024, 1, 2, 3, 5} {
			uncut, uerr := runFill(s, cs, []int{total})
			// all single cut positions, all-singletons, and two random multi-cuts
			cuts := [][]int{{total}}
			for p := 1; p < total; p++ {
				cuts = append(cuts, []int{p, total - p})
			}
			ones := make([]int, total)
			for k := range ones {
				ones[k] = 1
			}
			cuts = append(cuts, ones)
			for k := 0; k < 2 && total > 2; k++ {
				var c []int
				left := total
				for left > 0 {
					x := r.Range(1, 3)
					if x > left {
						x = left
					}
					c = append(c, x)
					left -= x
				}
				cuts = append(cuts, c)
			}
			for _, cut := range cuts {
				c := &Case{Stream: s, ChunkSize: cs, Cut: cut, Want: want, Uncut: uncut}
				got, err := runFill(s, cs, cut)
				c.Got = got
				if err != nil {
					c.Fail = append(c.Fail, "error:"+err.Error())
				} else {
					if !eqGroups(got, want) {
						c.Fail = append(c.Fail, "spec")
					}
					if uerr == nil && !eqGroups(got, uncut) {
						c.Fail = append(c.Fail, "invariance")
					}
				}
				c.SplitPath = filled > 2*cs
				c.FastPath = s.Fill == "null" && !s.Grouped && len(s.Groups) == 1 && len(s.Groups[0].Rows) == s.NB
				gen.Emit(map[string]any{"opcase": c})
			}
		}
	}
}
