// C08 operator level, part 2: the REAL executor.StreamAggregateTransform on every cut of small keyed streams.
//
// A stream is a list of rows (group, time, values) ordered by (group, time) - descending streams by (group desc, time
// desc) - as the merge operators below the aggregation deliver it: the rows of one (group, time window) are adjacent,
// they may come from several series (equal timestamps occur). The stream is cut into input chunks at every position;
// the chunk's tag index / interval index mark the group and window boundaries inside the chunk, as the producers do.
// Oracles: (i) flattened output = specification (one row per (group, window), every cell the documented aggregate of
// the non-null values) and (ii) = the uncut run. The driver has the Coq L2 operator (Model.agg_chunks with the
// one-chunk look-ahead over the column-wise partial aggregates of Pipe.v) recompute every case on the same cut.
package main

import (
	"context"
	"fmt"
	"time"

	"github.com/openGemini/openGemini/engine/executor"
	"github.com/openGemini/openGemini/engine/hybridqp"
	"github.com/openGemini/openGemini/lib/util/lifted/influx/influxql"
	"github.com/openGemini/openGemini/lib/util/lifted/influx/query"
	"verifharness/internal/gen"
)

type AggCall struct {
	Fn  string `json:"fn"` // count sum min max first last
	Col int    `json:"col"`
}
type AggRow struct {
	G int      `json:"g"`
	T int64    `json:"t"`
	V []*int64 `json:"v"`
}
type AggStream struct {
	InCols  []string  `json:"in_cols"` // int | float
	Calls   []AggCall `json:"calls"`
	Grouped bool      `json:"grouped"`
	HasIv   bool      `json:"has_iv"`
	Desc    bool      `json:"desc"`
	Rows    []AggRow  `json:"rows"`
}
type AggOut struct {
	G int      `json:"g"`
	W int64    `json:"w"` // window index (0 without time grouping)
	T int64    `json:"t"` // reported time
	C []*int64 `json:"c"`
}
type AggCase struct {
	Stream    *AggStream `json:"stream"`
	ChunkSize int        `json:"chunk_size"`
	Cut       []int      `json:"cut"`
	Got       []AggOut   `json:"got"`
	Want      []AggOut   `json:"want"`
	Fail      []string   `json:"fail"`
}

func (s *AggStream) win(t int64) int64 {
	if !s.HasIv {
		return 0
	}
	return floorDivW(t, iv)
}

func (s *AggStream) inType(c int) influxql.DataType {
	if s.InCols[c] == "float" {
		return influxql.Float
	}
	return influxql.Integer
}

func (s *AggStream) outKind(k AggCall) string {
	if k.Fn == "count" {
		return "int"
	}
	return s.InCols[k.Col]
}

func (s *AggStream) inRowType() hybridqp.RowDataType {
	var refs []influxql.VarRef
	for i := range s.InCols {
		refs = append(refs, influxql.VarRef{Val: fmt.Sprintf("v%d", i), Type: s.inType(i)})
	}
	return hybridqp.NewRowDataTypeImpl(refs...)
}

func (s *AggStream) outRowType() hybridqp.RowDataType {
	var refs []influxql.VarRef
	for _, k := range s.Calls {
		t := s.inType(k.Col)
		if k.Fn == "count" {
			t = influxql.Integer
		}
		refs = append(refs, influxql.VarRef{Val: fmt.Sprintf(`%s("v%d")`, k.Fn, k.Col), Type: t})
	}
	return hybridqp.NewRowDataTypeImpl(refs...)
}

func (s *AggStream) key(r AggRow) (int, int64) { return r.G, s.win(r.T) }

func aggChunks(s *AggStream, cut []int) []executor.Chunk {
	rt := s.inRowType()
	b := executor.NewChunkBuilder(rt)
	var chunks []executor.Chunk
	pos := 0
	for _, n := range cut {
		if pos >= len(s.Rows) {
			break
		}
		end := pos + n
		if end > len(s.Rows) {
			end = len(s.Rows)
		}
		part := s.Rows[pos:end]
		pos = end
		ck := b.NewChunk("m")
		var tags []executor.ChunkTags
		var tagIdx, ivIdx []int
		var times []int64
		for i, r := range part {
			if i == 0 || part[i-1].G != r.G {
				if s.Grouped {
					tags = append(tags, hostTag(r.G))
				} else {
					tags = append(tags, executor.ChunkTags{})
				}
				tagIdx = append(tagIdx, i)
			}
			if i == 0 || part[i-1].G != r.G || s.win(part[i-1].T) != s.win(r.T) {
				ivIdx = append(ivIdx, i)
			}
			times = append(times, r.T)
		}
		ck.AppendTagsAndIndexes(tags, tagIdx)
		ck.AppendIntervalIndexes(ivIdx)
		ck.AppendTimes(times)
		for ci, kind := range s.InCols {
			col := ck.Column(ci)
			for _, r := range part {
				v := r.V[ci]
				if v == nil {
					col.AppendNil()
					continue
				}
				if kind == "float" {
					col.AppendFloatValue(float64(*v))
				} else {
					col.AppendIntegerValue(*v)
				}
				col.AppendNotNil()
			}
		}
		chunks = append(chunks, ck)
	}
	return chunks
}

func groupOfTag(grouped bool, tag string) int {
	if !grouped {
		return 0
	}
	for id := 0; id < 3; id++ {
		t := hostTag(id)
		if string(t.Subset(nil)) == tag {
			return id
		}
	}
	return -1
}

func runAgg(s *AggStream, chunkSize int, cut []int) (out []AggOut, err error) {
	defer func() {
		if e := recover(); e != nil {
			err = fmt.Errorf("panic: %v", e)
		}
	}()
	inRT, outRT := s.inRowType(), s.outRowType()
	var exprOpt []hybridqp.ExprOptions
	var exprs []influxql.Expr
	var kinds []string
	for i, k := range s.Calls {
		call := &influxql.Call{Name: k.Fn, Args: []influxql.Expr{&influxql.VarRef{Val: fmt.Sprintf("v%d", k.Col), Type: s.inType(k.Col)}}}
		exprOpt = append(exprOpt, hybridqp.ExprOptions{Expr: call, Ref: *(outRT.Field(i).Expr.(*influxql.VarRef))})
		exprs = append(exprs, call)
		kinds = append(kinds, s.outKind(k))
	}
	opt := query.ProcessorOptions{Exprs: exprs, Ordered: true, Ascending: !s.Desc, ChunkSize: chunkSize}
	if s.Grouped {
		opt.Dimensions = []string{"host"}
	}
	if s.HasIv {
		opt.Interval = hybridqp.Interval{Duration: time.Duration(iv)}
	}
	trans, e := executor.NewStreamAggregateTransform([]hybridqp.RowDataType{inRT}, []hybridqp.RowDataType{outRT}, exprOpt, &opt, &executor.QuerySchema{}, false)
	if e != nil {
		return nil, e
	}
	src := &source{out: executor.NewChunkPort(inRT), chunks: aggChunks(s, cut)}
	snk := &sink{in: executor.NewChunkPort(outRT), cols: kinds}
	if e := executor.Connect(src.out, trans.Inputs[0]); e != nil {
		return nil, e
	}
	if e := executor.Connect(trans.Outputs[0], snk.in); e != nil {
		return nil, e
	}
	if e := execute(executor.Processors{src, trans, snk}); e != nil {
		return nil, e
	}
	for _, r := range snk.rows {
		out = append(out, AggOut{G: groupOfTag(s.Grouped, r.tag), W: s.win(r.r.T), T: r.r.T, C: r.r.C})
	}
	return out, nil
}

// timeouts counts pipeline runs that did not terminate; after a few of them (each is reported as a failing case) the
// remaining cases of the operator are skipped so that a broken operator cannot hold the check for minutes
var timeouts int

func tooManyTimeouts() bool { return timeouts >= 3 }

func execute(ps executor.Processors) error {
	ex := executor.NewPipelineExecutor(ps)
	ctx, cancel := context.WithTimeout(context.Background(), 10*time.Second)
	defer cancel()
	done := make(chan error, 1)
	go func() { done <- ex.Execute(ctx) }()
	select {
	case e := <-done:
		if e != nil {
			return e
		}
	case <-time.After(12 * time.Second):
		timeouts++
		return fmt.Errorf("timeout")
	}
	ex.Release()
	return nil
}

// better: does point (t,v) beat the incumbent (bt,bv)? - the tie rules of the reference semantics (coq/C08/Model.v)
func better(fn string, t, v, bt, bv int64) bool {
	switch fn {
	case "min":
		return v < bv || (v == bv && t < bt)
	case "max":
		return v > bv || (v == bv && t < bt)
	case "first":
		return t < bt || (t == bt && v > bv)
	case "last":
		return t > bt || (t == bt && v > bv)
	}
	return false
}

func aggSpec(s *AggStream) []AggOut {
	var out []AggOut
	i := 0
	for i < len(s.Rows) {
		j := i
		g, w := s.key(s.Rows[i])
		for j < len(s.Rows) {
			g2, w2 := s.key(s.Rows[j])
			if g2 != g || w2 != w {
				break
			}
			j++
		}
		o := AggOut{G: g, W: w, T: s.Rows[i].T, C: make([]*int64, len(s.Calls))}
		for ci, k := range s.Calls {
			var n, sum, bt, bv int64
			have := false
			for _, r := range s.Rows[i:j] {
				v := r.V[k.Col]
				if v == nil {
					continue
				}
				n++
				sum += *v
				if !have || better(k.Fn, r.T, *v, bt, bv) {
					bt, bv, have = r.T, *v, true
				}
			}
			if !have {
				continue
			}
			var res int64
			switch k.Fn {
			case "count":
				res = n
			case "sum":
				res = sum
			default:
				res = bv
				if len(s.Calls) == 1 {
					o.T = bt
				}
			}
			o.C[ci] = &res
		}
		out = append(out, o)
		i = j
	}
	return out
}

// eqAgg compares group, window and cells; the reported time only when exact is set (single selector call)
func eqAgg(a, b []AggOut, exact bool) bool {
	if len(a) != len(b) {
		return false
	}
	for i := range a {
		if a[i].G != b[i].G || a[i].W != b[i].W || len(a[i].C) != len(b[i].C) {
			return false
		}
		if exact && a[i].T != b[i].T {
			return false
		}
		for k := range a[i].C {
			x, y := a[i].C[k], b[i].C[k]
			if (x == nil) != (y == nil) || (x != nil && *x != *y) {
				return false
			}
		}
	}
	return true
}

func genAggStream(r *gen.Rand) *AggStream {
	s := &AggStream{Grouped: r.Chance(2, 3), HasIv: r.Chance(3, 4), Desc: r.Chance(1, 3)}
	// every input column is the argument of some call: the readers below deliver only the referenced fields, and only
	// rows that have a value in at least one of them
	nin := r.Range(1, 3)
	for i := 0; i < nin; i++ {
		s.InCols = append(s.InCols, gen.Pick(r, []string{"int", "float"}))
	}
	ncall := r.Range(nin, 3)
	seen := map[string]bool{}
	for len(s.Calls) < ncall {
		k := AggCall{Fn: gen.Pick(r, []string{"count", "sum", "min", "max", "first", "last"}), Col: r.Range(0, nin-1)}
		if len(s.Calls) < nin {
			k.Col = len(s.Calls)
		}
		id := fmt.Sprintf("%s%d", k.Fn, k.Col)
		if seen[id] {
			continue
		}
		seen[id] = true
		s.Calls = append(s.Calls, k)
	}
	ng := 1
	if s.Grouped {
		ng = r.Range(1, 3)
	}
	nb := r.Range(1, 4)
	// windows before the epoch and straddling 0: the whole stream is shifted by whole windows
	sh := gen.Pick(r, []int64{0, 0, -1, -2, -int64(nb)})
	for g := 0; g < ng; g++ {
		n := r.Range(1, 6)
		var ts []int64
		for i := 0; i < n; i++ {
			// boundary-biased: window starts and ends are frequent
			k := int64(r.Range(0, nb-1))
			ts = append(ts, (k+sh)*iv+gen.Pick(r, []int64{0, 0, 1, 4, 9, 9}))
		}
		for i := 1; i < len(ts); i++ {
			for j := i; j > 0 && ts[j-1] > ts[j]; j-- {
				ts[j-1], ts[j] = ts[j], ts[j-1]
			}
		}
		for _, t := range ts {
			row := AggRow{G: g, T: t, V: make([]*int64, nin)}
			any := false
			for ci := range row.V {
				if r.Chance(3, 4) {
					v := int64(r.Range(1, 9))
					row.V[ci] = &v
					any = true
				}
			}
			if !any {
				v := int64(r.Range(1, 9))
				row.V[0] = &v
			}
			s.Rows = append(s.Rows, row)
		}
	}
	if s.Desc {
		for i, j := 0, len(s.Rows)-1; i < j; i, j = i+1, j-1 {
			s.Rows[i], s.Rows[j] = s.Rows[j], s.Rows[i]
		}
	}
	return s
}

func cutsOf(r *gen.Rand, total int) [][]int {
	cuts := [][]int{{total}}
	for p := 1; p < total; p++ {
		cuts = append(cuts, []int{p, total - p})
	}
	if total > 2 {
		ones := make([]int, total)
		for k := range ones {
			ones[k] = 1
		}
		cuts = append(cuts, ones)
		for k := 0; k < 2; k++ {
			var c []int
			left := total
			for left > 0 {
				x := r.Range(1, 3)
				if x > left {
					x = left
				}
				c = append(c, x)
				left -= x
			}
			cuts = append(cuts, c)
		}
	}
	return cuts
}

func isSelector(fn string) bool { return fn == "min" || fn == "max" || fn == "first" || fn == "last" }

// fixedAggStreams: minimal boundary streams, always run: two rows in adjacent windows with the second one exactly on the
// window start (a cut between them must not merge the windows), two rows of one window (a cut must not split it),
// the same for a tag group boundary, ascending and descending
func fixedAggStreams() []*AggStream {
	p := func(v int64) *int64 { return &v }
	var out []*AggStream
	for _, desc := range []bool{false, true} {
		for _, fn := range []string{"count", "sum", "last"} {
			mk := func(grouped, hasIv bool, rows []AggRow) {
				if desc {
					rev := make([]AggRow, len(rows))
					for i := range rows {
						rev[len(rows)-1-i] = rows[i]
					}
					rows = rev
				}
				out = append(out, &AggStream{InCols: []string{"int"}, Calls: []AggCall{{Fn: fn, Col: 0}}, Grouped: grouped, HasIv: hasIv, Desc: desc, Rows: rows})
			}
			mk(false, true, []AggRow{{0, 9, []*int64{p(3)}}, {0, 10, []*int64{p(5)}}})
			mk(false, true, []AggRow{{0, 0, []*int64{p(3)}}, {0, 10, []*int64{p(5)}}, {0, 20, []*int64{p(7)}}})
			mk(false, true, []AggRow{{0, 10, []*int64{p(3)}}, {0, 19, []*int64{p(5)}}})
			// before the epoch: -17 and -7 lie in different windows, -10 starts the window of -7, -1 and 0 are apart
			mk(false, true, []AggRow{{0, -17, []*int64{p(3)}}, {0, -10, []*int64{p(4)}}, {0, -7, []*int64{p(5)}}, {0, -1, []*int64{p(6)}}, {0, 0, []*int64{p(7)}}, {0, 3, []*int64{p(8)}}})
			mk(true, true, []AggRow{{0, 10, []*int64{p(3)}}, {1, 10, []*int64{p(5)}}})
			mk(true, false, []AggRow{{0, 1, []*int64{p(3)}}, {0, 11, []*int64{p(5)}}, {1, 11, []*int64{p(7)}}})
			mk(false, false, []AggRow{{0, 1, []*int64{p(3)}}, {0, 11, []*int64{p(5)}}})
		}
	}
	return out
}

func runAggCases(r *gen.Rand, n int, fixed []*AggStream) {
	streams := append(fixedAggStreams(), fixed...)
	for i := 0; i < n; i++ {
		streams = append(streams, genAggStream(r))
	}
	for _, s := range streams {
		if tooManyTimeouts() {
			return
		}
		total := len(s.Rows)
		want := aggSpec(s)
		// the reported time is compared exactly for a single selector on an ascending stream (a descending scan reports
		// the latest of several equal extremes: finding C08-desc-selector-tie)
		exact := len(s.Calls) == 1 && isSelector(s.Calls[0].Fn) && !s.Desc
		for _, cs := range []int{1024, 1, 2, 3} {
			uncut, uerr := runAgg(s, cs, []int{total})
			for _, cut := range cutsOf(r, total) {
				c := &AggCase{Stream: s, ChunkSize: cs, Cut: cut, Want: want}
				got, err := runAgg(s, cs, cut)
				c.Got = got
				if err != nil {
					c.Fail = append(c.Fail, "error:"+err.Error())
				} else {
					if !eqAgg(got, want, exact) {
						c.Fail = append(c.Fail, "spec")
					}
					if uerr == nil && !eqAgg(got, uncut, exact) {
						c.Fail = append(c.Fail, "invariance")
					}
				}
				gen.Emit(map[string]any{"aggcase": c})
			}
		}
	}
}
