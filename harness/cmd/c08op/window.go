package main

// ProcessorOptions.Window (lib/util/lifted/influx/query/select.go) on generated (t, interval, offset) triples: times before
// the epoch, windows straddling 0, the neighbourhood of influxql.MinTime / MaxTime. Direct oracle: the window contains t,
// is one interval long and starts at offset + a multiple of the interval (unless clamped at MinTime / MaxTime). The driver
// has the Coq model function Window.window recompute every (start, end).

import (
	"encoding/json"
	"fmt"
	"math/big"
	"time"

	"github.com/openGemini/openGemini/engine/hybridqp"
	"github.com/openGemini/openGemini/lib/util/lifted/influx/influxql"
	"github.com/openGemini/openGemini/lib/util/lifted/influx/query"
	"verifharness/internal/gen"
)

type WindowCase struct {
	T     int64    `json:"t"`
	D     int64    `json:"d"`
	Off   int64    `json:"off"`
	Start int64    `json:"start"`
	End   int64    `json:"end"`
	Fail  []string `json:"fail"`
}

func floorDivW(a, b int64) int64 {
	q := a / b
	if (a%b != 0) && ((a < 0) != (b < 0)) {
		q--
	}
	return q
}

func windowOracle(c *WindowCase) {
	// exact integer arithmetic (no overflow): bucket start = off + d*floor((t-off)/d)
	t, d, off := big.NewInt(c.T), big.NewInt(c.D), big.NewInt(c.Off)
	x := new(big.Int).Sub(t, off)
	q := new(big.Int).Div(x, d) // Euclidean = floor for d > 0
	ws := new(big.Int).Add(off, new(big.Int).Mul(d, q))
	we := new(big.Int).Add(ws, d)
	lo := new(big.Int).Add(big.NewInt(influxql.MinTime), off)
	hi := new(big.Int).Add(big.NewInt(influxql.MaxTime), off)
	s, e := big.NewInt(c.Start), big.NewInt(c.End)
	clampedLo := ws.Cmp(lo) <= 0
	clampedHi := we.Cmp(hi) >= 0
	if !clampedLo && s.Cmp(ws) != 0 {
		c.Fail = append(c.Fail, fmt.Sprintf("start %d, epoch-aligned bucket start %s", c.Start, ws))
	}
	if clampedLo && s.Cmp(t) > 0 {
		c.Fail = append(c.Fail, fmt.Sprintf("start %d after t", c.Start))
	}
	if !clampedHi && e.Cmp(we) != 0 {
		c.Fail = append(c.Fail, fmt.Sprintf("end %d, bucket end %s", c.End, we))
	}
	if clampedHi && e.Cmp(t) < 0 {
		c.Fail = append(c.Fail, fmt.Sprintf("end %d before t", c.End))
	}
}

func runWindowCases(r *gen.Rand, n int) {
	var ts []int64
	ds := []int64{1, 2, 3, 7, 10, 1000, int64(time.Second), int64(time.Minute), int64(time.Hour), 7 * 24 * int64(time.Hour)}
	emit := func(t, d, off int64) {
		opt := query.ProcessorOptions{Interval: hybridqp.Interval{Duration: time.Duration(d), Offset: time.Duration(off)}}
		c := &WindowCase{T: t, D: d, Off: off}
		c.Start, c.End = opt.Window(t)
		windowOracle(c)
		b, _ := json.Marshal(map[string]*WindowCase{"windowcase": c})
		fmt.Println(string(b))
	}
	for _, d := range ds {
		ts = ts[:0]
		// around 0, around +-d, +-k*d, before the epoch
		for _, k := range []int64{-3, -2, -1, 0, 1, 2} {
			for _, e := range []int64{-1, 0, 1, d / 2, d - 1} {
				ts = append(ts, k*d+e)
			}
		}
		// neighbourhood of MinTime / MaxTime
		for _, e := range []int64{0, 1, 2, d - 1, d, d + 1, 3*d + 1} {
			ts = append(ts, influxql.MinTime+e, influxql.MaxTime-e)
		}
		for i := 0; i < n; i++ {
			ts = append(ts, -int64(r.Range(0, 4000000))*int64(r.Range(1, 1000000))-int64(r.Range(0, 999)))
			ts = append(ts, int64(r.Range(0, 4000000))*int64(r.Range(1, 1000000))+int64(r.Range(0, 999)))
		}
		for _, t := range ts {
			emit(t, d, 0)
		}
		// offsets (time(d, off)): only away from the clamps
		for i := 0; i < n; i++ {
			off := int64(r.Range(0, int(min64(d, 1<<30))-1))
			if r.Chance(1, 3) {
				off = -off
			}
			t := int64(r.Range(0, 2000000))*int64(r.Range(1, 1000)) - 1000000000
			emit(t, d, off)
			emit(-3*d+off-1, d, off)
			emit(off-1, d, off)
		}
	}
}

func min64(a, b int64) int64 {
	if a < b {
		return a
	}
	return b
}
