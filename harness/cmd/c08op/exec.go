// C08 operator level, part 5: the executor's contract under a failing processor. A pipeline of the REAL
// executor.PipelineExecutor (source -> failing stage -> real LimitTransform -> sink) in which the middle stage forwards
// some chunks and then either returns an error or panics. Oracle (error-or-correct): if the sink did not receive every row,
// Execute must return an error. A panic inside a store cursor or a transform takes exactly this route in production
// (PipelineExecutor.work recovers it).
package main

import (
	"context"
	"errors"
	"fmt"

	"github.com/openGemini/openGemini/engine/executor"
	"github.com/openGemini/openGemini/engine/hybridqp"
	"github.com/openGemini/openGemini/lib/util/lifted/influx/query"
	"verifharness/internal/gen"
)

type failingStage struct {
	executor.BaseProcessor
	in, out *executor.ChunkPort
	after   int    // chunks forwarded before the failure
	mode    string // panic | error | none
}

func (s *failingStage) Name() string                      { return "c08opFailingStage" }
func (s *failingStage) Explain() []executor.ValuePair     { return nil }
func (s *failingStage) Close()                            { s.out.Close() }
func (s *failingStage) Release() error                    { return nil }
func (s *failingStage) GetOutputs() executor.Ports        { return executor.Ports{s.out} }
func (s *failingStage) GetInputs() executor.Ports         { return executor.Ports{s.in} }
func (s *failingStage) GetOutputNumber(executor.Port) int { return 0 }
func (s *failingStage) GetInputNumber(executor.Port) int  { return 0 }
func (s *failingStage) Work(ctx context.Context) error {
	n := 0
	for {
		select {
		case c, ok := <-s.in.State:
			if !ok {
				s.out.Close()
				return nil
			}
			if n == s.after {
				switch s.mode {
				case "panic":
					var m map[string]int
					m["injected"] = 1 // nil-map write: a genuine runtime panic
				case "error":
					s.out.Close()
					return errors.New("injected stage error (verification harness)")
				}
			}
			n++
			select {
			case s.out.State <- c:
			case <-ctx.Done():
				s.out.Close()
				return nil
			}
		case <-ctx.Done():
			s.out.Close()
			return nil
		}
	}
}

type ExecCase struct {
	Mode     string `json:"mode"`
	Chunks   int    `json:"chunks"`
	After    int    `json:"after"`
	WantRows int    `json:"want_rows"`
	GotRows  int    `json:"got_rows"`
	Err      string `json:"err,omitempty"`
	Crashed  bool   `json:"crashed"`
	Silent   bool   `json:"silent_short"` // fewer rows than the source delivered and no error
}

func runExecCase(r *gen.Rand, mode string, nchunks, after int) *ExecCase {
	cols := []string{"int"}
	rt := plainRowType(cols)
	rows, tags := genPlainRows(r, 1, 2*nchunks, false)
	cut := make([]int, nchunks)
	for i := range cut {
		cut[i] = 2
	}
	opt := query.ProcessorOptions{Ordered: true, Ascending: true, ChunkSize: 1024, Limit: 1000}
	src := &source{out: executor.NewChunkPort(rt), chunks: plainChunks(rt, cols, rows, tags, cut, false)}
	st := &failingStage{in: executor.NewChunkPort(rt), out: executor.NewChunkPort(rt), after: after, mode: mode}
	lim := executor.NewLimitTransform([]hybridqp.RowDataType{rt}, []hybridqp.RowDataType{rt}, &opt,
		executor.LimitTransformParameters{Limit: 1000, Offset: 0, LimitType: hybridqp.SingleRowIgnoreTagLimit})
	snk := &sink{in: executor.NewChunkPort(rt), cols: cols}
	c := &ExecCase{Mode: mode, Chunks: nchunks, After: after, WantRows: len(rows)}
	if e := executor.Connect(src.out, st.in); e != nil {
		c.Err = e.Error()
		return c
	}
	if e := executor.Connect(st.out, lim.Inputs[0]); e != nil {
		c.Err = e.Error()
		return c
	}
	if e := executor.Connect(lim.Outputs[0], snk.in); e != nil {
		c.Err = e.Error()
		return c
	}
	ex := executor.NewPipelineExecutor(executor.Processors{src, st, lim, snk})
	err := func() (err error) {
		defer func() {
			if e := recover(); e != nil {
				err = fmt.Errorf("harness-level panic: %v", e)
			}
		}()
		return ex.Execute(context.Background())
	}()
	if err != nil {
		c.Err = err.Error()
	}
	c.Crashed = ex.Crashed()
	c.GotRows = len(snk.rows)
	c.Silent = err == nil && c.GotRows < c.WantRows
	return c
}

func runExecCases(r *gen.Rand) {
	for _, mode := range []string{"none", "error", "panic"} {
		for _, nchunks := range []int{1, 3} {
			for after := 0; after < nchunks; after++ {
				gen.Emit(map[string]any{"execcase": runExecCase(r, mode, nchunks, after)})
			}
		}
	}
}
