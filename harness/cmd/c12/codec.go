// C12 harness, second half: plans, query schemas, RPC messages and result chunks through the real
// Marshal -> Unmarshal code, compared field by field with a reflective differ (unexported fields included).
// DIRECT ORACLE: every struct field that is not on the committed transient list has the same value after the round
// trip (nil and empty slices/maps are identified; floats by bits; expressions by their canonical JSON/String form).
package main

import (
	"bytes"
	"encoding/binary"
	"encoding/hex"
	"fmt"
	"math"
	"reflect"
	"sort"
	"strings"
	"time"
	"unsafe"

	"github.com/openGemini/openGemini/engine/executor"
	"github.com/openGemini/openGemini/engine/hybridqp"
	"github.com/openGemini/openGemini/lib/bufferpool"
	"github.com/openGemini/openGemini/lib/util/lifted/influx/influxql"
	"github.com/openGemini/openGemini/lib/util/lifted/influx/query"
	internal "github.com/openGemini/openGemini/lib/util/lifted/influx/query/proto"
	"google.golang.org/protobuf/proto"
	"verifharness/internal/gen"
)

// ---------------------------------------------------------------------------------------------- reflective differ

var stringerType = reflect.TypeOf((*fmt.Stringer)(nil)).Elem()

func access(v reflect.Value) reflect.Value {
	if !v.IsValid() || v.CanInterface() {
		return v
	}
	if v.CanAddr() {
		return reflect.NewAt(v.Type(), unsafe.Pointer(v.UnsafeAddr())).Elem()
	}
	return v
}

type differ struct {
	visited map[[2]uintptr]bool
	lost    map[string]bool
}

func tracked(t reflect.Type) bool {
	p := t.PkgPath()
	return t.Kind() == reflect.Struct && (strings.HasSuffix(p, "engine/executor") || strings.HasSuffix(p, "influx/query") ||
		strings.HasSuffix(p, "engine/hybridqp") || strings.HasSuffix(p, "influx/influxql") || strings.HasSuffix(p, "lib/obs"))
}

func isInfluxNode(t reflect.Type) bool {
	for t.Kind() == reflect.Ptr {
		if strings.HasSuffix(t.Elem().PkgPath(), "influx/influxql") && t.Implements(stringerType) {
			return true
		}
		t = t.Elem()
	}
	return false
}

// repr: canonical text of a value (used when no finer structure is reported)
func repr(v reflect.Value, depth int, seen map[uintptr]bool) string {
	v = access(v)
	if !v.IsValid() {
		return "nil"
	}
	if depth > 10 {
		return "<deep>"
	}
	switch v.Kind() {
	case reflect.Bool:
		return fmt.Sprint(v.Bool())
	case reflect.Int, reflect.Int8, reflect.Int16, reflect.Int32, reflect.Int64:
		return fmt.Sprint(v.Int())
	case reflect.Uint, reflect.Uint8, reflect.Uint16, reflect.Uint32, reflect.Uint64, reflect.Uintptr:
		return fmt.Sprint(v.Uint())
	case reflect.Float32, reflect.Float64:
		return fmt.Sprintf("f%x", math.Float64bits(v.Float()))
	case reflect.String:
		return fmt.Sprintf("%q", v.String())
	case reflect.Slice, reflect.Array:
		if v.Kind() == reflect.Slice && v.Type().Elem().Kind() == reflect.Uint8 {
			return "x" + hex.EncodeToString(v.Bytes())
		}
		parts := make([]string, v.Len())
		for i := 0; i < v.Len(); i++ {
			parts[i] = repr(v.Index(i), depth+1, seen)
		}
		return "[" + strings.Join(parts, ",") + "]"
	case reflect.Map:
		parts := []string{}
		it := v.MapRange()
		for it.Next() {
			parts = append(parts, repr(it.Key(), depth+1, seen)+":"+repr(it.Value(), depth+1, seen))
		}
		sort.Strings(parts)
		return "{" + strings.Join(parts, ",") + "}"
	case reflect.Ptr:
		if v.IsNil() {
			return "nil"
		}
		if isInfluxNode(v.Type()) && v.CanInterface() {
			if e, ok := v.Interface().(influxql.Expr); ok {
				return "expr:" + meaningJSON(dump(e))
			}
			return "node:" + v.Interface().(fmt.Stringer).String()
		}
		if v.Type() == reflect.TypeOf((*time.Location)(nil)) && v.CanInterface() {
			return "loc:" + v.Interface().(*time.Location).String()
		}
		if seen[v.Pointer()] {
			return "<cycle>"
		}
		seen[v.Pointer()] = true
		defer delete(seen, v.Pointer())
		return "&" + repr(v.Elem(), depth+1, seen)
	case reflect.Interface:
		if v.IsNil() {
			return "nil"
		}
		return v.Elem().Type().String() + ":" + repr(v.Elem(), depth+1, seen)
	case reflect.Struct:
		if strings.HasPrefix(v.Type().PkgPath(), "sync") || v.Type().PkgPath() == "bytes" {
			return "<opaque>"
		}
		parts := []string{}
		for i := 0; i < v.NumField(); i++ {
			parts = append(parts, v.Type().Field(i).Name+"="+repr(v.Field(i), depth+1, seen))
		}
		return "{" + strings.Join(parts, ";") + "}"
	case reflect.Func, reflect.Chan, reflect.UnsafePointer:
		if v.IsNil() {
			return "nil"
		}
		return "<opaque>"
	}
	return "<?>"
}

func emptyish(v reflect.Value) bool {
	v = access(v)
	if !v.IsValid() {
		return true
	}
	switch v.Kind() {
	case reflect.Slice, reflect.Map:
		return v.Len() == 0
	case reflect.Ptr, reflect.Interface:
		return v.IsNil()
	}
	return false
}

// diff reports, in d.lost, "Type.field" for every field of a tracked struct type whose values differ
func (d *differ) diff(a, b reflect.Value, owner string, depth int) {
	a, b = access(a), access(b)
	if emptyish(a) && emptyish(b) {
		return
	}
	if !a.IsValid() || !b.IsValid() || a.Type() != b.Type() || depth > 12 {
		if !a.IsValid() || !b.IsValid() || a.Type() != b.Type() {
			d.lost[owner] = true
		}
		return
	}
	switch a.Kind() {
	case reflect.Ptr:
		if a.IsNil() || b.IsNil() {
			d.lost[owner] = true
			return
		}
		if a.Pointer() == b.Pointer() {
			return
		}
		if isInfluxNode(a.Type()) || a.Type() == reflect.TypeOf((*time.Location)(nil)) {
			if repr(a, 0, map[uintptr]bool{}) != repr(b, 0, map[uintptr]bool{}) {
				d.lost[owner] = true
			}
			return
		}
		key := [2]uintptr{a.Pointer(), b.Pointer()}
		if d.visited[key] {
			return
		}
		d.visited[key] = true
		d.diff(a.Elem(), b.Elem(), owner, depth+1)
	case reflect.Interface:
		if a.IsNil() || b.IsNil() || a.Elem().Type() != b.Elem().Type() {
			d.lost[owner] = true
			return
		}
		d.diff(a.Elem(), b.Elem(), owner, depth+1)
	case reflect.Struct:
		if !tracked(a.Type()) {
			if repr(a, 0, map[uintptr]bool{}) != repr(b, 0, map[uintptr]bool{}) {
				d.lost[owner] = true
			}
			return
		}
		tn := a.Type().Name()
		for i := 0; i < a.NumField(); i++ {
			d.diff(a.Field(i), b.Field(i), tn+"."+a.Type().Field(i).Name, depth+1)
		}
	case reflect.Slice, reflect.Array:
		if a.Len() != b.Len() {
			d.lost[owner] = true
			return
		}
		ek := a.Type().Elem().Kind()
		if ek == reflect.Struct || ek == reflect.Ptr || ek == reflect.Interface {
			for i := 0; i < a.Len(); i++ {
				d.diff(a.Index(i), b.Index(i), owner, depth+1)
			}
			return
		}
		if repr(a, 0, map[uintptr]bool{}) != repr(b, 0, map[uintptr]bool{}) {
			d.lost[owner] = true
		}
	default:
		if repr(a, 0, map[uintptr]bool{}) != repr(b, 0, map[uintptr]bool{}) {
			d.lost[owner] = true
		}
	}
}

func lostFields(a, b any) []string {
	d := &differ{visited: map[[2]uintptr]bool{}, lost: map[string]bool{}}
	d.diff(reflect.ValueOf(a), reflect.ValueOf(b), reflect.TypeOf(a).String(), 0)
	out := []string{}
	for k := range d.lost {
		out = append(out, k)
	}
	sort.Strings(out)
	return out
}

// ---------------------------------------------------------------------------------------------- schemas and plans

var aggNames = []string{"mean", "sum", "count", "max", "min", "first", "last"}

func (g *G) schemaFields() (influxql.Fields, []string) {
	fields := influxql.Fields{}
	names := []string{}
	n := g.r.Range(1, 4)
	useCalls := g.r.Bool()
	for i := 0; i < n; i++ {
		ref := &influxql.VarRef{Val: gen.Pick(g.r, bareNames), Type: gen.Pick(g.r, []influxql.DataType{influxql.Float, influxql.Integer, influxql.String, influxql.Boolean, influxql.Tag})}
		var e influxql.Expr = ref
		name := ref.Val
		if useCalls && ref.Type != influxql.Tag && ref.Type != influxql.String && ref.Type != influxql.Boolean {
			fn := gen.Pick(g.r, aggNames)
			e = &influxql.Call{Name: fn, Args: []influxql.Expr{ref}}
			name = fn
		} else if useCalls {
			e = &influxql.Call{Name: "count", Args: []influxql.Expr{ref}}
			name = "count"
		}
		alias := ""
		if g.r.Chance(1, 4) {
			alias = gen.Pick(g.r, []string{"al", "x1", "my alias", "select"})
			name = alias
		}
		fields = append(fields, &influxql.Field{Expr: e, Alias: alias})
		names = append(names, fmt.Sprintf("%s_%d", name, i))
	}
	return fields, names
}

func (g *G) planOptions() *query.ProcessorOptions {
	opt := &query.ProcessorOptions{}
	g.fillOptions(opt, feat{false, false})
	opt.HintType = hybridqp.HintType(g.r.Intn(3))
	opt.Sources = influxql.Sources{&influxql.Measurement{Database: "db0", RetentionPolicy: "rp0", Name: "mst_0000", EngineType: 0}}
	opt.SortFields = nil
	opt.Fill = influxql.FillOption(g.r.Intn(3))
	opt.Limit, opt.Offset = g.r.Intn(100), g.r.Intn(10)
	return opt
}

func (g *G) newSchema() *executor.QuerySchema {
	fields, names := g.schemaFields()
	opt := g.planOptions()
	schema := executor.NewQuerySchema(fields, names, opt, nil)
	m := opt.Sources[0].(*influxql.Measurement)
	schema.AddTable(m, schema.MakeRefs())
	return schema
}

// genPlan builds a plan tree out of the node types the plan codec ships
func (g *G) genPlan(schema *executor.QuerySchema) hybridqp.QueryNode {
	leaf := func() hybridqp.QueryNode {
		var n hybridqp.QueryNode = executor.NewLogicalSeries(schema)
		switch g.r.Intn(5) {
		case 0:
			if g.r.Bool() {
				n = nil
			}
			n = executor.NewLogicalColumnStoreReader(n, schema)
			if g.r.Bool() {
				n = executor.NewLogicalSparseIndexScan(n, schema)
			}
			return n
		case 1:
			return executor.NewLogicalReader(nil, schema)
		default:
			n = executor.NewLogicalIndexScan(n, schema)
			n = executor.NewLogicalReader(n, schema)
		}
		if g.r.Chance(1, 3) {
			n = executor.NewLogicalTagSubset(n, schema)
		}
		if schema.HasCall() && g.r.Chance(2, 3) {
			switch g.r.Intn(4) {
			case 0:
				n = executor.NewCountDistinctAggregate(n, schema)
			case 1:
				n = executor.NewLogicalTagSetAggregate(n, schema)
			default:
				n = executor.NewLogicalAggregate(n, schema)
			}
		}
		return n
	}
	var n hybridqp.QueryNode
	k := g.r.Range(1, 3)
	if k == 1 && g.r.Bool() {
		n = leaf()
	} else {
		ins := []hybridqp.QueryNode{}
		seed := g.r.Uint64() // the inputs of a merge must have the same row type: same recipe for every branch
		for i := 0; i < k; i++ {
			saved := g.r
			g.r = gen.New(seed)
			ins = append(ins, leaf())
			g.r = saved
		}
		if g.r.Bool() {
			n = executor.NewLogicalMerge(ins, schema)
		} else {
			n = executor.NewLogicalSortMerge(ins, schema)
		}
	}
	wrap := func(p int, f func(hybridqp.QueryNode) hybridqp.QueryNode) {
		if g.r.Chance(1, p) {
			n = f(n)
		}
	}
	traits := func() []hybridqp.Trait {
		t := []hybridqp.Trait{}
		for i := 0; i < g.r.Intn(4); i++ {
			t = append(t, g.r.Intn(100))
		}
		return t
	}
	etype := func() executor.ExchangeType { return executor.ExchangeType(g.r.Range(1, 8)) }
	wrap(3, func(x hybridqp.QueryNode) hybridqp.QueryNode {
		return executor.NewLogicalLimit(x, schema, executor.LimitTransformParameters{Limit: g.r.Intn(1000), Offset: g.r.Intn(50), LimitType: hybridqp.LimitType(g.r.Intn(4))})
	})
	wrap(4, func(x hybridqp.QueryNode) hybridqp.QueryNode { return executor.NewLogicalDistinct(x, schema) })
	wrap(3, func(x hybridqp.QueryNode) hybridqp.QueryNode { return executor.NewLogicalInterval(x, schema) })
	wrap(3, func(x hybridqp.QueryNode) hybridqp.QueryNode { return executor.NewLogicalFill(x, schema) })
	wrap(4, func(x hybridqp.QueryNode) hybridqp.QueryNode { return executor.NewLogicalAlign(x, schema) })
	wrap(2, func(x hybridqp.QueryNode) hybridqp.QueryNode { return executor.NewLogicalProject(x, schema) })
	wrap(3, func(x hybridqp.QueryNode) hybridqp.QueryNode { return executor.NewLogicalFilter(x, schema) })
	wrap(5, func(x hybridqp.QueryNode) hybridqp.QueryNode {
		h := executor.NewLogicalHashAgg(x, schema, etype(), traits())
		if g.r.Bool() {
			h.ToProducer()
		}
		return h
	})
	wrap(5, func(x hybridqp.QueryNode) hybridqp.QueryNode {
		h := executor.NewLogicalHashMerge(x, schema, etype(), traits())
		if g.r.Bool() {
			h.ToProducer()
		}
		return h
	})
	wrap(6, func(x hybridqp.QueryNode) hybridqp.QueryNode { return executor.NewLogicalOrderBy(x, schema) })
	wrap(6, func(x hybridqp.QueryNode) hybridqp.QueryNode { return executor.NewLogicalGroupBy(x, schema) })
	wrap(6, func(x hybridqp.QueryNode) hybridqp.QueryNode { return executor.NewLogicalSubQuery(x, schema) })
	wrap(2, func(x hybridqp.QueryNode) hybridqp.QueryNode {
		e := executor.NewLogicalExchange(x, etype(), traits(), schema)
		if g.r.Bool() {
			e.ToProducer()
		}
		return e
	})
	return n
}

func planShape(n hybridqp.QueryNode) string {
	if n == nil {
		return "nil"
	}
	parts := []string{}
	for _, c := range n.Children() {
		parts = append(parts, planShape(c))
	}
	return strings.TrimPrefix(fmt.Sprintf("%T", n), "*executor.") + "(" + strings.Join(parts, ",") + ")"
}

// guard runs one codec case: a panic or a decoder that does not return (a length read from the wrong place can make it
// allocate or loop for minutes) is an oracle failure of that case, not a crash of the harness
var timedOut bool

func guard(c *Case, f func()) {
	lc := *c
	work := c
	lastInput = nil
	done := make(chan struct{})
	go func() {
		defer close(done)
		defer func() {
			if r := recover(); r != nil {
				work.Oracle = fmt.Sprintf("panic: %v", r)
				if lastInput != nil && len(work.Chunks) == 0 {
					work.Chunks = []J{lastInput}
				}
			}
		}()
		f()
	}()
	select {
	case <-done:
	case <-time.After(20 * time.Second):
		// the worker may still be writing to *c: report on a copy and stop generating (see main)
		lc.Oracle = "the codec did not return within 20 s (kind " + lc.Kind + ")"
		timedOut = true
		if lastInput != nil {
			lc.Chunks = []J{lastInput}
		}
		stuck = &lc
	}
}

var stuck *Case
var lastInput J // the object handed to the codec last (reported when the codec hangs)

// intact: serialised bytes that a request still holds must not change while other values are serialised
// (INTERLEAVED round trips: a request keeps its bytes until it is written to the wire, and again for retries)
func intact(c *Case, what string, held, snap []byte) bool {
	if !bytes.Equal(held, snap) {
		c.Oracle = "the " + what + " bytes held for an earlier value changed while later values were marshalled (" +
			fmt.Sprintf("%d of %d bytes differ", diffBytes(held, snap), len(snap)) + ")"
		return false
	}
	return true
}

func diffBytes(a, b []byte) int {
	n := 0
	for i := range b {
		if i >= len(a) || a[i] != b[i] {
			n++
		}
	}
	return n
}

func planCase(g *G) Case {
	c := Case{Kind: "plan"}
	guard(&c, func() {
		schema := g.newSchema()
		root := g.genPlan(schema)
		c.SrcText = planShape(root)
		buf, err := executor.MarshalBinary(root)
		if err != nil {
			c.Oracle = "marshal error: " + err.Error()
			return
		}
		back, err := executor.UnmarshalBinary(buf, schema)
		if err != nil {
			c.Oracle = "unmarshal error: " + err.Error()
			return
		}
		if s := planShape(back); s != c.SrcText {
			c.Oracle = "plan shape differs: " + s
			return
		}
		c.Lost = lostFields(root, back)

		// the wire form (MarshalQueryNode: |schema size|schema|plan|, written into a pooled buffer), interleaved:
		// earlier queries have finished and handed their buffers back (RPCReaderTransform.Work), this query's bytes stay
		// with its request while the plans of other queries are marshalled, and only then the store decodes them
		for i := 0; i < 3; i++ {
			if b, err := executor.MarshalQueryNode(g.genPlan(g.newSchema())); err == nil {
				bufferpool.Put(b)
			}
		}
		wire, err := executor.MarshalQueryNode(root)
		if err != nil {
			c.Oracle = "MarshalQueryNode error: " + err.Error()
			return
		}
		snap := append([]byte(nil), wire...)
		inflight := [][]byte{}
		for i := 0; i < g.r.Range(1, 3); i++ {
			if b, err := executor.MarshalQueryNode(g.genPlan(g.newSchema())); err == nil {
				inflight = append(inflight, b)
			}
		}
		if !intact(&c, "plan (MarshalQueryNode)", wire, snap) {
			return
		}
		if len(wire) < 8 || uint64(len(wire)-8) < binary.BigEndian.Uint64(wire[:8]) {
			c.Oracle = "wire form shorter than its schema size says"
			return
		}
		ssz := int(binary.BigEndian.Uint64(wire[:8]))
		pb := &internal.QuerySchema{}
		if err := proto.Unmarshal(wire[8:8+ssz], pb); err != nil {
			c.Oracle = "wire schema: " + err.Error()
			return
		}
		sback, err := query.DecodeQuerySchema(pb, schema.Options())
		if err != nil {
			c.Oracle = "wire schema decode: " + err.Error()
			return
		}
		if a, b := schema.GetQueryFields().String(), sback.GetQueryFields().String(); a != b {
			c.Oracle = "the store receives another select list: " + b
			return
		}
		if len(wire) > 8+ssz {
			wback, err := executor.UnmarshalBinary(wire[8+ssz:], schema)
			if err != nil {
				c.Oracle = "wire plan unmarshal error: " + err.Error()
				return
			}
			if s := planShape(wback); s != c.SrcText {
				c.Oracle = "plan shape differs on the wire: " + s
				return
			}
			for _, f := range lostFields(root, wback) {
				found := false
				for _, x := range c.Lost {
					found = found || x == f
				}
				if !found {
					c.Lost = append(c.Lost, f)
				}
			}
		}
		bufferpool.Put(wire)
		for _, b := range inflight {
			bufferpool.Put(b)
		}
	})
	return c
}

func schemaCase(g *G) Case {
	c := Case{Kind: "schema"}
	guard(&c, func() {
		schema := g.newSchema()
		if g.r.Chance(1, 3) {
			schema.SetUnnests([]*influxql.Unnest{{Expr: g.canon(feat{false, false}, 1, 0), Aliases: []string{"u1", "u2"}, DstType: []influxql.DataType{influxql.String, influxql.Integer}}})
		}
		c.SrcText = schema.GetQueryFields().String()
		pbuf, err := proto.Marshal(query.EncodeQuerySchema(schema))
		if err != nil {
			c.Oracle = "marshal error: " + err.Error()
			return
		}
		pb := &internal.QuerySchema{}
		if err := proto.Unmarshal(pbuf, pb); err != nil {
			c.Oracle = "proto unmarshal error: " + err.Error()
			return
		}
		back, err := query.DecodeQuerySchema(pb, schema.Options())
		if err != nil {
			c.Oracle = "unmarshal error: " + err.Error()
			return
		}
		c.Lost = lostFields(schema, back.(*executor.QuerySchema))
	})
	return c
}

// ---------------------------------------------------------------------------------------------- RPC messages

func (g *G) remoteQuery() *executor.RemoteQuery {
	rq := &executor.RemoteQuery{Database: gen.Pick(g.r, strPool[1:]), PtID: uint32(g.r.Intn(1 << 20)), NodeID: g.r.Uint64(),
		Analyze: g.r.Bool(), Node: []byte{1, 2, 3, byte(g.r.Intn(256))}}
	for i := 0; i < g.r.Intn(4); i++ {
		rq.ShardIDs = append(rq.ShardIDs, g.r.Uint64())
	}
	for i := 0; i < g.r.Intn(3); i++ {
		pq := executor.PtQuery{PtID: uint32(g.r.Intn(100))}
		for j := 0; j < g.r.Intn(3); j++ {
			pq.ShardInfos = append(pq.ShardInfos, executor.ShardInfo{ID: g.r.Uint64(), Path: gen.Pick(g.r, strPool), Version: uint32(g.r.Intn(5))})
		}
		rq.PtQuerys = append(rq.PtQuerys, pq)
	}
	g.fillOptions(&rq.Opt, feat{false, false})
	rq.Opt.SortFields = nil
	for i := 0; i < g.r.Intn(3); i++ {
		mi := &executor.MultiMstInfo{ShardIds: []uint64{g.r.Uint64(), 7}}
		g.fillOptions(&mi.Opt, feat{false, false})
		mi.Opt.SortFields = nil
		rq.MstInfos = append(rq.MstInfos, mi)
	}
	return rq
}

type codecT interface {
	Marshal([]byte) ([]byte, error)
	Unmarshal([]byte) error
}

func rpcCase(g *G) Case {
	c := Case{Kind: "rpc"}
	guard(&c, func() {
		var a, b codecT
		switch g.r.Intn(6) {
		case 0, 1:
			a, b = g.remoteQuery(), &executor.RemoteQuery{}
		case 2:
			a, b = executor.NewAbort(g.r.Uint64(), g.r.Uint64(), g.r.Bool()), &executor.Abort{}
		case 3:
			a, b = executor.NewCrash(g.r.Uint64(), g.r.Uint64(), g.r.Bool()), &executor.Crash{}
		case 4:
			m := executor.NewIncQueryFinishMessage(g.r.Bool(), g.r.Bool(), gen.Pick(g.r, strPool), int32(g.r.Intn(1000)), g.r.Int64Boundary())
			a, b = m.Data().(codecT), m.Data().Instance().(codecT)
		default:
			if g.r.Bool() {
				m := executor.NewFinishMessage(int32(g.r.Intn(1 << 30)))
				a, b = m.Data().(codecT), m.Data().Instance().(codecT)
			} else {
				m := executor.NewErrorMessage(1234, gen.Pick(g.r, strPool))
				a, b = m.Data().(codecT), m.Data().Instance().(codecT)
			}
		}
		c.SrcText = fmt.Sprintf("%T", a)
		buf, err := a.Marshal(nil)
		if err != nil {
			c.Oracle = "marshal error: " + err.Error()
			return
		}
		// interleaved: other messages are marshalled before this one is read
		snap := append([]byte(nil), buf...)
		for i := 0; i < 2; i++ {
			_, _ = g.remoteQuery().Marshal(nil)
		}
		if !intact(&c, "message", buf, snap) {
			return
		}
		if err := b.Unmarshal(buf); err != nil {
			c.Oracle = "unmarshal error: " + err.Error()
			return
		}
		c.Lost = lostFields(a, b)
	})
	return c
}


// ---------------------------------------------------------------------------------------------- chunk structure dump
// (for the Coq model of the chunk codec: every field the codec carries, unexported ones through reflection; 64-bit
// values as their bit patterns)

func fld(v reflect.Value, name string) reflect.Value {
	for v.Kind() == reflect.Ptr || v.Kind() == reflect.Interface {
		v = v.Elem()
	}
	return access(v.FieldByName(name))
}

func u64s(v reflect.Value) []uint64 {
	out := []uint64{}
	for i := 0; i < v.Len(); i++ {
		e := v.Index(i)
		switch e.Kind() {
		case reflect.Float64:
			out = append(out, math.Float64bits(e.Float()))
		case reflect.Int, reflect.Int64:
			out = append(out, uint64(e.Int()))
		default:
			out = append(out, e.Uint())
		}
	}
	return out
}

func byteInts(b []byte) []int {
	out := make([]int, len(b))
	for i, x := range b {
		out[i] = int(x)
	}
	return out
}

func dumpColumn(cv reflect.Value) any {
	if !cv.IsValid() || ((cv.Kind() == reflect.Interface || cv.Kind() == reflect.Ptr) && cv.IsNil()) {
		return nil
	}
	bools := []bool{}
	bv := fld(cv, "booleanValues")
	for i := 0; i < bv.Len(); i++ {
		bools = append(bools, bv.Index(i).Bool())
	}
	tuples := [][]uint64{}
	tv := fld(cv, "floatTuples")
	for i := 0; i < tv.Len(); i++ {
		tuples = append(tuples, u64s(access(tv.Index(i).FieldByName("values"))))
	}
	var nils any
	nv := fld(cv, "nilsV2")
	if !nv.IsNil() {
		nils = J{"bits": byteInts(fld(nv, "bits").Bytes()), "array": u64s(fld(nv, "array")),
			"length": uint64(fld(nv, "length").Int()), "nil": uint64(fld(nv, "nilCount").Int())}
	}
	return J{"type": uint64(fld(cv, "dataType").Int()), "floats": u64s(fld(cv, "floatValues")), "ints": u64s(fld(cv, "integerValues")),
		"strbytes": byteInts(fld(cv, "stringBytes").Bytes()), "offset": u64s(fld(cv, "offset")), "bools": bools,
		"times": u64s(fld(cv, "times")), "tuples": tuples, "nils": nils}
}

func dumpChunk(ch *executor.ChunkImpl) J {
	v := reflect.ValueOf(ch)
	tags := [][]int{}
	tv := fld(v, "tags")
	for i := 0; i < tv.Len(); i++ {
		tags = append(tags, byteInts(access(tv.Index(i).FieldByName("subset")).Bytes()))
	}
	cols := func(name string) []any {
		out := []any{}
		cv := fld(v, name)
		for i := 0; i < cv.Len(); i++ {
			out = append(out, dumpColumn(cv.Index(i)))
		}
		return out
	}
	return J{"name": byteInts([]byte(fld(v, "name").String())), "tags": tags, "tagindex": u64s(fld(v, "tagIndex")),
		"time": u64s(fld(v, "time")), "intervalindex": u64s(fld(v, "intervalIndex")), "columns": cols("columns"), "dims": cols("dims")}
}

// ---------------------------------------------------------------------------------------------- chunks

var colTypes = []influxql.DataType{influxql.Float, influxql.Integer, influxql.String, influxql.Boolean, influxql.FloatTuple, influxql.Tag}

// floatAny: any float64 pattern, special values included (a result column can hold NaN, infinities, -0.0)
func (g *G) floatAny() float64 {
	if g.r.Chance(1, 4) {
		return gen.Pick(g.r, []float64{math.NaN(), math.Float64frombits(0x7ff8000000000001), math.Float64frombits(0xfff0000000000001), math.Inf(1), math.Inf(-1),
			math.Copysign(0, -1), 0, math.MaxFloat64, -math.MaxFloat64, 5e-324, math.Float64frombits(g.r.Uint64())})
	}
	return g.float(true)
}

// fillColumn appends rows values/nils; mode 0 mixed, 1 all nil, 2 no nil
func (g *G) fillColumn(col executor.Column, dt influxql.DataType, rows int, mode int) {
	for i := 0; i < rows; i++ {
		if mode == 1 || (mode == 0 && g.r.Chance(1, 4)) {
			col.AppendNil()
			continue
		}
		switch dt {
		case influxql.Float:
			col.AppendFloatValue(g.floatAny())
		case influxql.Integer:
			col.AppendIntegerValue(g.r.Int64Boundary())
		case influxql.String, influxql.Tag:
			if g.r.Chance(1, 4000) {
				col.AppendStringValue(strings.Repeat("long\x00\xff", 11000)) // > 64 KiB, NUL and non-UTF-8 bytes
			} else {
				col.AppendStringValue(g.strv())
			}
		case influxql.Boolean:
			col.AppendBooleanValue(g.r.Bool())
		case influxql.FloatTuple:
			vals := []float64{g.floatAny(), float64(i)}
			if g.r.Chance(1, 5) {
				vals = []float64{}
			}
			col.AppendFloatTuple(*executor.NewfloatTuple(vals))
		}
		col.AppendNotNil()
		if g.r.Chance(1, 6) {
			col.AppendColumnTime(g.r.Int64Boundary())
		}
	}
}

func (g *G) genChunk() *executor.ChunkImpl {
	ncol := g.r.Range(1, 5)
	refs := []influxql.VarRef{}
	for i := 0; i < ncol; i++ {
		refs = append(refs, influxql.VarRef{Val: fmt.Sprintf("c%d", i), Type: gen.Pick(g.r, colTypes)})
	}
	rdt := hybridqp.NewRowDataTypeImpl(refs...)
	name := gen.Pick(g.r, strPool)
	if g.r.Chance(1, 10) {
		name = strings.Repeat("m", gen.Pick(g.r, []int{255, 256, 300, 65535}))
	}
	chunk := executor.NewChunkBuilder(rdt).NewChunk(name)
	rows := gen.Pick(g.r, []int{0, 1, 2, 7, 8, 9, 15, 16, 17, 33, 64, 65, 255, 256, 257})
	ntags := g.r.Intn(4)
	if rows == 0 {
		ntags = 0
	}
	for i := 0; i < ntags; i++ {
		tags := executor.NewChunkTagsByTagKVs([]string{"host", gen.Pick(g.r, bareNames) + "k"}, []string{g.strv(), fmt.Sprintf("v%d", i)})
		if g.r.Chance(1, 5) {
			tags = executor.NewChunkTagsByTagKVs(nil, nil)
		}
		chunk.AppendTagsAndIndex(*tags, i*rows/ntags)
	}
	for i := 0; i < rows; i++ {
		chunk.AppendTime(g.r.Int64Boundary())
		if g.r.Chance(1, 5) || i == 0 {
			chunk.AppendIntervalIndex(i)
		}
	}
	for i, ref := range refs {
		g.fillColumn(chunk.Column(i), ref.Type, rows, gen.Pick(g.r, []int{0, 0, 0, 1, 2}))
	}
	if g.r.Chance(1, 4) {
		extra := executor.NewColumnImpl(influxql.Boolean)
		g.fillColumn(extra, influxql.Boolean, rows, 0)
		chunk.AddColumn(extra)
	}
	if g.r.Chance(1, 8) {
		chunk.AddColumn(nil) // an empty column slot (the codec writes a zero size for it)
	}
	if g.r.Chance(1, 3) {
		chunk.AddDim(executor.NewColumnImpl(influxql.String))
		g.fillColumn(chunk.Dim(0), influxql.String, rows, 0)
		if g.r.Bool() {
			chunk.AddDim(executor.NewColumnImpl(influxql.Integer))
			g.fillColumn(chunk.Dim(1), influxql.Integer, rows, 2)
		}
	}
	return chunk.(*executor.ChunkImpl)
}

func chunkSemantic(ch executor.Chunk) string {
	var sb strings.Builder
	fmt.Fprintf(&sb, "%q|%v|%v|%v|", ch.Name(), ch.Time(), ch.TagIndex(), ch.IntervalIndex())
	for _, t := range ch.Tags() {
		k, v := t.GetChunkTagAndValues()
		fmt.Fprintf(&sb, "T%q%q", k, v)
	}
	cols := append(append([]executor.Column{}, ch.Columns()...), ch.Dims()...)
	for _, col := range cols {
		if col == nil {
			sb.WriteString("|nilcol")
			continue
		}
		fmt.Fprintf(&sb, "|%d:%d:", col.DataType(), col.Length())
		for i := 0; i < col.Length(); i++ {
			if col.IsNilV2(i) {
				sb.WriteString("_,")
				continue
			}
			j := col.GetValueIndexV2(i)
			switch col.DataType() {
			case influxql.Float:
				fmt.Fprintf(&sb, "%x,", math.Float64bits(col.FloatValue(j)))
			case influxql.Integer:
				fmt.Fprintf(&sb, "%d,", col.IntegerValue(j))
			case influxql.String, influxql.Tag:
				fmt.Fprintf(&sb, "%q,", col.StringValue(j))
			case influxql.Boolean:
				fmt.Fprintf(&sb, "%v,", col.BooleanValue(j))
			case influxql.FloatTuple:
				fmt.Fprintf(&sb, "%v,", col.FloatTuple(j))
			}
		}
		fmt.Fprintf(&sb, "t%v", col.ColumnTimes())
	}
	return sb.String()
}

func chunkCase(g *G) Case {
	c := Case{Kind: "chunk"}
	guard(&c, func() {
		n := g.r.Range(1, 3) // multi-chunk: several chunks of one stream
		lost := map[string]bool{}
		shapes := []string{}
		// interleaved: all chunks of the stream are marshalled first (their frames wait in the send queue), then each
		// frame is checked to be what it was and decoded
		type frame struct {
			ch        *executor.ChunkImpl
			buf, snap []byte
		}
		frames := []frame{}
		for i := 0; i < n; i++ {
			ch := g.genChunk()
			shapes = append(shapes, fmt.Sprintf("%drows/%dcols/%dtags/%ddims", ch.Len(), len(ch.Columns()), len(ch.Tags()), len(ch.Dims())))
			buf, err := ch.Marshal(make([]byte, 0, ch.Size()))
			if err != nil {
				c.Oracle = "marshal error: " + err.Error()
				return
			}
			if len(buf) != ch.Size() {
				c.Oracle = fmt.Sprintf("Size() %d differs from the marshalled length %d", ch.Size(), len(buf))
				return
			}
			frames = append(frames, frame{ch, buf, append([]byte(nil), buf...)})
		}
		for _, fr := range frames {
			ch, buf := fr.ch, fr.buf
			lastInput = J{"obj": dumpChunk(ch), "bytes": hex.EncodeToString(fr.snap)}
			if !intact(&c, "chunk frame", buf, fr.snap) {
				return
			}
			back := &executor.ChunkImpl{}
			if err := back.Unmarshal(buf); err != nil {
				c.Oracle = "unmarshal error: " + err.Error()
				return
			}
			c.Chunks = append(c.Chunks, J{"obj": dumpChunk(ch), "bytes": hex.EncodeToString(buf), "back": dumpChunk(back)})
			for _, f := range lostFields(ch, back) {
				lost[f] = true
			}
			if a, b := chunkSemantic(ch), chunkSemantic(back); a != b {
				c.Oracle = "chunk accessors differ after the round trip"
				return
			}
		}
		c.SrcText = strings.Join(shapes, " ")
		for f := range lost {
			c.Lost = append(c.Lost, f)
		}
		sort.Strings(c.Lost)
	})
	return c
}
