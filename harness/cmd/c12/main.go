// C12 correspondence harness: drives the repository's real InfluxQL printers (String methods), the hand-written
// ParseExpr, the yacc statement parser and the ProcessorOptions codec on generated inputs.
//
//	c12 tables            -> one JSON object: live operator table, keyword table
//	c12 cases <n>         -> one JSON object per case (ASTs, texts, statement-parser conditions, option sets)
//	c12 replay <file>     -> re-run the cases stored in a replay file
//
// DIRECT ORACLE (per expression case): ParseExpr(e.String()) deep-equals e (operators, grouping, literal types and
// values by IEEE bits, identifiers, casts, regex sources, call names/arity). Per option case: every field of
// ProcessorOptions that is not reported lost survives MarshalBinary -> UnmarshalBinary.
package main

import (
	"encoding/json"
	"fmt"
	"math"
	"os"
	"reflect"
	"regexp"
	"sort"
	"strconv"
	"strings"
	"time"

	"github.com/openGemini/openGemini/engine/hybridqp"
	"github.com/openGemini/openGemini/lib/util/lifted/influx/influxql"
	"github.com/openGemini/openGemini/lib/util/lifted/influx/query"
	internal "github.com/openGemini/openGemini/lib/util/lifted/influx/query/proto"
	"google.golang.org/protobuf/proto"
	"verifharness/internal/gen"
)

// ---------------------------------------------------------------------------------------------- operator table

type opInfo struct {
	Idx  int    `json:"idx"`
	Name string `json:"name"`
	Tok  int    `json:"code"`
	Prec int    `json:"prec"`
	IsOp bool   `json:"isop"`
	Text string `json:"text"`
}

var opToks = []struct {
	name string
	tok  influxql.Token
}{
	{"OOr", influxql.OR}, {"OAnd", influxql.AND}, {"OEq", influxql.EQ}, {"ONeq", influxql.NEQ},
	{"OEqRegex", influxql.EQREGEX}, {"ONeqRegex", influxql.NEQREGEX}, {"OLt", influxql.LT}, {"OLte", influxql.LTE},
	{"OGt", influxql.GT}, {"OGte", influxql.GTE}, {"OAdd", influxql.ADD}, {"OSub", influxql.SUB},
	{"OMul", influxql.MUL}, {"ODiv", influxql.DIV}, {"OMod", influxql.MOD}, {"OBitAnd", influxql.BITWISE_AND},
	{"OBitOr", influxql.BITWISE_OR}, {"OBitXor", influxql.BITWISE_XOR}, {"OLike", influxql.LIKE},
	{"OMatch", influxql.MATCH}, {"OMatchPhrase", influxql.MATCHPHRASE}, {"OIpInRange", influxql.IPINRANGE},
}

func opIndex(t influxql.Token) int {
	for i, o := range opToks {
		if o.tok == t {
			return i
		}
	}
	return -1
}

func tables() map[string]any {
	ops := []opInfo{}
	for i, o := range opToks {
		ops = append(ops, opInfo{i, o.name, int(o.tok), o.tok.Precedence(), influxql.VerifIsOperatorC12(o.tok), o.tok.String()})
	}
	kws := influxql.VerifKeywordsC12()
	names := make([]string, 0, len(kws))
	for k := range kws {
		names = append(names, k)
	}
	sort.Strings(names)
	kl := [][2]any{}
	for _, k := range names {
		kl = append(kl, [2]any{k, kws[k]})
	}
	return map[string]any{"tables": true, "ops": ops, "keywords": kl,
		"code_true": int(influxql.TRUE), "code_false": int(influxql.FALSE), "code_field": int(influxql.FIELD),
		"code_tag": int(influxql.TAG), "code_distinct": int(influxql.DISTINCT)}
}

// ---------------------------------------------------------------------------------------------- AST <-> JSON

type J = map[string]any

func runes(s string) []int {
	r := []int{}
	for _, c := range s {
		r = append(r, int(c))
	}
	return r
}

var dtypeIdx = map[influxql.DataType]int{influxql.Unknown: 0, influxql.Float: 1, influxql.FloatTuple: 2, influxql.Integer: 3,
	influxql.Unsigned: 4, influxql.String: 5, influxql.Boolean: 6, influxql.Tag: 7, influxql.AnyField: 8,
	influxql.Time: 9, influxql.Duration: 10, influxql.Graph: 11}

func dump(e influxql.Expr) J {
	switch x := e.(type) {
	case *influxql.VarRef:
		t, ok := dtypeIdx[x.Type]
		if !ok {
			return J{"k": "other", "go": fmt.Sprintf("VarRef type %d", x.Type)}
		}
		return J{"k": "var", "s": runes(x.Val), "t": t}
	case *influxql.IntegerLiteral:
		return J{"k": "int", "z": strconv.FormatInt(x.Val, 10)}
	case *influxql.UnsignedLiteral:
		return J{"k": "uint", "n": strconv.FormatUint(x.Val, 10)}
	case *influxql.NumberLiteral:
		v := x.Val
		if math.IsInf(v, 1) {
			return J{"k": "special", "v": 0}
		} else if math.IsInf(v, -1) {
			return J{"k": "special", "v": 1}
		} else if math.IsNaN(v) {
			return J{"k": "special", "v": 2}
		}
		// shortest decimal, except above MaxInt where the printer emits the exact integer value ('f', 1)
		txt := strconv.FormatFloat(math.Abs(v), 'f', -1, 64)
		if v > math.MaxInt {
			txt = strconv.FormatFloat(v, 'f', 0, 64)
		}
		ip, fp := txt, ""
		if i := strings.IndexByte(txt, '.'); i >= 0 {
			ip, fp = txt[:i], txt[i+1:]
		}
		fd := []int{}
		for _, c := range fp {
			fd = append(fd, int(c-'0'))
		}
		return J{"k": "num", "neg": math.Signbit(v), "ip": ip, "fp": fd, "bits": strconv.FormatUint(math.Float64bits(v), 10)}
	case *influxql.StringLiteral:
		return J{"k": "str", "s": runes(x.Val)}
	case *influxql.BooleanLiteral:
		return J{"k": "bool", "b": x.Val}
	case *influxql.DurationLiteral:
		return J{"k": "dur", "z": strconv.FormatInt(int64(x.Val), 10)}
	case *influxql.RegexLiteral:
		if x.Val == nil {
			return J{"k": "other", "go": "nil regex"}
		}
		return J{"k": "regex", "s": runes(x.Val.String())}
	case *influxql.Wildcard:
		w := 0
		if x.Type == influxql.FIELD {
			w = 1
		} else if x.Type == influxql.TAG {
			w = 2
		}
		return J{"k": "wild", "w": w}
	case *influxql.ParenExpr:
		return J{"k": "paren", "e": dump(x.Expr)}
	case *influxql.Call:
		args := []J{}
		for _, a := range x.Args {
			args = append(args, dump(a))
		}
		return J{"k": "call", "name": runes(x.Name), "args": args}
	case *influxql.BinaryExpr:
		i := opIndex(x.Op)
		if set, ok := x.RHS.(*influxql.SetLiteral); ok && (x.Op == influxql.IN || x.Op == influxql.NOTIN) {
			vals := []string{}
			for v := range set.Vals {
				switch t := v.(type) {
				case float64:
					vals = append(vals, "n:"+strconv.FormatFloat(t, 'g', -1, 64))
				default:
					vals = append(vals, fmt.Sprintf("s:%v", t))
				}
			}
			sort.Strings(vals)
			return J{"k": "in", "neg": x.Op == influxql.NOTIN, "l": dump(x.LHS), "set": vals}
		}
		if i < 0 {
			return J{"k": "other", "go": "BinaryExpr op " + x.Op.String(), "l": dump(x.LHS), "r": dump(x.RHS)}
		}
		return J{"k": "bin", "op": i, "l": dump(x.LHS), "r": dump(x.RHS)}
	case nil:
		return nil
	default:
		return J{"k": "other", "go": fmt.Sprintf("%T", e), "text": e.String()}
	}
}

// stripParens removes ParenExpr nodes from a tree dump: two trees that differ only in ParenExpr nodes have the same
// operators and the same grouping (the grouping IS the tree), which is what the property demands; a printer may add
// parentheses around an operand that would otherwise be regrouped.
func stripParens(j any) any {
	switch x := j.(type) {
	case J:
		if x["k"] == "paren" {
			return stripParens(x["e"])
		}
		out := J{}
		for k, v := range x {
			if k == "fillname" || k == "fillnum" {
				continue // model-facing duplicates of fill / fillvalue
			}
			out[k] = stripParens(v)
		}
		return out
	case []J:
		out := make([]any, len(x))
		for i, v := range x {
			out[i] = stripParens(v)
		}
		return out
	case []any:
		out := make([]any, len(x))
		for i, v := range x {
			out[i] = stripParens(v)
		}
		return out
	}
	return j
}

func meaningJSON(j any) string { return canonJSON(stripParens(j)) }

func canonJSON(j any) string {
	b, _ := json.Marshal(j)
	return string(b)
}

func str(rs any) string {
	var sb strings.Builder
	for _, c := range rs.([]any) {
		sb.WriteRune(rune(int(c.(float64))))
	}
	return sb.String()
}

// build reconstructs a Go AST from its JSON form (used by replay)
func build(j map[string]any) influxql.Expr {
	switch j["k"] {
	case "var":
		var dt influxql.DataType
		for k, v := range dtypeIdx {
			if v == int(j["t"].(float64)) {
				dt = k
			}
		}
		return &influxql.VarRef{Val: str(j["s"]), Type: dt}
	case "int":
		v, _ := strconv.ParseInt(j["z"].(string), 10, 64)
		return &influxql.IntegerLiteral{Val: v}
	case "uint":
		v, _ := strconv.ParseUint(j["n"].(string), 10, 64)
		return &influxql.UnsignedLiteral{Val: v}
	case "num":
		b, _ := strconv.ParseUint(j["bits"].(string), 10, 64)
		return &influxql.NumberLiteral{Val: math.Float64frombits(b)}
	case "special":
		return &influxql.NumberLiteral{Val: []float64{math.Inf(1), math.Inf(-1), math.NaN()}[int(j["v"].(float64))]}
	case "str":
		return &influxql.StringLiteral{Val: str(j["s"])}
	case "bool":
		return &influxql.BooleanLiteral{Val: j["b"].(bool)}
	case "dur":
		v, _ := strconv.ParseInt(j["z"].(string), 10, 64)
		return &influxql.DurationLiteral{Val: time.Duration(v)}
	case "regex":
		return &influxql.RegexLiteral{Val: regexp.MustCompile(str(j["s"]))}
	case "wild":
		w := &influxql.Wildcard{}
		switch int(j["w"].(float64)) {
		case 1:
			w.Type = influxql.FIELD
		case 2:
			w.Type = influxql.TAG
		}
		return w
	case "paren":
		return &influxql.ParenExpr{Expr: build(j["e"].(map[string]any))}
	case "call":
		c := &influxql.Call{Name: str(j["name"])}
		for _, a := range j["args"].([]any) {
			c.Args = append(c.Args, build(a.(map[string]any)))
		}
		return c
	case "bin":
		return &influxql.BinaryExpr{Op: opToks[int(j["op"].(float64))].tok, LHS: build(j["l"].(map[string]any)), RHS: build(j["r"].(map[string]any))}
	}
	panic("cannot build " + canonJSON(j))
}

// ---------------------------------------------------------------------------------------------- running the real code

type Case struct {
	ID      int    `json:"id"`
	Kind    string `json:"kind"` // ast | text | yy | opt
	Src     []int  `json:"src,omitempty"`
	SrcText string `json:"src_text,omitempty"`
	E       J      `json:"e"`                 // the tree (given, or parsed from src); nil if src does not parse
	Printed []int  `json:"printed,omitempty"` // e.String()
	PText   string `json:"printed_text,omitempty"`
	Re      J      `json:"re"` // ParseExpr(printed)
	ReErr   string `json:"re_err,omitempty"`
	Oracle  string `json:"oracle"` // "" ok, else what failed
	Lost    []string `json:"lost,omitempty"`
	Opt     J      `json:"opt,omitempty"`
	Chunks  []J    `json:"chunks,omitempty"` // chunk cases: structure, real bytes, structure after the round trip
}

func safeParse(s string) (e influxql.Expr, err error) {
	defer func() {
		if r := recover(); r != nil {
			e, err = nil, fmt.Errorf("panic: %v", r)
		}
	}()
	// the parser object comes from a pool and its scanner keeps the "split identifiers at dots" mode of its previous
	// use (finding C12-source-dotted-scanner-state): put it into the mode a new scanner starts in, so that a case
	// does not depend on the cases before it
	_, _ = influxql.ParseSortFields("a DESC")
	return influxql.ParseExpr(s)
}

// shippedText: the text the sql node really puts on the wire for a condition (ProcessorOptions.MarshalBinary ->
// protobuf field Condition); it is e.String() today, a repaired tree may print it differently on the shipping path only
func shippedText(e influxql.Expr) (txt string, ok bool) {
	defer func() {
		if r := recover(); r != nil {
			txt, ok = "", false
		}
	}()
	buf, err := (&query.ProcessorOptions{Condition: e}).MarshalBinary()
	if err != nil {
		return "", false
	}
	pb := &internal.ProcessorOptions{}
	if err := proto.Unmarshal(buf, pb); err != nil {
		return "", false
	}
	return pb.GetCondition(), true
}

func roundtrip(c *Case, e influxql.Expr) {
	c.E = dump(e)
	s := e.String()
	if st, ok := shippedText(e); ok {
		s = st
	}
	c.Printed, c.PText = runes(s), s
	re, err := safeParse(s)
	if err != nil {
		c.ReErr = err.Error()
		c.Oracle = "re-parse error"
		return
	}
	c.Re = dump(re)
	if meaningJSON(c.E) != meaningJSON(c.Re) {
		c.Oracle = "re-parsed tree differs"
	}
}

func yyParse(q string) (cond influxql.Expr, field influxql.Expr, err error) {
	return yyParseP(q, nil)
}

// yyParseP: the statement parser with bound parameters ($name in the text, values from the request's params)
func yyParseP(q string, params map[string]interface{}) (cond influxql.Expr, field influxql.Expr, err error) {
	defer func() {
		if r := recover(); r != nil {
			err = fmt.Errorf("panic: %v", r)
		}
	}()
	sc := influxql.NewScanner(strings.NewReader(q))
	yp := influxql.NewYyParser(sc, params)
	yp.ParseTokens()
	qu, err := yp.GetQuery()
	if err != nil {
		return nil, nil, err
	}
	if len(qu.Statements) != 1 {
		return nil, nil, fmt.Errorf("statements: %d", len(qu.Statements))
	}
	s, ok := qu.Statements[0].(*influxql.SelectStatement)
	if !ok {
		return nil, nil, fmt.Errorf("not a select")
	}
	if len(s.Fields) > 0 {
		field = s.Fields[0].Expr
	}
	return s.Condition, field, nil
}

// ---------------------------------------------------------------------------------------------- generators

type G struct {
	r *gen.Rand
}

var bareNames = []string{"a", "b", "v", "usage_idle", "host", "cpu0", "_x", "Value", "time", "f1", "region", "x_y_9"}
var oddNames = []string{"select", "from", "AND", "or", "true", "has space", "a.b", "db.rp.m", "9lives", "q\"uote", "back\\slash", "new\nline",
	"", "tab\tx", "π", "a-b", "field", "tag", "like", "distinct", "a'b", "a::b", "Inf2", "naN_", "x/y", "über", "日本", "a(b)", "where", "duration", "*"}
var callNames = []string{"mean", "max", "count", "f", "percentile", "abs", "str", "top", "cast_int64", "my_func2", "_g"}
var strPool = []string{"", "a", "server01", "it's", "back\\slash", "two\nlines", "q\"d", "\\n", "'", "\\", "a\\'b", "日本語", "tab\there", " lead", "trail ", "%x%", "/re/", "--c", "/*x*/",
	"2020-01-01T00:00:00Z", "0", "é́", "\U0001F600", "a,b", "(x)", "\\\\"}
var rePool = []string{"a", "^cpu.*$", "a/b", "/", "//", "x\\/y", "a\\\\b", "\\d+", "[/]", "a|b", "(?i)Host", "\\.", "a\\\\/b", "", "^$", "sp ace", "q'uote", "d\"q", "\\/", "é+"}
var durUnits = []int64{1, 1000, 1000000, 1000000000, 60000000000, 3600000000000, 86400000000000, 604800000000000}

func (g *G) name() string {
	if g.r.Chance(3, 4) {
		return gen.Pick(g.r, bareNames)
	}
	if g.r.Chance(1, 6) {
		// random characters
		n := g.r.Range(1, 6)
		cs := []rune{}
		al := []rune("abzAZ09_ .\"'\\\n-:/(),é日")
		for i := 0; i < n; i++ {
			cs = append(cs, gen.Pick(g.r, al))
		}
		return string(cs)
	}
	return gen.Pick(g.r, oddNames)
}

func (g *G) strv() string {
	if g.r.Chance(1, 4) {
		n := g.r.Range(0, 8)
		cs := []rune{}
		al := []rune("ab'\"\\\n n/%é\t(),;:-")
		for i := 0; i < n; i++ {
			cs = append(cs, gen.Pick(g.r, al))
		}
		return string(cs)
	}
	return gen.Pick(g.r, strPool)
}

func (g *G) float(allowIntegral bool) float64 {
	for {
		var v float64
		switch g.r.Intn(9) {
		case 0:
			v = float64(g.r.Intn(2000)-1000) / 8
		case 1:
			v = float64(g.r.Intn(100000)) / 1000
		case 2:
			v = math.Float64frombits(g.r.Uint64())
		case 3:
			v = gen.Pick(g.r, []float64{0.1, 1.2, 1e-7, 5e-324, 1.7976931348623157e308, 1e21, 1e22 + 1, 9007199254740993, 0.30000000000000004, 123456.789e3, 2.5e-10, 1e19, 9223372036854775808, 9223372036854777856, 4611686018427387904})
		case 4:
			v = float64(g.r.Int64Boundary())
		case 5:
			v = float64(g.r.Intn(50)) // integral
		case 6:
			v = gen.Pick(g.r, []float64{2.0, 0.0, math.Copysign(0, -1), 1.0, -3.0, 100, 1e6})
		default:
			v = (float64(g.r.Intn(2000000)) - 1000000) / float64(gen.Pick(g.r, []int{3, 7, 10, 100, 1000, 1 << 20}))
		}
		if math.IsNaN(v) || math.IsInf(v, 0) {
			continue
		}
		if !allowIntegral && integralFloatSig(v) {
			continue
		}
		return v
	}
}

// integralFloatSig: the signature of finding C12-integral-float on a value: printed without a fractional part
func integralFloatSig(v float64) bool {
	return v == math.Trunc(v) && !(v > math.MaxInt)
}

func (g *G) duration(allowSubUs bool) time.Duration {
	var d int64
	switch g.r.Intn(6) {
	case 0:
		d = int64(g.r.Intn(100)) * gen.Pick(g.r, durUnits)
	case 1:
		d = int64(g.r.Intn(100000)) * gen.Pick(g.r, durUnits[:4])
	case 2:
		d = g.r.Int64Boundary()
	case 3:
		d = gen.Pick(g.r, []int64{0, 1, 999, 1000, 1001, 1500, 86400000000000, 3600000000001, 9223372036854775807, -9223372036854775807, -1000, -1, 604800000000000 * 3, 90000000000})
	default:
		d = int64(g.r.Intn(1000)) * 1000 * int64(g.r.Range(1, 1000000))
	}
	if g.r.Chance(1, 8) {
		d = -d
	}
	if d == math.MinInt64 {
		d++
	}
	if !allowSubUs && d%1000 != 0 {
		d -= d % 1000
	}
	return time.Duration(d)
}

type feat struct{ integral, subus bool } // which known-defect features may be generated

var castTypes = []influxql.DataType{influxql.Float, influxql.Integer, influxql.String, influxql.Boolean, influxql.Tag, influxql.AnyField, influxql.Unsigned, influxql.FloatTuple}

func (g *G) varref() influxql.Expr {
	v := &influxql.VarRef{Val: g.name()}
	lv := strings.ToLower(v.Val)
	if lv == "inf" || lv == "nan" {
		v.Val = "a"
	}
	if g.r.Chance(1, 4) {
		v.Type = gen.Pick(g.r, castTypes)
	}
	return v
}

func (g *G) atom(f feat, depth int) influxql.Expr {
	switch g.r.Intn(13) {
	case 0, 1, 2:
		return g.varref()
	case 3:
		return &influxql.IntegerLiteral{Val: g.r.Int64Boundary()}
	case 4:
		if g.r.Chance(1, 3) {
			return &influxql.UnsignedLiteral{Val: uint64(math.MaxInt64) + 1 + g.r.Uint64()%uint64(math.MaxInt64)}
		}
		return &influxql.IntegerLiteral{Val: int64(g.r.Intn(200) - 100)}
	case 5, 6:
		return &influxql.NumberLiteral{Val: g.float(f.integral)}
	case 7:
		return &influxql.StringLiteral{Val: g.strv()}
	case 8:
		return &influxql.BooleanLiteral{Val: g.r.Bool()}
	case 9:
		return &influxql.DurationLiteral{Val: g.duration(f.subus)}
	case 10:
		if depth > 0 {
			return &influxql.ParenExpr{Expr: g.canon(f, depth-1, 0)}
		}
		return g.varref()
	default:
		if depth > 0 {
			return g.call(f, depth-1)
		}
		return g.varref()
	}
}

func (g *G) call(f feat, depth int) influxql.Expr {
	c := &influxql.Call{Name: gen.Pick(g.r, callNames)}
	n := g.r.Intn(5)
	for i := 0; i < n; i++ {
		switch g.r.Intn(8) {
		case 0:
			c.Args = append(c.Args, &influxql.RegexLiteral{Val: regexp.MustCompile(gen.Pick(g.r, rePool))})
		case 1:
			c.Args = append(c.Args, &influxql.Wildcard{Type: gen.Pick(g.r, []influxql.Token{0, influxql.FIELD, influxql.TAG})})
		default:
			c.Args = append(c.Args, g.canon(f, depth, 0))
		}
	}
	return c
}

var liveOps []influxql.Token // operators ParseExpr recognises, from the live table
var deadOps []influxql.Token // tokens with a precedence that ParseExpr does not recognise

func initOps() {
	for _, o := range opToks {
		if influxql.VerifIsOperatorC12(o.tok) {
			liveOps = append(liveOps, o.tok)
		} else {
			deadOps = append(deadOps, o.tok)
		}
	}
}

// canon builds an expression in canonical form under the live precedence table: a binary node's left child is an
// atom or a binary node of precedence >= its own, its right child an atom or a binary node of higher precedence;
// everything else is wrapped in parentheses. minPrec = lowest operator precedence allowed at the top.
func (g *G) canon(f feat, depth int, minPrec int) influxql.Expr {
	if depth <= 0 || g.r.Chance(1, 4) {
		return g.atom(f, depth)
	}
	cands := []influxql.Token{}
	for _, t := range liveOps {
		if t.Precedence() >= minPrec {
			cands = append(cands, t)
		}
	}
	if len(cands) == 0 {
		return g.atom(f, depth)
	}
	op := gen.Pick(g.r, cands)
	p := op.Precedence()
	l := g.canon(f, depth-1, p)
	if op == influxql.DIV && !divLeftOK(l) {
		l = &influxql.ParenExpr{Expr: l}
	}
	var r influxql.Expr
	if influxql.IsRegexOp(op) {
		r = &influxql.RegexLiteral{Val: regexp.MustCompile(gen.Pick(g.r, rePool))}
	} else {
		r = g.canon(f, depth-1, p+1)
	}
	return &influxql.BinaryExpr{Op: op, LHS: l, RHS: r}
}

// divLeftOK: the scanner reads '/' as division only after ) identifier integer number
func divLeftOK(e influxql.Expr) bool {
	switch x := e.(type) {
	case *influxql.VarRef:
		return x.Type != influxql.Tag && x.Type != influxql.AnyField
	case *influxql.IntegerLiteral, *influxql.UnsignedLiteral, *influxql.NumberLiteral, *influxql.ParenExpr, *influxql.Call:
		return true
	case *influxql.BinaryExpr:
		return divLeftOK(x.RHS)
	}
	return false
}

// loose builds an arbitrary tree with no parenthesis discipline (mostly not canonical)
func (g *G) loose(depth int) influxql.Expr {
	if depth <= 0 || g.r.Chance(1, 3) {
		return g.atom(feat{true, true}, 0)
	}
	ops := liveOps
	if g.r.Chance(1, 6) {
		ops = deadOps
	}
	op := gen.Pick(g.r, ops)
	var r influxql.Expr
	if influxql.IsRegexOp(op) {
		r = &influxql.RegexLiteral{Val: regexp.MustCompile(gen.Pick(g.r, rePool))}
	} else {
		r = g.loose(depth - 1)
	}
	return &influxql.BinaryExpr{Op: op, LHS: g.loose(depth - 1), RHS: r}
}

// ---- texts from the grammar (hand parser and statement parser)

func (g *G) ws() string {
	return gen.Pick(g.r, []string{" ", " ", " ", "  ", "\t", " \n "})
}
func (g *G) ows() string {
	if g.r.Chance(1, 5) {
		return g.ws()
	}
	return ""
}

var textOps = []string{"+", "-", "*", "/", "%", "=", "!=", "<>", "<", "<=", ">", ">=", "AND", "and", "OR", "Or", "=~", "!~", "&", "|", "^", "like"}

func (g *G) textIdent() string {
	switch g.r.Intn(6) {
	case 0:
		return influxql.QuoteIdent(g.name())
	case 1:
		return "\"" + gen.Pick(g.r, bareNames) + "\""
	case 2:
		return gen.Pick(g.r, []string{"a.b", "db.rp.m", "\"a\".\"b\"", "\"x y\".z", "a.b.c.d", "inf", "NaN", "\"inf\"", "x.\"y\""})
	default:
		return gen.Pick(g.r, bareNames)
	}
}

func (g *G) textAtom(depth int, yy bool) string {
	switch g.r.Intn(14) {
	case 0, 1, 2:
		s := g.textIdent()
		if g.r.Chance(1, 5) {
			s += "::" + gen.Pick(g.r, []string{"float", "integer", "string", "boolean", "tag", "field", "Float", "unsigned", "floattuple", "bogus"})
		}
		return s
	case 3:
		return gen.Pick(g.r, []string{"0", "1", "7", "42", "007", "9223372036854775807", "9223372036854775808", "18446744073709551615", "18446744073709551616", "123456789"})
	case 4:
		return gen.Pick(g.r, []string{"2.0", "1.5", "0.1", ".5", "3.", "1.2", "100.000", "0.000001", "12345.678", "1.0", "0.0", "00.50", "123456789012.125"})
	case 5:
		return influxql.QuoteString(g.strv())
	case 6:
		return gen.Pick(g.r, []string{"true", "false", "TRUE", "False"})
	case 7:
		return gen.Pick(g.r, []string{"1h", "10s", "5m", "1ns", "1500ns", "2w", "3d", "7ms", "15u", "15µ", "1h30m", "0s", "9223372036854775807ns", "1x", "1mm"})
	case 8:
		if depth > 0 {
			return "(" + g.ows() + g.text(depth-1, yy) + g.ows() + ")"
		}
		return "x"
	case 9:
		if depth > 0 {
			n := g.r.Intn(4)
			args := []string{}
			for i := 0; i < n; i++ {
				if g.r.Chance(1, 8) {
					args = append(args, "/"+strings.ReplaceAll(gen.Pick(g.r, rePool[:8]), "/", "\\/")+"/")
				} else if g.r.Chance(1, 10) {
					args = append(args, gen.Pick(g.r, []string{"*", "*::field", "*::tag"}))
				} else {
					args = append(args, g.text(depth-1, yy))
				}
			}
			nm := gen.Pick(g.r, callNames)
			if g.r.Chance(1, 6) {
				nm = strings.ToUpper(nm)
			}
			sep := "," + g.ows()
			if g.r.Chance(1, 2) {
				sep = ", "
			}
			return nm + "(" + g.ows() + strings.Join(args, sep) + g.ows() + ")"
		}
		return "y"
	case 10:
		// unary sign
		a := g.textAtom(depth, yy)
		if strings.HasPrefix(a, "-") || strings.HasPrefix(a, "+") {
			a = " " + a // "--" would start a comment (not modelled)
		}
		return gen.Pick(g.r, []string{"-", "-", "- ", "+"}) + a
	default:
		return gen.Pick(g.r, bareNames)
	}
}

func (g *G) text(depth int, yy bool) string {
	if depth <= 0 || g.r.Chance(1, 4) {
		return g.textAtom(depth, yy)
	}
	n := g.r.Range(1, 4)
	s := g.textAtom(depth-1, yy)
	for i := 0; i < n; i++ {
		op := gen.Pick(g.r, textOps)
		if op == "=~" || op == "!~" {
			s += g.ws() + op + g.ows() + "/" + strings.ReplaceAll(gen.Pick(g.r, rePool[:12]), "/", "\\/") + "/"
		} else {
			s += g.ws() + op + g.ws() + g.textAtom(depth-1, yy)
		}
	}
	return s
}

// condition text for the statement parser: comparisons joined by AND/OR with optional parentheses
func (g *G) yyArith(depth int) string {
	if depth <= 0 || g.r.Chance(1, 2) {
		switch g.r.Intn(8) {
		case 0:
			return gen.Pick(g.r, []string{"1", "2", "42", "9223372036854775807"})
		case 1:
			return gen.Pick(g.r, []string{"2.0", "1.5", "0.25", "1.2", "100.0"})
		case 2:
			return "-" + g.yyArith(0)
		case 3:
			return gen.Pick(g.r, []string{"1h", "10s", "1ns", "1500ns", "7ms"})
		case 4:
			return gen.Pick(g.r, callNames) + "(" + gen.Pick(g.r, bareNames) + ")"
		default:
			return gen.Pick(g.r, bareNames)
		}
	}
	if g.r.Chance(1, 5) {
		return "(" + g.yyArith(depth-1) + ")"
	}
	return g.yyArith(depth-1) + " " + gen.Pick(g.r, []string{"+", "-", "*", "/", "%", "&", "|", "^"}) + " " + g.yyArith(depth-1)
}

func (g *G) yyCmp() string {
	if g.r.Chance(1, 8) {
		n := g.r.Range(1, 4)
		items := []string{}
		for i := 0; i < n; i++ {
			switch g.r.Intn(4) {
			case 0:
				items = append(items, influxql.QuoteString(g.strv()))
			case 1:
				items = append(items, gen.Pick(g.r, []string{"-1", "-2.5", "-0", "-9223372036854775807"}))
			default:
				items = append(items, gen.Pick(g.r, []string{"0", "1", "42", "2.5", "100.0", "9223372036854775807", "0.001"}))
			}
		}
		return gen.Pick(g.r, bareNames) + gen.Pick(g.r, []string{" IN (", " in (", " NOT IN ("}) + strings.Join(items, gen.Pick(g.r, []string{", ", ","})) + ")"
	}
	if g.r.Chance(1, 40) {
		return gen.Pick(g.r, bareNames) + " =~ /a\nb" + gen.Pick(g.r, []string{"", ".*", "\n"}) + "/"
	}
	switch g.r.Intn(6) {
	case 0:
		return gen.Pick(g.r, bareNames) + " = " + influxql.QuoteString(g.strv())
	case 1:
		return influxql.QuoteIdent(g.name()) + " " + gen.Pick(g.r, []string{"=~", "!~"}) + " /" + strings.ReplaceAll(gen.Pick(g.r, rePool[:12]), "/", "\\/") + "/"
	case 2:
		return gen.Pick(g.r, bareNames) + " = " + gen.Pick(g.r, []string{"true", "false"})
	default:
		return g.yyArith(2) + " " + gen.Pick(g.r, []string{"=", "!=", "<", "<=", ">", ">=", "<>"}) + " " + g.yyArith(2)
	}
}

func (g *G) yyCond(depth int) string {
	if depth <= 0 || g.r.Chance(1, 3) {
		return g.yyCmp()
	}
	if g.r.Chance(1, 4) {
		return "(" + g.yyCond(depth-1) + ")"
	}
	return g.yyCond(depth-1) + " " + gen.Pick(g.r, []string{"AND", "OR", "and", "or"}) + " " + g.yyCond(depth-1)
}

// ---------------------------------------------------------------------------------------------- option sets

// fill sets every exported field of simple kind to a random non-zero value; returns the names it filled
func (g *G) fillOptions(opt *query.ProcessorOptions, f feat) {
	v := reflect.ValueOf(opt).Elem()
	t := v.Type()
	for i := 0; i < t.NumField(); i++ {
		fv := v.Field(i)
		if !fv.CanSet() {
			continue
		}
		switch fv.Kind() {
		case reflect.Bool:
			fv.SetBool(true)
		case reflect.Int, reflect.Int32, reflect.Int64:
			if fv.Type() == reflect.TypeOf(time.Duration(0)) {
				fv.SetInt(int64(g.r.Range(1, 1000000)) * 1000)
			} else if fv.Type() == reflect.TypeOf(influxql.FillOption(0)) {
				fv.SetInt(int64(g.r.Range(1, 4)))
			} else if fv.Kind() == reflect.Int32 {
				fv.SetInt(int64(g.r.Range(1, 1<<30)))
			} else {
				fv.SetInt(int64(g.r.Range(1, 1<<40)))
			}
		case reflect.Uint64, reflect.Uint32:
			fv.SetUint(uint64(g.r.Range(1, 1<<40)))
		case reflect.String:
			fv.SetString(gen.Pick(g.r, strPool[1:]))
		}
	}
	opt.Interval = hybridqp.Interval{Duration: time.Duration(g.r.Range(1, 1000)) * time.Second, Offset: time.Duration(g.r.Range(1, 1000))}
	opt.Dimensions = []string{g.name(), "host"}
	opt.GroupBy = map[string]struct{}{"host": {}, gen.Pick(g.r, oddNames[:8]) + "x": {}}
	opt.Location = time.UTC
	if g.r.Bool() {
		opt.Location, _ = time.LoadLocation("Asia/Shanghai")
	}
	opt.FillValue = float64(g.r.Intn(100)) + 0.5
	opt.SeriesKey = []byte{1, 2, byte(g.r.Intn(256))}
	opt.Aux = []influxql.VarRef{{Val: g.name(), Type: gen.Pick(g.r, castTypes)}, {Val: "x", Type: influxql.Integer}}
	opt.Sources = influxql.Sources{&influxql.Measurement{Database: "db0", RetentionPolicy: "rp" + gen.Pick(g.r, bareNames), Name: g.name() + "m",
		IsTarget: g.r.Bool(), SystemIterator: gen.Pick(g.r, []string{"", "_series"}), IsTimeSorted: g.r.Bool(), EngineType: 1,
		Regex: &influxql.RegexLiteral{Val: regexp.MustCompile(gen.Pick(g.r, rePool))}}}
	opt.Expr = g.canon(f, 2, 0)
	opt.Condition = g.canon(f, 3, 0)
	opt.ValueCondition = g.canon(f, 2, 0)
	second := gen.Pick(g.r, bareNames) + "z"
	if g.r.Chance(1, 6) {
		second = gen.Pick(g.r, oddNames[:12])
	}
	opt.SortFields = influxql.SortFields{{Name: gen.Pick(g.r, bareNames), Ascending: g.r.Bool()}, {Name: second, Ascending: true}}
	opt.StartTime = g.r.Int64Boundary()
	opt.EndTime = g.r.Int64Boundary()
}

func exprStr(e influxql.Expr) string {
	if e == nil {
		return "<nil>"
	}
	return meaningJSON(dump(e))
}

func fieldRepr(name string, fv reflect.Value) (string, bool) {
	switch name {
	case "Expr", "Condition", "ValueCondition":
		if fv.IsNil() {
			return "<nil>", true
		}
		return exprStr(fv.Interface().(influxql.Expr)), true
	case "Location":
		if fv.IsNil() {
			return "<nil>", true
		}
		return fv.Interface().(*time.Location).String(), true
	case "Sources":
		out := []string{}
		for _, s := range fv.Interface().([]influxql.Source) {
			m, ok := s.(*influxql.Measurement)
			if !ok {
				out = append(out, fmt.Sprintf("%T", s))
				continue
			}
			re := ""
			if m.Regex != nil && m.Regex.Val != nil {
				re = m.Regex.Val.String()
			}
			out = append(out, fmt.Sprintf("%q|%q|%q|%q|%v|%q|%v|%v", m.Database, m.RetentionPolicy, m.Name, re, m.IsTarget, m.SystemIterator, m.IsTimeSorted, m.EngineType))
		}
		return strings.Join(out, ";"), true
	case "SortFields":
		out := []string{}
		for _, s := range fv.Interface().(influxql.SortFields) {
			out = append(out, fmt.Sprintf("%q:%v", s.Name, s.Ascending))
		}
		return strings.Join(out, ";"), true
	case "GroupBy":
		ks := []string{}
		for _, k := range fv.MapKeys() {
			ks = append(ks, k.String())
		}
		sort.Strings(ks)
		return strings.Join(ks, "\x00"), true
	}
	switch fv.Kind() {
	case reflect.Bool, reflect.Int, reflect.Int32, reflect.Int64, reflect.Uint64, reflect.Uint32, reflect.String, reflect.Float64:
		return fmt.Sprintf("%v", fv.Interface()), true
	case reflect.Slice, reflect.Struct:
		if fv.Kind() == reflect.Slice && fv.Len() == 0 {
			return "[]", true
		}
		return fmt.Sprintf("%#v", fv.Interface()), true
	case reflect.Interface:
		if fv.IsNil() {
			return "<nil>", true
		}
		if _, ok := fv.Interface().(float64); ok {
			return fmt.Sprintf("%v", fv.Interface()), true
		}
	}
	return "", false // channels, funcs, contexts, pointers: not comparable observables
}

func optCase(g *G, id int, f feat) Case {
	c := Case{ID: id, Kind: "opt"}
	opt := &query.ProcessorOptions{}
	g.fillOptions(opt, f)
	buf, err := opt.MarshalBinary()
	if err != nil {
		c.Oracle = "marshal error: " + err.Error()
		return c
	}
	// interleaved: the options of other requests are marshalled before these bytes are read
	snap := append([]byte(nil), buf...)
	for i := 0; i < 2; i++ {
		other := &query.ProcessorOptions{}
		g.fillOptions(other, feat{false, false})
		_, _ = other.MarshalBinary()
	}
	if !intact(&c, "options", buf, snap) {
		c.Lost = []string{"*"}
		return c
	}
	var back query.ProcessorOptions
	func() {
		defer func() {
			if r := recover(); r != nil {
				err = fmt.Errorf("panic: %v", r)
			}
		}()
		err = back.UnmarshalBinary(buf)
	}()
	sn := []string{}
	for _, sf := range opt.SortFields {
		sn = append(sn, sf.Name)
	}
	c.Opt = J{"Condition": dump(opt.Condition), "Expr": dump(opt.Expr), "ValueCondition": dump(opt.ValueCondition), "sort_names": sn}
	if err != nil {
		c.Oracle = "unmarshal error: " + err.Error()
		c.Lost = []string{"*"}
		return c
	}
	va, vb := reflect.ValueOf(opt).Elem(), reflect.ValueOf(&back).Elem()
	for i := 0; i < va.NumField(); i++ {
		name := va.Type().Field(i).Name
		if !va.Type().Field(i).IsExported() {
			continue
		}
		ra, ok := fieldRepr(name, va.Field(i))
		if !ok {
			continue
		}
		rb, _ := fieldRepr(name, vb.Field(i))
		if ra != rb {
			c.Lost = append(c.Lost, name)
		}
	}
	return c
}

// ---------------------------------------------------------------------------------------------- main

var witnessTexts = []string{
	"a / 2.0 > 1.2", "time > 1ns", "x = 1500ns", "v = 2.0", "v = -0.0", "a = 1 OR b = 2 AND c = 3", "a = 1 AND b = 2 OR c = 3",
	"b / -a > 1", "b * -a", "a & 1 = 1", "a | 2", "a ^ b", "a - -b", "-a * b", "a % 3 = 1",
	"host =~ /a\\/b/ AND v > -9223372036854775808", "v = 9223372036854775808", "\"select\" = 'it\\'s'", "\"a\\\"b\" != 'x\\\\y\\nz'",
	"f(a, 1) > 2", "mean(/re\\/x/)", "max(*::field)", "count() = 0", "(a + b) * c", "a + b * c - d / e", "a = 1 = true", "-(a+b)",
	"1h / 2", "'x' / 2", "a::field / 2", "nan > 1", "\"inf\"", "a =~ /x/ / 2", "a.b = 1", "\"a\".\"b\"::tag = 'c'", "f (x)", "a ::float",
	"a like 'x%'", "a =~ b", "1.5.2", "a = 'unterminated", "((a))", "f(a,, b)", "- - a", "a = $p",
}

var witnessYY = []string{
	"a = 1 OR b = 2 AND c = 3", "a = 1 AND b = 2 OR c = 3", "a / 2.0 > 1.2", "time > 1ns", "b / -a > 1", "b % -a = 0", "a & 1 = 1",
	"a | 1 = 1", "a ^ 1 = 1", "host =~ /a\\/b/", "a = -1h", "\"nan\" > 1", "(a = 1 OR b = 2) AND c = 3", "a = 1 OR (b = 2 AND c = 3)",
	"v = 9223372036854775808", "- -a > 1", "a * -b > 0", "a - -b > 0", "x = 'it\\'s' AND y = 'back\\\\slash'",
	"a IN (1, 2.5, 'x')", "a IN (-1, 2)", "a NOT IN (-2.5)", "host IN ('it\\'s', 'b')", "a IN (0)", "v NOT IN (1, 2.5, '')", "h =~ /a\nb/", "h !~ /x\n/ AND v > 1",
}

func main() {
	if len(os.Args) < 2 {
		fmt.Fprintln(os.Stderr, "usage: c12 tables | cases <n> | replay <file>")
		os.Exit(2)
	}
	initOps()
	switch os.Args[1] {
	case "tables":
		gen.Emit(tables())
		return
	case "replay":
		replay(os.Args[2])
		return
	case "src": // exploration: ParseSource on the arguments
		for _, a := range os.Args[2:] {
			src, err := influxql.ParseSource(a)
			fmt.Printf("%q -> %v err=%v\n", a, canonJSON(dumpSource(src)), err)
		}
		return
	case "stmts": // exploration: statement differential only
		n, _ := strconv.Atoi(os.Args[2])
		g := &G{r: gen.FromEnv(12)}
		for _, q := range witnessStmts {
			gen.Emit(stmtCase(g, q, true))
		}
		for i := 0; i < n; i++ {
			clean := i%5 != 4
			gen.Emit(stmtCase(g, g.stmt(stmtFeat{clean}, 2), clean))
		}
		return
	}
	n, _ := strconv.Atoi(os.Args[2])
	g := &G{r: gen.FromEnv(12)}
	id := 0
	emit := func(c Case) {
		if stuck != nil {
			c = *stuck
		}
		c.ID = id
		id++
		gen.Emit(c)
		if timedOut {
			gen.Emit(J{"done": true, "cases": id, "stopped": "codec timeout"})
			os.Exit(0)
		}
	}
	textCase := func(src string) {
		c := Case{Kind: "text", Src: runes(src), SrcText: src}
		e, err := safeParse(src)
		if err == nil && e != nil {
			roundtrip(&c, e)
		}
		emit(c)
	}
	yyCase := func(cond string, asField bool) {
		q := "select v from m where " + cond
		if asField {
			q = "select " + cond + " from m"
		}
		c := Case{Kind: "yy", Src: runes(cond), SrcText: q}
		ce, fe, err := yyParse(q)
		e := ce
		if asField {
			e = fe
		}
		if err == nil && e != nil {
			roundtrip(&c, e)
		}
		emit(c)
	}
	// bound parameters: the value of $p comes from the request, not from the statement text
	paramCase := func(cond string, val interface{}) {
		q := "select v from m where " + cond
		c := Case{Kind: "yy", Src: runes(cond), SrcText: fmt.Sprintf("%s  [params: p=%q]", q, fmt.Sprint(val))}
		ce, _, err := yyParseP(q, map[string]interface{}{"p": val})
		if err == nil && ce != nil {
			roundtrip(&c, ce)
		}
		emit(c)
	}
	// 1. witness corpus first
	for _, s := range witnessTexts {
		textCase(s)
	}
	for _, v := range []interface{}{"plain", "it's", "a\rb", "x\x00y", "two\nlines", "back\\slash", 2.5, int64(-7), true} {
		paramCase("h = $p", v)
	}
	for _, s := range witnessYY {
		yyCase(s, false)
	}
	for _, s := range []string{"b / -a", "a & b", "2.0 * v", "a * -b", "- -a", "-f(x)", "v / 1ns"} {
		yyCase(s, true)
	}
	for _, d := range []int64{1, 999, 1000, 1500, -1, 3600000000001, 9223372036854775807, -9223372036854775807, 604800000000000, 86400000000000 * 3, 90000000000, 0} {
		c := Case{Kind: "ast"}
		roundtrip(&c, &influxql.DurationLiteral{Val: time.Duration(d)})
		emit(c)
	}
	for _, v := range []float64{2.0, 0, math.Copysign(0, -1), -3, 1e18, 9223372036854775808, 1e19, 1e300, 0.1, 5e-324, -1e19, 1.2} {
		c := Case{Kind: "ast"}
		roundtrip(&c, &influxql.BinaryExpr{Op: influxql.GT, LHS: &influxql.VarRef{Val: "v"}, RHS: &influxql.NumberLiteral{Val: v}})
		emit(c)
	}
	for _, v := range []int64{0, -1, math.MaxInt64, math.MinInt64, math.MinInt64 + 1} {
		c := Case{Kind: "ast"}
		roundtrip(&c, &influxql.BinaryExpr{Op: influxql.SUB, LHS: &influxql.IntegerLiteral{Val: v}, RHS: &influxql.IntegerLiteral{Val: v}})
		emit(c)
	}
	for _, v := range []uint64{math.MaxInt64 + 1, math.MaxUint64, math.MaxInt64, 5} {
		c := Case{Kind: "ast"}
		if v <= math.MaxInt64 {
			c.Kind = "loose" // no parser builds an UnsignedLiteral that fits int64
		}
		roundtrip(&c, &influxql.UnsignedLiteral{Val: v})
		emit(c)
	}
	for _, q := range witnessStmts {
		emit(stmtCase(g, q, true))
	}
	// 2. generated
	for i := 0; i < n; i++ {
		switch k := i % 27; {
		case k < 8: // canonical trees without known-defect literal features
			c := Case{Kind: "ast"}
			roundtrip(&c, g.canon(feat{false, false}, g.r.Range(1, 4), 0))
			emit(c)
		case k < 10: // canonical trees with integral floats / sub-microsecond durations allowed
			c := Case{Kind: "ast"}
			roundtrip(&c, g.canon(feat{true, true}, g.r.Range(1, 3), 0))
			emit(c)
		case k < 12: // arbitrary trees (not the image of any parser: correspondence only, the oracle is not judged)
			c := Case{Kind: "loose"}
			roundtrip(&c, g.loose(g.r.Range(1, 3)))
			emit(c)
		case k < 16:
			textCase(g.text(g.r.Range(1, 3), false))
		case k < 18:
			if g.r.Chance(1, 4) {
				yyCase(g.yyArith(3), true)
			} else {
				yyCase(g.yyCond(3), false)
			}
		case k < 20:
			emit(optCase(g, 0, feat{g.r.Chance(1, 8), g.r.Chance(1, 8)}))
		case k == 20:
			emit(planCase(g))
		case k == 21:
			emit(schemaCase(g))
		case k == 22:
			emit(rpcCase(g))
		case k == 23:
			emit(chunkCase(g))
		default: // full statements: four of five without any construct that has an open finding
			clean := i%5 != 0
			emit(stmtCase(g, g.stmt(stmtFeat{clean}, 2), clean))
		}
	}
	gen.Emit(J{"done": true, "cases": id})
}

func replay(path string) {
	b, err := os.ReadFile(path)
	if err != nil {
		fmt.Fprintln(os.Stderr, err)
		os.Exit(2)
	}
	var rp struct {
		Cases []map[string]any `json:"cases"`
	}
	if err := json.Unmarshal(b, &rp); err != nil {
		fmt.Fprintln(os.Stderr, err)
		os.Exit(2)
	}
	id := 0
	// the two printer-variant witnesses first (the driver detects _current/_repaired from them)
	{
		c := Case{ID: id, Kind: "loose"}
		id++
		roundtrip(&c, &influxql.DurationLiteral{Val: 1})
		gen.Emit(c)
		c = Case{ID: id, Kind: "loose"}
		id++
		roundtrip(&c, &influxql.BinaryExpr{Op: influxql.GT, LHS: &influxql.VarRef{Val: "v"}, RHS: &influxql.NumberLiteral{Val: 2}})
		gen.Emit(c)
	}
	for _, rc := range rp.Cases {
		kind, _ := rc["kind"].(string)
		c := Case{ID: id, Kind: kind}
		id++
		switch kind {
		case "text":
			src := rc["src_text"].(string)
			c.Src, c.SrcText = runes(src), src
			if e, err := safeParse(src); err == nil && e != nil {
				roundtrip(&c, e)
			}
		case "yy":
			q := rc["src_text"].(string)
			c.Src, c.SrcText = runes(q), q
			ce, fe, err := yyParse(q)
			e := ce
			if e == nil {
				e = fe
			}
			if err == nil && e != nil {
				roundtrip(&c, e)
			}
		case "ast", "loose":
			roundtrip(&c, build(rc["e"].(map[string]any)))
		default:
			continue
		}
		gen.Emit(c)
	}
	gen.Emit(J{"done": true, "cases": id})
}
