// C12 harness, third part: FULL statements.  The sql node parses a query with the yacc grammar (sql.y); what it ships
// to the storage nodes as text - the select list (QuerySchema.QueryFields, read back by hybridqp.ParseFields), sources
// and sub-queries (QueryNode.Source / JoinCase, read back by influxql.ParseSource), sort fields (ParseSortFields),
// conditions (ParseExpr) - is read there by the HAND-WRITTEN parser.  Differential: parse with yacc, print, parse with
// the store-side reader, compare the trees.
// DIRECT ORACLE (per piece): the structure dump of what the store-side reader returns equals the dump of what was printed.
package main

import (
	"fmt"
	"strings"

	"github.com/openGemini/openGemini/engine/hybridqp"
	"github.com/openGemini/openGemini/lib/util/lifted/influx/influxql"
	"github.com/openGemini/openGemini/lib/util/lifted/influx/query"
	internal "github.com/openGemini/openGemini/lib/util/lifted/influx/query/proto"
	"google.golang.org/protobuf/proto"
	"verifharness/internal/gen"
)

// The texts are produced by the REAL encoders of the shipping path (EncodeQuerySchema, EncodeSource,
// ProcessorOptions.MarshalBinary), not by calling String() here: a tree may print differently on the shipping path.

// fieldsCatalog: just enough of a schema for EncodeQuerySchema (it reads the query fields, column names and unnests)
type fieldsCatalog struct {
	hybridqp.Catalog
	fields influxql.Fields
}

func (c *fieldsCatalog) GetQueryFields() influxql.Fields { return c.fields }
func (c *fieldsCatalog) GetColumnNames() []string        { return nil }
func (c *fieldsCatalog) GetUnnests() influxql.Unnests    { return nil }

func shippedFields(fs influxql.Fields) string {
	return query.EncodeQuerySchema(&fieldsCatalog{fields: fs}).QueryFields
}

func shippedSource(src influxql.Source) string {
	return query.EncodeSource([]influxql.Source{src})[0]
}

func shippedSortFields(sf influxql.SortFields) string {
	buf, err := (&query.ProcessorOptions{SortFields: sf}).MarshalBinary()
	if err != nil {
		panic(err)
	}
	pb := &internal.ProcessorOptions{}
	if err := proto.Unmarshal(buf, pb); err != nil {
		panic(err)
	}
	return pb.GetSortFields()
}

// ---------------------------------------------------------------------------------------------- structure dumps

func dumpFields(fs influxql.Fields) []J {
	out := []J{}
	for _, f := range fs {
		out = append(out, J{"e": dump(f.Expr), "alias": f.Alias})
	}
	return out
}

func dumpSource(s influxql.Source) J {
	switch x := s.(type) {
	case *influxql.Measurement:
		re := any(nil)
		if x.Regex != nil && x.Regex.Val != nil {
			re = x.Regex.Val.String()
		}
		return J{"k": "mst", "db": x.Database, "rp": x.RetentionPolicy, "name": x.Name, "regex": re, "alias": x.Alias}
	case *influxql.SubQuery:
		return J{"k": "subquery", "stmt": dumpStmt(x.Statement), "alias": x.Alias}
	case nil:
		return nil
	default:
		return J{"k": "othersource", "go": fmt.Sprintf("%T", s), "text": s.String()}
	}
}

func dumpStmt(s *influxql.SelectStatement) J {
	if s == nil {
		return nil
	}
	dims := []J{}
	for _, d := range s.Dimensions {
		dims = append(dims, dump(d.Expr))
	}
	srcs := []J{}
	for _, x := range s.Sources {
		srcs = append(srcs, dumpSource(x))
	}
	sf := []J{}
	for _, x := range s.SortFields {
		sf = append(sf, J{"name": x.Name, "asc": x.Ascending})
	}
	hints := []string{}
	for _, h := range s.Hints {
		hints = append(hints, h.String())
	}
	loc := ""
	if s.Location != nil {
		loc = s.Location.String()
	}
	fillname, fillnum := "other", any(nil)
	switch s.Fill {
	case influxql.NullFill:
		fillname = "null"
	case influxql.NoFill:
		fillname = "none"
	case influxql.PreviousFill:
		fillname = "previous"
	case influxql.LinearFill:
		fillname = "linear"
	case influxql.NumberFill:
		fillname = "number"
		switch v := s.FillValue.(type) {
		case int64:
			fillnum = dump(&influxql.IntegerLiteral{Val: v})
		case float64:
			fillnum = dump(&influxql.NumberLiteral{Val: v})
		}
	}
	return J{"fillname": fillname, "fillnum": fillnum, "fields": dumpFields(s.Fields), "dims": dims, "sources": srcs, "cond": dump(s.Condition), "sort": sf,
		"limit": s.Limit, "offset": s.Offset, "slimit": s.SLimit, "soffset": s.SOffset, "fill": int(s.Fill),
		"fillvalue": fmt.Sprintf("%T:%v", s.FillValue, s.FillValue), "loc": loc, "hints": hints}
}

// allExprs: every expression of the statement (sub-queries included), for the finding signatures
func allExprs(s *influxql.SelectStatement, out *[]J) {
	if s == nil {
		return
	}
	for _, f := range s.Fields {
		*out = append(*out, dump(f.Expr))
	}
	for _, d := range s.Dimensions {
		*out = append(*out, dump(d.Expr))
	}
	if s.Condition != nil {
		*out = append(*out, dump(s.Condition))
	}
	for _, x := range s.Sources {
		if sq, ok := x.(*influxql.SubQuery); ok {
			allExprs(sq.Statement, out)
		}
	}
}

// ---------------------------------------------------------------------------------------------- statement generator

type stmtFeat struct {
	clean bool // avoid every construct with an open finding (integral floats, AND/OR mixes, unary minus on references, ...)
}

func (g *G) stIdent(f stmtFeat) string {
	if f.clean || g.r.Chance(3, 4) {
		if g.r.Chance(1, 5) {
			return "\"" + gen.Pick(g.r, []string{"has space", "select", "a.b", "it's", "q\\\"uote", "9lives", "from", "日本"}) + "\""
		}
		return gen.Pick(g.r, bareNames)
	}
	return influxql.QuoteIdent(g.name())
}

func (g *G) stNumber(f stmtFeat) string {
	if f.clean {
		return gen.Pick(g.r, []string{"1", "2", "42", "1.5", "0.25", "100.125", "9223372036854775807"})
	}
	return gen.Pick(g.r, []string{"1", "2", "1.5", "2.0", "100.0", "0.25", "-1", "-2.5"})
}

func (g *G) stArith(f stmtFeat, depth int) string {
	if depth <= 0 || g.r.Chance(1, 2) {
		switch g.r.Intn(6) {
		case 0:
			return g.stNumber(f)
		case 1:
			return gen.Pick(g.r, aggNames) + "(" + g.stIdent(f) + ")"
		case 2:
			return gen.Pick(g.r, []string{"percentile", "top", "bottom"}) + "(" + g.stIdent(f) + ", " + gen.Pick(g.r, []string{"1", "5", "99"}) + ")"
		default:
			s := g.stIdent(f)
			if g.r.Chance(1, 6) {
				s += "::" + gen.Pick(g.r, []string{"float", "integer", "string", "boolean", "tag", "field"})
			}
			return s
		}
	}
	if g.r.Chance(1, 5) {
		return "(" + g.stArith(f, depth-1) + ")"
	}
	ops := []string{"+", "-", "*", "/", "%"}
	if !f.clean {
		ops = append(ops, "&", "|", "^")
	}
	return g.stArith(f, depth-1) + " " + gen.Pick(g.r, ops) + " " + g.stArith(f, depth-1)
}

func (g *G) stField(f stmtFeat) string {
	var s string
	switch g.r.Intn(8) {
	case 0:
		s = "*"
		if g.r.Chance(1, 3) {
			s = gen.Pick(g.r, []string{"*::field", "*::tag"})
		}
		return s
	case 1:
		return gen.Pick(g.r, aggNames) + "(" + gen.Pick(g.r, []string{"*", "/^c.*/", "/a\\/b/"}) + ")"
	case 2:
		s = "distinct(" + g.stIdent(f) + ")"
	case 3:
		s = "count(distinct(" + g.stIdent(f) + "))"
	default:
		s = g.stArith(f, 2)
	}
	if g.r.Chance(1, 4) {
		s += " AS " + gen.Pick(g.r, []string{"al", "\"my alias\"", "x1", "\"select\"", "\"a.b\""})
	}
	return s
}

func (g *G) stCmp(f stmtFeat) string {
	switch g.r.Intn(9) {
	case 0:
		return g.stIdent(f) + " = " + influxql.QuoteString(g.strv())
	case 1:
		return g.stIdent(f) + " " + gen.Pick(g.r, []string{"=~", "!~"}) + " /" + strings.ReplaceAll(gen.Pick(g.r, rePool[:12]), "/", "\\/") + "/"
	case 2:
		return "time " + gen.Pick(g.r, []string{">", ">=", "<", "<="}) + " " + gen.Pick(g.r, []string{"now() - 1h", "'2020-01-01T00:00:00Z'", "1600000000000000000", "now()", "'2020-01-01'", "10s", "1577836800000ms"})
	case 3:
		items := []string{}
		for i := 0; i < g.r.Range(1, 3); i++ {
			if f.clean {
				items = append(items, gen.Pick(g.r, []string{"1", "42", "2.5", "'x'", "'it\\'s'"}))
			} else {
				items = append(items, gen.Pick(g.r, []string{"1", "-1", "2.5", "''", "'x'", "-2.5"}))
			}
		}
		return g.stIdent(f) + gen.Pick(g.r, []string{" IN (", " NOT IN ("}) + strings.Join(items, ", ") + ")"
	case 4:
		return g.stIdent(f) + " = " + gen.Pick(g.r, []string{"true", "false"})
	default:
		return g.stArith(f, 1) + " " + gen.Pick(g.r, []string{"=", "!=", "<", "<=", ">", ">=", "<>"}) + " " + g.stArith(f, 1)
	}
}

func (g *G) stCond(f stmtFeat, depth int) string {
	if depth <= 0 || g.r.Chance(1, 3) {
		return g.stCmp(f)
	}
	if f.clean {
		// one connective per level, operands parenthesised when they are connectives themselves
		op := gen.Pick(g.r, []string{" AND ", " OR "})
		n := g.r.Range(2, 3)
		parts := []string{}
		for i := 0; i < n; i++ {
			if g.r.Chance(1, 3) {
				parts = append(parts, "("+g.stCond(f, depth-1)+")")
			} else {
				parts = append(parts, g.stCmp(f))
			}
		}
		return strings.Join(parts, op)
	}
	if g.r.Chance(1, 4) {
		return "(" + g.stCond(f, depth-1) + ")"
	}
	return g.stCond(f, depth-1) + gen.Pick(g.r, []string{" AND ", " OR ", " and ", " or "}) + g.stCond(f, depth-1)
}

func (g *G) stSource(f stmtFeat, depth int) string {
	switch g.r.Intn(10) {
	case 0:
		return gen.Pick(g.r, []string{"db0.rp0.m", "db0..m", "\"db x\".\"rp\".\"m m\"", "rp0.m", "\"rp.x\".m"})
	case 1:
		return gen.Pick(g.r, []string{"/^cpu.*/", "/m[0-9]+/", "db0.rp0./^c/", "/a\\/b/", "rp0./x/"})
	case 2, 3:
		if depth > 0 {
			s := "(" + g.stmt(f, depth-1) + ")"
			if g.r.Chance(1, 4) {
				s += " AS " + gen.Pick(g.r, []string{"t1", "sub"})
			}
			return s
		}
		return "m"
	case 4:
		return gen.Pick(g.r, []string{"\"m m\"", "\"select\"", "\"a.b\"", "\"it's\"", "\"m/x\""})
	default:
		return gen.Pick(g.r, []string{"m", "cpu", "mst_0000", "disk_io"})
	}
}

func (g *G) stmt(f stmtFeat, depth int) string {
	var sb strings.Builder
	sb.WriteString("SELECT ")
	if g.r.Chance(1, 10) {
		sb.WriteString("/*+ " + gen.Pick(g.r, []string{"Exact_Statistic_Query", "Filter_Null_Column", "Specific_Series", "Full_Series"}) + " */ ")
	}
	n := g.r.Range(1, 3)
	fs := []string{}
	for i := 0; i < n; i++ {
		fs = append(fs, g.stField(f))
	}
	sb.WriteString(strings.Join(fs, ", "))
	sb.WriteString(" FROM ")
	ns := 1
	if g.r.Chance(1, 6) {
		ns = 2
	}
	ss := []string{}
	for i := 0; i < ns; i++ {
		ss = append(ss, g.stSource(f, depth))
	}
	sb.WriteString(strings.Join(ss, ", "))
	if g.r.Chance(2, 3) {
		sb.WriteString(" WHERE " + g.stCond(f, 2))
	}
	if g.r.Chance(1, 2) {
		ds := []string{}
		for i := 0; i < g.r.Range(1, 3); i++ {
			switch g.r.Intn(6) {
			case 0:
				ds = append(ds, "time("+gen.Pick(g.r, []string{"1m", "10s", "1h", "1500ms", "1d", "1w", "1ns", "90s"})+")")
			case 1:
				ds = append(ds, "time(1m, "+gen.Pick(g.r, []string{"10s", "-10s", "30s"})+")")
			case 2:
				ds = append(ds, "*")
			case 3:
				ds = append(ds, gen.Pick(g.r, []string{"/^h/", "/a\\/b/"}))
			default:
				ds = append(ds, g.stIdent(f))
			}
		}
		sb.WriteString(" GROUP BY " + strings.Join(ds, ", "))
		if g.r.Chance(1, 2) {
			fills := []string{"null", "none", "previous", "linear", "0", "1.5", "100"}
			if !f.clean {
				fills = append(fills, "2.0", "-1", "-1.5")
			}
			sb.WriteString(" fill(" + gen.Pick(g.r, fills) + ")")
		}
	}
	if g.r.Chance(1, 3) {
		ob := []string{"time DESC", "time ASC", "time", "time desc"}
		if !f.clean {
			ob = append(ob, "v DESC, host", "\"has space\" ASC", "\"select\"", "f1, time desc")
		} else {
			ob = append(ob, "v DESC, host", "f1, time desc", "usage_idle asc")
		}
		sb.WriteString(" ORDER BY " + gen.Pick(g.r, ob))
	}
	if g.r.Chance(1, 3) {
		sb.WriteString(fmt.Sprintf(" LIMIT %d", g.r.Range(1, 1000)))
		if g.r.Bool() {
			sb.WriteString(fmt.Sprintf(" OFFSET %d", g.r.Range(1, 50)))
		}
	}
	if g.r.Chance(1, 6) {
		sb.WriteString(fmt.Sprintf(" SLIMIT %d", g.r.Range(1, 100)))
		if g.r.Bool() {
			sb.WriteString(fmt.Sprintf(" SOFFSET %d", g.r.Range(1, 50)))
		}
	}
	if g.r.Chance(1, 6) {
		sb.WriteString(" TZ('" + gen.Pick(g.r, []string{"Asia/Shanghai", "UTC", "America/New_York", "Europe/Berlin"}) + "')")
	}
	return sb.String()
}

// ---------------------------------------------------------------------------------------------- the differential

func yyStmt(q string) (s *influxql.SelectStatement, err error) {
	defer func() {
		if r := recover(); r != nil {
			s, err = nil, fmt.Errorf("panic: %v", r)
		}
	}()
	sc := influxql.NewScanner(strings.NewReader(q))
	yp := influxql.NewYyParser(sc, nil)
	yp.ParseTokens()
	qu, err := yp.GetQuery()
	if err != nil {
		return nil, err
	}
	if len(qu.Statements) != 1 {
		return nil, fmt.Errorf("statements: %d", len(qu.Statements))
	}
	st, ok := qu.Statements[0].(*influxql.SelectStatement)
	if !ok {
		return nil, fmt.Errorf("not a select")
	}
	return st, nil
}

type piece struct {
	RA      any    `json:"ra,omitempty"` // exact structures (ParenExpr nodes kept) for the Coq model of printer and parser
	RB      any    `json:"rb,omitempty"`
	What    string `json:"what"` // fields | source | subquery | sortfields | statement
	Printed string `json:"printed"` // the text that is shipped
	Err     string `json:"err,omitempty"`
	A       any    `json:"a"` // structure before
	B       any    `json:"b"` // structure the store-side reader returns
	OK      bool   `json:"ok"`
}

func protect(p *piece, f func()) {
	defer func() {
		if r := recover(); r != nil {
			p.Err = fmt.Sprintf("panic: %v", r)
		}
	}()
	f()
}

func stmtPieces(st *influxql.SelectStatement) []piece {
	out := []piece{}
	add := func(p piece) {
		if !strings.HasSuffix(p.What, "@fresh") {
			p.RA, p.RB = p.A, p.B
		}
		p.A, p.B = stripParens(p.A), stripParens(p.B) // compare operators and grouping (see stripParens)
		p.OK = p.Err == "" && canonJSON(p.A) == canonJSON(p.B)
		if p.OK {
			p.A, p.B = nil, nil // keep the output small
		}
		out = append(out, p)
	}
	// select list -> QuerySchema.QueryFields -> hybridqp.ParseFields
	{
		p := piece{What: "fields", A: dumpFields(st.Fields)}
		protect(&p, func() {
			p.Printed = shippedFields(st.Fields)
			back, err := hybridqp.ParseFields(p.Printed)
			if err != nil {
				p.Err = err.Error()
				return
			}
			p.B = dumpFields(back)
		})
		add(p)
	}
	// each source -> QueryNode.Source / JoinCase -> influxql.ParseSource.  The store-side parser object comes from a
	// pool and its scanner keeps two registers of its previous use (the "split identifiers at dots" mode that the
	// scanner enters after FROM and leaves after later keywords, and the previous token): both histories are tried.
	parseSrc := func(what string, src influxql.Source) {
		for _, state := range []string{"fresh", "from"} {
			p := piece{What: what + "@" + state, A: dumpSource(src)}
			protect(&p, func() {
				p.Printed = shippedSource(src)
				if state == "fresh" {
					_, _ = influxql.ParseSortFields("a DESC") // a keyword after ON: the mode a new scanner starts in
				} else {
					_, _ = influxql.ParseSource("(SELECT a FROM b)") // FROM was the last keyword
				}
				back, err := influxql.ParseSource(p.Printed)
				if err != nil {
					p.Err = err.Error()
					return
				}
				p.B = dumpSource(back)
			})
			add(p)
		}
	}
	for _, src := range st.Sources {
		if _, ok := src.(*influxql.SubQuery); ok {
			parseSrc("subquery", src)
		} else {
			parseSrc("source", src)
		}
	}
	// the whole statement as a sub-query source (what an outer query ships for it)
	parseSrc("statement", &influxql.SubQuery{Statement: st})
	if len(st.SortFields) > 0 {
		sfd := func(sf influxql.SortFields) []J {
			o := []J{}
			for _, x := range sf {
				o = append(o, J{"name": x.Name, "asc": x.Ascending})
			}
			return o
		}
		p := piece{What: "sortfields", A: sfd(st.SortFields)}
		protect(&p, func() {
			p.Printed = shippedSortFields(st.SortFields)
			back, err := influxql.ParseSortFields(p.Printed)
			if err != nil {
				p.Err = err.Error()
				return
			}
			p.B = sfd(back)
		})
		add(p)
	}
	return out
}

func stmtCase(g *G, q string, clean bool) Case {
	c := Case{Kind: "stmt", SrcText: q}
	st, err := yyStmt(q)
	if err != nil || st == nil {
		c.ReErr = "yacc: " + fmt.Sprint(err)
		return c
	}
	ps := stmtPieces(st)
	exprs := []J{}
	allExprs(st, &exprs)
	c.Opt = J{"pieces": ps, "exprs": exprs, "clean": clean, "stmt": dumpStmt(st)}
	for _, p := range ps {
		if !p.OK {
			c.Oracle = "shipped " + p.What + " is read back differently by the store-side parser"
			break
		}
	}
	return c
}

var witnessStmts = []string{
	"SELECT v FROM m",
	"SELECT mean(v) FROM db0.rp0.m WHERE host = 'a' AND time > now() - 1h GROUP BY time(1m), host fill(previous) ORDER BY time DESC LIMIT 10 OFFSET 2 SLIMIT 3 SOFFSET 1 TZ('Asia/Shanghai')",
	"SELECT /*+ Exact_Statistic_Query */ count(v) FROM m",
	"SELECT max(a) FROM (SELECT mean(v) AS a FROM m GROUP BY time(1m), host) GROUP BY host",
	"SELECT v FROM /^cpu.*/",
	"SELECT v FROM db0.rp0./^c/",
	"SELECT \"has space\", \"select\" AS \"my alias\" FROM \"m m\"",
	"SELECT v FROM m WHERE h IN ('a', 'b')",
	"SELECT v FROM m GROUP BY time(1m, -10s) fill(1.5)",
	"SELECT v FROM m ORDER BY v DESC, host",
	"SELECT a FROM (SELECT v AS a FROM m WHERE v > 1.5 ORDER BY time DESC LIMIT 5) AS t1",
	"SELECT count(distinct(v)) FROM m",
	"SELECT v::float, host::tag FROM m",
	"SELECT * FROM m GROUP BY *",
	"SELECT mean(/^c/) FROM m GROUP BY /^h/",
}
