// C12 translator: extracts from the repository's SOURCE (go/parser, go/ast) the codec field coverage facts:
// for each struct that crosses the sql->store boundary through a hand-written encode/decode pair, its field list,
// the fields the encoder reads and the fields the decoder sets.  Output: one JSON object on stdout.
//
//	c12tr <repo-root>
package main

import (
	"encoding/json"
	"fmt"
	"go/ast"
	"go/parser"
	"go/token"
	"os"
	"path/filepath"
	"sort"
	"strings"
)

type spec struct {
	Name       string // reported name
	StructFile string
	StructType string
	CodecFile  string
	EncFunc    string
	DecFunc    string
}

var specs = []spec{
	{"query.ProcessorOptions", "lib/util/lifted/influx/query/select.go", "ProcessorOptions", "lib/util/lifted/influx/query/processor_codec.go", "encodeProcessorOptions", "decodeProcessorOptions"},
	{"influxql.Measurement", "lib/util/lifted/influx/influxql/ast.go", "Measurement", "lib/util/lifted/influx/query/processor_codec.go", "encodeMeasurement", "decodeMeasurement"},
	{"influxql.IndexRelation", "lib/util/lifted/influx/influxql/ast.go", "IndexRelation", "lib/util/lifted/influx/query/processor_codec.go", "encodeIndexRelation", "decodeIndexRelation"},
	{"influxql.IndexOption", "lib/util/lifted/influx/influxql/ast.go", "IndexOption", "lib/util/lifted/influx/query/processor_codec.go", "encodeIndexOption", "decodeIndexOption"},
	{"obs.ObsOptions", "lib/obs/obs_options.go", "ObsOptions", "lib/util/lifted/influx/query/processor_codec.go", "encodeObsOptions", "decodeObsOptions"},
	{"influxql.VarRef", "lib/util/lifted/influx/influxql/ast.go", "VarRef", "lib/util/lifted/influx/query/processor_codec.go", "encodeVarRef", "decodeVarRef"},
	{"hybridqp.Interval", "engine/hybridqp/util.go", "Interval", "lib/util/lifted/influx/query/processor_codec.go", "encodeInterval", "decodeInterval"},
}

func fail(f string, a ...any) {
	fmt.Fprintf(os.Stderr, f+"\n", a...)
	os.Exit(1)
}

func structFields(f *ast.File, typ string) []string {
	var out []string
	ast.Inspect(f, func(n ast.Node) bool {
		ts, ok := n.(*ast.TypeSpec)
		if !ok || ts.Name.Name != typ {
			return true
		}
		st, ok := ts.Type.(*ast.StructType)
		if !ok {
			return true
		}
		for _, fl := range st.Fields.List {
			if len(fl.Names) == 0 { // embedded
				switch t := fl.Type.(type) {
				case *ast.Ident:
					out = append(out, t.Name)
				case *ast.SelectorExpr:
					out = append(out, t.Sel.Name)
				case *ast.StarExpr:
					if n := typeName(t.X); n != "" {
						out = append(out, n)
					}
				}
			}
			for _, nm := range fl.Names {
				out = append(out, nm.Name)
			}
		}
		return false
	})
	return out
}

func findFunc(f *ast.File, name string) *ast.FuncDecl {
	for _, d := range f.Decls {
		if fd, ok := d.(*ast.FuncDecl); ok && fd.Name.Name == name && fd.Recv == nil {
			return fd
		}
	}
	return nil
}

func typeName(e ast.Expr) string {
	switch t := e.(type) {
	case *ast.Ident:
		return t.Name
	case *ast.SelectorExpr:
		return t.Sel.Name
	case *ast.StarExpr:
		return typeName(t.X)
	}
	return ""
}

func main() {
	if len(os.Args) < 2 {
		fail("usage: c12tr <repo>")
	}
	repo := os.Args[1]
	fset := token.NewFileSet()
	files := map[string]*ast.File{}
	load := func(rel string) *ast.File {
		if f, ok := files[rel]; ok {
			return f
		}
		f, err := parser.ParseFile(fset, filepath.Join(repo, rel), nil, 0)
		if err != nil {
			fail("parse %s: %v", rel, err)
		}
		files[rel] = f
		return f
	}
	out := map[string]any{}
	for _, sp := range specs {
		if _, err := os.Stat(filepath.Join(repo, sp.StructFile)); err != nil {
			fail("missing %s", sp.StructFile)
		}
		fields := structFields(load(sp.StructFile), sp.StructType)
		if len(fields) == 0 {
			fail("struct %s not found in %s", sp.StructType, sp.StructFile)
		}
		isField := map[string]bool{}
		for _, f := range fields {
			isField[f] = true
		}
		cf := load(sp.CodecFile)
		enc, dec := findFunc(cf, sp.EncFunc), findFunc(cf, sp.DecFunc)
		if enc == nil || dec == nil {
			fail("codec functions %s/%s not found", sp.EncFunc, sp.DecFunc)
		}
		// encoder: selectors on the parameter(s) whose type is the struct
		params := map[string]bool{}
		for _, p := range enc.Type.Params.List {
			if typeName(p.Type) == sp.StructType {
				for _, n := range p.Names {
					params[n.Name] = true
				}
			}
		}
		encoded := map[string]bool{}
		ast.Inspect(enc.Body, func(n ast.Node) bool {
			if se, ok := n.(*ast.SelectorExpr); ok {
				if id, ok := se.X.(*ast.Ident); ok && params[id.Name] && isField[se.Sel.Name] {
					encoded[se.Sel.Name] = true
				}
			}
			return true
		})
		// decoder: keys of composite literals of the struct type + assignments x.F = ... on locals of that type
		decParams := map[string]bool{}
		for _, p := range dec.Type.Params.List {
			for _, n := range p.Names {
				decParams[n.Name] = true
			}
		}
		decoded := map[string]bool{}
		ast.Inspect(dec.Body, func(n ast.Node) bool {
			switch x := n.(type) {
			case *ast.CompositeLit:
				if typeName(x.Type) == sp.StructType {
					for _, el := range x.Elts {
						if kv, ok := el.(*ast.KeyValueExpr); ok {
							if id, ok := kv.Key.(*ast.Ident); ok && isField[id.Name] {
								decoded[id.Name] = true
							}
						}
					}
				}
			case *ast.AssignStmt:
				for _, l := range x.Lhs {
					if se, ok := l.(*ast.SelectorExpr); ok {
						if id, ok := se.X.(*ast.Ident); ok && !decParams[id.Name] && isField[se.Sel.Name] {
							decoded[se.Sel.Name] = true
						}
					}
				}
			}
			return true
		})
		keys := func(m map[string]bool) []string {
			r := []string{}
			for k := range m {
				r = append(r, k)
			}
			sort.Strings(r)
			return r
		}
		out[sp.Name] = map[string]any{"fields": fields, "encoded": keys(encoded), "decoded": keys(decoded)}
	}
	extra(repo, fset, out)
	b, _ := json.Marshal(map[string]any{"structs": out, "nodes": planNodes(repo, fset)})
	fmt.Println(string(b))
}

// ---------------------------------------------------------------------------------------------- method-style codecs

func parseDir(fset *token.FileSet, dir string) []*ast.File {
	ents, err := os.ReadDir(dir)
	if err != nil {
		fail("readdir %s: %v", dir, err)
	}
	var fs []*ast.File
	for _, e := range ents {
		n := e.Name()
		if e.IsDir() || !strings.HasSuffix(n, ".go") || strings.HasSuffix(n, "_test.go") || strings.HasPrefix(n, "verif_") {
			continue
		}
		f, err := parser.ParseFile(fset, filepath.Join(dir, n), nil, 0)
		if err != nil {
			fail("parse %s: %v", n, err)
		}
		fs = append(fs, f)
	}
	return fs
}

func fieldsIn(fs []*ast.File, typ string) []string {
	for _, f := range fs {
		if r := structFields(f, typ); len(r) > 0 {
			return r
		}
	}
	return nil
}

func methodsOf(fs []*ast.File, typ string) map[string]*ast.FuncDecl {
	m := map[string]*ast.FuncDecl{}
	for _, f := range fs {
		for _, d := range f.Decls {
			fd, ok := d.(*ast.FuncDecl)
			if !ok || fd.Recv == nil || len(fd.Recv.List) != 1 || typeName(fd.Recv.List[0].Type) != typ {
				continue
			}
			m[fd.Name.Name] = fd
		}
	}
	return m
}

// receiverFields: the fields selected on the receiver inside the method body
func receiverFields(fd *ast.FuncDecl, isField map[string]bool) map[string]bool {
	res := map[string]bool{}
	if fd == nil || fd.Body == nil || len(fd.Recv.List[0].Names) == 0 {
		return res
	}
	recv := fd.Recv.List[0].Names[0].Name
	ast.Inspect(fd.Body, func(n ast.Node) bool {
		if se, ok := n.(*ast.SelectorExpr); ok {
			if id, ok := se.X.(*ast.Ident); ok && id.Name == recv && isField[se.Sel.Name] {
				res[se.Sel.Name] = true
			}
		}
		return true
	})
	return res
}

func keysOf(m map[string]bool) []string {
	r := []string{}
	for k := range m {
		r = append(r, k)
	}
	sort.Strings(r)
	return r
}

type mspec struct {
	Name, Dir, Type string
	Enc, Dec        []string // method names
}

func extra(repo string, fset *token.FileSet, out map[string]any) {
	exe := parseDir(fset, filepath.Join(repo, "engine/executor"))
	ms := []mspec{
		{"executor.ChunkImpl", "", "ChunkImpl", []string{"Marshal"}, []string{"Unmarshal"}},
		{"executor.ColumnImpl", "", "ColumnImpl", []string{"Marshal"}, []string{"Unmarshal"}},
		{"executor.ChunkTags", "", "ChunkTags", []string{"Marshal"}, []string{"Unmarshal"}},
		{"executor.Bitmap", "", "Bitmap", []string{"Marshal"}, []string{"Unmarshal"}},
		{"executor.floatTuple", "", "floatTuple", []string{"Marshal"}, []string{"Unmarshal"}},
		{"executor.RemoteQuery", "", "RemoteQuery", []string{"Marshal", "MarshalMstInfos"}, []string{"Unmarshal", "UnmarshalMstInfos"}},
		{"executor.Abort", "", "Abort", []string{"Marshal"}, []string{"Unmarshal"}},
		{"executor.Crash", "", "Crash", []string{"Marshal"}, []string{"Unmarshal"}},
		{"executor.Finish", "", "Finish", []string{"Marshal"}, []string{"Unmarshal"}},
		{"executor.IncQueryFinish", "", "IncQueryFinish", []string{"Marshal"}, []string{"Unmarshal"}},
		{"executor.Error", "", "Error", []string{"Marshal"}, []string{"Unmarshal"}},
	}
	for _, sp := range ms {
		fields := fieldsIn(exe, sp.Type)
		if len(fields) == 0 {
			fail("struct %s not found", sp.Type)
		}
		isField := map[string]bool{}
		for _, f := range fields {
			isField[f] = true
		}
		meth := methodsOf(exe, sp.Type)
		enc, dec := map[string]bool{}, map[string]bool{}
		for _, m := range sp.Enc {
			if meth[m] == nil {
				fail("method %s.%s not found", sp.Type, m)
			}
			for k := range receiverFields(meth[m], isField) {
				enc[k] = true
			}
		}
		for _, m := range sp.Dec {
			if meth[m] == nil {
				fail("method %s.%s not found", sp.Type, m)
			}
			for k := range receiverFields(meth[m], isField) {
				dec[k] = true
			}
		}
		out[sp.Name] = map[string]any{"fields": fields, "encoded": keysOf(enc), "decoded": keysOf(dec)}
	}
	// slice-of-struct helpers with loop variables: ShardInfo, PtQuery, MultiMstInfo
	type lspec struct{ Name, Type, Enc, Dec, Var string }
	var all *ast.File
	_ = all
	findFn := func(name string) *ast.FuncDecl {
		for _, f := range exe {
			if fd := findFunc(f, name); fd != nil {
				return fd
			}
		}
		return nil
	}
	for _, sp := range []lspec{{"executor.ShardInfo", "ShardInfo", "MarshalShardInfos", "UnmarshalShardInfos", "shardInfo"},
		{"executor.PtQuery", "PtQuery", "MarshalPtQuerys", "UnmarshalPtQuerys", "ptQuery"}} {
		fields := fieldsIn(exe, sp.Type)
		isField := map[string]bool{}
		for _, f := range fields {
			isField[f] = true
		}
		enc, dec := map[string]bool{}, map[string]bool{}
		ef, df := findFn(sp.Enc), findFn(sp.Dec)
		if ef == nil || df == nil || len(fields) == 0 {
			fail("helpers for %s not found", sp.Type)
		}
		ast.Inspect(ef.Body, func(n ast.Node) bool {
			if se, ok := n.(*ast.SelectorExpr); ok {
				if id, ok := se.X.(*ast.Ident); ok && id.Name == sp.Var && isField[se.Sel.Name] {
					enc[se.Sel.Name] = true
				}
			}
			return true
		})
		ast.Inspect(df.Body, func(n ast.Node) bool {
			if cl, ok := n.(*ast.CompositeLit); ok && typeName(cl.Type) == sp.Type {
				for _, el := range cl.Elts {
					if kv, ok := el.(*ast.KeyValueExpr); ok {
						if id, ok := kv.Key.(*ast.Ident); ok && isField[id.Name] {
							dec[id.Name] = true
						}
					}
				}
			}
			return true
		})
		out[sp.Name] = map[string]any{"fields": fields, "encoded": keysOf(enc), "decoded": keysOf(dec)}
	}
	// QuerySchema: EncodeQuerySchema reads through getters, DecodeQuerySchema writes through the constructor's
	// parameters (queryFields, columnNames, opt) and setters
	qf := fieldsIn(exe, "QuerySchema")
	isField := map[string]bool{}
	for _, f := range qf {
		isField[f] = true
	}
	qm := methodsOf(exe, "QuerySchema")
	codec, err := parser.ParseFile(fset, filepath.Join(repo, "lib/util/lifted/influx/query/processor_codec.go"), nil, 0)
	if err != nil {
		fail("parse processor_codec.go: %v", err)
	}
	viaMethods := func(fn *ast.FuncDecl) map[string]bool {
		res := map[string]bool{}
		ast.Inspect(fn.Body, func(n ast.Node) bool {
			if ce, ok := n.(*ast.CallExpr); ok {
				if se, ok := ce.Fun.(*ast.SelectorExpr); ok {
					if m := qm[se.Sel.Name]; m != nil {
						if id, ok := se.X.(*ast.Ident); ok && id.Name == "schema" {
							for k := range receiverFields(m, isField) {
								res[k] = true
							}
						}
					}
				}
			}
			return true
		})
		return res
	}
	ef, df := findFunc(codec, "EncodeQuerySchema"), findFunc(codec, "DecodeQuerySchema")
	if ef == nil || df == nil || len(qf) == 0 {
		fail("QuerySchema codec not found")
	}
	enc, dec := viaMethods(ef), viaMethods(df)
	// constructor parameters stored in fields
	for _, f := range exe {
		if ctor := findFunc(f, "NewQuerySchema"); ctor != nil {
			params := map[string]bool{}
			for _, p := range ctor.Type.Params.List {
				for _, n := range p.Names {
					params[n.Name] = true
				}
			}
			ast.Inspect(ctor.Body, func(n ast.Node) bool {
				if cl, ok := n.(*ast.CompositeLit); ok && typeName(cl.Type) == "QuerySchema" {
					for _, el := range cl.Elts {
						if kv, ok := el.(*ast.KeyValueExpr); ok {
							k, _ := kv.Key.(*ast.Ident)
							v, _ := kv.Value.(*ast.Ident)
							if k != nil && v != nil && params[v.Name] && isField[k.Name] && v.Name != "sortFields" {
								dec[k.Name] = true
							}
						}
					}
				}
				return true
			})
		}
	}
	// the options travel separately (RemoteQuery.Opt) and are handed to DecodeQuerySchema: count as encoded
	if dec["opt"] {
		enc["opt"] = true
	}
	out["executor.QuerySchema"] = map[string]any{"fields": qf, "encoded": keysOf(enc), "decoded": keysOf(dec)}
}

// ---------------------------------------------------------------------------------------------- plan nodes

// planNodes: for every type with a LogicPlanType method: is there a case in MarshalBinary / UnmarshalBinaryNode;
// which fields of the node does its marshal case read; which protobuf fields does it write / does the unmarshal case
// read; and the field lists of the node structs and their embedded bases.
func planNodes(repo string, fset *token.FileSet) map[string]any {
	exe := parseDir(fset, filepath.Join(repo, "engine/executor"))
	var codec *ast.File
	for _, f := range exe {
		if findFunc(f, "UnmarshalBinaryNode") != nil {
			codec = f
		}
	}
	if codec == nil {
		fail("logic_plan_codec.go not found")
	}
	types := []string{}
	for _, f := range exe {
		for _, d := range f.Decls {
			if fd, ok := d.(*ast.FuncDecl); ok && fd.Recv != nil && fd.Name.Name == "LogicPlanType" {
				types = append(types, typeName(fd.Recv.List[0].Type))
			}
		}
	}
	sort.Strings(types)
	mb, ub := findFunc(codec, "MarshalBinary"), findFunc(codec, "UnmarshalBinaryNode")
	type info struct {
		InMarshal   bool     `json:"in_marshal"`
		InUnmarshal bool     `json:"in_unmarshal"`
		NodeFields  []string `json:"explicit_fields"`
		PbWritten   []string `json:"pb_written"`
		PbRead      []string `json:"pb_read"`
		Fields      []string `json:"fields"`
	}
	res := map[string]*info{}
	for _, t := range types {
		res[t] = &info{Fields: fieldsIn(exe, t)}
	}
	pbSel := func(n ast.Node, write bool) map[string]bool {
		m := map[string]bool{}
		ast.Inspect(n, func(x ast.Node) bool {
			switch y := x.(type) {
			case *ast.AssignStmt:
				if write {
					for _, l := range y.Lhs {
						if se, ok := l.(*ast.SelectorExpr); ok {
							if id, ok := se.X.(*ast.Ident); ok && id.Name == "pb" {
								m[se.Sel.Name] = true
							}
						}
					}
				}
			case *ast.SelectorExpr:
				if !write {
					if id, ok := y.X.(*ast.Ident); ok && id.Name == "pb" {
						m[strings.TrimPrefix(y.Sel.Name, "Get")] = true
					}
				}
			}
			return true
		})
		delete(m, "Inputs")
		delete(m, "Name")
		return m
	}
	// marshal: type switch cases
	ast.Inspect(mb.Body, func(n ast.Node) bool {
		ts, ok := n.(*ast.TypeSwitchStmt)
		if !ok {
			return true
		}
		for _, st := range ts.Body.List {
			cc := st.(*ast.CaseClause)
			for _, te := range cc.List {
				t := typeName(te)
				in := res[t]
				if in == nil {
					continue
				}
				// a case that only returns nil, nil does not marshal
				in.InMarshal = false
				nf := map[string]bool{}
				for _, b := range cc.Body {
					ast.Inspect(b, func(x ast.Node) bool {
						if ce, ok := x.(*ast.CallExpr); ok {
							if id, ok := ce.Fun.(*ast.Ident); ok && id.Name == "Marshal" {
								in.InMarshal = true
							}
						}
						if se, ok := x.(*ast.SelectorExpr); ok {
							if id, ok := se.X.(*ast.Ident); ok && id.Name == "p" {
								nf[se.Sel.Name] = true
							}
							// p.LimitPara.Limit style
							if inner, ok := se.X.(*ast.SelectorExpr); ok {
								if id, ok := inner.X.(*ast.Ident); ok && id.Name == "p" {
									nf[inner.Sel.Name] = true
									nf[se.Sel.Name] = true
								}
							}
						}
						return true
					})
					for k := range pbSel(b, true) {
						in.PbWritten = append(in.PbWritten, k)
					}
				}
				delete(nf, "inputs")
				delete(nf, "left")
				delete(nf, "right")
				delete(nf, "Schema")
				in.NodeFields = keysOf(nf)
				sort.Strings(in.PbWritten)
			}
		}
		return false
	})
	// unmarshal: switch pb.Name cases
	ast.Inspect(ub.Body, func(n ast.Node) bool {
		sw, ok := n.(*ast.SwitchStmt)
		if !ok {
			return true
		}
		if se, ok := sw.Tag.(*ast.SelectorExpr); !ok || se.Sel.Name != "Name" {
			return true
		}
		for _, st := range sw.Body.List {
			cc := st.(*ast.CaseClause)
			for _, te := range cc.List {
				se, ok := te.(*ast.SelectorExpr)
				if !ok {
					continue
				}
				t := strings.TrimPrefix(se.Sel.Name, "LogicPlanType_")
				in := res[t]
				if in == nil {
					continue
				}
				for _, b := range cc.Body {
					ast.Inspect(b, func(x ast.Node) bool {
						if r, ok := x.(*ast.ReturnStmt); ok && len(r.Results) == 2 {
							if id, ok := r.Results[1].(*ast.Ident); ok && id.Name == "nil" {
								in.InUnmarshal = true
							}
						}
						return true
					})
					for k := range pbSel(b, false) {
						in.PbRead = append(in.PbRead, k)
					}
				}
				sort.Strings(in.PbRead)
			}
		}
		return false
	})
	out := map[string]any{}
	for k, v := range res {
		out[k] = v
	}
	bases := map[string][]string{}
	for _, b := range []string{"LogicalPlanBase", "LogicalPlanSingle", "LogicalPlanMulti", "LogicalExchangeBase", "LimitTransformParameters"} {
		bases[b] = fieldsIn(exe, b)
	}
	out["_bases"] = bases
	return out
}
