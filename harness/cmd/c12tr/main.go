// C12 translator: extracts from the repository's SOURCE (go/parser, go/ast) the codec field coverage facts:
// for each struct that crosses the sql->store boundary through a hand-written encode/decode pair, its field list,
// the fields the encoder reads and the fields the decoder sets.  Output: one JSON object on stdout.
//
//	c12tr <repo-root>
package main

import (
	"encoding/json"
	"fmt"
	"go/ast"
	"go/parser"
	"go/token"
	"os"
	"path/filepath"
	"sort"
)

type spec struct {
	Name       string // reported name
	StructFile string
	StructType string
	CodecFile  string
	EncFunc    string
	DecFunc    string
}

var specs = []spec{
	{"query.ProcessorOptions", "lib/util/lifted/influx/query/select.go", "ProcessorOptions", "lib/util/lifted/influx/query/processor_codec.go", "encodeProcessorOptions", "decodeProcessorOptions"},
	{"influxql.Measurement", "lib/util/lifted/influx/influxql/ast.go", "Measurement", "lib/util/lifted/influx/query/processor_codec.go", "encodeMeasurement", "decodeMeasurement"},
	{"influxql.IndexRelation", "lib/util/lifted/influx/influxql/ast.go", "IndexRelation", "lib/util/lifted/influx/query/processor_codec.go", "encodeIndexRelation", "decodeIndexRelation"},
	{"influxql.IndexOption", "lib/util/lifted/influx/influxql/ast.go", "IndexOption", "lib/util/lifted/influx/query/processor_codec.go", "encodeIndexOption", "decodeIndexOption"},
	{"obs.ObsOptions", "lib/obs/obs_options.go", "ObsOptions", "lib/util/lifted/influx/query/processor_codec.go", "encodeObsOptions", "decodeObsOptions"},
	{"influxql.VarRef", "lib/util/lifted/influx/influxql/ast.go", "VarRef", "lib/util/lifted/influx/query/processor_codec.go", "encodeVarRef", "decodeVarRef"},
	{"hybridqp.Interval", "engine/hybridqp/util.go", "Interval", "lib/util/lifted/influx/query/processor_codec.go", "encodeInterval", "decodeInterval"},
}

func fail(f string, a ...any) {
	fmt.Fprintf(os.Stderr, f+"\n", a...)
	os.Exit(1)
}

func structFields(f *ast.File, typ string) []string {
	var out []string
	ast.Inspect(f, func(n ast.Node) bool {
		ts, ok := n.(*ast.TypeSpec)
		if !ok || ts.Name.Name != typ {
			return true
		}
		st, ok := ts.Type.(*ast.StructType)
		if !ok {
			return true
		}
		for _, fl := range st.Fields.List {
			if len(fl.Names) == 0 { // embedded
				switch t := fl.Type.(type) {
				case *ast.Ident:
					out = append(out, t.Name)
				case *ast.SelectorExpr:
					out = append(out, t.Sel.Name)
				case *ast.StarExpr:
					if id, ok := t.X.(*ast.Ident); ok {
						out = append(out, id.Name)
					}
				}
			}
			for _, nm := range fl.Names {
				out = append(out, nm.Name)
			}
		}
		return false
	})
	return out
}

func findFunc(f *ast.File, name string) *ast.FuncDecl {
	for _, d := range f.Decls {
		if fd, ok := d.(*ast.FuncDecl); ok && fd.Name.Name == name && fd.Recv == nil {
			return fd
		}
	}
	return nil
}

func typeName(e ast.Expr) string {
	switch t := e.(type) {
	case *ast.Ident:
		return t.Name
	case *ast.SelectorExpr:
		return t.Sel.Name
	case *ast.StarExpr:
		return typeName(t.X)
	}
	return ""
}

func main() {
	if len(os.Args) < 2 {
		fail("usage: c12tr <repo>")
	}
	repo := os.Args[1]
	fset := token.NewFileSet()
	files := map[string]*ast.File{}
	load := func(rel string) *ast.File {
		if f, ok := files[rel]; ok {
			return f
		}
		f, err := parser.ParseFile(fset, filepath.Join(repo, rel), nil, 0)
		if err != nil {
			fail("parse %s: %v", rel, err)
		}
		files[rel] = f
		return f
	}
	out := map[string]any{}
	for _, sp := range specs {
		if _, err := os.Stat(filepath.Join(repo, sp.StructFile)); err != nil {
			fail("missing %s", sp.StructFile)
		}
		fields := structFields(load(sp.StructFile), sp.StructType)
		if len(fields) == 0 {
			fail("struct %s not found in %s", sp.StructType, sp.StructFile)
		}
		isField := map[string]bool{}
		for _, f := range fields {
			isField[f] = true
		}
		cf := load(sp.CodecFile)
		enc, dec := findFunc(cf, sp.EncFunc), findFunc(cf, sp.DecFunc)
		if enc == nil || dec == nil {
			fail("codec functions %s/%s not found", sp.EncFunc, sp.DecFunc)
		}
		// encoder: selectors on the parameter(s) whose type is the struct
		params := map[string]bool{}
		for _, p := range enc.Type.Params.List {
			if typeName(p.Type) == sp.StructType {
				for _, n := range p.Names {
					params[n.Name] = true
				}
			}
		}
		encoded := map[string]bool{}
		ast.Inspect(enc.Body, func(n ast.Node) bool {
			if se, ok := n.(*ast.SelectorExpr); ok {
				if id, ok := se.X.(*ast.Ident); ok && params[id.Name] && isField[se.Sel.Name] {
					encoded[se.Sel.Name] = true
				}
			}
			return true
		})
		// decoder: keys of composite literals of the struct type + assignments x.F = ... on locals of that type
		decParams := map[string]bool{}
		for _, p := range dec.Type.Params.List {
			for _, n := range p.Names {
				decParams[n.Name] = true
			}
		}
		decoded := map[string]bool{}
		ast.Inspect(dec.Body, func(n ast.Node) bool {
			switch x := n.(type) {
			case *ast.CompositeLit:
				if typeName(x.Type) == sp.StructType {
					for _, el := range x.Elts {
						if kv, ok := el.(*ast.KeyValueExpr); ok {
							if id, ok := kv.Key.(*ast.Ident); ok && isField[id.Name] {
								decoded[id.Name] = true
							}
						}
					}
				}
			case *ast.AssignStmt:
				for _, l := range x.Lhs {
					if se, ok := l.(*ast.SelectorExpr); ok {
						if id, ok := se.X.(*ast.Ident); ok && !decParams[id.Name] && isField[se.Sel.Name] {
							decoded[se.Sel.Name] = true
						}
					}
				}
			}
			return true
		})
		keys := func(m map[string]bool) []string {
			r := []string{}
			for k := range m {
				r = append(r, k)
			}
			sort.Strings(r)
			return r
		}
		out[sp.Name] = map[string]any{"fields": fields, "encoded": keys(encoded), "decoded": keys(decoded)}
	}
	b, _ := json.Marshal(map[string]any{"structs": out})
	fmt.Println(string(b))
}
