package main

// `c11 alt N`: the other shard-key builders of the write path, under the DIRECT ORACLE only (no model):
//   colstore - column-store measurement: Row.UnmarshalShardKeyByField (the key may name a field, tags need not be sorted),
//   tagop    - rows with a column index (measurements with an index relation): Row.UnmarshalShardKeyByTagOp,
//   stream   - results of a stream task: Stream.updateShardGroupAndShardKey -> Row.UnmarshalShardKeyByDimOrTag (destination
//              measurement's key, else the stream's dimensions; the result row's tags are in dimension order, not sorted).
// Rows are routed by the real routing step, queries on the same measurement are mapped by the real
// ClusterShardMapper.mapMstShards; every routed row lies in one shard of a group containing its timestamp, rows that agree
// on the key columns of one group share the shard, and every routed row satisfying the query lies in a consulted shard.

import (
	"fmt"
	"sort"
	"strings"
	"time"

	"github.com/openGemini/openGemini/coordinator"
	"github.com/openGemini/openGemini/lib/config"
	"github.com/openGemini/openGemini/lib/util/lifted/influx/influxql"
	"github.com/openGemini/openGemini/lib/util/lifted/influx/meta"
	"github.com/openGemini/openGemini/lib/util/lifted/vm/protoparser/influx"
	"verifharness/internal/gen"
)

type AltPoint struct {
	Cols [][2]interface{} `json:"cols"` // Row.ColumnToIndex as (column, position), sorted by column; null = no column index
	Leaf []bool      `json:"leaf"`
	HKey string      `json:"hkey"` // the bytes hashed
	Hash string      `json:"hash"`
	Tags [][2]string `json:"tags"`
	Msg  string      `json:"msg"`
	Time int64       `json:"time"`
	Err  string      `json:"err"`
	GID  uint64      `json:"gid"`
	SID  uint64      `json:"sid"`
	Sat  bool        `json:"sat"`
}

type AltCase struct {
	Alt      int        `json:"alt"`
	Kind     string     `json:"kind"`
	TagKeys  []string   `json:"tagkeys"`
	SK       []string   `json:"sk"`
	DBSK     []string   `json:"dbsk"`
	Dims     []string   `json:"dims"`
	PtNum    int        `json:"ptnum"`
	CondText string     `json:"condtext"`
	Points   []AltPoint `json:"points"`
	MstVer   string     `json:"mstver"`
	Cond     *Node      `json:"cond"`
	NLeaf    int        `json:"nleaf"`
	Groups   []Group    `json:"groups"`
	Targets  []Target   `json:"targets"`
	Mapped   []uint64   `json:"mapped"`
	NShards  int        `json:"nshards"` // alive shards of the selected groups
	Oracle   []string   `json:"oracle"`
}

func genAltCase(r *gen.Rand, n int) AltCase {
	c := AltCase{Alt: n, Kind: gen.Pick(r, []string{"colstore", "colstore", "tagop", "stream"}), Oracle: []string{}}
	c.TagKeys = pickKeys(r, []string{"az", "dc", "host", "rack", "zone"}, r.Range(2, 4))
	c.PtNum = r.Range(2, 8)
	nsk := []int{0, 1, 1, 2, 2}[r.Intn(5)]
	pool := append([]string{}, c.TagKeys...)
	if c.Kind != "stream" {
		pool = append(pool, "msg") // a string FIELD may be part of the shard key of a column-store measurement
	}
	if nsk > 0 {
		c.SK = pickKeys(r, pool, nsk)
	}
	if c.Kind == "stream" {
		c.Dims = pickKeys(r, c.TagKeys, r.Range(1, len(c.TagKeys)))
		for i := range c.Dims { // dimension order is the order of the GROUP BY clause, not sorted
			j := i + r.Intn(len(c.Dims)-i)
			c.Dims[i], c.Dims[j] = c.Dims[j], c.Dims[i]
		}
		// the key tags of the destination must be among the dimensions, otherwise every result row is rejected
		if len(c.SK) > 0 {
			c.SK = pickKeys(r, c.Dims, len(c.SK))
		}
	}
	if r.Chance(1, 5) {
		from := c.TagKeys
		if c.Kind == "stream" {
			from = c.Dims
		}
		c.DBSK = pickKeys(r, from, 1)
	}
	cfg := Cfg{Msts: []MstCfg{{Mst: "cs", TagKeys: c.TagKeys, SK: c.SK}}, DBSK: c.DBSK, Typ: meta.HASH, Dur: int64(time.Hour), PtNum: c.PtNum}
	w := newWorld(cfg)
	mi := w.msts[0]
	et := config.TSSTORE
	if c.Kind == "colstore" {
		mi.EngineType = config.COLUMNSTORE
		et = config.COLUMNSTORE
	}
	_ = et
	// condition: equalities on tags and on the string field, AND / OR
	var leaves []string
	nl := r.Range(1, 3)
	for i := 0; i < nl; i++ {
		k := gen.Pick(r, c.TagKeys)
		if len(c.SK) > 0 && r.Chance(2, 3) {
			k = gen.Pick(r, c.SK)
		}
		if len(c.DBSK) > 0 && r.Chance(1, 3) {
			k = c.DBSK[0]
		}
		if k == "msg" {
			leaves = append(leaves, "msg = "+quote(gen.Pick(r, []string{"x", "y", "a"})))
		} else {
			leaves = append(leaves, `"`+k+`" = `+quote(gen.Pick(r, valPool[:3])))
		}
	}
	c.CondText = strings.Join(leaves, gen.Pick(r, []string{" AND ", " AND ", " OR "}))
	if inf := append(append([]string{}, c.DBSK...), c.SK...); len(inf) > 0 && r.Chance(1, 2) {
		// bind every column of the key in force (database's, else the measurement's) by equality: the query prunes to one shard
		if len(c.DBSK) > 0 {
			inf = c.DBSK
		}
		var parts []string
		for _, k := range inf {
			if k == "msg" {
				parts = append(parts, "msg = "+quote(gen.Pick(r, []string{"x", "y", "a"})))
			} else {
				parts = append(parts, `"`+k+`" = `+quote(gen.Pick(r, valPool[:3])))
			}
		}
		c.CondText = strings.Join(parts, " AND ")
	}
	cond, err := influxql.ParseExpr(c.CondText)
	if err != nil {
		c.Oracle = append(c.Oracle, "setup: "+err.Error())
		return c
	}
	var leafExprs []influxql.Expr
	c.Cond = toNode(cond, &leafExprs)
	c.NLeaf = len(leafExprs)
	c.MstVer = mi.Name
	base := alignedStart(int64(1700000000)*1000000000, int64(time.Hour))
	np := r.Range(8, 14)
	router := coordinator.VerifC11NewRouter(w.mc, w.dbi, mi)
	srouter := coordinator.VerifC11NewStreamRouter(w.mc, w.dbi, mi)
	w.mc.cur = -1
	for i := 0; i < np; i++ {
		p := AltPoint{Time: base + int64(r.Intn(2))*int64(time.Hour) + int64(r.Intn(1000)), Msg: gen.Pick(r, []string{"x", "y", "a"})}
		keys := c.TagKeys
		if c.Kind == "stream" {
			keys = c.Dims
		}
		for _, k := range keys {
			if c.Kind != "stream" && !r.Chance(9, 10) {
				continue
			}
			p.Tags = append(p.Tags, [2]string{k, gen.Pick(r, valPool[:3])})
		}
		if c.Kind == "colstore" && len(p.Tags) > 1 && r.Chance(1, 3) { // column-store rows need not carry sorted tags
			j := r.Intn(len(p.Tags) - 1)
			p.Tags[j], p.Tags[j+1] = p.Tags[j+1], p.Tags[j]
		}
		row := influx.Row{Name: mi.Name, Timestamp: p.Time} // the write path replaces the name by the versioned one before routing
		for _, t := range p.Tags {
			row.Tags = append(row.Tags, influx.Tag{Key: t[0], Value: t[1]})
		}
		row.Fields = append(row.Fields, influx.Field{Key: "msg", StrValue: p.Msg, Type: influx.Field_Type_String},
			influx.Field{Key: "usage", NumValue: 1, Type: influx.Field_Type_Float})
		if c.Kind == "tagop" || c.Kind == "stream" {
			row.ColumnToIndex = map[string]int{}
			idx := 0
			for _, t := range row.Tags {
				row.ColumnToIndex[t.Key] = idx
				idx++
			}
			if c.Kind == "tagop" {
				for _, f := range row.Fields {
					row.ColumnToIndex[f.Key] = idx
					idx++
				}
			}
			row.ReadyBuildColumnToIndex = true
			var names []string
			for k := range row.ColumnToIndex {
				names = append(names, k)
			}
			sort.Strings(names)
			p.Cols = [][2]interface{}{}
			for _, k := range names {
				p.Cols = append(p.Cols, [2]interface{}{k, row.ColumnToIndex[k]})
			}
		}
		var sh *meta.ShardInfo
		var perr error
		if c.Kind == "stream" {
			err, sh, perr = srouter.Route(dbName, rpName, &row, c.Dims)
		} else {
			err, sh, perr = router.Route(dbName, rpName, &row)
		}
		switch {
		case err != nil:
			p.Err = "other:" + err.Error()
		case perr != nil:
			p.Err = "rejected"
		case sh == nil:
			p.Err = "other:no shard"
		default:
			p.SID = sh.ID
			p.HKey = string(row.ShardKey)
			p.Hash = fmt.Sprintf("%d", meta.HashID(row.ShardKey))
			holders := 0
			for gi := range w.rpi.ShardGroups {
				sg := &w.rpi.ShardGroups[gi]
				for si := range sg.Shards {
					if sg.Shards[si].ID == sh.ID {
						holders++
						p.GID = sg.ID
						ts := time.Unix(0, p.Time)
						if ts.Before(sg.StartTime) || !ts.Before(sg.EndTime) || sg.Deleted() {
							c.Oracle = append(c.Oracle, fmt.Sprintf("route: point %d (t=%d) stored in shard %d of group %d which does not cover t", i, p.Time, sh.ID, sg.ID))
						}
					}
				}
			}
			if holders != 1 {
				c.Oracle = append(c.Oracle, fmt.Sprintf("route: point %d: shard %d belongs to %d groups", i, sh.ID, holders))
			}
		}
		if strings.HasPrefix(p.Err, "other:") {
			c.Oracle = append(c.Oracle, fmt.Sprintf("route: point %d: %s", i, p.Err))
		}
		c.Points = append(c.Points, p)
	}
	// determinism: rows of one group that agree on the columns of the key in force share the shard
	inForce := c.SK
	if len(c.DBSK) > 0 {
		inForce = c.DBSK
	}
	valOf := func(p *AltPoint, k string) string {
		for _, t := range p.Tags {
			if t[0] == k {
				return t[1]
			}
		}
		if k == "msg" && c.Kind != "stream" {
			return p.Msg
		}
		return ""
	}
	seen := map[string]uint64{}
	for i := range c.Points {
		p := &c.Points[i]
		if p.Err != "" {
			continue
		}
		var sb strings.Builder
		fmt.Fprintf(&sb, "%d", p.GID)
		switch {
		case len(inForce) > 0:
			for _, k := range inForce {
				sb.WriteString("," + k + "=" + valOf(p, k))
			}
		case c.Kind == "colstore": // no key: the measurement name alone is hashed
		case c.Kind == "stream":
			for _, k := range c.Dims {
				sb.WriteString("," + k + "=" + valOf(p, k))
			}
		default:
			for _, t := range p.Tags {
				sb.WriteString("," + t[0] + "=" + t[1])
			}
		}
		if prev, ok := seen[sb.String()]; ok && prev != p.SID {
			c.Oracle = append(c.Oracle, fmt.Sprintf("samekey: point %d: key %q went to shards %d and %d", i, sb.String(), prev, p.SID))
		}
		seen[sb.String()] = p.SID
	}
	// read side
	tmin, tmax := time.Unix(0, -9223372036854775806).UTC(), time.Unix(0, 9223372036854775806).UTC()
	mapped, err := coordinator.VerifC11MapMstShards(w.mc, dbName, rpName, "cs", tmin, tmax, cond)
	if err != nil {
		c.Oracle = append(c.Oracle, "mapMstShards: "+err.Error())
	}
	consulted := map[uint64]bool{}
	for _, id := range mapped {
		consulted[id] = true
	}
	c.Mapped = append([]uint64{}, mapped...)
	sort.Slice(c.Mapped, func(a, b int) bool { return c.Mapped[a] < c.Mapped[b] })
	w.walive = map[uint64][]int{}
	for gi := range w.rpi.ShardGroups {
		sg := &w.rpi.ShardGroups[gi]
		al := w.mc.GetAliveShards(dbName, sg, true)
		c.NShards += len(al)
		w.walive[sg.ID] = al
		t := Target{GID: sg.ID, SIDs: []uint64{}}
		for _, sh := range sg.Shards {
			if consulted[sh.ID] {
				t.SIDs = append(t.SIDs, sh.ID)
			}
		}
		c.Targets = append(c.Targets, t)
	}
	c.Groups = w.snapshotGroups()
	for i := range c.Points {
		p := &c.Points[i]
		m := map[string]interface{}{"msg": p.Msg, "usage": float64(1)}
		for _, k := range c.TagKeys {
			m[k] = ""
		}
		seenKey := map[string]bool{}
		for _, t := range p.Tags {
			if !seenKey[t[0]] {
				m[t[0]] = t[1]
				seenKey[t[0]] = true
			}
		}
		p.Sat = influxql.EvalBool(cond, m)
		p.Leaf = make([]bool, len(leafExprs))
		for li, le := range leafExprs {
			p.Leaf[li] = influxql.EvalBool(le, m)
		}
		if p.Sat != evalNode(c.Cond, p.Leaf) {
			c.Oracle = append(c.Oracle, fmt.Sprintf("eval: point %d: the condition as a whole and leaf by leaf disagree", i))
		}
		if p.Err == "" && p.Sat && !consulted[p.SID] {
			c.Oracle = append(c.Oracle, fmt.Sprintf("prune: point %d (tags %v msg %s) satisfies %s but its shard %d of group %d is not consulted", i, p.Tags, p.Msg, c.CondText, p.SID, p.GID))
		}
	}
	return c
}

// ---------------------------------------------------------------------------------------------
// `c11 reuse N`: streams whose destination measurement is taken to share the source's distribution
// (routeAndCalculateStreamRows cases 2 and 3): the destination shard is chosen with the SOURCE row's shard-key bytes.
// Only the routing step is driven (hook VerifC11RouteStreamReuse); which case applies is decided here exactly as the
// dispatch does: case 2 = the database has a shard key (same database), case 3 = no database key and the source measurement
// has one key version equal (as a set) to the stream's dimensions - the DESTINATION's key is not looked at by the dispatch.

type ReusePoint struct {
	Tags  [][2]string `json:"tags"`  // source row
	DTags [][2]string `json:"dtags"` // the stream's result row: the dimensions
	Time  int64       `json:"time"`
	Err   string      `json:"err"`
	GID   uint64      `json:"gid"`
	SID   uint64      `json:"sid"` // shard of the DESTINATION measurement
	HKey  string      `json:"hkey"`
	Hash  string      `json:"hash"`
	Leaf  []bool      `json:"leaf"`
	Sat   bool        `json:"sat"`
}

type ReuseCase struct {
	Reuse    int          `json:"reuse"`
	Case     int          `json:"case"` // 2 or 3
	TagKeys  []string     `json:"tagkeys"`
	SrcSK    []string     `json:"srcsk"`
	DstSK    []string     `json:"dstsk"`
	DBSK     []string     `json:"dbsk"`
	Dims     []string     `json:"dims"`
	SrcVer   string       `json:"srcver"`
	DstVer   string       `json:"dstver"`
	PtNum    int          `json:"ptnum"`
	CondText string       `json:"condtext"`
	Cond     *Node        `json:"cond"`
	Points   []ReusePoint `json:"points"`
	Groups   []Group      `json:"groups"`
	Targets  []Target     `json:"targets"`
	NShards  int          `json:"nshards"`
	Oracle   []string     `json:"oracle"`
}

func sameSet(a, b []string) bool {
	if len(a) != len(b) {
		return false
	}
	x, y := append([]string{}, a...), append([]string{}, b...)
	sort.Strings(x)
	sort.Strings(y)
	for i := range x {
		if x[i] != y[i] {
			return false
		}
	}
	return true
}

func genReuseCase(r *gen.Rand, n int) ReuseCase {
	c := ReuseCase{Reuse: n, Oracle: []string{}}
	c.TagKeys = pickKeys(r, []string{"az", "dc", "host", "rack", "zone"}, r.Range(2, 4))
	c.PtNum = r.Range(2, 8)
	if r.Chance(1, 3) {
		c.Case = 2
		c.DBSK = pickKeys(r, c.TagKeys, 1)
		c.Dims = pickKeys(r, c.TagKeys, r.Range(1, len(c.TagKeys)))
		if !sameSet(append(append([]string{}, c.Dims...), c.DBSK...), c.Dims) { // the dimensions carry the key column
			has := false
			for _, d := range c.Dims {
				has = has || d == c.DBSK[0]
			}
			if !has {
				c.Dims = append(c.Dims, c.DBSK[0])
				sort.Strings(c.Dims)
			}
		}
		if r.Chance(1, 2) {
			c.SrcSK = pickKeys(r, c.TagKeys, 1)
		}
		if r.Chance(1, 2) {
			c.DstSK = pickKeys(r, c.Dims, 1)
		}
	} else {
		c.Case = 3
		c.SrcSK = pickKeys(r, c.TagKeys, r.Range(1, 2))
		c.Dims = append([]string{}, c.SrcSK...)
		switch r.Intn(4) {
		case 0, 1:
			c.DstSK = append([]string{}, c.SrcSK...)
		case 2:
			c.DstSK = nil
		default: // created beforehand with another key; case 3 does not look at it
			c.DstSK = pickKeys(r, c.Dims, 1)
			if sameSet(c.DstSK, c.SrcSK) {
				c.DstSK = nil
			}
		}
	}
	cfg := Cfg{Msts: []MstCfg{{Mst: "cs", TagKeys: c.TagKeys, SK: c.SrcSK}, {Mst: "ds", TagKeys: c.TagKeys, SK: c.DstSK}}, DBSK: c.DBSK,
		Typ: meta.HASH, Dur: int64(time.Hour), PtNum: c.PtNum}
	w := newWorld(cfg)
	src, dst := w.msts[0], w.msts[1]
	c.SrcVer, c.DstVer = src.Name, dst.Name
	inForceDst := c.DstSK
	if len(c.DBSK) > 0 {
		inForceDst = c.DBSK
	}
	var parts []string
	keys := c.Dims
	if len(inForceDst) > 0 && r.Chance(2, 3) {
		keys = inForceDst
	}
	for _, k := range keys {
		parts = append(parts, `"`+k+`" = `+quote(gen.Pick(r, valPool[:3])))
	}
	c.CondText = strings.Join(parts, " AND ")
	cond, err := influxql.ParseExpr(c.CondText)
	if err != nil {
		c.Oracle = append(c.Oracle, "setup: "+err.Error())
		return c
	}
	var leafExprs []influxql.Expr
	c.Cond = toNode(cond, &leafExprs)
	base := alignedStart(int64(1700000000)*1000000000, int64(time.Hour))
	router := coordinator.VerifC11NewRouter(w.mc, w.dbi, src)
	w.mc.cur = -1
	np := r.Range(8, 14)
	for i := 0; i < np; i++ {
		p := ReusePoint{Time: base + int64(r.Intn(2))*int64(time.Hour) + int64(r.Intn(1000))}
		for _, k := range c.TagKeys {
			p.Tags = append(p.Tags, [2]string{k, gen.Pick(r, valPool[:3])})
		}
		for _, t := range p.Tags {
			for _, d := range c.Dims {
				if d == t[0] {
					p.DTags = append(p.DTags, t)
				}
			}
		}
		row := influx.Row{Name: src.Name, Timestamp: p.Time}
		for _, t := range p.Tags {
			row.Tags = append(row.Tags, influx.Tag{Key: t[0], Value: t[1]})
		}
		row.Fields = append(row.Fields, influx.Field{Key: "usage", NumValue: 1, Type: influx.Field_Type_Float})
		err, sh, perr := router.Route(dbName, rpName, &row) // the source row's own routing builds row.ShardKey
		if err == nil && perr == nil && sh != nil {
			p.HKey = string(row.ShardKey)
			p.Hash = fmt.Sprintf("%d", meta.HashID(row.ShardKey))
			err, sh, perr = coordinator.VerifC11RouteStreamReuse(w.mc, w.dbi, dst, dbName, rpName, &row)
		}
		switch {
		case err != nil:
			p.Err = "other:" + err.Error()
			c.Oracle = append(c.Oracle, fmt.Sprintf("route: point %d: %s", i, p.Err))
		case perr != nil || sh == nil:
			p.Err = "rejected"
		default:
			p.SID = sh.ID
			for gi := range w.rpi.ShardGroups {
				sg := &w.rpi.ShardGroups[gi]
				for si := range sg.Shards {
					if sg.Shards[si].ID == sh.ID {
						p.GID = sg.ID
						ts := time.Unix(0, p.Time)
						if ts.Before(sg.StartTime) || !ts.Before(sg.EndTime) {
							c.Oracle = append(c.Oracle, fmt.Sprintf("route: point %d stored in group %d which does not cover t", i, sg.ID))
						}
					}
				}
			}
		}
		c.Points = append(c.Points, p)
	}
	tmin, tmax := time.Unix(0, -9223372036854775806).UTC(), time.Unix(0, 9223372036854775806).UTC()
	mapped, err := coordinator.VerifC11MapMstShards(w.mc, dbName, rpName, "ds", tmin, tmax, cond)
	if err != nil {
		c.Oracle = append(c.Oracle, "mapMstShards: "+err.Error())
	}
	consulted := map[uint64]bool{}
	for _, id := range mapped {
		consulted[id] = true
	}
	w.walive = map[uint64][]int{}
	for gi := range w.rpi.ShardGroups {
		sg := &w.rpi.ShardGroups[gi]
		al := w.mc.GetAliveShards(dbName, sg, true)
		c.NShards += len(al)
		w.walive[sg.ID] = al
		t := Target{GID: sg.ID, SIDs: []uint64{}}
		for _, sh := range sg.Shards {
			if consulted[sh.ID] {
				t.SIDs = append(t.SIDs, sh.ID)
			}
		}
		c.Targets = append(c.Targets, t)
	}
	c.Groups = w.snapshotGroups()
	for i := range c.Points {
		p := &c.Points[i]
		m := map[string]interface{}{"usage": float64(1)}
		for _, k := range c.TagKeys {
			m[k] = ""
		}
		for _, t := range p.DTags {
			m[t[0]] = t[1]
		}
		p.Sat = influxql.EvalBool(cond, m)
		p.Leaf = make([]bool, len(leafExprs))
		for li, le := range leafExprs {
			p.Leaf[li] = influxql.EvalBool(le, m)
		}
		if p.Err == "" && p.Sat && !consulted[p.SID] {
			c.Oracle = append(c.Oracle, fmt.Sprintf("prune: point %d (result row %v of source row %v) satisfies %s on the destination but its shard %d of group %d is not consulted", i, p.DTags, p.Tags, c.CondText, p.SID, p.GID))
		}
	}
	return c
}
