package main

import (
	"bufio"
	"encoding/json"
	"fmt"
	"os"
	"runtime"
	"sort"
	"strconv"
	"strings"
	"time"

	"github.com/openGemini/openGemini/coordinator"
	"github.com/openGemini/openGemini/lib/config"
	"github.com/openGemini/openGemini/lib/metaclient"
	"github.com/openGemini/openGemini/lib/util/lifted/influx/influxql"
	"github.com/openGemini/openGemini/lib/util/lifted/influx/meta"
	proto2 "github.com/openGemini/openGemini/lib/util/lifted/influx/meta/proto"
	"github.com/openGemini/openGemini/lib/util/lifted/protobuf/proto"
	"github.com/openGemini/openGemini/lib/util/lifted/vm/protoparser/influx"
	"go.uber.org/zap"
	"verifharness/internal/gen"
)

// ---------------------------------------------------------------------------------------------
// catalogue on the real meta.Data

type world struct {
	walive map[uint64][]int // per group: alive shard indexes while the rows were written
	cfg  Cfg
	data *meta.Data
	mc   *mclient
	msts []*meta.MeasurementInfo
	dbi  *meta.DatabaseInfo
	rpi  *meta.RetentionPolicyInfo
}

func newWorld(cfg Cfg) *world {
	w := &world{cfg: cfg}
	w.data = &meta.Data{Databases: map[string]*meta.DatabaseInfo{}, ClusterPtNum: uint32(cfg.PtNum), PtNumPerNode: uint32(cfg.PtNum)}
	w.dbi = &meta.DatabaseInfo{Name: dbName, DefaultRetentionPolicy: rpName, RetentionPolicies: map[string]*meta.RetentionPolicyInfo{}}
	w.rpi = &meta.RetentionPolicyInfo{Name: rpName, ReplicaN: 1, Duration: 0, ShardGroupDuration: time.Duration(cfg.Dur),
		IndexGroupDuration: time.Duration(cfg.Dur), Measurements: map[string]*meta.MeasurementInfo{}, MstVersions: map[string]meta.MeasurementVer{}}
	w.dbi.RetentionPolicies[rpName] = w.rpi
	if len(cfg.DBSK) > 0 {
		w.dbi.ShardKey = meta.ShardKeyInfo{ShardKey: append([]string{}, cfg.DBSK...), Type: cfg.DBTyp}
	}
	w.data.Databases[dbName] = w.dbi
	for i, mc := range cfg.Msts {
		nameVer := influx.GetNameWithVersion(mc.Mst, 0)
		mi := meta.NewMeasurementInfo(nameVer, mc.Mst, config.TSSTORE, uint64(i+1))
		for _, k := range mc.TagKeys {
			mi.Schema.SetTyp(k, influx.Field_Type_Tag)
		}
		mi.Schema.SetTyp("usage", influx.Field_Type_Float)
		mi.Schema.SetTyp("cnt", influx.Field_Type_Int)
		mi.Schema.SetTyp("msg", influx.Field_Type_String)
		var sk []string
		if mc.SK != nil {
			sk = append([]string{}, mc.SK...)
		}
		mi.ShardKeys = []meta.ShardKeyInfo{{ShardKey: sk, Type: cfg.Typ, ShardGroup: 0}}
		mi.InitNumOfShards = int32(mc.InitNum)
		mi.ShardIdexes = map[uint64][]int{}
		w.rpi.Measurements[nameVer] = mi
		w.rpi.MstVersions[mc.Mst] = meta.MeasurementVer{NameWithVersion: nameVer, Version: 0}
		w.msts = append(w.msts, mi)
	}
	w.mc = &mclient{data: w.data, offline: map[int]bool{}, born: map[uint64]int{}, resh: map[uint64]bool{}, cur: -1}
	w.mc.real = &metaclient.Client{}
	w.mc.real.SetCacheData(w.data)
	w.setOffline(cfg.Offline)
	config.SetHardWrite(cfg.HardWrite)
	return w
}

// setOffline sets the status of every partition of the database (PtView), as a store node going down or coming back does
func (w *world) setOffline(off []int) {
	w.mc.offline = map[int]bool{}
	for _, o := range off {
		w.mc.offline[o] = true
	}
	pts := make(meta.DBPtInfos, w.cfg.PtNum)
	for i := range pts {
		pts[i] = meta.PtInfo{PtId: uint32(i), Status: meta.Online, Owner: meta.PtOwner{NodeID: 1}}
		if w.mc.offline[i] {
			pts[i].Status = meta.Offline
		}
	}
	w.data.PtView = map[string]meta.DBPtInfos{dbName: pts}
}

// a hand-built group with key ranges (the state a range-sharded policy is in after resharding)
func (w *world) addRangeGroup(start time.Time, bounds []string) {
	w.data.MaxShardGroupID++
	sg := meta.ShardGroupInfo{ID: w.data.MaxShardGroupID, StartTime: start.UTC(), EndTime: start.Add(time.Duration(w.cfg.Dur)).UTC(), EngineType: config.TSSTORE}
	n := len(bounds) + 1
	for i := 0; i < n; i++ {
		w.data.MaxShardID++
		sh := meta.ShardInfo{ID: w.data.MaxShardID, Owners: []uint32{uint32(i % w.cfg.PtNum)}}
		if i > 0 {
			sh.Min = bounds[i-1]
		}
		if i < n-1 {
			sh.Max = bounds[i]
		}
		sg.Shards = append(sg.Shards, sh)
	}
	w.rpi.ShardGroups = append(w.rpi.ShardGroups, sg)
	sort.Sort(meta.ShardGroupInfos(w.rpi.ShardGroups))
	w.mc.born[sg.ID] = -1
}

func (w *world) snapshotGroups() []Group {
	var res []Group
	for i := range w.rpi.ShardGroups {
		sg := &w.rpi.ShardGroups[i]
		g := Group{ID: sg.ID, Start: nsString(sg.StartTime), End: nsString(sg.EndTime), Deleted: sg.Deleted(), Born: w.mc.born[sg.ID], Resh: w.mc.resh[sg.ID]}
		if sg.Truncated() {
			s := nsString(sg.TruncatedAt)
			g.Trunc = &s
		}
		for _, sh := range sg.Shards {
			g.Shards = append(g.Shards, Shard{sh.ID, sh.Min, sh.Max})
		}
		g.Alive = w.mc.GetAliveShards(dbName, sg, true)
		g.WAlive = w.walive[sg.ID]
		res = append(res, g)
	}
	return res
}

// the measurement configurations as the catalogue holds them after the run
func (w *world) snapshotMsts(cfg *Cfg) {
	for i := range cfg.Msts {
		mi := w.msts[i]
		cfg.Msts[i].MstVer = mi.Name
		cfg.Msts[i].Vers = nil
		for _, k := range mi.ShardKeys {
			sk := k.ShardKey
			if sk == nil {
				sk = []string{}
			}
			cfg.Msts[i].Vers = append(cfg.Msts[i].Vers, Ver{From: k.ShardGroup, SK: sk})
		}
		cfg.Msts[i].MstIdx = nil
		if mi.InitNumOfShards != 0 {
			cfg.Msts[i].MstIdx = []GIdx{}
			var ids []uint64
			for gid := range mi.ShardIdexes {
				ids = append(ids, gid)
			}
			sort.Slice(ids, func(a, b int) bool { return ids[a] < ids[b] })
			for _, gid := range ids {
				cfg.Msts[i].MstIdx = append(cfg.Msts[i].MstIdx, GIdx{gid, append([]int{}, mi.ShardIdexes[gid]...)})
			}
		}
	}
}

// ---------------------------------------------------------------------------------------------
// case generation

var tagUniverse = []string{"az", "dc", "host", "rack", "zone", "TIME"}

func pickKeys(r *gen.Rand, from []string, n int) []string {
	perm := append([]string{}, from...)
	for i := range perm {
		j := i + r.Intn(len(perm)-i)
		perm[i], perm[j] = perm[j], perm[i]
	}
	if n > len(perm) {
		n = len(perm)
	}
	res := append([]string{}, perm[:n]...)
	sort.Strings(res)
	return res
}

func genCfg(r *gen.Rand) Cfg {
	cfg := Cfg{}
	cfg.Typ = meta.HASH
	if r.Chance(1, 4) {
		cfg.Typ = meta.RANGE
	}
	nm := 1
	if cfg.Typ == meta.HASH && r.Chance(1, 2) {
		nm = r.Range(2, 3)
	}
	names := pickKeys(r, []string{"m", "cpu", "mem_1", "m,x"}, 4)
	for i := range names { // keep the random order, not the sorted one
		j := i + r.Intn(len(names)-i)
		names[i], names[j] = names[j], names[i]
	}
	h := int64(time.Hour)
	cfg.Dur = gen.Pick(r, []int64{h, 24 * h, 7 * 24 * h, 7 * 24 * h, int64(time.Minute), 37 * int64(time.Minute), 5 * h, 1000000007})
	cfg.PtNum = r.Range(1, 16)
	if r.Chance(1, 5) {
		cfg.PtNum = gen.Pick(r, []int{1, 2, 8, 16})
	}
	// measurements of one batch mostly share their tag keys (otherwise rows of the other measurement are just rejected)
	shared := pickKeys(r, tagUniverse, r.Range(2, 5))
	for i := 0; i < nm; i++ {
		mc := MstCfg{Mst: names[i], TagKeys: shared}
		if i > 0 && r.Chance(1, 4) {
			mc.TagKeys = pickKeys(r, tagUniverse, r.Range(2, 5))
		}
		nsk := []int{0, 1, 1, 1, 2, 2, 3}[r.Intn(7)]
		if nsk > 0 {
			mc.SK = pickKeys(r, mc.TagKeys, nsk)
		}
		if cfg.Typ == meta.HASH && r.Chance(1, 6) {
			mc.InitNum = r.Range(1, cfg.PtNum)
		}
		cfg.Msts = append(cfg.Msts, mc)
	}
	if r.Chance(1, 4) {
		// database-level shard key (CREATE DATABASE .. WITH SHARDKEY): mostly tags every measurement has, sometimes one
		// that a measurement's schema lacks; the measurements keep their own keys (or none)
		from := shared
		if r.Chance(1, 6) {
			from = tagUniverse
		}
		cfg.DBSK = pickKeys(r, from, []int{1, 1, 1, 2}[r.Intn(4)])
		if r.Chance(1, 3) {
			cfg.DBTyp = meta.HASH
		}
		for i := range cfg.Msts { // measurements created implicitly by a write have no key of their own
			if r.Chance(1, 3) {
				cfg.Msts[i].SK = nil
			}
		}
	}
	anyInit := false
	for _, m := range cfg.Msts {
		anyInit = anyInit || m.InitNum != 0
	}
	if cfg.Typ == meta.HASH && !anyInit && cfg.PtNum > 2 && r.Chance(1, 5) {
		a, b := r.Intn(cfg.PtNum), r.Intn(cfg.PtNum)
		switch r.Intn(5) {
		case 0, 1: // offline all the time
			cfg.Offline = []int{a}
		case 2: // goes offline after the rows were written
			cfg.OfflineRead = []int{a}
		case 3: // was offline while the rows were written, is back when the query runs
			cfg.Offline, cfg.OfflineRead = []int{a}, []int{}
		default: // another partition
			cfg.Offline, cfg.OfflineRead = []int{a}, []int{b}
		}
		if r.Chance(1, 4) {
			// hard-write: a write to a shard of an offline partition fails, so every partition is online while the rows are
			// written; one goes offline before the query
			cfg.HardWrite, cfg.Offline, cfg.OfflineRead = true, nil, []int{a}
		}
	}
	return cfg
}

func genTimes(r *gen.Rand, d int64) []int64 {
	base := int64(1700000000) * 1000000000
	var ts []int64
	b0 := alignedStart(base+int64(r.Intn(1000))*d, d)
	for _, k := range []int64{0, 1, 2} {
		b := b0 + k*d
		ts = append(ts, b, b-1, b+1, b+d/2)
	}
	ts = append(ts, 0, -1, 1, -d, d-1)
	return ts
}

func genPointTags(r *gen.Rand, mc *MstCfg, skUnion map[string]bool, prefer map[string][]string) [][2]string {
	var tags [][2]string
	for _, k := range mc.TagKeys {
		p := 4
		if skUnion[k] {
			p = 19
		}
		if !r.Chance(p, p+1) {
			continue
		}
		v := gen.Pick(r, valPool[:5])
		if vs := prefer[k]; len(vs) > 0 && r.Chance(2, 3) {
			v = gen.Pick(r, vs)
		}
		if v == "" {
			continue // the line protocol cannot carry an empty tag value
		}
		tags = append(tags, [2]string{k, v})
	}
	if len(tags) > 1 && r.Chance(1, 40) {
		i := r.Intn(len(tags) - 1)
		tags[i+1][0] = tags[i][0] // duplicate key (rejected by the write path)
	}
	return tags
}

func collectPrefer(n *Node, out map[string][]string) {
	if n == nil {
		return
	}
	if n.Op == "eqstr" {
		out[n.K] = append(out[n.K], n.V)
	}
	collectPrefer(n.L, out)
	collectPrefer(n.R, out)
}

type condSpec struct {
	label string
	expr  influxql.Expr // nil = no condition
	text  string
}

func hasAdjDup(tags [][2]string) bool {
	for i := 0; i+1 < len(tags); i++ {
		if tags[i][0] == tags[i+1][0] {
			return true
		}
	}
	return false
}

// reshard carries out Data.ReSharding on the newest shard group of the policy (what ts-meta does when the shards of a
// range-sharded policy are out of balance): a new group [split+1, end of the newest group) with len(bounds)+1 key ranges
func (w *world) reshard(rs *Reshard, pts []Point) error {
	n := len(w.rpi.ShardGroups)
	if n == 0 {
		return nil
	}
	last := &w.rpi.ShardGroups[n-1]
	st, en := last.StartTime.UnixNano(), last.EndTime.UnixNano()
	if en-st < 4 || last.EndTime.After(time.Unix(0, 9223372036854775806)) {
		return nil
	}
	split := st + (en-st)/2
	switch rs.Mode {
	case 1:
		split = st
	case 2:
		if t := pts[rs.At-1].Time; t >= st && t < en-2 {
			split = t
		}
	}
	before := map[uint64]bool{}
	for i := range w.rpi.ShardGroups {
		before[w.rpi.ShardGroups[i].ID] = true
	}
	if err := w.data.ReSharding(&meta.ReShardingInfo{Database: dbName, Rp: rpName, ShardGroupID: last.ID, SplitTime: split, Bounds: rs.Bounds}); err != nil {
		return err
	}
	rs.Split, rs.Done = split, true
	for i := range w.rpi.ShardGroups {
		if id := w.rpi.ShardGroups[i].ID; !before[id] {
			w.mc.born[id] = rs.At
			w.mc.resh[id] = true
		}
	}
	return nil
}

func runCase(n int, cfg Cfg, qm int, alter *Alter, resh *Reshard, cs condSpec, pts []Point, tmin, tmax int64, split bool, pre func(w *world)) Case {
	c := Case{N: n, Label: cs.label, CondText: cs.text, QM: qm, Alter: alter, TMin: tmin, TMax: tmax, Oracle: []string{}}
	if resh != nil {
		rs := *resh
		rs.Split, rs.Done = 0, false
		c.Reshard = &rs
	}
	lastCfg, lastCond = cfg, cs.text
	w := newWorld(cfg)
	lastWorld, lastPts, lastResh = w, pts, resh
	if pre != nil {
		pre(w)
	}
	cond := cs.expr
	if cond != nil && split {
		// the query layer's own split of time bounds from the rest of the condition
		rest, tr, err := influxql.ConditionExpr(cond, &influxql.NowValuer{Now: time.Unix(1700000000, 0)})
		if err == nil {
			c.Split = true
			cond = rest
			if !tr.Min.IsZero() && tr.Min.UnixNano() > c.TMin {
				c.TMin = tr.Min.UnixNano()
			}
			if !tr.Max.IsZero() && tr.Max.UnixNano() < c.TMax {
				c.TMax = tr.Max.UnixNano()
			}
		}
	}
	var leaves []influxql.Expr
	if cond != nil {
		c.HasCond = true
		c.Cond = toNode(cond, &leaves)
		c.CondText = cond.String()
	}
	c.NLeaf = len(leaves)

	// ---- write side: every batch goes through the real per-batch routing loop of the PointsWriter
	if len(pts) > 0 {
		pts[0].NewBatch = true
	}
	shardGroup := func(sid uint64) (uint64, *meta.ShardGroupInfo, int) {
		holders := 0
		var gid uint64
		var res *meta.ShardGroupInfo
		for gi := range w.rpi.ShardGroups {
			sg := &w.rpi.ShardGroups[gi]
			for si := range sg.Shards {
				if sg.Shards[si].ID == sid {
					holders++
					gid = sg.ID
					res = sg
				}
			}
		}
		return gid, res, holders
	}
	for start := 0; start < len(pts); {
		end := start + 1
		for end < len(pts) && !pts[end].NewBatch {
			end++
		}
		if alter != nil && alter.At == start {
			ski := &meta.ShardKeyInfo{ShardKey: alter.SK, Type: cfg.Typ}
			if err := w.data.AlterShardKey(dbName, rpName, cfg.Msts[alter.M].Mst, ski.Marshal()); err != nil {
				c.Oracle = append(c.Oracle, "setup: AlterShardKey: "+err.Error())
			}
		}
		if c.Reshard != nil && c.Reshard.At == start {
			if err := w.reshard(c.Reshard, pts); err != nil {
				c.Oracle = append(c.Oracle, "setup: ReSharding: "+err.Error())
			}
		}
		rows := make([]influx.Row, end-start)
		for i := start; i < end; i++ {
			p := &pts[i]
			row := influx.Row{Name: cfg.Msts[p.M].Mst, Timestamp: p.Time}
			for _, t := range p.Tags {
				row.Tags = append(row.Tags, influx.Tag{Key: t[0], Value: t[1]})
			}
			if p.Conflict {
				row.Fields = append(row.Fields, influx.Field{Key: "usage", StrValue: "s", Type: influx.Field_Type_String})
			} else {
				row.Fields = append(row.Fields, influx.Field{Key: "usage", NumValue: 1, Type: influx.Field_Type_Float})
			}
			rows[i-start] = row
		}
		w.mc.cur = start
		w.mc.curBase = start
		w.mc.times, w.mc.skip = nil, nil
		for i := start; i < end; i++ {
			w.mc.times = append(w.mc.times, pts[i].Time)
			w.mc.skip = append(w.mc.skip, pts[i].Time < 0 || pts[i].Conflict || hasAdjDup(pts[i].Tags))
		}
		shardOf, _, _, err := coordinator.VerifC11RouteBatch(w.mc, dbName, rpName, rows)
		if err != nil {
			c.Oracle = append(c.Oracle, fmt.Sprintf("write: batch starting at point %d failed: %v", start, err))
		}
		for i := start; i < end; i++ {
			p := &pts[i]
			sid := uint64(0)
			if shardOf != nil {
				sid = shardOf[i-start]
			}
			if sid == 0 {
				p.Err = "rejected"
				continue
			}
			p.SID = sid
			row := &rows[i-start]
			if cfg.Typ == meta.HASH {
				p.HKey = string(row.ShardKey)
				p.Hash = strconv.FormatUint(meta.HashID(row.ShardKey), 10)
			}
			gid, sg, holders := shardGroup(sid)
			p.GID = gid
			if holders != 1 {
				c.Oracle = append(c.Oracle, fmt.Sprintf("route: point %d: shard %d belongs to %d groups", i, sid, holders))
				continue
			}
			ts := time.Unix(0, p.Time)
			if ts.Before(sg.StartTime) || !ts.Before(sg.EndTime) { // half-open span, checked independently of ShardGroupInfo.Contains
				c.Oracle = append(c.Oracle, fmt.Sprintf("route: point %d (t=%d) stored in shard %d of group %d whose span [%s,%s) does not contain t", i, p.Time, sid, sg.ID, nsString(sg.StartTime), nsString(sg.EndTime)))
			}
			if sg.Deleted() {
				c.Oracle = append(c.Oracle, fmt.Sprintf("route: point %d stored in shard %d of deleted group %d", i, sid, sg.ID))
			}
		}
		start = end
	}
	// determinism: inside a group the shard is a function of (measurement, shard-key pairs in force for the group)
	type rk struct {
		m   int
		key string
		gid uint64
	}
	seen := map[rk]uint64{}
	seenAt := map[rk]int{}
	for i := range pts {
		p := &pts[i]
		if p.Err != "" {
			continue
		}
		// the definition in force: the database's shard key if it has one, else the measurement's for the group
		ski := w.msts[p.M].GetShardKey(p.GID)
		if len(cfg.DBSK) > 0 {
			ski = &meta.ShardKeyInfo{ShardKey: cfg.DBSK}
		}
		var sb strings.Builder
		if ski == nil || len(ski.ShardKey) == 0 {
			for _, t := range p.Tags {
				sb.WriteString("," + t[0] + "=" + t[1])
			}
		} else {
			m := map[string]string{}
			for _, t := range p.Tags {
				m[t[0]] = t[1]
			}
			for _, k := range ski.ShardKey {
				sb.WriteString("," + k + "=" + m[k])
			}
		}
		k := rk{p.M, sb.String(), p.GID}
		if prev, ok := seen[k]; ok && prev != p.SID {
			c.Oracle = append(c.Oracle, fmt.Sprintf("samekey: points %d %d : measurement %s shard key %q in group %d went to shards %d and %d", seenAt[k], i, cfg.Msts[p.M].Mst, k.key, p.GID, prev, p.SID))
		}
		seen[k] = p.SID
		seenAt[k] = i
	}

	// ---- between the writes and the query: partitions may go offline or come back
	w.walive = map[uint64][]int{}
	for gi := range w.rpi.ShardGroups {
		sg := &w.rpi.ShardGroups[gi]
		w.walive[sg.ID] = w.mc.GetAliveShards(dbName, sg, false)
	}
	if cfg.OfflineRead != nil {
		w.setOffline(cfg.OfflineRead)
	}
	onlineAtRead := map[uint64]bool{}
	for gi := range w.rpi.ShardGroups {
		sg := &w.rpi.ShardGroups[gi]
		for _, sh := range sg.Shards {
			onlineAtRead[sh.ID] = len(sh.Owners) == 0 || !w.mc.offline[int(sh.Owners[0])]
		}
	}

	// ---- read side, measurement qm
	qmst := w.msts[qm]
	if cond != nil {
		qmst.SchemaLock.RLock()
		c.CondTags = meta.VerifC11ConditionTags(cond, qmst.Schema)
		qmst.SchemaLock.RUnlock()
	}
	tminT, tmaxT := time.Unix(0, c.TMin).UTC(), time.Unix(0, c.TMax).UTC()
	groups, err := w.data.ShardGroupsByTimeRange(dbName, rpName, tminT, tmaxT)
	if err != nil {
		c.Oracle = append(c.Oracle, "ShardGroupsByTimeRange: "+err.Error())
	}
	c.QGroups = []uint64{}
	c.Targets = []Target{}
	// the query layer itself: ClusterShardMapper.mapMstShards (group selection, shard key per group, TargetShards)
	mapped, err := coordinator.VerifC11MapMstShards(w.mc, dbName, rpName, cfg.Msts[qm].Mst, tminT, tmaxT, cond)
	if err != nil {
		c.Oracle = append(c.Oracle, "mapMstShards: "+err.Error())
	}
	consulted := map[uint64]bool{}
	for _, id := range mapped {
		consulted[id] = true
	}
	c.Mapped = append([]uint64{}, mapped...)
	sort.Slice(c.Mapped, func(a, b int) bool { return c.Mapped[a] < c.Mapped[b] })
	// per selected group: which of its shards are consulted (shard ids are unique across groups)
	inSelected := map[uint64]bool{}
	for i := range groups {
		t := Target{GID: groups[i].ID, SIDs: []uint64{}}
		for _, sh := range groups[i].Shards {
			inSelected[sh.ID] = true
			if consulted[sh.ID] {
				t.SIDs = append(t.SIDs, sh.ID)
			}
		}
		c.QGroups = append(c.QGroups, groups[i].ID)
		c.Targets = append(c.Targets, t)
	}
	for _, id := range c.Mapped {
		if !inSelected[id] {
			c.Oracle = append(c.Oracle, fmt.Sprintf("readpath: mapMstShards consults shard %d, which belongs to no group selected by the time range", id))
		}
	}

	// ---- the same query with a series hint (SELECT /*+ full_series */ ..., /*+ specific_series */ ...)
	hintConsulted := map[int]map[uint64]bool{}
	for _, hint := range []int{1, 2} {
		hr := HintRes{Hint: hint, Targets: []Target{}}
		var ids []uint64
		func() {
			defer func() {
				if x := recover(); x != nil {
					hr.Err = fmt.Sprintf("panic: %v", x)
				}
			}()
			var err error
			ids, err = coordinator.VerifC11MapMstShardsHint(w.mc, dbName, rpName, cfg.Msts[qm].Mst, tminT, tmaxT, cond, hint)
			if err != nil {
				hr.Err = err.Error()
			}
		}()
		set := map[uint64]bool{}
		for _, id := range ids {
			set[id] = true
		}
		hintConsulted[hint] = set
		for i := range groups {
			t := Target{GID: groups[i].ID, SIDs: []uint64{}}
			for _, sh := range groups[i].Shards {
				if set[sh.ID] {
					t.SIDs = append(t.SIDs, sh.ID)
				}
			}
			hr.Targets = append(hr.Targets, t)
		}
		if hr.Err != "" {
			c.Oracle = append(c.Oracle, fmt.Sprintf("hintfail: hint %d: mapMstShards failed: %s", hint, hr.Err))
		}
		c.Hints = append(c.Hints, hr)
	}
	// a hinted query asserts that the condition names one series. For a measurement sharded by a key that is no restriction;
	// without a shard key (the whole series key is hashed) only rows whose tag set is the condition's are promised
	hintApplies := func(p *Point) bool {
		if len(cfg.DBSK) > 0 || len(c.CondTags) != 1 {
			return true
		}
		if ski := w.msts[qm].GetShardKey(p.GID); ski != nil && len(ski.ShardKey) > 0 {
			return true
		}
		ct := append([][2]string{}, c.CondTags[0]...)
		sort.SliceStable(ct, func(a, b int) bool { return ct[a][0] < ct[b][0] })
		if len(ct) != len(p.Tags) {
			return false
		}
		for i := range ct {
			if ct[i] != p.Tags[i] {
				return false
			}
		}
		return true
	}

	// ---- rows against the query: the DIRECT ORACLE
	for i := range pts {
		p := &pts[i]
		mcf := &cfg.Msts[p.M]
		m := map[string]interface{}{}
		for _, k := range mcf.TagKeys {
			m[k] = ""
		}
		seenKey := map[string]bool{}
		for _, t := range p.Tags {
			if !seenKey[t[0]] {
				m[t[0]] = t[1]
				seenKey[t[0]] = true
			}
		}
		// field values are a function of the timestamp
		m["usage"] = float64((p.Time%5+5)%5) * 0.75
		m["cnt"] = int64((p.Time%3+3)%3 + 1)
		m["msg"] = []string{"x", "y", "a"}[int((p.Time%3+3)%3)]
		p.Leaf = make([]bool, len(leaves))
		for li, le := range leaves {
			p.Leaf[li] = evalLeaf(le, m, p.Time)
		}
		p.Sat = true
		if c.Cond != nil {
			p.Sat = evalNode(c.Cond, p.Leaf)
		}
		p.InTR = c.TMin <= p.Time && p.Time <= c.TMax
		if p.M == qm && p.Err == "" && !onlineAtRead[p.SID] {
			continue // the partition holding the row is offline: nothing can read it now (availability, not placement)
		}
		if p.M == qm && p.Err == "" && p.Sat && p.InTR && !consulted[p.SID] {
			c.Oracle = append(c.Oracle, fmt.Sprintf("prune: point %d (%s t=%d, tags %v) satisfies the query but its shard %d of group %d is not consulted", i, mcf.Mst, p.Time, p.Tags, p.SID, p.GID))
		}
		if p.M == qm && p.Err == "" && p.Sat && p.InTR && hintApplies(p) {
			for _, hr := range c.Hints {
				if hr.Err == "" && !hintConsulted[hr.Hint][p.SID] {
					c.Oracle = append(c.Oracle, fmt.Sprintf("hintprune: hint %d point %d (%s t=%d, tags %v) satisfies the hinted query but its shard %d of group %d is not consulted", hr.Hint, i, mcf.Mst, p.Time, p.Tags, p.SID, p.GID))
				}
			}
		}
	}
	c.Points = pts
	c.Groups = w.snapshotGroups()
	w.snapshotMsts(&cfg)
	c.Cfg = cfg
	return c
}

// fullKey is Row.ShardKey of a row of the measurement: the name with version, then ",k=v" for every shard-key tag (every
// tag when the measurement has no shard key); false when the row lacks a shard-key tag or repeats a key
func fullKey(mver string, sk []string, tags [][2]string) (string, bool) {
	if hasAdjDup(tags) {
		return "", false
	}
	b := mver
	if len(sk) == 0 {
		for _, t := range tags {
			b += "," + t[0] + "=" + t[1]
		}
		return b, true
	}
	for _, k := range sk {
		found := false
		for _, t := range tags {
			if t[0] == k {
				b += "," + k + "=" + t[1]
				found = true
				break
			}
		}
		if !found {
			return "", false
		}
	}
	return b, true
}

func skUnionOf(cfg *Cfg, mc *MstCfg, alter *Alter, mi int) map[string]bool {
	u := map[string]bool{}
	for _, k := range cfg.DBSK {
		u[k] = true
	}
	for _, k := range mc.SK {
		u[k] = true
	}
	if alter != nil && alter.M == mi {
		for _, k := range alter.SK {
			u[k] = true
		}
	}
	return u
}

func genCase(r *gen.Rand, n int) Case {
	cfg := genCfg(r)
	times := genTimes(r, cfg.Dur)
	qm := r.Intn(len(cfg.Msts))
	np := r.Range(5, 10)
	if len(cfg.Msts) > 1 {
		np = r.Range(7, 14)
	}
	// ALTER ... SHARDKEY between two batches (hash sharding, not too often)
	var alter *Alter
	if cfg.Typ == meta.HASH && r.Chance(1, 8) {
		am := r.Intn(len(cfg.Msts))
		if r.Chance(2, 3) {
			am = qm
		}
		sk := pickKeys(r, cfg.Msts[am].TagKeys, r.Range(1, 2))
		alter = &Alter{At: r.Range(1, np-1), M: am, SK: sk}
	}
	qsk := []string{}
	for k := range skUnionOf(&cfg, &cfg.Msts[qm], alter, qm) {
		qsk = append(qsk, k)
	}
	sort.Strings(qsk)
	g := &condGen{r: r, sk: qsk}
	g.keys = append(append([]string{}, cfg.Msts[qm].TagKeys...), "nokey")
	var cs condSpec
	var fullSeries [][2]string
	for tries := 0; ; tries++ {
		if r.Chance(1, 25) {
			cs = condSpec{label: "parser"}
			break
		}
		if r.Chance(1, 7) {
			// the shape hinted queries are meant for: every tag of one series bound by equality (sometimes one tag short)
			fullSeries = genPointTags(r, &cfg.Msts[qm], skUnionOf(&cfg, &cfg.Msts[qm], alter, qm), nil)
			if len(fullSeries) > 0 && !hasAdjDup(fullSeries) {
				var parts []string
				for i, t := range fullSeries {
					if i > 0 && len(fullSeries) > 2 && r.Chance(1, 8) {
						continue
					}
					parts = append(parts, `"`+t[0]+`" = `+quote(t[1]))
				}
				txt := strings.Join(parts, " AND ")
				if e, err := influxql.ParseExpr(txt); err == nil {
					cs = condSpec{label: "parser", expr: e, text: txt}
					break
				}
			}
			fullSeries = nil
		}
		if len(cfg.DBSK) > 0 && r.Chance(1, 2) {
			// two shard-key definitions: bind every tag of the measurement's own key and/or of the database's key by equality
			var ks []string
			if r.Chance(3, 4) {
				ks = append(ks, cfg.Msts[qm].SK...)
			}
			if len(ks) == 0 || r.Chance(1, 3) {
				ks = append(ks, cfg.DBSK...)
			}
			var parts []string
			for _, k := range ks {
				parts = append(parts, `"`+k+`" = `+quote(gen.Pick(r, valPool[:3])))
			}
			if r.Chance(1, 4) {
				parts = append(parts, "usage >= 0")
			}
			txt := strings.Join(parts, " AND ")
			if e, err := influxql.ParseExpr(txt); err == nil {
				cs = condSpec{label: "parser", expr: e, text: txt}
				break
			}
		}
		t := g.tree(r.Range(1, 3), times)
		if r.Chance(1, 4) {
			e, err := t.parenFree()
			if err == nil {
				cs = condSpec{label: "parenfree", expr: e, text: e.String()}
				break
			}
		} else {
			txt := t.text(false)
			e, err := influxql.ParseExpr(txt)
			if err == nil {
				cs = condSpec{label: "parser", expr: e, text: txt}
				break
			}
		}
		if tries > 20 {
			cs = condSpec{label: "parser"}
			break
		}
	}
	prefer := map[string][]string{}
	if cs.expr != nil {
		var tmp []influxql.Expr
		collectPrefer(toNode(cs.expr, &tmp), prefer)
	}
	pts := make([]Point, np)
	// a batch mostly stays inside one or two groups so that the group cache is hit while the measurement changes
	hot := []int64{gen.Pick(r, times[:12]), gen.Pick(r, times[:12])}
	for i := range pts {
		p := &pts[i]
		p.M = r.Intn(len(cfg.Msts))
		if r.Chance(1, 2) {
			p.M = qm
		}
		if i > 0 && r.Chance(1, 3) {
			p.M = pts[i-1].M // runs of one measurement: A A B B A
		}
		p.Tags = genPointTags(r, &cfg.Msts[p.M], skUnionOf(&cfg, &cfg.Msts[p.M], alter, p.M), prefer)
		p.Time = gen.Pick(r, times)
		if r.Chance(1, 2) {
			p.Time = gen.Pick(r, hot) + int64(r.Intn(3))
		}
		if r.Chance(1, 30) {
			p.Time = gen.Pick(r, []int64{-9223372036854775806, 9223372036854775806, 9223372036854775806 - cfg.Dur})
		}
		p.NewBatch = r.Chance(1, 5)
		p.Conflict = r.Chance(1, 12)
		if i > 0 && r.Chance(1, 6) { // same series again, other time
			j := r.Intn(i)
			p.M, p.Tags = pts[j].M, pts[j].Tags
		}
	}
	if fullSeries != nil { // the series the condition names is written, more than once
		for k := 0; k < 3; k++ {
			j := r.Intn(np)
			pts[j].M, pts[j].Tags = qm, fullSeries
		}
	}
	if alter != nil {
		pts[alter.At].NewBatch = true
	}
	tmin, tmax := int64(-9223372036854775806), int64(9223372036854775806)
	if r.Chance(1, 2) {
		a, b := gen.Pick(r, times), gen.Pick(r, times)
		if a > b {
			a, b = b, a
		}
		tmin, tmax = a, b
	}
	var pre func(w *world)
	var resh *Reshard
	if cfg.Typ == meta.RANGE {
		// range sharding: key bounds, either in a first hand-built group (the state resharding leaves behind) or produced by
		// the real Data.ReSharding between two batches; split points are mostly shard keys of series of this very case
		mc := &cfg.Msts[0]
		nb := r.Range(0, 4)
		if nb > cfg.PtNum-1 { // groups created later give one owner partition to each of the first PtNum shards only
			nb = cfg.PtNum - 1
		}
		real := nb > 0 && np > 2 && r.Chance(1, 2)
		var bounds []string
		mver := influx.GetNameWithVersion(mc.Mst, 0)
		for i := 0; i < nb; i++ {
			if real && r.Chance(3, 4) {
				if k, ok := fullKey(mver, mc.SK, pts[r.Intn(len(pts))].Tags); ok {
					bounds = append(bounds, k)
					continue
				}
			}
			b := mver
			if len(mc.SK) > 0 && r.Chance(4, 5) {
				b += "," + mc.SK[0] + "=" + gen.Pick(r, valPool[:5])
				if len(mc.SK) > 1 && r.Chance(1, 2) {
					b += "," + mc.SK[1] + "=" + gen.Pick(r, valPool[:5])
				}
			} else if r.Chance(1, 2) {
				b += "," + gen.Pick(r, mc.TagKeys) + "=" + gen.Pick(r, valPool[:5])
			}
			if r.Chance(1, 6) {
				b = b[:r.Intn(len(b)+1)]
			}
			bounds = append(bounds, b)
		}
		sort.Strings(bounds)
		var ub []string
		for i, b := range bounds {
			if b != "" && (i == 0 || bounds[i-1] != b) {
				ub = append(ub, b)
			}
		}
		st := alignedStart(times[0], cfg.Dur)
		if real && len(ub) > 0 {
			resh = &Reshard{At: r.Range(1, np-1), Bounds: ub, Mode: r.Intn(3)}
			pts[resh.At].NewBatch = true
		} else {
			pre = func(w *world) { w.addRangeGroup(time.Unix(0, st).UTC(), ub) }
		}
	} else if r.Chance(1, 8) {
		// a deleted or truncated group left in the catalogue
		st := alignedStart(times[0], cfg.Dur)
		del := r.Bool()
		pre = func(w *world) {
			w.mc.cur = -1
			w.mc.times = nil
			_, _ = w.mc.CreateShardGroup(dbName, rpName, time.Unix(0, st), 0, config.TSSTORE)
			sg := &w.rpi.ShardGroups[0]
			if del {
				sg.DeletedAt = time.Unix(1, 0).UTC()
			} else {
				sg.TruncatedAt = time.Unix(0, st+cfg.Dur/2).UTC()
			}
		}
	}
	return runCase(n, cfg, qm, alter, resh, cs, pts, tmin, tmax, r.Chance(1, 3), pre)
}

// hand-written cases, always run first: the design's witnesses and the batch / shard-key-history scenarios
func witnessCases() []Case {
	var res []Case
	h := int64(time.Hour)
	full := [2]int64{-9223372036854775806, 9223372036854775806}
	one := func(name string, keys []string, sk []string) MstCfg { return MstCfg{Mst: name, TagKeys: keys, SK: sk} }
	mk := func(n int, cfg Cfg, label, text string, e influxql.Expr, tagsets [][][2]string) {
		base := alignedStart(int64(1700000000)*1000000000, cfg.Dur)
		var pts []Point
		for i, ts := range tagsets {
			pts = append(pts, Point{Tags: ts, Time: base + int64(i)})
		}
		res = append(res, runCase(n, cfg, 0, nil, nil, condSpec{label: label, expr: e, text: text}, pts, full[0], full[1], false, nil))
	}
	dh := []string{"dc", "host"}
	// W1: host='a' OR usage > 1, shard key host, 8 shards
	{
		txt := `host = 'a' OR usage > 1`
		e, _ := influxql.ParseExpr(txt)
		var ts [][][2]string
		for _, v := range []string{"a", "b", "c", "d", "e", "f", "g", "h", "i", "j", "k", "l"} {
			ts = append(ts, [][2]string{{"host", v}})
		}
		mk(-1, Cfg{Msts: []MstCfg{one("cpu", dh, []string{"host"})}, Typ: meta.HASH, Dur: h, PtNum: 8}, "parser", txt, e, ts)
	}
	// W2: paren-free AND(host=h, OR(dc=x, dc=y)), shard key (dc, host); several value choices so that the two
	// alternatives fall into different shards for at least one of them whatever the hash
	for wi, vs := range [][3]string{{"a", "1", "2"}, {"b", "2", "3"}, {"c", "1", "3"}, {"a", "3", "4"}} {
		l, _ := influxql.ParseExpr(`host = '` + vs[0] + `'`)
		a, _ := influxql.ParseExpr(`dc = '` + vs[1] + `'`)
		b, _ := influxql.ParseExpr(`dc = '` + vs[2] + `'`)
		e := &influxql.BinaryExpr{Op: influxql.AND, LHS: l, RHS: &influxql.BinaryExpr{Op: influxql.OR, LHS: a, RHS: b}}
		ts := [][][2]string{{{"dc", vs[1]}, {"host", vs[0]}}, {{"dc", vs[2]}, {"host", vs[0]}}, {{"dc", vs[2]}, {"host", "z"}}, {{"dc", "9"}, {"host", vs[0]}}}
		mk(-2, Cfg{Msts: []MstCfg{one("cpu", dh, dh)}, Typ: meta.HASH, Dur: h, PtNum: 8}, "parenfree", e.String(), e, ts)
		if wi == 0 {
			// W3: the same through the parser: the parenthesised OR arrives as a ParenExpr
			txt := `host = 'a' AND (dc = '1' OR dc = '2')`
			e2, _ := influxql.ParseExpr(txt)
			mk(-3, Cfg{Msts: []MstCfg{one("cpu", dh, dh)}, Typ: meta.HASH, Dur: h, PtNum: 8}, "parser", txt, e2, ts)
		}
	}
	// W4: two alternatives for the one shard-key tag
	{
		txt := `host = 'a' OR host = 'b' OR host = 'c'`
		e, _ := influxql.ParseExpr(txt)
		var ts [][][2]string
		for _, v := range []string{"a", "b", "c", "d", "e", "f"} {
			ts = append(ts, [][2]string{{"host", v}})
		}
		mk(-4, Cfg{Msts: []MstCfg{one("cpu", dh, []string{"host"})}, Typ: meta.HASH, Dur: h, PtNum: 16}, "parser", txt, e, ts)
	}
	hr := []string{"host", "region"}
	two := Cfg{Msts: []MstCfg{one("cpu", hr, []string{"host"}), one("mem", hr, []string{"region"})}, Typ: meta.HASH, Dur: h, PtNum: 4}
	base := alignedStart(int64(1700000000)*1000000000, h)
	mixed := func(conflictAt int) []Point {
		var pts []Point
		for i := 0; i < 12; i++ {
			p := Point{M: i % 2, Time: base + int64(i+1)*60e9,
				Tags: [][2]string{{"host", fmt.Sprintf("h%d", i)}, {"region", fmt.Sprintf("r%d", (i*7+3)%16)}}}
			pts = append(pts, p)
		}
		if conflictAt >= 0 {
			// cpu row, then a mem row that the schema check drops, then mem rows in the same group
			pts = []Point{pts[0], {M: 1, Time: base + 61e9, Conflict: true, Tags: pts[1].Tags}}
			for i := 0; i < 8; i++ {
				pts = append(pts, Point{M: 1, Time: base + int64(i+2)*60e9,
					Tags: [][2]string{{"host", fmt.Sprintf("h%d", i)}, {"region", fmt.Sprintf("r%d", (i*7+3)%16)}}})
			}
		}
		return pts
	}
	// W5: one batch interleaving cpu (key host) and mem (key region) in one group; query mem by region
	for k, reg := range []string{"r10", "r8"} {
		txt := `region = '` + reg + `'`
		e, _ := influxql.ParseExpr(txt)
		res = append(res, runCase(-5-k, two, 1, nil, nil, condSpec{label: "parser", expr: e, text: txt}, mixed(-1), full[0], full[1], false, nil))
	}
	// W6: cpu row, a mem row dropped by the schema check, then mem rows: all in one batch and one group
	for k, reg := range []string{"r3", "r10", "r1"} {
		txt := `region = '` + reg + `'`
		e, _ := influxql.ParseExpr(txt)
		res = append(res, runCase(-7-k, two, 1, nil, nil, condSpec{label: "parser", expr: e, text: txt}, mixed(1), full[0], full[1], false, nil))
	}
	// W7: ALTER SHARDKEY host -> region between two batches; the query spans the old and the new group
	for k, hv := range []string{"h1", "h2", "h3"} {
		cfg := Cfg{Msts: []MstCfg{one("cpu", hr, []string{"host"})}, Typ: meta.HASH, Dur: h, PtNum: 8}
		var pts []Point
		for i := 0; i < 6; i++ {
			pts = append(pts, Point{Time: base + int64(i+1)*60e9, Tags: [][2]string{{"host", fmt.Sprintf("h%d", i%4)}, {"region", fmt.Sprintf("r%d", i)}}})
		}
		for i := 0; i < 8; i++ {
			pts = append(pts, Point{Time: base + h + int64(i+1)*60e9, NewBatch: i == 0, Tags: [][2]string{{"host", fmt.Sprintf("h%d", i%4)}, {"region", fmt.Sprintf("r%d", i)}}})
		}
		txt := `host = '` + hv + `'`
		e, _ := influxql.ParseExpr(txt)
		res = append(res, runCase(-10-k, cfg, 0, &Alter{At: 6, M: 0, SK: []string{"region"}}, nil, condSpec{label: "parser", expr: e, text: txt}, pts, full[0], full[1], false, nil))
	}
	// W8: database WITH SHARDKEY region; cpu WITH SHARDKEY host inside it, mem without a key of its own: every row is placed
	// by region. Queries binding the measurement's key, the database's key, both.
	for k, txt := range []string{`host = 'h2'`, `region = 'r1'`, `host = 'h4' AND region = 'r15'`, `host = 'h6'`, `host = 'h3'`} {
		cfg := Cfg{Msts: []MstCfg{one("cpu", hr, []string{"host"}), one("mem", hr, nil)}, DBSK: []string{"region"}, Typ: meta.HASH, Dur: h, PtNum: 8}
		e, _ := influxql.ParseExpr(txt)
		res = append(res, runCase(-13-k, cfg, k%2, nil, nil, condSpec{label: "parser", expr: e, text: txt}, mixed(-1), full[0], full[1], false, nil))
	}
	// W9: range sharding, one shard until the real Data.ReSharding splits the newest group at the shard keys of host=h2 and
	// host=h5; the same series are written again after the split (into the new group, whose ranges start AT those keys)
	for k, hv := range []string{"h2", "h5", "h3", "h0", "h7"} {
		cfg := Cfg{Msts: []MstCfg{one("cpu", hr, []string{"host"})}, Typ: meta.RANGE, Dur: h, PtNum: 4}
		var pts []Point
		for i := 0; i < 8; i++ {
			pts = append(pts, Point{Time: base + int64(i+1)*60e9, Tags: [][2]string{{"host", fmt.Sprintf("h%d", i)}, {"region", fmt.Sprintf("r%d", i%3)}}})
		}
		for i := 0; i < 8; i++ {
			pts = append(pts, Point{Time: base + h/2 + int64(i+1)*60e9, NewBatch: i == 0, Tags: [][2]string{{"host", fmt.Sprintf("h%d", i)}, {"region", fmt.Sprintf("r%d", i%3)}}})
		}
		mver := influx.GetNameWithVersion("cpu", 0)
		txt := `host = '` + hv + `'`
		e, _ := influxql.ParseExpr(txt)
		res = append(res, runCase(-18-k, cfg, 0, nil, &Reshard{At: 8, Bounds: []string{mver + ",host=h2", mver + ",host=h5"}, Mode: 0},
			condSpec{label: "parser", expr: e, text: txt}, pts, full[0], full[1], false, nil))
	}
	// W10: a partition goes offline between the writes and the query (write-available-first), and the same under hard-write
	for k, hw := range []bool{false, true} {
		txt := `host = 'd'`
		e, _ := influxql.ParseExpr(txt)
		var pts []Point
		for i, v := range []string{"a", "b", "c", "d", "e", "f", "g", "h", "i", "j", "k", "l"} {
			pts = append(pts, Point{Tags: [][2]string{{"host", v}}, Time: base + int64(i)})
		}
		cfg := Cfg{Msts: []MstCfg{one("cpu", dh, []string{"host"})}, Typ: meta.HASH, Dur: h, PtNum: 8, OfflineRead: []int{7}, HardWrite: hw}
		res = append(res, runCase(-23-k, cfg, 0, nil, nil, condSpec{label: "parser", expr: e, text: txt}, pts, full[0], full[1], false, nil))
	}
	return res
}

// lastCfg: the configuration of the case being run, for the report of a case that panicked
var lastCfg Cfg
var lastCond string
var lastWorld *world
var lastPts []Point
var lastResh *Reshard

// safeCase runs one generated case; a panic inside the code under test ends the CASE, not the run: it is reported as an
// oracle failure of that case ("panic: ...") with the configuration that provoked it
func safeCase(r *gen.Rand, n int) (c Case) {
	defer func() {
		if x := recover(); x != nil {
			buf := make([]byte, 4096)
			buf = buf[:runtime.Stack(buf, false)]
			grs := []Group{}
			if lastWorld != nil {
				func() {
					defer func() { _ = recover() }()
					lastWorld.walive = map[uint64][]int{}
					grs = lastWorld.snapshotGroups()
				}()
			}
			c = Case{N: n, Label: "panic", CondText: lastCond, Cfg: lastCfg, Reshard: lastResh, Points: lastPts, Groups: grs, QGroups: []uint64{}, Targets: []Target{},
				Mapped: []uint64{}, Oracle: []string{fmt.Sprintf("panic: %v | %s", x, strings.ReplaceAll(string(buf), "\n", " / "))}}
		}
	}()
	return genCase(r, n)
}

func main() {
	meta.DataLogger = zap.NewNop() // Data.ReSharding logs through the package logger, which only ts-meta sets up
	n := 400
	if gen.Tier() == "thorough" {
		n = 8000
	}
	if len(os.Args) > 1 && os.Args[1] == "replay" {
		replay(os.Args[2])
		return
	}
	if len(os.Args) > 2 && os.Args[1] == "reuse" {
		k, _ := strconv.Atoi(os.Args[2])
		out := bufio.NewWriterSize(os.Stdout, 1<<20)
		defer out.Flush()
		enc := json.NewEncoder(out)
		r := gen.FromEnv(1113)
		for i := 0; i < k; i++ {
			func() {
				defer func() {
					if x := recover(); x != nil { // a panic ends the case, not the run
						_ = enc.Encode(ReuseCase{Reuse: i, Points: []ReusePoint{}, Oracle: []string{fmt.Sprintf("panic: %v", x)}})
					}
				}()
				_ = enc.Encode(genReuseCase(r.Fork(), i))
			}()
		}
		return
	}
	if len(os.Args) > 2 && os.Args[1] == "alt" {
		k, _ := strconv.Atoi(os.Args[2])
		out := bufio.NewWriterSize(os.Stdout, 1<<20)
		defer out.Flush()
		enc := json.NewEncoder(out)
		r := gen.FromEnv(1112)
		for i := 0; i < k; i++ {
			func() {
				defer func() {
					if x := recover(); x != nil { // a panic ends the case, not the run
						_ = enc.Encode(AltCase{Alt: i, Kind: "panic", Points: []AltPoint{}, Oracle: []string{fmt.Sprintf("panic: %v", x)}})
					}
				}()
				_ = enc.Encode(genAltCase(r.Fork(), i))
			}()
		}
		return
	}
	if len(os.Args) > 1 {
		n, _ = strconv.Atoi(os.Args[1])
	}
	out := bufio.NewWriterSize(os.Stdout, 1<<20)
	defer out.Flush()
	enc := json.NewEncoder(out)
	ws := witnessCases()
	_ = enc.Encode(map[string]int{"witnesses": len(ws)})
	for _, c := range ws {
		_ = enc.Encode(c)
	}
	r := gen.FromEnv(11)
	for i := 0; i < n; i++ {
		_ = enc.Encode(safeCase(r.Fork(), i))
	}
}

// replay: re-run one recorded case (its configuration, condition text/label, points, time range) on the implementation
func replay(path string) {
	b, err := os.ReadFile(path)
	if err != nil {
		fmt.Println(err)
		os.Exit(2)
	}
	var wrap struct {
		Case Case `json:"case"`
	}
	if err := json.Unmarshal(b, &wrap); err != nil {
		fmt.Println(err)
		os.Exit(2)
	}
	c := wrap.Case
	var e influxql.Expr
	if c.HasCond {
		e = fromNode(c.Cond)
	}
	pts := make([]Point, len(c.Points))
	for i, p := range c.Points {
		pts[i] = Point{M: p.M, NewBatch: p.NewBatch, Conflict: p.Conflict, Tags: p.Tags, Time: p.Time}
	}
	cfg := c.Cfg
	for i := range cfg.Msts {
		cfg.Msts[i].Vers, cfg.Msts[i].MstIdx = nil, nil
	}
	var pre func(w *world)
	var preGroups []Group
	for _, g := range c.Groups {
		if g.Born < 0 {
			preGroups = append(preGroups, g)
		}
	}
	if len(preGroups) > 0 {
		pre = func(w *world) {
			for _, g := range preGroups {
				st, _ := strconv.ParseInt(g.Start, 10, 64)
				if cfg.Typ == meta.RANGE {
					var bounds []string
					for i := 0; i+1 < len(g.Shards); i++ {
						bounds = append(bounds, g.Shards[i].Max)
					}
					w.addRangeGroup(time.Unix(0, st).UTC(), bounds)
				} else {
					w.mc.cur = -1
					w.mc.times = nil
					_, _ = w.mc.CreateShardGroup(dbName, rpName, time.Unix(0, st), 0, config.TSSTORE)
					sg := &w.rpi.ShardGroups[len(w.rpi.ShardGroups)-1]
					if g.Deleted {
						sg.DeletedAt = time.Unix(1, 0).UTC()
					}
					if g.Trunc != nil {
						tr, _ := strconv.ParseInt(*g.Trunc, 10, 64)
						sg.TruncatedAt = time.Unix(0, tr).UTC()
					}
				}
			}
		}
	}
	res := runCase(c.N, cfg, c.QM, c.Alter, c.Reshard, condSpec{label: c.Label, expr: e, text: c.CondText}, pts, c.TMin, c.TMax, false, pre)
	gen.Emit(res)
}

// fromNode rebuilds the AST from the recorded tree (leaf texts are re-parsed)
func fromNode(n *Node) influxql.Expr {
	switch n.Op {
	case "and":
		return &influxql.BinaryExpr{Op: influxql.AND, LHS: fromNode(n.L), RHS: fromNode(n.R)}
	case "or":
		return &influxql.BinaryExpr{Op: influxql.OR, LHS: fromNode(n.L), RHS: fromNode(n.R)}
	case "paren":
		return &influxql.ParenExpr{Expr: fromNode(n.L)}
	}
	e, err := influxql.ParseExpr(n.S)
	if err != nil {
		panic(err)
	}
	return e
}

var _ = proto.String
var _ = proto2.Command_AlterShardKeyCmd
