// C11 correspondence harness: drives the real routing code of the write path
// (coordinator.PointsWriter.updateShardGroupAndShardKey -> meta.Data.CreateShardGroup / group lookup,
// influx.Row.UnmarshalShardKeyByTag, meta.HashID, ShardGroupInfo.ShardFor / DestShard) and of the read path
// (meta.Data.ShardGroupsByTimeRange, ShardGroupInfo.TargetShards, getConditionTags) over generated catalogues,
// points and condition trees. Prints one JSON object per case. The DIRECT ORACLE of the property is applied here:
// every generated point that is routed and satisfies the query lies in a shard the read path consults, and every
// routed point lands in exactly one shard of a group whose half-open span contains its timestamp.
package main

import (
	"fmt"
	"math/big"
	"strconv"
	"strings"
	"time"

	"github.com/openGemini/openGemini/lib/config"
	"github.com/openGemini/openGemini/lib/metaclient"
	"github.com/openGemini/openGemini/lib/util/lifted/influx/influxql"
	"github.com/openGemini/openGemini/lib/util/lifted/influx/meta"
	proto2 "github.com/openGemini/openGemini/lib/util/lifted/influx/meta/proto"
	"verifharness/internal/gen"
)

const dbName = "db0"
const rpName = "rp0"

// ---------------------------------------------------------------------------------------------
// JSON shapes

type Node struct {
	Op string `json:"op"` // and | or | paren | eqstr | other
	L  *Node  `json:"l,omitempty"`
	R  *Node  `json:"r,omitempty"`
	ID int    `json:"id"` // leaf id (eqstr, other)
	K  string `json:"k,omitempty"`
	V  string `json:"v"`
	S  string `json:"s,omitempty"` // text of the leaf (information only)
}

type Shard struct {
	ID  uint64 `json:"id"`
	Min string `json:"min"`
	Max string `json:"max"`
}

type Group struct {
	ID      uint64  `json:"id"`
	Start   string  `json:"start"` // decimal ns since the Unix epoch (may exceed int64)
	End     string  `json:"end"`
	Deleted bool    `json:"deleted"`
	Trunc   *string `json:"trunc"` // TruncatedAt or null
	Shards  []Shard `json:"shards"`
	Alive   []int   `json:"alive"`  // GetAliveShards(.., isRead = true) when the query runs
	WAlive  []int   `json:"walive"` // GetAliveShards(.., isRead = false) while the rows were written
	Born    int     `json:"born"` // index of the point whose routing created the group, -1 = existed before
	Resh    bool    `json:"resh"` // created by Data.ReSharding before the batch that starts at point Born
}

type Point struct {
	M        int         `json:"m"`        // measurement index
	NewBatch bool        `json:"newbatch"` // the row starts a new write batch (fresh ingestion context)
	Conflict bool        `json:"conflict"` // the row's only field has the wrong type: dropped by the schema check
	Tags  [][2]string `json:"tags"`
	Time  int64       `json:"time"`
	Leaf  []bool      `json:"leaf"` // truth of every leaf of the condition on this point
	Sat   bool        `json:"sat"`  // condition true on this point
	InTR  bool        `json:"intr"` // tmin <= time <= tmax
	Err   string      `json:"err"`  // "" | "noshardkey" | "dup" | "other:<text>"
	GID   uint64      `json:"gid"`
	SID   uint64      `json:"sid"`
	Hash  string      `json:"hash"`  // HashID of the hashed shard-key bytes (decimal), "" when not routed by hash
	HKey  string      `json:"hkey"`  // the hashed bytes
}

type Target struct {
	GID  uint64   `json:"gid"`
	SIDs []uint64 `json:"sids"`
}

// HintRes: what mapMstShards consults for the query carrying a series hint
type HintRes struct {
	Hint    int      `json:"hint"` // 1 full_series, 2 specific_series
	Targets []Target `json:"targets"`
	Err     string   `json:"err"` // error or panic text, "" = none
}

type Ver struct {
	From uint64   `json:"from"` // ShardKeyInfo.ShardGroup
	SK   []string `json:"sk"`
}
type GIdx struct {
	GID uint64 `json:"gid"`
	Idx []int  `json:"idx"`
}
type MstCfg struct {
	Mst     string   `json:"mst"`
	MstVer  string   `json:"mstver"` // name with version: the bytes that prefix the shard key
	TagKeys []string `json:"tagkeys"`
	SK      []string `json:"sk"` // shard key at creation, null = none
	InitNum int      `json:"initnum"`
	Vers    []Ver    `json:"vers"`   // MeasurementInfo.ShardKeys after the run
	MstIdx  []GIdx   `json:"mstidx"` // MeasurementInfo.ShardIdexes after the run, null when InitNumOfShards == 0
}
type Alter struct {
	At int      `json:"at"` // applied before this point (which starts a new batch)
	M  int      `json:"m"`
	SK []string `json:"sk"`
}
// Reshard: Data.ReSharding (-> CreateShardGroupWithBounds) of the newest shard group before the batch starting at point At
type Reshard struct {
	At     int      `json:"at"`
	Bounds []string `json:"bounds"` // split points: shard keys (measurement name with version + ",k=v"...), sorted, distinct
	Mode   int      `json:"mode"`   // how the split time is chosen inside the newest group (0 middle, 1 start, 2 time of the previous point)
	Split  int64    `json:"split"`  // the split time used (output)
	Done   bool     `json:"done"`   // output: the resharding was carried out
}

type Cfg struct {
	Msts    []MstCfg `json:"msts"`
	DBSK    []string `json:"dbsk"`  // DatabaseInfo.ShardKey.ShardKey (CREATE DATABASE .. WITH SHARDKEY), null = none
	DBTyp   string   `json:"dbtyp"` // DatabaseInfo.ShardKey.Type: "" (what CREATE DATABASE stores) or "hash"
	Typ     string   `json:"typ"`
	Dur     int64    `json:"dur"`
	PtNum   int      `json:"ptnum"`
	Offline []int    `json:"offline"`      // partitions that are offline while the rows are written
	OfflineRead []int `json:"offline_read"` // partitions that are offline when the query runs; null = the same as at write time
	HardWrite bool   `json:"hardwrite"`    // coordinator.hard-write: writes hash over all shards of the group
}

type Case struct {
	N        int           `json:"n"`
	Label    string        `json:"label"` // parser | parenfree
	CondText string        `json:"condtext"`
	Split    bool          `json:"split"` // condition went through influxql.ConditionExpr (time bounds moved to the range)
	Cfg      Cfg           `json:"cfg"`
	QM       int           `json:"qm"`    // measurement the query reads
	Alter    *Alter        `json:"alter"` // ALTER ... SHARDKEY between two batches, or null
	Reshard  *Reshard      `json:"reshard"` // re-sharding of a range-sharded policy between two batches, or null
	HasCond  bool          `json:"hascond"`
	Cond     *Node         `json:"cond"`
	NLeaf    int           `json:"nleaf"`
	Points   []Point       `json:"points"`
	Groups   []Group       `json:"groups"`
	CondTags [][][2]string `json:"condtags"` // null = unconstrained
	TMin     int64         `json:"tmin"`
	TMax     int64         `json:"tmax"`
	QGroups  []uint64      `json:"qgroups"`
	Targets  []Target      `json:"targets"`
	Mapped   []uint64      `json:"mapped"` // shard ids ClusterShardMapper.mapMstShards consults
	Hints    []HintRes     `json:"hints"`  // the same query with the full_series / specific_series hint
	Oracle   []string      `json:"oracle"`
}

// ---------------------------------------------------------------------------------------------
// meta client over the real meta.Data

type mclient struct {
	real    *metaclient.Client // the repository's meta client over the same catalogue: GetAliveShards (HA policy, partition status)
	data    *meta.Data
	offline map[int]bool
	born    map[uint64]int
	resh    map[uint64]bool
	cur     int     // default creator index (-1 = set-up)
	curBase int     // index of the first point of the running batch
	times   []int64 // timestamps of the rows of the running batch
	skip    []bool  // rows of the batch that never reach the routing step
}

func (m *mclient) Database(name string) (*meta.DatabaseInfo, error) { return m.data.Databases[name], nil }
func (m *mclient) RetentionPolicy(database, policy string) (*meta.RetentionPolicyInfo, error) {
	return m.data.RetentionPolicy(database, policy)
}

// mirrors metaclient.Client.CreateShardGroup: cached lookup, else the meta command, then lookup
func (m *mclient) CreateShardGroup(database, policy string, ts time.Time, version uint32, et config.EngineType) (*meta.ShardGroupInfo, error) {
	sg, tier, err := m.data.GetTierOfShardGroup(database, policy, ts, 0, et)
	if err != nil {
		return nil, err
	}
	if sg != nil {
		c := *sg
		return &c, nil
	}
	before := map[uint64]bool{}
	rpi, _ := m.data.RetentionPolicy(database, policy)
	for i := range rpi.ShardGroups {
		before[rpi.ShardGroups[i].ID] = true
	}
	if err := m.data.CreateShardGroup(database, policy, ts, tier, et, version); err != nil {
		return nil, err
	}
	for i := range rpi.ShardGroups {
		if !before[rpi.ShardGroups[i].ID] {
			b := m.cur
			for k, t := range m.times { // the row whose routing asked for the group
				if t == ts.UnixNano() && !(k < len(m.skip) && m.skip[k]) {
					b = m.curBase + k
					break
				}
			}
			m.born[rpi.ShardGroups[i].ID] = b
		}
	}
	g := rpi.ShardGroupByTimestampAndEngineType(ts, et)
	if g == nil {
		return nil, nil
	}
	c := *g
	return &c, nil
}
func (m *mclient) DBPtView(database string) (meta.DBPtInfos, error) { return nil, nil }
func (m *mclient) Measurement(database, rp, mst string) (*meta.MeasurementInfo, error) {
	return m.data.Measurement(database, rp, mst)
}

// read side of the meta client (coordinator.VerifC11ReadMeta)
func (m *mclient) GetMeasurements(ms *influxql.Measurement) ([]*meta.MeasurementInfo, error) {
	mi, err := m.data.Measurement(ms.Database, ms.RetentionPolicy, ms.Name)
	if err != nil {
		return nil, err
	}
	return []*meta.MeasurementInfo{mi}, nil
}
func (m *mclient) ShardGroupsByTimeRange(database, policy string, min, max time.Time) ([]meta.ShardGroupInfo, error) {
	return m.data.ShardGroupsByTimeRange(database, policy, min, max)
}
func (m *mclient) UpdateSchema(database, rp, mst string, f []*proto2.FieldSchema) error { return nil }
func (m *mclient) CreateMeasurement(database, rp, mst string, sk *meta.ShardKeyInfo, n int32, ir *influxql.IndexRelation, et config.EngineType,
	c *meta.ColStoreInfo, s []*proto2.FieldSchema, o *meta.Options) (*meta.MeasurementInfo, error) {
	return nil, fmt.Errorf("not used")
}
func (m *mclient) GetAliveShards(database string, sgi *meta.ShardGroupInfo, isRead bool) []int {
	owned := true
	for i := range sgi.Shards {
		owned = owned && len(sgi.Shards[i].Owners) > 0
	}
	if m.real != nil && owned {
		// the real policy code: write-available-first looks at the status of the first owner partition of every shard
		// (all shards for writes under hard-write)
		return m.real.GetAliveShards(database, sgi, isRead)
	}
	res := make([]int, 0, len(sgi.Shards))
	for i := range sgi.Shards {
		if len(sgi.Shards[i].Owners) > 0 && m.offline[int(sgi.Shards[i].Owners[0])] {
			continue
		}
		res = append(res, i)
	}
	return res
}
func (m *mclient) GetStreamInfos() map[string]*meta.StreamInfo                      { return nil }
func (m *mclient) GetDstStreamInfos(db, rp string, d *[]*meta.StreamInfo) bool       { return false }
func (m *mclient) DBRepGroups(database string) []meta.ReplicaGroup                   { return nil }
func (m *mclient) GetReplicaN(database string) (int, error)                          { return 1, nil }
func (m *mclient) UpdateSchemaByCmd(cmd *proto2.UpdateSchemaCommand) error           { return nil }
func (m *mclient) GetSgEndTime(d, r string, t time.Time, e config.EngineType) (int64, error) {
	return 0, nil
}

// ---------------------------------------------------------------------------------------------

func nsString(t time.Time) string {
	b := new(big.Int).Mul(big.NewInt(t.Unix()), big.NewInt(1000000000))
	b.Add(b, big.NewInt(int64(t.Nanosecond())))
	return b.String()
}

// ---------------------------------------------------------------------------------------------
// conditions

var valPool = []string{"a", "b", "c", "1", "2", "", "a,b", "x=y"}

type condGen struct {
	r    *gen.Rand
	sk   []string // shard-key tags of the queried measurement (all versions)
	keys []string // tag keys usable in predicates (schema tags + one unknown)
}

func quote(s string) string { return "'" + strings.ReplaceAll(s, "'", "\\'") + "'" }

func (g *condGen) tagVal() string {
	if g.r.Chance(1, 12) {
		return gen.Pick(g.r, valPool)
	}
	return gen.Pick(g.r, valPool[:5])
}

// leaf returns the text of a leaf predicate
func (g *condGen) leaf(preferSK bool) string {
	r := g.r
	k := gen.Pick(r, g.keys)
	if preferSK && len(g.sk) > 0 && r.Chance(3, 4) {
		k = gen.Pick(r, g.sk)
	}
	qk := `"` + k + `"`
	switch c := r.Intn(20); {
	case c < 9:
		return qk + " = " + quote(g.tagVal())
	case c < 10:
		return qk + " != " + quote(g.tagVal())
	case c < 11:
		return qk + " =~ /^[ab1]/"
	case c < 12:
		return qk + " < " + quote(g.tagVal())
	case c < 13:
		return quote(g.tagVal()) + " = " + qk
	case c < 15:
		return "usage " + gen.Pick(r, []string{">", "<", ">=", "<=", "=", "!="}) + " " + gen.Pick(r, []string{"1", "1.5", "0", "2.5"})
	case c < 16:
		return "cnt " + gen.Pick(r, []string{">", "<", "=", "!="}) + " " + gen.Pick(r, []string{"1", "2", "3"})
	case c < 17:
		return "msg = " + quote(gen.Pick(r, []string{"x", "y", "a"}))
	case c < 18:
		return qk + " = " + "usage" // tag compared with a field reference
	default:
		return "" // time leaf, filled by caller
	}
}

type atree struct {
	op   string // and or paren leaf
	l, r *atree
	txt  string
}

func (g *condGen) tree(depth int, times []int64) *atree {
	r := g.r
	if depth <= 0 || r.Chance(1, 4) {
		t := g.leaf(true)
		if t == "" {
			t = "time " + gen.Pick(r, []string{">=", ">", "<", "<=", "="}) + " " + strconv.FormatInt(gen.Pick(r, times), 10)
		}
		return &atree{op: "leaf", txt: t}
	}
	switch c := r.Intn(10); {
	case c < 4:
		return &atree{op: "and", l: g.tree(depth-1, times), r: g.tree(depth-1, times)}
	case c < 8:
		return &atree{op: "or", l: g.tree(depth-1, times), r: g.tree(depth-1, times)}
	default:
		return &atree{op: "paren", l: g.tree(depth-1, times)}
	}
}

// text with the parentheses the grammar needs (OR under AND), so that ParseExpr yields a tree of the same meaning
func (t *atree) text(parentAnd bool) string {
	switch t.op {
	case "leaf":
		return t.txt
	case "paren":
		return "(" + t.l.text(false) + ")"
	case "and":
		return t.l.text(true) + " AND " + t.r.text(true)
	default:
		s := t.l.text(false) + " OR " + t.r.text(false)
		if parentAnd {
			return "(" + s + ")"
		}
		return s
	}
}

// paren-free AST: BinaryExpr nodes directly under each other, no ParenExpr anywhere (outside the parser's image when an
// OR sits under an AND)
func (t *atree) parenFree() (influxql.Expr, error) {
	switch t.op {
	case "leaf":
		return influxql.ParseExpr(t.txt)
	case "paren":
		return t.l.parenFree()
	}
	l, err := t.l.parenFree()
	if err != nil {
		return nil, err
	}
	r, err := t.r.parenFree()
	if err != nil {
		return nil, err
	}
	op := influxql.AND
	if t.op == "or" {
		op = influxql.OR
	}
	return &influxql.BinaryExpr{Op: influxql.Token(op), LHS: l, RHS: r}, nil
}

func isTimeLeaf(e influxql.Expr) (string, influxql.Token, int64, bool) {
	b, ok := e.(*influxql.BinaryExpr)
	if !ok {
		return "", 0, 0, false
	}
	v, ok := b.LHS.(*influxql.VarRef)
	if !ok || strings.ToLower(v.Val) != "time" {
		return "", 0, 0, false
	}
	switch x := b.RHS.(type) {
	case *influxql.IntegerLiteral:
		return v.Val, b.Op, x.Val, true
	case *influxql.TimeLiteral:
		return v.Val, b.Op, x.Val.UnixNano(), true
	}
	return "", 0, 0, false
}

// toNode converts the REAL AST into the model's expression shape; leaves are collected in order
func toNode(e influxql.Expr, leaves *[]influxql.Expr) *Node {
	switch x := e.(type) {
	case *influxql.ParenExpr:
		return &Node{Op: "paren", L: toNode(x.Expr, leaves)}
	case *influxql.BinaryExpr:
		if x.Op == influxql.AND {
			return &Node{Op: "and", L: toNode(x.LHS, leaves), R: toNode(x.RHS, leaves)}
		}
		if x.Op == influxql.OR {
			return &Node{Op: "or", L: toNode(x.LHS, leaves), R: toNode(x.RHS, leaves)}
		}
		if x.Op == influxql.EQ {
			if v, ok := x.LHS.(*influxql.VarRef); ok {
				if s, ok := x.RHS.(*influxql.StringLiteral); ok {
					*leaves = append(*leaves, e)
					return &Node{Op: "eqstr", ID: len(*leaves) - 1, K: v.Val, V: s.Val, S: e.String()}
				}
			}
		}
	}
	*leaves = append(*leaves, e)
	return &Node{Op: "other", ID: len(*leaves) - 1, S: e.String()}
}

func cmpInt(op influxql.Token, a, b int64) bool {
	switch op {
	case influxql.EQ:
		return a == b
	case influxql.NEQ:
		return a != b
	case influxql.LT:
		return a < b
	case influxql.LTE:
		return a <= b
	case influxql.GT:
		return a > b
	case influxql.GTE:
		return a >= b
	}
	return false
}

// truth of a leaf on a row: the repository's own expression evaluator, except time comparisons (compared as integers)
func evalLeaf(e influxql.Expr, m map[string]interface{}, ts int64) bool {
	if _, op, v, ok := isTimeLeaf(e); ok {
		return cmpInt(op, ts, v)
	}
	return influxql.EvalBool(e, m)
}

func evalNode(n *Node, leaf []bool) bool {
	switch n.Op {
	case "and":
		return evalNode(n.L, leaf) && evalNode(n.R, leaf)
	case "or":
		return evalNode(n.L, leaf) || evalNode(n.R, leaf)
	case "paren":
		return evalNode(n.L, leaf)
	}
	return leaf[n.ID]
}

func alignedStart(t int64, d int64) int64 {
	// Go's Truncate, recomputed independently: multiples of d counted from year 1
	const epochShiftSec = 62135596800
	x := new(big.Int).Add(big.NewInt(t), new(big.Int).Mul(big.NewInt(epochShiftSec), big.NewInt(1000000000)))
	m := new(big.Int).Mod(x, big.NewInt(d))
	return new(big.Int).Sub(big.NewInt(t), m).Int64()
}

