// C11 correspondence harness: drives the real routing code of the write path
// (coordinator.PointsWriter.updateShardGroupAndShardKey -> meta.Data.CreateShardGroup / group lookup,
// influx.Row.UnmarshalShardKeyByTag, meta.HashID, ShardGroupInfo.ShardFor / DestShard) and of the read path
// (meta.Data.ShardGroupsByTimeRange, ShardGroupInfo.TargetShards, getConditionTags) over generated catalogues,
// points and condition trees. Prints one JSON object per case. The DIRECT ORACLE of the property is applied here:
// every generated point that is routed and satisfies the query lies in a shard the read path consults, and every
// routed point lands in exactly one shard of a group whose half-open span contains its timestamp.
package main

import (
	"bufio"
	"encoding/json"
	"fmt"
	"math/big"
	"os"
	"sort"
	"strconv"
	"strings"
	"time"

	"github.com/openGemini/openGemini/coordinator"
	"github.com/openGemini/openGemini/lib/config"
	"github.com/openGemini/openGemini/lib/util/lifted/influx/influxql"
	"github.com/openGemini/openGemini/lib/util/lifted/influx/meta"
	proto2 "github.com/openGemini/openGemini/lib/util/lifted/influx/meta/proto"
	"github.com/openGemini/openGemini/lib/util/lifted/vm/protoparser/influx"
	"verifharness/internal/gen"
)

const dbName = "db0"
const rpName = "rp0"

// ---------------------------------------------------------------------------------------------
// JSON shapes

type Node struct {
	Op string `json:"op"` // and | or | paren | eqstr | other
	L  *Node  `json:"l,omitempty"`
	R  *Node  `json:"r,omitempty"`
	ID int    `json:"id"` // leaf id (eqstr, other)
	K  string `json:"k,omitempty"`
	V  string `json:"v"`
	S  string `json:"s,omitempty"` // text of the leaf (information only)
}

type Shard struct {
	ID  uint64 `json:"id"`
	Min string `json:"min"`
	Max string `json:"max"`
}

type Group struct {
	ID      uint64  `json:"id"`
	Start   string  `json:"start"` // decimal ns since the Unix epoch (may exceed int64)
	End     string  `json:"end"`
	Deleted bool    `json:"deleted"`
	Trunc   *string `json:"trunc"` // TruncatedAt or null
	Shards  []Shard `json:"shards"`
	Alive   []int   `json:"alive"`
	MstIdx  []int   `json:"mstidx"` // per-measurement shard index list, null when InitNumOfShards == 0
	Born    int     `json:"born"`   // index of the point whose routing created the group, -1 = existed before
}

type Point struct {
	Tags  [][2]string `json:"tags"`
	Time  int64       `json:"time"`
	Leaf  []bool      `json:"leaf"` // truth of every leaf of the condition on this point
	Sat   bool        `json:"sat"`  // condition true on this point
	InTR  bool        `json:"intr"` // tmin <= time <= tmax
	Err   string      `json:"err"`  // "" | "noshardkey" | "dup" | "other:<text>"
	GID   uint64      `json:"gid"`
	SID   uint64      `json:"sid"`
	Hash  string      `json:"hash"`  // HashID of the hashed shard-key bytes (decimal), "" when not routed by hash
	HKey  string      `json:"hkey"`  // the hashed bytes
	Fresh bool        `json:"fresh"` // routed through a fresh ingestion context (no cached group)
}

type Target struct {
	GID  uint64   `json:"gid"`
	SIDs []uint64 `json:"sids"`
}

type Cfg struct {
	Mst     string   `json:"mst"`
	MstVer  string   `json:"mstver"` // name with version: the bytes that prefix the shard key
	TagKeys []string `json:"tagkeys"`
	SK      []string `json:"sk"` // null = no shard key
	Typ     string   `json:"typ"`
	Dur     int64    `json:"dur"`
	PtNum   int      `json:"ptnum"`
	InitNum int      `json:"initnum"`
	Offline []int    `json:"offline"`
}

type Case struct {
	N        int           `json:"n"`
	Label    string        `json:"label"` // parser | parenfree
	CondText string        `json:"condtext"`
	Split    bool          `json:"split"` // condition went through influxql.ConditionExpr (time bounds moved to the range)
	Cfg      Cfg           `json:"cfg"`
	HasCond  bool          `json:"hascond"`
	Cond     *Node         `json:"cond"`
	NLeaf    int           `json:"nleaf"`
	Points   []Point       `json:"points"`
	Groups   []Group       `json:"groups"`
	CondTags [][][2]string `json:"condtags"` // null = unconstrained
	TMin     int64         `json:"tmin"`
	TMax     int64         `json:"tmax"`
	QGroups  []uint64      `json:"qgroups"`
	Targets  []Target      `json:"targets"`
	Oracle   []string      `json:"oracle"`
	Shape    []string      `json:"shape"` // features of the condition used by finding signatures
}

// ---------------------------------------------------------------------------------------------
// meta client over the real meta.Data

type mclient struct {
	data    *meta.Data
	offline map[int]bool
	born    map[uint64]int
	cur     int
}

func (m *mclient) Database(name string) (*meta.DatabaseInfo, error) { return m.data.Databases[name], nil }
func (m *mclient) RetentionPolicy(database, policy string) (*meta.RetentionPolicyInfo, error) {
	return m.data.RetentionPolicy(database, policy)
}

// mirrors metaclient.Client.CreateShardGroup: cached lookup, else the meta command, then lookup
func (m *mclient) CreateShardGroup(database, policy string, ts time.Time, version uint32, et config.EngineType) (*meta.ShardGroupInfo, error) {
	sg, tier, err := m.data.GetTierOfShardGroup(database, policy, ts, 0, et)
	if err != nil {
		return nil, err
	}
	if sg != nil {
		c := *sg
		return &c, nil
	}
	before := map[uint64]bool{}
	rpi, _ := m.data.RetentionPolicy(database, policy)
	for i := range rpi.ShardGroups {
		before[rpi.ShardGroups[i].ID] = true
	}
	if err := m.data.CreateShardGroup(database, policy, ts, tier, et, version); err != nil {
		return nil, err
	}
	for i := range rpi.ShardGroups {
		if !before[rpi.ShardGroups[i].ID] {
			m.born[rpi.ShardGroups[i].ID] = m.cur
		}
	}
	g := rpi.ShardGroupByTimestampAndEngineType(ts, et)
	if g == nil {
		return nil, nil
	}
	c := *g
	return &c, nil
}
func (m *mclient) DBPtView(database string) (meta.DBPtInfos, error) { return nil, nil }
func (m *mclient) Measurement(database, rp, mst string) (*meta.MeasurementInfo, error) {
	return m.data.Measurement(database, rp, mst)
}
func (m *mclient) UpdateSchema(database, rp, mst string, f []*proto2.FieldSchema) error { return nil }
func (m *mclient) CreateMeasurement(database, rp, mst string, sk *meta.ShardKeyInfo, n int32, ir *influxql.IndexRelation, et config.EngineType,
	c *meta.ColStoreInfo, s []*proto2.FieldSchema, o *meta.Options) (*meta.MeasurementInfo, error) {
	return nil, fmt.Errorf("not used")
}
func (m *mclient) GetAliveShards(database string, sgi *meta.ShardGroupInfo, isRead bool) []int {
	res := make([]int, 0, len(sgi.Shards))
	for i := range sgi.Shards {
		if len(sgi.Shards[i].Owners) > 0 && m.offline[int(sgi.Shards[i].Owners[0])] {
			continue
		}
		res = append(res, i)
	}
	return res
}
func (m *mclient) GetStreamInfos() map[string]*meta.StreamInfo                      { return nil }
func (m *mclient) GetDstStreamInfos(db, rp string, d *[]*meta.StreamInfo) bool       { return false }
func (m *mclient) DBRepGroups(database string) []meta.ReplicaGroup                   { return nil }
func (m *mclient) GetReplicaN(database string) (int, error)                          { return 1, nil }
func (m *mclient) UpdateSchemaByCmd(cmd *proto2.UpdateSchemaCommand) error           { return nil }
func (m *mclient) GetSgEndTime(d, r string, t time.Time, e config.EngineType) (int64, error) {
	return 0, nil
}

// ---------------------------------------------------------------------------------------------

func nsString(t time.Time) string {
	b := new(big.Int).Mul(big.NewInt(t.Unix()), big.NewInt(1000000000))
	b.Add(b, big.NewInt(int64(t.Nanosecond())))
	return b.String()
}

type world struct {
	cfg  Cfg
	data *meta.Data
	mc   *mclient
	mst  *meta.MeasurementInfo
	dbi  *meta.DatabaseInfo
	rpi  *meta.RetentionPolicyInfo
}

func newWorld(cfg Cfg) *world {
	w := &world{cfg: cfg}
	w.data = &meta.Data{Databases: map[string]*meta.DatabaseInfo{}, ClusterPtNum: uint32(cfg.PtNum), PtNumPerNode: uint32(cfg.PtNum)}
	w.dbi = &meta.DatabaseInfo{Name: dbName, DefaultRetentionPolicy: rpName, RetentionPolicies: map[string]*meta.RetentionPolicyInfo{}}
	w.rpi = &meta.RetentionPolicyInfo{Name: rpName, ReplicaN: 1, Duration: 0, ShardGroupDuration: time.Duration(cfg.Dur),
		IndexGroupDuration: time.Duration(cfg.Dur), Measurements: map[string]*meta.MeasurementInfo{}}
	w.dbi.RetentionPolicies[rpName] = w.rpi
	w.data.Databases[dbName] = w.dbi
	nameVer := influx.GetNameWithVersion(cfg.Mst, 0)
	w.mst = meta.NewMeasurementInfo(nameVer, cfg.Mst, config.TSSTORE, 1)
	for _, k := range cfg.TagKeys {
		w.mst.Schema.SetTyp(k, influx.Field_Type_Tag)
	}
	w.mst.Schema.SetTyp("usage", influx.Field_Type_Float)
	w.mst.Schema.SetTyp("cnt", influx.Field_Type_Int)
	w.mst.Schema.SetTyp("msg", influx.Field_Type_String)
	var sk []string
	if cfg.SK != nil {
		sk = append([]string{}, cfg.SK...)
	}
	w.mst.ShardKeys = []meta.ShardKeyInfo{{ShardKey: sk, Type: cfg.Typ, ShardGroup: 0}}
	w.mst.InitNumOfShards = int32(cfg.InitNum)
	w.mst.ShardIdexes = map[uint64][]int{}
	w.rpi.Measurements[nameVer] = w.mst
	w.mc = &mclient{data: w.data, offline: map[int]bool{}, born: map[uint64]int{}, cur: -1}
	for _, o := range cfg.Offline {
		w.mc.offline[o] = true
	}
	return w
}

// a hand-built group with key ranges (the state a range-sharded policy is in after resharding)
func (w *world) addRangeGroup(start time.Time, bounds []string) {
	w.data.MaxShardGroupID++
	sg := meta.ShardGroupInfo{ID: w.data.MaxShardGroupID, StartTime: start.UTC(), EndTime: start.Add(time.Duration(w.cfg.Dur)).UTC(), EngineType: config.TSSTORE}
	n := len(bounds) + 1
	for i := 0; i < n; i++ {
		w.data.MaxShardID++
		sh := meta.ShardInfo{ID: w.data.MaxShardID, Owners: []uint32{uint32(i % w.cfg.PtNum)}}
		if i > 0 {
			sh.Min = bounds[i-1]
		}
		if i < n-1 {
			sh.Max = bounds[i]
		}
		sg.Shards = append(sg.Shards, sh)
	}
	w.rpi.ShardGroups = append(w.rpi.ShardGroups, sg)
	sort.Sort(meta.ShardGroupInfos(w.rpi.ShardGroups))
	w.mc.born[sg.ID] = -1
}

func (w *world) snapshotGroups() []Group {
	var res []Group
	for i := range w.rpi.ShardGroups {
		sg := &w.rpi.ShardGroups[i]
		g := Group{ID: sg.ID, Start: nsString(sg.StartTime), End: nsString(sg.EndTime), Deleted: sg.Deleted(), Born: w.mc.born[sg.ID]}
		if sg.Truncated() {
			s := nsString(sg.TruncatedAt)
			g.Trunc = &s
		}
		for _, sh := range sg.Shards {
			g.Shards = append(g.Shards, Shard{sh.ID, sh.Min, sh.Max})
		}
		g.Alive = w.mc.GetAliveShards(dbName, sg, true)
		if w.mst.InitNumOfShards != 0 {
			g.MstIdx = append([]int{}, w.mst.ShardIdexes[sg.ID]...)
		}
		res = append(res, g)
	}
	return res
}

// ---------------------------------------------------------------------------------------------
// conditions

var valPool = []string{"a", "b", "c", "1", "2", "", "a,b", "x=y"}

type condGen struct {
	r    *gen.Rand
	cfg  *Cfg
	keys []string // tag keys usable in predicates (schema tags + one unknown)
}

func quote(s string) string { return "'" + strings.ReplaceAll(s, "'", "\\'") + "'" }

func (g *condGen) tagVal() string {
	if g.r.Chance(1, 12) {
		return gen.Pick(g.r, valPool)
	}
	return gen.Pick(g.r, valPool[:5])
}

// leaf returns the text of a leaf predicate
func (g *condGen) leaf(preferSK bool) string {
	r := g.r
	k := gen.Pick(r, g.keys)
	if preferSK && len(g.cfg.SK) > 0 && r.Chance(3, 4) {
		k = gen.Pick(r, g.cfg.SK)
	}
	qk := `"` + k + `"`
	switch c := r.Intn(20); {
	case c < 9:
		return qk + " = " + quote(g.tagVal())
	case c < 10:
		return qk + " != " + quote(g.tagVal())
	case c < 11:
		return qk + " =~ /^[ab1]/"
	case c < 12:
		return qk + " < " + quote(g.tagVal())
	case c < 13:
		return quote(g.tagVal()) + " = " + qk
	case c < 15:
		return "usage " + gen.Pick(r, []string{">", "<", ">=", "<=", "=", "!="}) + " " + gen.Pick(r, []string{"1", "1.5", "0", "2.5"})
	case c < 16:
		return "cnt " + gen.Pick(r, []string{">", "<", "=", "!="}) + " " + gen.Pick(r, []string{"1", "2", "3"})
	case c < 17:
		return "msg = " + quote(gen.Pick(r, []string{"x", "y", "a"}))
	case c < 18:
		return qk + " = " + "usage" // tag compared with a field reference
	default:
		return "" // time leaf, filled by caller
	}
}

type atree struct {
	op   string // and or paren leaf
	l, r *atree
	txt  string
}

func (g *condGen) tree(depth int, times []int64) *atree {
	r := g.r
	if depth <= 0 || r.Chance(1, 4) {
		t := g.leaf(true)
		if t == "" {
			t = "time " + gen.Pick(r, []string{">=", ">", "<", "<=", "="}) + " " + strconv.FormatInt(gen.Pick(r, times), 10)
		}
		return &atree{op: "leaf", txt: t}
	}
	switch c := r.Intn(10); {
	case c < 4:
		return &atree{op: "and", l: g.tree(depth-1, times), r: g.tree(depth-1, times)}
	case c < 8:
		return &atree{op: "or", l: g.tree(depth-1, times), r: g.tree(depth-1, times)}
	default:
		return &atree{op: "paren", l: g.tree(depth-1, times)}
	}
}

// text with the parentheses the grammar needs (OR under AND), so that ParseExpr yields a tree of the same meaning
func (t *atree) text(parentAnd bool) string {
	switch t.op {
	case "leaf":
		return t.txt
	case "paren":
		return "(" + t.l.text(false) + ")"
	case "and":
		return t.l.text(true) + " AND " + t.r.text(true)
	default:
		s := t.l.text(false) + " OR " + t.r.text(false)
		if parentAnd {
			return "(" + s + ")"
		}
		return s
	}
}

// paren-free AST: BinaryExpr nodes directly under each other, no ParenExpr anywhere (outside the parser's image when an
// OR sits under an AND)
func (t *atree) parenFree() (influxql.Expr, error) {
	switch t.op {
	case "leaf":
		return influxql.ParseExpr(t.txt)
	case "paren":
		return t.l.parenFree()
	}
	l, err := t.l.parenFree()
	if err != nil {
		return nil, err
	}
	r, err := t.r.parenFree()
	if err != nil {
		return nil, err
	}
	op := influxql.AND
	if t.op == "or" {
		op = influxql.OR
	}
	return &influxql.BinaryExpr{Op: influxql.Token(op), LHS: l, RHS: r}, nil
}

func isTimeLeaf(e influxql.Expr) (string, influxql.Token, int64, bool) {
	b, ok := e.(*influxql.BinaryExpr)
	if !ok {
		return "", 0, 0, false
	}
	v, ok := b.LHS.(*influxql.VarRef)
	if !ok || strings.ToLower(v.Val) != "time" {
		return "", 0, 0, false
	}
	switch x := b.RHS.(type) {
	case *influxql.IntegerLiteral:
		return v.Val, b.Op, x.Val, true
	case *influxql.TimeLiteral:
		return v.Val, b.Op, x.Val.UnixNano(), true
	}
	return "", 0, 0, false
}

// toNode converts the REAL AST into the model's expression shape; leaves are collected in order
func toNode(e influxql.Expr, leaves *[]influxql.Expr) *Node {
	switch x := e.(type) {
	case *influxql.ParenExpr:
		return &Node{Op: "paren", L: toNode(x.Expr, leaves)}
	case *influxql.BinaryExpr:
		if x.Op == influxql.AND {
			return &Node{Op: "and", L: toNode(x.LHS, leaves), R: toNode(x.RHS, leaves)}
		}
		if x.Op == influxql.OR {
			return &Node{Op: "or", L: toNode(x.LHS, leaves), R: toNode(x.RHS, leaves)}
		}
		if x.Op == influxql.EQ {
			if v, ok := x.LHS.(*influxql.VarRef); ok {
				if s, ok := x.RHS.(*influxql.StringLiteral); ok {
					*leaves = append(*leaves, e)
					return &Node{Op: "eqstr", ID: len(*leaves) - 1, K: v.Val, V: s.Val, S: e.String()}
				}
			}
		}
	}
	*leaves = append(*leaves, e)
	return &Node{Op: "other", ID: len(*leaves) - 1, S: e.String()}
}

func cmpInt(op influxql.Token, a, b int64) bool {
	switch op {
	case influxql.EQ:
		return a == b
	case influxql.NEQ:
		return a != b
	case influxql.LT:
		return a < b
	case influxql.LTE:
		return a <= b
	case influxql.GT:
		return a > b
	case influxql.GTE:
		return a >= b
	}
	return false
}

// truth of a leaf on a row: the repository's own expression evaluator, except time comparisons (compared as integers)
func evalLeaf(e influxql.Expr, m map[string]interface{}, ts int64) bool {
	if _, op, v, ok := isTimeLeaf(e); ok {
		return cmpInt(op, ts, v)
	}
	return influxql.EvalBool(e, m)
}

func evalNode(n *Node, leaf []bool) bool {
	switch n.Op {
	case "and":
		return evalNode(n.L, leaf) && evalNode(n.R, leaf)
	case "or":
		return evalNode(n.L, leaf) || evalNode(n.R, leaf)
	case "paren":
		return evalNode(n.L, leaf)
	}
	return leaf[n.ID]
}

// shape features for finding signatures: computed on the model-shaped tree with the schema
// constrained(n): the subtree yields a shard-key-tag constraint under the REPAIRED reading
func constrained(n *Node, cfg *Cfg) bool {
	switch n.Op {
	case "and":
		return constrained(n.L, cfg) || constrained(n.R, cfg)
	case "or":
		return constrained(n.L, cfg) && constrained(n.R, cfg)
	case "eqstr":
		if strings.ToLower(n.K) == "time" {
			return false
		}
		for _, k := range cfg.TagKeys {
			if k == n.K {
				return true
			}
		}
	}
	return false
}

// anyConstraint(n): the subtree contains some tag equality the CURRENT code would pick up
func anyConstraint(n *Node, cfg *Cfg) bool {
	switch n.Op {
	case "and", "or":
		return anyConstraint(n.L, cfg) || anyConstraint(n.R, cfg)
	case "eqstr":
		return constrained(n, cfg)
	}
	return false
}

func shapes(n *Node, cfg *Cfg, underAnd bool, out map[string]bool) {
	switch n.Op {
	case "or":
		cl, cr := constrained(n.L, cfg), constrained(n.R, cfg)
		al, ar := anyConstraint(n.L, cfg), anyConstraint(n.R, cfg)
		if (al || ar) && (!cl || !cr) {
			out["or-unconstrained-operand"] = true
		}
		if cl && cr {
			out["or-both-constrained"] = true
		}
		if underAnd {
			out["or-directly-under-and"] = true
		}
		shapes(n.L, cfg, false, out)
		shapes(n.R, cfg, false, out)
	case "and":
		shapes(n.L, cfg, true, out)
		shapes(n.R, cfg, true, out)
	case "paren":
		// getConditionTags does not look inside
	}
}

// ---------------------------------------------------------------------------------------------
// case generation

var tagUniverse = []string{"az", "dc", "host", "rack", "zone", "TIME"}

func alignedStart(t int64, d int64) int64 {
	// Go's Truncate, recomputed independently: multiples of d counted from year 1
	const epochShiftSec = 62135596800
	x := new(big.Int).Add(big.NewInt(t), new(big.Int).Mul(big.NewInt(epochShiftSec), big.NewInt(1000000000)))
	m := new(big.Int).Mod(x, big.NewInt(d))
	return new(big.Int).Sub(big.NewInt(t), m).Int64()
}

func genCfg(r *gen.Rand) Cfg {
	cfg := Cfg{Mst: gen.Pick(r, []string{"m", "cpu", "mem_1", "m,x"})}
	nk := r.Range(2, 5)
	perm := append([]string{}, tagUniverse...)
	for i := range perm {
		j := i + r.Intn(len(perm)-i)
		perm[i], perm[j] = perm[j], perm[i]
	}
	cfg.TagKeys = append([]string{}, perm[:nk]...)
	sort.Strings(cfg.TagKeys)
	nsk := []int{0, 1, 1, 1, 2, 2, 3}[r.Intn(7)]
	if nsk > nk {
		nsk = nk
	}
	if nsk > 0 {
		sk := append([]string{}, perm[:nsk]...)
		sort.Strings(sk)
		cfg.SK = sk
	}
	cfg.Typ = meta.HASH
	if r.Chance(1, 4) {
		cfg.Typ = meta.RANGE
	}
	h := int64(time.Hour)
	cfg.Dur = gen.Pick(r, []int64{h, 24 * h, 7 * 24 * h, 7 * 24 * h, int64(time.Minute), 37 * int64(time.Minute), 5 * h, 1000000007})
	cfg.PtNum = r.Range(1, 16)
	if r.Chance(1, 5) {
		cfg.PtNum = gen.Pick(r, []int{1, 2, 8, 16})
	}
	if cfg.Typ == meta.HASH && r.Chance(1, 6) {
		cfg.InitNum = r.Range(1, cfg.PtNum)
	}
	if cfg.Typ == meta.HASH && cfg.InitNum == 0 && cfg.PtNum > 2 && r.Chance(1, 6) {
		cfg.Offline = []int{r.Intn(cfg.PtNum)}
	}
	return cfg
}

func genTimes(r *gen.Rand, d int64) []int64 {
	base := int64(1700000000) * 1000000000
	var ts []int64
	b0 := alignedStart(base+int64(r.Intn(1000))*d, d)
	for _, k := range []int64{0, 1, 2} {
		b := b0 + k*d
		ts = append(ts, b, b-1, b+1, b+d/2)
	}
	ts = append(ts, 0, -1, 1, -d, d-1)
	return ts
}

func genPointTags(r *gen.Rand, cfg *Cfg, prefer map[string][]string) [][2]string {
	var tags [][2]string
	for _, k := range cfg.TagKeys {
		isSK := false
		for _, s := range cfg.SK {
			if s == k {
				isSK = true
			}
		}
		p := 4
		if isSK {
			p = 19
		}
		if !r.Chance(p, p+1) {
			continue
		}
		v := gen.Pick(r, valPool[:5])
		if vs := prefer[k]; len(vs) > 0 && r.Chance(2, 3) {
			v = gen.Pick(r, vs)
		}
		if v == "" {
			continue // the line protocol cannot carry an empty tag value
		}
		tags = append(tags, [2]string{k, v})
	}
	if len(tags) > 1 && r.Chance(1, 40) {
		i := r.Intn(len(tags) - 1)
		tags[i+1][0] = tags[i][0] // duplicate key (rejected by the write path)
	}
	return tags
}

func collectPrefer(n *Node, out map[string][]string) {
	if n == nil {
		return
	}
	if n.Op == "eqstr" {
		out[n.K] = append(out[n.K], n.V)
	}
	collectPrefer(n.L, out)
	collectPrefer(n.R, out)
}

type condSpec struct {
	label string
	expr  influxql.Expr // nil = no condition
	text  string
}

func runCase(n int, cfg Cfg, cs condSpec, pts []Point, tmin, tmax int64, split bool, pre func(w *world)) Case {
	cfg.MstVer = influx.GetNameWithVersion(cfg.Mst, 0)
	c := Case{N: n, Label: cs.label, CondText: cs.text, Cfg: cfg, TMin: tmin, TMax: tmax, Oracle: []string{}, Shape: []string{}}
	w := newWorld(cfg)
	if pre != nil {
		pre(w)
	}
	cond := cs.expr
	if cond != nil && split {
		// the query layer's own split of time bounds from the rest of the condition
		rest, tr, err := influxql.ConditionExpr(cond, &influxql.NowValuer{Now: time.Unix(1700000000, 0)})
		if err == nil {
			c.Split = true
			cond = rest
			if !tr.Min.IsZero() && tr.Min.UnixNano() > c.TMin {
				c.TMin = tr.Min.UnixNano()
			}
			if !tr.Max.IsZero() && tr.Max.UnixNano() < c.TMax {
				c.TMax = tr.Max.UnixNano()
			}
		}
	}
	var leaves []influxql.Expr
	if cond != nil {
		c.HasCond = true
		c.Cond = toNode(cond, &leaves)
		c.CondText = cond.String()
		sh := map[string]bool{}
		shapes(c.Cond, &cfg, false, sh)
		for k := range sh {
			c.Shape = append(c.Shape, k)
		}
		sort.Strings(c.Shape)
	}
	c.NLeaf = len(leaves)

	// ---- write side: route every point through the real PointsWriter step
	router := coordinator.VerifC11NewRouter(w.mc, w.dbi, w.mst)
	for i := range pts {
		p := &pts[i]
		w.mc.cur = i
		rt := router
		if p.Fresh {
			rt = coordinator.VerifC11NewRouter(w.mc, w.dbi, w.mst)
		} else {
			router.SetSameMst(i > 0)
		}
		row := influx.Row{Name: w.mst.Name, Timestamp: p.Time}
		for _, t := range p.Tags {
			row.Tags = append(row.Tags, influx.Tag{Key: t[0], Value: t[1]})
		}
		row.Fields = append(row.Fields, influx.Field{Key: "usage", NumValue: 1, Type: influx.Field_Type_Float})
		err, sh, perr := rt.Route(dbName, rpName, &row)
		switch {
		case err != nil && strings.Contains(err.Error(), "duplicate tag"):
			p.Err = "dup"
		case err != nil:
			p.Err = "other:" + err.Error()
		case perr != nil && perr == influx.ErrPointShouldHaveAllShardKey:
			p.Err = "noshardkey"
		case perr != nil:
			p.Err = "other:" + perr.Error()
		case sh == nil:
			p.Err = "other:nil shard"
		default:
			p.SID = sh.ID
			if cfg.Typ == meta.HASH {
				p.HKey = string(row.ShardKey)
				p.Hash = strconv.FormatUint(meta.HashID(row.ShardKey), 10)
			}
		}
		if p.Err == "" {
			// which group holds the shard; the statement: exactly one shard, in a group whose span contains t
			holders := 0
			ts := time.Unix(0, p.Time)
			for gi := range w.rpi.ShardGroups {
				sg := &w.rpi.ShardGroups[gi]
				for si := range sg.Shards {
					if sg.Shards[si].ID == p.SID {
						holders++
						p.GID = sg.ID
						if ts.Before(sg.StartTime) || !ts.Before(sg.EndTime) { // half-open span, checked independently of ShardGroupInfo.Contains
							c.Oracle = append(c.Oracle, fmt.Sprintf("route: point %d (t=%d) stored in shard %d of group %d whose span [%s,%s) does not contain t", i, p.Time, p.SID, sg.ID, nsString(sg.StartTime), nsString(sg.EndTime)))
						}
						if sg.Deleted() {
							c.Oracle = append(c.Oracle, fmt.Sprintf("route: point %d stored in shard %d of deleted group %d", i, p.SID, sg.ID))
						}
					}
				}
			}
			if holders != 1 {
				c.Oracle = append(c.Oracle, fmt.Sprintf("route: point %d: shard %d belongs to %d groups", i, p.SID, holders))
			}
		}
	}
	// determinism: identical (measurement, tags, time) and identical (shard key, group) give the same shard
	type rk struct {
		key string
		gid uint64
	}
	seen := map[rk]uint64{}
	for i := range pts {
		p := &pts[i]
		if p.Err != "" {
			continue
		}
		var sb strings.Builder
		if cfg.SK == nil {
			for _, t := range p.Tags {
				sb.WriteString("," + t[0] + "=" + t[1])
			}
		} else {
			m := map[string]string{}
			for _, t := range p.Tags {
				m[t[0]] = t[1]
			}
			for _, k := range cfg.SK {
				sb.WriteString("," + k + "=" + m[k])
			}
		}
		k := rk{sb.String(), p.GID}
		if prev, ok := seen[k]; ok && prev != p.SID {
			c.Oracle = append(c.Oracle, fmt.Sprintf("route: shard key %q in group %d went to shards %d and %d", k.key, p.GID, prev, p.SID))
		}
		seen[k] = p.SID
	}

	// ---- read side
	if cond != nil {
		w.mst.SchemaLock.RLock()
		c.CondTags = meta.VerifC11ConditionTags(cond, w.mst.Schema)
		w.mst.SchemaLock.RUnlock()
	}
	groups, err := w.data.ShardGroupsByTimeRange(dbName, rpName, time.Unix(0, c.TMin).UTC(), time.Unix(0, c.TMax).UTC())
	if err != nil {
		c.Oracle = append(c.Oracle, "ShardGroupsByTimeRange: "+err.Error())
	}
	targets := map[uint64]map[uint64]bool{}
	c.QGroups = []uint64{}
	c.Targets = []Target{}
	// coordinator.mapMstShards: database shard key wins, else the measurement's key for the FIRST group is kept
	var ski *meta.ShardKeyInfo
	for i := range groups {
		if ski == nil {
			ski = w.mst.GetShardKey(groups[i].ID)
		}
		alive := w.mc.GetAliveShards(dbName, &groups[i], true)
		shs := groups[i].TargetShards(w.mst, ski, cond, alive)
		t := Target{GID: groups[i].ID, SIDs: []uint64{}}
		targets[groups[i].ID] = map[uint64]bool{}
		for _, s := range shs {
			t.SIDs = append(t.SIDs, s.ID)
			targets[groups[i].ID][s.ID] = true
		}
		c.QGroups = append(c.QGroups, groups[i].ID)
		c.Targets = append(c.Targets, t)
	}

	// ---- rows against the query: the DIRECT ORACLE
	for i := range pts {
		p := &pts[i]
		m := map[string]interface{}{}
		for _, k := range cfg.TagKeys {
			m[k] = ""
		}
		seenKey := map[string]bool{}
		for _, t := range p.Tags {
			if !seenKey[t[0]] {
				m[t[0]] = t[1]
				seenKey[t[0]] = true
			}
		}
		// field values are a function of the timestamp
		m["usage"] = float64((p.Time%5+5)%5) * 0.75
		m["cnt"] = int64((p.Time%3 + 3) % 3 + 1)
		m["msg"] = []string{"x", "y", "a"}[int((p.Time%3+3)%3)]
		p.Leaf = make([]bool, len(leaves))
		for li, le := range leaves {
			p.Leaf[li] = evalLeaf(le, m, p.Time)
		}
		p.Sat = true
		if c.Cond != nil {
			p.Sat = evalNode(c.Cond, p.Leaf)
		}
		p.InTR = c.TMin <= p.Time && p.Time <= c.TMax
		if p.Err == "" && p.Sat && p.InTR {
			tg, ok := targets[p.GID]
			if !ok {
				c.Oracle = append(c.Oracle, fmt.Sprintf("prune: point %d (t=%d, tags %v) satisfies the query but its group %d is not consulted", i, p.Time, p.Tags, p.GID))
			} else if !tg[p.SID] {
				c.Oracle = append(c.Oracle, fmt.Sprintf("prune: point %d (t=%d, tags %v) satisfies the query but its shard %d of group %d is not consulted", i, p.Time, p.Tags, p.SID, p.GID))
			}
		}
	}
	c.Points = pts
	c.Groups = w.snapshotGroups()
	return c
}

func genCase(r *gen.Rand, n int) Case {
	cfg := genCfg(r)
	times := genTimes(r, cfg.Dur)
	g := &condGen{r: r, cfg: &cfg}
	g.keys = append(append([]string{}, cfg.TagKeys...), "nokey")
	// condition
	var cs condSpec
	for tries := 0; ; tries++ {
		if r.Chance(1, 25) {
			cs = condSpec{label: "parser"}
			break
		}
		t := g.tree(r.Range(1, 3), times)
		if r.Chance(1, 4) {
			e, err := t.parenFree()
			if err == nil {
				cs = condSpec{label: "parenfree", expr: e, text: e.String()}
				break
			}
		} else {
			txt := t.text(false)
			e, err := influxql.ParseExpr(txt)
			if err == nil {
				cs = condSpec{label: "parser", expr: e, text: txt}
				break
			}
		}
		if tries > 20 {
			cs = condSpec{label: "parser"}
			break
		}
	}
	prefer := map[string][]string{}
	if cs.expr != nil {
		var tmp []influxql.Expr
		collectPrefer(toNode(cs.expr, &tmp), prefer)
	}
	np := r.Range(5, 10)
	pts := make([]Point, np)
	for i := range pts {
		pts[i].Tags = genPointTags(r, &cfg, prefer)
		pts[i].Time = gen.Pick(r, times)
		if r.Chance(1, 30) {
			pts[i].Time = gen.Pick(r, []int64{-9223372036854775806, 9223372036854775806, 9223372036854775806 - cfg.Dur})
		}
		pts[i].Fresh = r.Chance(1, 4)
		if i > 0 && r.Chance(1, 6) { // same series again, other time
			pts[i].Tags = pts[r.Intn(i)].Tags
		}
	}
	tmin, tmax := int64(-9223372036854775806), int64(9223372036854775806)
	if r.Chance(1, 2) {
		a, b := gen.Pick(r, times), gen.Pick(r, times)
		if a > b {
			a, b = b, a
		}
		tmin, tmax = a, b
	}
	var pre func(w *world)
	if cfg.Typ == meta.RANGE {
		// range sharding: a first group with key bounds, as left behind by resharding
		nb := r.Range(0, 4)
		var bounds []string
		for i := 0; i < nb; i++ {
			b := cfg.Mst
			if len(cfg.SK) > 0 && r.Chance(4, 5) {
				b += "," + cfg.SK[0] + "=" + gen.Pick(r, valPool[:5])
				if len(cfg.SK) > 1 && r.Chance(1, 2) {
					b += "," + cfg.SK[1] + "=" + gen.Pick(r, valPool[:5])
				}
			} else if r.Chance(1, 2) {
				b += "," + gen.Pick(r, cfg.TagKeys) + "=" + gen.Pick(r, valPool[:5])
			}
			if r.Chance(1, 6) {
				b = b[:r.Intn(len(b)+1)]
			}
			bounds = append(bounds, b)
		}
		sort.Strings(bounds)
		var ub []string
		for i, b := range bounds {
			if b != "" && (i == 0 || bounds[i-1] != b) {
				ub = append(ub, b)
			}
		}
		st := alignedStart(times[0], cfg.Dur)
		pre = func(w *world) { w.addRangeGroup(time.Unix(0, st).UTC(), ub) }
	} else if r.Chance(1, 8) {
		// a deleted or truncated group left in the catalogue
		st := alignedStart(times[0], cfg.Dur)
		del := r.Bool()
		pre = func(w *world) {
			w.mc.cur = -1
			_, _ = w.mc.CreateShardGroup(dbName, rpName, time.Unix(0, st), 0, config.TSSTORE)
			sg := &w.rpi.ShardGroups[0]
			if del {
				sg.DeletedAt = time.Unix(1, 0).UTC()
			} else {
				sg.TruncatedAt = time.Unix(0, st+cfg.Dur/2).UTC()
			}
		}
	}
	return runCase(n, cfg, cs, pts, tmin, tmax, r.Chance(1, 3), pre)
}

// the design's witnesses, always run first
func witnessCases() []Case {
	var res []Case
	mk := func(n int, cfg Cfg, label, text string, e influxql.Expr, tagsets [][][2]string) {
		base := alignedStart(int64(1700000000)*1000000000, cfg.Dur)
		var pts []Point
		for i, ts := range tagsets {
			pts = append(pts, Point{Tags: ts, Time: base + int64(i)})
		}
		res = append(res, runCase(n, cfg, condSpec{label: label, expr: e, text: text}, pts, -9223372036854775806, 9223372036854775806, false, nil))
	}
	h := int64(time.Hour)
	// W1: host='a' OR usage > 1, shard key host, 8 shards
	{
		txt := `host = 'a' OR usage > 1`
		e, _ := influxql.ParseExpr(txt)
		var ts [][][2]string
		for _, v := range []string{"a", "b", "c", "d", "e", "f", "g", "h", "i", "j", "k", "l"} {
			ts = append(ts, [][2]string{{"host", v}})
		}
		mk(-1, Cfg{Mst: "cpu", TagKeys: []string{"dc", "host"}, SK: []string{"host"}, Typ: meta.HASH, Dur: h, PtNum: 8}, "parser", txt, e, ts)
	}
	// W2: paren-free AND(host=h, OR(dc=x, dc=y)), shard key (dc, host); several value choices so that the two
	// alternatives fall into different shards for at least one of them whatever the hash
	for wi, vs := range [][3]string{{"a", "1", "2"}, {"b", "2", "3"}, {"c", "1", "3"}, {"a", "3", "4"}} {
		l, _ := influxql.ParseExpr(`host = '` + vs[0] + `'`)
		a, _ := influxql.ParseExpr(`dc = '` + vs[1] + `'`)
		b, _ := influxql.ParseExpr(`dc = '` + vs[2] + `'`)
		e := &influxql.BinaryExpr{Op: influxql.AND, LHS: l, RHS: &influxql.BinaryExpr{Op: influxql.OR, LHS: a, RHS: b}}
		ts := [][][2]string{{{"dc", vs[1]}, {"host", vs[0]}}, {{"dc", vs[2]}, {"host", vs[0]}}, {{"dc", vs[2]}, {"host", "z"}}, {{"dc", "9"}, {"host", vs[0]}}}
		mk(-2, Cfg{Mst: "cpu", TagKeys: []string{"dc", "host"}, SK: []string{"dc", "host"}, Typ: meta.HASH, Dur: h, PtNum: 8}, "parenfree", e.String(), e, ts)
		if wi == 0 {
			// W3: the same through the parser: the parenthesised OR arrives as a ParenExpr
			txt := `host = 'a' AND (dc = '1' OR dc = '2')`
			e2, _ := influxql.ParseExpr(txt)
			mk(-3, Cfg{Mst: "cpu", TagKeys: []string{"dc", "host"}, SK: []string{"dc", "host"}, Typ: meta.HASH, Dur: h, PtNum: 8}, "parser", txt, e2, ts)
		}
	}
	// W4: two alternatives for the one shard-key tag
	{
		txt := `host = 'a' OR host = 'b' OR host = 'c'`
		e, _ := influxql.ParseExpr(txt)
		var ts [][][2]string
		for _, v := range []string{"a", "b", "c", "d", "e", "f"} {
			ts = append(ts, [][2]string{{"host", v}})
		}
		mk(-4, Cfg{Mst: "cpu", TagKeys: []string{"dc", "host"}, SK: []string{"host"}, Typ: meta.HASH, Dur: h, PtNum: 16}, "parser", txt, e, ts)
	}
	return res
}

func main() {
	n := 400
	if gen.Tier() == "thorough" {
		n = 8000
	}
	if len(os.Args) > 1 && os.Args[1] == "replay" {
		replay(os.Args[2])
		return
	}
	if len(os.Args) > 1 {
		n, _ = strconv.Atoi(os.Args[1])
	}
	out := bufio.NewWriterSize(os.Stdout, 1<<20)
	defer out.Flush()
	enc := json.NewEncoder(out)
	for _, c := range witnessCases() {
		_ = enc.Encode(c)
	}
	r := gen.FromEnv(11)
	for i := 0; i < n; i++ {
		_ = enc.Encode(genCase(r.Fork(), i))
	}
}

// replay: re-run one recorded case (its configuration, condition text/label, points, time range) on the implementation
func replay(path string) {
	b, err := os.ReadFile(path)
	if err != nil {
		fmt.Fprintln(os.Stderr, err)
		os.Exit(2)
	}
	var wrap struct {
		Case Case `json:"case"`
	}
	if err := json.Unmarshal(b, &wrap); err != nil {
		fmt.Fprintln(os.Stderr, err)
		os.Exit(2)
	}
	c := wrap.Case
	var e influxql.Expr
	if c.HasCond {
		e = fromNode(c.Cond)
	}
	pts := make([]Point, len(c.Points))
	for i, p := range c.Points {
		pts[i] = Point{Tags: p.Tags, Time: p.Time, Fresh: p.Fresh}
	}
	var pre func(w *world)
	var preGroups []Group
	for _, g := range c.Groups {
		if g.Born < 0 {
			preGroups = append(preGroups, g)
		}
	}
	if len(preGroups) > 0 {
		pre = func(w *world) {
			for _, g := range preGroups {
				st, _ := strconv.ParseInt(g.Start, 10, 64)
				if c.Cfg.Typ == meta.RANGE {
					var bounds []string
					for i := 0; i+1 < len(g.Shards); i++ {
						bounds = append(bounds, g.Shards[i].Max)
					}
					w.addRangeGroup(time.Unix(0, st).UTC(), bounds)
				} else {
					_, _ = w.mc.CreateShardGroup(dbName, rpName, time.Unix(0, st), 0, config.TSSTORE)
					sg := &w.rpi.ShardGroups[len(w.rpi.ShardGroups)-1]
					if g.Deleted {
						sg.DeletedAt = time.Unix(1, 0).UTC()
					}
					if g.Trunc != nil {
						tr, _ := strconv.ParseInt(*g.Trunc, 10, 64)
						sg.TruncatedAt = time.Unix(0, tr).UTC()
					}
				}
			}
		}
	}
	res := runCase(c.N, c.Cfg, condSpec{label: c.Label, expr: e, text: c.CondText}, pts, c.TMin, c.TMax, false, pre)
	gen.Emit(res)
}

// fromNode rebuilds the AST from the recorded tree (leaf texts are re-parsed)
func fromNode(n *Node) influxql.Expr {
	switch n.Op {
	case "and":
		return &influxql.BinaryExpr{Op: influxql.AND, LHS: fromNode(n.L), RHS: fromNode(n.R)}
	case "or":
		return &influxql.BinaryExpr{Op: influxql.OR, LHS: fromNode(n.L), RHS: fromNode(n.R)}
	case "paren":
		return &influxql.ParenExpr{Expr: fromNode(n.L)}
	}
	e, err := influxql.ParseExpr(n.S)
	if err != nil {
		panic(err)
	}
	return e
}
