package main

// File-level metadata of data files holding SEVERAL series: the series are written in id order by the REAL MsBuilder
// (under any chunk-meta-compress-mode, with small meta-index blocks), their time ranges placed so that later series
// extend the file's range on the left, on the right, on both sides or not at all. The file is reopened and asked the way
// queries ask it. Direct oracle: the trailer range is the hull of all rows; the meta-index entries partition the series in
// order, each with the id of its first series, its count and the hull of its series; and NO stored row is denied: for the
// first and last row of every series (and query ranges that only touch the file's edge rows) ContainsByTime,
// ContainsValue, Contains, MetaIndex(id, range) -> ChunkMeta -> the segment whose range holds the time -> ReadAt find the row.

import (
	"fmt"
	"math"
	"os"
	"path/filepath"

	"github.com/openGemini/openGemini/engine/immutable"
	"github.com/openGemini/openGemini/lib/fileops"
	"github.com/openGemini/openGemini/lib/record"
	"github.com/openGemini/openGemini/lib/util"
	"github.com/openGemini/openGemini/lib/util/lifted/vm/protoparser/influx"
	"verifharness/internal/gen"
)

type MFJ struct {
	MetaCount int        `json:"meta_count"`        // chunk metas per meta-index block asked for (0 = store default)
	Chunks    [][2]int64 `json:"chunks"`            // expected (first, last) row time of every series, file order
	Trailer   [2]int64   `json:"trailer"`           // real trailer minTime, maxTime
	Blocks    [][3]int64 `json:"blocks"`            // real meta-index entries: count, minTime, maxTime
	NLook     int        `json:"nlook"`             // row lookups done through the real reader
}

func genMFile(r *gen.Rand, c *Case) {
	c.K = "mfile"
	c.Lim = 8
	c.CMode = r.Intn(immutable.ChunkMetaCompressEnd)
	ns := []int{2, 3, 4, 6, r.Range(2, 12), r.Range(17, 40), r.Range(17, 40)}[r.Intn(7)]
	mf := &MFJ{MetaCount: []int{0, 2, 3, 5}[r.Intn(4)]}
	c.MF = mf
	shape := []string{"left-grow", "right-grow", "both-grow", "nested", "random", "disjoint-asc", "disjoint-desc", "same"}[r.Intn(8)]
	c.Shape = fmt.Sprintf("%s/series=%d/cmode=%d/block=%d", shape, ns, c.CMode, mf.MetaCount)
	base := int64(1600000000000000000) + int64(r.Intn(1000000))
	if r.Chance(1, 8) {
		base = -base // before 1970
	}
	unit := []int64{1, 1000, 1000000000, 7, 1000003}[r.Intn(5)]
	id := uint64(r.Range(1, 1000))
	lo, hi := int64(0), int64(20) // in units, relative to base
	for s := 0; s < ns; s++ {
		var a, b int64 // this series' first and last time in units
		w := int64(r.Range(0, 30))
		switch shape {
		case "left-grow":
			lo -= int64(r.Range(1, 50))
			a, b = lo, lo+w
		case "right-grow":
			hi += int64(r.Range(1, 50))
			a, b = hi-w, hi
		case "both-grow":
			if s%2 == 0 {
				lo -= int64(r.Range(1, 50))
				a, b = lo, lo+w
			} else {
				hi += int64(r.Range(1, 50))
				a, b = hi-w, hi
			}
			if r.Chance(1, 4) {
				lo, hi = lo-int64(r.Range(1, 9)), hi+int64(r.Range(1, 9))
				a, b = lo, hi
			}
		case "nested":
			if s == 0 {
				a, b = -1000, 1000
			} else {
				a = int64(r.Range(-1000, 1000))
				b = a + int64(r.Range(0, int(1000-a)))
			}
		case "disjoint-asc":
			a = hi + int64(r.Range(1, 20))
			b = a + w
			hi = b
		case "disjoint-desc":
			b = lo - int64(r.Range(1, 20))
			a = b - w
			lo = a
		case "same":
			a, b = 5, 5+int64(ns)
		default:
			a = int64(r.Range(-2000, 2000))
			b = a + w
		}
		n := 1
		if b > a {
			n = r.Range(2, int(min64(b-a+1, 20)))
		}
		se := SeriesIn{ID: id}
		id += uint64(r.Range(1, 1<<uint(r.Range(1, 20))))
		// n strictly increasing times from a to b (units)
		pts := map[int64]bool{a: true, b: true}
		for len(pts) < n {
			pts[a+int64(r.Uint64()%uint64(b-a+1))] = true
		}
		for u := a; u <= b && len(se.Times) < n; u++ {
			if pts[u] {
				se.Times = append(se.Times, uint64(base+u*unit))
			}
		}
		col := ColIn{T: "int", Nulls: make([]int, len(se.Times))}
		for range se.Times {
			col.Vals = append(col.Vals, uint64(int64(r.Intn(2000)-1000)))
		}
		se.Cols = []ColIn{col}
		c.Series = append(c.Series, se)
	}
}

func min64(a, b int64) int64 {
	if a < b {
		return a
	}
	return b
}

func max64(a, b int64) int64 {
	if a > b {
		return a
	}
	return b
}

func runMFile(c *Case) {
	walInit()
	c.Mode = -1
	mf := c.MF
	if mf == nil {
		mf = &MFJ{}
		c.MF = mf
	}
	mf.Chunks, mf.Blocks, mf.NLook = nil, nil, 0
	immutable.SetChunkMetaCompressMode(c.CMode)
	defer immutable.SetChunkMetaCompressMode(immutable.ChunkMetaCompressNone)
	dir := filepath.Join(walDir, "tssp")
	_ = os.MkdirAll(dir, 0750)
	fileSeq++
	var ids []uint64
	var recs []*record.Record
	gmin, gmax := int64(math.MaxInt64), int64(math.MinInt64)
	for _, se := range c.Series {
		rec, _ := buildRecord(se.Cols, se.Times)
		ids, recs = append(ids, se.ID), append(recs, rec)
		a, b := int64(se.Times[0]), int64(se.Times[len(se.Times)-1])
		mf.Chunks = append(mf.Chunks, [2]int64{a, b})
		gmin, gmax = min64(gmin, a), max64(gmax, b)
	}
	var path string
	var err error
	c.Panic = protect(func() { path, err = immutable.VerifWriteTSSPOpt(dir, fileSeq, ids, recs, c.Lim, mf.MetaCount) })
	if c.Panic != "" {
		c.Oracle = "encode-panic"
		return
	}
	if err != nil {
		c.Oracle, c.EncErr = "encode-error", err.Error()
		return
	}
	defer os.Remove(path)
	fail := func(f string, a ...any) {
		if c.Oracle == "" {
			c.Oracle, c.Bad = "roundtrip-differs", fmt.Sprintf(f, a...)
		}
	}
	c.Panic = protect(func() {
		lock := ""
		f, err := immutable.OpenTSSPFile(path, &lock, true)
		if err != nil {
			c.Oracle, c.EncErr = "decode-error", err.Error()
			return
		}
		defer func() { _ = f.Close() }()
		// 1. trailer range
		tmin, tmax, err := f.MinMaxTime()
		if err != nil {
			c.Oracle, c.EncErr = "decode-error", err.Error()
			return
		}
		mf.Trailer = [2]int64{tmin, tmax}
		if tmin != gmin || tmax != gmax {
			fail("trailer time range [%d %d], rows span [%d %d]", tmin, tmax, gmin, gmax)
		}
		// 2. meta-index entries partition the series
		n := int(f.MetaIndexItemNum())
		blockOf := make([]int, len(ids))
		at := 0
		for i := 0; i < n; i++ {
			mi, err := f.MetaIndexAt(i)
			if err != nil {
				c.Oracle, c.EncErr = "decode-error", err.Error()
				return
			}
			id, mn, mx, _, cnt, _ := immutable.VerifMetaIndexFields(mi)
			mf.Blocks = append(mf.Blocks, [3]int64{int64(cnt), mn, mx})
			if cnt == 0 || at+int(cnt) > len(ids) {
				fail("meta-index entry %d: count %d at series %d of %d", i, cnt, at, len(ids))
				return
			}
			bmin, bmax := int64(math.MaxInt64), int64(math.MinInt64)
			for s := at; s < at+int(cnt); s++ {
				bmin, bmax = min64(bmin, mf.Chunks[s][0]), max64(bmax, mf.Chunks[s][1])
				blockOf[s] = i
			}
			if id != ids[at] || mn != bmin || mx != bmax {
				fail("meta-index entry %d: id %d range [%d %d], its %d series start with id %d and span [%d %d]", i, id, mn, mx, cnt, ids[at], bmin, bmax)
			}
			at += int(cnt)
		}
		if at != len(ids) {
			fail("meta-index entries cover %d series of %d", at, len(ids))
			return
		}
		// 3. no stored row is denied
		look := func(s int, t int64, q util.TimeRange) {
			mf.NLook++
			id := ids[s]
			if ok, err := f.ContainsByTime(q); err != nil || !ok {
				fail("ContainsByTime(%v) = %v %v denies the row of series %d at %d", q, ok, err, id, t)
			}
			if ok, err := f.ContainsValue(id, q); err != nil || !ok {
				fail("ContainsValue(%d, %v) = %v %v denies the row at %d", id, q, ok, err, t)
			}
			if ok, err := f.Contains(id); err != nil || !ok {
				fail("Contains(%d) = %v %v", id, ok, err)
			}
			idx, mi, err := f.MetaIndex(id, q)
			if err != nil || mi == nil {
				fail("MetaIndex(%d, %v) = %d nil=%v %v denies the row at %d", id, q, idx, mi == nil, err, t)
				return
			}
			if idx != blockOf[s] {
				fail("MetaIndex(%d, %v) = entry %d, the series is in entry %d", id, q, idx, blockOf[s])
				return
			}
			_, _, _, off, cnt, size := immutable.VerifMetaIndexFields(mi)
			cm, err := f.ChunkMeta(id, off, size, cnt, idx, nil, fileops.IO_PRIORITY_ULTRA_HIGH)
			if err != nil || cm == nil {
				fail("ChunkMeta(%d) in entry %d: nil=%v %v", id, idx, cm == nil, err)
				return
			}
			sid, ranges := immutable.VerifChunkMetaRanges(cm)
			seg := -1
			for j, rg := range ranges {
				if rg[0] <= t && t <= rg[1] {
					seg = j
					break
				}
			}
			if sid != id || seg < 0 {
				fail("chunk meta of series %d (sid %d): no segment range of %v holds the row at %d", id, sid, ranges, t)
				return
			}
			schema := record.Schemas{record.Field{Type: influx.Field_Type_Int, Name: "f_int"}, record.Field{Type: influx.Field_Type_Int, Name: record.TimeField}}
			rec, err := f.ReadAt(cm, seg, record.NewRecordBuilder(schema), immutable.NewReadContext(true), fileops.IO_PRIORITY_ULTRA_HIGH)
			if err != nil || rec == nil {
				fail("ReadAt(series %d, segment %d): %v", id, seg, err)
				return
			}
			found := false
			for _, x := range rec.Times() {
				found = found || x == t
			}
			if !found {
				fail("segment %d of series %d read back without the row at %d", seg, id, t)
			}
		}
		for s, se := range c.Series {
			a, b := int64(se.Times[0]), int64(se.Times[len(se.Times)-1])
			look(s, a, util.TimeRange{Min: a, Max: a})
			look(s, b, util.TimeRange{Min: b, Max: b})
			if a == gmin {
				look(s, a, util.TimeRange{Min: a - 5, Max: a}) // only the file's earliest row qualifies
			}
			if b == gmax {
				look(s, b, util.TimeRange{Min: b, Max: b + 5}) // only the file's latest row qualifies
			}
		}
	})
	if c.Panic != "" && c.Oracle == "" {
		c.Oracle = "decode-panic"
	}
}
