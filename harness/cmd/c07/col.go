package main

// Column / segment layer: one record (int, float, bool, string columns + time) is encoded by the REAL chunk builder
// (TsChunkDataImp.EncodeChunk -> ColumnBuilder.EncodeColumn: segment splitting, one-row mode, column header with null
// bitmap, block coders, chunk meta) through the build-tag hook, and every segment is decoded with the functions the
// readers use (decodeColumnData / appendTimeColumnData). Direct oracle: every row of every segment comes back with the
// same null flag and the same value bit for bit; segment time ranges are exact; chunk meta survives marshal/unmarshal.

import (
	"encoding/binary"
	"encoding/hex"
	"fmt"
	"math"

	"github.com/openGemini/openGemini/engine/immutable"
	"github.com/openGemini/openGemini/lib/record"
	"github.com/openGemini/openGemini/lib/util/lifted/vm/protoparser/influx"
	"verifharness/internal/gen"
)

type CMColJ struct {
	N   string      `json:"n"`
	Ty  int         `json:"ty"`
	Pre string      `json:"pre"`
	Ent [][2]uint64 `json:"ent"`
}
type CMJ struct {
	Hex      string      `json:"hex"`
	Sid      uint64      `json:"sid"`
	Off      uint64      `json:"off"`
	Size     uint32      `json:"size"`
	ChunkLen int         `json:"chunklen"`
	Trs      [][2]uint64 `json:"trs"`
	Cols     []CMColJ    `json:"cols"`
}

// chunk meta as marshalled under chunk-meta-compress-mode = self
type CMSJ struct {
	Hex  string   `json:"hex"`
	Dict []string `json:"dict"` // the column-name dictionary (hex), index order
	K    int      `json:"k"`    // scale index byte of the time-range list, read from the real bytes
	Idxs []int    `json:"idxs"` // dictionary index of every column
	CM   *CMJ     `json:"cm"`   // the chunk meta field by field (statistics blocks as written under mode self)
}

type ColIn struct {
	T     string   `json:"t"`              // int float bool string
	Nulls []int    `json:"nulls"`          // 1 = null, per row
	Vals  []uint64 `json:"vals,omitempty"` // per row (0 for null); bool 0/1
	Strs  []string `json:"strs,omitempty"` // per row, hex ("" for null and for the empty string)
}

func genNulls(r *gen.Rand, n, lim int) []int {
	nl := make([]int, n)
	switch r.Intn(9) {
	case 0, 1: // no null
	case 2:
		for i := range nl {
			nl[i] = 1
		}
	case 3:
		for i := range nl {
			nl[i] = i % 2
		}
	case 4:
		for i := range nl {
			nl[i] = r.Intn(2)
		}
	case 5: // a single null somewhere
		nl[r.Intn(n)] = 1
	case 6: // a single value somewhere
		for i := range nl {
			nl[i] = 1
		}
		nl[r.Intn(n)] = 0
	case 7: // the last segment entirely null / the first entirely null
		for i := range nl {
			if (i/lim == (n-1)/lim) == r.Bool() {
				nl[i] = 1
			}
		}
	default: // sparse
		for i := range nl {
			if r.Chance(1, 9) {
				nl[i] = 1
			}
		}
	}
	return nl
}

func genCol(r *gen.Rand, c *Case) {
	c.K = "col"
	lim := []int{8, 8, 16, 24}[r.Intn(4)]
	n := []int{1, 1, 2, 3, lim - 1, lim, lim + 1, lim + 2, 2 * lim, 2*lim + 1, 3*lim - 1, r.Range(1, 3*lim)}[r.Intn(12)]
	if r.Chance(1, 25) {
		lim = 1000
		n = []int{999, 1000, 1001, 2001}[r.Intn(4)]
	}
	c.Lim, c.Typ = lim, n
	c.Shape = fmt.Sprintf("rows=%s", map[bool]string{true: "1", false: "n"}[n == 1])
	if n%lim == 1 && n > 1 {
		c.Shape = "one-row-tail"
	}
	strs := []string{"", "", "x", "0123456789abcde", "0123456789abcdef", "hello world, this is longer than sixteen bytes", "\x00", "\xff\xfe"}
	for _, t := range []string{"int", "float", "bool", "string"} {
		col := ColIn{T: t, Nulls: genNulls(r, n, lim)}
		constant := r.Chance(1, 4)
		for i := 0; i < n; i++ {
			switch t {
			case "int":
				v := uint64(r.Int64Boundary())
				if constant {
					v = 7
				}
				col.Vals = append(col.Vals, v*uint64(1-col.Nulls[i]))
			case "float":
				v := special(r)
				if r.Bool() {
					v = math.Float64bits(float64(r.Intn(1000)) / 4)
				}
				if constant {
					v = math.Float64bits(2.5)
				}
				col.Vals = append(col.Vals, v*uint64(1-col.Nulls[i]))
			case "bool":
				col.Vals = append(col.Vals, (r.Uint64()&1)*uint64(1-col.Nulls[i]))
			default:
				s := strs[r.Intn(len(strs))]
				if constant {
					s = ""
				}
				if col.Nulls[i] == 1 {
					s = ""
				}
				col.Strs = append(col.Strs, hex.EncodeToString([]byte(s)))
			}
		}
		c.Cols = append(c.Cols, col)
	}
	t0 := uint64(1600000000000000000)
	step := uint64([]int{1, 1000, 1000000000, 7}[r.Intn(4)])
	for i := 0; i < n; i++ { // strictly increasing, as in a sorted de-duplicated chunk
		c.Vals = append(c.Vals, t0)
		t0 += step + uint64(r.Intn(2))*uint64(r.Intn(5))
	}
}

func runCol(c *Case) {
	c.Mode = -1
	n, lim := c.Typ, c.Lim
	schema := record.Schemas{}
	for _, col := range c.Cols {
		ty := map[string]int{"int": influx.Field_Type_Int, "float": influx.Field_Type_Float, "bool": influx.Field_Type_Boolean, "string": influx.Field_Type_String}[col.T]
		schema = append(schema, record.Field{Type: ty, Name: "c_" + col.T})
	}
	schema = append(schema, record.Field{Type: influx.Field_Type_Int, Name: record.TimeField})
	rec := record.NewRecord(schema, false)
	for ci, col := range c.Cols {
		cv := &rec.ColVals[ci]
		for i := 0; i < n; i++ {
			null := col.Nulls[i] == 1
			switch col.T {
			case "int":
				if null {
					cv.AppendIntegerNull()
				} else {
					cv.AppendInteger(int64(col.Vals[i]))
				}
			case "float":
				if null {
					cv.AppendFloatNull()
				} else {
					cv.AppendFloat(math.Float64frombits(col.Vals[i]))
				}
			case "bool":
				if null {
					cv.AppendBooleanNull()
				} else {
					cv.AppendBoolean(col.Vals[i] == 1)
				}
			default:
				if null {
					cv.AppendStringNull()
				} else {
					s, _ := hex.DecodeString(col.Strs[i])
					cv.AppendString(string(s))
				}
			}
		}
	}
	for i := 0; i < n; i++ {
		rec.ColVals[len(c.Cols)].AppendInteger(int64(c.Vals[i]))
	}
	var ch *immutable.VerifChunk
	var err error
	c.Panic = protect(func() { ch, err = immutable.VerifEncodeChunk(rec, lim, 1000) })
	if c.Panic != "" {
		c.Oracle = "encode-panic"
		return
	}
	if err != nil {
		c.Oracle, c.EncErr = "encode-error", err.Error()
		return
	}
	nseg := (n + lim - 1) / lim
	cm := &ch.Meta
	c.CM = &CMJ{Hex: hex.EncodeToString(cm.Bytes), Sid: cm.Sid, Off: uint64(cm.Offset), Size: cm.Size, ChunkLen: len(ch.Chunk)}
	for _, r := range cm.Ranges {
		c.CM.Trs = append(c.CM.Trs, [2]uint64{uint64(r[0]), uint64(r[1])})
	}
	for i := range cm.ColNames {
		cj := CMColJ{N: hex.EncodeToString([]byte(cm.ColNames[i])), Ty: int(cm.ColTypes[i]), Pre: hex.EncodeToString(cm.ColPreAgg[i])}
		for _, e := range cm.ColSegs[i] {
			cj.Ent = append(cj.Ent, [2]uint64{uint64(e[0]), uint64(e[1])})
		}
		c.CM.Cols = append(c.CM.Cols, cj)
	}
	curCol, curSeg := "", -1
	fail := func(f string, a ...any) {
		if c.Oracle == "" {
			c.Oracle, c.Bad, c.BadCol, c.BadSeg = "roundtrip-differs", fmt.Sprintf(f, a...), curCol, curSeg
		}
	}
	if !ch.MetaOK {
		fail("chunk meta marshal/unmarshal differs")
	}
	// the same record's chunk meta in the layout of chunk-meta-compress-mode = self (statistics blocks included)
	{
		var sm immutable.VerifChunkMeta
		var dict []string
		var same bool
		immutable.SetChunkMetaCompressMode(immutable.ChunkMetaCompressSelf)
		p := protect(func() { sm, dict, same, err = immutable.VerifChunkMetaSelf(rec, lim, 1000) })
		immutable.SetChunkMetaCompressMode(immutable.ChunkMetaCompressNone)
		if p != "" {
			c.Panic, c.Oracle = p, "encode-panic"
			return
		}
		if err != nil {
			c.Oracle, c.EncErr = "encode-error", err.Error()
			return
		}
		if !same {
			fail("chunk meta (mode self) marshal/unmarshal differs")
		}
		cs := &CMSJ{Hex: hex.EncodeToString(sm.Bytes), K: -1}
		for _, d := range dict {
			cs.Dict = append(cs.Dict, hex.EncodeToString([]byte(d)))
		}
		// scale index byte: after the 8-byte sid and four uvarints
		pos := 8
		for i := 0; i < 4 && pos < len(sm.Bytes); i++ {
			_, w := binary.Uvarint(sm.Bytes[pos:])
			if w <= 0 {
				pos = len(sm.Bytes)
				break
			}
			pos += w
		}
		if pos < len(sm.Bytes) {
			cs.K = int(sm.Bytes[pos])
		}
		cj := &CMJ{Sid: sm.Sid, Off: uint64(sm.Offset), Size: sm.Size}
		for _, r := range sm.Ranges {
			cj.Trs = append(cj.Trs, [2]uint64{uint64(r[0]), uint64(r[1])})
		}
		for i := range sm.ColNames {
			x := CMColJ{N: hex.EncodeToString([]byte(sm.ColNames[i])), Ty: int(sm.ColTypes[i]), Pre: hex.EncodeToString(sm.ColPreAgg[i])}
			for _, e := range sm.ColSegs[i] {
				x.Ent = append(x.Ent, [2]uint64{uint64(e[0]), uint64(e[1])})
			}
			cj.Cols = append(cj.Cols, x)
			idx := -1
			for di, d := range dict {
				if d == sm.ColNames[i] {
					idx = di
					break
				}
			}
			cs.Idxs = append(cs.Idxs, idx)
		}
		cs.CM = cj
		c.CMS = cs
	}
	if len(ch.Segments) != len(c.Cols)+1 {
		fail("column count %d", len(ch.Segments))
		return
	}
	for ci := range ch.Segments {
		if len(ch.Segments[ci]) != nseg {
			fail("column %d has %d segments, want %d", ci, len(ch.Segments[ci]), nseg)
			return
		}
		var hs []string
		for _, s := range ch.Segments[ci] {
			hs = append(hs, hex.EncodeToString(s))
		}
		c.Segs = append(c.Segs, hs)
	}
	for j := 0; j < nseg; j++ {
		lo, hi := j*lim, (j+1)*lim
		if hi > n {
			hi = n
		}
		// time segment
		curCol, curSeg = "time", j
		var tc record.ColVal
		p := protect(func() { err = immutable.VerifDecodeTimeSegment(ch.Segments[len(c.Cols)][j], &tc, true) })
		if p != "" || err != nil {
			c.Panic = p
			fail("time segment %d: decode failed %v %s", j, err, p)
			continue
		}
		tv := tc.IntegerValues()
		if len(tv) != hi-lo || tc.Len != hi-lo || tc.NilCount != 0 {
			fail("time segment %d: %d values, want %d", j, len(tv), hi-lo)
		} else {
			mn, mx := int64(math.MaxInt64), int64(math.MinInt64)
			for i, v := range tv {
				if uint64(v) != c.Vals[lo+i] {
					fail("time segment %d row %d", j, i)
				}
				if v < mn {
					mn = v
				}
				if v > mx {
					mx = v
				}
			}
			if ch.TimeRange[j] != [2]int64{mn, mx} {
				fail("segment %d time range %v, want [%d %d]", j, ch.TimeRange[j], mn, mx)
			}
		}
		for ci, col := range c.Cols {
			curCol, curSeg = col.T, j
			var got record.ColVal
			ref := schema[ci]
			p := protect(func() { err = immutable.VerifDecodeSegment(ref, ch.Segments[ci][j], &got, true) })
			if p != "" || err != nil {
				c.Panic = p
				fail("column %s segment %d: decode failed %v %s", col.T, j, err, p)
				continue
			}
			if got.Len != hi-lo {
				fail("column %s segment %d: Len %d want %d", col.T, j, got.Len, hi-lo)
				continue
			}
			nn := 0
			for i := lo; i < hi; i++ {
				null := col.Nulls[i] == 1
				if got.IsNil(i-lo) != null {
					fail("column %s segment %d row %d: null=%v want %v", col.T, j, i-lo, got.IsNil(i-lo), null)
					break
				}
				if col.T == "string" {
					s, isNil := got.StringValueSafe(i - lo)
					want, _ := hex.DecodeString(col.Strs[i])
					if isNil != null || (!null && s != string(want)) {
						fail("column string segment %d row %d: %q nil=%v want %q nil=%v", j, i-lo, s, isNil, want, null)
						break
					}
					continue
				}
				if null {
					continue
				}
				ok := true
				switch col.T {
				case "int":
					vs := got.IntegerValues()
					ok = nn < len(vs) && uint64(vs[nn]) == col.Vals[i]
				case "float":
					vs := got.FloatValues()
					ok = nn < len(vs) && math.Float64bits(vs[nn]) == col.Vals[i]
				case "bool":
					vs := got.BooleanValues()
					ok = nn < len(vs) && vs[nn] == (col.Vals[i] == 1)
				}
				nn++
				if !ok {
					fail("column %s segment %d row %d: value differs", col.T, j, i-lo)
					break
				}
			}
			if got.NilCount != (hi-lo)-nnCount(col.Nulls[lo:hi]) {
				fail("column %s segment %d: NilCount %d", col.T, j, got.NilCount)
			}
		}
	}
}

func nnCount(nulls []int) int {
	k := 0
	for _, x := range nulls {
		if x == 0 {
			k++
		}
	}
	return k
}
