// C07 correspondence harness: encodes generated columns with the repository's REAL block coders
// (lib/encoding Encode*Block / Decode*Block, lib/compress adaptive float container, engine WAL record frame),
// reads the mode the implementation chose from the bytes it produced, applies the DIRECT ORACLE
// (decode(encode x) == x bit for bit, no panic) and prints one JSON object per case. The Coq model is evaluated on the
// same cases by props/C07/run.py.
package main

import (
	"bufio"
	"encoding/binary"
	"encoding/hex"
	"encoding/json"
	"fmt"
	"math"
	"os"
	"path/filepath"
	"sort"
	"strconv"
	"strings"

	gsnappy "github.com/golang/snappy"
	"github.com/influxdata/influxdb/tsdb/engine/tsm1"
	ksnappy "github.com/klauspost/compress/snappy"
	"github.com/klauspost/compress/zstd"
	"github.com/openGemini/openGemini/lib/encoding"
	"github.com/openGemini/openGemini/lib/util/lifted/encoding/lz4"
	"verifharness/internal/gen"
)

type Case struct {
	K      string   `json:"k"`               // int time bool float string frame
	Shape  string   `json:"shape"`           // generator shape (for the histogram)
	Vals   []uint64 `json:"vals,omitempty"`  // 64-bit patterns (bool: 0/1)
	Strs   []string `json:"strs,omitempty"`  // hex
	Algo   int      `json:"algo,omitempty"`  // string: configured compressor
	Mode   int      `json:"mode"`            // tag read from the first byte of the real output (-1: none)
	Sels   []int    `json:"sels,omitempty"`  // simple8b selectors read from the real words
	Scale  uint64   `json:"scale,omitempty"` // time simple8b scale read from the real bytes
	Runs   []int    `json:"runs,omitempty"`  // RLE run lengths read from the real bytes
	Hex    string   `json:"hex"`             // real encoder output
	C      string   `json:"c,omitempty"`     // third-party compressed payload as located in the real bytes
	D      string   `json:"d,omitempty"`     // ... decompressed by the third-party decoder (bytes)
	DV     []uint64 `json:"dv,omitempty"`    // ... or decoded values (gorilla)
	Panic  string   `json:"panic,omitempty"` // recovered panic (encode or decode)
	EncErr string   `json:"enc_err,omitempty"`
	Oracle string   `json:"oracle,omitempty"` // direct-oracle failure, empty when the round trip is exact
	Dec    []uint64 `json:"dec,omitempty"`    // what the implementation decoded, only when it differs from the input
	Typ    int      `json:"typ,omitempty"`    // frame: record type
	Pref   []int    `json:"pref,omitempty"`   // frame: strict prefixes that were NOT rejected by the real replay
	NPref  int      `json:"npref,omitempty"`  // frame: number of strict prefixes tried
	Src     string   `json:"src,omitempty"`     // corpus file
	Payload string   `json:"payload,omitempty"` // frame: record payload (hex)
	Lim     int      `json:"lim,omitempty"`     // col: rows per segment
	Cols    []ColIn  `json:"cols,omitempty"`    // col: data columns (vals = timestamps)
	Segs    [][]string `json:"segs,omitempty"`  // col: real segment bytes [column][segment], time column last
	Bad     string   `json:"bad,omitempty"`     // col: first difference found by the oracle
	BadCol  string   `json:"badcol,omitempty"`  // col: column type of that difference
	BadSeg  int      `json:"badseg,omitempty"`  // col: segment index of that difference
	Bounds  []int    `json:"bounds,omitempty"`  // rows: byte offsets of the row boundaries
	PPanic  int      `json:"ppanic,omitempty"`  // rows: prefixes rejected by a (recovered) panic
	Series  []SeriesIn `json:"series,omitempty"` // file: the series written
	Rep     []uint64 `json:"rep,omitempty"`     // corpus: vals = rep[0] repeated rep[1] times
	Fails   []FailJ  `json:"fails,omitempty"`   // file: every difference the oracle found
	CM      *CMJ     `json:"cm,omitempty"`      // col: the chunk meta, field by field and marshalled
	RecJ    *RecJ    `json:"recj,omitempty"`    // record: schema and column values as marshalled (for the model)
	RowsJ   []RowJ   `json:"rowsj,omitempty"`   // rows: the batch, field by field (for the model)
	Seed    uint64   `json:"seed,omitempty"`    // rows/record: generator seed of the case
	St      [][][]uint64 `json:"st,omitempty"`  // file: stored statistics [series][column] = min max minT maxT sum count, as the reader decodes them
	V1      string   `json:"v1,omitempty"`      // string: the same strings as a version-1 block (hex)
	CMode   int      `json:"cmode,omitempty"`   // file: chunk-meta-compress-mode the file was written under
	CMS     *CMSJ    `json:"cms,omitempty"`     // col: the chunk meta as marshalled under chunk-meta-compress-mode = self
	FileHex string   `json:"file,omitempty"`    // file / compact: the whole data file (small files)
	Blocks  [][2]string `json:"blocks,omitempty"` // ... its compressed chunk-meta blocks and what the third-party decoder gives for them
	CP      *CPJ     `json:"cp,omitempty"`      // compact: how the rows were spread over the source files
	MG      *MGJ     `json:"mg,omitempty"`      // merge: two statistics blocks and what the real merge returned
	MF      *MFJ     `json:"mf,omitempty"`      // mfile: expected chunk ranges, real trailer range and meta-index entries
	PA      *PAJ     `json:"pa,omitempty"`      // preagg: statistics value and, per mode, the real bytes and what the reader returned
	seed    uint64
}

func math64(f float64) uint64 { return math.Float64bits(f) }

func u64le(vs []uint64) []byte {
	b := make([]byte, 8*len(vs))
	for i, v := range vs {
		binary.LittleEndian.PutUint64(b[8*i:], v)
	}
	return b
}
func leu64(b []byte) []uint64 {
	vs := make([]uint64, len(b)/8)
	for i := range vs {
		vs[i] = binary.LittleEndian.Uint64(b[8*i:])
	}
	return vs
}
func eqU64(a, b []uint64) bool {
	if len(a) != len(b) {
		return false
	}
	for i := range a {
		if a[i] != b[i] {
			return false
		}
	}
	return true
}

// protect runs f and converts a panic into a string.
func protect(f func()) (p string) {
	defer func() {
		if r := recover(); r != nil {
			p = fmt.Sprint(r)
			if len(p) > 120 {
				p = p[:120]
			}
			if p == "" {
				p = "panic"
			}
		}
	}()
	f()
	return ""
}

var zdec, _ = zstd.NewReader(nil, zstd.WithDecoderConcurrency(1))

// ---------------------------------------------------------------- integer
func runInt(c *Case) {
	in := u64le(c.Vals)
	var out []byte
	var err error
	c.Mode = -1
	c.Panic = protect(func() {
		ctx := encoding.NewCoderContext()
		out, err = encoding.EncodeIntegerBlock(in, nil, ctx)
	})
	if c.Panic != "" {
		c.Oracle = "encode-panic"
		return
	}
	if err != nil {
		c.EncErr, c.Oracle = err.Error(), "encode-error"
		return
	}
	c.Hex = hex.EncodeToString(out)
	if len(out) > 0 {
		c.Mode = int(out[0] >> 4)
		switch c.Mode {
		case 2:
			if len(out) >= 17 {
				n := int(binary.BigEndian.Uint32(out[1:])) - 1
				for i := 0; i < n && 17+8*i < len(out); i++ {
					c.Sels = append(c.Sels, int(out[17+8*i]>>4))
				}
			}
		case 3:
			if len(out) >= 9 {
				pl := out[9:]
				c.C = hex.EncodeToString(pl)
				if d, e := zdec.DecodeAll(pl, nil); e == nil {
					c.D = hex.EncodeToString(d)
				}
			}
		}
	}
	var got []int64
	c.Panic = protect(func() {
		ctx := encoding.NewCoderContext()
		buf := []byte{}
		got, err = encoding.DecodeIntegerBlock(out, &buf, ctx)
	})
	finishVals(c, got, err)
}

func finishVals(c *Case, got []int64, err error) {
	if c.Panic != "" {
		c.Oracle = "decode-panic"
		return
	}
	if err != nil {
		c.Oracle = "decode-error"
		c.EncErr = err.Error()
		return
	}
	g := make([]uint64, len(got))
	for i, v := range got {
		g[i] = uint64(v)
	}
	if !eqU64(g, c.Vals) {
		c.Oracle = "roundtrip-differs"
		c.Dec = g
	}
}

// ---------------------------------------------------------------- timestamp
func runTime(c *Case) {
	in := u64le(c.Vals)
	var out []byte
	var err error
	c.Mode = -1
	c.Panic = protect(func() {
		ctx := encoding.NewCoderContext()
		out, err = encoding.EncodeTimestampBlock(in, nil, ctx)
	})
	if c.Panic != "" {
		c.Oracle = "encode-panic"
		return
	}
	if err != nil {
		c.EncErr, c.Oracle = err.Error(), "encode-error"
		return
	}
	c.Hex = hex.EncodeToString(out)
	if len(out) > 0 {
		c.Mode = int(out[0] >> 4)
		switch c.Mode {
		case 2:
			if len(out) >= 25 {
				c.Scale = binary.BigEndian.Uint64(out[1:])
				n := int(binary.BigEndian.Uint32(out[9:])) - 1
				for i := 0; i < n && 25+8*i < len(out); i++ {
					c.Sels = append(c.Sels, int(out[25+8*i]>>4))
				}
			}
		case 3:
			if len(out) >= 9 {
				pl := out[9:]
				c.C = hex.EncodeToString(pl)
				if d, e := ksnappy.Decode(nil, pl); e == nil {
					c.D = hex.EncodeToString(d)
				}
			}
		}
	}
	var got []int64
	c.Panic = protect(func() {
		ctx := encoding.NewCoderContext()
		buf := []byte{}
		got, err = encoding.DecodeTimestampBlock(out, &buf, ctx)
	})
	finishVals(c, got, err)
}

// ---------------------------------------------------------------- boolean
func runBool(c *Case) {
	in := make([]byte, len(c.Vals))
	for i, v := range c.Vals {
		in[i] = byte(v)
	}
	var out []byte
	var err error
	c.Mode = -1
	c.Panic = protect(func() {
		ctx := encoding.NewCoderContext()
		out, err = encoding.EncodeBooleanBlock(in, nil, ctx)
	})
	if c.Panic != "" {
		c.Oracle = "encode-panic"
		return
	}
	if err != nil {
		c.EncErr, c.Oracle = err.Error(), "encode-error"
		return
	}
	c.Hex = hex.EncodeToString(out)
	if len(out) > 0 {
		c.Mode = int(out[0] >> 4)
	}
	var got []bool
	c.Panic = protect(func() {
		ctx := encoding.NewCoderContext()
		buf := []byte{}
		got, err = encoding.DecodeBooleanBlock(out, &buf, ctx)
	})
	if c.Panic != "" {
		c.Oracle = "decode-panic"
		return
	}
	if err != nil {
		c.Oracle, c.EncErr = "decode-error", err.Error()
		return
	}
	g := make([]uint64, len(got))
	for i, v := range got {
		if v {
			g[i] = 1
		}
	}
	if !eqU64(g, c.Vals) {
		c.Oracle, c.Dec = "roundtrip-differs", g
	}
}

// ---------------------------------------------------------------- float
func runFloat(c *Case) {
	in := u64le(c.Vals)
	var out []byte
	var err error
	c.Mode = -1
	c.Panic = protect(func() {
		ctx := encoding.NewCoderContext()
		out, err = encoding.EncodeFloatBlock(in, nil, ctx)
	})
	if c.Panic != "" {
		c.Oracle = "encode-panic"
		return
	}
	if err != nil {
		c.EncErr, c.Oracle = err.Error(), "encode-error"
		return
	}
	c.Hex = hex.EncodeToString(out)
	if len(out) > 0 {
		c.Mode = int(out[0] >> 4)
		pl := out[1:]
		switch c.Mode {
		case 2:
			c.C = hex.EncodeToString(pl)
			if d, e := gsnappy.Decode(nil, pl); e == nil {
				c.D = hex.EncodeToString(d)
			}
		case 3:
			c.C = hex.EncodeToString(pl)
			if d, e := tsm1.FloatArrayDecodeAll(pl, nil); e == nil {
				c.DV = make([]uint64, len(d))
				for i, f := range d {
					c.DV[i] = math.Float64bits(f)
				}
				if len(d) == 0 {
					c.DV = []uint64{}
				}
			}
		case 5:
			p := pl
			for len(p) >= 2 {
				n := int(p[0])<<8 | int(p[1])
				if n >= 1<<15 {
					c.Runs = append(c.Runs, n-(1<<15))
					p = p[2:]
				} else {
					c.Runs = append(c.Runs, n)
					if len(p) < 10 {
						break
					}
					p = p[10:]
				}
			}
		}
	}
	var got []float64
	c.Panic = protect(func() {
		ctx := encoding.NewCoderContext()
		buf := []byte{}
		got, err = encoding.DecodeFloatBlock(out, &buf, ctx)
	})
	if c.Panic != "" {
		c.Oracle = "decode-panic"
		return
	}
	if err != nil {
		c.Oracle, c.EncErr = "decode-error", err.Error()
		return
	}
	g := make([]uint64, len(got))
	for i, v := range got {
		g[i] = math.Float64bits(v)
	}
	if !eqU64(g, c.Vals) {
		c.Oracle, c.Dec = "roundtrip-differs", g
	}
}

// ---------------------------------------------------------------- string
func runString(c *Case) {
	var data []byte
	var offs []uint32
	strs := make([][]byte, len(c.Strs))
	for i, h := range c.Strs {
		s, _ := hex.DecodeString(h)
		strs[i] = s
		offs = append(offs, uint32(len(data)))
		data = append(data, s...)
	}
	var out []byte
	var err error
	c.Mode = -1
	mk := func() *encoding.CoderContext {
		ctx := encoding.NewCoderContext()
		sc := encoding.GetStringCoder()
		sc.SetEncodingType(c.Algo)
		ctx.SetStringCoder(sc)
		return ctx
	}
	c.Panic = protect(func() {
		out, err = encoding.EncodeStringBlock(data, offs, nil, mk())
	})
	if c.Panic != "" {
		c.Oracle = "encode-panic"
		return
	}
	if err != nil {
		c.EncErr, c.Oracle = err.Error(), "encode-error"
		return
	}
	c.Hex = hex.EncodeToString(out)
	if len(out) >= 9 {
		c.Mode = int(out[0] >> 4)
		pl := out[9:]
		var d []byte
		var e error
		switch c.Mode {
		case 1:
			d, e = ksnappy.Decode(nil, pl)
		case 2:
			d, e = zdec.DecodeAll(pl, nil)
		case 3:
			d = make([]byte, int(binary.BigEndian.Uint32(out[1:])))
			var n int
			n, e = lz4.DecompressSafe(pl, d)
			if e == nil {
				d = d[:n]
			}
		}
		if c.Mode != 0 {
			c.C = hex.EncodeToString(pl)
			if e == nil {
				c.D = hex.EncodeToString(d)
			}
		}
	}
	var gd []byte
	var go_ []uint32
	c.Panic = protect(func() {
		buf := []byte{}
		o := []uint32{}
		gd, go_, err = encoding.DecodeStringBlock(out, &buf, &o, mk())
	})
	if c.Panic != "" {
		c.Oracle = "decode-panic"
		return
	}
	if err != nil {
		c.Oracle, c.EncErr = "decode-error", err.Error()
		return
	}
	ok := len(go_) == len(offs) && string(gd) == string(data)
	for i := 0; ok && i < len(offs); i++ {
		ok = go_[i] == offs[i]
	}
	if !ok {
		c.Oracle = "roundtrip-differs"
		return
	}
	// the same strings in the deprecated version-1 packing (uncompressed container), as an older version stored them:
	// today's reader must still return exactly the strings
	if len(offs) > 0 {
		v1 := encoding.VerifPackStringV1(data, offs)
		blk := []byte{byte(encoding.VerifConsts()["str_raw"] << 4)}
		blk = binary.BigEndian.AppendUint32(blk, uint32(len(v1)))
		blk = binary.BigEndian.AppendUint32(blk, uint32(len(v1)))
		blk = append(blk, v1...)
		c.V1 = hex.EncodeToString(blk)
		var vd []byte
		var vo []uint32
		c.Panic = protect(func() {
			buf := []byte{}
			o := []uint32{}
			vd, vo, err = encoding.DecodeStringBlock(blk, &buf, &o, mk())
		})
		if c.Panic != "" {
			c.Oracle, c.Bad = "decode-panic", "version-1 block"
			return
		}
		if err != nil {
			c.Oracle, c.EncErr, c.Bad = "decode-error", err.Error(), "version-1 block"
			return
		}
		ok = len(vo) == len(offs) && string(vd) == string(data)
		for i := 0; ok && i < len(offs); i++ {
			ok = vo[i] == offs[i]
		}
		if !ok {
			c.Oracle, c.Bad = "roundtrip-differs", "version-1 block"
		}
	}
}

// ---------------------------------------------------------------- generators
var (
	fNaN1   = uint64(0x7FF8000000000001)
	fNaN2   = uint64(0x7FF0000000000001) // signalling NaN payload
	fNaN3   = uint64(0xFFF8000000000000)
	fNaN4   = uint64(0x7FFFFFFFFFFFFFFF)
	fPInf   = math.Float64bits(math.Inf(1))
	fNInf   = math.Float64bits(math.Inf(-1))
	fNZero  = uint64(1) << 63
	fSubMin = uint64(1)
	fSubMax = uint64(0x000FFFFFFFFFFFFF)
	fMax    = math.Float64bits(math.MaxFloat64)
)

func genLen(r *gen.Rand) int {
	switch r.Intn(20) {
	case 0:
		return r.Intn(6)
	case 1:
		return []int{119, 120, 121, 239, 240, 241, 360, 480, 481}[r.Intn(9)]
	case 2:
		return []int{999, 1000, 1001, 1100}[r.Intn(4)]
	case 3:
		return r.Range(65, 400)
	default:
		return r.Range(3, 64)
	}
}

func genInts(r *gen.Rand) (string, []uint64) {
	n := genLen(r)
	vs := make([]uint64, n)
	shape := ""
	start := uint64(r.Int64Boundary())
	switch r.Intn(12) {
	case 0:
		shape = "constant"
		for i := range vs {
			vs[i] = start
		}
	case 1:
		shape = "const-delta"
		d := uint64(r.Int64Boundary())
		for i := range vs {
			vs[i] = start + uint64(i)*d
		}
	case 2:
		shape = "delta-minus-one" // zig-zag 1: simple8b selectors 0/1 (runs of ones)
		for i := range vs {
			vs[i] = start - uint64(i)
		}
		if n > 2 && r.Bool() {
			vs[r.Intn(n)] += uint64(r.Intn(3))
		}
	case 3, 4:
		shape = "small-deltas"
		k := uint(r.Range(1, 30))
		cur := start
		for i := range vs {
			vs[i] = cur
			cur += uint64(int64(r.Uint64()%(1<<k)) - int64(1<<(k-1)))
		}
	case 5:
		shape = "mixed-magnitude"
		cur := start
		for i := range vs {
			vs[i] = cur
			k := uint(r.Range(0, 59))
			cur += uint64(int64(r.Uint64()%(1<<k+1)) * int64(1-2*r.Intn(2)))
		}
	case 6:
		shape = "s8-boundary" // largest zig-zag delta exactly at simple8b.MaxValue, one above, or two above (one regime per column)
		regime := r.Intn(3)
		fit := []int64{1<<59 - 1, -(1 << 59), 5, -7, 1 << 58}
		over := []int64{0, 1 << 59, -(1<<59 + 1)}[regime]
		at := -1
		if regime > 0 && n > 1 {
			at = r.Range(1, n-1)
		}
		cur := start
		for i := range vs {
			d := fit[r.Intn(len(fit))]
			if i == at {
				d = over
			}
			cur += uint64(d)
			vs[i] = cur
		}
	case 7:
		shape = "extremes"
		for i := range vs {
			vs[i] = uint64([]int64{math.MaxInt64, math.MinInt64, 0, -1, 1, math.MaxInt64 - 1, math.MinInt64 + 1}[r.Intn(7)])
		}
	case 8:
		shape = "random64"
		for i := range vs {
			vs[i] = r.Uint64()
		}
	case 9:
		shape = "boundary-mix"
		for i := range vs {
			vs[i] = uint64(r.Int64Boundary())
		}
	case 10:
		shape = "repetitive-large" // compressible by zstd but not by simple8b
		pat := []uint64{r.Uint64(), r.Uint64(), r.Uint64()}
		for i := range vs {
			vs[i] = pat[i%3]
		}
	default:
		shape = "const-delta-then-break"
		d := uint64(r.Int64Boundary())
		for i := range vs {
			vs[i] = start + uint64(i)*d
		}
		if n > 0 {
			// break the progression at the end, at the start or in the middle
			switch r.Intn(3) {
			case 0:
				vs[n-1] += uint64(r.Intn(2))
			case 1:
				vs[0] += uint64(r.Intn(2) + 1)
			default:
				vs[r.Intn(n)] -= uint64(r.Intn(3))
			}
		}
	}
	return shape, vs
}

func genTimes(r *gen.Rand) (string, []uint64) {
	n := genLen(r)
	vs := make([]uint64, n)
	shape := ""
	start := uint64(1600000000000000000 + int64(r.Intn(1000000))*1000000)
	if r.Chance(1, 6) {
		start = uint64(r.Int64Boundary())
	}
	pow10 := func(k int) uint64 {
		p := uint64(1)
		for ; k > 0; k-- {
			p *= 10
		}
		return p
	}
	switch r.Intn(10) {
	case 0:
		shape = "const-step"
		d := pow10(r.Intn(13)) * uint64(r.Range(1, 60))
		if r.Chance(1, 5) {
			d = uint64(r.Int64Boundary())
		}
		for i := range vs {
			vs[i] = start + uint64(i)*d
		}
	case 1:
		shape = "scaled-steps"
		sc := pow10(r.Intn(14))
		cur := start
		for i := range vs {
			vs[i] = cur
			cur += sc * uint64(r.Intn(1<<uint(r.Range(1, 12))))
		}
	case 2:
		shape = "scaled-steps-one-odd" // every delta a multiple of 10^k except one (first, last or random position)
		sc := pow10(r.Range(1, 12))
		cur := start
		odd := []int{0, 1, n - 2, r.Intn(n + 1)}[r.Intn(4)]
		for i := range vs {
			vs[i] = cur
			cur += sc * uint64(r.Intn(50)+1)
			if i == odd {
				cur += uint64(r.Intn(9) + 1)
			}
		}
	case 3:
		shape = "jitter"
		cur := start
		for i := range vs {
			vs[i] = cur
			cur += 1000000000 + uint64(r.Intn(2000)) - 1000
		}
	case 4:
		shape = "step-one" // deltas of 1: simple8b run selectors
		for i := range vs {
			vs[i] = start + uint64(i)
		}
		if n > 2 && r.Bool() {
			vs[n-1] += uint64(r.Intn(3))
		}
	case 5:
		shape = "s8-boundary" // largest delta at MaxValue-1, MaxValue or MaxValue+1 (one regime per column)
		regime := r.Intn(3)
		fit := []uint64{1<<60 - 2, 7, 1 << 59, 1<<60 - 2}
		over := []uint64{1<<60 - 2, 1<<60 - 1, 1 << 60}[regime]
		at := 1
		if n > 1 {
			at = r.Range(1, n-1)
		}
		cur := start
		for i := range vs {
			d := fit[r.Intn(len(fit))]
			if i == at {
				d = over
			}
			cur += d
			vs[i] = cur
		}
	case 6:
		shape = "descending" // unsigned deltas wrap
		cur := start
		for i := range vs {
			vs[i] = cur
			cur -= uint64(r.Intn(1000) + 1)
		}
	case 7:
		shape = "random64"
		for i := range vs {
			vs[i] = r.Uint64()
		}
	case 8:
		shape = "zero-deltas-mix" // duplicates: delta 0 (scale of 0 is 1e12)
		cur := start
		for i := range vs {
			vs[i] = cur
			if r.Bool() {
				cur += uint64(r.Intn(3)) * 1000000000000
			}
		}
	default:
		shape = "repetitive-large"
		cur := start
		pat := []uint64{r.Uint64() >> 2, r.Uint64() >> 3}
		for i := range vs {
			vs[i] = cur
			cur += pat[i%2]
		}
	}
	return shape, vs
}

func special(r *gen.Rand) uint64 {
	return []uint64{fNaN1, fNaN2, fNaN3, fNaN4, fPInf, fNInf, fNZero, 0, fSubMin, fSubMax, fMax, fMax | 1<<63,
		math.Float64bits(1), math.Float64bits(-1), math.Float64bits(0.1)}[r.Intn(15)]
}

func genFloats(r *gen.Rand) (string, []uint64) {
	n := genLen(r)
	if r.Chance(1, 3) {
		n = r.Range(5, 40)
	}
	vs := make([]uint64, n)
	shape := ""
	fb := math.Float64bits
	switch r.Intn(16) {
	case 14, 15:
		// exactly one NaN (any payload) at the first, second, last or a random position among many distinct ordinary
		// values (integral: gorilla-friendly, or decimals): the NaN must be noticed wherever it sits
		shape = "one-nan-at-position"
		if n < 12 {
			n = r.Range(12, 40)
			vs = make([]uint64, n)
		}
		integral := r.Chance(2, 3)
		for i := range vs {
			if integral {
				vs[i] = fb(float64(i*7 + r.Intn(5)))
			} else {
				vs[i] = fb(float64(i*7+r.Intn(5)) + 0.123456789)
			}
		}
		pos := []int{0, 0, 1, n - 1, r.Intn(n)}[r.Intn(5)]
		vs[pos] = []uint64{fNaN1, fNaN2, fNaN3, fNaN4, math.Float64bits(math.NaN())}[r.Intn(5)]
	case 0:
		shape = "constant"
		v := fb(float64(r.Intn(1000)) / 8)
		if r.Bool() {
			v = special(r)
		}
		for i := range vs {
			vs[i] = v
		}
	case 1:
		shape = "neg-zero"
		for i := range vs {
			vs[i] = fNZero
		}
	case 2:
		shape = "mixed-zero"
		for i := range vs {
			if r.Bool() {
				vs[i] = fNZero
			}
		}
	case 3:
		shape = "few-runs" // RLE, with zero runs
		pool := []uint64{0, fb(1.5), fb(-2), special(r), special(r), fNZero}
		nr := r.Range(2, 8)
		for i := 0; i < n; {
			v := pool[r.Intn(len(pool))]
			l := r.Range(1, n/nr+1)
			for j := 0; j < l && i < n; j++ {
				vs[i] = v
				i++
			}
		}
	case 4:
		shape = "decimals" // snappy branch
		for i := range vs {
			vs[i] = fb(float64(r.Intn(100000)) / 100)
		}
	case 5:
		shape = "integral" // gorilla branch
		for i := range vs {
			vs[i] = fb(float64(r.Intn(1000000) - 500000))
		}
	case 6:
		shape = "smooth" // gorilla-friendly
		x := float64(r.Intn(1000))
		for i := range vs {
			vs[i] = fb(x)
			x += float64(r.Intn(16)) / 4
		}
	case 7:
		shape = "random-bits"
		for i := range vs {
			vs[i] = r.Uint64()
		}
	case 8:
		shape = "specials"
		for i := range vs {
			vs[i] = special(r)
		}
	case 9:
		shape = "one-sign-inf" // infinities of one sign only among ordinary values
		inf := fPInf
		if r.Bool() {
			inf = fNInf
		}
		for i := range vs {
			vs[i] = fb(float64(r.Intn(100000) - 50000))
			if r.Chance(1, 5) {
				vs[i] = inf
			}
		}
	case 10:
		shape = "both-inf" // +Inf and -Inf among ordinary values (no NaN)
		for i := range vs {
			vs[i] = fb(float64(r.Intn(100000)-50000) / 1)
			if r.Chance(1, 6) {
				vs[i] = fPInf
			} else if r.Chance(1, 6) {
				vs[i] = fNInf
			}
		}
	case 11:
		shape = "subnormals"
		for i := range vs {
			vs[i] = r.Uint64() & fSubMax
			if r.Bool() {
				vs[i] |= 1 << 63
			}
		}
	case 12:
		shape = "nan-payloads"
		for i := range vs {
			vs[i] = 0x7FF0000000000000 | (r.Uint64() & fSubMax) | uint64(r.Intn(2))<<63
			if r.Chance(1, 3) {
				vs[i] = fb(float64(r.Intn(100)))
			}
		}
	default:
		shape = "huge-finite" // the running sum overflows to an infinity
		for i := range vs {
			vs[i] = fb(math.MaxFloat64 / float64(r.Range(1, 3)))
			if r.Chance(1, 4) {
				vs[i] |= 1 << 63
			}
			if r.Chance(1, 3) {
				vs[i] = fb(float64(r.Intn(1000)))
			}
		}
	}
	return shape, vs
}

func genBools(r *gen.Rand) (string, []uint64) {
	n := genLen(r)
	if r.Chance(1, 2) {
		n = r.Intn(20)
	} else if r.Chance(1, 3) {
		n = []int{8, 16, 64, 512, 520, 1000, 1024}[r.Intn(7)] // whole bytes: no padding bits
	}
	vs := make([]uint64, n)
	shape := "random"
	switch r.Intn(4) {
	case 0:
		shape = "all-true"
		for i := range vs {
			vs[i] = 1
		}
	case 1:
		shape = "all-false"
	default:
		for i := range vs {
			vs[i] = r.Uint64() & 1
		}
	}
	return shape, vs
}

func genStrings(r *gen.Rand) (string, []string, int) {
	n := r.Range(1, 12)
	big := r.Chance(1, 8)
	if big {
		n = r.Range(100, 1100)
	}
	algo := []int{0, 1, 2, 3}[r.Intn(4)] // 0: configured default (snappy)
	words := []string{"cpu", "host-", "region=eu-west", "ok", "error: timeout while waiting", "\x00", "\xff\xfe", " "}
	out := make([]string, n)
	shape := ""
	k := r.Intn(7)
	if big && k == 3 {
		k = 1
	}
	switch k {
	case 0:
		shape = "all-empty"
	case 1:
		shape = "text" // compressible
		for i := range out {
			var sb strings.Builder
			for j := r.Intn(6); j > 0; j-- {
				sb.WriteString(words[r.Intn(len(words))])
			}
			out[i] = sb.String()
		}
	case 2:
		shape = "random-bytes" // incompressible: uncompressed fall-back
		for i := range out {
			b := make([]byte, r.Intn(40))
			for j := range b {
				b[j] = byte(r.Uint64())
			}
			out[i] = string(b)
		}
	case 3:
		shape = "very-long"
		for i := range out {
			if i < 2 {
				l := r.Range(2000, 9000)
				b := make([]byte, l)
				for j := range b {
					if r.Bool() {
						b[j] = byte('a' + j%7)
					} else {
						b[j] = byte(r.Uint64())
					}
				}
				out[i] = string(b)
			}
		}
	case 4:
		shape = "empty-mix"
		for i := range out {
			if r.Bool() {
				out[i] = words[r.Intn(len(words))]
			}
		}
	case 5:
		shape = "last-empty"
		for i := range out {
			out[i] = words[r.Intn(len(words))]
		}
		out[n-1] = ""
		if n > 1 {
			out[0] = ""
		}
	default:
		shape = "repeated"
		w := words[r.Intn(len(words))]
		for i := range out {
			out[i] = w
		}
	}
	hs := make([]string, n)
	for i, s := range out {
		hs[i] = hex.EncodeToString([]byte(s))
	}
	return shape, hs, algo
}

func runCase(c *Case) {
	switch c.K {
	case "int":
		runInt(c)
	case "time":
		runTime(c)
	case "bool":
		runBool(c)
	case "float":
		runFloat(c)
	case "string":
		runString(c)
	case "frame":
		runFrame(c)
	case "record":
		runRecord(c)
	case "col":
		runCol(c)
	case "rows":
		runRows(c)
	case "file":
		runFile(c)
	case "preagg":
		runPreAgg(c)
	case "mfile":
		runMFile(c)
	case "compact":
		runCompact(c)
	case "merge":
		runMerge(c)
	}
	gen.Emit(c)
}

func main() {
	if len(os.Args) > 1 && os.Args[1] == "consts" {
		printConsts()
		return
	}
	if len(os.Args) > 1 && os.Args[1] == "scan" {
		scanMain()
		return
	}
	if len(os.Args) > 2 && (os.Args[1] == "preagg" || os.Args[1] == "mfile" || os.Args[1] == "compact" || os.Args[1] == "merge") { // one kind only (volume runs)
		n, _ := strconv.Atoi(os.Args[2])
		r := gen.FromEnv(7)
		for i := 0; i < n; i++ {
			c := Case{}
			switch os.Args[1] {
			case "preagg":
				genPreAgg(r, &c)
			case "compact":
				genCompact(r, &c)
			case "merge":
				genMerge(r, &c)
			default:
				genMFile(r, &c)
			}
			runCase(&c)
		}
		fmt.Println(`{"done":true}`)
		return
	}
	n := 300
	if len(os.Args) > 1 {
		n, _ = strconv.Atoi(os.Args[1])
	}
	w := bufio.NewWriterSize(os.Stdout, 1<<20)
	_ = w
	// 1. corpus (and replay) files first: JSON lines {"k":..., "vals":[...]} / {"k":"string","strs":[...],"algo":n}
	for _, dir := range os.Args[2:] {
		files, _ := filepath.Glob(filepath.Join(dir, "*.case"))
		if st, err := os.Stat(dir); err == nil && !st.IsDir() {
			files = []string{dir}
		}
		sort.Strings(files)
		for _, f := range files {
			data, err := os.ReadFile(f)
			if err != nil {
				continue
			}
			for _, line := range strings.Split(string(data), "\n") {
				line = strings.TrimSpace(line)
				if line == "" || strings.HasPrefix(line, "#") {
					continue
				}
				var in Case
				if err := json.Unmarshal([]byte(line), &in); err != nil {
					fmt.Fprintln(os.Stderr, "bad corpus line in", f, err)
					os.Exit(3)
				}
				c := Case{K: in.K, Vals: in.Vals, Strs: in.Strs, Algo: in.Algo, Typ: in.Typ, Payload: in.Payload, Lim: in.Lim, Cols: in.Cols, Series: in.Series,
					Seed: in.Seed, seed: in.Seed, Shape: "corpus", Src: filepath.Base(f), CMode: in.CMode, PA: in.PA, MF: in.MF, CP: in.CP, MG: in.MG}
				if len(in.Rep) == 2 {
					c.Vals = make([]uint64, in.Rep[1])
					for i := range c.Vals {
						c.Vals[i] = in.Rep[0]
					}
				}
				if c.Vals == nil {
					c.Vals = []uint64{}
				}
				runCase(&c)
			}
		}
	}
	// 2. generated cases from one PRNG
	r := gen.FromEnv(7)
	for i := 0; i < n; i++ {
		c := Case{}
		switch k := i % 16; {
		case k == 12:
			genFile(r, &c)
		case k > 12 && k < 15:
			genCol(r, &c)
		case k == 15:
			genRowsCase(r, &c)
		case k < 3:
			c.K = "int"
			c.Shape, c.Vals = genInts(r)
		case k < 6:
			c.K = "time"
			c.Shape, c.Vals = genTimes(r)
		case k < 9:
			c.K = "float"
			c.Shape, c.Vals = genFloats(r)
		case k == 9:
			c.K = "bool"
			c.Shape, c.Vals = genBools(r)
		case k == 10:
			c.K = "string"
			c.Shape, c.Strs, c.Algo = genStrings(r)
		default:
			if (i/16)%3 == 2 {
				genRecord(r, &c)
			} else {
				genFrame(r, &c)
			}
		}
		runCase(&c)
	}
	// 3. stored statistics blocks (cheap: no I/O), every chunk-meta-compress-mode per case
	for i := 0; i < n/3; i++ {
		c := Case{}
		genPreAgg(r, &c)
		runCase(&c)
	}
	// 5. compaction of level-0 files into one (streaming: stored statistics merged) and statistics merges
	for i := 0; i < n/50; i++ {
		c := Case{}
		genCompact(r, &c)
		runCase(&c)
	}
	for i := 0; i < n/10; i++ {
		c := Case{}
		genMerge(r, &c)
		runCase(&c)
	}
	// 6. one very large version-1 string block (a quarter of a second: every tier)
	{
		c := Case{}
		runHugeV1(&c)
		gen.Emit(&c)
	}
	// 4. multi-series files: trailer / meta-index ranges and row lookups through the reopened file
	for i := 0; i < n/32; i++ {
		c := Case{}
		genMFile(r, &c)
		runCase(&c)
	}
	fmt.Println(`{"done":true}`)
}
