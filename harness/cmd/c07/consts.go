package main

// `c07 consts`: the format constants of the repository, evaluated by the Go compiler (unexported ones through the
// build-tag hooks), printed as one JSON object. props/C07/run.py turns it into coq/C07/Gen_Consts.v on every run.

import (
	"encoding/json"
	"fmt"

	"github.com/openGemini/openGemini/engine"
	"github.com/openGemini/openGemini/engine/immutable"
	"github.com/openGemini/openGemini/lib/codec"
	"github.com/openGemini/openGemini/lib/compress"
	"github.com/openGemini/openGemini/lib/encoding"
	"github.com/openGemini/openGemini/lib/util"
	"github.com/openGemini/openGemini/lib/util/lifted/encoding/simple8b"
)

func printConsts() {
	c := map[string]uint64{}
	for k, v := range encoding.VerifConsts() {
		c[k] = v
	}
	for k, v := range encoding.VerifStringVersions() {
		c[k] = v
	}
	for k, v := range compress.VerifConsts() {
		c[k] = v
	}
	for k, v := range immutable.VerifPreAggConsts() {
		c[k] = v
	}
	magic, fc := immutable.VerifFileConsts()
	for k, v := range fc {
		c[k] = v
	}
	c["s8_max"] = simple8b.MaxValue
	c["wal_head"] = engine.WalRecordHeadSize
	c["wal_unknown"] = engine.WriteWalUnKnownType
	c["wal_line"] = engine.WriteWalLineProtocol
	c["wal_arrow"] = engine.WriteWalArrowFlight
	c["wal_end"] = engine.WriteWalEnd
	c["seg_rows_ts"] = util.DefaultMaxRowsPerSegment4TsStore
	out := map[string]any{"consts": c, "s8": simple8b.VerifSelectorTable(), "scales": codec.VerifScales(), "lists": map[string][]int{"table_magic": ints(magic)}}
	b, _ := json.Marshal(out)
	fmt.Println(string(b))
}

func ints(b []byte) []int {
	out := make([]int, len(b))
	for i, x := range b {
		out[i] = int(x)
	}
	return out
}
