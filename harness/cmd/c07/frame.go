package main

import "verifharness/internal/gen"

// placeholder until the WAL frame hook is in place: the slot produces one more integer column
func genFrame(r *gen.Rand, c *Case) {
	c.K = "int"
	c.Shape, c.Vals = genInts(r)
}

func runFrame(c *Case) {}
