package main

// WAL record frames: written by the real WAL.Write (writeBinary), read back - whole and cut short at every tested
// strict prefix, alone and after a complete record - by the real replayWalFile / replayPhysicRecord (through the
// build-tag hook engine.VerifReplayWalFile). Line-protocol records carry real FastMarshalMultiRows payloads, so the
// rows codec is exercised by the round-trip oracle as well.

import (
	"bytes"
	"context"
	"encoding/hex"
	"math"
	"os"
	"path/filepath"

	gsnappy "github.com/golang/snappy"
	"github.com/openGemini/openGemini/engine"
	"github.com/openGemini/openGemini/lib/logger"
	"github.com/openGemini/openGemini/lib/util/lifted/vm/protoparser/influx"
	"go.uber.org/zap"
	"verifharness/internal/gen"
)

var (
	theWal  *engine.WAL
	walDir  string
	walLock = ""
)

func walInit() {
	if theWal != nil {
		return
	}
	logger.SetLogger(zap.NewNop())
	base := os.Getenv("VERIF_WORK")
	if base == "" {
		base, _ = os.MkdirTemp("", "c07wal")
	}
	walDir = filepath.Join(base, "c07wal")
	_ = os.RemoveAll(walDir)
	_ = os.MkdirAll(walDir, 0750)
	theWal = engine.NewWAL(filepath.Join(walDir, "w"), &walLock, 1, 0, true, false, 1, 0)
}

type delivered struct {
	typ    byte
	binary []byte // payload (line-protocol: the rows re-marshalled by FastMarshalMultiRows)
}

func replayFile(content []byte) (recs []delivered, perr string) {
	name := filepath.Join(walDir, "replay.wal")
	_ = os.WriteFile(name, content, 0600)
	perr = protect(func() {
		_ = theWal.VerifReplayWalFile(context.Background(), name, true, func(typ byte, bin []byte, rows []influx.Row, last bool) {
			if last {
				return
			}
			d := delivered{typ: typ}
			if typ == byte(engine.WriteWalLineProtocol) {
				d.binary, _ = influx.FastMarshalMultiRows(nil, rows)
			} else {
				d.binary = append([]byte{}, bin...)
			}
			recs = append(recs, d)
		})
	})
	return
}

func genRows(r *gen.Rand) []influx.Row {
	n := r.Range(1, 4)
	rows := make([]influx.Row, n)
	names := []string{"cpu_0000", "m", "mem_0001", "a-very-long-measurement-name-with-version_0003"}
	strs := []string{"", "x", "hello world", "\x00\xff", "line\nbreak", string(bytes.Repeat([]byte("ab"), 300))}
	for i := range rows {
		row := &rows[i]
		row.Name = names[r.Intn(len(names))]
		if r.Bool() {
			row.ShardKey = []byte(row.Name + ",host=a")
		}
		for t := r.Intn(4); t > 0; t-- {
			row.Tags = append(row.Tags, influx.Tag{Key: "t" + strs[r.Intn(3)], Value: strs[r.Intn(len(strs))]})
		}
		for f := r.Range(1, 4); f > 0; f-- {
			fd := influx.Field{Key: "f" + strs[r.Intn(3)]}
			switch r.Intn(5) {
			case 0:
				fd.Type, fd.NumValue = influx.Field_Type_Int, float64(r.Int64Boundary())
			case 1:
				fd.Type, fd.NumValue = influx.Field_Type_Float, math.Float64frombits(special(r))
			case 2:
				fd.Type, fd.NumValue = influx.Field_Type_Float, float64(r.Intn(100000))/100
			case 3:
				fd.Type, fd.StrValue = influx.Field_Type_String, strs[r.Intn(len(strs))]
			default:
				fd.Type, fd.NumValue = influx.Field_Type_Boolean, float64(r.Intn(2))
			}
			row.Fields = append(row.Fields, fd)
		}
		if r.Chance(1, 4) {
			row.IndexOptions = append(row.IndexOptions, influx.IndexOption{Oid: uint32(r.Intn(10)), IndexList: []uint16{uint16(r.Intn(5)), 7}})
		}
		row.Timestamp = r.Int64Boundary()
	}
	return rows
}

func genFrame(r *gen.Rand, c *Case) {
	c.K = "frame"
	var payload []byte
	if r.Chance(2, 5) {
		c.Typ = 1
		c.Shape = "line-protocol-rows"
		payload, _ = influx.FastMarshalMultiRows(nil, genRows(r))
	} else {
		c.Typ = 2
		n := r.Range(1, 300)
		if r.Chance(1, 5) {
			n = r.Range(1, 6)
		}
		payload = make([]byte, n)
		if r.Bool() {
			c.Shape = "binary-random"
			for i := range payload {
				payload[i] = byte(r.Uint64())
			}
		} else {
			c.Shape = "binary-repetitive"
			for i := range payload {
				payload[i] = byte("abcabcabd"[i%9])
			}
		}
	}
	c.Payload = hex.EncodeToString(payload)
	c.seed = r.Uint64()
	c.Seed = c.seed
}

func runFrame(c *Case) {
	walInit()
	payload, _ := hex.DecodeString(c.Payload)
	c.Mode = -1
	var frame []byte
	c.Panic = protect(func() {
		if err := theWal.Write(payload, engine.WalRecordType(c.Typ), 0); err != nil {
			c.EncErr = err.Error()
			return
		}
		if _, err := theWal.Switch(); err != nil { // closes the current log file
			c.EncErr = "wal switch"
			return
		}
		names, _ := filepath.Glob(filepath.Join(walDir, "w", "0", "*.wal"))
		if len(names) != 1 {
			c.EncErr = "wal files"
			return
		}
		frame, _ = os.ReadFile(names[0])
		_ = os.Remove(names[0])
	})
	if c.Panic != "" {
		c.Oracle = "encode-panic"
		return
	}
	if c.EncErr != "" || len(frame) == 0 {
		c.Oracle = "encode-error"
		return
	}
	c.Hex = hex.EncodeToString(frame)
	c.Mode = int(frame[0])
	if len(frame) >= 5 {
		c.C = hex.EncodeToString(frame[5:])
		if d, e := gsnappy.Decode(nil, frame[5:]); e == nil {
			c.D = hex.EncodeToString(d)
		}
	}
	// (a) the whole record
	recs, p := replayFile(frame)
	if p != "" {
		c.Panic, c.Oracle = p, "decode-panic"
		return
	}
	if len(recs) != 1 || int(recs[0].typ) != c.Typ || !bytes.Equal(recs[0].binary, payload) {
		c.Oracle = "roundtrip-differs"
		return
	}
	// (b) strict prefixes, alone and after one complete copy of the same record
	r := gen.New(c.seed)
	ks := map[int]bool{}
	for k := 0; k < len(frame) && k <= 40; k++ {
		ks[k] = true
	}
	for i := 0; i < 20 && len(frame) > 41; i++ {
		ks[r.Range(41, len(frame)-1)] = true
	}
	ks[len(frame)-1] = true
	if len(frame) > 1 {
		ks[len(frame)-2] = true
	}
	for k := range ks {
		c.NPref += 2
		recs, p := replayFile(frame[:k])
		if p != "" || len(recs) != 0 {
			c.Pref = append(c.Pref, k)
		}
		recs, p = replayFile(append(append([]byte{}, frame...), frame[:k]...))
		if p != "" || len(recs) != 1 || !bytes.Equal(recs[0].binary, payload) {
			c.Pref = append(c.Pref, 1000000+k)
		}
	}
	if len(c.Pref) > 0 {
		sortInts(c.Pref)
		c.Oracle = "prefix-accepted"
	}
}

func sortInts(a []int) {
	for i := 1; i < len(a); i++ {
		for j := i; j > 0 && a[j] < a[j-1]; j-- {
			a[j], a[j-1] = a[j-1], a[j]
		}
	}
}
