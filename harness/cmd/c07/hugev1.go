package main

// ONE very large string block in the deprecated version-1 packing (more than 2^24 bytes of string data), so
// that the version dispatch of unpackString is exercised far away from small lengths: the first word of a version-1 packing
// is its data length, and every length below the version words must be taken for version 1. Oracle only (no bytes are
// shipped to the model): the real decoder must return exactly the strings.

import (
	"encoding/binary"

	"github.com/openGemini/openGemini/lib/encoding"
)

func runHugeV1(c *Case) {
	c.K, c.Shape, c.Mode = "string", "huge-v1", -1
	n := 1<<24 + 5
	data := make([]byte, 0, n+64)
	var offs []uint32
	for _, l := range []int{3, n, 0, 7} {
		offs = append(offs, uint32(len(data)))
		for i := 0; i < l; i++ {
			data = append(data, byte(i*131+l))
		}
	}
	c.NPref = len(data)
	var vd []byte
	var vo []uint32
	var err error
	c.Panic = protect(func() {
		v1 := encoding.VerifPackStringV1(data, offs)
		blk := []byte{byte(encoding.VerifConsts()["str_raw"] << 4)}
		blk = binary.BigEndian.AppendUint32(blk, uint32(len(v1)))
		blk = binary.BigEndian.AppendUint32(blk, uint32(len(v1)))
		blk = append(blk, v1...)
		buf := []byte{}
		o := []uint32{}
		ctx := encoding.NewCoderContext()
		sc := encoding.GetStringCoder()
		ctx.SetStringCoder(sc)
		vd, vo, err = encoding.DecodeStringBlock(blk, &buf, &o, ctx)
	})
	if c.Panic != "" {
		c.Oracle, c.Bad = "decode-panic", "huge version-1 block"
		return
	}
	if err != nil {
		c.Oracle, c.EncErr, c.Bad = "decode-error", err.Error(), "huge version-1 block"
		return
	}
	ok := len(vo) == len(offs) && string(vd) == string(data)
	for i := 0; ok && i < len(offs); i++ {
		ok = vo[i] == offs[i]
	}
	if !ok {
		c.Oracle, c.Bad = "roundtrip-differs", "huge version-1 block"
	}
}
