package main

// Rows codec (payload of WAL records and of node-to-node writes): FastMarshalMultiRows -> FastUnmarshalMultiRows with
// the decoder's destination pools REUSED across calls, as engine/wal.go unmarshalRows and lib/pointsdecoder do.
// Direct oracle: (a) the full batch decodes to structurally identical rows; (b) no strict prefix of the marshalled
// bytes is ever accepted (error or recovered panic are both "rejected"); before each prefix the pools are primed with an
// older, larger batch so that acceptance would surface stale rows. Prefixes ending exactly on a row boundary are
// always tried.

import (
	"encoding/hex"
	"fmt"
	"math"

	"github.com/openGemini/openGemini/lib/util/lifted/vm/protoparser/influx"
	"verifharness/internal/gen"
)

type FieldJ struct {
	K    string `json:"k"`
	Ty   int    `json:"ty"`
	S    string `json:"s"`
	Bits uint64 `json:"bits"`
}
type OptJ struct {
	Oid uint32   `json:"oid"`
	L   []uint16 `json:"l"`
}
type RowJ struct {
	N      string      `json:"n"`
	SK     string      `json:"sk"`
	Tags   [][2]string `json:"tags"`
	Fields []FieldJ    `json:"fields"`
	Opts   []OptJ      `json:"opts"`
	T      uint64      `json:"t"`
}

type pools struct {
	rows   []influx.Row
	tags   []influx.Tag
	fields []influx.Field
	opts   []influx.IndexOption
	keys   []byte
}

var rowPool pools

func (p *pools) decode(buf []byte) (rows []influx.Row, err error, pn string) {
	src := make([]byte, len(buf)) // exact capacity: reading past the end must fault, not see stale bytes
	copy(src, buf)
	pn = protect(func() {
		var r []influx.Row
		r, p.tags, p.fields, p.opts, p.keys, err = influx.FastUnmarshalMultiRows(src, p.rows[:0], p.tags[:0], p.fields[:0], p.opts[:0], p.keys[:0])
		if cap(r) > 0 {
			p.rows = r[:cap(r)]
		}
		rows = r
	})
	return
}

func rowsEqual(a, b []influx.Row) bool {
	if len(a) != len(b) {
		return false
	}
	for i := range a {
		x, y := &a[i], &b[i]
		if x.Name != y.Name || string(x.ShardKey) != string(y.ShardKey) || x.Timestamp != y.Timestamp ||
			len(x.Tags) != len(y.Tags) || len(x.Fields) != len(y.Fields) || len(x.IndexOptions) != len(y.IndexOptions) {
			return false
		}
		for j := range x.Tags {
			if x.Tags[j].Key != y.Tags[j].Key || x.Tags[j].Value != y.Tags[j].Value {
				return false
			}
		}
		for j := range x.Fields {
			f, g := x.Fields[j], y.Fields[j]
			// the member the type does not select is not part of the value (a reused pooled Field keeps stale content there)
			if f.Key != g.Key || f.Type != g.Type {
				return false
			}
			if f.Type == influx.Field_Type_String && f.StrValue != g.StrValue {
				return false
			}
			if f.Type != influx.Field_Type_String && math.Float64bits(f.NumValue) != math.Float64bits(g.NumValue) {
				return false
			}
		}
		for j := range x.IndexOptions {
			o, q := x.IndexOptions[j], y.IndexOptions[j]
			if o.Oid != q.Oid || len(o.IndexList) != len(q.IndexList) {
				return false
			}
			for k := range o.IndexList {
				if o.IndexList[k] != q.IndexList[k] {
					return false
				}
			}
		}
	}
	return true
}

func genRowsCase(r *gen.Rand, c *Case) {
	c.K = "rows"
	c.seed = r.Uint64()
	c.Seed = c.seed
	c.Shape = "batch"
}

func runRows(c *Case) {
	r := gen.New(c.Seed)
	c.Mode = -1
	var rows []influx.Row
	nb := r.Range(1, 3)
	for i := 0; i < nb; i++ {
		rows = append(rows, genRows(r)...)
	}
	if r.Chance(1, 4) {
		rows = rows[:1]
	}
	c.Typ = len(rows)
	full, err := influx.FastMarshalMultiRows(nil, rows)
	if err != nil {
		c.Oracle, c.EncErr = "encode-error", err.Error()
		return
	}
	c.Hex = hex.EncodeToString(full)
	if len(full) <= 3000 {
		for i := range rows {
			x := &rows[i]
			rj := RowJ{N: hex.EncodeToString([]byte(x.Name)), SK: hex.EncodeToString(x.ShardKey), T: uint64(x.Timestamp), Tags: [][2]string{}, Fields: []FieldJ{}, Opts: []OptJ{}}
			for _, t := range x.Tags {
				rj.Tags = append(rj.Tags, [2]string{hex.EncodeToString([]byte(t.Key)), hex.EncodeToString([]byte(t.Value))})
			}
			for _, f := range x.Fields {
				rj.Fields = append(rj.Fields, FieldJ{K: hex.EncodeToString([]byte(f.Key)), Ty: int(f.Type), S: hex.EncodeToString([]byte(f.StrValue)), Bits: math.Float64bits(f.NumValue)})
			}
			for _, o := range x.IndexOptions {
				oj := OptJ{Oid: o.Oid, L: []uint16{}}
				oj.L = append(oj.L, o.IndexList...)
				rj.Opts = append(rj.Opts, oj)
			}
			c.RowsJ = append(c.RowsJ, rj)
		}
	}
	// an older and larger batch, decoded before every attempt so that the pools hold stale rows
	old := append(genRows(r), genRows(r)...)
	for len(old) < len(rows)+1 {
		old = append(old, genRows(r)...)
	}
	for i := range old {
		old[i].Name = "stale_0000"
		old[i].Timestamp = int64(900000 + i)
	}
	oldBuf, _ := influx.FastMarshalMultiRows(nil, old)
	prime := func() { _, _, _ = rowPool.decode(oldBuf) }

	prime()
	got, err, pn := rowPool.decode(full)
	if pn != "" {
		c.Panic, c.Oracle = pn, "decode-panic"
		return
	}
	if err != nil {
		c.Oracle, c.EncErr = "decode-error", err.Error()
		return
	}
	if !rowsEqual(got, rows) {
		c.Oracle = "roundtrip-differs"
		c.Bad = rowsDiff(got, rows)
		return
	}
	// row boundaries
	ks := map[int]bool{}
	for n := 0; n < len(rows); n++ {
		part, _ := influx.FastMarshalMultiRows(nil, rows[:n])
		c.Bounds = append(c.Bounds, len(part))
		for d := -1; d <= 1; d++ {
			if k := len(part) + d; k >= 0 && k < len(full) {
				ks[k] = true
			}
		}
	}
	if len(full) <= 400 {
		for k := 0; k < len(full); k++ {
			ks[k] = true
		}
	} else {
		for k := 0; k < 60; k++ {
			ks[k] = true
			ks[r.Intn(len(full))] = true
		}
		ks[len(full)-1] = true
	}
	for k := range ks {
		c.NPref++
		prime()
		out, err, pn := rowPool.decode(full[:k])
		if pn != "" {
			c.PPanic++
			continue
		}
		if err == nil {
			c.Pref = append(c.Pref, k)
			_ = out
		}
	}
	if len(c.Pref) > 0 {
		sortInts(c.Pref)
		c.Oracle = "prefix-accepted"
	}
}

func rowsDiff(a, b []influx.Row) string {
	if len(a) != len(b) {
		return fmt.Sprintf("row count %d want %d", len(a), len(b))
	}
	for i := range a {
		if !rowsEqual(a[i:i+1], b[i:i+1]) {
			return fmt.Sprintf("row %d: got %+v want %+v", i, a[i], b[i])
		}
	}
	return ""
}
