package main

// `c07 scan <repo>`: the static obligation behind the one float format that has no model - tag 1, the deprecated gorilla
// format with openGemini's own bit-level decoder (lib/encoding/float.go), which today's readers still accept:
// NO CODE OF THIS VERSION WRITES IT. Every use of the tag constant in the non-test sources of lib/encoding and
// lib/compress must be its declaration or a comparison (==, !=, case); any other use (a shift into a header byte, an
// append, an assignment, an argument) is reported as a possible write.

import (
	"encoding/json"
	"fmt"
	"go/ast"
	"go/parser"
	"go/token"
	"os"
	"path/filepath"
	"strings"
)

type scanOut struct {
	Decl   int      `json:"decl"`   // declarations seen
	Reads  int      `json:"reads"`  // comparisons / case labels
	Writes []string `json:"writes"` // any other use, file:line
	Files  int      `json:"files"`
}

func scanMain() {
	if len(os.Args) < 3 {
		fmt.Fprintln(os.Stderr, "usage: c07 scan <repo>")
		os.Exit(2)
	}
	repo := os.Args[2]
	names := map[string]map[string]bool{
		"lib/encoding": {"floatCompressedGorilla": true},
		"lib/compress": {"floatCompressedOldGorilla": true},
	}
	out := scanOut{Writes: []string{}}
	fset := token.NewFileSet()
	for dir, ids := range names {
		files, _ := filepath.Glob(filepath.Join(repo, dir, "*.go"))
		for _, fn := range files {
			if strings.HasSuffix(fn, "_test.go") || strings.Contains(filepath.Base(fn), "verif_export") {
				continue
			}
			f, err := parser.ParseFile(fset, fn, nil, 0)
			if err != nil {
				fmt.Fprintln(os.Stderr, "parse", fn, err)
				os.Exit(3)
			}
			out.Files++
			var stack []ast.Node
			ast.Inspect(f, func(n ast.Node) bool {
				if n == nil {
					stack = stack[:len(stack)-1]
					return true
				}
				if id, ok := n.(*ast.Ident); ok && ids[id.Name] {
					parent := stack[len(stack)-1]
					switch p := parent.(type) {
					case *ast.ValueSpec:
						isName := false
						for _, nm := range p.Names {
							if nm == id {
								isName = true
							}
						}
						if isName {
							out.Decl++
						} else {
							out.Writes = append(out.Writes, fset.Position(id.Pos()).String())
						}
					case *ast.BinaryExpr:
						if p.Op == token.EQL || p.Op == token.NEQ {
							out.Reads++
						} else {
							out.Writes = append(out.Writes, fset.Position(id.Pos()).String())
						}
					case *ast.CaseClause:
						out.Reads++
					default:
						out.Writes = append(out.Writes, fset.Position(id.Pos()).String())
					}
				}
				stack = append(stack, n)
				return true
			})
		}
	}
	b, _ := json.Marshal(map[string]any{"scan": out})
	fmt.Println(string(b))
}
