package main

// record.Marshal / record.Unmarshal (wire format of record batches): direct round-trip oracle only - schema, and per
// column values, offsets, null bitmap, bitmap offset, length and nil count must come back identical. No Coq model.

import (
	"bytes"
	"encoding/hex"
	"math"

	"github.com/openGemini/openGemini/lib/record"
	"github.com/openGemini/openGemini/lib/util/lifted/influx/influxql"
	"verifharness/internal/gen"
)

type RecFieldJ struct {
	N  string `json:"n"`
	Ty int    `json:"ty"`
}
type RecColJ struct {
	Len  int      `json:"len"`
	Nil  int      `json:"nil"`
	Off  int      `json:"off"`
	Val  string   `json:"val"`
	Bm   string   `json:"bm"`
	Offs []uint32 `json:"offs"`
}
type RecJ struct {
	Schema []RecFieldJ `json:"schema"`
	Cols   []RecColJ   `json:"cols"`
}

func genRecord(r *gen.Rand, c *Case) {
	c.K = "record"
	c.Shape = []string{"no-null", "all-null", "alternating", "random-null"}[r.Intn(4)]
	c.seed = r.Uint64()
	c.Seed = c.seed
	c.Typ = r.Range(0, 70) // rows
}

func runRecord(c *Case) {
	r := gen.New(c.seed)
	c.Mode = -1
	schema := record.Schemas{
		{Type: int(influxql.Integer), Name: "i"}, {Type: int(influxql.Float), Name: "f"}, {Type: int(influxql.Boolean), Name: "b"},
		{Type: int(influxql.String), Name: "s"}, {Type: int(influxql.Integer), Name: "time"},
	}
	rec := record.NewRecord(schema, false)
	strs := []string{"", "x", "hello world", "\x00\xff", string(bytes.Repeat([]byte("ab"), 200))}
	isNull := func(i int) bool {
		switch c.Shape {
		case "no-null":
			return false
		case "all-null":
			return true
		case "alternating":
			return i%2 == 1
		}
		return r.Bool()
	}
	for i := 0; i < c.Typ; i++ {
		if isNull(i) {
			rec.ColVals[0].AppendIntegerNull()
		} else {
			rec.ColVals[0].AppendInteger(r.Int64Boundary())
		}
		if isNull(i + 1) {
			rec.ColVals[1].AppendFloatNull()
		} else {
			rec.ColVals[1].AppendFloat(math.Float64frombits(special(r)))
		}
		if isNull(i + 2) {
			rec.ColVals[2].AppendBooleanNull()
		} else {
			rec.ColVals[2].AppendBoolean(r.Bool())
		}
		if isNull(i + 3) {
			rec.ColVals[3].AppendStringNull()
		} else {
			rec.ColVals[3].AppendString(strs[r.Intn(len(strs))])
		}
		rec.ColVals[4].AppendInteger(int64(i) * 1000)
	}
	var buf []byte
	got := &record.Record{}
	c.Panic = protect(func() {
		buf = rec.Marshal(nil)
		got.Unmarshal(buf)
	})
	if c.Panic != "" {
		c.Oracle = "decode-panic"
		return
	}
	c.NPref = len(buf)
	if len(buf) <= 4000 {
		c.Hex = hex.EncodeToString(buf)
		rj := &RecJ{}
		for i := range rec.Schema {
			rj.Schema = append(rj.Schema, RecFieldJ{N: hex.EncodeToString([]byte(rec.Schema[i].Name)), Ty: rec.Schema[i].Type})
			cv := &rec.ColVals[i]
			cj := RecColJ{Len: cv.Len, Nil: cv.NilCount, Off: cv.BitMapOffset, Val: hex.EncodeToString(cv.Val), Bm: hex.EncodeToString(cv.Bitmap), Offs: []uint32{}}
			cj.Offs = append(cj.Offs, cv.Offset...)
			rj.Cols = append(rj.Cols, cj)
		}
		c.RecJ = rj
	}
	ok := len(got.Schema) == len(rec.Schema) && len(got.ColVals) == len(rec.ColVals) && len(buf) == rec.CodecSize()
	for i := 0; ok && i < len(rec.Schema); i++ {
		a, b := &rec.ColVals[i], &got.ColVals[i]
		ok = rec.Schema[i] == got.Schema[i] && bytes.Equal(a.Val, b.Val) && bytes.Equal(a.Bitmap, b.Bitmap) &&
			a.Len == b.Len && a.NilCount == b.NilCount && a.BitMapOffset == b.BitMapOffset && len(a.Offset) == len(b.Offset)
		for j := 0; ok && j < len(a.Offset); j++ {
			ok = a.Offset[j] == b.Offset[j]
		}
	}
	if !ok {
		c.Oracle = "roundtrip-differs"
		return
	}
	// strict prefixes and trailing bytes. Record.Unmarshal has no error result: a cut record is "rejected" when the
	// decoder faults (recovered here); the empty prefix is a documented no-op (the destination is left untouched).
	// Every prefix is handed over in a buffer of exactly its length (no spare capacity to read stale bytes from).
	same := func(x *record.Record) bool {
		if len(x.Schema) != len(rec.Schema) || len(x.ColVals) != len(rec.ColVals) {
			return false
		}
		for i := range rec.Schema {
			a, b := &rec.ColVals[i], &x.ColVals[i]
			if rec.Schema[i] != x.Schema[i] || !bytes.Equal(a.Val, b.Val) || !bytes.Equal(a.Bitmap, b.Bitmap) || a.Len != b.Len ||
				a.NilCount != b.NilCount || a.BitMapOffset != b.BitMapOffset || len(a.Offset) != len(b.Offset) {
				return false
			}
			for j := range a.Offset {
				if a.Offset[j] != b.Offset[j] {
					return false
				}
			}
		}
		return true
	}
	ks := map[int]bool{}
	if len(buf) <= 300 {
		for k := 1; k < len(buf); k++ {
			ks[k] = true
		}
	} else {
		for k := 1; k <= 40; k++ {
			ks[k] = true
		}
		for i := 0; i < 60; i++ {
			ks[1+r.Intn(len(buf)-1)] = true
		}
		ks[len(buf)-1], ks[len(buf)-2], ks[len(buf)-4], ks[len(buf)-8] = true, true, true, true
	}
	for k := range ks {
		cut := make([]byte, k)
		copy(cut, buf[:k])
		x := &record.Record{}
		if p := protect(func() { x.Unmarshal(cut) }); p == "" {
			c.Pref = append(c.Pref, k) // a strict prefix decoded without a fault
		} else {
			c.PPanic++
		}
	}
	sortInts(c.Pref)
	if len(c.Pref) > 0 {
		c.Oracle = "prefix-accepted"
		return
	}
	// the empty buffer leaves the destination untouched
	x := &record.Record{}
	if p := protect(func() { x.Unmarshal(nil) }); p != "" || len(x.Schema) != 0 || len(x.ColVals) != 0 {
		c.Oracle, c.Bad = "roundtrip-differs", "empty buffer: "+p
		return
	}
	// trailing bytes after a complete record are ignored
	tail := append(append(make([]byte, 0, len(buf)+9), buf...), 0xff, 0, 1, 2, 0xff, 0xff, 0xff, 0xff, 7)
	y := &record.Record{}
	if p := protect(func() { y.Unmarshal(tail) }); p != "" || !same(y) {
		c.Oracle, c.Bad = "roundtrip-differs", "trailing bytes are not ignored: "+p
	}
}
