package main

// record.Marshal / record.Unmarshal (wire format of record batches): direct round-trip oracle only - schema, and per
// column values, offsets, null bitmap, bitmap offset, length and nil count must come back identical. No Coq model.

import (
	"bytes"
	"encoding/hex"
	"math"

	"github.com/openGemini/openGemini/lib/record"
	"github.com/openGemini/openGemini/lib/util/lifted/influx/influxql"
	"verifharness/internal/gen"
)

type RecFieldJ struct {
	N  string `json:"n"`
	Ty int    `json:"ty"`
}
type RecColJ struct {
	Len  int      `json:"len"`
	Nil  int      `json:"nil"`
	Off  int      `json:"off"`
	Val  string   `json:"val"`
	Bm   string   `json:"bm"`
	Offs []uint32 `json:"offs"`
}
type RecJ struct {
	Schema []RecFieldJ `json:"schema"`
	Cols   []RecColJ   `json:"cols"`
}

func genRecord(r *gen.Rand, c *Case) {
	c.K = "record"
	c.Shape = []string{"no-null", "all-null", "alternating", "random-null"}[r.Intn(4)]
	c.seed = r.Uint64()
	c.Seed = c.seed
	c.Typ = r.Range(0, 70) // rows
}

func runRecord(c *Case) {
	r := gen.New(c.seed)
	c.Mode = -1
	schema := record.Schemas{
		{Type: int(influxql.Integer), Name: "i"}, {Type: int(influxql.Float), Name: "f"}, {Type: int(influxql.Boolean), Name: "b"},
		{Type: int(influxql.String), Name: "s"}, {Type: int(influxql.Integer), Name: "time"},
	}
	rec := record.NewRecord(schema, false)
	strs := []string{"", "x", "hello world", "\x00\xff", string(bytes.Repeat([]byte("ab"), 200))}
	isNull := func(i int) bool {
		switch c.Shape {
		case "no-null":
			return false
		case "all-null":
			return true
		case "alternating":
			return i%2 == 1
		}
		return r.Bool()
	}
	for i := 0; i < c.Typ; i++ {
		if isNull(i) {
			rec.ColVals[0].AppendIntegerNull()
		} else {
			rec.ColVals[0].AppendInteger(r.Int64Boundary())
		}
		if isNull(i + 1) {
			rec.ColVals[1].AppendFloatNull()
		} else {
			rec.ColVals[1].AppendFloat(math.Float64frombits(special(r)))
		}
		if isNull(i + 2) {
			rec.ColVals[2].AppendBooleanNull()
		} else {
			rec.ColVals[2].AppendBoolean(r.Bool())
		}
		if isNull(i + 3) {
			rec.ColVals[3].AppendStringNull()
		} else {
			rec.ColVals[3].AppendString(strs[r.Intn(len(strs))])
		}
		rec.ColVals[4].AppendInteger(int64(i) * 1000)
	}
	var buf []byte
	got := &record.Record{}
	c.Panic = protect(func() {
		buf = rec.Marshal(nil)
		got.Unmarshal(buf)
	})
	if c.Panic != "" {
		c.Oracle = "decode-panic"
		return
	}
	c.NPref = len(buf)
	if len(buf) <= 4000 {
		c.Hex = hex.EncodeToString(buf)
		rj := &RecJ{}
		for i := range rec.Schema {
			rj.Schema = append(rj.Schema, RecFieldJ{N: hex.EncodeToString([]byte(rec.Schema[i].Name)), Ty: rec.Schema[i].Type})
			cv := &rec.ColVals[i]
			cj := RecColJ{Len: cv.Len, Nil: cv.NilCount, Off: cv.BitMapOffset, Val: hex.EncodeToString(cv.Val), Bm: hex.EncodeToString(cv.Bitmap), Offs: []uint32{}}
			cj.Offs = append(cj.Offs, cv.Offset...)
			rj.Cols = append(rj.Cols, cj)
		}
		c.RecJ = rj
	}
	ok := len(got.Schema) == len(rec.Schema) && len(got.ColVals) == len(rec.ColVals) && len(buf) == rec.CodecSize()
	for i := 0; ok && i < len(rec.Schema); i++ {
		a, b := &rec.ColVals[i], &got.ColVals[i]
		ok = rec.Schema[i] == got.Schema[i] && bytes.Equal(a.Val, b.Val) && bytes.Equal(a.Bitmap, b.Bitmap) &&
			a.Len == b.Len && a.NilCount == b.NilCount && a.BitMapOffset == b.BitMapOffset && len(a.Offset) == len(b.Offset)
		for j := 0; ok && j < len(a.Offset); j++ {
			ok = a.Offset[j] == b.Offset[j]
		}
	}
	if !ok {
		c.Oracle = "roundtrip-differs"
	}
}
