package main

// Whole data file: generated multi-series, multi-segment, multi-column contents are written by the REAL MsBuilder
// (WriteData -> EncodeChunk -> chunk meta, meta index, bloom filter, trailer; tmp file renamed), the file is closed,
// REOPENED and read back through the real reader (trailer, meta index, chunk metas, ReadAt per segment). Direct oracle:
// every value bit for bit with its null flag and order, every segment time range, the trailer (id range, id count, time
// range) and the stored per-column statistics (count; min/max with their times, sum where defined) against values
// recomputed from the rows.

import (
	"encoding/binary"
	"encoding/hex"
	"fmt"
	"math"
	"os"
	"path/filepath"

	gsnappy "github.com/golang/snappy"
	"github.com/openGemini/openGemini/engine/immutable"
	"github.com/openGemini/openGemini/lib/util/lifted/encoding/lz4"
	"github.com/openGemini/openGemini/lib/record"
	"github.com/openGemini/openGemini/lib/util/lifted/vm/protoparser/influx"
	"verifharness/internal/gen"
)

type FailJ struct {
	Col    string   `json:"col"`
	Seg    int      `json:"seg"`
	Series int      `json:"series"`
	Msg    string   `json:"msg"`
	Stored []uint64 `json:"stored,omitempty"` // statistics failures: stored min, minT, max, maxT, count, sum
}

type SeriesIn struct {
	ID    uint64   `json:"id"`
	Times []uint64 `json:"times"`
	Cols  []ColIn  `json:"cols"` // sorted by type name: bool float int string (a series may lack some)
}

var fileSeq uint64

func genFile(r *gen.Rand, c *Case) {
	c.K = "file"
	lim := []int{8, 8, 16, 24}[r.Intn(4)]
	c.Lim = lim
	ns := r.Range(1, 4)
	c.CMode = r.Intn(immutable.ChunkMetaCompressEnd) // every chunk-meta-compress-mode (the default is 0)
	c.Shape = fmt.Sprintf("series=%d/cmode=%d", ns, c.CMode)
	id := uint64(r.Range(1, 1000))
	t0 := uint64(1600000000000000000)
	strs := []string{"", "", "x", "0123456789abcde", "0123456789abcdef", "hello world, this is longer than sixteen bytes", "\x00"}
	long := r.Chance(1, 6) // long series: statistics counts of two uvarint bytes (the float block reaches the fixed size)
	if long {
		lim = []int{64, 96}[r.Intn(2)] // the store rounds the segment size up to a multiple of 8
		c.Lim = lim
		c.Shape += "/long"
	}
	for s := 0; s < ns; s++ {
		n := []int{1, 2, lim - 1, lim, lim + 1, 2 * lim, 2*lim + 1, r.Range(1, 3*lim), r.Range(1, 3*lim)}[r.Intn(9)]
		if long && s == 0 {
			n = r.Range(130, 260)
		}
		se := SeriesIn{ID: id}
		id += uint64(r.Range(1, 1<<uint(r.Range(1, 40))))
		tt := t0 + uint64(r.Intn(1000000))
		step := uint64([]int{1, 1000, 1000000000, 7}[r.Intn(4)])
		for i := 0; i < n; i++ {
			se.Times = append(se.Times, tt)
			tt += step + uint64(r.Intn(2))*uint64(r.Intn(5))
		}
		for _, t := range []string{"bool", "float", "int", "string"} {
			if r.Chance(1, 6) {
				continue // this series has no such field
			}
			col := ColIn{T: t, Nulls: genNulls(r, n, lim)}
			// per-column regimes: large-magnitude integers (long varints in the statistics), floats that are all zeros
			// of either sign
			big, zeros := 0, false
			if t == "int" && r.Chance(1, 3) {
				big = r.Range(48, 62)
			}
			if t == "float" && r.Chance(1, 10) {
				zeros = true
			}
			for i := 0; i < n; i++ {
				nn := uint64(1 - col.Nulls[i])
				switch t {
				case "int":
					v := uint64(r.Int64Boundary())
					if big > 0 {
						v = uint64(int64(1)<<uint(big) + int64(r.Uint64()%(1<<uint(big-2))))
						if r.Bool() {
							v = -v
						}
					} else if r.Chance(2, 3) {
						v = uint64(int64(r.Intn(2000) - 1000))
					}
					col.Vals = append(col.Vals, v*nn)
				case "float":
					v := math.Float64bits(float64(r.Intn(2000)-1000) / 8)
					if zeros {
						v = uint64(r.Intn(2)) << 63
					} else if r.Chance(1, 8) {
						v = special(r)
					}
					col.Vals = append(col.Vals, v*nn)
				case "bool":
					col.Vals = append(col.Vals, (r.Uint64()&1)*nn)
				default:
					s := strs[r.Intn(len(strs))]
					if nn == 0 {
						s = ""
					}
					col.Strs = append(col.Strs, hex.EncodeToString([]byte(s)))
				}
			}
			se.Cols = append(se.Cols, col)
		}
		if len(se.Cols) == 0 {
			se.Cols = append(se.Cols, ColIn{T: "int", Nulls: make([]int, n), Vals: make([]uint64, n)})
		}
		c.Series = append(c.Series, se)
	}
}

var tyOf = map[string]int{"int": influx.Field_Type_Int, "float": influx.Field_Type_Float, "bool": influx.Field_Type_Boolean, "string": influx.Field_Type_String}

func buildRecord(cols []ColIn, times []uint64) (*record.Record, record.Schemas) {
	schema := record.Schemas{}
	for _, col := range cols {
		schema = append(schema, record.Field{Type: tyOf[col.T], Name: "f_" + col.T})
	}
	schema = append(schema, record.Field{Type: influx.Field_Type_Int, Name: record.TimeField})
	rec := record.NewRecord(schema, false)
	n := len(times)
	for ci, col := range cols {
		cv := &rec.ColVals[ci]
		for i := 0; i < n; i++ {
			null := col.Nulls[i] == 1
			switch col.T {
			case "int":
				if null {
					cv.AppendIntegerNull()
				} else {
					cv.AppendInteger(int64(col.Vals[i]))
				}
			case "float":
				if null {
					cv.AppendFloatNull()
				} else {
					cv.AppendFloat(math.Float64frombits(col.Vals[i]))
				}
			case "bool":
				if null {
					cv.AppendBooleanNull()
				} else {
					cv.AppendBoolean(col.Vals[i] == 1)
				}
			default:
				if null {
					cv.AppendStringNull()
				} else {
					s, _ := hex.DecodeString(col.Strs[i])
					cv.AppendString(string(s))
				}
			}
		}
	}
	for i := 0; i < n; i++ {
		rec.ColVals[len(cols)].AppendInteger(int64(times[i]))
	}
	return rec, schema
}

// compareSeg compares rows [lo,hi) of the expected column with a decoded segment column; "" when identical.
func compareSeg(col ColIn, lo, hi int, got *record.ColVal) string {
	if got.Len != hi-lo {
		return fmt.Sprintf("Len %d want %d", got.Len, hi-lo)
	}
	nn := 0
	for i := lo; i < hi; i++ {
		null := col.Nulls[i] == 1
		if got.IsNil(i-lo) != null {
			return fmt.Sprintf("row %d: null=%v want %v", i-lo, got.IsNil(i-lo), null)
		}
		if col.T == "string" {
			s, isNil := got.StringValueSafe(i - lo)
			want, _ := hex.DecodeString(col.Strs[i])
			if isNil != null || (!null && s != string(want)) {
				return fmt.Sprintf("row %d: %q nil=%v want %q nil=%v", i-lo, s, isNil, want, null)
			}
			continue
		}
		if null {
			continue
		}
		ok := true
		switch col.T {
		case "int":
			vs := got.IntegerValues()
			ok = nn < len(vs) && uint64(vs[nn]) == col.Vals[i]
		case "float":
			vs := got.FloatValues()
			ok = nn < len(vs) && math.Float64bits(vs[nn]) == col.Vals[i]
		case "bool":
			vs := got.BooleanValues()
			ok = nn < len(vs) && vs[nn] == (col.Vals[i] == 1)
		}
		nn++
		if !ok {
			return fmt.Sprintf("row %d: value differs", i-lo)
		}
	}
	if got.NilCount != (hi-lo)-nnCount(col.Nulls[lo:hi]) {
		return fmt.Sprintf("NilCount %d", got.NilCount)
	}
	return ""
}

// expected statistics of a column, recomputed from the rows with the comparison semantics of the builders
// (first occurrence wins; strict comparisons). what = which parts are comparable for this content.
type expStat struct {
	count                int64
	min, max, sum        uint64
	minT, maxT           int64
	cmpMin, cmpMax, cmpSum bool
	exactSum               bool // float: the sum does not depend on the order of the additions
}

func statOf(col ColIn, times []uint64) expStat {
	var e expStat
	first := true
	var sumI int64
	var sumF float64
	finite := true
	for i := range times {
		if col.Nulls[i] == 1 {
			continue
		}
		e.count++
		if col.T == "string" {
			continue
		}
		v := col.Vals[i]
		less := func(a, b uint64) bool {
			switch col.T {
			case "int":
				return int64(a) < int64(b)
			case "float":
				return math.Float64frombits(a) < math.Float64frombits(b)
			}
			return a < b
		}
		if col.T == "float" {
			f := math.Float64frombits(v)
			if math.IsNaN(f) {
				finite = false // ordering and sum of a column holding a NaN are not defined: only the count is compared
			}
			sumF += f
		}
		if col.T == "int" {
			sumI += int64(v)
		}
		if first || less(v, e.min) {
			if first || less(v, e.min) {
				e.min, e.minT = v, int64(times[i])
			}
		}
		if first || less(e.max, v) {
			e.max, e.maxT = v, int64(times[i])
		}
		first = false
	}
	switch col.T {
	case "int":
		e.sum = uint64(sumI)
		e.cmpSum, e.cmpMin, e.cmpMax = true, e.count > 0, e.count > 0
	case "float":
		e.sum = math.Float64bits(sumF)
		e.cmpMin, e.cmpMax = finite && e.count > 0, finite && e.count > 0
		e.cmpSum = finite && !math.IsNaN(sumF) && !math.IsInf(sumF, 0)
		// order-independent sums only: every value a multiple of 1/8 below 2^40 in magnitude (all partial sums exact)
		e.exactSum = e.cmpSum
		for i := range times {
			if col.Nulls[i] == 0 {
				f := math.Float64frombits(col.Vals[i])
				if math.Abs(f) > 1<<40 || f*8 != math.Trunc(f*8) {
					e.exactSum = false
				}
			}
		}
	case "bool":
		e.cmpMin = e.count > 0
		e.cmpMax = e.count > 0
	}
	return e
}

func runFile(c *Case) {
	walInit()
	c.Mode = -1
	immutable.SetChunkMetaCompressMode(c.CMode)
	defer immutable.SetChunkMetaCompressMode(immutable.ChunkMetaCompressNone)
	dir := filepath.Join(walDir, "tssp")
	_ = os.MkdirAll(dir, 0750)
	fileSeq++
	var ids []uint64
	var recs []*record.Record
	var schemas []record.Schemas
	for _, se := range c.Series {
		rec, schema := buildRecord(se.Cols, se.Times)
		ids, recs, schemas = append(ids, se.ID), append(recs, rec), append(schemas, schema)
	}
	all := record.Schemas{}
	for _, t := range []string{"bool", "float", "int", "string"} {
		all = append(all, record.Field{Type: tyOf[t], Name: "f_" + t})
	}
	all = append(all, record.Field{Type: influx.Field_Type_Int, Name: record.TimeField})
	var path string
	var err error
	c.Panic = protect(func() { path, err = immutable.VerifWriteTSSP(dir, fileSeq, ids, recs, c.Lim) })
	if c.Panic != "" {
		c.Oracle = "encode-panic"
		return
	}
	if err != nil {
		c.Oracle, c.EncErr = "encode-error", err.Error()
		return
	}
	defer os.Remove(path)
	verifyFile(c, path, ids, all)
}

// verifyFile reopens a written data file and compares everything the real reader returns with c.Series (the rows the file
// must hold, series in id order): values, nulls, segment ranges, trailer and stored statistics.
func verifyFile(c *Case, path string, ids []uint64, all record.Schemas) {
	var err error
	if st, e := os.Stat(path); e == nil {
		c.NPref = int(st.Size())
	}
	var vf *immutable.VerifFile
	c.Panic = protect(func() { vf, err = immutable.VerifReadTSSP(path, all) })
	if c.Panic != "" {
		c.Oracle = "decode-panic"
		return
	}
	if err != nil {
		c.Oracle, c.EncErr = "decode-error", err.Error()
		return
	}
	// the whole file as bytes for the model reader (small files only), with the chunk-meta blocks decompressed by the
	// third-party decoders themselves under the compressing modes
	if data, e := os.ReadFile(path); e == nil && len(data) <= 40000 {
		c.FileHex = hex.EncodeToString(data)
		if c.CMode == immutable.ChunkMetaCompressSnappy || c.CMode == immutable.ChunkMetaCompressLZ4 {
			_ = protect(func() {
				lock := ""
				f, e := immutable.OpenTSSPFile(path, &lock, true)
				if e != nil {
					return
				}
				defer func() { _ = f.Close() }()
				for i := 0; i < int(f.MetaIndexItemNum()); i++ {
					mi, e := f.MetaIndexAt(i)
					if e != nil {
						return
					}
					_, _, _, off, _, size := immutable.VerifMetaIndexFields(mi)
					if off < 0 || int(off)+int(size) > len(data) {
						return
					}
					blk := data[off : int(off)+int(size)]
					var d []byte
					if c.CMode == immutable.ChunkMetaCompressSnappy {
						d, e = gsnappy.Decode(nil, blk)
					} else if len(blk) >= 4 {
						d = make([]byte, binary.BigEndian.Uint32(blk))
						var n int
						n, e = lz4.DecompressSafe(blk[4:], d)
						if e == nil {
							d = d[:n]
						}
						blk = blk[4:]
					}
					if e == nil {
						c.Blocks = append(c.Blocks, [2]string{hex.EncodeToString(blk), hex.EncodeToString(d)})
					}
				}
			})
		}
	}
	curSeries := -1
	var curStored []uint64
	c.Hex = hex.EncodeToString(vf.TrailerBytes)
	c.Vals = vf.TrailerFixed
	fail := func(col string, seg int, f string, a ...any) {
		if c.Oracle == "" {
			c.Oracle, c.Bad, c.BadCol, c.BadSeg = "roundtrip-differs", fmt.Sprintf(f, a...), col, seg
		}
		if len(c.Fails) < 40 { // every difference is reported: each one is classified on its own
			c.Fails = append(c.Fails, FailJ{Col: col, Seg: seg, Series: curSeries, Msg: fmt.Sprintf(f, a...), Stored: curStored})
		}
	}
	// trailer
	mnT, mxT := int64(math.MaxInt64), int64(math.MinInt64)
	for _, se := range c.Series {
		if int64(se.Times[0]) < mnT {
			mnT = int64(se.Times[0])
		}
		if int64(se.Times[len(se.Times)-1]) > mxT {
			mxT = int64(se.Times[len(se.Times)-1])
		}
	}
	if vf.IDCount != int64(len(ids)) || vf.MinID != ids[0] || vf.MaxID != ids[len(ids)-1] || vf.MinTime != mnT || vf.MaxTime != mxT {
		fail("trailer", -1, "trailer: ids %d [%d,%d] time [%d,%d], want %d [%d,%d] [%d,%d]", vf.IDCount, vf.MinID, vf.MaxID, vf.MinTime, vf.MaxTime,
			len(ids), ids[0], ids[len(ids)-1], mnT, mxT)
	}
	if len(vf.Series) != len(c.Series) {
		fail("file", -1, "%d series read, want %d", len(vf.Series), len(c.Series))
		return
	}
	for si, se := range c.Series {
		curSeries = si
		got := vf.Series[si]
		n := len(se.Times)
		nseg := (n + c.Lim - 1) / c.Lim
		if got.ID != se.ID || len(got.Segments) != nseg {
			fail("file", -1, "series %d: id %d with %d segments, want id %d with %d", si, got.ID, len(got.Segments), se.ID, nseg)
			continue
		}
		for j := 0; j < nseg; j++ {
			lo, hi := j*c.Lim, (j+1)*c.Lim
			if hi > n {
				hi = n
			}
			rec := got.Segments[j]
			if got.TimeRanges[j] != [2]int64{int64(se.Times[lo]), int64(se.Times[hi-1])} {
				fail("time", j, "series %d segment %d: time range %v want [%d %d]", si, j, got.TimeRanges[j], se.Times[lo], se.Times[hi-1])
			}
			tcol := ColIn{T: "int", Nulls: make([]int, n), Vals: se.Times}
			ti := rec.Schema.FieldIndex(record.TimeField)
			if ti < 0 {
				fail("time", j, "series %d segment %d: no time column", si, j)
				continue
			}
			if d := compareSeg(tcol, lo, hi, &rec.ColVals[ti]); d != "" {
				fail("time", j, "series %d segment %d time: %s", si, j, d)
			}
			for _, col := range se.Cols {
				idx := rec.Schema.FieldIndex("f_" + col.T)
				if idx < 0 {
					fail(col.T, j, "series %d segment %d: column %s missing", si, j, col.T)
					continue
				}
				if d := compareSeg(col, lo, hi, &rec.ColVals[idx]); d != "" {
					fail(col.T, j, "series %d segment %d column %s: %s", si, j, col.T, d)
				}
			}
		}
		// statistics
		if len(got.Stats) != len(se.Cols)+1 {
			fail("stats", -1, "series %d: %d column metas, want %d", si, len(got.Stats), len(se.Cols)+1)
			continue
		}
		c.St = append(c.St, nil)
		for k := range got.Stats { // the data columns, then the time column
			st := got.Stats[k]
			c.St[si] = append(c.St[si], []uint64{st.Min, st.Max, uint64(st.MinT), uint64(st.MaxT), st.Sum, uint64(st.Count)})
		}
		for k, col := range se.Cols {
			st, e := got.Stats[k], statOf(col, se.Times)
			curStored = []uint64{st.Min, uint64(st.MinT), st.Max, uint64(st.MaxT), uint64(st.Count), st.Sum}
			if st.Name != "f_"+col.T || st.Type != tyOf[col.T] {
				fail("stats", -1, "series %d column meta %d is %s/%d", si, k, st.Name, st.Type)
				continue
			}
			if st.Count != e.count {
				fail("stats:"+col.T, -1, "series %d column %s: stored count %d, rows give %d", si, col.T, st.Count, e.count)
			}
			if e.cmpMin && (st.Min != e.min || st.MinT != e.minT) {
				fail("stats:"+col.T, -1, "series %d column %s: stored min %d at %d, rows give %d at %d", si, col.T, st.Min, st.MinT, e.min, e.minT)
			}
			if e.cmpMax && (st.Max != e.max || st.MaxT != e.maxT) {
				fail("stats:"+col.T, -1, "series %d column %s: stored max %d at %d, rows give %d at %d", si, col.T, st.Max, st.MaxT, e.max, e.maxT)
			}
			sumEq := st.Sum == e.sum || (col.T == "float" && math.Float64frombits(st.Sum) == math.Float64frombits(e.sum)) // -0.0 == +0.0
			// a compacted file's float sum is the sum of the source chunks' sums: compared only when the order of the
			// additions cannot matter
			if e.cmpSum && (c.K != "compact" || e.exactSum) && !sumEq {
				fail("stats:"+col.T, -1, "series %d column %s: stored sum %d, rows give %d", si, col.T, st.Sum, e.sum)
			}
		}
		curStored = nil
		if ts := got.Stats[len(se.Cols)]; ts.Name != record.TimeField || ts.Count != int64(n) {
			fail("stats:time", -1, "series %d time column meta: %s count %d want %d", si, ts.Name, ts.Count, n)
		}
	}
}
