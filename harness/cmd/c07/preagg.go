package main

// Stored statistics blocks (engine/immutable/pre_aggregation.go): a generated statistics value is marshalled by the REAL
// writer of its kind under EVERY chunk-meta-compress-mode (after a non-empty prefix, as in the column meta) and read back
// by the real reader into a builder that held other statistics. Direct oracle: every field reads back bit for bit in every
// mode, no error, no panic. The generator steers the length of the variable-length form to the lengths the reader
// dispatches on (one-row length, fixed size) and their neighbours.

import (
	"encoding/binary"
	"encoding/hex"
	"fmt"
	"math"

	"github.com/openGemini/openGemini/engine/immutable"
	"verifharness/internal/gen"
)

type PAModeJ struct {
	Mode int      `json:"mode"`
	Hex  string   `json:"hex"`
	Got  []uint64 `json:"got,omitempty"` // what the real reader returned (field order of F)
	Rest int      `json:"rest"`          // bytes the reader left unread
	Err  string   `json:"err,omitempty"`
}

type PAJ struct {
	Kind  string    `json:"kind"` // int float bool string time
	F     []uint64  `json:"f"`    // min max minT maxT sum count
	Modes []PAModeJ `json:"modes"`
	VLen  int       `json:"vlen"` // generator's estimate of the variable-length form's length
}

var paKinds = map[string]int{"int": immutable.VerifPreAggInt, "float": immutable.VerifPreAggFloat, "bool": immutable.VerifPreAggBool,
	"string": immutable.VerifPreAggString, "time": immutable.VerifPreAggTime}

func uvLen(v uint64) int {
	var b [binary.MaxVarintLen64]byte
	return binary.PutUvarint(b[:], v)
}
func vLen(v uint64) int {
	var b [binary.MaxVarintLen64]byte
	return binary.PutVarint(b[:], int64(v))
}
func scLen(v uint64) int {
	x := int64(v)
	for _, s := range []int64{1e9, 1e6, 1e3} {
		if x%s == 0 {
			return 1 + uvLen(uint64(x/s))
		}
	}
	return 1 + uvLen(v)
}

// a value whose signed varint takes l bytes (l in 1..10)
func magVarint(r *gen.Rand, l int) uint64 {
	var lo, hi uint64 // zig-zag value in [lo, hi]
	if l == 1 {
		lo, hi = 0, 127
	} else if l == 10 {
		lo, hi = 1<<63, math.MaxUint64
	} else {
		lo, hi = 1<<uint(7*(l-1)), 1<<uint(7*l)-1
	}
	z := lo + r.Uint64()%(hi-lo+1)
	if r.Chance(1, 4) {
		z = []uint64{lo, hi}[r.Intn(2)]
	}
	return (z >> 1) ^ -(z & 1) // zig-zag decode
}

func paTime(r *gen.Rand) uint64 {
	base := int64(1600000000) + int64(r.Intn(100000000))
	switch r.Intn(10) {
	case 0:
		return 0
	case 1:
		return uint64(base * 1e9) // whole seconds
	case 2:
		return uint64(base*1e9 + int64(r.Intn(1000))*1e6) // milliseconds
	case 3:
		return uint64(base*1e9 + int64(r.Intn(1000000))*1e3) // microseconds
	case 4:
		return uint64(-(base*1e9 + int64(r.Intn(1000000000)))) // before 1970
	case 5:
		return uint64(r.Int64Boundary())
	case 6:
		return uint64(r.Intn(1000000))
	default:
		return uint64(base*1e9 + int64(r.Intn(1000000000))) // nanosecond, unaligned
	}
}

func paDur(r *gen.Rand) uint64 {
	switch r.Intn(8) {
	case 0:
		return 0
	case 1:
		return uint64(r.Intn(1000)) * 1e9
	case 2, 3:
		return uint64(-int64(1 + r.Uint64()%(1<<uint(r.Range(1, 50))))) // the maximum was seen BEFORE the minimum
	case 4:
		return uint64(r.Int64Boundary())
	default:
		return 1 + r.Uint64()%(1<<uint(r.Range(1, 62)))
	}
}

func paCount(r *gen.Rand) uint64 {
	switch r.Intn(10) {
	case 0:
		return 0
	case 1:
		return 1
	case 2:
		return uint64(r.Range(128, 16383))
	case 3:
		return uint64(r.Range(16384, 3000000))
	case 4:
		return uint64(r.Int64Boundary())
	default:
		return uint64(r.Range(2, 127))
	}
}

func paFloat(r *gen.Rand) uint64 {
	switch r.Intn(8) {
	case 0:
		return 0
	case 1:
		return 1 << 63 // -0.0
	case 2:
		return special(r)
	default:
		return math.Float64bits(float64(r.Intn(200000)-100000) / 16)
	}
}

func paVLen(kind string, f []uint64) int {
	t := uvLen(f[5]) + scLen(f[2]) + scLen(f[3]-f[2])
	if kind == "int" {
		return vLen(f[0]) + vLen(f[1]) + vLen(f[4]) + t
	}
	if math.Float64frombits(f[0]) == 0 && math.Float64frombits(f[1]) == 0 {
		return 1 + t
	}
	return 25 + t
}

func genPreAgg(r *gen.Rand, c *Case) {
	c.K = "preagg"
	pa := &PAJ{}
	c.PA = pa
	switch k := r.Intn(20); {
	case k < 9:
		pa.Kind = "int"
	case k < 17:
		pa.Kind = "float"
	default:
		pa.Kind = []string{"bool", "string", "time"}[k-17]
	}
	f := make([]uint64, 6)
	switch pa.Kind {
	case "bool":
		f[0], f[1] = uint64(r.Intn(3)), uint64([]int{0, 1, 255}[r.Intn(3)])
		f[2], f[3], f[5] = paTime(r), paTime(r), paCount(r)
		c.Shape = "bool"
	case "string":
		f[5] = paCount(r)
		c.Shape = "string"
	case "time":
		f[5] = paCount(r) & 0xffffffff
		c.Shape = "time"
	default:
		// two thirds of the cases are steered to a length the reader dispatches on, or a neighbour
		target := 0
		if r.Chance(2, 3) {
			target = []int{15, 16, 17, 47, 48, 49, 48, 16}[r.Intn(8)]
		}
		for try := 0; try < 400; try++ {
			if pa.Kind == "int" {
				f[0], f[1], f[4] = magVarint(r, r.Range(1, 10)), magVarint(r, r.Range(1, 10)), magVarint(r, r.Range(1, 10))
				if target >= 47 { // large magnitudes
					f[0], f[1], f[4] = magVarint(r, r.Range(6, 10)), magVarint(r, r.Range(6, 10)), magVarint(r, r.Range(6, 10))
				}
			} else {
				f[0], f[1], f[4] = paFloat(r), paFloat(r), paFloat(r)
				if target > 0 && target <= 17 && r.Chance(3, 4) {
					f[0], f[1] = []uint64{0, 1 << 63}[r.Intn(2)], []uint64{0, 1 << 63}[r.Intn(2)] // only the zero form is that short
					if r.Chance(1, 2) {
						f[0], f[1], f[4] = 0, 0, 0
					}
				}
			}
			f[2] = paTime(r)
			f[3] = f[2] + paDur(r)
			f[5] = paCount(r)
			if f[5] == 1 {
				continue // the one-row form is generated below
			}
			if target == 0 || paVLen(pa.Kind, f) == target {
				break
			}
		}
		if f[5] == 1 || (target == 0 && r.Chance(1, 8)) {
			f[5], f[1], f[3], f[4] = 1, f[0], f[2], f[0] // statistics of a single row
		}
		pa.VLen = paVLen(pa.Kind, f)
		c.Shape = fmt.Sprintf("%s/vlen=%s", pa.Kind, map[bool]string{true: "boundary", false: "other"}[pa.VLen >= 15 && pa.VLen <= 17 || pa.VLen >= 47 && pa.VLen <= 49])
		if f[5] == 1 {
			c.Shape = pa.Kind + "/one-row"
		}
	}
	pa.F = f
}

func runPreAgg(c *Case) {
	pa := c.PA
	c.Mode = -1
	kind, ok := paKinds[pa.Kind]
	if !ok || len(pa.F) != 6 {
		c.Oracle, c.Bad = "encode-error", "bad case"
		return
	}
	var f [6]uint64
	copy(f[:], pa.F)
	defer immutable.SetChunkMetaCompressMode(immutable.ChunkMetaCompressNone)
	pa.Modes = nil
	for mode := immutable.ChunkMetaCompressNone; mode < immutable.ChunkMetaCompressEnd; mode++ {
		immutable.SetChunkMetaCompressMode(mode)
		m := PAModeJ{Mode: mode}
		prefix := make([]byte, []int{0, 1, 16, 17, 48, 5}[int((f[5]+uint64(mode))%6)])
		var out []byte
		var err error
		if p := protect(func() { out, err = immutable.VerifPreAggMarshal(kind, f, prefix) }); p != "" {
			c.Panic, c.Oracle, c.Bad = p, "encode-panic", fmt.Sprintf("mode %d", mode)
			pa.Modes = append(pa.Modes, m)
			continue
		}
		if err != nil {
			c.EncErr, c.Oracle, c.Bad = err.Error(), "encode-error", fmt.Sprintf("mode %d", mode)
			pa.Modes = append(pa.Modes, m)
			continue
		}
		m.Hex = hex.EncodeToString(out)
		var got [6]uint64
		if p := protect(func() { got, m.Rest, err = immutable.VerifPreAggUnmarshal(kind, out) }); p != "" {
			c.Panic, c.Oracle, c.Bad = p, "decode-panic", fmt.Sprintf("mode %d", mode)
			pa.Modes = append(pa.Modes, m)
			continue
		}
		if err != nil {
			m.Err = err.Error()
			c.EncErr, c.Oracle, c.Bad = m.Err, "decode-error", fmt.Sprintf("mode %d", mode)
			pa.Modes = append(pa.Modes, m)
			continue
		}
		m.Got = got[:]
		if got != f && c.Oracle == "" {
			c.Oracle, c.Bad = "roundtrip-differs", fmt.Sprintf("mode %d: statistics %v stored as %s read back as %v", mode, f, m.Hex, got)
		}
		pa.Modes = append(pa.Modes, m)
	}
}
