package main

// Compaction: the rows of 1..3 series are spread over the level-0 files of a real table store (as many as a level
// compaction takes), each file written by the real MsBuilder; the store compacts them into one file - with the
// STREAMING compaction (column segments copied, stored statistics of the source chunks MERGED: IntegerPreAgg.merge etc.)
// or the non-streaming one (rows re-encoded) - and the compacted file is reopened and compared with all rows exactly like
// a freshly written file: values, nulls, segment ranges, trailer and the stored statistics against the rows.
// `merge` cases hand two arbitrary statistics blocks to the real merge (hook VerifPreAggMerge) for the Coq model of it.

import (
	"fmt"
	"os"
	"path/filepath"

	"github.com/openGemini/openGemini/engine/immutable"
	"github.com/openGemini/openGemini/lib/config"
	"github.com/openGemini/openGemini/lib/record"
	"github.com/openGemini/openGemini/lib/util"
	"github.com/openGemini/openGemini/lib/util/lifted/vm/protoparser/influx"
	"verifharness/internal/gen"
)

type MGJ struct {
	Kind string   `json:"kind"` // int float
	A    []uint64 `json:"a"`
	B    []uint64 `json:"b"`
	Got  []uint64 `json:"got,omitempty"`
}

type CPJ struct {
	Stream bool        `json:"stream"`          // streaming compaction (statistics merged) or non-streaming (rows re-encoded)
	Files  [][]int     `json:"files"`           // per source file, per series: number of rows taken from the series (0 = absent)
	NOut   int         `json:"nout"`            // files after the compaction
}

var compactSeq int

func genCompact(r *gen.Rand, c *Case) {
	c.K = "compact"
	c.Lim = []int{8, 16}[r.Intn(2)]
	cp := &CPJ{Stream: r.Chance(2, 3)}
	c.CP = cp
	nf := immutable.LeveLMinGroupFiles[0]
	ns := r.Range(1, 3)
	c.Shape = fmt.Sprintf("series=%d/stream=%v", ns, cp.Stream)
	id := uint64(r.Range(1, 1000))
	cp.Files = make([][]int, nf)
	for s := 0; s < ns; s++ {
		se := SeriesIn{ID: id}
		id += uint64(r.Range(1, 1000))
		// rows per file for this series; every series is present in at least two files
		total := 0
		cnt := make([]int, nf)
		for f := 0; f < nf; f++ {
			if r.Chance(3, 4) || f < 2 || s == 0 { // the first series is in every file (no empty source file)
				cnt[f] = []int{1, 2, 3, c.Lim, c.Lim + 1, r.Range(1, 2*c.Lim)}[r.Intn(6)]
			}
			total += cnt[f]
			cp.Files[f] = append(cp.Files[f], cnt[f])
		}
		tt := uint64(1600000000000000000) + uint64(r.Intn(1000000))
		step := uint64([]int{1, 1000, 1000000000, 7}[r.Intn(4)])
		for i := 0; i < total; i++ {
			se.Times = append(se.Times, tt)
			tt += step + uint64(r.Intn(3))
		}
		big, zeros, same := 0, false, r.Chance(1, 4)
		if r.Chance(1, 3) {
			big = r.Range(40, 52) // large magnitudes that float64 still represents exactly
		}
		if r.Chance(1, 8) {
			zeros = true
		}
		for _, t := range []string{"bool", "float", "int", "string"} {
			// every series carries every column in every file: streaming compaction merges column by column
			col := ColIn{T: t, Nulls: make([]int, total)}
			if r.Chance(1, 2) {
				for i := range col.Nulls {
					if r.Chance(1, 4) {
						col.Nulls[i] = 1
					}
				}
			}
			// no source chunk may have a column without any value (such a chunk would not carry the column)
			at := 0
			for f := 0; f < nf; f++ {
				if cnt[f] > 0 {
					col.Nulls[at] = 0
				}
				at += cnt[f]
			}
			for i := 0; i < total; i++ {
				nn := uint64(1 - col.Nulls[i])
				switch t {
				case "int":
					v := uint64(int64(r.Intn(2000) - 1000))
					if big > 0 {
						v = uint64(int64(1)<<uint(big) + int64(r.Uint64()%(1<<uint(big-2))))
						if r.Bool() {
							v = -v
						}
					}
					if same {
						v = uint64(int64(r.Intn(3))) // many equal extremes: the earliest time must win
					}
					col.Vals = append(col.Vals, v*nn)
				case "float":
					v := math64(float64(r.Intn(2000)-1000) / 8)
					if zeros {
						v = uint64(r.Intn(2)) << 63
					} else if same {
						v = math64(float64(r.Intn(3)))
					} else if r.Chance(1, 10) {
						v = special(r)
					}
					col.Vals = append(col.Vals, v*nn)
				case "bool":
					col.Vals = append(col.Vals, (r.Uint64()&1)*nn)
				default:
					s := []string{"", "x", "0123456789abcdef", "hello"}[r.Intn(4)]
					if nn == 0 {
						s = ""
					}
					col.Strs = append(col.Strs, fmt.Sprintf("%x", s))
				}
			}
			se.Cols = append(se.Cols, col)
		}
		c.Series = append(c.Series, se)
	}
}

func sliceCol(col ColIn, lo, hi int) ColIn {
	out := ColIn{T: col.T, Nulls: col.Nulls[lo:hi]}
	if col.T == "string" {
		out.Strs = col.Strs[lo:hi]
	} else {
		out.Vals = col.Vals[lo:hi]
	}
	return out
}

func runCompact(c *Case) {
	walInit()
	c.Mode = -1
	cp := c.CP
	if cp == nil || len(cp.Files) == 0 {
		c.Oracle, c.Bad = "encode-error", "bad case"
		return
	}
	compactSeq++
	dir := filepath.Join(walDir, fmt.Sprintf("compact%d", compactSeq))
	_ = os.MkdirAll(dir, 0750)
	defer os.RemoveAll(dir)
	old := immutable.GetMergeFlag4TsStore()
	if cp.Stream {
		immutable.SetMergeFlag4TsStore(util.StreamingCompact)
	} else {
		immutable.SetMergeFlag4TsStore(util.NonStreamingCompact)
	}
	defer immutable.SetMergeFlag4TsStore(old)
	var path string
	var err error
	var ids []uint64
	for _, se := range c.Series {
		ids = append(ids, se.ID)
	}
	var store *immutable.MmsTables
	c.Panic = protect(func() {
		lock := ""
		tier := uint64(util.Hot)
		conf := immutable.NewTsStoreConfig()
		conf.SetMaxRowsPerSegment(c.Lim)
		store = immutable.NewTableStore(dir, &lock, &tier, true, conf)
		store.SetImmTableType(config.TSSTORE)
		store.CompactionEnable()
		at := make([]int, len(c.Series))
		for f := range cp.Files {
			fileName := immutable.NewTSSPFileName(store.NextSequence(), 0, 0, 0, true, &lock)
			msb := immutable.NewMsBuilder(dir, "mst", &lock, conf, len(c.Series), fileName, store.Tier(), nil, 2, config.TSSTORE, nil, 0)
			wrote := false
			for s, se := range c.Series {
				n := cp.Files[f][s]
				if n == 0 {
					continue
				}
				var cols []ColIn
				for _, col := range se.Cols {
					cols = append(cols, sliceCol(col, at[s], at[s]+n))
				}
				rec, _ := buildRecord(cols, se.Times[at[s]:at[s]+n])
				at[s] += n
				if err = msb.WriteData(se.ID, rec); err != nil {
					return
				}
				wrote = true
			}
			if wrote {
				store.AddTable(msb, true, false)
			}
		}
		if err = store.LevelCompact(0, 1); err != nil {
			return
		}
		store.Wait()
		files, ok := store.GetTSSPFiles("mst", true)
		if !ok {
			err = fmt.Errorf("no files after compaction")
			return
		}
		fs := files.Files()
		cp.NOut = len(fs)
		if len(fs) != 1 {
			err = fmt.Errorf("%d files after compaction", len(fs))
			return
		}
		path = fs[0].Path()
	})
	defer func() {
		if store != nil {
			_ = protect(func() { _ = store.Close() })
		}
	}()
	if c.Panic != "" {
		c.Oracle = "encode-panic"
		return
	}
	if err != nil {
		c.Oracle, c.EncErr = "encode-error", err.Error()
		return
	}
	all := record.Schemas{}
	for _, t := range []string{"bool", "float", "int", "string"} {
		all = append(all, record.Field{Type: tyOf[t], Name: "f_" + t})
	}
	all = append(all, record.Field{Type: influx.Field_Type_Int, Name: record.TimeField})
	verifyFile(c, path, ids, all)
}

func genMerge(r *gen.Rand, c *Case) {
	c.K = "merge"
	mg := &MGJ{Kind: []string{"int", "int", "float"}[r.Intn(3)]}
	c.MG = mg
	c.Shape = mg.Kind
	p53 := int64(1) << 53
	val := func() uint64 {
		if mg.Kind == "float" {
			return paFloat(r)
		}
		switch r.Intn(8) {
		case 0:
			return uint64(p53 + int64(r.Intn(9)) - 4) // around 2^53: ties, odd / even
		case 1:
			return uint64(-(p53 + int64(r.Intn(9)) - 4))
		case 2:
			return uint64(int64(1)<<uint(r.Range(54, 62)) + int64(r.Intn(4097)) - 2048) // beyond: rounded by float64
		case 3:
			return uint64(r.Int64Boundary())
		case 4:
			return uint64(int64(r.Intn(5)) - 2)
		default:
			return magVarint(r, r.Range(1, 10))
		}
	}
	mk := func() []uint64 {
		f := []uint64{val(), val(), paTime(r), paTime(r), val(), paCount(r)}
		return f
	}
	mg.A, mg.B = mk(), mk()
	if r.Chance(1, 3) { // equal extremes: the earlier time must win
		mg.B[0], mg.B[1] = mg.A[0], mg.A[1]
		c.Shape += "/equal"
	}
}

func runMerge(c *Case) {
	c.Mode = -1
	mg := c.MG
	if mg == nil || len(mg.A) != 6 || len(mg.B) != 6 {
		c.Oracle, c.Bad = "encode-error", "bad case"
		return
	}
	kind := paKinds[mg.Kind]
	var a, b, got [6]uint64
	copy(a[:], mg.A)
	copy(b[:], mg.B)
	var err error
	c.Panic = protect(func() { got, err = immutable.VerifPreAggMerge(kind, a, b) })
	if c.Panic != "" {
		c.Oracle = "encode-panic"
		return
	}
	if err != nil {
		c.Oracle, c.EncErr = "encode-error", err.Error()
		return
	}
	mg.Got = got[:]
}
