// C16 harness: drives the real meta catalogue (storeFSM.executeCmd -> meta.Data methods) with generated command
// sequences, dumps the real state canonically after EVERY step and applies the DIRECT ORACLE (the statement's
// well-formedness, oracle.go). One JSON object per case on stdout; the Coq model is run on the same cases by
// props/C16/run.py.
package main

import (
	"bufio"
	"bytes"
	"encoding/json"
	"fmt"
	"io"
	"os"
	"path/filepath"
	"strconv"
	"strings"
	"time"

	"github.com/openGemini/openGemini/app/ts-meta/meta"
	"github.com/openGemini/openGemini/lib/config"
	meta2 "github.com/openGemini/openGemini/lib/util/lifted/influx/meta"
	proto2 "github.com/openGemini/openGemini/lib/util/lifted/influx/meta/proto"
	"go.uber.org/zap"
	"verifharness/internal/gen"
	"verifharness/internal/metacmd"
)

type Cmd = metacmd.Cmd

const (
	MinNano = int64(-1<<63) + 2 // models.MinNanoTime
	MaxNano = int64(1<<63-1) - 1
	Hour    = int64(time.Hour)
	Base    = int64(1700000000) * 1e9 // 2023-11-14T22:13:20Z
)

type Case struct {
	Name     string  `json:"name"`
	Modelled bool    `json:"modelled"`
	PtPer    int     `json:"ptper"`
	SClean   bool    `json:"sclean"`
	XShards  bool    `json:"xshards,omitempty"` // the store expands shard and index groups when a data node joins (expand-shards-enable)
	Cmds     []Cmd   `json:"cmds"`
	Res      []int   `json:"res"` // 0 ok, 1 error, 2 panic
	Dumps    []*Dump `json:"dumps"`
	Oracle   []Fail  `json:"oracle"`
	NonTriv  bool    `json:"nontrivial"`
	Panic    string  `json:"panic,omitempty"`
}

type World struct {
	fsm    *meta.VerifFSM
	ghost  map[uint64]int64
	oracle *Oracle
	prev   *Dump
	cs     *Case
}

func newWorld(name string, modelled bool, ptper int, sclean bool, xshards ...bool) *World {
	c := config.NewMeta()
	c.PtNumPerNode = uint32(ptper)
	c.SchemaCleanEn = sclean
	c.ExpandShardsEnable = len(xshards) > 0 && xshards[0]
	w := &World{fsm: meta.VerifNewFSM(c), ghost: map[uint64]int64{}, oracle: NewOracle()}
	w.cs = &Case{Name: name, Modelled: modelled, PtPer: ptper, SClean: sclean, XShards: c.ExpandShardsEnable, Cmds: []Cmd{}, Res: []int{}, Dumps: []*Dump{}, Oracle: []Fail{}}
	w.prev = dumpData(w.fsm.Data(), w.ghost)
	return w
}

type bufSink struct{ bytes.Buffer }

func (s *bufSink) Close() error  { return nil }
func (s *bufSink) ID() string    { return "verif" }
func (s *bufSink) Cancel() error { return nil }

// restore: what a meta restart or a follower's snapshot install does - storeFSM.Snapshot (clone), Persist (marshal),
// storeFSM.Restore (unmarshal) - replaces the whole catalogue by its persisted form
func (w *World) restore() int {
	snap, err := w.fsm.Snapshot()
	if err != nil {
		return 1
	}
	sink := &bufSink{}
	if err := snap.Persist(sink); err != nil {
		return 1
	}
	if err := w.fsm.Restore(io.NopCloser(bytes.NewReader(sink.Bytes()))); err != nil {
		return 1
	}
	return 0
}

func (w *World) exec(c Cmd) (res int) {
	var pc *proto2.Command
	if c.K != "restore" {
		pc = metacmd.Build(&c)
	}
	func() {
		defer func() {
			if r := recover(); r != nil {
				w.cs.Panic = fmt.Sprint(r) // (stderr is merged into stdout by the driver: never write there)
				res = 2
			}
		}()
		if c.K == "restore" {
			res = w.restore()
			return
		}
		if r := w.fsm.ExecuteCmd(pc); r != nil {
			res = 1
		}
	}()
	cur := dumpData(w.fsm.Data(), w.ghost)
	step := len(w.cs.Cmds)
	fails := w.oracle.Check(step, w.prev, cur, res != 0)
	w.cs.Cmds = append(w.cs.Cmds, c)
	w.cs.Res = append(w.cs.Res, res)
	w.cs.Dumps = append(w.cs.Dumps, cur)
	w.cs.Oracle = append(w.cs.Oracle, fails...)
	w.prev = cur
	return res
}

// ---------------------------------------------------------------------------------------------- generator

var durPool = []int64{0, 0, Hour / 2, Hour, Hour, 2 * Hour, 24 * Hour, 24 * Hour, 7 * 24 * Hour, 30 * 24 * Hour, 200 * 24 * Hour, -Hour, 1}
var sgdPool = []int64{0, Hour, Hour, 2 * Hour, 3 * Hour, 24 * Hour, 24 * Hour, 7 * 24 * Hour}

// mostly valid (retention duration, shard group duration) pairs
func durPair(r *gen.Rand) (*int64, *int64) {
	if r.Chance(1, 6) {
		a, b := gen.Pick(r, durPool), gen.Pick(r, durPool)
		return &a, &b
	}
	sgd := gen.Pick(r, sgdPool)
	d := int64(0)
	if r.Chance(1, 3) {
		d = []int64{7 * 24 * Hour, 30 * 24 * Hour, 200 * 24 * Hour}[r.Intn(3)]
	}
	return &d, &sgd
}

func pickTS(r *gen.Rand, w *World) int64 {
	// collect boundaries of existing groups
	var bounds []int64
	for _, db := range w.prev.DBs {
		for _, rp := range db.RPs {
			for _, g := range rp.SGs {
				for _, s := range []string{g.Start, g.End} {
					if v, err := strconv.ParseInt(s, 10, 64); err == nil {
						bounds = append(bounds, v)
					}
				}
			}
		}
	}
	switch k := r.Intn(23); {
	case k >= 20:
		// around the Unix epoch: the group spans [-d, 0) and [0, d) and their edges
		d := []int64{Hour, 2 * Hour, 24 * Hour, 7 * 24 * Hour}[r.Intn(4)]
		return []int64{0, -1, 1, -d, d - 1, -d - 1, d, d / 2, -d / 2}[r.Intn(9)]
	case k < 9:
		return Base + int64(r.Range(-80, 80))*Hour + int64(r.Intn(3)-1)*int64(r.Intn(1000))
	case k < 14 && len(bounds) > 0:
		b := gen.Pick(r, bounds) + []int64{-1, 0, 1, -Hour, Hour - 1}[r.Intn(5)]
		if b < MinNano {
			b = MinNano
		}
		if b > MaxNano {
			b = MaxNano
		}
		return b
	case k < 16:
		return []int64{MinNano, MinNano + 1, MaxNano, MaxNano - 1, 0, -1, 1, MaxNano - 7*24*Hour, MinNano + 7*24*Hour}[r.Intn(9)]
	case k < 18:
		return Base + int64(r.Range(-400, 400))*24*Hour
	default:
		v := int64(r.Uint64())
		if v < MinNano {
			v = MinNano
		}
		if v > MaxNano {
			v = MaxNano
		}
		return v
	}
}

type pick struct {
	db, rp int
}

func code(s string) int {
	if s == "autogen" {
		return 4
	}
	if len(s) == 3 {
		return int(s[2] - '0')
	}
	return 0
}

func genCmd(r *gen.Rand, w *World, extra bool) Cmd {
	d := w.prev
	// existing (db, rp) pairs, group ids, shard ids, index ids
	var pairs, ready []pick
	var dbs []int
	type gref struct {
		p  pick
		id uint64
	}
	var sgs, sgsDel, igs []gref
	var shards, idxFree []uint64
	used := map[uint64]bool{}
	type mref struct {
		p   pick
		m   int
		ver int
	}
	var msts []mref
	for _, db := range d.DBs {
		dbs = append(dbs, code(db.Key))
		for _, rp := range db.RPs {
			p := pick{code(db.Key), code(rp.Key)}
			pairs = append(pairs, p)
			if !db.Mark && !rp.Mark && len(rp.Msts) > 0 {
				ready = append(ready, p)
			}
			for _, g := range rp.SGs {
				sgs = append(sgs, gref{p, g.ID})
				if g.Deleted {
					sgsDel = append(sgsDel, gref{p, g.ID})
				}
				for _, s := range g.Shards {
					shards = append(shards, s.ID)
					used[s.Index] = true
				}
			}
			for _, m := range rp.Msts {
				ver, _ := strconv.Atoi(m.Key[len(m.Key)-4:])
				msts = append(msts, mref{p, int(m.Orig[1] - '0'), ver})
			}
		}
	}
	for _, db := range d.DBs {
		for _, rp := range db.RPs {
			for _, g := range rp.IGs {
				igs = append(igs, gref{pick{code(db.Key), code(rp.Key)}, g.ID})
				for _, s := range g.Indexes {
					if !used[s.ID] {
						idxFree = append(idxFree, s.ID)
					}
				}
			}
		}
	}
	anyDB := func() int {
		if len(dbs) > 0 && r.Chance(9, 10) {
			return gen.Pick(r, dbs)
		}
		return r.Intn(4) // includes the empty name
	}
	anyPair := func() pick {
		if len(pairs) > 0 && r.Chance(9, 10) {
			p := gen.Pick(r, pairs)
			if r.Chance(1, 12) {
				p.rp = 0 // the empty policy name resolves to the default policy
			}
			return p
		}
		return pick{anyDB(), r.Intn(5)}
	}
	durP := func() *int64 {
		v := gen.Pick(r, durPool)
		return &v
	}
	k := r.Intn(100)
	if len(d.Nodes) == 0 && r.Chance(3, 4) {
		k = 0
	} else if len(dbs) == 0 && r.Chance(2, 3) {
		k = 6
	}
	// commands outside the Coq model (oracle and wf_b only)
	if extra && r.Chance(1, 5) {
		p := anyPair()
		switch r.Intn(4) {
		case 0:
			return Cmd{K: "cnode", H: r.Range(1, 5), T: r.Range(1, 5), X: "reader"}
		case 1:
			return Cmd{K: "altkey", DB: p.db, RP: p.rp, M: r.Range(1, 3), Ver: r.Range(1, 3)}
		case 2:
			return Cmd{K: "updschema", DB: p.db, RP: p.rp, M: r.Range(1, 3), Ver: r.Range(1, 3), Eng: []int{1, 3, 6}[r.Intn(3)]}
		case 3:
			return Cmd{K: "cmst", DB: p.db, RP: p.rp, M: r.Range(1, 3), X: []string{"otherkey", "schema"}[r.Intn(2)]}
		}
	}
	// the commands modelled since round 5: inconsistent schema list, policy rename, cancelled group deletion, node removal,
	// group expansion
	if r.Chance(1, 8) {
		p := anyPair()
		switch r.Intn(7) {
		case 0:
			return Cmd{K: "cmst", DB: p.db, RP: p.rp, M: r.Range(1, 3), X: "badschema"}
		case 1, 2:
			// preferably a group that is marked deleted (and may have been re-created since)
			if len(sgsDel) > 0 && r.Chance(4, 5) {
				g := gen.Pick(r, sgsDel)
				return Cmd{K: "delsg", DB: g.p.db, RP: g.p.rp, ID: g.id, X: "cancel"}
			}
			if len(sgs) > 0 {
				g := gen.Pick(r, sgs)
				return Cmd{K: "delsg", DB: g.p.db, RP: g.p.rp, ID: g.id, X: "cancel"}
			}
		case 3:
			c := Cmd{K: "urp", DB: p.db, RP: p.rp, M: r.Range(1, 3), X: "rename", Def: r.Chance(1, 4)}
			if r.Chance(1, 6) {
				c.M = 0 // the empty name: accepted when the command names the policy through the empty (default) name too
				if r.Chance(2, 3) {
					c.RP = 0
				}
			}
			if r.Chance(1, 3) {
				v := gen.Pick(r, sgdPool)
				c.SGD = &v
			}
			return c
		case 4:
			if len(d.Nodes) > 0 && r.Chance(1, 2) {
				return Cmd{K: "rmnode", ID: gen.Pick(r, d.Nodes).ID}
			}
			return Cmd{K: "rmnode", ID: uint64(r.Intn(5))}
		case 5, 6:
			return Cmd{K: "expand"}
		}
	}
	if r.Chance(1, 22) {
		return Cmd{K: "restore"}
	}
	switch {
	case k < 6: // node join
		h := r.Range(1, 4)
		t := h
		if r.Chance(1, 6) {
			t = r.Range(1, 4)
		}
		return Cmd{K: "cnode", H: h, T: t}
	case k < 14:
		c := Cmd{K: "cdb", DB: r.Range(1, 3)}
		if r.Chance(1, 15) {
			c.DB = 0
		}
		if r.Chance(3, 4) {
			c.HasRP = true
			c.RP = r.Range(1, 3)
			if r.Chance(1, 15) {
				c.RP = 0
			}
			c.D, c.SGD = durPair(r)
		} else {
			c.RP = 4
		}
		return c
	case k < 17:
		return Cmd{K: "markdb", DB: anyDB()}
	case k < 19:
		return Cmd{K: "dropdb", DB: anyDB()}
	case k < 26:
		c := Cmd{K: "crp", DB: anyDB(), RP: r.Range(1, 3), Def: r.Chance(1, 3)}
		c.D, c.SGD = durPair(r)
		if r.Chance(1, 15) {
			c.RP = 0
		}
		return c
	case k < 38:
		p := anyPair()
		c := Cmd{K: "urp", DB: p.db, RP: p.rp, Def: r.Chance(1, 5)}
		if r.Chance(1, 3) {
			c.D = durP()
		}
		if r.Chance(4, 5) {
			v := gen.Pick(r, sgdPool)
			if r.Chance(1, 8) {
				v = gen.Pick(r, durPool)
			}
			c.SGD = &v
		}
		return c
	case k < 41:
		p := anyPair()
		return Cmd{K: "markrp", DB: p.db, RP: p.rp}
	case k < 44:
		p := anyPair()
		return Cmd{K: "droprp", DB: p.db, RP: p.rp}
	case k < 47:
		p := anyPair()
		return Cmd{K: "setdef", DB: p.db, RP: p.rp}
	case k < 55:
		p := anyPair()
		return Cmd{K: "cmst", DB: p.db, RP: p.rp, M: r.Range(1, 3)}
	case k < 58:
		if len(msts) > 0 && r.Chance(4, 5) {
			m := gen.Pick(r, msts)
			return Cmd{K: "markmst", DB: m.p.db, RP: m.p.rp, M: m.m}
		}
		p := anyPair()
		return Cmd{K: "markmst", DB: p.db, RP: p.rp, M: r.Range(1, 3)}
	case k < 61:
		if len(msts) > 0 && r.Chance(4, 5) {
			m := gen.Pick(r, msts)
			return Cmd{K: "dropmst", DB: m.p.db, RP: m.p.rp, M: m.m, Ver: m.ver}
		}
		p := anyPair()
		return Cmd{K: "dropmst", DB: p.db, RP: p.rp, M: r.Range(1, 3), Ver: r.Intn(2)}
	case k < 82:
		p := anyPair()
		if len(ready) > 0 && r.Chance(5, 6) {
			p = gen.Pick(r, ready)
		}
		eng := 0
		if r.Chance(1, 3) {
			eng = 1
		}
		ts := pickTS(r, w)
		// often an instant inside an existing group of this policy, for either engine kind
		if r.Chance(1, 3) {
			var inside []int64
			for _, db := range d.DBs {
				for _, rp := range db.RPs {
					if code(db.Key) == p.db && (code(rp.Key) == p.rp || p.rp == 0) {
						for _, g := range rp.SGs {
							if a, err := strconv.ParseInt(g.Start, 10, 64); err == nil {
								if b, err := strconv.ParseInt(g.End, 10, 64); err == nil && b > a {
									inside = append(inside, a, a+(b-a)/2, b-1)
								}
							}
						}
					}
				}
			}
			if len(inside) > 0 {
				ts = gen.Pick(r, inside)
			}
		}
		return Cmd{K: "csg", DB: p.db, RP: p.rp, TS: ts, Eng: eng}
	case k < 87:
		if len(sgs) > 0 && r.Chance(9, 10) {
			g := gen.Pick(r, sgs)
			return Cmd{K: "delsg", DB: g.p.db, RP: g.p.rp, ID: g.id}
		}
		p := anyPair()
		return Cmd{K: "delsg", DB: p.db, RP: p.rp, ID: uint64(r.Intn(6))}
	case k < 92:
		if len(shards) > 0 && r.Chance(9, 10) {
			return Cmd{K: "prunesg", ID: gen.Pick(r, shards)}
		}
		return Cmd{K: "prunesg", ID: uint64(r.Intn(40))}
	case k < 94:
		if len(igs) > 0 && r.Chance(9, 10) {
			g := gen.Pick(r, igs)
			return Cmd{K: "delig", DB: g.p.db, RP: g.p.rp, ID: g.id}
		}
		p := anyPair()
		return Cmd{K: "delig", DB: p.db, RP: p.rp, ID: uint64(r.Intn(6))}
	case k < 96:
		// environment assumption: an index is pruned only when no shard of the catalogue still refers to it
		if len(idxFree) > 0 {
			return Cmd{K: "pruneig", ID: gen.Pick(r, idxFree)}
		}
		return Cmd{K: "pruneig", ID: d.MaxIx + uint64(r.Range(1, 5))}
	case k < 98:
		// the server creates the partition view BEFORE the database (handlers_process.go createDatabase); a view without
		// its database makes a later node join panic (finding C16-ptview-without-database-panics-on-node-join)
		if len(dbs) > 0 && r.Chance(6, 7) {
			return Cmd{K: "cptv", DB: gen.Pick(r, dbs)}
		}
		return Cmd{K: "cptv", DB: r.Range(1, 3)}
	default:
		if len(d.PtView) > 0 && len(d.PtView[0].Pts) > 0 {
			v := gen.Pick(r, d.PtView)
			p := gen.Pick(r, v.Pts)
			c := Cmd{K: "uptinfo", DB: code(v.DB), Pt: int(p.ID), COwner: p.Owner, CStat: int(p.Status), Status: r.Intn(4), Owner: p.Owner}
			if len(d.Nodes) > 0 && r.Bool() {
				c.Owner = gen.Pick(r, d.Nodes).ID
			}
			if r.Chance(1, 6) {
				c.CStat = r.Intn(4)
			}
			return c
		}
		return Cmd{K: "uptinfo", DB: anyDB(), Pt: r.Intn(3), Status: r.Intn(4)}
	}
}

func genCase(r *gen.Rand, idx int, extra bool) *Case {
	name := fmt.Sprintf("gen-%d", idx)
	if extra {
		name = fmt.Sprintf("extra-%d", idx)
	}
	w := newWorld(name, !extra, r.Range(1, 3), r.Chance(2, 3), r.Chance(1, 5))
	n := r.Range(8, 26)
	// profiles: 0 long sequence, 1 snapshot/restore after every command, 2 two-phase drops (mark, then drop) of databases and
	// policies with work in between, 3 node joins / removals / expansions interleaved with group creation and pruning
	profile := r.Intn(12)
	if profile == 0 {
		n = r.Range(40, 60)
	}
	if r.Chance(5, 6) { // warm-up: a node, a database with a policy, a measurement
		w.exec(Cmd{K: "cnode", H: 1, T: 1})
		c := Cmd{K: "cdb", DB: r.Range(1, 3), HasRP: true, RP: r.Range(1, 3)}
		c.D, c.SGD = durPair(r)
		w.exec(c)
		w.exec(Cmd{K: "cmst", DB: c.DB, RP: c.RP, M: r.Range(1, 3)})
		if profile == 3 {
			// several policies of ONE database with groups: the expansion walks them in name order and hands out ids on the way
			for rp := 1; rp <= 4; rp++ {
				if rp == c.RP || r.Chance(1, 4) {
					continue
				}
				sgd := gen.Pick(r, sgdPool)
				w.exec(Cmd{K: "crp", DB: c.DB, RP: rp, D: i64(0), SGD: &sgd})
				w.exec(Cmd{K: "cmst", DB: c.DB, RP: rp, M: r.Range(1, 3)})
			}
			for _, db := range w.prev.DBs {
				for _, rp := range db.RPs {
					w.exec(Cmd{K: "csg", DB: code(db.Key), RP: code(rp.Key), TS: pickTS(r, w), Eng: r.Intn(2)})
				}
			}
		}
	}
	if profile == 4 || profile == 5 {
		cancelScenario(r, w)
	}
	for i := 0; i < n; i++ {
		c := genCmd(r, w, extra)
		if alt, ok := profileCmd(r, w, profile); ok {
			c = alt
		}
		res := w.exec(c)
		if profile == 1 && res != 2 && c.K != "restore" {
			w.exec(Cmd{K: "restore"})
		}
		if res == 0 && c.X == "rename" && staleKey(w) {
			break // a stale map key makes every later lookup of that policy diverge: one finding per case
		}
		if res == 0 && c.X == "rename" && c.M == 0 {
			// a policy named "" now exists. Internal calls that address a policy by its Name (SchemaClean ->
			// MarkMeasurementDelete(db, "", ..)) then act on the DEFAULT policy instead; the model marks in place. The rename
			// itself is compared; generated cases end here (the scripted corpus case goes on with commands that do not prune)
			break
		}
		if res == 2 {
			break // the state machine panicked: the process is gone
		}
	}
	return finish(w)
}

// staleKey: the last command left a policy under a key that is not its name
func staleKey(w *World) bool {
	step := len(w.cs.Cmds) - 1
	for _, f := range w.cs.Oracle {
		if f.Step == step && f.Kind == "key-name-mismatch" {
			return true
		}
	}
	return false
}

// cancelScenario: a group is created and marked deleted; the shard-group duration is changed (shorter or longer, or left); one
// or two groups are created for instants anywhere in / around the old span (its start, just after it, the middle, the last
// nanosecond, the cell before, the cell after) for either engine kind; then the deletion is cancelled. Whether the guard of the
// cancel must refuse depends on an INTERVAL overlap with a live group of the same engine kind, not on who serves the start.
func cancelScenario(r *gen.Rand, w *World) {
	type ref struct {
		db, rp int
		sgd    int64
	}
	var ready []ref
	for _, db := range w.prev.DBs {
		for _, rp := range db.RPs {
			if !db.Mark && !rp.Mark && len(rp.Msts) > 0 {
				ready = append(ready, ref{code(db.Key), code(rp.Key), rp.SGD})
			}
		}
	}
	if len(ready) == 0 || len(w.prev.Nodes) == 0 {
		return
	}
	p := gen.Pick(r, ready)
	base := Base + int64(r.Range(-40, 40))*Hour
	eng := r.Intn(2)
	before := w.prev.MaxSG
	if w.exec(Cmd{K: "csg", DB: p.db, RP: p.rp, TS: base, Eng: eng}) != 0 || w.prev.MaxSG == before {
		return
	}
	id := w.prev.MaxSG
	var start, end int64
	for _, db := range w.prev.DBs {
		for _, rp := range db.RPs {
			for _, g := range rp.SGs {
				if g.ID == id {
					start, _ = strconv.ParseInt(g.Start, 10, 64)
					end, _ = strconv.ParseInt(g.End, 10, 64)
				}
			}
		}
	}
	if end <= start {
		return
	}
	w.exec(Cmd{K: "delsg", DB: p.db, RP: p.rp, ID: id})
	if r.Chance(4, 5) {
		// shorter and longer durations than the one the deleted group was created under
		pool := []int64{Hour, 2 * Hour, 3 * Hour, 24 * Hour, 7 * 24 * Hour}
		v := gen.Pick(r, pool)
		w.exec(Cmd{K: "urp", DB: p.db, RP: p.rp, SGD: &v})
	}
	span := end - start
	spots := []int64{start, start + 1, start + span/4, start + span/2, start + 3*span/4, end - 1, end, start - 1, start - span/2, end + span/2}
	for k := r.Range(1, 2); k > 0; k-- {
		e := eng
		if r.Chance(1, 5) {
			e = 1 - eng
		}
		w.exec(Cmd{K: "csg", DB: p.db, RP: p.rp, TS: gen.Pick(r, spots), Eng: e})
		if r.Chance(1, 4) {
			v := gen.Pick(r, []int64{Hour, 2 * Hour, 24 * Hour})
			w.exec(Cmd{K: "urp", DB: p.db, RP: p.rp, SGD: &v})
		}
	}
	if r.Chance(1, 6) {
		w.exec(Cmd{K: "restore"})
	}
	w.exec(Cmd{K: "delsg", DB: p.db, RP: p.rp, ID: id, X: "cancel"})
}

// profileCmd replaces some of the generated commands by the ones a profile concentrates on
func profileCmd(r *gen.Rand, w *World, profile int) (Cmd, bool) {
	d := w.prev
	switch profile {
	case 2: // two-phase drops
		if !r.Chance(1, 3) {
			return Cmd{}, false
		}
		for _, db := range d.DBs {
			if db.Mark && r.Chance(1, 2) {
				return Cmd{K: "dropdb", DB: code(db.Key)}, true
			}
			for _, rp := range db.RPs {
				if rp.Mark && r.Chance(1, 2) {
					return Cmd{K: "droprp", DB: code(db.Key), RP: code(rp.Key)}, true
				}
			}
		}
		if len(d.DBs) > 0 {
			db := gen.Pick(r, d.DBs)
			if len(db.RPs) > 0 && r.Chance(2, 3) {
				return Cmd{K: "markrp", DB: code(db.Key), RP: code(gen.Pick(r, db.RPs).Key)}, true
			}
			return Cmd{K: "markdb", DB: code(db.Key)}, true
		}
	case 3: // nodes and expansions
		if !r.Chance(2, 5) {
			return Cmd{}, false
		}
		switch r.Intn(5) {
		case 0:
			h := r.Range(1, 6)
			return Cmd{K: "cnode", H: h, T: h}, true
		case 1:
			if len(d.Nodes) > 1 {
				return Cmd{K: "rmnode", ID: gen.Pick(r, d.Nodes).ID}, true
			}
		case 2:
			return Cmd{K: "expand"}, true
		case 3:
			var shards []uint64
			for _, db := range d.DBs {
				for _, rp := range db.RPs {
					for _, g := range rp.SGs {
						if g.Deleted {
							for _, s := range g.Shards {
								shards = append(shards, s.ID)
							}
						}
					}
				}
			}
			if len(shards) > 0 {
				return Cmd{K: "prunesg", ID: gen.Pick(r, shards)}, true
			}
		}
	}
	return Cmd{}, false
}

func finish(w *World) *Case {
	last := w.cs.Dumps[len(w.cs.Dumps)-1]
	ng := 0
	for _, db := range last.DBs {
		for _, rp := range db.RPs {
			ng += len(rp.SGs)
		}
	}
	w.cs.NonTriv = ng >= 2
	return w.cs
}

// ---------------------------------------------------------------------------------------------- witness corpus

func i64(v int64) *int64 { return &v }

func scripted(name string, ptper int, cmds []Cmd, xshards ...bool) *Case {
	w := newWorld(name, true, ptper, true, xshards...)
	for _, c := range cmds {
		res := w.exec(c)
		if res == 2 || (res == 0 && c.X == "rename" && staleKey(w)) {
			break // (a stale policy key: one finding per case, as in generated cases)
		}
	}
	return finish(w)
}

func corpus() []*Case {
	t10 := int64(1700042400) * 1e9 // 2023-11-15T10:00:00Z
	return []*Case{
		// DESIGN C16 witness: groups of 1h, alter the shard-group duration to 1d, create a group for an instant outside
		// every group of the same day
		scripted("witness-overlap-after-duration-change", 1, []Cmd{
			{K: "cnode", H: 1, T: 1},
			{K: "cdb", DB: 1, HasRP: true, RP: 1, D: i64(0), SGD: i64(Hour)},
			{K: "cmst", DB: 1, RP: 1, M: 1},
			{K: "csg", DB: 1, RP: 1, TS: t10 + 5},
			{K: "urp", DB: 1, RP: 1, SGD: i64(24 * Hour)},
			{K: "csg", DB: 1, RP: 1, TS: t10 + 3*Hour},
		}),
		scripted("witness-shrink-duration", 2, []Cmd{
			{K: "cnode", H: 1, T: 1},
			{K: "cdb", DB: 1, HasRP: true, RP: 1, D: i64(0), SGD: i64(24 * Hour)},
			{K: "cmst", DB: 1, RP: 1, M: 1},
			{K: "csg", DB: 1, RP: 1, TS: t10},
			{K: "urp", DB: 1, RP: 1, SGD: i64(Hour)},
			{K: "csg", DB: 1, RP: 1, TS: t10 + 3*Hour},  // inside the day group: no-op
			{K: "csg", DB: 1, RP: 1, TS: t10 + 30*Hour}, // next day, 1h group
			{K: "urp", DB: 1, RP: 1, SGD: i64(7 * 24 * Hour)},
			{K: "csg", DB: 1, RP: 1, TS: t10 + 60*Hour}, // 7d group over both
		}),
		scripted("witness-drop-default-policy", 1, []Cmd{
			{K: "cnode", H: 1, T: 1},
			{K: "cdb", DB: 1, HasRP: true, RP: 1, D: i64(0), SGD: i64(Hour)},
			{K: "markrp", DB: 1, RP: 1},
			{K: "droprp", DB: 1, RP: 1},
			{K: "csg", DB: 1, RP: 0, TS: t10},
		}),
		// both engine kinds share one sorted group list: a lookup must not stop at a group of the other kind
		scripted("mixed-engine-kinds-same-span", 2, []Cmd{
			{K: "cnode", H: 1, T: 1},
			{K: "cdb", DB: 1, HasRP: true, RP: 1, D: i64(0), SGD: i64(Hour)},
			{K: "cmst", DB: 1, RP: 1, M: 1},
			{K: "csg", DB: 1, RP: 1, TS: t10 + 5}, {K: "csg", DB: 1, RP: 1, TS: t10 + 5, Eng: 1},
			{K: "csg", DB: 1, RP: 1, TS: t10 + 7}, {K: "csg", DB: 1, RP: 1, TS: t10 + 9, Eng: 1},
			{K: "csg", DB: 1, RP: 1, TS: t10 + Hour, Eng: 1}, {K: "csg", DB: 1, RP: 1, TS: t10 + Hour},
			{K: "csg", DB: 1, RP: 1, TS: t10 + 11}, {K: "csg", DB: 1, RP: 1, TS: t10 + Hour + 1, Eng: 1},
			{K: "delsg", DB: 1, RP: 1, ID: 1}, {K: "csg", DB: 1, RP: 1, TS: t10 + 5}, {K: "csg", DB: 1, RP: 1, TS: t10 + 6},
			{K: "restore"}, {K: "csg", DB: 1, RP: 1, TS: t10 + 6}, {K: "csg", DB: 1, RP: 1, TS: t10 + 6, Eng: 1},
		}),
		// groups bordering the Unix epoch survive a snapshot/restore of the catalogue (a stored 0 is the epoch, not year 1)
		scripted("epoch-groups-through-restore", 1, []Cmd{
			{K: "cnode", H: 1, T: 1},
			{K: "cdb", DB: 1, HasRP: true, RP: 1, D: i64(0), SGD: i64(Hour)},
			{K: "cmst", DB: 1, RP: 1, M: 1},
			{K: "csg", DB: 1, RP: 1, TS: -1}, {K: "csg", DB: 1, RP: 1, TS: 0}, {K: "csg", DB: 1, RP: 1, TS: Hour},
			{K: "restore"},
			{K: "csg", DB: 1, RP: 1, TS: -5}, {K: "csg", DB: 1, RP: 1, TS: 5}, {K: "csg", DB: 1, RP: 1, TS: -Hour - 1},
			{K: "urp", DB: 1, RP: 1, SGD: i64(24 * Hour)}, {K: "restore"}, {K: "csg", DB: 1, RP: 1, TS: 2 * Hour},
		}),
		scripted("witness-ptview-without-database", 1, []Cmd{
			{K: "cnode", H: 1, T: 1},
			{K: "cptv", DB: 2}, // what the server does first when asked to create db2
			{K: "cnode", H: 2, T: 2},
		}),
		// a group is marked deleted, a write re-creates its span, the deletion is cancelled (RevertRetentionPolicyDelete)
		scripted("witness-cancel-delete-over-live-group", 1, []Cmd{
			{K: "cnode", H: 1, T: 1},
			{K: "cdb", DB: 1, HasRP: true, RP: 1, D: i64(0), SGD: i64(Hour)},
			{K: "cmst", DB: 1, RP: 1, M: 1},
			{K: "csg", DB: 1, RP: 1, TS: t10 + 5},
			{K: "delsg", DB: 1, RP: 1, ID: 1},
			{K: "delsg", DB: 1, RP: 1, ID: 1, X: "cancel"}, // nothing in the way: revived
			{K: "delsg", DB: 1, RP: 1, ID: 1},
			{K: "csg", DB: 1, RP: 1, TS: t10 + 5},
			{K: "delsg", DB: 1, RP: 1, ID: 1, X: "cancel"},
		}),
		// index groups never end before the shard group they serve (the C14 clause): short index groups, then longer shard groups
		scripted("index-group-covers-longer-shard-group", 2, []Cmd{
			{K: "cnode", H: 1, T: 1},
			{K: "cdb", DB: 1, HasRP: true, RP: 1, D: i64(0), SGD: i64(Hour)},
			{K: "cmst", DB: 1, RP: 1, M: 1},
			{K: "csg", DB: 1, RP: 1, TS: t10 + 5},
			{K: "delsg", DB: 1, RP: 1, ID: 1},
			{K: "urp", DB: 1, RP: 1, SGD: i64(24 * Hour)},
			{K: "csg", DB: 1, RP: 1, TS: t10 + 30*60*1e9}, // inside the old 1h index group, the new group lasts the day
			{K: "csg", DB: 1, RP: 1, TS: t10 + 30*60*1e9, Eng: 1},
			{K: "urp", DB: 1, RP: 1, SGD: i64(3 * Hour)},
			{K: "delsg", DB: 1, RP: 1, ID: 2},
			{K: "csg", DB: 1, RP: 1, TS: t10 + Hour + 5}, // 3h group [09:00,12:00): the day index group is reused
			{K: "cnode", H: 2, T: 2},
			{K: "expand"},
			{K: "csg", DB: 1, RP: 1, TS: t10 + 5*Hour},
			{K: "restore"},
		}),
		// after an expansion the id ranges of different groups interleave: pruning marks only the element with the id
		scripted("expand-interleaves-id-ranges", 1, []Cmd{
			{K: "cnode", H: 1, T: 1},
			{K: "cdb", DB: 1, HasRP: true, RP: 1, D: i64(0), SGD: i64(Hour)},
			{K: "cdb", DB: 2}, // autogen sorts before rp1
			{K: "cmst", DB: 1, RP: 1, M: 1}, {K: "cmst", DB: 2, RP: 4, M: 1},
			{K: "csg", DB: 2, RP: 4, TS: t10}, {K: "csg", DB: 1, RP: 1, TS: t10}, {K: "csg", DB: 1, RP: 1, TS: t10 + Hour},
			{K: "delig", DB: 1, RP: 1, ID: 2},
			{K: "cnode", H: 2, T: 2}, {K: "cnode", H: 3, T: 3},
			{K: "expand"},
			{K: "csg", DB: 1, RP: 1, TS: t10 + 2*Hour},
			{K: "prunesg", ID: 2}, {K: "prunesg", ID: 4}, {K: "prunesg", ID: 5}, {K: "pruneig", ID: 40},
			{K: "delsg", DB: 1, RP: 1, ID: 2}, {K: "prunesg", ID: 2}, {K: "prunesg", ID: 6}, {K: "prunesg", ID: 7},
			{K: "restore"}, {K: "expand"}, {K: "rmnode", ID: 2}, {K: "cnode", H: 4, T: 4}, {K: "expand"},
			{K: "csg", DB: 1, RP: 1, TS: t10 + 3*Hour},
		}),
		// rename a policy (also the default one), keep working under the new name; inconsistent schema lists; unknown databases
		scripted("rename-and-half-applied", 1, []Cmd{
			{K: "cnode", H: 1, T: 1},
			{K: "cptv", DB: 3},
			{K: "dropdb", DB: 3}, // unknown database: nothing happens, the view stays
			{K: "cdb", DB: 1, HasRP: true, RP: 1, D: i64(0), SGD: i64(Hour)},
			{K: "cmst", DB: 1, RP: 1, M: 1, X: "badschema"},
			{K: "cmst", DB: 1, RP: 1, M: 1},
			{K: "cmst", DB: 1, RP: 1, M: 1, X: "badschema"}, // exists: accepted, nothing changes
			{K: "crp", DB: 1, RP: 2, D: i64(0), SGD: i64(Hour)},
			{K: "urp", DB: 1, RP: 1, M: 2, X: "rename"},                          // taken
			{K: "urp", DB: 1, RP: 1, M: 3, X: "rename", SGD: i64(2 * Hour)},      // default policy renamed
			{K: "csg", DB: 1, RP: 0, TS: t10},                                    // default still resolves
			{K: "urp", DB: 1, RP: 2, M: 1, X: "rename", Def: true},               // the freed name
			{K: "urp", DB: 1, RP: 0, M: 2, X: "rename"},                          // through the default name
			{K: "csg", DB: 1, RP: 2, TS: t10 + 5*Hour}, {K: "csg", DB: 1, RP: 3, TS: t10 + 5*Hour},
			{K: "restore"},
			{K: "markrp", DB: 1, RP: 3}, {K: "urp", DB: 1, RP: 3, M: 1, X: "rename"}, {K: "urp", DB: 1, RP: 2, M: 3, X: "rename"},
			{K: "droprp", DB: 1, RP: 3}, {K: "urp", DB: 1, RP: 2, M: 3, X: "rename"},
			{K: "rmnode", ID: 1}, {K: "cdb", DB: 2}, {K: "cnode", H: 1, T: 1}, {K: "cnode", H: 2, T: 2}, {K: "cptv", DB: 2},
		}),
		// the empty policy name: the default policy can be renamed to "" (it is unreachable afterwards, the database has no default);
		// doing it again with another default policy overwrites the first one, with its groups
		scripted("rename-to-the-empty-name", 1, []Cmd{
			{K: "cnode", H: 1, T: 1},
			{K: "cdb", DB: 1, HasRP: true, RP: 1, D: i64(0), SGD: i64(Hour)},
			{K: "crp", DB: 1, RP: 2, D: i64(0), SGD: i64(Hour)},
			{K: "cmst", DB: 1, RP: 1, M: 1}, {K: "cmst", DB: 1, RP: 2, M: 1},
			{K: "csg", DB: 1, RP: 1, TS: t10}, {K: "csg", DB: 1, RP: 2, TS: t10},
			{K: "urp", DB: 1, RP: 1, M: 0, X: "rename"}, // refused: "" resolves to the default policy, which exists
			{K: "urp", DB: 1, RP: 0, M: 0, X: "rename"}, // the default policy becomes ""
			{K: "csg", DB: 1, RP: 0, TS: t10 + Hour},   // no default any more
			{K: "urp", DB: 1, RP: 2, M: 0, X: "rename"}, // accepted now ("" resolves to nothing): overwrites the first ""
			{K: "crp", DB: 1, RP: 3, D: i64(0), SGD: i64(Hour), Def: true},
			{K: "urp", DB: 1, RP: 0, M: 0, X: "rename", Def: true},
			{K: "droprp", DB: 1, RP: 0}, {K: "restore"}, {K: "crp", DB: 1, RP: 1, D: i64(0), SGD: i64(Hour), Def: true}, {K: "csg", DB: 1, RP: 0, TS: t10},
		}),
		// cancel-delete after the shard duration was SHORTENED: the re-created group lies inside the old span without covering
		// its start ([10:00,12:00) deleted, 1h groups, write at 11:30 -> [11:00,12:00)); the guard must refuse (interval overlap)
		scripted("cancel-delete-after-shorter-duration", 1, []Cmd{
			{K: "cnode", H: 1, T: 1},
			{K: "cdb", DB: 1, HasRP: true, RP: 1, D: i64(0), SGD: i64(2 * Hour)},
			{K: "cmst", DB: 1, RP: 1, M: 1},
			{K: "csg", DB: 1, RP: 1, TS: t10 + 5}, {K: "delsg", DB: 1, RP: 1, ID: 1},
			{K: "urp", DB: 1, RP: 1, SGD: i64(Hour)},
			{K: "csg", DB: 1, RP: 1, TS: t10 + 90*60*1e9},
			{K: "delsg", DB: 1, RP: 1, ID: 1, X: "cancel"}, // refused: [11:00,12:00) is live
			{K: "delsg", DB: 1, RP: 1, ID: 2}, {K: "delsg", DB: 1, RP: 1, ID: 1, X: "cancel"}, // accepted now
			{K: "delsg", DB: 1, RP: 1, ID: 2, X: "cancel"}, // refused the other way round
			{K: "csg", DB: 1, RP: 1, TS: t10 + 90*60*1e9, Eng: 1}, {K: "delsg", DB: 1, RP: 1, ID: 1}, {K: "delsg", DB: 1, RP: 1, ID: 1, X: "cancel"}, // other engine kind: no obstacle
		}),
		// ... and after it was made LONGER: the new group [00:00,24:00) would contain the old hour but is clipped around it while it
		// is live; once the hour is deleted the day group takes the span, and the hour cannot come back
		scripted("cancel-delete-after-longer-duration", 1, []Cmd{
			{K: "cnode", H: 1, T: 1},
			{K: "cdb", DB: 1, HasRP: true, RP: 1, D: i64(0), SGD: i64(Hour)},
			{K: "cmst", DB: 1, RP: 1, M: 1},
			{K: "csg", DB: 1, RP: 1, TS: t10 + 5}, {K: "csg", DB: 1, RP: 1, TS: t10 + 2*Hour}, {K: "delsg", DB: 1, RP: 1, ID: 1},
			{K: "urp", DB: 1, RP: 1, SGD: i64(24 * Hour)},
			{K: "csg", DB: 1, RP: 1, TS: t10 - 3*Hour}, // [00:00,12:00): clipped at the live [12:00,13:00), covers the deleted hour
			{K: "delsg", DB: 1, RP: 1, ID: 1, X: "cancel"}, // refused
			{K: "csg", DB: 1, RP: 1, TS: t10 + 5*Hour}, {K: "delsg", DB: 1, RP: 1, ID: 2}, {K: "delsg", DB: 1, RP: 1, ID: 2, X: "cancel"},
			{K: "delsg", DB: 1, RP: 1, ID: 3}, {K: "delsg", DB: 1, RP: 1, ID: 1, X: "cancel"}, {K: "delsg", DB: 1, RP: 1, ID: 3, X: "cancel"},
		}),
		// three policies of one database, each with groups, expanded four times: the walk order decides which ids each gets
		scripted("expand-walks-policies-in-name-order", 1, []Cmd{
			{K: "cnode", H: 1, T: 1},
			{K: "cdb", DB: 1, HasRP: true, RP: 3, D: i64(0), SGD: i64(Hour)},
			{K: "crp", DB: 1, RP: 1, D: i64(0), SGD: i64(Hour)}, {K: "crp", DB: 1, RP: 2, D: i64(0), SGD: i64(2 * Hour)}, {K: "crp", DB: 1, RP: 4, D: i64(0), SGD: i64(Hour)},
			{K: "cmst", DB: 1, RP: 1, M: 1}, {K: "cmst", DB: 1, RP: 2, M: 1}, {K: "cmst", DB: 1, RP: 3, M: 1}, {K: "cmst", DB: 1, RP: 4, M: 1},
			{K: "csg", DB: 1, RP: 3, TS: t10}, {K: "csg", DB: 1, RP: 1, TS: t10}, {K: "csg", DB: 1, RP: 4, TS: t10}, {K: "csg", DB: 1, RP: 2, TS: t10},
			{K: "cnode", H: 2, T: 2}, {K: "expand"}, {K: "cnode", H: 3, T: 3}, {K: "expand"}, {K: "cnode", H: 4, T: 4}, {K: "expand"},
			{K: "cnode", H: 5, T: 5}, {K: "expand"}, {K: "restore"}, {K: "cnode", H: 6, T: 6}, {K: "expand"},
		}),
		// a store with expand-shards-enable: every node that really joins expands all groups inside the same command
		scripted("join-expands-groups", 2, []Cmd{
			{K: "cnode", H: 1, T: 1},
			{K: "cdb", DB: 1, HasRP: true, RP: 1, D: i64(0), SGD: i64(Hour)},
			{K: "cmst", DB: 1, RP: 1, M: 1},
			{K: "csg", DB: 1, RP: 1, TS: t10}, {K: "csg", DB: 1, RP: 1, TS: t10 + Hour, Eng: 1},
			{K: "cnode", H: 2, T: 2}, {K: "cnode", H: 2, T: 2}, {K: "cnode", H: 3, T: 2},
			{K: "delsg", DB: 1, RP: 1, ID: 1}, {K: "prunesg", ID: 1}, {K: "prunesg", ID: 5}, {K: "prunesg", ID: 2}, {K: "prunesg", ID: 6},
			{K: "rmnode", ID: 2}, {K: "cnode", H: 4, T: 4}, {K: "csg", DB: 1, RP: 1, TS: t10}, {K: "restore"}, {K: "cnode", H: 5, T: 5},
		}, true),
		scripted("boundaries-and-failures", 2, []Cmd{
			{K: "cdb", DB: 1, HasRP: true, RP: 1, D: i64(0), SGD: i64(Hour)}, // store not ready
			{K: "cnode", H: 1, T: 1},
			{K: "cnode", H: 1, T: 1},
			{K: "cnode", H: 2, T: 2},
			{K: "cdb", DB: 1},
			{K: "cdb", DB: 1, HasRP: true, RP: 1, D: i64(0), SGD: i64(Hour)}, // exists: no-op
			{K: "crp", DB: 1, RP: 1, D: i64(Hour / 2), SGD: i64(0)},          // too low
			{K: "crp", DB: 1, RP: 1, D: i64(48 * Hour), SGD: i64(0), Def: true},
			{K: "crp", DB: 1, RP: 1, D: i64(48 * Hour), SGD: i64(0), Def: true}, // same: no-op
			{K: "crp", DB: 1, RP: 1, D: i64(72 * Hour), SGD: i64(0)},            // conflict
			{K: "csg", DB: 1, RP: 1, TS: 0},                                     // no measurement
			{K: "cmst", DB: 1, RP: 0, M: 2},
			{K: "cptv", DB: 1},
			{K: "csg", DB: 1, RP: 1, TS: MinNano},
			{K: "csg", DB: 1, RP: 0, TS: MaxNano},
			{K: "csg", DB: 1, RP: 1, TS: MaxNano - 1},
			{K: "csg", DB: 1, RP: 1, TS: -1},
			{K: "csg", DB: 1, RP: 1, TS: 0},
			{K: "csg", DB: 1, RP: 1, TS: 0, Eng: 1},
			{K: "delsg", DB: 1, RP: 1, ID: 3},
			{K: "prunesg", ID: 5},
			{K: "prunesg", ID: 6},
			{K: "csg", DB: 1, RP: 1, TS: -1},
			{K: "markmst", DB: 1, RP: 1, M: 2},
			{K: "dropmst", DB: 1, RP: 1, M: 2, Ver: 0},
			{K: "cmst", DB: 1, RP: 1, M: 2},
			{K: "markdb", DB: 1},
			{K: "csg", DB: 1, RP: 1, TS: 5},
			{K: "dropdb", DB: 1},
		}),
	}
}

func main() {
	meta2.DataLogger = zap.NewNop()
	out := bufio.NewWriterSize(os.Stdout, 1<<20)
	defer out.Flush()
	enc := json.NewEncoder(out)
	if len(os.Args) > 2 && os.Args[1] == "replay" {
		// replay <file>: a JSON object {"ptper":..,"sclean":..,"cmds":[..]}
		b, err := os.ReadFile(os.Args[2])
		if err != nil {
			fmt.Fprintln(os.Stderr, err)
			os.Exit(2)
		}
		var in Case
		if err := json.Unmarshal(b, &in); err != nil {
			fmt.Fprintln(os.Stderr, err)
			os.Exit(2)
		}
		if in.PtPer == 0 {
			in.PtPer = 1
		}
		w := newWorld("replay", in.Modelled, in.PtPer, in.SClean, in.XShards)
		for _, c := range in.Cmds {
			if w.exec(c) == 2 {
				break
			}
		}
		_ = enc.Encode(finish(w))
		return
	}
	n, nx := 200, 60
	if len(os.Args) > 1 {
		n, _ = strconv.Atoi(os.Args[1])
	}
	if len(os.Args) > 2 {
		nx, _ = strconv.Atoi(os.Args[2])
	}
	for _, c := range corpus() {
		_ = enc.Encode(c)
	}
	// minimised past failures and hand-picked cases kept as files (corpus/C16/*.case, same format as a replay)
	if dir := os.Getenv("VERIF_CORPUS"); dir != "" {
		ents, _ := os.ReadDir(dir)
		for _, e := range ents {
			if !strings.HasSuffix(e.Name(), ".case") {
				continue
			}
			b, err := os.ReadFile(filepath.Join(dir, e.Name()))
			if err != nil {
				continue
			}
			var in Case
			if json.Unmarshal(b, &in) != nil {
				fmt.Fprintln(os.Stderr, "c16: bad corpus file", e.Name())
				os.Exit(2)
			}
			if in.PtPer == 0 {
				in.PtPer = 1
			}
			w := newWorld("corpus:"+e.Name(), in.Modelled, in.PtPer, in.SClean, in.XShards)
			for _, c := range in.Cmds {
				if w.exec(c) == 2 {
					break
				}
			}
			_ = enc.Encode(finish(w))
		}
	}
	r := gen.FromEnv(16)
	for i := 0; i < n; i++ {
		_ = enc.Encode(genCase(r.Fork(), i, false))
	}
	for i := 0; i < nx; i++ {
		_ = enc.Encode(genCase(r.Fork(), i, true))
	}
}
