package main

import (
	"math/big"
	"sort"
	"time"

	"github.com/openGemini/openGemini/lib/util/lifted/influx/meta"
)

// Canonical dump of the parts of meta.Data the C16 statement speaks about. Times are exact decimal strings
// (seconds*1e9+nanos, no int64 wrap); wall-clock stamps appear as set/unset only.

type DShard struct {
	ID     uint64   `json:"id"`
	Owners []uint32 `json:"owners"`
	Index  uint64   `json:"index"`
	Mark   bool     `json:"mark"`
}
type DGroup struct {
	ID      uint64   `json:"id"`
	Start   string   `json:"start"`
	End     string   `json:"end"`
	Deleted bool     `json:"deleted"`
	Trunc   bool     `json:"trunc"`
	Eng     int      `json:"eng"`
	Dur     string   `json:"dur"` // ghost: the policy's shard group duration when the group first appeared (harness-tracked)
	Shards  []DShard `json:"shards"`
}
type DIndex struct {
	ID     uint64   `json:"id"`
	Owners []uint32 `json:"owners"`
	Mark   bool     `json:"mark"`
}
type DIGroup struct {
	ID      uint64   `json:"id"`
	Start   string   `json:"start"`
	End     string   `json:"end"`
	Deleted bool     `json:"deleted"`
	Eng     int      `json:"eng"`
	Indexes []DIndex `json:"indexes"`
}
type DMst struct {
	Key  string `json:"key"`
	Name string `json:"name"`
	Orig string `json:"orig"`
	ID   uint64 `json:"id"`
	Mark bool   `json:"mark"`
	NKey int    `json:"nkeys"` // number of shard-key generations
}
type DVer struct {
	Name string `json:"name"`
	NV   string `json:"nv"`
	Ver  uint32 `json:"ver"`
}
type DPolicy struct {
	Key  string    `json:"key"`
	Name string    `json:"name"`
	D    int64     `json:"d"`
	SGD  int64     `json:"sgd"`
	IGD  int64     `json:"igd"`
	Mark bool      `json:"mark"`
	Msts []DMst    `json:"msts"`
	Vers []DVer    `json:"vers"`
	SGs  []DGroup  `json:"sgs"` // slice order of the implementation
	IGs  []DIGroup `json:"igs"`
}
type DDB struct {
	Key     string    `json:"key"`
	Name    string    `json:"name"`
	Default string    `json:"default"`
	Mark    bool      `json:"mark"`
	RPs     []DPolicy `json:"rps"`
}
type DNode struct {
	ID     uint64 `json:"id"`
	Host   string `json:"host"`
	TCP    string `json:"tcp"`
	Role   string `json:"role"`
	Status int    `json:"status"`
	ConnID uint64 `json:"conn"`
}
type DPt struct {
	ID     uint32 `json:"id"`
	Owner  uint64 `json:"owner"`
	Status uint32 `json:"status"`
	Ver    uint64 `json:"ver"`
}
type DPtView struct {
	DB  string `json:"db"`
	Pts []DPt  `json:"pts"`
}
type Dump struct {
	PtNum     uint32    `json:"ptnum"`
	PtPerNode uint32    `json:"ptpernode"`
	MaxNode   uint64    `json:"max_node"`
	MaxSG     uint64    `json:"max_sg"`
	MaxSh     uint64    `json:"max_sh"`
	MaxMst    uint64    `json:"max_mst"`
	MaxIG     uint64    `json:"max_ig"`
	MaxIx     uint64    `json:"max_ix"`
	MaxConn   uint64    `json:"max_conn"`
	Nodes     []DNode   `json:"nodes"`
	PtView    []DPtView `json:"ptview"`
	DBs       []DDB     `json:"dbs"`
}

var e9 = big.NewInt(1000000000)

func ns(t time.Time) string {
	v := new(big.Int).Mul(big.NewInt(t.Unix()), e9)
	v.Add(v, big.NewInt(int64(t.Nanosecond())))
	return v.String()
}

func nsBig(s string) *big.Int {
	v, _ := new(big.Int).SetString(s, 10)
	return v
}

func cpU32(a []uint32) []uint32 {
	r := make([]uint32, len(a))
	copy(r, a)
	return r
}

// dumpData reads the real catalogue. ghost maps shard-group id -> duration in force when it first appeared.
func dumpData(d *meta.Data, ghost map[uint64]int64) *Dump {
	o := &Dump{PtNum: d.ClusterPtNum, PtPerNode: d.PtNumPerNode, MaxNode: d.MaxNodeID, MaxSG: d.MaxShardGroupID,
		MaxSh: d.MaxShardID, MaxMst: d.MaxMstID, MaxIG: d.MaxIndexGroupID, MaxIx: d.MaxIndexID, MaxConn: d.MaxConnID,
		Nodes: []DNode{}, PtView: []DPtView{}, DBs: []DDB{}}
	for i := range d.DataNodes {
		n := &d.DataNodes[i]
		o.Nodes = append(o.Nodes, DNode{ID: n.ID, Host: n.Host, TCP: n.TCPHost, Role: n.Role, Status: int(n.Status), ConnID: n.ConnID})
	}
	for db, pts := range d.PtView {
		v := DPtView{DB: db, Pts: []DPt{}}
		for _, p := range pts {
			v.Pts = append(v.Pts, DPt{ID: p.PtId, Owner: p.Owner.NodeID, Status: uint32(p.Status), Ver: p.Ver})
		}
		o.PtView = append(o.PtView, v)
	}
	sort.Slice(o.PtView, func(i, j int) bool { return o.PtView[i].DB < o.PtView[j].DB })
	for key, dbi := range d.Databases {
		dd := DDB{Key: key, Name: dbi.Name, Default: dbi.DefaultRetentionPolicy, Mark: dbi.MarkDeleted, RPs: []DPolicy{}}
		for rk, rp := range dbi.RetentionPolicies {
			dp := DPolicy{Key: rk, Name: rp.Name, D: int64(rp.Duration), SGD: int64(rp.ShardGroupDuration), IGD: int64(rp.IndexGroupDuration),
				Mark: rp.MarkDeleted, Msts: []DMst{}, Vers: []DVer{}, SGs: []DGroup{}, IGs: []DIGroup{}}
			for mk, m := range rp.Measurements {
				dp.Msts = append(dp.Msts, DMst{Key: mk, Name: m.Name, Orig: m.OriginName(), ID: m.ID, Mark: m.MarkDeleted, NKey: len(m.ShardKeys)})
			}
			sort.Slice(dp.Msts, func(i, j int) bool { return dp.Msts[i].Key < dp.Msts[j].Key })
			for n, v := range rp.MstVersions {
				dp.Vers = append(dp.Vers, DVer{Name: n, NV: v.NameWithVersion, Ver: v.Version})
			}
			sort.Slice(dp.Vers, func(i, j int) bool { return dp.Vers[i].Name < dp.Vers[j].Name })
			for i := range rp.ShardGroups {
				g := &rp.ShardGroups[i]
				if _, ok := ghost[g.ID]; !ok {
					ghost[g.ID] = int64(rp.ShardGroupDuration)
				}
				dg := DGroup{ID: g.ID, Start: ns(g.StartTime), End: ns(g.EndTime), Deleted: g.Deleted(), Trunc: g.Truncated(),
					Eng: int(g.EngineType), Dur: big.NewInt(ghost[g.ID]).String(), Shards: []DShard{}}
				for _, s := range g.Shards {
					dg.Shards = append(dg.Shards, DShard{ID: s.ID, Owners: cpU32(s.Owners), Index: s.IndexID, Mark: s.MarkDelete})
				}
				dp.SGs = append(dp.SGs, dg)
			}
			for i := range rp.IndexGroups {
				g := &rp.IndexGroups[i]
				dg := DIGroup{ID: g.ID, Start: ns(g.StartTime), End: ns(g.EndTime), Deleted: g.Deleted(), Eng: int(g.EngineType), Indexes: []DIndex{}}
				for _, s := range g.Indexes {
					dg.Indexes = append(dg.Indexes, DIndex{ID: s.ID, Owners: cpU32(s.Owners), Mark: s.MarkDelete})
				}
				dp.IGs = append(dp.IGs, dg)
			}
			dd.RPs = append(dd.RPs, dp)
		}
		sort.Slice(dd.RPs, func(i, j int) bool { return dd.RPs[i].Key < dd.RPs[j].Key })
		o.DBs = append(o.DBs, dd)
	}
	sort.Slice(o.DBs, func(i, j int) bool { return o.DBs[i].Key < o.DBs[j].Key })
	return o
}
