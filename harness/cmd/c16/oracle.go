package main

import (
	"encoding/json"
	"fmt"
	"math/big"
)

// DIRECT ORACLE of C16: the property statement evaluated on a canonical dump of the real catalogue.

type Fail struct {
	Step   int               `json:"step"`
	Kind   string            `json:"kind"`
	Detail map[string]string `json:"detail"`
}

type Oracle struct {
	issued map[string]map[uint64]bool // kind -> ids that have ever been present
}

func NewOracle() *Oracle {
	return &Oracle{issued: map[string]map[uint64]bool{"sg": {}, "shard": {}, "ig": {}, "index": {}, "mst": {}, "node": {}}}
}

// nanoseconds between 0001-01-01T00:00:00Z (the anchor of Go's time.Truncate) and the Unix epoch
var year1Offset = new(big.Int).Mul(big.NewInt(62135596800), e9)
var maxNanoPlus1 = new(big.Int).SetUint64(1<<63 - 1) // models.MaxNanoTime + 1

func idsOf(d *Dump) map[string][]uint64 {
	r := map[string][]uint64{"sg": {}, "shard": {}, "ig": {}, "index": {}, "mst": {}, "node": {}}
	for _, n := range d.Nodes {
		r["node"] = append(r["node"], n.ID)
	}
	for _, db := range d.DBs {
		for _, rp := range db.RPs {
			for _, m := range rp.Msts {
				r["mst"] = append(r["mst"], m.ID)
			}
			for _, g := range rp.SGs {
				r["sg"] = append(r["sg"], g.ID)
				for _, s := range g.Shards {
					r["shard"] = append(r["shard"], s.ID)
				}
			}
			for _, g := range rp.IGs {
				r["ig"] = append(r["ig"], g.ID)
				for _, s := range g.Indexes {
					r["index"] = append(r["index"], s.ID)
				}
			}
		}
	}
	return r
}

func counters(d *Dump) map[string]uint64 {
	return map[string]uint64{"sg": d.MaxSG, "shard": d.MaxSh, "ig": d.MaxIG, "index": d.MaxIx, "mst": d.MaxMst, "node": d.MaxNode}
}

func u(x uint64) string { return fmt.Sprintf("%d", x) }

// Check evaluates the statement on cur (the state after step), given prev (the state before) and whether the
// command reported failure.
func (o *Oracle) Check(step int, prev, cur *Dump, failed bool) []Fail {
	var fs []Fail
	add := func(kind string, kv ...string) {
		m := map[string]string{}
		for i := 0; i+1 < len(kv); i += 2 {
			m[kv[i]] = kv[i+1]
		}
		fs = append(fs, Fail{Step: step, Kind: kind, Detail: m})
	}
	// a command that fails leaves the catalogue unchanged
	if failed && prev != nil {
		a, _ := json.Marshal(prev)
		b, _ := json.Marshal(cur)
		if string(a) != string(b) {
			add("failed-changed")
		}
	}
	ids := idsOf(cur)
	cnt := counters(cur)
	// unique, below counters
	for kind, l := range ids {
		seen := map[uint64]bool{}
		for _, id := range l {
			if seen[id] {
				add("dup-id", "what", kind, "id", u(id))
			}
			seen[id] = true
			over := id > cnt[kind] || id == 0
			if kind == "mst" {
				over = id >= cnt[kind] // measurement ids are post-incremented and start at 0
			}
			if over {
				add("id-over-counter", "what", kind, "id", u(id), "counter", u(cnt[kind]))
			}
		}
	}
	// never handed out twice; counters monotone
	var before map[string][]uint64
	if prev != nil {
		before = idsOf(prev)
		pc := counters(prev)
		for k, v := range cnt {
			if v < pc[k] {
				add("counter-decreased", "what", k, "from", u(pc[k]), "to", u(v))
			}
		}
	}
	for kind, l := range ids {
		was := map[uint64]bool{}
		if before != nil {
			for _, id := range before[kind] {
				was[id] = true
			}
		}
		for _, id := range l {
			if !was[id] && o.issued[kind][id] {
				add("id-reused", "what", kind, "id", u(id))
			}
		}
		for _, id := range l {
			o.issued[kind][id] = true
		}
	}
	ptlen := map[string]int{}
	for _, v := range cur.PtView {
		ptlen[v.DB] = len(v.Pts)
	}
	for _, db := range cur.DBs {
		if db.Key != db.Name {
			add("key-name-mismatch", "what", "db", "key", db.Key, "name", db.Name)
		}
		// the default policy exists
		if db.Default != "" {
			ok := false
			for _, rp := range db.RPs {
				if rp.Key == db.Default {
					ok = true
				}
			}
			if !ok {
				add("default-missing", "db", db.Key, "default", db.Default)
			}
		}
		names := map[string]bool{}
		for _, rp := range db.RPs {
			if rp.Key != rp.Name {
				add("key-name-mismatch", "what", "rp", "db", db.Key, "key", rp.Key, "name", rp.Name)
			}
			if names[rp.Name] {
				add("dup-name", "what", "rp", "db", db.Key, "name", rp.Name)
			}
			names[rp.Name] = true
			for _, m := range rp.Msts {
				if m.Key != m.Name {
					add("key-name-mismatch", "what", "mst", "db", db.Key, "rp", rp.Key, "key", m.Key, "name", m.Name)
				}
			}
			o.checkGroups(db.Key, &rp, add)
			// references
			ix := map[uint64]bool{}
			for _, g := range rp.IGs {
				for _, s := range g.Indexes {
					ix[s.ID] = true
				}
			}
			for _, g := range rp.SGs {
				for _, s := range g.Shards {
					if !ix[s.Index] {
						add("dangling-index", "db", db.Key, "rp", rp.Key, "sg", u(g.ID), "shard", u(s.ID), "index", u(s.Index))
					}
					// the index group holding the shard's index does not end before the shard's group (the C14 clause)
					for _, ig := range rp.IGs {
						for _, x := range ig.Indexes {
							if x.ID == s.Index && nsBig(ig.End).Cmp(nsBig(g.End)) < 0 {
								add("index-ends-early", "db", db.Key, "rp", rp.Key, "sg", u(g.ID), "shard", u(s.ID), "ig", u(ig.ID),
									"sg_end", g.End, "ig_end", ig.End)
							}
						}
					}
					if len(s.Owners) == 0 {
						add("dangling-owner", "db", db.Key, "rp", rp.Key, "shard", u(s.ID), "pt", "none")
					}
					for _, p := range s.Owners {
						bad := p >= cur.PtNum
						if n, ok := ptlen[db.Key]; ok && int(p) >= n {
							bad = true
						}
						if bad {
							add("dangling-owner", "db", db.Key, "rp", rp.Key, "shard", u(s.ID), "pt", u(uint64(p)))
						}
					}
				}
			}
		}
	}
	// every partition view has one entry per cluster partition, entry i describes partition i, owners are known ids
	for _, v := range cur.PtView {
		if len(v.Pts) != int(cur.PtNum) {
			add("ptview-size", "db", v.DB, "len", u(uint64(len(v.Pts))), "ptnum", u(uint64(cur.PtNum)))
		}
		for i, p := range v.Pts {
			if int(p.ID) != i {
				add("ptview-id", "db", v.DB, "pos", u(uint64(i)), "id", u(uint64(p.ID)))
			}
		}
	}
	return fs
}

func (o *Oracle) checkGroups(db string, rp *DPolicy, add func(kind string, kv ...string)) {
	type span struct {
		g    *DGroup
		s, e *big.Int
	}
	var all []span
	for i := range rp.SGs {
		g := &rp.SGs[i]
		all = append(all, span{g, nsBig(g.Start), nsBig(g.End)})
	}
	// sorted as the implementation promises: by end, then start (whole slice)
	for i := 0; i+1 < len(all); i++ {
		a, b := all[i], all[i+1]
		c := a.e.Cmp(b.e)
		if c > 0 || (c == 0 && a.s.Cmp(b.s) > 0) {
			add("unsorted", "db", db, "rp", rp.Key, "g1", u(a.g.ID), "g2", u(b.g.ID))
		}
	}
	for i, a := range all {
		if a.g.Deleted {
			continue
		}
		// duration-aligned: inside one cell [k*d, (k+1)*d) (anchored at year 1, as time.Truncate) of the duration in
		// force at creation, non-empty
		d := nsBig(a.g.Dur)
		if a.s.Cmp(a.e) >= 0 {
			add("empty-span", "db", db, "rp", rp.Key, "g", u(a.g.ID), "start", a.g.Start, "end", a.g.End)
		} else if d.Sign() > 0 {
			off := new(big.Int).Add(a.s, year1Offset)
			r := new(big.Int).Mod(off, d)
			cellStart := new(big.Int).Sub(a.s, r)
			cellEnd := new(big.Int).Add(cellStart, d)
			if cellEnd.Cmp(maxNanoPlus1) > 0 {
				cellEnd = maxNanoPlus1
			}
			if a.e.Cmp(cellEnd) > 0 {
				add("unaligned", "db", db, "rp", rp.Key, "g", u(a.g.ID), "start", a.g.Start, "end", a.g.End, "dur", a.g.Dur)
			}
		}
		// pairwise disjoint among live groups of the same engine type
		for j := i + 1; j < len(all); j++ {
			b := all[j]
			if b.g.Deleted || b.g.Eng != a.g.Eng {
				continue
			}
			if a.s.Cmp(b.e) < 0 && b.s.Cmp(a.e) < 0 {
				add("overlap", "db", db, "rp", rp.Key, "g1", u(a.g.ID), "g2", u(b.g.ID), "dur1", a.g.Dur, "dur2", b.g.Dur,
					"s1", a.g.Start, "e1", a.g.End, "s2", b.g.Start, "e2", b.g.End)
			}
		}
	}
}
