// C17 correspondence harness: drives the real lib/raftlog.RaftDiskStorage (directory under VERIF_WORK) and etcd's
// raft.MemoryStorage (the direct oracle) with the same generated operation sequences, and prints one JSON object
// per case: the operations, what the disk store answered after every operation, and every answer on which the
// disk store and the reference disagree. The Coq model is evaluated on the same cases by props/C17/run.py.
//
// Usage: c17 gen <nsmall> <nsize> <ncount>      generated cases (corpus/witness cases always run first)
//
//	c17 replay <file.json>                 re-run the ops of one case
//	c17 consts                             print the constants the generator assumes (cross-check only)
package main

import (
	"encoding/json"
	"fmt"
	"math"
	"os"
	"path/filepath"
	"sort"
	"strconv"

	"github.com/openGemini/openGemini/lib/config"
	"github.com/openGemini/openGemini/lib/logger"
	"github.com/openGemini/openGemini/lib/raftlog"
	"go.etcd.io/etcd/raft/v3"
	"go.etcd.io/etcd/raft/v3/raftpb"
	"go.uber.org/zap"
	"verifharness/internal/gen"
)

// ---- case format ----

// Seg describes N consecutive entries: entry k has Index F+k, Term T, Type Y, payload of L bytes identified by
// tag tagOf(G+k, L).
type Seg struct {
	F uint64 `json:"f"`
	N int    `json:"n"`
	T uint64 `json:"t"`
	Y int    `json:"y"`
	L int    `json:"l"`
	G uint64 `json:"g"`
}

type SnapD struct {
	I uint64   `json:"i"`
	T uint64   `json:"t"`
	V []uint64 `json:"v"` // voters; nil = absent
	D  uint64  `json:"d"`            // data tag (8 bytes payload unless dl is given), 0 = no data
	DL int     `json:"dl,omitempty"` // data length (default 8)
}

func (d *SnapD) dataLen() int {
	if d.DL > 0 {
		return d.DL
	}
	return 8
}

type Op struct {
	K    string     `json:"k"` // save ents term csnap del reopen crash meta sum
	Segs []Seg      `json:"segs,omitempty"`
	HS   *[3]uint64 `json:"hs,omitempty"` // term vote commit
	Snap *SnapD     `json:"snap,omitempty"`
	Lo   uint64     `json:"lo,omitempty"`
	Hi   uint64     `json:"hi,omitempty"`
	Max  uint64     `json:"max,omitempty"`
	I    uint64     `json:"i,omitempty"`
	Step uint64     `json:"step,omitempty"` // cdel/fdel/fcsnap/finit: the file-system step that fails (f...) - unused for c...
}

// Out is what the disk store answered. E: 0 ok, 1 compacted, 2 unavailable, 3 snapshot out of date, 9 other error.
type Out struct {
	E    int         `json:"e"`
	F    uint64      `json:"f"` // FirstIndex after the op
	L    uint64      `json:"l"` // LastIndex after the op
	Es   [][5]uint64 `json:"es,omitempty"`
	T    uint64      `json:"t,omitempty"`
	HS   *[3]uint64  `json:"hs,omitempty"`
	Snap *SnapD      `json:"snap,omitempty"`
	Cnt  uint64      `json:"cnt,omitempty"`
	Sum  uint64      `json:"sum,omitempty"`
	// classification of a save on the implementation (for the finding signature): the first new index was found by
	// SlotGe in a rotated file (file index >= 0) at slot > 0
	EarlierConflict bool `json:"ec,omitempty"`
	// fsave: the failed step as a fault of the Coq model, and what the live store answered right after the failure
	Fault *FaultObs `json:"fault,omitempty"`
	// fdel: the failed removal as a fault of the Coq model (Model.delete_fail): I removals were done before the failing one,
	// Rep = DeleteBefore reported the error, F = first index of the live store right after it
	DelFault *DelFaultObs `json:"delfault,omitempty"`
	// bytes: raw contents of the directory (slot records, cell length words, meta records)
	Raw *RawObs `json:"raw,omitempty"`
}

type DelFaultObs struct {
	I   int    `json:"i"`
	Rep bool   `json:"rep"`
	F   uint64 `json:"f"`
}

// RawObs: for entry file number Fi (ordered by first index, files without entries last) the slot records [St, St+N) as bytes
// and the length words of the cells of the live ones; the hard state record at offset 512 and the 16 bytes at offset 1024
// of raft.meta.
type RawObs struct {
	Wins []RawWin `json:"wins"`
	HS   []int    `json:"hs"`
	SH   []int    `json:"sh"`
}
type RawWin struct {
	Fi int      `json:"fi"`
	St int      `json:"st"`
	N  int      `json:"n"`
	B  []uint64 `json:"b"`
	L  []uint64 `json:"l"`
}

// FaultObs: K clear|entry|hs|snap, J/Rot for entry (see faultOf), Rep = the Save reported an error; F, L, Cnt, Sum = first
// index, last index and full-scan checksum of the live store after the failed Save (before the retry).
type FaultObs struct {
	K   string `json:"k"`
	J   int    `json:"j"`
	Rot bool   `json:"rot"`
	C   uint64 `json:"c"` // clear: slots already cleared (from the top) by completed pieces when the failing piece was issued
	Rep bool   `json:"rep"`
	F   uint64 `json:"f"`
	L   uint64 `json:"l"`
	Cnt uint64 `json:"cnt"`
	Sum uint64 `json:"sum"`
}

type Case struct {
	Case     int            `json:"case"`
	Kind     string         `json:"kind"`
	Ops      []Op           `json:"ops"`
	Outs     []Out          `json:"outs"`
	Oracle   []string       `json:"oracle"`   // direct-oracle failures
	OrKinds  []string       `json:"orkinds"`  // one machine-readable kind per failure
	Clob     []uint64       `json:"clob"`     // first indexes of files hit by an earlier-file conflict at slot > 0
	Unrep    []int          `json:"unrep"`    // ops (fsave) whose injected zero-fill write error Save did not report
	UnrepDel []int          `json:"unrepdel"` // ops (fsave) whose injected file-removal error Save did not report
	UnrepDB  []int          `json:"unrepdb"`  // ops (fdel) whose injected file-removal error DeleteBefore did not report
	Stats    map[string]int `json:"stats"`
}

// ---- payloads ----

func tagOf(x uint64, l int) uint64 {
	switch {
	case l == 0:
		return 0
	case l == 1:
		return x % 256
	default:
		return x % 65536
	}
}

func payload(l int, tag uint64) []byte {
	if l == 0 {
		return nil
	}
	b := make([]byte, l)
	lo, hi := byte(tag), byte(tag>>8)
	for i := 0; i+1 < l; i += 2 {
		s := byte((i >> 1) * 37)
		b[i] = lo + s
		b[i+1] = hi + s
	}
	if l&1 == 1 {
		b[l-1] = lo + byte(((l-1)>>1)*37)
	}
	return b
}

const garbage = 1 << 20

// identify maps bytes back to (len, tag); a payload that is not one of ours gets a tag >= garbage.
func identify(d []byte) (uint64, uint64) {
	l := len(d)
	if l == 0 {
		return 0, 0
	}
	var tag uint64
	if l == 1 {
		tag = uint64(d[0])
	} else {
		tag = uint64(d[0]) | uint64(d[1])<<8
	}
	want := payload(l, tag)
	for i := range d {
		if d[i] != want[i] {
			return uint64(l), garbage + uint64(i%1000)
		}
	}
	return uint64(l), tag
}

func segEntries(segs []Seg) []raftpb.Entry {
	var es []raftpb.Entry
	for _, s := range segs {
		for k := 0; k < s.N; k++ {
			es = append(es, raftpb.Entry{Index: s.F + uint64(k), Term: s.T, Type: raftpb.EntryType(s.Y),
				Data: payload(s.L, tagOf(s.G+uint64(k), s.L))})
		}
	}
	return es
}

func entTuple(e raftpb.Entry) [5]uint64 {
	l, t := identify(e.Data)
	return [5]uint64{e.Index, e.Term, uint64(e.Type), l, t}
}

func errCode(err error) int {
	switch err {
	case nil:
		return 0
	case raft.ErrCompacted:
		return 1
	case raft.ErrUnavailable:
		return 2
	case raft.ErrSnapOutOfDate:
		return 3
	}
	return 9
}

// ---- the world: real store + reference ----

type world struct {
	dir    string
	ds     *raftlog.RaftDiskStorage
	ms     *raft.MemoryStorage // compacted like the disk store (Compact(first-1) whenever the disk's first index moved)
	full   *raft.MemoryStorage // never compacted: the true term of every index ever saved and still valid
	hs     raftpb.HardState
	snap   raftpb.Snapshot
	si     uint64
	c      *Case
	fdLeak []*raftlog.RaftDiskStorage
	fault  *FaultObs // set by faultSave for the op being applied
	dfault *DelFaultObs
}

func newWorld(dir string, c *Case) (*world, error) {
	ds, err := raftlog.Init(dir, 0)
	if err != nil {
		return nil, err
	}
	return &world{dir: dir, ds: ds, ms: raft.NewMemoryStorage(), full: raft.NewMemoryStorage(), c: c}, nil
}

func (w *world) fail(kind, f string, a ...any) {
	if len(w.c.Oracle) < 20 {
		w.c.Oracle = append(w.c.Oracle, fmt.Sprintf("op %d: ", len(w.c.Outs))+fmt.Sprintf(f, a...))
		w.c.OrKinds = append(w.c.OrKinds, kind)
	}
}

func msFirstLast(ms *raft.MemoryStorage) (uint64, uint64) {
	f, _ := ms.FirstIndex()
	l, _ := ms.LastIndex()
	return f, l
}

// reference answer of Entries, with MemoryStorage's panics mapped to the contract's error values
func refEntries(ms *raft.MemoryStorage, lo, hi, max uint64) (es []raftpb.Entry, code int) {
	f, l := msFirstLast(ms)
	if lo < f {
		return nil, 1
	}
	if hi > l+1 {
		return nil, 2
	}
	if lo == hi {
		return nil, 0
	}
	es, err := ms.Entries(lo, hi, max)
	return es, errCode(err)
}

func (w *world) syncCompaction() {
	f, _ := w.ds.FirstIndex()
	mf, ml := msFirstLast(w.ms)
	if f > mf && f-1 <= ml {
		_ = w.ms.Compact(f - 1)
	}
}

func (w *world) checkFirstLast(o *Out) {
	f, _ := w.ds.FirstIndex()
	l, _ := w.ds.LastIndex()
	o.F, o.L = f, l
	mf, ml := msFirstLast(w.ms)
	if f != mf || l != ml {
		w.fail("firstlast", "first/last disk=(%d,%d) reference=(%d,%d)", f, l, mf, ml)
	}
}

func snapOf(d *SnapD) *raftpb.Snapshot {
	if d == nil {
		return nil
	}
	s := &raftpb.Snapshot{}
	s.Metadata.Index, s.Metadata.Term = d.I, d.T
	if d.V != nil {
		s.Metadata.ConfState.Voters = append([]uint64{}, d.V...)
	}
	if d.D != 0 {
		s.Data = payload(d.dataLen(), d.D)
	}
	return s
}

func snapD(s raftpb.Snapshot) *SnapD {
	d := &SnapD{I: s.Metadata.Index, T: s.Metadata.Term}
	if s.Metadata.ConfState.Voters != nil {
		d.V = append([]uint64{}, s.Metadata.ConfState.Voters...)
	}
	if len(s.Data) > 0 {
		_, d.D = identify(s.Data)
		if len(s.Data) != 8 {
			d.DL = len(s.Data)
		}
	}
	return d
}

func snapEq(a, b *SnapD) bool {
	if a.I != b.I || a.T != b.T || a.D != b.D || a.dataLen() != b.dataLen() || len(a.V) != len(b.V) {
		return false
	}
	for i := range a.V {
		if a.V[i] != b.V[i] {
			return false
		}
	}
	return true
}

func (w *world) apply(op *Op) (o Out) {
	defer func() {
		if r := recover(); r != nil {
			o.E = 9
			w.fail("panic", "panic in %s: %v", op.K, r)
		}
	}()
	switch op.K {
	case "save", "csave", "fsave":
		es := segEntries(op.Segs)
		if len(es) > 0 {
			fi, slot := w.ds.SlotGe(es[0].Index)
			_, l := msFirstLast(w.ms)
			if es[0].Index <= l && fi >= 0 && slot > 0 {
				o.EarlierConflict = true
				// first index of the file that is about to be truncated
				w.c.Clob = append(w.c.Clob, es[0].Index-uint64(slot))
			}
		}
		var hs *raftpb.HardState
		if op.HS != nil {
			hs = &raftpb.HardState{Term: op.HS[0], Vote: op.HS[1], Commit: op.HS[2]}
		}
		sn := snapOf(op.Snap)
		switch op.K {
		case "csave":
			o.E = errCode(w.crashSave(op, hs, es, sn))
		case "fsave":
			w.fault = nil
			o.E = errCode(w.faultSave(op, hs, es, sn))
			o.Fault, w.fault = w.fault, nil
		default:
			o.E = errCode(w.ds.Save(hs, es, sn))
		}
		// reference
		_ = w.ms.Append(es)
		_ = w.full.Append(es)
		if hs != nil && !raft.IsEmptyHardState(*hs) {
			w.hs = *hs
		}
		if sn != nil && raftlog.IsValidSnapshot(*sn) {
			w.snap = *sn
			w.si = sn.Metadata.Index
		}
		if o.E != 0 {
			w.fail("save", "Save returned an error")
		}
	case "ents":
		es, err := w.ds.Entries(op.Lo, op.Hi, op.Max)
		o.E = errCode(err)
		for _, e := range es {
			o.Es = append(o.Es, entTuple(e))
		}
		res, rc := refEntries(w.ms, op.Lo, op.Hi, op.Max)
		if rc != o.E {
			w.fail("ents-err", "Entries(%d,%d,%d) error class disk=%d reference=%d", op.Lo, op.Hi, op.Max, o.E, rc)
		} else if rc == 0 {
			w.cmpEntries(fmt.Sprintf("Entries(%d,%d,%d)", op.Lo, op.Hi, op.Max), es, res)
		}
	case "term":
		t, err := w.ds.Term(op.I)
		o.E, o.T = errCode(err), t
		mf, ml := msFirstLast(w.ms)
		switch {
		case op.I == 0:
			// index 0 never holds an entry; raft itself answers (0, nil) without asking the storage
			if o.E != 0 && o.E != 1 || t != 0 {
				w.fail("term", "Term(0) = (%d, err %d)", t, o.E)
			}
		case op.I > ml:
			// a store without any entry answers 'compacted' (MemoryStorage: 'unavailable'); raft never asks there
			if o.E != 2 && !(ml < mf && o.E == 1) {
				w.fail("term", "Term(%d) beyond last %d: err class %d, want unavailable", op.I, ml, o.E)
			}
		case op.I < mf:
			// compacted prefix: 'compacted', or the true term of that index (the store keeps the snapshot's term)
			ft, ferr := w.full.Term(op.I)
			if !(o.E == 1 || (o.E == 0 && ferr == nil && t == ft)) {
				w.fail("term", "Term(%d) in compacted prefix (first %d): (%d, err %d), true term %d", op.I, mf, t, o.E, ft)
			}
		default:
			rt, _ := w.ms.Term(op.I)
			if o.E != 0 || t != rt {
				w.fail("term", "Term(%d) = (%d, err %d), reference %d", op.I, t, o.E, rt)
			}
		}
	case "csnap", "ccsnap", "fcsnap":
		cs := &raftpb.ConfState{}
		if op.Snap.V != nil {
			cs.Voters = append([]uint64{}, op.Snap.V...)
		}
		var data []byte
		if op.Snap.D != 0 {
			data = payload(op.Snap.dataLen(), op.Snap.D)
		}
		mf, ml := msFirstLast(w.ms)
		switch op.K {
		case "ccsnap", "fcsnap":
			var t uint64
			if op.I >= mf && op.I <= ml {
				t, _ = w.full.Term(op.I)
			}
			var ns raftpb.Snapshot
			ns.Metadata.Index, ns.Metadata.Term, ns.Metadata.ConfState, ns.Data = op.I, t, *cs, data
			o.E = errCode(w.metaOp(op, &ns, op.I >= mf && op.I <= ml, func() error { return w.ds.CreateSnapshot(op.I, cs, data) }))
		default:
			o.E = errCode(w.ds.CreateSnapshot(op.I, cs, data))
		}
		want := 0
		if op.I < mf {
			want = 3
		} else if op.I > ml {
			want = 2
		}
		if o.E != want {
			w.fail("csnap", "CreateSnapshot(%d) err class %d want %d (first %d last %d)", op.I, o.E, want, mf, ml)
		}
		if want == 0 {
			t, _ := w.full.Term(op.I)
			var s raftpb.Snapshot
			s.Metadata.Index, s.Metadata.Term, s.Metadata.ConfState, s.Data = op.I, t, *cs, data
			if raftlog.IsValidSnapshot(s) {
				w.snap, w.si = s, op.I
			}
		}
	case "del", "cdel", "fdel":
		mf, _ := msFirstLast(w.ms)
		var err error
		if op.K == "del" {
			err = w.ds.DeleteBefore(op.I)
		} else {
			w.dfault = nil
			err = w.delOp(op)
			o.DelFault, w.dfault = w.dfault, nil
		}
		if err != nil {
			o.E = 9
		}
		w.syncCompaction()
		f, _ := w.ds.FirstIndex()
		// prefix deletion may drop any prefix strictly below the requested index, never more
		if f < mf || (f > op.I && f > mf) {
			w.fail("del", "DeleteBefore(%d): first index %d -> %d", op.I, mf, f)
		}
	case "reopen", "crash", "finit":
		if op.K != "crash" {
			if err := w.ds.Close(); err != nil {
				w.fail("reopen", "Close: %v", err)
			}
		} else {
			w.fdLeak = append(w.fdLeak, w.ds) // process death: nothing is flushed or closed by the store
		}
		mf, _ := msFirstLast(w.ms)
		if op.K == "finit" {
			w.initWithFault(op)
		}
		ds, err := raftlog.Init(w.dir, 0)
		if err != nil {
			w.fail("reopen", "Init after %s: %v", op.K, err)
			o.E = 9
			return
		}
		w.ds = ds
		if w.uncompact() {
			mf, _ = msFirstLast(w.ms)
		}
		w.syncCompaction()
		f, _ := w.ds.FirstIndex()
		// Init re-applies the prefix deletion up to the snapshot index: nothing at or above it may disappear
		if f < mf || (f > mf && f > w.si) {
			w.fail("reopen", "first index %d -> %d across %s (snapshot index %d)", mf, f, op.K, w.si)
		}
	case "meta":
		hs, cs, err := w.ds.InitialState()
		sn, err2 := w.ds.Snapshot()
		if err != nil || err2 != nil {
			o.E = 9
		}
		o.HS = &[3]uint64{hs.Term, hs.Vote, hs.Commit}
		o.Snap = snapD(sn)
		if hs.Term != w.hs.Term || hs.Vote != w.hs.Vote || hs.Commit != w.hs.Commit {
			w.fail("meta", "hard state %v, saved %v", hs, w.hs)
		}
		if !snapEq(o.Snap, snapD(w.snap)) {
			w.fail("meta", "snapshot %+v, saved %+v", *o.Snap, *snapD(w.snap))
		}
		wantCS := snapD(w.snap).V
		if len(cs.Voters) != len(wantCS) {
			w.fail("meta", "InitialState conf state %v, saved %v", cs.Voters, wantCS)
		}
	case "bytes":
		raw, err := readRaw(filepath.Join(w.dir, "__raft_entries__"))
		if err != nil {
			w.fail("bytes", "reading the directory: %v", err)
			o.E = 9
		}
		o.Raw = raw
	case "sum":
		// whole log, read back in pieces like NumEntries does, against the reference
		mf, ml := msFirstLast(w.ms)
		start := mf
		var all []raftpb.Entry
		for start <= ml {
			es, err := w.ds.Entries(start, ml+1, 64<<20)
			if err != nil || len(es) == 0 {
				w.fail("sum", "full scan stopped at %d (err %v)", start, err)
				break
			}
			all = append(all, es...)
			start = es[len(es)-1].Index + 1
		}
		var res []raftpb.Entry
		if mf <= ml {
			res, _ = w.ms.Entries(mf, ml+1, math.MaxUint64)
		}
		w.cmpEntries("full scan", all, res)
		o.Cnt, o.Sum = checksum(all)
	}
	w.checkFirstLast(&o)
	return o
}

// checksum: h = h*31 + x over all five fields of all entries, in wrapping uint64 arithmetic
func checksum(es []raftpb.Entry) (uint64, uint64) {
	var h uint64
	for _, e := range es {
		for _, x := range entTuple(e) {
			h = h*31 + x
		}
	}
	return uint64(len(es)), h
}

func (w *world) cmpEntries(what string, got, want []raftpb.Entry) {
	// the first differing entry decides the kind of the failure; a different number of entries is reported only when
	// the common prefix agrees (an emptied payload makes the entry smaller, so a size-limited answer can be longer)
	for i := 0; i < len(got) && i < len(want); i++ {
		g, r := entTuple(got[i]), entTuple(want[i])
		if g == r {
			continue
		}
		if g[0] == r[0] && g[1] == r[1] && g[2] == r[2] && g[3] == 0 && r[3] > 0 {
			w.fail("payload-empty:"+strconv.FormatUint(g[0], 10), "%s: entry %d comes back with an EMPTY payload (saved %d bytes)", what, g[0], r[3])
		} else {
			w.fail("ents-diff", "%s: entry #%d disk=%v reference=%v", what, i, g, r)
		}
		return
	}
	if len(got) != len(want) {
		w.fail("ents-len", "%s: %d entries, reference %d", what, len(got), len(want))
	}
}

func (w *world) close() {
	if w.ds != nil {
		_ = w.ds.Close()
	}
	for _, d := range w.fdLeak {
		func() {
			defer func() { _ = recover() }()
			_ = d.Close()
		}()
	}
}

// ---- running a case ----

var caseNo int
var part string

func runCase(kind string, src source) *Case {
	c := &Case{Case: caseNo, Kind: kind, Ops: []Op{}, Oracle: []string{}, OrKinds: []string{}, Clob: []uint64{}, Unrep: []int{}, UnrepDel: []int{}, UnrepDB: []int{}, Stats: map[string]int{}}
	caseNo++
	dir := filepath.Join(workDir(), fmt.Sprintf("c%d", c.Case))
	_ = os.RemoveAll(dir)
	w, err := newWorld(dir, c)
	if err != nil {
		c.Oracle = append(c.Oracle, "Init failed: "+err.Error())
		c.OrKinds = append(c.OrKinds, "init")
		return c
	}
	for step := 0; ; step++ {
		op := src(w, step)
		if op == nil {
			break
		}
		c.Ops = append(c.Ops, *op)
		c.Outs = append(c.Outs, w.apply(op))
		c.Stats[op.K]++
	}
	// at the end of every case: a clean restart (leftovers of failed steps are removed by Init), then the raw bytes of
	// the directory for the byte layer of the model
	if len(c.Oracle) == 0 && (kind != "small" || c.Case%3 == 0) {
		for _, k := range []string{"reopen", "bytes"} {
			op := &Op{K: k}
			c.Ops = append(c.Ops, *op)
			c.Outs = append(c.Outs, w.apply(op))
			c.Stats[op.K]++
		}
	}
	w.close()
	_ = os.RemoveAll(dir)
	return c
}

func workDir() string {
	d := os.Getenv("VERIF_WORK")
	if d == "" {
		d = "."
	}
	d = filepath.Join(d, "c17data")
	if fixedLite {
		d += "_v1" // the two configurations may run at the same time
	}
	d += part
	_ = os.MkdirAll(d, 0o755)
	return d
}

func main() {
	logger.SetLogger(zap.NewNop())
	// second configuration: the older file wrapper (entry-file-rw-type = 1, whole-file buffers instead of per-slot caches)
	if os.Getenv("VERIF_C17_RW") == "1" {
		config.SetEntryFileRWType(1)
		fixedLite = true
		caseNo = 1000
	}
	installFS()
	if len(os.Args) < 2 {
		fmt.Fprintln(os.Stderr, "usage: c17 gen nsmall nsize ncount | replay file | consts")
		os.Exit(2)
	}
	switch os.Args[1] {
	case "consts":
		gen.Emit(map[string]int{"maxNumEntries": raftlog.VerifMaxNumEntries, "logFileOffset": raftlog.VerifLogFileOffset,
			"maxLogFileSize": raftlog.VerifMaxLogFileSize, "entrySize": raftlog.VerifEntrySize, "unit32Size": raftlog.VerifUnit32Size})
	case "replay":
		b, err := os.ReadFile(os.Args[2])
		if err != nil {
			panic(err)
		}
		var in struct {
			Kind string `json:"kind"`
			Ops  []Op   `json:"ops"`
		}
		if err := json.Unmarshal(b, &in); err != nil {
			panic(err)
		}
		gen.Emit(runCase("replay:"+in.Kind, fromList(in.Ops)))
	case "conc":
		// c17 conc <cases> <entries per case>: concurrent writer / compactor / readers on one store (binary built with -race)
		nc, tot := 1, 33000
		if len(os.Args) > 2 {
			nc, _ = strconv.Atoi(os.Args[2])
		}
		if len(os.Args) > 3 {
			tot, _ = strconv.Atoi(os.Args[3])
		}
		r := gen.FromEnv(1717)
		for i := 0; i < nc; i++ {
			gen.Emit(concCase(2000+i, r.Fork(), uint64(tot)))
		}
	case "gen":
		n := [3]int{}
		for i := 0; i < 3 && i+2 < len(os.Args); i++ {
			n[i], _ = strconv.Atoi(os.Args[i+2])
		}
		// VERIF_C17_PART = fixed | gen: only the fixed (witness, crash, corpus) or only the generated cases, so that the
		// driver can run the two halves at the same time (separate directories, disjoint case numbers)
		part = os.Getenv("VERIF_C17_PART")
		if part == "gen" {
			caseNo += 500
		}
		for i, ops := range witnessCases() {
			if part == "gen" {
				break
			}
			if fixedLite && (i == 0 || i == 1 || i == 3 || i == 7) {
				continue // the 30000-entry witnesses: first configuration only
			}
			gen.Emit(runCase("witness", fromList(ops)))
		}
		for _, ops := range crashCases() {
			if part == "gen" {
				break
			}
			gen.Emit(runCase("crashpoint", fromList(ops)))
		}
		// minimised past failures and hand-picked cases (corpus/C17/*.json), before anything generated
		if dir := os.Getenv("VERIF_CORPUS"); dir != "" && part != "gen" {
			names, _ := filepath.Glob(filepath.Join(dir, "*.json"))
			sort.Strings(names)
			for _, nm := range names {
				b, err := os.ReadFile(nm)
				var in struct {
					Ops []Op `json:"ops"`
				}
				if err == nil && json.Unmarshal(b, &in) == nil && len(in.Ops) > 0 {
					gen.Emit(runCase("corpus", fromList(in.Ops)))
				}
			}
		}
		if part == "fixed" {
			return
		}
		r := gen.FromEnv(17)
		for i := 0; i < n[0]; i++ {
			gen.Emit(runCase("small", genSource(r.Fork(), "small")))
		}
		for i := 0; i < n[1]; i++ {
			gen.Emit(runCase("size", genSource(r.Fork(), "size")))
		}
		for i := 0; i < n[2]; i++ {
			gen.Emit(runCase("count", genSource(r.Fork(), "count")))
		}
	}
}

// readRaw reads slot records, cell length words and meta records straight from the files.
func readRaw(dir string) (*RawObs, error) {
	names, err := filepath.Glob(filepath.Join(dir, "*.entry"))
	if err != nil {
		return nil, err
	}
	type ef struct {
		name  string
		first uint64
	}
	var files []ef
	be64 := func(b []byte) uint64 {
		var x uint64
		for _, c := range b[:8] {
			x = x<<8 | uint64(c)
		}
		return x
	}
	es := raftlog.VerifEntrySize
	for _, nm := range names {
		f, err := os.Open(nm)
		if err != nil {
			return nil, err
		}
		b := make([]byte, es)
		_, err = f.ReadAt(b, 0)
		f.Close()
		if err != nil {
			return nil, err
		}
		files = append(files, ef{nm, be64(b[8:])})
	}
	sort.Slice(files, func(i, j int) bool {
		a, b := files[i], files[j]
		if (a.first == 0) != (b.first == 0) {
			return b.first == 0
		}
		if a.first != b.first {
			return a.first < b.first
		}
		return a.name < b.name
	})
	raw := &RawObs{Wins: []RawWin{}}
	ints := func(b []byte) []int {
		out := make([]int, len(b))
		for i, c := range b {
			out[i] = int(c)
		}
		return out
	}
	for fi, e := range files {
		f, err := os.Open(e.name)
		if err != nil {
			return nil, err
		}
		// number of live slots: the first slot with index 0
		live, max := 0, raftlog.VerifMaxNumEntries
		buf := make([]byte, 128*es)
	scan:
		for live < max {
			n := 128
			if live+n > max {
				n = max - live
			}
			if _, err := f.ReadAt(buf[:n*es], int64(live*es)); err != nil {
				f.Close()
				return nil, err
			}
			for k := 0; k < n; k++ {
				if be64(buf[k*es+8:]) == 0 {
					live += k
					break scan
				}
			}
			live += n
		}
		win := func(st, n int) error {
			if st+n > max {
				n = max - st
			}
			if n <= 0 {
				return nil
			}
			b := make([]byte, n*es)
			if _, err := f.ReadAt(b, int64(st*es)); err != nil {
				return err
			}
			w := RawWin{Fi: fi, St: st, N: n, B: []uint64{}, L: []uint64{}}
			for k := 0; k+8 <= len(b); k += 8 {
				w.B = append(w.B, be64(b[k:])) // the file bytes, eight at a time, as big-endian words
			}
			for k := 0; k < n; k++ {
				if be64(b[k*es+8:]) == 0 {
					continue
				}
				lw := make([]byte, 4)
				if _, err := f.ReadAt(lw, int64(be64(b[k*es+24:]))); err != nil {
					return err
				}
				w.L = append(w.L, uint64(lw[0])<<24|uint64(lw[1])<<16|uint64(lw[2])<<8|uint64(lw[3]))
			}
			raw.Wins = append(raw.Wins, w)
			return nil
		}
		head := live + 2
		if head > 6 {
			head = 6
		}
		err = win(0, head)
		if err == nil && live > 6 {
			err = win(live-5, 7)
		}
		f.Close()
		if err != nil {
			return nil, err
		}
	}
	mf, err := os.Open(filepath.Join(dir, "raft.meta"))
	if err != nil {
		return nil, err
	}
	defer mf.Close()
	lw := make([]byte, 4)
	if _, err := mf.ReadAt(lw, 512); err != nil {
		return nil, err
	}
	n := int(lw[0])<<24 | int(lw[1])<<16 | int(lw[2])<<8 | int(lw[3])
	if n > 400 {
		n = 400
	}
	rec := make([]byte, 4+n)
	if _, err := mf.ReadAt(rec, 512); err != nil {
		return nil, err
	}
	raw.HS = ints(rec)
	sh := make([]byte, 16)
	if _, err := mf.ReadAt(sh, 1024); err != nil {
		return nil, err
	}
	raw.SH = ints(sh)
	return raw, nil
}
