package main

// Crash points and write faults INSIDE RaftDiskStorage.Save.
//
// The repository's local VFS is wrapped twice (hook fileops.VerifSwapLocalFS, build tag verif):
//   raftlog -> crashfs recorder (numbers every mutation below the store's directory, calls back before it)
//           -> faultFS (makes exactly the mutation the recorder just announced fail with an I/O error) -> real fs.
// "csave": the Save runs to completion; before every file-system step (meta writes, payload length/data writes, slot
//          writes, zero-fill, truncate/sync/create/remove of rotation and conflict handling) the directory is copied.
//          Every copy is what a process killed at that instant leaves behind; it is opened with the real Init and
//          checked against the Raft storage contract (checkInside).
// "fsave": one chosen step fails. The Save must either report the error (then the live store and its crash image
//          must satisfy checkInside, and a retry - what RaftNode.SaveToStorage does - must succeed), or, if it
//          reports success, everything it was given must be there, also after the process dies (image check).
//
// Contract (etcd raft: "write Entries, HardState and Snapshot to persistent storage IN ORDER, entries first"; "when
// writing an entry with index i, previously persisted entries with index >= i must be discarded"), for a Save of
// entries new[0..n) starting at index b on top of the acknowledged log old, hard state hs', snapshot sn':
//   * the store opens;
//   * below b the log is exactly old; from b on it is a prefix of old's tail (not yet, or partly, discarded) or a
//     prefix of new (indexes, terms, types, payload bytes);
//   * the hard state is the old or the new one, never anything else, and its commit index is not beyond the last index;
//   * the snapshot is the old or the new one; the index the store keeps beside it is the index of that snapshot;
//   * a new hard state or snapshot is visible only if ALL entries of the batch are.
import (
	"errors"
	"fmt"
	"os"
	"path/filepath"
	"strings"

	"github.com/openGemini/openGemini/lib/fileops"
	"github.com/openGemini/openGemini/lib/raftlog"
	"go.etcd.io/etcd/raft/v3"
	"go.etcd.io/etcd/raft/v3/raftpb"
	"verifharness/internal/crashfs"
)

var errInjected = errors.New("verif: injected I/O error")

type faultFS struct {
	fileops.VFS
	fail *bool
}

func (v *faultFS) take() bool {
	if *v.fail {
		*v.fail = false
		return true
	}
	return false
}

func (v *faultFS) OpenFile(name string, flag int, perm os.FileMode, opt ...fileops.FSOption) (fileops.File, error) {
	if flag&os.O_CREATE != 0 {
		if _, err := os.Lstat(name); err != nil && v.take() {
			return nil, errInjected
		}
	}
	f, err := v.VFS.OpenFile(name, flag, perm, opt...)
	if err != nil || f == nil {
		return f, err
	}
	return &faultFile{File: f, v: v}, nil
}
func (v *faultFS) Remove(name string, opt ...fileops.FSOption) error {
	if v.take() {
		return errInjected
	}
	return v.VFS.Remove(name, opt...)
}

type faultFile struct {
	fileops.File
	v *faultFS
}

func (f *faultFile) Write(b []byte) (int, error) {
	if f.v.take() {
		return 0, errInjected
	}
	return f.File.Write(b)
}
func (f *faultFile) Truncate(size int64) error {
	if f.v.take() {
		return errInjected
	}
	return f.File.Truncate(size)
}
func (f *faultFile) Sync() error {
	if f.v.take() {
		return errInjected
	}
	return f.File.Sync()
}

var (
	rec      *crashfs.Recorder
	failNext bool
)

func installFS() {
	real := fileops.VerifSwapLocalFS(nil)
	fileops.VerifSwapLocalFS(&faultFS{VFS: real, fail: &failNext})
	rec = crashfs.Install()
}

// classify names a file-system step of Save by file, offset and size (layout constants of this tree).
func classify(ev *crashfs.Event, prev *crashfs.Event) string {
	meta := strings.HasSuffix(ev.Path, "raft.meta")
	if ev.Kind != "write" {
		return ev.Kind
	}
	n := len(ev.Data)
	if meta {
		switch {
		case ev.Off == 512 && n == 4:
			return "meta-hs-len"
		case ev.Off == 512:
			return "meta-hs-rec" // [len][bytes] in one write
		case ev.Off == 516:
			return "meta-hs-data"
		case ev.Off == 1024 && n > 8:
			return "meta-snap-rec" // [index][term][len][bytes] in one write
		case ev.Off == 1024:
			return "meta-snapindex"
		case ev.Off == 1032:
			return "meta-snapterm"
		case ev.Off == 1040 && n == 4:
			return "meta-snap-len"
		case ev.Off == 1044:
			return "meta-snap-data"
		}
		return "meta-other"
	}
	slots := int64(raftlog.VerifMaxNumEntries * raftlog.VerifEntrySize)
	switch {
	case ev.Off == 0 && n == raftlog.VerifLogFileOffset:
		return "newfile-zeros"
	case ev.Off < slots && n >= raftlog.VerifEntrySize && allZero(ev.Data):
		// ZeroSlots: one plain write of zeros over whole slot records (a slot of an entry never has index 0)
		return "zerofill-zeros"
	case ev.Off < slots && n == raftlog.VerifEntrySize && ev.Off%int64(raftlog.VerifEntrySize) == 0:
		return "slot"
	case ev.Off < slots && n == 4:
		return "zerofill-len"
	case ev.Off < int64(raftlog.VerifLogFileOffset):
		return "zerofill-zeros"
	case n == 4 && !(prev != nil && prev.Kind == "write" && prev.Path == ev.Path && len(prev.Data) == 4 && prev.Off+4 == ev.Off):
		return "payload-len"
	}
	return "payload-data"
}

func allZero(b []byte) bool {
	for _, x := range b {
		if x != 0 {
			return false
		}
	}
	return true
}

// faultOf maps the class of the failed file-system step to the fault of the Coq model (Model.save_fail):
// clear (the write that clears discarded slots), entry j (entry number j of the batch does not become visible:
// rot = the failing step comes after a completed rotation or no rotation was needed), hs, snap; "" = not modelled.
func faultOf(class string) (kind string, rot bool) {
	switch class {
	case "zerofill-len", "zerofill-zeros":
		return "clear", false
	case "payload-len", "payload-data", "slot":
		return "entry", true
	case "truncate", "sync", "create", "newfile-zeros":
		return "entry", false
	case "meta-hs-len", "meta-hs-data", "meta-hs-rec":
		return "hs", false
	case "meta-snap-len", "meta-snap-data", "meta-snap-rec":
		return "snap", false
	}
	return "", false
}

type saveCtx struct {
	oldFirst uint64
	old      []raftpb.Entry // acknowledged log, from oldFirst
	b        uint64         // first new index (0: no entries in this Save)
	neu      []raftpb.Entry
	oldHS    raftpb.HardState
	newHS    raftpb.HardState
	oldSnap  *SnapD
	newSnap  *SnapD
	delUpTo  uint64 // DeleteBefore(i) in progress: the first index may move up to i
}

type storeView struct {
	first, last uint64
	ents        []raftpb.Entry
	hs          raftpb.HardState
	snap        *SnapD
	snapUint    uint64
	err         string
}

func view(ds *raftlog.RaftDiskStorage) (v storeView) {
	defer func() {
		if r := recover(); r != nil {
			v.err = fmt.Sprintf("panic: %v", r)
		}
	}()
	v.first, v.last = ds.GetFirstLast()
	for start := v.first; start <= v.last; {
		es, err := ds.Entries(start, v.last+1, 64<<20)
		if err != nil || len(es) == 0 {
			v.err = fmt.Sprintf("log unreadable from %d (last %d): %v", start, v.last, err)
			return
		}
		v.ents = append(v.ents, es...)
		start = es[len(es)-1].Index + 1
	}
	hs, _, err := ds.InitialState()
	if err != nil {
		v.err = "InitialState: " + err.Error()
		return
	}
	v.hs = hs
	sn, err := ds.Snapshot()
	if err != nil {
		v.err = "Snapshot: " + err.Error()
		return
	}
	v.snap = snapD(sn)
	v.snapUint = ds.Uint(raftlog.SnapshotIndex)
	return
}

func sameEntry(a, b raftpb.Entry) bool { return entTuple(a) == entTuple(b) }

// checkInside applies the contract above to a view taken at a crash point inside (or after a failed) Save.
// Returns "" or a description of the first breach.
func checkInside(v storeView, c *saveCtx) (string, string) {
	if v.err != "" {
		return "unreadable", v.err
	}
	if v.first < c.oldFirst {
		return "first", fmt.Sprintf("first index %d below %d", v.first, c.oldFirst)
	}
	if v.first > c.oldFirst && v.first > v.snapUint+1 && v.first > c.delUpTo {
		return "first", fmt.Sprintf("first index moved %d -> %d beyond the snapshot index %d", c.oldFirst, v.first, v.snapUint)
	}
	oldAt := func(i uint64) (raftpb.Entry, bool) {
		if i < c.oldFirst || i-c.oldFirst >= uint64(len(c.old)) {
			return raftpb.Entry{}, false
		}
		return c.old[i-c.oldFirst], true
	}
	tail := 0 // 0 undecided, 1 old tail, 2 new batch
	tailCount := 0
	for k, e := range v.ents {
		want := v.first + uint64(k)
		if e.Index != want {
			return "entry-corrupt:0", fmt.Sprintf("log not consecutive: position %d holds index %d", want, e.Index)
		}
		if c.b == 0 || e.Index < c.b {
			o, ok := oldAt(e.Index)
			if !ok || !sameEntry(o, e) {
				return fmt.Sprintf("entry-corrupt:%d", e.Index), fmt.Sprintf("entry %d differs from the acknowledged log: %v", e.Index, entTuple(e))
			}
			continue
		}
		tailCount++
		j := e.Index - c.b
		o, okOld := oldAt(e.Index)
		isOld := okOld && sameEntry(o, e)
		isNew := j < uint64(len(c.neu)) && sameEntry(c.neu[j], e)
		switch {
		case tail == 0 && isOld && isNew:
		case tail != 2 && isOld:
			tail = 1
		case tail != 1 && isNew:
			tail = 2
		default:
			return fmt.Sprintf("entry-corrupt:%d", e.Index), fmt.Sprintf("entry %d is neither the acknowledged nor the new one (or the two runs are mixed): %v", e.Index, entTuple(e))
		}
	}
	oldEnd := c.oldFirst + uint64(len(c.old)) // one past the acknowledged last index
	mustReach := oldEnd
	if c.b > 0 && c.b < oldEnd {
		mustReach = c.b
	}
	if v.first+uint64(len(v.ents)) < mustReach {
		return "missing", fmt.Sprintf("acknowledged entries are missing: the log ends at %d, must reach %d", v.first+uint64(len(v.ents))-1, mustReach-1)
	}
	complete := len(c.neu) == 0 || (tail != 1 && tailCount == len(c.neu))
	logLast := v.first + uint64(len(v.ents)) - 1
	if len(v.ents) == 0 {
		logLast = 0
	}
	hsOld := v.hs.Term == c.oldHS.Term && v.hs.Vote == c.oldHS.Vote && v.hs.Commit == c.oldHS.Commit
	hsNew := v.hs.Term == c.newHS.Term && v.hs.Vote == c.newHS.Vote && v.hs.Commit == c.newHS.Commit
	if !hsOld && !hsNew {
		return "hs-foreign", fmt.Sprintf("hard state %+v is neither the acknowledged %+v nor the new %+v", v.hs, c.oldHS, c.newHS)
	}
	if v.hs.Commit > logLast && v.hs.Commit > v.snapUint {
		return "commit-beyond", fmt.Sprintf("hard state commit %d is beyond the last index %d", v.hs.Commit, logLast)
	}
	if !hsOld && !complete {
		return "hs-early", fmt.Sprintf("the new hard state %+v is visible before all entries of the batch are (log ends at %d)", v.hs, logLast)
	}
	snOld, snNew := snapEq(v.snap, c.oldSnap), snapEq(v.snap, c.newSnap)
	if !snOld && !snNew {
		return "snap-foreign", fmt.Sprintf("snapshot %+v is neither the acknowledged %+v nor the new %+v", *v.snap, *c.oldSnap, *c.newSnap)
	}
	if v.snapUint != v.snap.I {
		return "snapuint", fmt.Sprintf("snapshot index kept beside the snapshot is %d, the snapshot says %d", v.snapUint, v.snap.I)
	}
	if !snOld && !complete {
		return "snap-early", fmt.Sprintf("the new snapshot (index %d) is visible before all entries of the batch are (log ends at %d)", v.snap.I, logLast)
	}
	return "", ""
}

type image struct {
	dir   string
	seq   int
	class string
}

func (w *world) ctxFor(op *Op) *saveCtx {
	c := &saveCtx{oldHS: w.hs, newHS: w.hs, oldSnap: snapD(w.snap), newSnap: snapD(w.snap)}
	f, l := msFirstLast(w.ms)
	c.oldFirst = f
	if f <= l {
		c.old, _ = w.ms.Entries(f, l+1, ^uint64(0))
	}
	c.neu = segEntries(op.Segs)
	if len(c.neu) > 0 {
		c.b = c.neu[0].Index
	}
	if op.HS != nil {
		h := raftpb.HardState{Term: op.HS[0], Vote: op.HS[1], Commit: op.HS[2]}
		if !raft.IsEmptyHardState(h) {
			c.newHS = h
		}
	}
	if sn := snapOf(op.Snap); sn != nil && raftlog.IsValidSnapshot(*sn) {
		c.newSnap = snapD(*sn)
	}
	return c
}

func (w *world) checkImage(im image, c *saveCtx, what string) {
	ds, err := raftlog.Init(im.dir, 0)
	if err != nil {
		w.fail("crash:"+im.class+":unreadable", "%s at step %d (%s): the directory does not open: %v", what, im.seq, im.class, err)
		return
	}
	if code, msg := checkInside(view(ds), c); msg != "" {
		w.fail("crash:"+im.class+":"+code, "%s at step %d (before %s), reopened: %s", what, im.seq, im.class, msg)
	}
	_ = ds.Close()
}

func treeSize(dir string) (n int64) {
	_ = filepath.Walk(dir, func(p string, info os.FileInfo, err error) error {
		if err == nil && info.Mode().IsRegular() {
			n += info.Size()
		}
		return nil
	})
	return
}

// crashSave: Save with a crash image before every file-system step; returns what Save returned.
func (w *world) crashSave(op *Op, hs *raftpb.HardState, es []raftpb.Entry, sn *raftpb.Snapshot) error {
	c := w.ctxFor(op)
	imgRoot := filepath.Join(workDir(), fmt.Sprintf("img%d", w.c.Case))
	_ = os.RemoveAll(imgRoot)
	big := treeSize(w.dir) > 6<<20
	var images []image
	var prev *crashfs.Event
	classes := []string{}
	plain, stride, torn := 0, 1+3*len(es)/6, 0
	rec.Start(w.dir, func(ev *crashfs.Event) {
		cl := classify(ev, prev)
		cp := *ev
		prev = &cp
		classes = append(classes, cl)
		interesting := !strings.HasPrefix(cl, "payload") && cl != "slot"
		if !interesting {
			// entry writes: the first and last few and a stride in between
			plain++
			if !(plain <= 4 || plain%stride == 0 || plain > 3*len(es)-3) || (big && plain > 4) {
				return
			}
		}
		if len(images) >= 40 || (big && len(images) >= 14) {
			return
		}
		d := filepath.Join(imgRoot, fmt.Sprintf("s%d", ev.Seq))
		if crashfs.CopyTree(w.dir, d) == nil {
			images = append(images, image{dir: d, seq: ev.Seq, class: cl})
		}
		// a write that spans several pages can be cut at a page boundary by the death of the process
		if k := tornPrefix(ev); k > 0 && torn < 6 && !big {
			dt := filepath.Join(imgRoot, fmt.Sprintf("t%d", ev.Seq))
			if crashfs.CopyTree(w.dir, dt) == nil && crashfs.ApplyTorn(w.dir, dt, ev, k) == nil {
				images = append(images, image{dir: dt, seq: ev.Seq, class: "torn-" + cl})
				torn++
				w.c.Stats["torn_images"]++
			}
		}
	}, nil)
	err := w.ds.Save(hs, es, sn)
	rec.Stop()
	w.c.Stats["crash_steps"] += len(classes)
	w.c.Stats["crash_images"] += len(images)
	for _, cl := range classes {
		w.c.Stats["step:"+cl]++
	}
	for _, im := range images {
		w.checkImage(im, c, "process killed inside Save")
	}
	_ = os.RemoveAll(imgRoot)
	return err
}

// faultSave: the file-system step number op.I of this Save fails. Returns the error of the final (successful) attempt.
func (w *world) faultSave(op *Op, hs *raftpb.HardState, es []raftpb.Entry, sn *raftpb.Snapshot) error {
	c := w.ctxFor(op)
	imgRoot := filepath.Join(workDir(), fmt.Sprintf("img%d", w.c.Case))
	_ = os.RemoveAll(imgRoot)
	var prev *crashfs.Event
	hit := ""
	slotsDone, hitJ, cleared, hitCleared := 0, 0, 0, 0
	rec.Start(w.dir, func(ev *crashfs.Event) {
		cl := classify(ev, prev)
		cp := *ev
		prev = &cp
		// metaFile.SetUint panics on a write error by design (the process dies): those two steps are covered as crash
		// points only
		if uint64(ev.Seq) == op.I && cl != "meta-snapindex" && cl != "meta-snapterm" {
			failNext = true
			hit = cl
			hitJ = slotsDone
			hitCleared = cleared
		}
		if cl == "slot" {
			slotsDone++
		}
		if cl == "zerofill-zeros" {
			cleared += len(ev.Data) / raftlog.VerifEntrySize // slots cleared by the pieces done so far (top down)
		}
	}, nil)
	err := w.ds.Save(hs, es, sn)
	rec.Stop()
	failNext = false
	if hit == "" {
		return err // the Save has fewer steps: an ordinary Save
	}
	w.c.Stats["fault:"+hit]++
	if fk, rot := faultOf(hit); fk != "" {
		w.fault = &FaultObs{K: fk, J: hitJ, Rot: rot, Rep: err != nil, C: uint64(hitCleared)}
	}
	im := image{dir: filepath.Join(imgRoot, "f"), seq: int(op.I), class: "fault-" + hit}
	if err == nil {
		w.c.Stats["fault-unreported:"+hit]++
		if strings.HasPrefix(hit, "zerofill-") {
			w.c.Unrep = append(w.c.Unrep, len(w.c.Outs))
		}
		if hit == "remove" {
			w.c.UnrepDel = append(w.c.UnrepDel, len(w.c.Outs))
		}
		// the error was not reported: the Save counts as acknowledged, so everything must be there - now and after
		// the process dies (the ordinary oracle checks the live store right after this returns)
		full := &saveCtx{oldFirst: c.oldFirst, oldHS: c.newHS, newHS: c.newHS, oldSnap: c.newSnap, newSnap: c.newSnap}
		for _, e := range c.old {
			if c.b == 0 || e.Index < c.b {
				full.old = append(full.old, e)
			}
		}
		full.old = append(full.old, c.neu...)
		if crashfs.CopyTree(w.dir, im.dir) == nil {
			w.checkImage(im, full, "Save reported success although a write failed; process killed afterwards")
		}
		_ = os.RemoveAll(imgRoot)
		return nil
	}
	lv := view(w.ds)
	if w.fault != nil {
		w.fault.F, _ = w.ds.FirstIndex()
		w.fault.L, _ = w.ds.LastIndex()
		w.fault.Cnt, w.fault.Sum = checksum(lv.ents)
		if lv.err != "" {
			w.fault = nil // nothing to compare the model with; checkInside reports it
		}
	}
	if code, msg := checkInside(lv, c); msg != "" {
		w.fail("crash:"+im.class+":"+code, "Save failed at step %d (%s); live store: %s", op.I, hit, msg)
	}
	if crashfs.CopyTree(w.dir, im.dir) == nil {
		w.checkImage(im, c, "Save failed, process killed")
	}
	_ = os.RemoveAll(imgRoot)
	// RaftNode.SaveToStorage retries until the Save succeeds
	if err2 := w.ds.Save(hs, es, sn); err2 != nil {
		w.fail("crash:retry:retry", "retry after a failed Save (step %d, %s) fails too: %v", op.I, hit, err2)
		return err2
	}
	return nil
}

// ---- crash points and faults inside DeleteBefore, CreateSnapshot and Init ----

// imagesDuring runs f with a copy of the directory before every file-system step (at most 24) and - for write steps
// that span more than one page - one more copy in which only the pages before the last page boundary inside the
// write have arrived (a large write interrupted by the death of the process). Every copy is checked with c.
func (w *world) imagesDuring(c *saveCtx, what string, f func() error) error {
	imgRoot := filepath.Join(workDir(), fmt.Sprintf("img%d", w.c.Case))
	_ = os.RemoveAll(imgRoot)
	var images []image
	var prev *crashfs.Event
	rec.Start(w.dir, func(ev *crashfs.Event) {
		cl := classify(ev, prev)
		cp := *ev
		prev = &cp
		w.c.Stats["step:"+cl]++
		w.c.Stats["crash_steps"]++
		if len(images) >= 24 || treeSize(w.dir) > 40<<20 {
			return
		}
		d := filepath.Join(imgRoot, fmt.Sprintf("s%d", ev.Seq))
		if crashfs.CopyTree(w.dir, d) == nil {
			images = append(images, image{dir: d, seq: ev.Seq, class: cl})
		}
		if k := tornPrefix(ev); k > 0 {
			dt := filepath.Join(imgRoot, fmt.Sprintf("t%d", ev.Seq))
			if crashfs.CopyTree(w.dir, dt) == nil && crashfs.ApplyTorn(w.dir, dt, ev, k) == nil {
				images = append(images, image{dir: dt, seq: ev.Seq, class: "torn-" + cl})
				w.c.Stats["torn_images"]++
			}
		}
	}, nil)
	err := f()
	rec.Stop()
	w.c.Stats["crash_images"] += len(images)
	for _, im := range images {
		w.checkImage(im, c, what)
	}
	_ = os.RemoveAll(imgRoot)
	return err
}

const pageSize = 4096

// tornPrefix: the length of the longest proper prefix of a write that ends on a page boundary of the file (0: the write
// lies inside one page - such a write is not interrupted by the death of the process).
func tornPrefix(ev *crashfs.Event) int {
	if ev.Kind != "write" || ev.Off < 0 || len(ev.Data) == 0 {
		return 0
	}
	end := ev.Off + int64(len(ev.Data))
	cut := (end - 1) / pageSize * pageSize // last page boundary strictly inside (Off, end)
	if cut <= ev.Off {
		return 0
	}
	return int(cut - ev.Off)
}

// failStep runs f while file-system step number `step` fails; returns f's result and the class of the failed step
// ("" = f has fewer steps).
func (w *world) failStep(step uint64, f func() error) (error, string) {
	var prev *crashfs.Event
	hit := ""
	rec.Start(w.dir, func(ev *crashfs.Event) {
		cl := classify(ev, prev)
		cp := *ev
		prev = &cp
		if uint64(ev.Seq) == step && cl != "meta-snapindex" && cl != "meta-snapterm" {
			failNext = true
			hit = cl
		}
	}, nil)
	err := f()
	rec.Stop()
	failNext = false
	if hit != "" {
		w.c.Stats["fault:"+hit]++
	}
	return err, hit
}

func (w *world) plainCtx() *saveCtx {
	c := &saveCtx{oldHS: w.hs, newHS: w.hs, oldSnap: snapD(w.snap), newSnap: snapD(w.snap)}
	f, l := msFirstLast(w.ms)
	c.oldFirst = f
	if f <= l {
		c.old, _ = w.ms.Entries(f, l+1, ^uint64(0))
	}
	return c
}

// delOp: DeleteBefore with crash images before every step (cdel) or with one failing step (fdel).
func (w *world) delOp(op *Op) error {
	c := w.plainCtx()
	c.delUpTo = op.I
	if op.K == "cdel" {
		return w.imagesDuring(c, "process killed inside DeleteBefore", func() error { return w.ds.DeleteBefore(op.I) })
	}
	err, hit := w.failStep(op.Step, func() error { return w.ds.DeleteBefore(op.I) })
	if hit == "" {
		return err
	}
	if hit == "remove" {
		// DeleteBefore does nothing but removals: step number = removals done before the failing one
		f, _ := w.ds.FirstIndex()
		w.dfault = &DelFaultObs{I: int(op.Step), Rep: err != nil, F: f}
	}
	if err == nil {
		w.c.Stats["fault-unreported:"+hit]++
		w.c.UnrepDB = append(w.c.UnrepDB, len(w.c.Outs))
	}
	// whatever was reported: the directory as it is now must open and hold the acknowledged log without a hole
	imgRoot := filepath.Join(workDir(), fmt.Sprintf("img%d", w.c.Case))
	_ = os.RemoveAll(imgRoot)
	im := image{dir: filepath.Join(imgRoot, "f"), seq: int(op.Step), class: "delfault-" + hit}
	if crashfs.CopyTree(w.dir, im.dir) == nil {
		w.checkImage(im, c, "a removal failed inside DeleteBefore; process killed afterwards")
	}
	_ = os.RemoveAll(imgRoot)
	if err != nil {
		// reported: the caller (a later ClearEntryLog proposal) asks again
		if err2 := w.ds.DeleteBefore(op.I); err2 != nil {
			w.fail("crash:retry:retry", "DeleteBefore(%d) after a reported removal failure fails too: %v", op.I, err2)
			return err2
		}
		return nil
	}
	return err
}

// uncompact: after a DeleteBefore whose failed removal was not reported, a reopened store may serve a prefix again that it
// had dropped from memory (the file is still there). The entries are the right ones, so the reference follows - only
// in such runs; everywhere else a first index that moves back is a failure.
func (w *world) uncompact() bool {
	if len(w.c.UnrepDB) == 0 {
		return false
	}
	f, _ := w.ds.FirstIndex()
	mf, ml := msFirstLast(w.ms)
	ff, _ := msFirstLast(w.full)
	if f >= mf || f < ff || mf > ml+1 {
		return false
	}
	es, err := w.full.Entries(f, ml+1, ^uint64(0))
	if err != nil {
		return false
	}
	ms := raft.NewMemoryStorage()
	if f > 1 {
		t, _ := w.full.Term(f - 1)
		_ = ms.ApplySnapshot(raftpb.Snapshot{Metadata: raftpb.SnapshotMetadata{Index: f - 1, Term: t}})
	}
	_ = ms.Append(es)
	w.ms = ms
	w.c.Stats["uncompacted"]++
	return true
}

// metaOp: CreateSnapshot with crash images (ccsnap) or one failing step (fcsnap). valid = the index is in the log.
func (w *world) metaOp(op *Op, ns *raftpb.Snapshot, valid bool, f func() error) error {
	c := w.plainCtx()
	if valid && raftlog.IsValidSnapshot(*ns) {
		c.newSnap = snapD(*ns)
	}
	if op.K == "ccsnap" {
		return w.imagesDuring(c, "process killed inside CreateSnapshot", f)
	}
	err, hit := w.failStep(op.Step, f)
	if hit == "" || err == nil {
		return err
	}
	if code, msg := checkInside(view(w.ds), c); msg != "" {
		w.fail("crash:fault-"+hit+":"+code, "CreateSnapshot failed at step %d (%s); live store: %s", op.Step, hit, msg)
	}
	imgRoot := filepath.Join(workDir(), fmt.Sprintf("img%d", w.c.Case))
	_ = os.RemoveAll(imgRoot)
	im := image{dir: filepath.Join(imgRoot, "f"), seq: int(op.Step), class: "fault-" + hit}
	if crashfs.CopyTree(w.dir, im.dir) == nil {
		w.checkImage(im, c, "CreateSnapshot failed, process killed")
	}
	_ = os.RemoveAll(imgRoot)
	// RaftNode.snapShot retries until CreateSnapshot succeeds
	if err2 := f(); err2 != nil {
		w.fail("crash:retry:retry", "retry after a failed CreateSnapshot (step %d, %s) fails too: %v", op.Step, hit, err2)
		return err2
	}
	return nil
}

// initWithFault: the store is closed; Init runs with one failing file-system step. If it reports an error the caller
// opens the directory again (a restart), which must succeed and find the acknowledged state.
func (w *world) initWithFault(op *Op) {
	var ds *raftlog.RaftDiskStorage
	err, hit := w.failStep(op.Step, func() error {
		var e error
		ds, e = raftlog.Init(w.dir, 0)
		return e
	})
	if hit != "" && err == nil {
		w.c.Stats["fault-unreported:"+hit]++
	}
	if ds != nil {
		_ = ds.Close()
	}
}
