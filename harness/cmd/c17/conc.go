package main

// Concurrent use of one RaftDiskStorage, the way lib/raftconn and engine/partition_raft.go use it: the Ready loop saves
// batches and calls TrySync (with a sync interval > 0 that starts backSync goroutines), the apply path creates snapshots
// and deletes the prefix, raft and the replay path read (Entries, Term, First/LastIndex,
// Snapshot, SlotGe, GetFirstLast, EntrySize, NumEntries) at any time. The binary for this mode is built with -race; the
// driver counts the race reports. The oracle is sound under every interleaving: entry i always has term 1+i/700 and a
// payload that is a function of i, so whatever a reader gets back can be checked without knowing what the writer did
// meanwhile; error classes 'compacted' and 'unavailable' are always legal for a reader; acknowledged entries must be
// there at the end and after a restart.
import (
	"fmt"
	"math"
	"os"
	"path/filepath"
	"sync"
	"sync/atomic"
	"time"

	"github.com/openGemini/openGemini/lib/raftlog"
	"go.etcd.io/etcd/raft/v3"
	"go.etcd.io/etcd/raft/v3/raftpb"
	"verifharness/internal/gen"
)

func concTerm(i uint64) uint64 { return 1 + i/700 }
func concLen(i uint64) int     { return int(i*7) % 40 }
func concEntry(i uint64) raftpb.Entry {
	return raftpb.Entry{Index: i, Term: concTerm(i), Data: payload(concLen(i), tagOf(i, concLen(i)))}
}

type concRun struct {
	mu      sync.Mutex
	fails   []string
	kinds   []string
	acked   atomic.Uint64 // last index whose Save has returned
	snapped atomic.Uint64 // index of the last snapshot whose CreateSnapshot has returned
	stop    atomic.Bool
	stats   map[string]int
	// DeleteBefore takes no storage lock: a reader that is inside a file while that file is removed reads from a closed
	// descriptor. The run keeps the removal apart from the readers' calls (the writer is not held back); see NOTES.
	delMu sync.RWMutex
}

func (c *concRun) fail(kind, f string, a ...any) {
	c.mu.Lock()
	defer c.mu.Unlock()
	if len(c.fails) < 10 {
		c.fails = append(c.fails, fmt.Sprintf(f, a...))
		c.kinds = append(c.kinds, kind)
	}
}
func (c *concRun) count(k string) {
	c.mu.Lock()
	c.stats[k]++
	c.mu.Unlock()
}

func (c *concRun) checkEntries(what string, lo uint64, es []raftpb.Entry) {
	for k, e := range es {
		w := concEntry(lo + uint64(k))
		if e.Index != w.Index || e.Term != w.Term || string(e.Data) != string(w.Data) {
			c.fail("conc-entry", "%s: position %d holds index %d term %d len %d, saved index %d term %d len %d", what, k, e.Index, e.Term, len(e.Data), w.Index, w.Term, len(w.Data))
			return
		}
	}
}

func concCase(no int, r *gen.Rand, total uint64) *Case {
	c := &Case{Case: no, Kind: "conc", Ops: []Op{}, Oracle: []string{}, OrKinds: []string{}, Clob: []uint64{}, Unrep: []int{}, UnrepDel: []int{}, UnrepDB: []int{}, Stats: map[string]int{}}
	dir := filepath.Join(workDir(), fmt.Sprintf("conc%d", no))
	_ = os.RemoveAll(dir)
	ds, err := raftlog.Init(dir, time.Millisecond)
	if err != nil {
		c.Oracle, c.OrKinds = append(c.Oracle, "Init failed: "+err.Error()), append(c.OrKinds, "init")
		return c
	}
	run := &concRun{stats: c.Stats}
	var wg sync.WaitGroup
	defer func() {
		if p := recover(); p != nil {
			run.fail("panic", "panic: %v", p)
		}
	}()
	guard := func(name string, f func()) {
		wg.Add(1)
		go func() {
			defer wg.Done()
			defer func() {
				if p := recover(); p != nil {
					run.fail("panic", "panic in %s: %v", name, p)
					run.stop.Store(true)
				}
			}()
			f()
		}()
	}
	rc, rr1, rr2 := r.Fork(), r.Fork(), r.Fork() // one generator per goroutine
	sizes := make([]int, 0, 4096)
	for n := uint64(0); n < total; {
		k := 1 + r.Intn(60)
		if r.Chance(1, 40) {
			k = 200 + r.Intn(800)
		}
		sizes = append(sizes, k)
		n += uint64(k)
	}
	// the Ready loop
	guard("writer", func() {
		next := uint64(1)
		for _, k := range sizes {
			if run.stop.Load() {
				break
			}
			es := make([]raftpb.Entry, 0, k)
			for j := 0; j < k; j++ {
				es = append(es, concEntry(next+uint64(j)))
			}
			last := next + uint64(k) - 1
			hs := &raftpb.HardState{Term: concTerm(last), Vote: 1, Commit: last}
			if err := ds.Save(hs, es, nil); err != nil {
				run.fail("conc-save", "Save(%d..%d): %v", next, last, err)
				break
			}
			run.acked.Store(last)
			run.count("save")
			if err := ds.TrySync(); err != nil {
				run.fail("conc-sync", "TrySync: %v", err)
			}
			next = last + 1
		}
		run.stop.Store(true)
	})
	// the apply path: snapshot at a committed index, then prefix deletion up to the snapshot index
	guard("compactor", func() {
		for !run.stop.Load() {
			a := run.acked.Load()
			if a > 50 {
				i := a - uint64(rc.Intn(40))
				if i > run.snapped.Load() {
					err := ds.CreateSnapshot(i, &raftpb.ConfState{Voters: []uint64{1, 2, 3}}, []byte("snapshot"))
					if err != nil && err != raft.ErrSnapOutOfDate {
						run.fail("conc-csnap", "CreateSnapshot(%d) with %d acknowledged: %v", i, a, err)
					} else if err == nil {
						run.snapped.Store(i)
						run.count("csnap")
					}
					if sp, e := ds.Snapshot(); e == nil && sp.Metadata.Index > 0 {
						run.delMu.Lock()
						e := ds.DeleteBefore(sp.Metadata.Index)
						run.delMu.Unlock()
						if e == nil {
							run.count("del")
						}
					}
				}
			}
			time.Sleep(time.Duration(200+rc.Intn(800)) * time.Microsecond)
		}
	})
	// raft and replay reading
	for _, rr := range []*gen.Rand{rr1, rr2} {
		rr := rr
		guard("reader", func() {
			var lastFirst uint64
			for !run.stop.Load() {
				run.delMu.RLock()
				a := run.acked.Load()
				f, _ := ds.FirstIndex()
				if f < lastFirst {
					run.fail("conc-first", "FirstIndex went back: %d after %d", f, lastFirst)
				}
				lastFirst = f
				l, _ := ds.LastIndex()
				if l < a {
					run.fail("conc-last", "LastIndex %d below the acknowledged %d", l, a)
				}
				if a >= 1 {
					lo := 1 + rr.Uint64()%a
					if rr.Chance(1, 2) && a > 30 {
						lo = a - rr.Uint64()%30
					}
					hi := lo + 1 + rr.Uint64()%20
					es, err := ds.Entries(lo, hi, math.MaxUint64)
					switch err {
					case nil:
						if len(es) == 0 || uint64(len(es)) > hi-lo {
							run.fail("conc-ents", "Entries(%d,%d): %d entries", lo, hi, len(es))
						}
						run.checkEntries(fmt.Sprintf("Entries(%d,%d)", lo, hi), lo, es)
						run.count("ents")
					case raft.ErrCompacted, raft.ErrUnavailable:
					default:
						run.fail("conc-ents", "Entries(%d,%d): %v", lo, hi, err)
					}
					t, err := ds.Term(lo)
					if err == nil && t != concTerm(lo) {
						run.fail("conc-term", "Term(%d) = %d, saved %d", lo, t, concTerm(lo))
					} else if err != nil && err != raft.ErrCompacted && err != raft.ErrUnavailable {
						run.fail("conc-term", "Term(%d): %v", lo, err)
					}
					run.count("term")
				}
				if rr.Chance(1, 8) {
					_, _ = ds.GetFirstLast()
					_, _ = ds.SlotGe(1 + rr.Uint64()%(a+1))
					_ = ds.EntrySize()
					if _, err := ds.Snapshot(); err != nil {
						run.fail("conc-snap", "Snapshot: %v", err)
					}
					if _, _, err := ds.InitialState(); err != nil {
						run.fail("conc-hs", "InitialState: %v", err)
					}
				}
				run.delMu.RUnlock()
			}
		})
	}
	wg.Wait()
	time.Sleep(5 * time.Millisecond) // let a pending backSync goroutine finish
	// everything acknowledged is there, now and after a restart
	final := func(what string, s *raftlog.RaftDiskStorage) {
		a := run.acked.Load()
		f, _ := s.FirstIndex()
		l, _ := s.LastIndex()
		if l != a {
			run.fail("conc-final", "%s: LastIndex %d, acknowledged %d", what, l, a)
		}
		if sn := run.snapped.Load(); f > sn+1 && f > 1 {
			run.fail("conc-final", "%s: FirstIndex %d beyond the snapshot index %d", what, f, sn)
		}
		for start := f; start <= l; {
			es, err := s.Entries(start, l+1, 64<<20)
			if err != nil || len(es) == 0 {
				run.fail("conc-final", "%s: log unreadable from %d (last %d): %v", what, start, l, err)
				return
			}
			run.checkEntries(what, start, es)
			start += uint64(len(es))
		}
		hs, _, err := s.InitialState()
		if err != nil || hs.Commit != a {
			run.fail("conc-final", "%s: hard state commit %d (err %v), saved %d", what, hs.Commit, err, a)
		}
	}
	final("at the end", ds)
	if err := ds.Close(); err != nil {
		run.fail("conc-final", "Close: %v", err)
	}
	if ds2, err := raftlog.Init(dir, 0); err != nil {
		run.fail("conc-final", "Init after the run: %v", err)
	} else {
		final("after restart", ds2)
		_ = ds2.Close()
	}
	_ = os.RemoveAll(dir)
	c.Stats["acked"] = int(run.acked.Load())
	c.Oracle, c.OrKinds = append(c.Oracle, run.fails...), append(c.OrKinds, run.kinds...)
	return c
}
