package main

import (
	"math"

	"github.com/openGemini/openGemini/lib/raftlog"

	"verifharness/internal/gen"
)

// The generator looks at the reference store (first/last index, true terms) to aim operations at the boundaries
// of the current state; every random choice comes from the one PRNG of the case.

type source func(w *world, step int) *Op

func fromList(ops []Op) source {
	return func(w *world, step int) *Op {
		if step >= len(ops) {
			return nil
		}
		o := ops[step]
		return &o
	}
}

func seg(f uint64, n int, t uint64, y, l int, g uint64) Seg {
	return Seg{F: f, N: n, T: t, Y: y, L: l, G: g}
}

// witnessCases: the confirmed C17-zerofill-prefix witness and its close neighbours.
func witnessCases() [][]Op {
	q := func(lo, hi uint64) Op { return Op{K: "ents", Lo: lo, Hi: hi, Max: math.MaxUint64} }
	save := func(s ...Seg) Op { return Op{K: "save", Segs: s} }
	return [][]Op{
		// W0: 30005 small entries (file 1 rotates), conflicting entry at 29990 => entry 1 reads back empty
		{save(seg(1, 30005, 1, 0, 5, 7)), save(seg(29990, 1, 2, 0, 5, 900)), q(1, 3), q(29988, 29991),
			{K: "reopen"}, q(1, 3), q(29988, 29991), {K: "sum"}},
		// W1: same, but entry 1 was read before the conflict (its length is then cached until reopen)
		{save(seg(1, 30005, 1, 0, 5, 7)), q(1, 3), save(seg(29990, 1, 2, 0, 5, 900)), q(1, 3), {K: "reopen"}, q(1, 3)},
		// W2: conflict exactly at the first index of the rotated file (slot 0): no damage expected
		{save(seg(1, 30005, 1, 0, 5, 7)), save(seg(1, 2, 2, 0, 6, 33)), q(1, 3), {K: "reopen"}, q(1, 3), {K: "sum"}},
		// W3: conflict in the current file that reaches the end of the slot table (30000 entries, no rotation yet)
		{save(seg(1, 30000, 1, 0, 3, 1)), save(seg(29999, 2, 2, 0, 3, 50)), q(1, 3), q(29997, 30001), {K: "reopen"},
			q(1, 3), q(29997, 30001), {K: "sum"}},
		// W4: rotation by size (7 entries of 4.5 MiB per file), conflict into the first file at slot 3
		{save(seg(1, 16, 1, 0, 4718592, 11)), save(seg(4, 2, 3, 0, 100, 5)), q(1, 2), q(1, 6), {K: "reopen"}, q(1, 6), {K: "sum"}},
		// W5: three files (1-6, 7-12, 13-16): queries, snapshot and a conflicting save exactly at the first index of the
		// middle file and of the current file
		{save(seg(1, 16, 1, 0, 4718592, 11)), {K: "term", I: 7}, {K: "term", I: 13}, {K: "term", I: 12}, q(7, 8), q(6, 8), q(12, 14),
			save(seg(13, 2, 2, 0, 50, 9)), {K: "sum"}, save(seg(7, 8, 3, 0, 70, 1)), {K: "term", I: 7}, {K: "sum"},
			save(seg(15, 8, 3, 0, 4718592, 30)), {K: "term", I: 15}, {K: "term", I: 21},
			{K: "csnap", I: 15, Snap: &SnapD{V: []uint64{1, 2}, D: 3}}, {K: "del", I: 15}, {K: "term", I: 15}, {K: "reopen"}, {K: "term", I: 21}, {K: "sum"}},
		// (W0-W5 above, W6-W7 below)
		// W6: boundary sweep over three files made by the size limit (1-6, 7-12, 13-16): Term, Entries and CreateSnapshot at
		// the first and the last index of EVERY file, before and after reopen
		append(append([]Op{save(seg(1, 16, 1, 0, 4718592, 11))}, sweep([]uint64{1, 6, 7, 12, 13, 16}, 16, true)...),
			append([]Op{{K: "reopen"}}, append(sweep([]uint64{1, 6, 7, 12, 13, 16}, 16, false), Op{K: "sum"})...)...),
		// W7: the same over three files made by the slot limit (1-30000, 30001-60000, 60001-60003)
		append(append([]Op{save(seg(1, 60003, 1, 0, 3, 11))}, sweep([]uint64{1, 30000, 30001, 60000, 60001, 60003}, 60003, true)...),
			append([]Op{{K: "reopen"}}, append(sweep([]uint64{1, 30000, 30001, 60000, 60001, 60003}, 60003, false), Op{K: "sum"})...)...),
	}
}

// sweep: Term, Entries (starting at, ending at, and straddling the index) and - if snaps - CreateSnapshot at every index of bs
func sweep(bs []uint64, last uint64, snaps bool) []Op {
	var ops []Op
	for _, b := range bs {
		ops = append(ops, Op{K: "term", I: b}, Op{K: "ents", Lo: b, Hi: b + 1, Max: math.MaxUint64})
		if b > 1 {
			ops = append(ops, Op{K: "ents", Lo: b - 1, Hi: minu(b+1, last) + 1, Max: math.MaxUint64})
		}
	}
	if snaps {
		for _, b := range bs {
			ops = append(ops, Op{K: "csnap", I: b, Snap: &SnapD{V: []uint64{1, 2}, D: b%60000 + 1}}, Op{K: "term", I: b})
		}
	}
	return ops
}

// crashCases: Saves with a crash image before every file-system step, and Saves in which one step fails.
// fixedLite: the second configuration (file wrapper v1) runs the cheap fixed cases only
var fixedLite = false

func crashCases() [][]Op {
	save := func(k string, hs *[3]uint64, sn *SnapD, s ...Seg) Op { return Op{K: k, Segs: s, HS: hs, Snap: sn} }
	v3 := []uint64{1, 2, 3}
	cs := [][]Op{
		// K0: append with hard state committing the new entries and a snapshot
		{save("save", &[3]uint64{1, 1, 5}, nil, seg(1, 5, 1, 0, 7, 3)),
			save("csave", &[3]uint64{2, 2, 8}, &SnapD{I: 5, T: 1, V: v3, D: 77}, seg(6, 3, 2, 0, 9, 40)), {K: "meta"}, {K: "sum"}},
		// K1: conflict in the current file (zero-fill), shorter batch than the discarded tail
		{save("save", &[3]uint64{1, 1, 4}, nil, seg(1, 10, 1, 0, 7, 3)),
			save("csave", &[3]uint64{2, 2, 6}, nil, seg(5, 2, 2, 0, 4, 90)), {K: "reopen"}, {K: "sum"}},
		// K2: the batch crosses the slot-table limit (rotation: truncate, sync, new file)
		{save("save", &[3]uint64{1, 1, 29000}, nil, seg(1, 29998, 1, 0, 3, 3)),
			save("csave", &[3]uint64{1, 1, 30004}, nil, seg(29999, 6, 1, 0, 5, 40)), {K: "sum"}},
		// K3: conflict into a rotated file (later file removed, zero-fill up to the data area)
		{save("save", &[3]uint64{1, 1, 29980}, nil, seg(1, 30005, 1, 0, 5, 7)),
			save("csave", &[3]uint64{2, 1, 29991}, nil, seg(29990, 2, 2, 0, 5, 900)), {K: "reopen"}, {K: "sum"}},
		// K4: rotation by size with large payloads (images only at the interesting steps)
		{save("save", nil, nil, seg(1, 5, 1, 0, 4718592, 11)),
			save("csave", &[3]uint64{1, 1, 8}, nil, seg(6, 3, 1, 0, 4718592, 30)), {K: "sum"}},
		// K5: hard state / snapshot only
		{save("save", &[3]uint64{1, 1, 2}, nil, seg(1, 4, 1, 0, 7, 3)),
			save("csave", &[3]uint64{3, 2, 4}, &SnapD{I: 3, T: 1, V: v3, D: 5}), {K: "meta"}},
	}
	// every step of a conflicting Save with hard state and snapshot fails once
	for k := uint64(0); k < 16; k++ {
		cs = append(cs, []Op{save("save", &[3]uint64{1, 1, 2}, nil, seg(1, 6, 1, 0, 7, 3)),
			{K: "fsave", I: k, HS: &[3]uint64{2, 2, 4}, Snap: &SnapD{I: 2, T: 1, V: v3, D: 9}, Segs: []Seg{seg(3, 2, 2, 0, 5, 50)}},
			{K: "reopen"}, {K: "meta"}, {K: "sum"}})
	}
	// ... and of a Save that rotates by size
	for _, k := range []uint64{0, 1, 2, 3, 4, 5, 6, 7, 8, 9, 10} {
		cs = append(cs, []Op{save("save", nil, nil, seg(1, 6, 1, 0, 4718592, 11)),
			{K: "fsave", I: k, HS: &[3]uint64{1, 1, 7}, Segs: []Seg{seg(7, 2, 1, 0, 4718592, 50)}}, {K: "reopen"}, {K: "sum"}})
	}
	// ... and of a Save that conflicts into a rotated file (removal of the later file, zero-fill up to the data area)
	for k := uint64(0); k < 6; k++ {
		cs = append(cs, []Op{save("save", nil, nil, seg(1, 7, 1, 0, 4718592, 11)),
			{K: "fsave", I: k, HS: &[3]uint64{2, 1, 5}, Segs: []Seg{seg(4, 2, 2, 0, 300, 50)}}, {K: "reopen"}, {K: "sum"}})
	}
	if fixedLite {
		return cs
	}
	three := seg(1, 60003, 1, 0, 3, 21) // files 1-30000, 30001-60000, 60001-60003
	cs = append(cs,
		// K6: the cleared slot range spans several pages (conflict at index 2 of 1000): a clearing write cut at a page boundary
		[]Op{save("save", &[3]uint64{1, 1, 1}, nil, seg(1, 1000, 1, 0, 3, 11)), save("csave", nil, nil, seg(2, 1, 2, 0, 5, 50)), {K: "reopen"}, {K: "sum"}},
		// K7: conflict into the FIRST of three files: two later files are removed (crash between the removals)
		[]Op{save("save", &[3]uint64{1, 1, 29000}, nil, three), save("csave", &[3]uint64{2, 1, 29991}, nil, seg(29990, 2, 2, 0, 5, 900)), {K: "reopen"}, {K: "sum"}},
		// K8: crash points inside DeleteBefore across two files
		[]Op{save("save", nil, nil, three), {K: "cdel", I: 60002}, {K: "sum"}, {K: "reopen"}, {K: "sum"}},
		// K10: a snapshot whose record (20 + ~6000 bytes at offset 1024 of raft.meta) spans three pages: crash points and page cuts
		[]Op{save("save", &[3]uint64{1, 1, 5}, nil, seg(1, 8, 1, 0, 7, 3)), {K: "csnap", I: 3, Snap: &SnapD{V: v3, D: 5}},
			{K: "ccsnap", I: 5, Snap: &SnapD{V: v3, D: 7, DL: 6000}}, {K: "meta"}, {K: "reopen"}, {K: "meta"}},
		// K9: crash points inside CreateSnapshot
		[]Op{save("save", &[3]uint64{1, 1, 5}, nil, seg(1, 8, 1, 0, 7, 3)), {K: "ccsnap", I: 5, Snap: &SnapD{V: v3, D: 7}}, {K: "meta"}, {K: "reopen"}, {K: "meta"}},
	)
	// every step of a conflicting Save into the first of three files fails once (removals, clearing write, entries)
	for _, k := range []uint64{0, 1, 2, 4, 5} {
		cs = append(cs, []Op{save("save", nil, nil, three),
			{K: "fsave", I: k, HS: &[3]uint64{2, 1, 29991}, Segs: []Seg{seg(29990, 2, 2, 0, 5, 900)}}, {K: "term", I: 29990}, {K: "reopen"}, {K: "sum"}})
	}
	// a piece of a multi-piece clear of the CURRENT file fails (conflict at index 2 of 1000: eight pieces, top down)
	for _, k := range []uint64{1, 3} {
		cs = append(cs, []Op{save("save", &[3]uint64{1, 1, 1}, nil, seg(1, 1000, 1, 0, 3, 11)),
			{K: "fsave", I: k, HS: &[3]uint64{2, 1, 2}, Segs: []Seg{seg(2, 3, 2, 0, 5, 50)}}, {K: "term", I: 2}, {K: "reopen"}, {K: "sum"}})
	}
	// a removal fails inside DeleteBefore: without a snapshot (nothing repairs the directory at the next start), and with one
	for k := uint64(0); k < 2; k++ {
		cs = append(cs, []Op{save("save", nil, nil, three), {K: "fdel", I: 60002, Step: k}, {K: "sum"}, {K: "reopen"}, {K: "sum"}})
	}
	cs = append(cs, []Op{save("save", &[3]uint64{1, 1, 60002}, nil, three), {K: "csnap", I: 60002, Snap: &SnapD{V: v3, D: 4}},
		{K: "fdel", I: 60002, Step: 0}, {K: "sum"}, {K: "reopen"}, {K: "sum"}})
	// a write fails inside CreateSnapshot
	for k := uint64(0); k < 4; k++ {
		cs = append(cs, []Op{save("save", &[3]uint64{1, 1, 5}, nil, seg(1, 8, 1, 0, 7, 3)),
			{K: "fcsnap", I: 5, Step: k, Snap: &SnapD{V: v3, D: 7}}, {K: "meta"}, {K: "reopen"}, {K: "meta"}})
	}
	// a step of Init fails (removal of the files below the snapshot index, creation of a first file)
	// (one case: the directory is brought back to three files before every restart)
	cs = append(cs, []Op{save("save", &[3]uint64{1, 1, 60002}, nil, three), {K: "csnap", I: 60002, Snap: &SnapD{V: v3, D: 4}},
		{K: "crash"}, {K: "finit", Step: 0}, {K: "sum"}, {K: "finit", Step: 1}, {K: "finit", Step: 2}, {K: "sum"}, {K: "meta"}})
	cs = append(cs, []Op{{K: "finit", Step: 0}, save("save", nil, nil, seg(1, 3, 1, 0, 7, 3)), {K: "finit", Step: 1}, {K: "sum"}})
	// the callers' protocol (raftconn/node.go, engine/partition_raft.go): Save with the commit index, snapshot at the
	// committed index after a flush, ClearEntryLog = DeleteBefore(min(proposed index, own snapshot index)), restart,
	// replay = Entries(snapshot index, commit+1)
	cs = append(cs, []Op{
		save("save", &[3]uint64{1, 1, 40000}, nil, seg(1, 45000, 1, 0, 3, 5)),
		{K: "csnap", I: 40000, Snap: &SnapD{V: v3, D: 1}}, {K: "del", I: 40000}, {K: "meta"},
		save("save", &[3]uint64{2, 1, 61000}, nil, seg(45001, 17000, 2, 0, 3, 9)),
		{K: "csnap", I: 61000, Snap: &SnapD{V: v3, D: 2}}, {K: "del", I: 61000}, {K: "crash"}, {K: "meta"},
		{K: "ents", Lo: 61000, Hi: 61001, Max: math.MaxUint64}, {K: "ents", Lo: 61000, Hi: 62001, Max: math.MaxUint64}, {K: "term", I: 61000},
		save("save", &[3]uint64{3, 1, 62000}, nil, seg(61500, 600, 3, 0, 3, 1)), {K: "sum"}})
	return cs
}

type caseGen struct {
	r    *gen.Rand
	kind string
	n    int
	tag  uint64
	term uint64
	lay  layout
	tail []Op // boundary sweep appended at the end of a case that has more than one entry file
	done bool
}

// layout: the generator's own book-keeping of where the rotation rule (slot count, file size) puts each entry, used
// ONLY to aim operations at the first/last index of entry files (never as an oracle). Indexes start at 1.
type layout struct {
	file []int32 // file sequence number of entry i (position i-1)
	end  []int64 // offset just after its payload
}

func (l *layout) save(es []Seg) {
	if len(es) == 0 || es[0].N == 0 {
		return
	}
	b := int(es[0].F)
	if b < 1 || b > len(l.file)+1 {
		return
	}
	l.file, l.end = l.file[:b-1], l.end[:b-1]
	f, slot, off := int32(0), 0, int64(raftlog.VerifLogFileOffset)
	if b > 1 {
		f, off = l.file[b-2], l.end[b-2]
		for k := b - 2; k >= 0 && l.file[k] == f; k-- {
			slot++
		}
	}
	for _, s := range es {
		for k := 0; k < s.N; k++ {
			if slot >= raftlog.VerifMaxNumEntries || off+4+int64(s.L) > int64(raftlog.VerifMaxLogFileSize) {
				f, slot, off = f+1, 0, int64(raftlog.VerifLogFileOffset)
			}
			off += 4 + int64(s.L)
			slot++
			l.file = append(l.file, f)
			l.end = append(l.end, off)
		}
	}
}

// bounds returns the first indexes of entry files inside [lo, hi] (at most 8, the highest ones)
func (l *layout) bounds(lo, hi uint64) []uint64 {
	var out []uint64
	for i := len(l.file) - 1; i >= 1 && len(out) < 8; i-- {
		if l.file[i] != l.file[i-1] {
			if idx := uint64(i + 1); idx >= lo && idx <= hi {
				out = append(out, idx)
			}
		}
	}
	return out
}

// edges returns the first and the last index of every entry file (by the generator's book-keeping) inside [lo, hi],
// at most the 4 newest files
func (l *layout) edges(lo, hi uint64) []uint64 {
	var out []uint64
	n := uint64(len(l.file))
	if hi > n {
		hi = n
	}
	end := hi
	for i := hi; i >= lo && i >= 1 && len(out) < 8; i-- {
		if i == lo || i == 1 || l.file[i-1] != l.file[i-2] {
			out = append([]uint64{i, end}, out...)
			end = i - 1
		}
	}
	return out
}

// aim returns, with probability 1/3 when there is one, an index at (or next to) the first index of an entry file
func (g *caseGen) aim(i, lo, hi uint64) uint64 {
	if bs := g.lay.bounds(lo, hi); len(bs) > 0 && g.r.Chance(1, 3) {
		x := gen.Pick(g.r, bs)
		switch g.r.Intn(4) {
		case 0:
			if x > lo {
				return x - 1
			}
		case 1:
			if x < hi {
				return x + 1
			}
		}
		return x
	}
	return i
}

func genSource(r *gen.Rand, kind string) source {
	g := &caseGen{r: r, kind: kind, tag: uint64(r.Intn(60000)), term: 1}
	switch kind {
	case "small":
		g.n = r.Range(6, 40)
	case "size":
		g.n = r.Range(6, 22)
	case "count":
		g.n = r.Range(8, 18)
	}
	return g.next
}

var smallLens = []int{0, 1, 2, 3, 8, 17, 40, 200, 4096}

func (g *caseGen) payloadLen() int {
	r := g.r
	switch g.kind {
	case "size":
		switch r.Intn(6) {
		case 0:
			return r.Range(0, 64)
		case 1:
			return r.Range(300<<10, 1<<20)
		case 2:
			return (1 << 20) - 4 + r.Range(-2, 2)
		default:
			return r.Range(1<<20, 6<<20)
		}
	case "count":
		return gen.Pick(r, []int{0, 1, 2, 5, 9})
	}
	return gen.Pick(r, smallLens)
}

func (g *caseGen) termAt(w *world, i uint64) uint64 {
	if i == 0 {
		return 0
	}
	t, err := w.full.Term(i)
	if err != nil {
		return 0
	}
	return t
}

// a batch of n consecutive entries starting at b, in 1..3 segments, terms never decreasing
func (g *caseGen) batch(w *world, b uint64, n int) []Seg {
	r := g.r
	t := g.termAt(w, b-1)
	if t == 0 {
		t = 1
	}
	if t < g.term && r.Chance(3, 4) {
		t = g.term
	}
	var segs []Seg
	for n > 0 {
		k := n
		if r.Chance(1, 3) && n > 1 {
			k = r.Range(1, n)
		}
		if r.Chance(1, 3) {
			t += uint64(r.Range(1, 3))
		}
		y := 0
		if r.Chance(1, 8) {
			y = r.Range(1, 2)
		}
		segs = append(segs, seg(b, k, t, y, g.payloadLen(), g.tag))
		g.tag += uint64(k) + 13
		b += uint64(k)
		n -= k
	}
	if t > g.term {
		g.term = t
	}
	return segs
}

func (g *caseGen) pickIndex(lo, hi uint64) uint64 {
	if hi <= lo {
		return lo
	}
	return lo + g.r.Uint64()%(hi-lo+1)
}

func sub(a, b uint64) uint64 {
	if a < b {
		return 0
	}
	return a - b
}

func (g *caseGen) next(w *world, step int) *Op {
	r := g.r
	if step >= g.n {
		if !g.done {
			g.done = true
			// Term / Entries / CreateSnapshot at the first and the last index of every entry file still in the log
			f, l := msFirstLast(w.ms)
			if bs := g.lay.edges(f, l); len(bs) > 2 && f <= l {
				g.tail = sweep(bs, l, true)
				w.c.Stats["sweep_files"] += len(bs) / 2
			}
			g.tail = append(g.tail, Op{K: "sum"})
		}
		if len(g.tail) == 0 {
			return nil
		}
		op := g.tail[0]
		g.tail = g.tail[1:]
		return &op
	}
	first, last := msFirstLast(w.ms)
	empty := last < first
	if g.kind == "count" && step == 0 {
		// bring the log close to (or past) the slot-table limit in one or two big saves
		n := gen.Pick(r, []int{29990, 29999, 30000, 30001, 30005, 30040, 45000, 60003})
		if r.Chance(1, 3) {
			n = r.Range(29000, 31000)
		}
		op := &Op{K: "save", Segs: g.batch(w, 1, n)}
		g.lay.save(op.Segs)
		return op
	}
	c := r.Intn(100)
	switch {
	case c < 42 || empty:
		// save
		b := last + 1
		lowest := first
		if w.si+1 > lowest {
			lowest = w.si + 1
		}
		if w.hs.Commit+1 > lowest {
			lowest = w.hs.Commit + 1 // raft never overwrites a committed entry
		}
		if !empty && lowest <= last && r.Chance(2, 5) {
			switch r.Intn(4) {
			case 0:
				b = last
			case 1:
				b = lowest
			default:
				b = g.pickIndex(lowest, last)
			}
			if g.kind == "count" && r.Chance(1, 2) {
				// aim at the neighbourhood of a file boundary
				for _, e := range []uint64{30000, 60000} {
					if e+8 > lowest && sub(e, 8) < last {
						b = g.pickIndex(maxu(lowest, sub(e, 8)), minu(last, e+8))
					}
				}
			}
		}
		var n int
		switch g.kind {
		case "small":
			n = r.Range(1, 20)
		case "size":
			n = r.Range(1, 12)
		default:
			n = gen.Pick(r, []int{1, 2, 7, 15, 40, 300})
			if r.Chance(1, 6) {
				n = r.Range(1000, 31000)
			}
		}
		if b <= last {
			b = g.aim(b, lowest, last)
		}
		op := &Op{K: "save", Segs: g.batch(w, b, n)}
		g.lay.save(op.Segs)
		crashy := false
		if n <= 40 && r.Chance(1, 30) {
			crashy = true
			op.K = "csave"
			if r.Chance(2, 5) || g.kind == "size" { // images of multi-megabyte directories: one per Save at most
				op.K = "fsave"
				op.I = uint64(r.Intn(3*n + 10))
			}
		}
		if r.Chance(1, 2) || crashy {
			commit := sub(b, uint64(r.Range(0, 3)))
			if crashy || r.Chance(1, 3) {
				commit = b + uint64(r.Intn(n)) // commits entries of this very batch
			}
			if commit < w.hs.Commit {
				commit = w.hs.Commit
			}
			op.HS = &[3]uint64{g.term, uint64(r.Range(0, 3)), commit}
			if r.Chance(1, 10) {
				op.HS = &[3]uint64{0, 0, 0}
			}
		}
		if !empty && b > first && (r.Chance(1, 8) || (crashy && r.Chance(1, 3))) {
			s := g.pickIndex(maxu(first, w.si), b-1)
			op.Snap = &SnapD{I: s, T: g.termAt(w, s), D: uint64(r.Intn(60000))}
			if r.Chance(2, 3) {
				op.Snap.V = []uint64{1, 2, 3}[:r.Range(0, 3)]
			}
		} else if r.Chance(1, 25) {
			op.Snap = &SnapD{V: []uint64{1, 2}}
			if r.Chance(1, 3) {
				op.Snap.V = nil // empty snapshot: must be ignored
			}
		}
		return op
	case c < 62:
		lo := gen.Pick(r, []uint64{sub(first, 1), first, first + 1, g.pickIndex(first, last), g.pickIndex(first, last), last, last + 1})
		if g.kind == "count" && r.Chance(1, 2) {
			lo = g.pickIndex(sub(30000, 3), 30003)
		}
		lo = g.aim(lo, first, last)
		hi := gen.Pick(r, []uint64{lo, lo + 1, lo + 2, lo + uint64(r.Intn(12)), last, last + 1, last + 2})
		if hi < lo {
			hi = lo
		}
		if hi-lo > 40 {
			hi = lo + uint64(r.Range(1, 40))
		}
		max := gen.Pick(r, []uint64{0, 1, 11, 12, 13, uint64(r.Intn(300)), uint64(r.Intn(8 << 20)), math.MaxUint64, math.MaxUint64})
		if r.Chance(1, 3) && lo >= first && hi <= last+1 && lo < hi {
			// aim the size limit exactly at (and one around) the protobuf size of the first k entries of the range
			if es, err := w.ms.Entries(lo, hi, math.MaxUint64); err == nil && len(es) > 0 {
				k := r.Range(1, len(es))
				var sz uint64
				for _, e := range es[:k] {
					sz += uint64(e.Size())
				}
				max = sz + uint64(r.Intn(3)) - 1
			}
		}
		return &Op{K: "ents", Lo: lo, Hi: hi, Max: max}
	case c < 74:
		i := gen.Pick(r, []uint64{0, sub(first, 2), sub(first, 1), first, g.pickIndex(first, last), last, last + 1, last + 2, w.si})
		return &Op{K: "term", I: g.aim(i, first, last)}
	case c < 80:
		i := gen.Pick(r, []uint64{sub(first, 1), first, g.pickIndex(first, last), g.pickIndex(first, last), last, last + 1})
		d := &SnapD{D: uint64(r.Intn(60000))}
		if r.Chance(2, 3) {
			d.V = []uint64{1, 2, 3}[:r.Range(0, 3)]
		}
		if r.Chance(1, 12) {
			d.DL = r.Range(3000, 9000) // a snapshot record that spans pages of raft.meta
		}
		op := &Op{K: "csnap", I: g.aim(i, first, last), Snap: d}
		if r.Chance(1, 8) {
			op.K, op.Step = "fcsnap", uint64(r.Intn(4))
			if r.Chance(1, 2) {
				op.K = "ccsnap"
			}
		}
		return op
	case c < 86:
		i := gen.Pick(r, []uint64{sub(first, 1), first, g.pickIndex(first, last), w.si, w.si, last, last + 1})
		op := &Op{K: "del", I: g.aim(i, first, last)}
		if g.kind != "size" && r.Chance(1, 4) {
			op.K, op.Step = "cdel", 0
			// a failing removal is only injected inside the callers' contract (index <= snapshot index): the next start
			// removes the file again
			if op.I <= w.si && r.Chance(1, 2) {
				op.K, op.Step = "fdel", uint64(r.Intn(2))
			}
		}
		return op
	case c < 93:
		if r.Chance(1, 10) {
			return &Op{K: "finit", Step: uint64(r.Intn(4))}
		}
		return &Op{K: "reopen"}
	case c < 95:
		return &Op{K: "crash"}
	case c < 98:
		return &Op{K: "meta"}
	default:
		return &Op{K: "sum"}
	}
}

func maxu(a, b uint64) uint64 {
	if a > b {
		return a
	}
	return b
}
func minu(a, b uint64) uint64 {
	if a < b {
		return a
	}
	return b
}
