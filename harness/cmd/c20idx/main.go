// c20idx: debugging aid - dumps a column-store primary-key index file (.idx) with the repository's own reader.
package main

import (
	"fmt"
	"os"

	"github.com/openGemini/openGemini/engine/immutable/colstore"
	"github.com/openGemini/openGemini/lib/util/lifted/vm/protoparser/influx"
)

func main() {
	if len(os.Args) >= 6 && os.Args[1] == "bf" {
		n := 0
		fmt.Sscan(os.Args[5], &n)
		bfProbe(os.Args[2], os.Args[3], os.Args[4], n)
		return
	}
	for _, f := range os.Args[1:] {
		lock := ""
		r, err := colstore.NewPrimaryKeyReader(f, &lock)
		if err != nil {
			fmt.Println(f, "open:", err)
			continue
		}
		rec, tc, err := r.ReadData()
		if err != nil {
			fmt.Println(f, "read:", err)
			continue
		}
		fmt.Println(f, "tcLocation", tc, "rows", rec.RowNums(), "schema", rec.Schema)
		for row := 0; row < rec.RowNums(); row++ {
			var cells []string
			for c := range rec.Schema {
				cv := rec.Column(c)
				if cv.IsNil(row) {
					cells = append(cells, "null")
					continue
				}
				switch rec.Schema[c].Type {
				case influx.Field_Type_Int:
					v, _ := cv.IntegerValue(row)
					cells = append(cells, fmt.Sprint(v))
				case influx.Field_Type_Float:
					v, _ := cv.FloatValue(row)
					cells = append(cells, fmt.Sprint(v))
				case influx.Field_Type_Boolean:
					v, _ := cv.BooleanValue(row)
					cells = append(cells, fmt.Sprint(v))
				default:
					v, _ := cv.StringValueSafe(row)
					cells = append(cells, fmt.Sprintf("%q", v))
				}
			}
			fmt.Println("  ", row, cells)
		}
		if rec.Schema[0].Type == influx.Field_Type_Float {
			for _, v := range []float64{1.0, 0.5, -2.5, 2.0} {
				scanFloatEq(rec, v)
			}
		}
		_ = r.Close()
	}
}
