package main

import (
	"fmt"
	"path"

	"github.com/openGemini/openGemini/engine/index/sparseindex"
	"github.com/openGemini/openGemini/lib/record"
	"github.com/openGemini/openGemini/lib/rpn"
	"github.com/openGemini/openGemini/lib/util/lifted/influx/influxql"
	"github.com/openGemini/openGemini/lib/util/lifted/influx/query"
	"github.com/openGemini/openGemini/lib/util/lifted/vm/protoparser/influx"
)

type tf struct{ p string }

func (t *tf) Name() string { return path.Base(t.p) }
func (t *tf) Path() string { return t.p }

// bfProbe: MayBeInFragment of `col MATCHPHRASE phrase` for the first n blocks of the bloom filter file next to tssp
func bfProbe(tssp, col, phrase string, n int) {
	cond := &influxql.BinaryExpr{Op: influxql.MATCHPHRASE, LHS: &influxql.VarRef{Val: col, Type: influxql.String}, RHS: &influxql.StringLiteral{Val: phrase}}
	opt := &query.ProcessorOptions{Condition: cond}
	rd, err := sparseindex.NewBloomFilterIndexReader(rpn.ConvertToRPNExpr(opt.GetCondition()), record.Schemas{{Name: col, Type: influx.Field_Type_String}}, opt, true)
	if err == nil {
		err = rd.ReInit(&tf{p: tssp})
	}
	if err != nil {
		fmt.Println("bf reader:", err)
		return
	}
	var res []int
	for f := 0; f < n; f++ {
		ok, e := rd.MayBeInFragment(uint32(f))
		if e != nil {
			fmt.Println("MayBeInFragment", f, e)
			return
		}
		if ok {
			res = append(res, f)
		}
	}
	fmt.Println("bf", path.Base(tssp), col, phrase, "kept blocks:", res)
}
