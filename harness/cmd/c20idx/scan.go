package main

import (
	"fmt"
	"os"

	"github.com/openGemini/openGemini/engine/index/sparseindex"
	"github.com/openGemini/openGemini/lib/fragment"
	"github.com/openGemini/openGemini/lib/record"
	"github.com/openGemini/openGemini/lib/util/lifted/influx/influxql"
)

// scanFloatEq: Scan of `<first column> = v` over an index record as the attached reader does it
func scanFloatEq(rec *record.Record, v float64) {
	var rhs influxql.Expr = &influxql.NumberLiteral{Val: v}
	if os.Getenv("INTLIT") != "" && v == float64(int64(v)) {
		rhs = &influxql.IntegerLiteral{Val: int64(v)}
	}
	cond := &influxql.BinaryExpr{Op: influxql.EQ, LHS: &influxql.VarRef{Val: rec.Schema[0].Name, Type: influxql.Float}, RHS: rhs}
	kc, err := sparseindex.NewKeyCondition(nil, cond, rec.Schema)
	if err != nil {
		fmt.Println("cond:", err)
		return
	}
	n := rec.RowNums()
	acc := make([]uint64, n)
	for i := range acc {
		acc[i] = uint64(i + 1)
	}
	mark := fragment.NewIndexFragmentVariable(acc)
	frs, err := sparseindex.NewPKIndexReader(8192, 8, 0).Scan("x", rec, mark, kc)
	fmt.Println("scan", rec.Schema[0].Name, "=", v, "->", frs, err, "binary:", kc.CanDoBinarySearch(), "maxkey", kc.GetMaxKeyIndex())
}
