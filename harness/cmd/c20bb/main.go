// C20 black box: one ts-server built from the working tree; column-store measurements whose primary key / sort key is a
// generated list of typed fields (string, int, float, bool, optionally time); every key field k has a twin field c that
// holds the same value in every row but is NOT part of the key. Rows (a few fragments of 8192 rows per file, small value
// domains, so fragment boundaries fall inside runs of equal keys) are written over HTTP line protocol and flushed to
// column-store files by the real memtable sort, file writer and primary-index writer. Every generated condition is asked
// twice: over the key fields (the primary-key index narrows the scan: hybrid_index_reader / PKIndexReaderImpl.Scan) and
// over the twin fields (nothing can be pruned: every atom is AlwaysTrue for the index). DIRECT ORACLE: the two answers
// (sets of row ids) are equal - "the answer equals a full scan". A brute-force evaluation over the acknowledged rows is
// reported as well (informational: it also depends on the engine's row-filter semantics, which is not this property).
//
// usage: c20bb <ts-server> <config template> <port base> <work dir> <rows per measurement> <queries per measurement>
package main

import (
	"encoding/json"
	"fmt"
	"io"
	"net/http"
	"net/url"
	"os"
	"os/exec"
	"path/filepath"
	"sort"
	"strconv"
	"strings"
	"syscall"
	"time"

	"verifharness/internal/gen"
)

type server struct {
	bin, conf, dir string
	port           int
	cmd            *exec.Cmd
	base           string
	hc             *http.Client
}

func newServer(bin, confTemplate, dir string, port int) (*server, error) {
	raw, err := os.ReadFile(confTemplate)
	if err != nil {
		return nil, err
	}
	if err := os.MkdirAll(dir, 0o755); err != nil {
		return nil, err
	}
	txt := strings.ReplaceAll(strings.ReplaceAll(string(raw), "\r\n", "\n"), "/tmp/openGemini", filepath.Join(dir, "og"))
	ports := map[string]int{"8086": 0, "8091": 1, "8092": 2, "8088": 3, "8087": 4, "8400": 5, "8401": 6, "8305": 7, "8010": 8, "8011": 9}
	for from, off := range ports {
		txt = strings.ReplaceAll(txt, "127.0.0.1:"+from, fmt.Sprintf("127.0.0.1:%d", port+off))
	}
	txt = strings.Replace(txt, "store-enabled = true", "store-enabled = false", 1)
	conf := filepath.Join(dir, "ts-server.conf")
	if err := os.WriteFile(conf, []byte(txt), 0o644); err != nil {
		return nil, err
	}
	return &server{bin: bin, conf: conf, dir: dir, port: port, base: fmt.Sprintf("http://127.0.0.1:%d", port),
		hc: &http.Client{Timeout: 120 * time.Second}}, nil
}

func (s *server) start() error {
	logf, err := os.OpenFile(filepath.Join(s.dir, "ts-server.log"), os.O_CREATE|os.O_APPEND|os.O_WRONLY, 0o644)
	if err != nil {
		return err
	}
	cmd := exec.Command(s.bin, "-config", s.conf)
	cmd.Dir = s.dir
	cmd.Stdout, cmd.Stderr = logf, logf
	cmd.Env = append(os.Environ(), "HOME="+s.dir, "TMPDIR="+s.dir)
	// own process group: only processes this harness started are ever signalled
	cmd.SysProcAttr = &syscall.SysProcAttr{Setpgid: true, Pdeathsig: syscall.SIGKILL}
	if err := cmd.Start(); err != nil {
		return err
	}
	s.cmd = cmd
	deadline := time.Now().Add(120 * time.Second)
	for time.Now().Before(deadline) {
		resp, err := s.hc.Get(s.base + "/ping")
		if err == nil {
			resp.Body.Close()
			if resp.StatusCode < 300 {
				for i := 0; i < 150; i++ {
					if _, err := s.query("", "show databases"); err == nil {
						return nil
					}
					time.Sleep(200 * time.Millisecond)
				}
				return nil
			}
		}
		time.Sleep(200 * time.Millisecond)
	}
	s.kill()
	return fmt.Errorf("ts-server did not become ready on %s", s.base)
}

func (s *server) kill() {
	if s == nil || s.cmd == nil || s.cmd.Process == nil {
		return
	}
	_ = syscall.Kill(-s.cmd.Process.Pid, syscall.SIGKILL)
	_, _ = s.cmd.Process.Wait()
	s.cmd = nil
}

type qSeries struct {
	Name    string   `json:"name"`
	Columns []string `json:"columns"`
	Values  [][]any  `json:"values"`
}
type qResult struct {
	Series []qSeries `json:"series"`
	Error  string    `json:"error"`
}
type qResp struct {
	Results []qResult `json:"results"`
	Error   string    `json:"error"`
}

func (s *server) query(db, q string) ([]qSeries, error) {
	v := url.Values{"q": {q}, "epoch": {"ns"}}
	if db != "" {
		v.Set("db", db)
	}
	resp, err := s.hc.PostForm(s.base+"/query", v)
	if err != nil {
		return nil, err
	}
	defer resp.Body.Close()
	b, _ := io.ReadAll(resp.Body)
	var r qResp
	dec := json.NewDecoder(strings.NewReader(string(b)))
	dec.UseNumber()
	if err := dec.Decode(&r); err != nil {
		return nil, fmt.Errorf("status %d: unparsable answer %.200q", resp.StatusCode, b)
	}
	if r.Error != "" {
		return nil, fmt.Errorf("%s", r.Error)
	}
	if len(r.Results) == 0 {
		return nil, nil
	}
	if r.Results[0].Error != "" {
		return nil, fmt.Errorf("%s", r.Results[0].Error)
	}
	return r.Results[0].Series, nil
}

func (s *server) write(db, body string) error {
	u := s.base + "/write?db=" + url.QueryEscape(db)
	var last error
	for i := 0; i < 10; i++ {
		resp, err := s.hc.Post(u, "text/plain", strings.NewReader(body))
		if err != nil {
			last = err
			time.Sleep(300 * time.Millisecond)
			continue
		}
		b, _ := io.ReadAll(resp.Body)
		resp.Body.Close()
		if resp.StatusCode < 300 {
			return nil
		}
		last = fmt.Errorf("write status %d: %.300s", resp.StatusCode, b)
		time.Sleep(300 * time.Millisecond)
	}
	return last
}

func (s *server) flush() error {
	resp, err := s.hc.Post(s.base+"/debug/ctrl?mod=flush", "text/plain", strings.NewReader(""))
	if err != nil {
		return err
	}
	b, _ := io.ReadAll(resp.Body)
	resp.Body.Close()
	if resp.StatusCode >= 300 || !strings.Contains(string(b), "success") {
		return fmt.Errorf("flush: status %d %.200s", resp.StatusCode, b)
	}
	return nil
}

// ---------------------------------------------------------------------------------------------

type val struct {
	s string
	i int64
	f float64
	b bool
}

type row struct {
	id   int64
	ts   int64
	vals []val // per key field
	text string // the bloom-indexed text field t0 (and its non-indexed twin u0)
}

var bbWords = []string{"needle", "hay", "alpha", "beta", "gamma", "x7", "error", "ok", "agent1", "agent2", "rare1", "rare2"}

var strDom = []string{"A", "B", "C", "D", "Da", "a", "ab", "b", "é", "日本", "z"}
var intDom = []int64{-3, -1, 0, 1, 2, 3, 4, 5, 7, 9, 9223372036854775807, -9223372036854775808}
var floatDom = []float64{-2.5, -1, 0, 0.5, 1, 1.5, 2, 3.25, 1e300, -1e300, 5e-324}

func genVal(r *gen.Rand, ty string, small int) val {
	switch ty {
	case "string":
		return val{s: strDom[r.Intn(min(small, len(strDom)))]}
	case "int":
		if r.Chance(1, 40) {
			return val{i: intDom[10+r.Intn(2)]}
		}
		return val{i: intDom[r.Intn(min(small, 10))]}
	case "float":
		return val{f: floatDom[r.Intn(min(small, len(floatDom)))]}
	default:
		return val{b: r.Bool()}
	}
}

func cmp(ty string, a, b val) int {
	switch ty {
	case "string":
		return strings.Compare(a.s, b.s)
	case "int":
		if a.i < b.i {
			return -1
		} else if a.i > b.i {
			return 1
		}
		return 0
	case "float":
		if a.f < b.f {
			return -1
		} else if a.f > b.f {
			return 1
		}
		return 0
	default:
		if a.b == b.b {
			return 0
		} else if !a.b {
			return -1
		}
		return 1
	}
}

func lit(ty string, v val) string {
	switch ty {
	case "string":
		return "'" + v.s + "'"
	case "int":
		return strconv.FormatInt(v.i, 10)
	case "float":
		s := strconv.FormatFloat(v.f, 'g', -1, 64)
		if !strings.ContainsAny(s, ".e") {
			s += ".0"
		}
		return s
	default:
		return strconv.FormatBool(v.b)
	}
}

func lpField(ty string, v val) string {
	switch ty {
	case "string":
		return `"` + v.s + `"`
	case "int":
		return strconv.FormatInt(v.i, 10) + "i"
	case "float":
		return strconv.FormatFloat(v.f, 'g', -1, 64)
	default:
		return strconv.FormatBool(v.b)
	}
}

var ddlType = map[string]string{"string": "string", "int": "int64", "float": "float64", "bool": "bool"}

type cond struct {
	op   string // and or | = != < <= > >= | match (MATCHPHRASE on the bloom-indexed text field)
	args []*cond
	col  int
	v    val
	w    string
}

func (c *cond) hasMatch() bool {
	if c.op == "and" || c.op == "or" {
		return c.args[0].hasMatch() || c.args[1].hasMatch()
	}
	return c.op == "match"
}

func (c *cond) text(names []string, types []string) string {
	if c.op == "and" || c.op == "or" {
		return "(" + c.args[0].text(names, types) + " " + strings.ToUpper(c.op) + " " + c.args[1].text(names, types) + ")"
	}
	if c.op == "match" {
		f := "t0"
		if len(names) > 0 && strings.HasPrefix(names[0], "c") {
			f = "u0"
		}
		return "MATCHPHRASE(" + f + ", '" + c.w + "')"
	}
	return names[c.col] + " " + c.op + " " + lit(types[c.col], c.v)
}

func (c *cond) eval(types []string, r *row) bool {
	switch c.op {
	case "and":
		return c.args[0].eval(types, r) && c.args[1].eval(types, r)
	case "or":
		return c.args[0].eval(types, r) || c.args[1].eval(types, r)
	}
	if c.op == "match" {
		for _, w := range strings.Fields(r.text) {
			if w == c.w {
				return true
			}
		}
		return false
	}
	k := cmp(types[c.col], r.vals[c.col], c.v)
	switch c.op {
	case "=":
		return k == 0
	case "!=":
		return k != 0
	case "<":
		return k < 0
	case "<=":
		return k <= 0
	case ">":
		return k > 0
	default:
		return k >= 0
	}
}

func (c *cond) hasIntegralFloatLiteral(types []string) bool {
	if c.op == "and" || c.op == "or" {
		return c.args[0].hasIntegralFloatLiteral(types) || c.args[1].hasIntegralFloatLiteral(types)
	}
	return c.op != "match" && types[c.col] == "float" && c.v.f == float64(int64(c.v.f))
}

type Failure struct {
	Mst      string  `json:"mst"`
	DDL      string  `json:"ddl"`
	Query    string  `json:"query"`
	Twin     string  `json:"twin"`
	Missing  []int64 `json:"missing"` // ids the full scan returns and the indexed query does not (first 10)
	Extra    []int64 `json:"extra"`
	NKey     int     `json:"nkey"`
	NTwin    int     `json:"ntwin"`
	NBrute   int     `json:"nbrute"`
	Err      string  `json:"err,omitempty"`
	MissRows []string `json:"missrows,omitempty"`
	// LitMix: the condition compares a float key field with a literal of integral value (the store receives it as an integer
	// literal: finding C20-literal-type-mismatch)
	LitMix bool `json:"litmix,omitempty"`
	// Bloom: the condition has a MATCHPHRASE on the bloom-filter indexed field
	Bloom bool `json:"bloom,omitempty"`
}

type Out struct {
	Kind     string    `json:"bb"` // "mst" | "error" | "done"
	Msg      string    `json:"msg,omitempty"`
	Mst      string    `json:"mst,omitempty"`
	DDL      string    `json:"ddl,omitempty"`
	Types    []string  `json:"types,omitempty"`
	Rows     int       `json:"rows,omitempty"`
	Files    int       `json:"files,omitempty"`
	Queries  int       `json:"queries,omitempty"`
	Nontriv  int       `json:"nontrivial,omitempty"`  // queries whose answer is a proper non-empty subset of the rows
	BruteDis int       `json:"brute_disagree,omitempty"` // twin (full scan) answer differs from the harness's brute force
	Retries  int       `json:"retries,omitempty"`        // repeated comparisons (a transient disagreement)
	BruteEx  []string  `json:"brute_examples,omitempty"`
	Failures []Failure `json:"failures,omitempty"`
}

func ids(series []qSeries) ([]int64, error) {
	var res []int64
	for _, s := range series {
		ci := -1
		for i, c := range s.Columns {
			if c == "id" {
				ci = i
			}
		}
		if ci < 0 {
			return nil, fmt.Errorf("no id column in %v", s.Columns)
		}
		for _, v := range s.Values {
			n, ok := v[ci].(json.Number)
			if !ok {
				return nil, fmt.Errorf("id is %T", v[ci])
			}
			x, err := n.Int64()
			if err != nil {
				return nil, err
			}
			res = append(res, x)
		}
	}
	sort.Slice(res, func(i, j int) bool { return res[i] < res[j] })
	return res, nil
}

func diff(a, b []int64) (onlyA []int64) {
	m := map[int64]bool{}
	for _, x := range b {
		m[x] = true
	}
	for _, x := range a {
		if !m[x] {
			onlyA = append(onlyA, x)
		}
	}
	return
}

func main() {
	if len(os.Args) < 7 {
		fmt.Println("usage: c20bb <ts-server> <config template> <port base> <work dir> <rows> <queries>")
		os.Exit(2)
	}
	bin, conf := os.Args[1], os.Args[2]
	port, _ := strconv.Atoi(os.Args[3])
	work := os.Args[4]
	nrows, _ := strconv.Atoi(os.Args[5])
	nq, _ := strconv.Atoi(os.Args[6])
	fail := func(msg string) {
		gen.Emit(Out{Kind: "error", Msg: msg})
		os.Exit(0)
	}
	srv, err := newServer(bin, conf, filepath.Join(work, "bb"), port)
	if err != nil {
		fail(err.Error())
	}
	defer srv.kill()
	if err := srv.start(); err != nil {
		fail("server start: " + err.Error())
	}
	mustQ := func(db, q string) {
		var err error
		for i := 0; i < 30; i++ {
			if _, err = srv.query(db, q); err == nil {
				return
			}
			time.Sleep(300 * time.Millisecond)
		}
		srv.kill()
		fail(q + ": " + err.Error())
	}
	mustQ("", "CREATE DATABASE c20bb")
	r := gen.FromEnv(2020)
	nmst := 3
	for m := 0; m < nmst; m++ {
		mst := "m" + strconv.Itoa(m)
		// key: 1..3 typed fields
		nk := 1 + r.Intn(3)
		if m == 0 {
			nk = 2 + r.Intn(2) // at least one measurement with a composite key (exclusion search)
		}
		if m == 2 {
			nk = 1 + r.Intn(2)
		}
		tys := []string{"string", "int", "float", "bool"}
		var types, knames, cnames []string
		for c := 0; c < nk; c++ {
			types = append(types, gen.Pick(r, tys))
			knames = append(knames, "k"+strconv.Itoa(c))
			cnames = append(cnames, "c"+strconv.Itoa(c))
		}
		var defs []string
		for c := 0; c < nk; c++ {
			defs = append(defs, fmt.Sprintf("%s %s field", knames[c], ddlType[types[c]]), fmt.Sprintf("%s %s field", cnames[c], ddlType[types[c]]))
		}
		defs = append(defs, "id int64 field")
		bloom := m == 0
		idx := ""
		if bloom {
			// a bloom-filter indexed text field and its non-indexed twin
			defs = append(defs, "t0 string field", "u0 string field")
			idx = " INDEXTYPE bloomfilter INDEXLIST t0"
		}
		ddl := fmt.Sprintf("CREATE MEASUREMENT %s (%s) WITH ENGINETYPE = columnstore%s PRIMARYKEY %s SORTKEY %s", mst,
			strings.Join(defs, ", "), idx, strings.Join(knames, ","), strings.Join(knames, ","))
		mustQ("c20bb", ddl)
		// rows
		small := make([]int, nk)
		for c := range small {
			small[c] = 2 + r.Intn(9)
			if m == 2 {
				// few distinct keys: a key group of the attached flush then holds more than 8192 rows, i.e. one primary-index
				// fragment spans several segments
				small[c] = 1 + r.Intn(2)
			}
		}
		rows := make([]*row, nrows)
		for i := range rows {
			rw := &row{id: int64(i), ts: int64(1_000_000 + i)}
			for c := 0; c < nk; c++ {
				rw.vals = append(rw.vals, genVal(r, types[c], small[c]))
			}
			if bloom {
				nw := 1 + r.Intn(3)
				var ws []string
				for k := 0; k < nw; k++ {
					ws = append(ws, bbWords[r.Intn(len(bbWords)-2)])
				}
				if r.Chance(1, 400) { // rare words: most segments do not hold them
					ws = append(ws, bbWords[len(bbWords)-1-r.Intn(2)])
				}
				rw.text = strings.Join(ws, " ")
			}
			rows[i] = rw
		}
		// written in 1 or 2 flushes (1 or 2 files)
		nflush := 1 + r.Intn(2)
		per := (nrows + nflush - 1) / nflush
		for fl := 0; fl < nflush; fl++ {
			lo, hi := fl*per, min((fl+1)*per, nrows)
			for b := lo; b < hi; b += 4000 {
				var sb strings.Builder
				for _, rw := range rows[b:min(b+4000, hi)] {
					sb.WriteString(mst)
					sb.WriteByte(' ')
					for c := 0; c < nk; c++ {
						fmt.Fprintf(&sb, "%s=%s,%s=%s,", knames[c], lpField(types[c], rw.vals[c]), cnames[c], lpField(types[c], rw.vals[c]))
					}
					if bloom {
						fmt.Fprintf(&sb, "t0=\"%s\",u0=\"%s\",", rw.text, rw.text)
					}
					fmt.Fprintf(&sb, "id=%di %d\n", rw.id, rw.ts)
				}
				if err := srv.write("c20bb", sb.String()); err != nil {
					srv.kill()
					fail("write: " + err.Error())
				}
			}
			if err := srv.flush(); err != nil {
				srv.kill()
				fail(err.Error())
			}
		}
		// wait until every acknowledged row is visible to a real scan (count(id) alone is answered from the files' row
		// counters), twice in a row: the flush request returns before the files are installed
		okPolls := 0
		for i := 0; i < 200 && okPolls < 2; i++ {
			n := -1
			if s, err := srv.query("c20bb", "SELECT id FROM "+mst); err == nil {
				if l, err := ids(s); err == nil {
					n = len(l)
				}
			}
			if n == nrows {
				okPolls++
			} else {
				okPolls = 0
			}
			time.Sleep(300 * time.Millisecond)
		}
		if okPolls < 2 {
			srv.kill()
			fail(fmt.Sprintf("%s: the %d acknowledged rows did not become visible after the flush", mst, nrows))
		}
		out := Out{Kind: "mst", Mst: mst, DDL: ddl, Types: types, Rows: nrows, Files: nflush}
		// conditions: literals from the rows (so from fragment-boundary runs as well) and from the domains
		ops := []string{"=", "!=", "<", "<=", ">", ">=", "=", "!="}
		var genCond func(d int) *cond
		genCond = func(d int) *cond {
			if d > 0 && r.Chance(3, 5) {
				return &cond{op: gen.Pick(r, []string{"and", "or"}), args: []*cond{genCond(d - 1), genCond(d - 1)}}
			}
			if bloom && r.Chance(2, 5) {
				return &cond{op: "match", w: bbWords[r.Intn(len(bbWords))]}
			}
			col := r.Intn(nk)
			if r.Chance(1, 3) {
				col = 0
			}
			var v val
			if r.Chance(2, 3) {
				// a row at / next to a multiple of 8192 (fragment boundaries of the sorted file are near such ranks only by
				// accident; the key runs are long, so most fragment boundaries fall inside a run of equal first keys)
				v = rows[r.Intn(nrows)].vals[col]
			} else {
				v = genVal(r, types[col], 11)
			}
			op := gen.Pick(r, ops)
			if types[col] == "bool" {
				op = gen.Pick(r, []string{"=", "!="})
			}
			return &cond{op: op, col: col, v: v}
		}
		for q := 0; q < nq; q++ {
			c := genCond(r.Intn(4))
			qk := "SELECT id FROM " + mst + " WHERE " + c.text(knames, types)
			qc := "SELECT id FROM " + mst + " WHERE " + c.text(cnames, types)
			out.Queries++
			f := Failure{Mst: mst, DDL: ddl, Query: qk, Twin: qc}
			var ik, ic []int64
			var e1, e2 error
			// a disagreement must be STABLE (background work - compaction, file installation - can make one of two answers
			// taken a few milliseconds apart stale): both queries are repeated up to three times, one second apart
			for attempt := 0; attempt < 4; attempt++ {
				var sk, sc []qSeries
				sk, e1 = srv.query("c20bb", qk)
				sc, e2 = srv.query("c20bb", qc)
				if e1 == nil && e2 == nil {
					ik, e1 = ids(sk)
					ic, e2 = ids(sc)
				}
				if e1 == nil && e2 == nil && len(diff(ic, ik)) == 0 && len(diff(ik, ic)) == 0 {
					break
				}
				if attempt < 3 {
					out.Retries++
					time.Sleep(time.Second)
				}
			}
			if e1 != nil || e2 != nil {
				// an error on both sides is not a pruning question; an error on the indexed side only is
				if (e1 != nil) != (e2 != nil) {
					f.Err = fmt.Sprintf("indexed: %v; full scan: %v", e1, e2)
					out.Failures = append(out.Failures, f)
				}
				continue
			}
			nb := 0
			for _, rw := range rows {
				if c.eval(types, rw) {
					nb++
				}
			}
			if nb != len(ic) {
				out.BruteDis++
				if len(out.BruteEx) < 4 {
					out.BruteEx = append(out.BruteEx, fmt.Sprintf("%s -> %d rows, brute force %d", qc, len(ic), nb))
				}
			}
			if len(ic) > 0 && len(ic) < nrows {
				out.Nontriv++
			}
			// the property: a row that SATISFIES the condition (brute force over the acknowledged rows) and that the full scan
			// returns must be returned by the indexed query too. Rows the engine's row filter returns although they do not satisfy
			// the condition, and extra rows of the indexed query, are a matter of the row filter, not of index pruning.
			var miss []int64
			for _, id := range diff(ic, ik) {
				if c.eval(types, rows[id]) {
					miss = append(miss, id)
				}
			}
			extra := diff(ik, ic)
			if len(miss) > 0 {
				f.LitMix = c.hasIntegralFloatLiteral(types)
				f.Bloom = c.hasMatch()
				f.NKey, f.NTwin, f.NBrute = len(ik), len(ic), nb
				f.Missing, f.Extra = miss[:min(10, len(miss))], extra[:min(10, len(extra))]
				for _, id := range f.Missing[:min(3, len(f.Missing))] {
					var vs []string
					for cc := 0; cc < nk; cc++ {
						vs = append(vs, lit(types[cc], rows[id].vals[cc]))
					}
					f.MissRows = append(f.MissRows, strings.Join(vs, ","))
				}
				out.Failures = append(out.Failures, f)
			}
		}
		gen.Emit(out)
	}
	gen.Emit(Out{Kind: "done"})
	if h, _ := strconv.Atoi(os.Getenv("C20BB_HOLD")); h > 0 { // debugging aid: keep the server for manual queries
		time.Sleep(time.Duration(h) * time.Second)
	}
}
