// `c19 authcache`: credential validity must follow the catalogue on EVERY update path of the client-side catalogue copy.
// An in-process metaclient.Client (the real Authenticate, auth cache, update loops and apply functions) is fed with a
// change of the user list - password change, user dropped, dropped and re-created, privilege revoked, or an unrelated
// change - through each update path: incremental command(s), full snapshot (AllClear), SetData command, and the
// version-1 full snapshot loop. Before the update the old password authenticates (this fills the auth cache); right
// after the update is applied the harness asks Authenticate with the old and the new password and reports what the
// client answered, together with the plain facts of the scenario. One JSON object per case on stdout.
package main

import (
	"encoding/json"
	"fmt"
	"os"
	"sync"
	"time"

	originql "github.com/influxdata/influxql"
	"github.com/openGemini/openGemini/app/ts-meta/meta/message"
	"github.com/openGemini/openGemini/lib/metaclient"
	"github.com/openGemini/openGemini/lib/spdy/transport"
	"github.com/openGemini/openGemini/lib/util/lifted/influx/meta"
	proto2 "github.com/openGemini/openGemini/lib/util/lifted/influx/meta/proto"
	"github.com/openGemini/openGemini/lib/util/lifted/protobuf/proto"
	"go.uber.org/zap"
)

type acSender struct {
	mu      sync.Mutex
	replies [][]byte
	block   chan struct{}
}

func (s *acSender) SendRPCMsg(currentServer int, msg *message.MetaMessage, callback transport.Callback) error {
	var set func([]byte)
	switch cb := callback.(type) {
	case *metaclient.SnapshotV2Callback:
		set = func(b []byte) { cb.Data = b }
	case *metaclient.SnapshotCallback:
		set = func(b []byte) { cb.Data = b }
	default:
		<-s.block
		return nil
	}
	s.mu.Lock()
	if len(s.replies) > 0 {
		set(s.replies[0])
		s.replies = s.replies[1:]
		s.mu.Unlock()
		return nil
	}
	s.mu.Unlock()
	<-s.block
	return fmt.Errorf("closed")
}

type acUser struct {
	Name  string            `json:"name"`
	Pass  string            `json:"pass"`
	Admin bool              `json:"admin"`
	Privs map[string]string `json:"privs"`
}

type acCase struct {
	Path     string   `json:"path"`
	Change   string   `json:"change"`
	Before   []acUser `json:"before"`
	After    []acUser `json:"after"`
	Warm     []string `json:"warm"` // passwords alice authenticated with before the update (cache filled)
	Applied  bool     `json:"applied"`
	OldOK    bool     `json:"old_ok"`    // Authenticate(alice, old password) succeeded after the update
	NewOK    bool     `json:"new_ok"`    // Authenticate(alice, new password) succeeded after the update
	WrongOK  bool     `json:"wrong_ok"`  // Authenticate(alice, a password that never was hers)
	ReadDb1  bool     `json:"read_db1"`  // the user Authenticate returned (with whichever password worked) may read db1
	OldErr   string   `json:"old_err"`
	NewErr   string   `json:"new_err"`
	Err      string   `json:"err,omitempty"`
	OldPass  string   `json:"old_pass"`
	NewPass  string   `json:"new_pass"`
	WrongPwd string   `json:"wrong_pass"`
}

const (
	acOld   = "Old@Passw0rd_1"
	acNew   = "New@Passw0rd_2"
	acWrong = "Wrong@Passw0rd_9"
	acAdm   = "Adm@Passw0rd_0"
)

func acPriv(s string) originql.Privilege {
	switch s {
	case "READ":
		return originql.ReadPrivilege
	case "WRITE":
		return originql.WritePrivilege
	case "ALL":
		return originql.AllPrivileges
	}
	return originql.NoPrivileges
}

func acData(c *metaclient.Client, us []acUser, index uint64) (*meta.Data, error) {
	d := &meta.Data{Index: index, AdminUserExists: true, Databases: map[string]*meta.DatabaseInfo{"db1": meta.NewDatabase("db1")}}
	for _, u := range us {
		h, err := c.VerifC19HashPassword(u.Pass)
		if err != nil {
			return nil, err
		}
		ui := meta.UserInfo{Name: u.Name, Hash: h, Admin: u.Admin}
		if len(u.Privs) > 0 {
			ui.Privileges = map[string]originql.Privilege{}
			for db, p := range u.Privs {
				ui.Privileges[db] = acPriv(p)
			}
		}
		d.Users = append(d.Users, ui)
	}
	return d, nil
}

func acCmd(t proto2.Command_Type, ext *proto.ExtensionDesc, v interface{}) (string, error) {
	cmd := &proto2.Command{Type: &t}
	if err := proto.SetExtension(cmd, ext, v); err != nil {
		return "", err
	}
	b, err := proto.Marshal(cmd)
	return string(b), err
}

func acRun(path, change string) (res acCase) {
	res = acCase{Path: path, Change: change, OldPass: acOld, NewPass: acNew, WrongPwd: acWrong}
	defer func() {
		if e := recover(); e != nil {
			res.Err = fmt.Sprintf("panic: %v", e)
		}
	}()
	before := []acUser{{"root", acAdm, true, nil}, {"alice", acOld, false, map[string]string{"db1": "READ"}}, {"bob", "Bob@Passw0rd_3", false, nil}}
	after := []acUser{before[0], before[1], before[2]}
	switch change {
	case "password", "recreate":
		after[1] = acUser{"alice", acNew, false, map[string]string{"db1": "READ"}}
	case "drop":
		after = []acUser{before[0], before[2]}
	case "revoke":
		after[1] = acUser{"alice", acOld, false, nil}
	case "none":
	}
	res.Before, res.After = before, after

	sender := &acSender{block: make(chan struct{})}
	c := metaclient.NewClient("", false, 16)
	c.UseSnapshotV2 = path != "v1"
	c.SendRPCMessage = sender
	c.SetMetaServers([]string{"127.0.0.1:1"})
	d0, err := acData(c, before, 5)
	if err != nil {
		res.Err = err.Error()
		return
	}
	c.SetCacheData(d0)
	// fill the auth cache: the old password authenticates, a wrong one does not
	if _, err := c.Authenticate("alice", acOld); err != nil {
		res.Err = "old password does not authenticate before the update: " + err.Error()
		return
	}
	res.Warm = []string{acOld}
	_, _ = c.Authenticate("alice", acWrong)

	d1, err := acData(c, after, 40)
	if err != nil {
		res.Err = err.Error()
		return
	}
	var reply []byte
	switch path {
	case "incr":
		var ops []string
		add := func(s string, e error) {
			if e != nil {
				panic(e)
			}
			ops = append(ops, s)
		}
		newHash, _ := c.VerifC19HashPassword(acNew)
		switch change {
		case "password":
			add(acCmd(proto2.Command_UpdateUserCommand, proto2.E_UpdateUserCommand_Command,
				&proto2.UpdateUserCommand{Name: proto.String("alice"), Hash: proto.String(newHash)}))
		case "drop":
			add(acCmd(proto2.Command_DropUserCommand, proto2.E_DropUserCommand_Command, &proto2.DropUserCommand{Name: proto.String("alice")}))
		case "recreate":
			add(acCmd(proto2.Command_DropUserCommand, proto2.E_DropUserCommand_Command, &proto2.DropUserCommand{Name: proto.String("alice")}))
			add(acCmd(proto2.Command_CreateUserCommand, proto2.E_CreateUserCommand_Command,
				&proto2.CreateUserCommand{Name: proto.String("alice"), Hash: proto.String(newHash), Admin: proto.Bool(false), RwUser: proto.Bool(false)}))
			add(acCmd(proto2.Command_SetPrivilegeCommand, proto2.E_SetPrivilegeCommand_Command,
				&proto2.SetPrivilegeCommand{Username: proto.String("alice"), Database: proto.String("db1"), Privilege: proto.Int32(int32(originql.ReadPrivilege))}))
		case "revoke":
			add(acCmd(proto2.Command_SetPrivilegeCommand, proto2.E_SetPrivilegeCommand_Command,
				&proto2.SetPrivilegeCommand{Username: proto.String("alice"), Database: proto.String("db1"), Privilege: proto.Int32(int32(originql.NoPrivileges))}))
		case "none":
			add(acCmd(proto2.Command_CreateUserCommand, proto2.E_CreateUserCommand_Command,
				&proto2.CreateUserCommand{Name: proto.String("carol"), Hash: proto.String(newHash), Admin: proto.Bool(false), RwUser: proto.Bool(false)}))
		}
		reply = meta.NewDataOps(ops, 0, int(meta.NoClear), 40).Marshal()
	case "allclear":
		reply = meta.NewDataOpsOfAllClear(int(meta.AllClear), d1.Marshal(), 40).Marshal()
	case "setdata":
		op, err := acCmd(proto2.Command_SetDataCommand, proto2.E_SetDataCommand_Command, &proto2.SetDataCommand{Data: d1.Marshal()})
		if err != nil {
			res.Err = err.Error()
			return
		}
		reply = meta.NewDataOps([]string{op}, 0, int(meta.NoClear), 40).Marshal()
	case "v1":
		reply, err = d1.MarshalBinary()
		if err != nil {
			res.Err = err.Error()
			return
		}
	}
	sender.replies = append(sender.replies, reply)
	changed := c.WaitForDataChanged()
	if path == "v1" {
		go c.VerifC19PollV1(metaclient.SQL)
	} else {
		go c.VerifC19PollV2(metaclient.SQL)
	}
	select {
	case <-changed:
		res.Applied = true
	case <-time.After(20 * time.Second):
		res.Err = "the client did not take the update"
		return
	}
	// (the loop notifies under the lock right after it refreshed the cache; give a lagging implementation no extra time)
	u1, e1 := c.Authenticate("alice", acOld)
	u2, e2 := c.Authenticate("alice", acNew)
	_, e3 := c.Authenticate("alice", acWrong)
	res.OldOK, res.NewOK, res.WrongOK = e1 == nil, e2 == nil, e3 == nil
	if e1 != nil {
		res.OldErr = e1.Error()
	}
	if e2 != nil {
		res.NewErr = e2.Error()
	}
	for _, u := range []meta.User{u1, u2} {
		if u != nil && (u == u1 && e1 == nil || u == u2 && e2 == nil) && u.AuthorizeDatabase(originql.ReadPrivilege, "db1") {
			res.ReadDb1 = true
		}
	}
	return
}

func authcacheMode() {
	meta.DataLogger = zap.NewNop()
	enc := json.NewEncoder(os.Stdout)
	for _, path := range []string{"incr", "allclear", "setdata", "v1"} {
		for _, change := range []string{"password", "drop", "recreate", "revoke", "none"} {
			_ = enc.Encode(acRun(path, change))
		}
	}
	os.Exit(0) // the update loops of the clients are still polling
}
