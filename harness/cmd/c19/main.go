// C19 live route table: builds the repository's real httpd.Handler in-process (the same NewHandler the servers run)
// for every registration-relevant configuration (flux on/off, product type basic/logkeeper) and walks the live
// gorilla mux through the verif hook VerifWalkRoutesC19. One JSON object per configuration on stdout.
// The black-box credential matrix against a running ts-server is driven by props/C19/run.py.
package main

import (
	"encoding/json"
	"fmt"
	"io"
	"os"
	"sort"
	"strings"

	config2 "github.com/openGemini/openGemini/lib/config"
	"github.com/openGemini/openGemini/lib/util/lifted/influx/httpd"
	"github.com/openGemini/openGemini/lib/util/lifted/influx/httpd/config"
	"github.com/openGemini/openGemini/lib/util/lifted/influx/influxql"
)

type entry struct {
	Pattern string `json:"pattern"`
	Method  string `json:"method"`
}

type table struct {
	Flux      bool    `json:"flux"`
	LogKeeper bool    `json:"logkeeper"`
	Routes    []entry `json:"routes"`
}

// ---- `c19 stmts`: the statement texts of the /query matrix (JSON list of {label, sql} on stdin) through the REAL
// parser (the calls serveQuery makes) and the REAL RequiredPrivileges methods: Go type and privilege entries of every
// statement, one JSON object per text on stdout.
type stmtIn struct {
	Label string `json:"label"`
	SQL   string `json:"sql"`
}

type privOut struct {
	Admin  bool   `json:"admin"`
	Rwuser bool   `json:"rwuser"`
	Name   string `json:"name"`
	Priv   int    `json:"priv"`
}

type stmtOut struct {
	Type  string    `json:"type"`
	Privs []privOut `json:"privs"`
	Err   string    `json:"err,omitempty"`
}

type textOut struct {
	Stmts string    `json:"stmts_of"`
	Label string    `json:"label"`
	Err   string    `json:"err,omitempty"`
	List  []stmtOut `json:"list"`
}

func stmtsMode() {
	data, err := io.ReadAll(os.Stdin)
	if err != nil {
		fmt.Fprintln(os.Stderr, err)
		os.Exit(1)
	}
	var in []stmtIn
	if err := json.Unmarshal(data, &in); err != nil {
		fmt.Fprintln(os.Stderr, err)
		os.Exit(1)
	}
	enc := json.NewEncoder(os.Stdout)
	for _, it := range in {
		o := textOut{Stmts: it.SQL, Label: it.Label, List: []stmtOut{}}
		func() {
			defer func() {
				if e := recover(); e != nil {
					o.Err = fmt.Sprintf("panic: %v", e)
				}
			}()
			p := influxql.NewParser(strings.NewReader(it.SQL))
			defer p.Release()
			yy := influxql.NewYyParser(p.GetScanner(), p.GetPara())
			yy.ParseTokens()
			q, err := yy.GetQuery()
			if err != nil {
				o.Err = err.Error()
				return
			}
			for _, st := range q.Statements {
				so := stmtOut{Type: strings.TrimPrefix(fmt.Sprintf("%T", st), "*influxql."), Privs: []privOut{}}
				ps, err := st.RequiredPrivileges()
				if err != nil {
					so.Err = err.Error()
				}
				for _, e := range ps {
					so.Privs = append(so.Privs, privOut{e.Admin, e.Rwuser, e.Name, int(e.Privilege)})
				}
				o.List = append(o.List, so)
			}
		}()
		_ = enc.Encode(o)
	}
}

func main() {
	if len(os.Args) > 1 && os.Args[1] == "stmts" {
		stmtsMode()
		return
	}
	if len(os.Args) > 1 && os.Args[1] == "authcache" {
		authcacheMode()
		return
	}
	enc := json.NewEncoder(os.Stdout)
	for _, lk := range []bool{false, true} {
		for _, flux := range []bool{false, true} {
			if lk {
				config2.SetProductType("logkeeper")
			} else {
				config2.SetProductType("basic")
			}
			c := config.NewConfig()
			c.AuthEnabled = true
			c.FluxEnabled = flux
			h := httpd.NewHandler(c)
			t := table{Flux: flux, LogKeeper: lk}
			for _, r := range h.VerifWalkRoutesC19() {
				if len(r.Methods) == 0 {
					t.Routes = append(t.Routes, entry{r.Pattern, "*"})
				}
				for _, m := range r.Methods {
					t.Routes = append(t.Routes, entry{r.Pattern, m})
				}
			}
			sort.Slice(t.Routes, func(i, j int) bool {
				if t.Routes[i].Pattern != t.Routes[j].Pattern {
					return t.Routes[i].Pattern < t.Routes[j].Pattern
				}
				return t.Routes[i].Method < t.Routes[j].Method
			})
			if err := enc.Encode(t); err != nil {
				fmt.Fprintln(os.Stderr, err)
				os.Exit(1)
			}
		}
	}
}
