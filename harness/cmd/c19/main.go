// C19 live route table: builds the repository's real httpd.Handler in-process (the same NewHandler the servers run)
// for every registration-relevant configuration (flux on/off, product type basic/logkeeper) and walks the live
// gorilla mux through the verif hook VerifWalkRoutesC19. One JSON object per configuration on stdout.
// The black-box credential matrix against a running ts-server is driven by props/C19/run.py.
package main

import (
	"encoding/json"
	"fmt"
	"os"
	"sort"

	config2 "github.com/openGemini/openGemini/lib/config"
	"github.com/openGemini/openGemini/lib/util/lifted/influx/httpd"
	"github.com/openGemini/openGemini/lib/util/lifted/influx/httpd/config"
)

type entry struct {
	Pattern string `json:"pattern"`
	Method  string `json:"method"`
}

type table struct {
	Flux      bool    `json:"flux"`
	LogKeeper bool    `json:"logkeeper"`
	Routes    []entry `json:"routes"`
}

func main() {
	enc := json.NewEncoder(os.Stdout)
	for _, lk := range []bool{false, true} {
		for _, flux := range []bool{false, true} {
			if lk {
				config2.SetProductType("logkeeper")
			} else {
				config2.SetProductType("basic")
			}
			c := config.NewConfig()
			c.AuthEnabled = true
			c.FluxEnabled = flux
			h := httpd.NewHandler(c)
			t := table{Flux: flux, LogKeeper: lk}
			for _, r := range h.VerifWalkRoutesC19() {
				if len(r.Methods) == 0 {
					t.Routes = append(t.Routes, entry{r.Pattern, "*"})
				}
				for _, m := range r.Methods {
					t.Routes = append(t.Routes, entry{r.Pattern, m})
				}
			}
			sort.Slice(t.Routes, func(i, j int) bool {
				if t.Routes[i].Pattern != t.Routes[j].Pattern {
					return t.Routes[i].Pattern < t.Routes[j].Pattern
				}
				return t.Routes[i].Method < t.Routes[j].Method
			})
			if err := enc.Encode(t); err != nil {
				fmt.Fprintln(os.Stderr, err)
				os.Exit(1)
			}
		}
	}
}
