// C13 item-level purge harness (in-process): the physical purge of dropped series rewrites every part of the index table
// (mergeset.Table.RemoveItemsByDelTsidsFromParts -> genTempPart). This program builds a real index whose parts span several
// 64 KB blocks, dumps the items of every part before the purge (through the verif hooks), records some series as dropped the
// way the DROP SERIES handler does, runs the purge and dumps the table again. Items are decoded into (head, ids) the way
// isDeleted reads them and interned; the Coq model (C13/Purge.v via C13/PurgeCorr.v) computes from the "before" dump what each
// of its variants leaves and is compared with the "after" dump. Prints one JSON object.
package main

import (
	"bytes"
	"encoding/binary"
	"flag"
	"fmt"
	"os"
	"sort"
	"time"

	"github.com/openGemini/openGemini/engine/index/tsi"
	"github.com/openGemini/openGemini/lib/config"
	"github.com/openGemini/openGemini/lib/index"
	"github.com/openGemini/openGemini/lib/logger"
	"github.com/openGemini/openGemini/lib/util/lifted/influx/influxql"
	"github.com/openGemini/openGemini/lib/util/lifted/influx/meta"
	"github.com/openGemini/openGemini/lib/util/lifted/vm/mergeset"
	"github.com/openGemini/openGemini/lib/util/lifted/vm/protoparser/influx"
	"github.com/savsgio/dictpool"
	"go.uber.org/zap"
	"verifharness/internal/gen"
)

func must(err error) {
	if err != nil {
		panic(err)
	}
}

func open(dir string, id uint64, clock uint64, seq *uint64) (*tsi.IndexBuilder, *tsi.MergeSetIndex) {
	lock := ""
	ident := &meta.IndexIdentifier{OwnerDb: "db0", OwnerPt: 1, Policy: "rp0"}
	ident.Index = &meta.IndexDescriptor{IndexID: id, IndexGroupID: 3, TimeRange: meta.TimeRangeInfo{}}
	opts := new(tsi.Options).Path(dir).Ident(ident).IndexType(index.MergeSet).EngineType(config.TSSTORE).
		StartTime(time.Now()).EndTime(time.Now().Add(time.Hour)).Duration(time.Hour).LogicalClock(clock).SequenceId(seq).Lock(&lock)
	b := tsi.NewIndexBuilder(opts)
	pi, err := tsi.NewIndex(opts)
	must(err)
	pi.SetIndexBuilder(b)
	rel, err := tsi.NewIndexRelation(opts, pi, b)
	must(err)
	b.Relations[uint32(index.MergeSet)] = rel
	must(b.Open())
	return b, pi.(*tsi.MergeSetIndex)
}

// layout of the index items, taken from the repository (verif hooks): the namespace prefixes that carry series ids, the
// key/value separator of a key->tsid item, the separator that ends the marshaled tag key / value of a tag->tsids item and the
// length of a marshaled tsid - the positions mergeset.isDeleted and the row filter read
var (
	nsKeyToTSID, nsTSIDToKey, nsTagToTSIDs, kvSep byte
	idLen                                         int
	tagSep                                        byte = tsi.VerifC13TagSeparator
)

func init() {
	nsKeyToTSID, nsTSIDToKey, nsTagToTSIDs, kvSep, idLen = mergeset.VerifC13ItemLayout()
}

type decoded struct {
	head string
	base int
	ids  []uint64
}

// decode splits an item into the bytes outside its series ids and the ids, reading the same positions isDeleted reads
func decode(item []byte) decoded {
	n := len(item)
	if n >= idLen+1 && item[0] == nsKeyToTSID && item[n-idLen-1] == kvSep {
		return decoded{string(item[:n-idLen]), n - idLen, []uint64{binary.BigEndian.Uint64(item[n-idLen:])}}
	}
	if n >= idLen+1 && item[0] == nsTSIDToKey {
		return decoded{string(item[:1]) + string(item[1+idLen:]), n - idLen, []uint64{binary.BigEndian.Uint64(item[1 : 1+idLen])}}
	}
	if n >= idLen+1 && item[0] == nsTagToTSIDs {
		a := bytes.IndexByte(item[1:], tagSep)
		if a >= 0 {
			b := bytes.IndexByte(item[1+a+1:], tagSep)
			if b >= 0 {
				h := 1 + a + 1 + b + 1
				tail := item[h:]
				if len(tail) > 0 && len(tail)%idLen == 0 {
					d := decoded{head: string(item[:h]), base: h}
					for len(tail) > 0 {
						d.ids = append(d.ids, binary.BigEndian.Uint64(tail[:idLen]))
						tail = tail[idLen:]
					}
					return d
				}
			}
		}
	}
	return decoded{string(item), n, nil}
}

func main() {
	logger.SetLogger(zap.NewNop())
	flag.Parse()
	n := 1500
	if len(flag.Args()) > 0 {
		fmt.Sscan(flag.Args()[0], &n)
	}
	r := gen.FromEnv(1314)
	// two indexes: the drops of the first include the newest series (the last id of its merged rows and of the LAST tag->ids row of
	// the part); the drops of the second touch neither the last tag->ids row nor the greatest tag values
	for sc := 0; sc < 2; sc++ {
		scenario(n, sc, r.Fork())
	}
}

func scenario(n, sc int, r *gen.Rand) {
	base := fmt.Sprintf("%s/c13items%d", os.Getenv("VERIF_WORK"), sc)
	os.RemoveAll(base)
	seq := uint64(1000)
	b, idx := open(base+"/main", 2, 1, &seq)
	// long tag values: the key->id and id->key items of 1500 series fill several 64 KB blocks
	pad := "-0123456789abcdefghijklmnopqrstuvwxyz0123456789abcdefghijklmnopqrstuvwxyz"
	host := func(i int) string { return fmt.Sprintf("h%05d%s", i, pad[:10+(i*7)%60]) }
	for i := 0; i < n; i++ {
		row := influx.Row{Name: "m_0000", Tags: influx.PointTags{{Key: "host", Value: host(i)}, {Key: "zone", Value: fmt.Sprintf("z%d", i%5)}}}
		sort.Sort(&row.Tags)
		row.UnmarshalIndexKeys(nil)
		rows := []influx.Row{row}
		d := &dictpool.Dict{}
		d.Set("m_0000", &rows)
		must(b.CreateIndexIfNotExists(d, false))
		if i%400 == 399 {
			b.Flush() // several parts
		}
	}
	must(b.Close())
	b, idx = open(base+"/main", 2, 2, &seq)
	seqd := uint64(1)
	bd, del := open(base+"/del", 0, 2, &seqd)
	idx.SetDeleteMergeSet(del)
	must(del.LoadDeletedTSIDs())
	// the background merges of the reopened table must be over: a part that is being merged is left alone by the purge (that
	// situation is the business of cmd/c13purge's skipped-part scenario), and the dump must be the purge's input
	settle := 1500
	if ms := os.Getenv("C13ITEMS_SETTLE_MS"); ms != "" {
		fmt.Sscan(ms, &settle)
	}
	for last, stable := -1, 0; stable < 3; {
		time.Sleep(time.Duration(settle/3) * time.Millisecond)
		if n := idx.VerifC13Table().VerifC13PartCount(); n == last {
			stable++
		} else {
			last, stable = n, 0
		}
	}
	before := idx.VerifC13Table().VerifC13PartItems()
	// the drops: a few random series, the newest one (last id of its merged rows) and one in the middle
	dropped := map[int]bool{}
	if sc == 0 {
		dropped[n-1], dropped[n/2] = true, true
		for nd := r.Range(2, 6); nd > 0; nd-- {
			dropped[r.Intn(n)] = true
		}
	} else {
		// zone=z4 is the greatest tag value of the greatest tag key: its rows are the last tag->ids rows of a part
		for len(dropped) < 5 {
			if i := r.Intn(n - 1); i%5 != 4 {
				dropped[i] = true
			}
		}
	}
	var delIDs []uint64
	var dl []int
	for i := range dropped {
		dl = append(dl, i)
	}
	sort.Ints(dl)
	for _, i := range dl {
		cond := &influxql.BinaryExpr{Op: influxql.EQ, LHS: &influxql.VarRef{Val: "host", Type: influxql.Tag}, RHS: &influxql.StringLiteral{Val: host(i)}}
		ids, err := idx.SearchSeriesByTableAndCond([]byte("m_0000"), cond, tsi.DefaultTR) // what the DropSeries handler does
		must(err)
		must(del.WriteDeleteTsids(ids))
		delIDs = append(delIDs, ids...)
	}
	del.DebugFlush()       // the dropped ids reach a part of the deleted-series table (what its periodic flush does within seconds)
	perr := b.DropSeries() // the purge task
	after := idx.VerifC13Table().VerifC13PartItems()
	// what is left of the deleted-series table on disk: a pass that reports success discards the flushed ids
	delLeft := 0
	for _, p := range del.VerifC13Table().VerifC13PartItems() {
		delLeft += len(p)
	}
	if os.Getenv("C13ITEMS_DEBUG") != "" {
		// where are the pairs a moment later, and after a reopen?
		time.Sleep(3 * time.Second)
		later := idx.VerifC13Table().VerifC13PartItems()
		must(b.Close())
		must(bd.Close())
		b, idx = open(base+"/main", 2, 3, &seq)
		bd2, del2 := open(base+"/del", 0, 3, &seqd)
		idx.SetDeleteMergeSet(del2)
		must(del2.LoadDeletedTSIDs())
		all, err := idx.SearchSeriesByTableAndCond([]byte("m_0000"), nil, tsi.DefaultTR)
		must(err)
		fmt.Fprintf(os.Stderr, "DEBUG series listed after reopen=%d expected=%d (dropped %d)\n", len(all), n-len(dl), len(dl))
		must(bd2.Close())
		reop := idx.VerifC13Table().VerifC13PartItems()
		cnt := func(x [][][]byte) (n int, set map[string]bool) {
			set = map[string]bool{}
			for _, p := range x {
				for _, it := range p {
					d := decode(it)
					if len(d.ids) == 0 {
						set[d.head] = true
					}
					for _, id := range d.ids {
						set[fmt.Sprintf("%s|%d", d.head, id)] = true
					}
				}
			}
			return len(set), set
		}
		na, _ := cnt(after)
		nl, _ := cnt(later)
		nr, _ := cnt(reop)
		nb, _ := cnt(before)
		fmt.Fprintf(os.Stderr, "DEBUG pairs before=%d after=%d later=%d reopened=%d parts %d/%d/%d/%d\n", nb, na, nl, nr, len(before), len(after), len(later), len(reop))
		must(b.Close())
		os.RemoveAll(base)
		return
	}
	must(b.Close())
	must(bd.Close())
	// the restart: both indexes are opened again; the dropped series must still be hidden and everything else listed
	seq2, seqd2 := uint64(900000), uint64(900000)
	b2, idx2 := open(base+"/main", 2, 9, &seq2)
	bd2, del2 := open(base+"/del", 0, 9, &seqd2)
	idx2.SetDeleteMergeSet(del2)
	must(del2.LoadDeletedTSIDs())
	listed, err := idx2.SearchSeriesByTableAndCond([]byte("m_0000"), nil, tsi.DefaultTR)
	must(err)
	backAgain := 0
	for _, i := range dl {
		cond := &influxql.BinaryExpr{Op: influxql.EQ, LHS: &influxql.VarRef{Val: "host", Type: influxql.Tag}, RHS: &influxql.StringLiteral{Val: host(i)}}
		ids, err := idx2.SearchSeriesByTableAndCond([]byte("m_0000"), cond, tsi.DefaultTR)
		must(err)
		if len(ids) != 0 {
			backAgain++
		}
	}
	must(b2.Close())
	must(bd2.Close())
	os.RemoveAll(base)

	// intern heads and ids
	heads := map[string]int{}
	idn := map[uint64]int{}
	hid := func(s string) int {
		if _, ok := heads[s]; !ok {
			heads[s] = len(heads) + 1
		}
		return heads[s]
	}
	iid := func(x uint64) int {
		if _, ok := idn[x]; !ok {
			idn[x] = len(idn) + 1
		}
		return idn[x]
	}
	type itemJ struct {
		H    int   `json:"h"`
		Base int   `json:"b"`
		IDs  []int `json:"ids"`
	}
	var parts [][]itemJ
	nitems, nbytes, nrows := 0, 0, 0
	for _, p := range before {
		var pj []itemJ
		for _, it := range p {
			d := decode(it)
			j := itemJ{H: hid(d.head), Base: d.base, IDs: []int{}}
			for _, x := range d.ids {
				j.IDs = append(j.IDs, iid(x))
			}
			if len(d.ids) > 1 {
				nrows++
			}
			pj = append(pj, j)
			nitems++
			nbytes += len(it)
		}
		parts = append(parts, pj)
	}
	var pairs [][2]int
	for _, p := range after {
		for _, it := range p {
			d := decode(it)
			if len(d.ids) == 0 {
				pairs = append(pairs, [2]int{hid(d.head), 0})
			}
			for _, x := range d.ids {
				pairs = append(pairs, [2]int{hid(d.head), iid(x)})
			}
		}
	}
	var dj []int
	for _, x := range delIDs {
		dj = append(dj, iid(x))
	}
	if os.Getenv("C13ITEMS_DEBUG") != "" {
		hn := map[int]string{}
		for h, i := range heads {
			hn[i] = fmt.Sprintf("%d:%q", h[0], h[1:min(len(h), 40)])
		}
		gen.Emit(map[string]any{"heads": hn})
	}
	// pairs of a dropped id that are still in the table
	delSet := map[int]bool{}
	for _, x := range dj {
		delSet[x] = true
	}
	leftover := 0
	for _, pr := range pairs {
		if pr[1] != 0 && delSet[pr[1]] {
			leftover++
		}
	}
	perrs := ""
	if perr != nil {
		perrs = perr.Error()
	}
	gen.Emit(map[string]any{"scenario": []string{"drops-include-the-last-row", "drops-avoid-the-last-row"}[sc], "purge_error": perrs,
		"deleted_table_items_left": delLeft, "pairs_of_dropped_ids_left": leftover, "listed_after_reopen": len(listed),
		"expected_listed": n - len(dl), "dropped_listed_again": backAgain,
		"purge_items": true, "tsid_len": idLen, "cap": mergeset.VerifC13MaxInmemoryBlockSize, "series": n, "dropped_series": len(dl),
		"deleted": dj, "parts": parts, "after": pairs, "items_before": nitems, "bytes_before": nbytes, "rows_with_several_ids": nrows,
		"parts_before": len(before), "parts_after": len(after)})
}
