// C08 fault stage (in process): a query under ONE injected storage read error must either fail or return the
// correct answer - never a silently different one.
//
// A shard of the repository's engine is opened through the existing hooks (engine.VerifOpenShard / VerifShard.Select via
// internal/tsdrv, lib/fileops.VerifSwapLocalFS), filled with generated series in three batches (two flushed files per
// series + memtable), and every generated query - raw selections and aggregates, ascending and descending, with tag
// grouping, time buckets and field filters - is first run without faults (the reference answer of THIS run) and then
// again and again with "the k-th read of a data file after arming fails" for k = 0, 1, 2, ... until a run completes
// without reaching the armed read. Oracle per faulted run: error returned, or rows == reference rows.
// One JSON object per (query, k) on stdout.
//
// usage: c08f <workdir> <nQueries>
package main

import (
	"errors"
	"flag"
	"fmt"
	"os"
	"path/filepath"
	"runtime/debug"
	"sort"
	"strconv"
	"strings"
	"sync"

	"github.com/openGemini/openGemini/engine"
	"github.com/openGemini/openGemini/lib/fileops"
	"verifharness/internal/gen"
	"verifharness/internal/tsdrv"
)

var errInjected = errors.New("injected read error (verification harness)")

type faultCtl struct {
	mu     sync.Mutex
	armed  bool
	left   int // reads still to let through
	fired  bool
	file   string
	reads  int
	suffix string
	kind   string // meta | data: what the failed read was fetching
}

func (c *faultCtl) arm(k int) {
	c.mu.Lock()
	c.armed, c.left, c.fired, c.file, c.reads = true, k, false, "", 0
	c.mu.Unlock()
}

func (c *faultCtl) disarm() (fired bool, file string, reads int, kind string) {
	c.mu.Lock()
	defer c.mu.Unlock()
	c.armed = false
	return c.fired, c.file, c.reads, c.kind
}

// gate: called before a read of a data file; true = the read must fail
func (c *faultCtl) gate(name string) bool {
	if !strings.HasSuffix(name, c.suffix) {
		return false
	}
	c.mu.Lock()
	defer c.mu.Unlock()
	if !c.armed || c.fired {
		return false
	}
	c.reads++
	if c.left > 0 {
		c.left--
		return false
	}
	c.fired, c.file = true, filepath.Base(name)
	// which read is it? chunk-meta / meta-index blocks are read through tsspFileReader.ChunkMeta / ReadMetaBlock / MetaIndex
	c.kind = "data"
	if st := string(debug.Stack()); strings.Contains(st, ").ChunkMeta(") || strings.Contains(st, "ReadMetaBlock") || strings.Contains(st, "MetaIndex") {
		c.kind = "meta"
	}
	if os.Getenv("C08F_STACK") != "" {
		fmt.Fprintf(os.Stderr, "C08F fired on %s\n%s\n", name, debug.Stack())
	}
	return true
}

type faultFS struct {
	fileops.VFS
	c *faultCtl
}

type faultFile struct {
	fileops.File
	c *faultCtl
}

func (f *faultFile) ReadAt(p []byte, off int64) (int, error) {
	if f.c.gate(f.File.Name()) {
		return 0, errInjected
	}
	return f.File.ReadAt(p, off)
}

func (f *faultFile) Read(p []byte) (int, error) {
	if f.c.gate(f.File.Name()) {
		return 0, errInjected
	}
	return f.File.Read(p)
}

func (fs *faultFS) wrap(f fileops.File, err error) (fileops.File, error) {
	if err != nil || f == nil {
		return f, err
	}
	return &faultFile{File: f, c: fs.c}, nil
}

func (fs *faultFS) Open(name string, opt ...fileops.FSOption) (fileops.File, error) {
	return fs.wrap(fs.VFS.Open(name, opt...))
}

func (fs *faultFS) OpenFile(name string, flag int, perm os.FileMode, opt ...fileops.FSOption) (fileops.File, error) {
	return fs.wrap(fs.VFS.OpenFile(name, flag, perm, opt...))
}

func installFaultFS() *faultCtl {
	c := &faultCtl{suffix: ".tssp"}
	prev := fileops.VerifSwapLocalFS(nil)
	fileops.VerifSwapLocalFS(&faultFS{VFS: prev, c: c})
	return c
}

func canon(rows []engine.VerifAggRow) string {
	out := make([]string, 0, len(rows))
	for _, r := range rows {
		out = append(out, fmt.Sprintf("%+v", r))
	}
	sort.Strings(out)
	return strings.Join(out, "\n")
}

type FaultCase struct {
	SQL     string `json:"sql"`
	K       int    `json:"k"`
	File    string `json:"file"`
	Read    string `json:"read"` // meta | data: what the failed read was fetching
	Reads   int    `json:"reads"`
	Err     string `json:"err,omitempty"`
	Same    bool   `json:"same"`
	Rows    int    `json:"rows"`
	Want    int    `json:"want_rows"`
	Crashed bool   `json:"crashed"`      // the executor recovered a panic of a processor
	Silent  bool   `json:"silent_wrong"` // the violation: no error and a different answer
	Got     string `json:"got,omitempty"`
	Ref     string `json:"ref,omitempty"`
}

// selectSafe runs the statement's store-side part inside the repository's PipelineExecutor (hook verif_export_c08.go):
// err is what the statement would report, crashed tells that the executor recovered a panic of a processor
func selectSafe(sh *tsdrv.Shard, sql string) (rows []engine.VerifAggRow, crashed bool, err error) {
	defer func() {
		if e := recover(); e != nil {
			err = fmt.Errorf("panic: %v", e)
		}
	}()
	return sh.V.VerifSelectPipeline(sql, tsdrv.FieldQLMap, []string{"host", "zone"})
}

func genQueries(r *gen.Rand, n, ntimes int) []string {
	fields := []string{"fa_int", "fb_float"}
	var qs []string
	for len(qs) < n {
		f := gen.Pick(r, fields)
		var where []string
		if r.Chance(1, 2) {
			lo := r.Range(0, ntimes/2)
			hi := lo + r.Range(1, ntimes)
			where = append(where, fmt.Sprintf("time >= %d AND time <= %d", tsdrv.TimeOf(lo), tsdrv.TimeOf(hi)))
		}
		if r.Chance(1, 4) {
			where = append(where, fmt.Sprintf("fa_int >= %d", r.Range(0, 5)))
		}
		w := ""
		if len(where) > 0 {
			w = " WHERE " + strings.Join(where, " AND ")
		}
		var q string
		switch r.Range(0, 3) {
		case 0, 1: // raw selection
			sel := f
			if r.Chance(1, 3) {
				sel = "fa_int, fb_float"
			}
			q = "SELECT " + sel + " FROM m" + w
			if r.Chance(1, 2) {
				q += " GROUP BY host"
			}
		default:
			fn := gen.Pick(r, []string{"count", "sum", "min", "max", "first", "last"})
			q = fmt.Sprintf("SELECT %s(%s) FROM m%s", fn, f, w)
			switch r.Range(0, 3) {
			case 0:
				q += " GROUP BY host"
			case 1:
				if len(where) > 0 && strings.HasPrefix(where[0], "time") {
					q += fmt.Sprintf(" GROUP BY time(%ds)", r.Range(2, 10))
				}
			case 2:
				q += " GROUP BY zone"
			}
		}
		if r.Chance(1, 3) {
			q += " ORDER BY time DESC"
		}
		qs = append(qs, q)
	}
	return qs
}

func main() {
	flag.Parse() // the lifted VictoriaMetrics memory package insists on it
	if flag.NArg() < 2 {
		fmt.Fprintln(os.Stderr, "usage: c08f <workdir> <nQueries>")
		os.Exit(2)
	}
	work := flag.Arg(0)
	nq, _ := strconv.Atoi(flag.Arg(1))
	r := gen.FromEnv(808)
	if err := tsdrv.Init(work); err != nil {
		fmt.Fprintln(os.Stderr, "init:", err)
		os.Exit(3)
	}
	ctl := installFaultFS()
	nser, ntimes := r.Range(3, 5), r.Range(12, 30)
	sh, err := tsdrv.Open(filepath.Join(work, "shard"), nser)
	if err != nil {
		fmt.Fprintln(os.Stderr, "open:", err)
		os.Exit(3)
	}
	defer sh.Close()
	// three batches over increasing time ranges; batch 1 and 2 are flushed (two files per series), batch 3 stays in memory
	for b := 0; b < 3; b++ {
		var rows []tsdrv.Row
		for s := 0; s < nser; s++ {
			for t := b * ntimes / 3; t < (b+1)*ntimes/3; t++ {
				if !r.Chance(4, 5) {
					continue
				}
				row := tsdrv.Row{S: s, T: t}
				if r.Chance(5, 6) {
					row.F = append(row.F, tsdrv.FV{F: 0, V: int64(r.Range(0, 9))})
				}
				if r.Chance(3, 4) || len(row.F) == 0 {
					row.F = append(row.F, tsdrv.FV{F: 1, V: int64(r.Range(-20, 40))})
				}
				rows = append(rows, row)
			}
		}
		if err := sh.Write(rows); err != nil {
			fmt.Fprintln(os.Stderr, "write:", err)
			os.Exit(3)
		}
		if b < 2 {
			sh.V.ForceFlush()
		}
	}
	for _, sql := range genQueries(r, nq, ntimes) {
		base, _, err := selectSafe(sh, sql)
		if err != nil {
			gen.Emit(map[string]any{"faultbase": map[string]any{"sql": sql, "err": err.Error()}})
			continue
		}
		ref := canon(base)
		// the reference must be stable (a second fault-free run gives the same rows)
		if again, _, err2 := selectSafe(sh, sql); err2 != nil || canon(again) != ref {
			gen.Emit(map[string]any{"faultbase": map[string]any{"sql": sql, "err": "reference answer not reproducible"}})
			continue
		}
		for k := 0; k < 200; k++ {
			ctl.arm(k)
			rows, crashed, qerr := selectSafe(sh, sql)
			fired, file, reads, kind := ctl.disarm()
			if !fired {
				gen.Emit(map[string]any{"faultdone": map[string]any{"sql": sql, "reads": reads, "rows": len(base)}})
				break
			}
			c := FaultCase{SQL: sql, K: k, File: file, Reads: reads, Rows: len(rows), Want: len(base), Crashed: crashed, Read: kind}
			if qerr != nil {
				c.Err = qerr.Error()
				if len(c.Err) > 160 {
					c.Err = c.Err[:160]
				}
			}
			c.Same = canon(rows) == ref
			c.Silent = qerr == nil && !c.Same
			if c.Silent {
				c.Got, c.Ref = canon(rows), ref
			}
			gen.Emit(map[string]any{"faultcase": c})
		}
	}
}
