// C11 black box: the same workload (several measurements with their own shard keys, write batches mixing them, a row the
// schema check drops, ALTER ... SHARDKEY between two batches, several shard groups) is sent over HTTP to two ts-server
// processes built from the working tree, one with ptnum-pernode = 1 and one with ptnum-pernode = N, and the same generated
// queries are put to both. The property: the answer does not depend on how many partitions the data is spread over.
// The single-partition server cannot prune (one shard per group) and serves as the oracle; a brute-force evaluation of
// the condition over the written rows is reported as well.
package main

import (
	"encoding/json"
	"fmt"
	"io"
	"net/http"
	"net/url"
	"os"
	"os/exec"
	"path/filepath"
	"sort"
	"strconv"
	"strings"
	"syscall"
	"time"

	"github.com/openGemini/openGemini/lib/util/lifted/influx/influxql"
	"verifharness/internal/gen"
)

type server struct {
	bin, conf, dir string
	port           int
	cmd            *exec.Cmd
	base           string
	hc             *http.Client
}

func newServer(bin, confTemplate, dir string, port, ptnum int) (*server, error) {
	raw, err := os.ReadFile(confTemplate)
	if err != nil {
		return nil, err
	}
	if err := os.MkdirAll(dir, 0o755); err != nil {
		return nil, err
	}
	txt := strings.ReplaceAll(strings.ReplaceAll(string(raw), "\r\n", "\n"), "/tmp/openGemini", filepath.Join(dir, "og"))
	ports := map[string]int{"8086": 0, "8091": 1, "8092": 2, "8088": 3, "8087": 4, "8400": 5, "8401": 6, "8305": 7, "8010": 8, "8011": 9}
	for from, off := range ports {
		txt = strings.ReplaceAll(txt, "127.0.0.1:"+from, fmt.Sprintf("127.0.0.1:%d", port+off))
	}
	txt = strings.Replace(txt, "store-enabled = true", "store-enabled = false", 1)
	if !strings.Contains(txt, "[meta]\n") {
		return nil, fmt.Errorf("config template has no [meta] section")
	}
	txt = strings.Replace(txt, "[meta]\n", fmt.Sprintf("[meta]\n  ptnum-pernode = %d\n", ptnum), 1)
	conf := filepath.Join(dir, "ts-server.conf")
	if err := os.WriteFile(conf, []byte(txt), 0o644); err != nil {
		return nil, err
	}
	return &server{bin: bin, conf: conf, dir: dir, port: port, base: fmt.Sprintf("http://127.0.0.1:%d", port),
		hc: &http.Client{Timeout: 60 * time.Second}}, nil
}

func (s *server) start() error {
	logf, err := os.OpenFile(filepath.Join(s.dir, "ts-server.log"), os.O_CREATE|os.O_APPEND|os.O_WRONLY, 0o644)
	if err != nil {
		return err
	}
	cmd := exec.Command(s.bin, "-config", s.conf)
	cmd.Dir = s.dir
	cmd.Stdout, cmd.Stderr = logf, logf
	cmd.Env = append(os.Environ(), "HOME="+s.dir, "TMPDIR="+s.dir)
	// own process group: only processes this harness started are ever signalled
	cmd.SysProcAttr = &syscall.SysProcAttr{Setpgid: true, Pdeathsig: syscall.SIGKILL}
	if err := cmd.Start(); err != nil {
		return err
	}
	s.cmd = cmd
	deadline := time.Now().Add(90 * time.Second)
	for time.Now().Before(deadline) {
		resp, err := s.hc.Get(s.base + "/ping")
		if err == nil {
			resp.Body.Close()
			if resp.StatusCode < 300 {
				for i := 0; i < 100; i++ {
					if _, err := s.query("", "show databases"); err == nil {
						return nil
					}
					time.Sleep(200 * time.Millisecond)
				}
				return nil
			}
		}
		time.Sleep(200 * time.Millisecond)
	}
	s.kill()
	return fmt.Errorf("ts-server did not become ready on %s", s.base)
}

func (s *server) kill() {
	if s == nil || s.cmd == nil || s.cmd.Process == nil {
		return
	}
	_ = syscall.Kill(-s.cmd.Process.Pid, syscall.SIGKILL)
	_, _ = s.cmd.Process.Wait()
	s.cmd = nil
}

type qSeries struct {
	Name    string            `json:"name"`
	Tags    map[string]string `json:"tags"`
	Columns []string          `json:"columns"`
	Values  [][]any           `json:"values"`
}
type qResult struct {
	Series []qSeries `json:"series"`
	Error  string    `json:"error"`
}
type qResp struct {
	Results []qResult `json:"results"`
	Error   string    `json:"error"`
}

func (s *server) query(db, q string) ([]qSeries, error) {
	v := url.Values{"q": {q}, "epoch": {"ns"}}
	if db != "" {
		v.Set("db", db)
	}
	resp, err := s.hc.PostForm(s.base+"/query", v)
	if err != nil {
		return nil, err
	}
	defer resp.Body.Close()
	b, _ := io.ReadAll(resp.Body)
	var r qResp
	dec := json.NewDecoder(strings.NewReader(string(b)))
	dec.UseNumber()
	if err := dec.Decode(&r); err != nil {
		return nil, fmt.Errorf("status %d: unparsable answer %.200q", resp.StatusCode, b)
	}
	if r.Error != "" {
		return nil, fmt.Errorf("%s", r.Error)
	}
	if len(r.Results) == 0 {
		return nil, nil
	}
	if r.Results[0].Error != "" {
		return nil, fmt.Errorf("%s", r.Results[0].Error)
	}
	return r.Results[0].Series, nil
}

// write sends one batch; a partial-write answer (some rows rejected) counts as delivered
func (s *server) write(db, body string) error {
	u := s.base + "/write?db=" + url.QueryEscape(db)
	var last error
	for i := 0; i < 20; i++ {
		resp, err := s.hc.Post(u, "text/plain", strings.NewReader(body))
		if err != nil {
			last = err
			time.Sleep(300 * time.Millisecond)
			continue
		}
		b, _ := io.ReadAll(resp.Body)
		resp.Body.Close()
		if resp.StatusCode < 300 || strings.Contains(string(b), "partial write") {
			return nil
		}
		last = fmt.Errorf("write status %d: %.300s", resp.StatusCode, b)
		time.Sleep(300 * time.Millisecond)
	}
	return last
}

// ---------------------------------------------------------------------------------------------

type row struct {
	Mst  string
	Tags map[string]string
	Time int64
	Use  float64
	Idx  int
	Bad  bool // carries usage as a string: rejected by the schema check
}

var tagKeys = []string{"dc", "host", "region"}

func (r *row) line() string {
	var sb strings.Builder
	sb.WriteString(r.Mst)
	for _, k := range tagKeys {
		if v, ok := r.Tags[k]; ok {
			sb.WriteString("," + k + "=" + v)
		}
	}
	if r.Bad {
		sb.WriteString(` usage="s"`)
	} else {
		sb.WriteString(fmt.Sprintf(" usage=%s,idx=%di", strconv.FormatFloat(r.Use, 'f', -1, 64), r.Idx))
	}
	sb.WriteString(" " + strconv.FormatInt(r.Time, 10))
	return sb.String()
}

type stmtStep struct {
	before int // statement is executed before this batch
	q      string
}

type atree struct {
	op   string
	l, r *atree
	txt  string
}

func genTree(r *gen.Rand, depth int) *atree {
	if depth <= 0 || r.Chance(1, 3) {
		var t string
		switch c := r.Intn(10); {
		case c < 5:
			k := gen.Pick(r, tagKeys)
			t = k + " = '" + tagVal(r, k) + "'"
		case c < 6:
			k := gen.Pick(r, tagKeys)
			t = k + " != '" + tagVal(r, k) + "'"
		default:
			t = "usage " + gen.Pick(r, []string{">", "<=", ">=", "<"}) + " " + gen.Pick(r, []string{"1", "2.5", "4", "0.5"})
		}
		return &atree{op: "leaf", txt: t}
	}
	switch c := r.Intn(10); {
	case c < 4:
		return &atree{op: "and", l: genTree(r, depth-1), r: genTree(r, depth-1)}
	case c < 9:
		return &atree{op: "or", l: genTree(r, depth-1), r: genTree(r, depth-1)}
	default:
		return &atree{op: "paren", l: genTree(r, depth-1)}
	}
}

func (t *atree) text(parentAnd bool) string {
	switch t.op {
	case "leaf":
		return t.txt
	case "paren":
		return "(" + t.l.text(false) + ")"
	case "and":
		return t.l.text(true) + " AND " + t.r.text(true)
	default:
		s := t.l.text(false) + " OR " + t.r.text(false)
		if parentAnd {
			return "(" + s + ")"
		}
		return s
	}
}

func tagVal(r *gen.Rand, k string) string {
	switch k {
	case "host":
		return "h" + strconv.Itoa(r.Intn(6))
	case "region":
		return "r" + strconv.Itoa(r.Intn(4))
	}
	return "d" + strconv.Itoa(r.Intn(3))
}

type Out struct {
	Kind  string `json:"kind"` // query | info | error
	DB    string `json:"db,omitempty"`
	Mst   string `json:"mst,omitempty"`
	Q     string `json:"q,omitempty"`
	A     []int  `json:"a"`   // idx returned by the single-partition server
	B     []int  `json:"b"`   // idx returned by the N-partition server
	Exp   []int  `json:"exp"` // idx of the written rows satisfying the query (brute force)
	ErrA  string `json:"erra,omitempty"`
	ErrB  string `json:"errb,omitempty"`
	Msg   string `json:"msg,omitempty"`
	Lines []string `json:"lines,omitempty"`
	Strict bool    `json:"strict,omitempty"` // pure time-range query: both answers must also equal Exp
}

func idxOf(series []qSeries) ([]int, error) {
	var res []int
	for _, s := range series {
		col := -1
		for i, c := range s.Columns {
			if c == "idx" {
				col = i
			}
		}
		if col < 0 {
			return nil, fmt.Errorf("no idx column in %v", s.Columns)
		}
		for _, v := range s.Values {
			n, ok := v[col].(json.Number)
			if !ok {
				return nil, fmt.Errorf("idx is %T", v[col])
			}
			x, _ := n.Int64()
			res = append(res, int(x))
		}
	}
	sort.Ints(res)
	return res, nil
}

func main() {
	if len(os.Args) < 7 {
		fmt.Println("usage: c11bb <ts-server> <config template> <port base> <work dir> <ptnum> <n queries>")
		os.Exit(2)
	}
	bin, conf := os.Args[1], os.Args[2]
	port, _ := strconv.Atoi(os.Args[3])
	work := os.Args[4]
	ptnum, _ := strconv.Atoi(os.Args[5])
	nq, _ := strconv.Atoi(os.Args[6])
	emit := func(o Out) { gen.Emit(o) }
	fail := func(msg string) {
		emit(Out{Kind: "error", Msg: msg})
		os.Exit(0)
	}
	sa, err := newServer(bin, conf, filepath.Join(work, "bb1"), port, 1)
	if err != nil {
		fail(err.Error())
	}
	sb, err := newServer(bin, conf, filepath.Join(work, "bbN"), port+20, ptnum)
	if err != nil {
		fail(err.Error())
	}
	defer sa.kill()
	defer sb.kill()
	errc := make(chan error, 2)
	go func() { errc <- sa.start() }()
	go func() { errc <- sb.start() }()
	for i := 0; i < 2; i++ {
		if err := <-errc; err != nil {
			sa.kill()
			sb.kill()
			fail("server start: " + err.Error())
		}
	}
	both := func(db, q string) error {
		for _, s := range []*server{sa, sb} {
			var err error
			for i := 0; i < 30; i++ {
				if _, err = s.query(db, q); err == nil {
					break
				}
				time.Sleep(300 * time.Millisecond)
			}
			if err != nil {
				return fmt.Errorf("%s on %s: %v", q, s.base, err)
			}
		}
		return nil
	}
	r := gen.FromEnv(1111)
	// database 1: no database-level key, every measurement has its own (or none); ALTER SHARDKEY between two batches
	workload(sa, sb, both, emit, fail, r, "c11bb", nq, ptnum, []string{
		"CREATE DATABASE c11bb WITH SHARD DURATION 1h NAME rp0",
		"CREATE MEASUREMENT cpu WITH SHARDKEY host",
		"CREATE MEASUREMENT mem WITH SHARDKEY region",
		"CREATE MEASUREMENT net WITH SHARDKEY dc,host",
	}, []stmtStep{{before: 8, q: "ALTER MEASUREMENT cpu WITH SHARDKEY region"}},
		map[string][]string{"cpu": {"host", "region"}, "mem": {"region", "host"}, "net": {"dc", "host"}})
	// database 2: created WITH SHARDKEY region; cpu and net are created with keys of their own inside it, mem and disk are
	// created by the first write. Every row is placed by region, whatever the measurement says.
	nq2 := nq / 2
	if nq2 < 8 {
		nq2 = 8
	}
	workload(sa, sb, both, emit, fail, r, "c11bk", nq2, ptnum, []string{
		"CREATE DATABASE c11bk WITH SHARD DURATION 1h SHARDKEY region NAME rp0",
		"CREATE MEASUREMENT cpu WITH SHARDKEY host",
		"CREATE MEASUREMENT net WITH SHARDKEY dc,host",
	}, nil, map[string][]string{"cpu": {"region", "host"}, "mem": {"region"}, "net": {"region", "dc", "host"}, "disk": {"region"}})
	emit(Out{Kind: "info", Msg: fmt.Sprintf("done: partitions 1 vs %d", ptnum)})
}

func workload(sa, sb *server, both func(db, q string) error, emit func(Out), fail func(string), r *gen.Rand, db string, nq, ptnum int,
	setup []string, steps []stmtStep, forced map[string][]string) {
	for _, q := range setup {
		if err := both(db, q); err != nil {
			sa.kill()
			sb.kill()
			fail("setup: " + err.Error())
		}
	}
	// ---- workload
	msts := []string{"cpu", "mem", "net", "disk"}
	base := int64(1700000000) * 1000000000
	base -= base % int64(time.Hour)
	nb := 14
	var rows []row
	var batches [][]int
	idx := 0
	seenGood := map[string]bool{}
	usedExact := map[string]bool{}
	for b := 0; b < nb; b++ {
		var batch []int
		n := r.Range(6, 12)
		// three shard groups, created out of order: the first writes go to the middle hour, then the earlier one, then the later
		hour := []int64{1, 1, 0, 2, 0, 1, 2, 0, 2, 1, 0, 1, 2, 0}[b%14]
		for i := 0; i < n; i++ {
			m := gen.Pick(r, msts)
			if i > 0 && r.Chance(1, 3) {
				m = rows[len(rows)-1].Mst
			}
			rw := row{Mst: m, Tags: map[string]string{}, Idx: idx}
			for _, k := range tagKeys {
				if r.Chance(9, 10) {
					rw.Tags[k] = tagVal(r, k)
				}
			}
			// every measurement's own shard-key tags are present (otherwise the row is rejected; that is allowed but dull)
			for _, k := range forced[m] {
				if _, ok := rw.Tags[k]; !ok {
					rw.Tags[k] = tagVal(r, k)
				}
			}
			rw.Time = base + hour*int64(time.Hour) + int64(r.Intn(3000))*int64(time.Second) + int64(idx)
			if r.Chance(1, 6) {
				rw.Time = base + (hour+1)*int64(time.Hour) - 1 - int64(idx) // just before the next group
			}
			if r.Chance(1, 8) {
				// exactly on the group boundary: the first instant of the group (one row per series there, so that no row
				// overwrites another)
				t := base + hour*int64(time.Hour)
				switch r.Intn(3) {
				case 0:
					t = base + (hour+1)*int64(time.Hour) - 1 // the last instant of the group
				case 1:
					if i > 0 {
						t = base + (hour+1)*int64(time.Hour) // the first instant of the NEXT group, after rows of this one
					}
				}
				key := fmt.Sprintf("%s|%v|%d", m, rw.Tags, t)
				if !usedExact[key] {
					usedExact[key] = true
					rw.Time = t
				}
			}
			rw.Use = float64(r.Intn(11)) * 0.5
			if i > 0 && i < n-1 && seenGood[m] && r.Chance(1, 8) {
				rw.Bad = true // only once the measurement has its float field: the first row defines the type
			}
			idx++
			rows = append(rows, rw)
			batch = append(batch, len(rows)-1)
		}
		batches = append(batches, batch)
		for _, i := range batch {
			if !rows[i].Bad {
				seenGood[rows[i].Mst] = true
			}
		}
	}
	written := map[string][]*row{}
	for b, batch := range batches {
		for _, st := range steps {
			if st.before == b {
				if err := both(db, st.q); err != nil {
					emit(Out{Kind: "info", Msg: "statement not executed: " + err.Error()})
				}
			}
		}
		var lines []string
		for _, i := range batch {
			lines = append(lines, rows[i].line())
			if !rows[i].Bad {
				written[rows[i].Mst] = append(written[rows[i].Mst], &rows[i])
			}
		}
		body := strings.Join(lines, "\n")
		for _, s := range []*server{sa, sb} {
			if err := s.write(db, body); err != nil {
				sa.kill()
				sb.kill()
				fail("write: " + err.Error())
			}
		}
	}
	// wait until both servers show every accepted row
	for _, m := range msts {
		want := len(written[m])
		for _, s := range []*server{sa, sb} {
			ok := false
			got := -1
			for i := 0; i < 100 && !ok; i++ {
				ser, err := s.query(db, `SELECT count(idx) FROM "`+m+`"`)
				if err == nil && len(ser) == 1 && len(ser[0].Values) == 1 {
					if n, isn := ser[0].Values[0][1].(json.Number); isn {
						x, _ := n.Int64()
						got = int(x)
						ok = got == want
					}
				}
				if !ok {
					time.Sleep(200 * time.Millisecond)
				}
			}
			if !ok {
				// an accepted row that no unconditioned query returns: reported as a query with an empty condition below
				emit(Out{Kind: "info", Msg: fmt.Sprintf("%s: count(idx) of %s is %d, %d rows were acknowledged", s.base, m, got, want)})
			}
		}
	}
	// ---- queries
	type qspec struct {
		mst, cond string
		strict    bool
	}
	var qs []qspec
	for _, m := range msts {
		qs = append(qs, qspec{mst: m})
	}
	// the shapes of the four defects, always
	qs = append(qs, qspec{mst: "cpu", cond: "host = 'h1' OR usage > 4"}, qspec{mst: "cpu", cond: "host = 'h0' OR host = 'h1' OR host = 'h2'"},
		qspec{mst: "mem", cond: "region = 'r1'"}, qspec{mst: "mem", cond: "region = 'r0' OR region = 'r2'"}, qspec{mst: "cpu", cond: "host = 'h3'"},
		qspec{mst: "cpu", cond: "region = 'r2'"}, qspec{mst: "net", cond: "host = 'h2' AND (dc = 'd0' OR dc = 'd1')"}, qspec{mst: "net", cond: "dc = 'd1' AND host = 'h4'"})
	// time ranges that start or end exactly on a shard-group boundary (and one nanosecond off). No field or tag operator is
	// involved, so the answer must ALSO equal the brute-force evaluation over the acknowledged rows (strict)
	for _, m := range []string{"cpu", "disk"} {
		for _, k := range []int64{1, 2} {
			bnd := strconv.FormatInt(base+k*int64(time.Hour), 10)
			bm1 := strconv.FormatInt(base+k*int64(time.Hour)-1, 10)
			prev := strconv.FormatInt(base+(k-1)*int64(time.Hour), 10)
			for _, c := range []string{"time >= " + bnd, "time > " + bnd, "time < " + bnd, "time <= " + bnd, "time <= " + bm1,
				"time >= " + bm1 + " AND time <= " + bnd, "time >= " + prev + " AND time < " + bnd, "time > " + prev + " AND time <= " + bnd,
				"time = " + bnd} {
				qs = append(qs, qspec{mst: m, cond: c, strict: true})
			}
		}
	}
	// hint queries name one full series: every tag of the series is bound by equality
	type hq struct{ mst, cond string }
	var hints []hq
	for _, m := range []string{"cpu", "mem", "net", "disk"} {
		k := 0
		for _, rw := range written[m] {
			if len(rw.Tags) == len(tagKeys) && k < 4 {
				hints = append(hints, hq{m, fmt.Sprintf("dc = '%s' AND host = '%s' AND region = '%s'", rw.Tags["dc"], rw.Tags["host"], rw.Tags["region"])})
				k++
			}
		}
	}
	if os.Getenv("C11BB_HINTS") != "" {
		for _, h := range hints {
			qs = append(qs, qspec{mst: h.mst, cond: "/*+ full_series */" + h.cond})
		}
	}
	for i := 0; i < nq; i++ {
		t := genTree(r, r.Range(1, 3))
		cond := t.text(false)
		if r.Chance(1, 3) {
			lo := base + int64(r.Intn(3))*int64(time.Hour) - int64(r.Intn(2))
			hi := lo + int64(r.Range(1, 2))*int64(time.Hour)
			cond = "(" + cond + ") AND time >= " + strconv.FormatInt(lo, 10) + " AND time < " + strconv.FormatInt(hi, 10)
		}
		qs = append(qs, qspec{mst: gen.Pick(r, msts), cond: cond})
	}
	for _, q := range qs {
		text := `SELECT idx, usage FROM "` + q.mst + `"`
		if strings.HasPrefix(q.cond, "/*+ full_series */") {
			q.cond = strings.TrimPrefix(q.cond, "/*+ full_series */")
			text = `SELECT /*+ full_series */ idx, usage FROM "` + q.mst + `"`
		}
		if q.cond != "" {
			text += " WHERE " + q.cond
		}
		o := Out{Kind: "query", DB: db, Mst: q.mst, Strict: q.strict, Q: text, A: []int{}, B: []int{}, Exp: []int{}}
		if ser, err := sa.query(db, text); err != nil {
			o.ErrA = err.Error()
		} else if o.A, err = idxOf(ser); err != nil {
			o.ErrA = err.Error()
		}
		if ser, err := sb.query(db, text); err != nil {
			o.ErrB = err.Error()
		} else if o.B, err = idxOf(ser); err != nil {
			o.ErrB = err.Error()
		}
		if o.A == nil {
			o.A = []int{}
		}
		if o.B == nil {
			o.B = []int{}
		}
		// brute force over the acknowledged rows
		var e influxql.Expr
		if q.cond != "" {
			var err error
			if e, err = influxql.ParseExpr(q.cond); err != nil {
				o.Msg = "reference: " + err.Error()
			}
		}
		for _, rw := range written[q.mst] {
			m := map[string]interface{}{"usage": rw.Use, "idx": int64(rw.Idx), "time": rw.Time}
			for _, k := range tagKeys {
				m[k] = rw.Tags[k]
			}
			if e == nil || influxql.EvalBool(e, m) {
				o.Exp = append(o.Exp, rw.Idx)
			}
		}
		sort.Ints(o.Exp)
		same := len(o.A) == len(o.B)
		for i := 0; same && i < len(o.A); i++ {
			same = o.A[i] == o.B[i]
		}
		if !same {
			// the rows only one server returns, as written
			inA, inB := map[int]bool{}, map[int]bool{}
			for _, x := range o.A {
				inA[x] = true
			}
			for _, x := range o.B {
				inB[x] = true
			}
			for i := range rows {
				if inA[rows[i].Idx] != inB[rows[i].Idx] {
					o.Lines = append(o.Lines, rows[i].line())
				}
			}
		}
		emit(o)
	}
	emit(Out{Kind: "info", Msg: fmt.Sprintf("database %s: %d rows in %d batches, %d queries, partitions 1 vs %d", db, len(rows), len(batches), len(qs), ptnum)})
}
