// C20 multi-file stream: the reader ABOVE the single indexes. Several attached data files, each with a primary-key index
// (PKIndexWriterImpl.Build over rows in the writer's order) and a bloom-filter file on the column "content"
// (BloomFilterWriter.GenBloomFilterData); the query is planned through the production engine.NewAttachedIndexReader(...).Next()
// (engine/hybrid_index_reader.go: primary-key scan, then every skip-index reader, file after file, with and without
// readSegmentBatch). DIRECT ORACLE: every fragment of every file that holds a row satisfying the condition is among the
// fragment ranges delivered for that file. For the model (coq/C20/Multi.v) the per-file answers of the two layers are
// recorded as well: the primary-key ranges (PKIndexReaderImpl.Scan alone) and the skip index's MayBeInFragment.
package main

import (
	"fmt"
	"os"
	"path"
	"path/filepath"
	"strconv"

	"github.com/openGemini/openGemini/engine"
	"github.com/openGemini/openGemini/engine/executor"
	"github.com/openGemini/openGemini/engine/immutable"
	"github.com/openGemini/openGemini/engine/immutable/colstore"
	"github.com/openGemini/openGemini/engine/index/sparseindex"
	"github.com/openGemini/openGemini/lib/fragment"
	"github.com/openGemini/openGemini/lib/index"
	"github.com/openGemini/openGemini/lib/record"
	"github.com/openGemini/openGemini/lib/rpn"
	"github.com/openGemini/openGemini/lib/tokenizer"
	"github.com/openGemini/openGemini/lib/util"
	"github.com/openGemini/openGemini/lib/util/lifted/influx/influxql"
	"github.com/openGemini/openGemini/lib/util/lifted/influx/query"
	"github.com/openGemini/openGemini/lib/util/lifted/vm/protoparser/influx"
	"verifharness/internal/gen"
)

type MRow struct {
	K       int64   `json:"k"`
	Content *string `json:"content"`
	Src     *string `json:"src"`
}

type MCond struct {
	Op   string   `json:"op"` // and or | k= k!= k< k<= k> k>= | match (content) | smatch (src, not indexed)
	Args []*MCond `json:"args,omitempty"`
	K    int64    `json:"k,omitempty"`
	Lit  string   `json:"lit,omitempty"`
}

type MultiIn struct {
	Kind       string   `json:"kind"` // "multi"
	Files      [][]MRow `json:"files"`
	RPF        int      `json:"rpf"` // rows per fragment
	Cond       *MCond   `json:"cond"`
	ReadBatch  bool     `json:"readbatch"`
	BatchCount int      `json:"batchcount"`
	Tag        string   `json:"tag,omitempty"`
}

type MFileObs struct {
	NFrag    int      `json:"nfrag"`
	Match    []bool   `json:"match"`    // per fragment: holds a row satisfying the condition
	PK       [][2]int `json:"pk"`       // PKIndexReaderImpl.Scan alone (same reader settings, same key condition)
	Keep     []int    `json:"keep"`     // bloom reader MayBeInFragment per fragment (1/0; 1 when no skip reader exists)
	Selected [][2]int `json:"selected"` // ranges delivered for the file, in delivery order
}

type MultiOut struct {
	MID     int        `json:"mid"`
	In      *MultiIn   `json:"in"`
	Err     string     `json:"err"`
	Files   []MFileObs `json:"files"`
	Batches [][]int    `json:"batches"` // per Next() call: the file indexes it delivered
	HasSK   bool       `json:"hassk"`
	Oracle  []string   `json:"oracle"`
	Nontriv bool       `json:"nontrivial"`
}

type mFile struct {
	immutable.TSSPFile
	p string
}

func (f mFile) Path() string { return f.p }
func (f mFile) Name() string { return "logs" }

func (c *MCond) expr() influxql.Expr {
	switch c.Op {
	case "and", "or":
		op := influxql.AND
		if c.Op == "or" {
			op = influxql.OR
		}
		return &influxql.BinaryExpr{Op: influxql.Token(op), LHS: c.Args[0].expr(), RHS: c.Args[1].expr()}
	case "match":
		return &influxql.BinaryExpr{Op: influxql.MATCHPHRASE, LHS: &influxql.VarRef{Val: "content", Type: influxql.String}, RHS: &influxql.StringLiteral{Val: c.Lit}}
	case "smatch":
		return &influxql.BinaryExpr{Op: influxql.MATCHPHRASE, LHS: &influxql.VarRef{Val: "src", Type: influxql.String}, RHS: &influxql.StringLiteral{Val: c.Lit}}
	}
	return &influxql.BinaryExpr{Op: opTok[c.Op[1:]], LHS: &influxql.VarRef{Val: "k", Type: influxql.Integer}, RHS: &influxql.IntegerLiteral{Val: c.K}}
}

func (c *MCond) eval(r *MRow) bool {
	switch c.Op {
	case "and":
		return c.Args[0].eval(r) && c.Args[1].eval(r)
	case "or":
		return c.Args[0].eval(r) || c.Args[1].eval(r)
	case "match":
		return r.Content != nil && phraseMatches(*r.Content, c.Lit)
	case "smatch":
		return r.Src != nil && phraseMatches(*r.Src, c.Lit)
	case "k=":
		return r.K == c.K
	case "k!=":
		return r.K != c.K
	case "k<":
		return r.K < c.K
	case "k<=":
		return r.K <= c.K
	case "k>":
		return r.K > c.K
	case "k>=":
		return r.K >= c.K
	}
	panic("op " + c.Op)
}

func (c *MCond) hasMatch() bool {
	if c.Op == "and" || c.Op == "or" {
		return c.Args[0].hasMatch() || c.Args[1].hasMatch()
	}
	return c.Op == "match"
}

func rangesOf(frs fragment.FragmentRanges) [][2]int {
	res := [][2]int{}
	for _, fr := range frs {
		res = append(res, [2]int{int(fr.Start), int(fr.End)})
	}
	return res
}

func runMultiCase(id int, in *MultiIn, work string) *MultiOut {
	out := &MultiOut{MID: id, In: in, Oracle: []string{}, Batches: [][]int{}}
	dir := path.Join(work, "multi", strconv.Itoa(id))
	if err := os.MkdirAll(dir, 0700); err != nil {
		out.Err = err.Error()
		return out
	}
	defer os.RemoveAll(dir)
	pkSchema := record.Schemas{{Name: "k", Type: influx.Field_Type_Int}}
	var files []immutable.TSSPFile
	var infos []*colstore.PKInfo
	var sorted [][]MRow
	for fi, rows := range in.Files {
		base := fmt.Sprintf("%08x-0001-00000000", fi+1)
		schema := record.Schemas{{Name: "k", Type: influx.Field_Type_Int}, {Name: "content", Type: influx.Field_Type_String},
			{Name: "src", Type: influx.Field_Type_String}, {Name: "time", Type: influx.Field_Type_Int}}
		rec := record.NewRecord(schema, false)
		for i, r := range rows {
			rec.Column(0).AppendInteger(r.K)
			for c, s := range []*string{r.Content, r.Src} {
				if s == nil {
					rec.Column(1 + c).AppendStringNull()
				} else {
					rec.Column(1 + c).AppendString(*s)
				}
			}
			rec.Column(3).AppendInteger(int64(1000*fi + i))
		}
		// the rows of a file are in the order of the flush sort
		rec = record.NewSortHelper().SortForColumnStore(rec, []record.PrimaryKey{{Key: "k", Type: influx.Field_Type_Int}}, false, 0)
		srows := make([]MRow, len(rows))
		for i := range rows {
			srows[i].K, _ = rec.Column(0).IntegerValue(i)
			for c, dst := range []**string{&srows[i].Content, &srows[i].Src} {
				if !rec.Column(1 + c).IsNil(i) {
					s, _ := rec.Column(1 + c).StringValueSafe(i)
					*dst = &s
				}
			}
		}
		sorted = append(sorted, srows)
		rowsPer := immutable.GenFixRowsPerSegment(rec, in.RPF)
		var pkRec *record.Record
		var pkMark fragment.IndexFragment
		var err error
		p := guard(func() {
			pk := make(record.Schemas, 1)
			copy(pk, pkSchema)
			pkRec, pkMark, err = sparseindex.NewPKIndexWriter().Build(rec, pk, append([]int(nil), rowsPer...), colstore.DefaultTCLocation, in.RPF)
		})
		if p != "" || err != nil {
			out.Err = fmt.Sprintf("Build: %s %v", p, err)
			out.Oracle = append(out.Oracle, out.Err)
			return out
		}
		p = guard(func() {
			bf := sparseindex.NewBloomFilterWriter("", "", "", "", tokenizer.CONTENT_SPLITTER)
			data := bf.GenBloomFilterData(rec.Column(1), append([]int(nil), rowsPer...), influx.Field_Type_String)
			err = os.WriteFile(filepath.Join(dir, base+".content"+colstore.BloomFilterIndexFileSuffix), data, 0600)
		})
		if p != "" || err != nil {
			out.Err = fmt.Sprintf("bloom writer: %s %v", p, err)
			out.Oracle = append(out.Oracle, out.Err)
			return out
		}
		files = append(files, mFile{p: filepath.Join(dir, base+".tssp")})
		infos = append(infos, colstore.NewPKInfo(pkRec, pkMark, colstore.DefaultTCLocation))
		ob := MFileObs{NFrag: len(rowsPer), PK: [][2]int{}, Selected: [][2]int{}}
		for f := 0; f < ob.NFrag; f++ {
			m := false
			for r := f * in.RPF; r < min((f+1)*in.RPF, len(srows)); r++ {
				m = m || in.Cond.eval(&srows[r])
			}
			ob.Match = append(ob.Match, m)
		}
		out.Files = append(out.Files, ob)
	}
	// the query
	mst := &influxql.Measurement{Name: "logs", IndexRelation: &influxql.IndexRelation{
		Oids: []uint32{uint32(index.BloomFilter)}, IndexNames: []string{index.BloomFilterIndex},
		IndexList: []*influxql.IndexList{{IList: []string{"content"}}}}}
	mkSchema := func() *executor.QuerySchema {
		opt := query.ProcessorOptions{Sources: []influxql.Source{mst}, Condition: in.Cond.expr(), StartTime: influxql.MinTime, EndTime: influxql.MaxTime}
		fields := influxql.Fields{&influxql.Field{Expr: &influxql.VarRef{Val: "content", Type: influxql.String}}}
		s := executor.NewQuerySchema(fields, []string{"content"}, &opt, nil)
		s.AddTable(mst, s.MakeRefs())
		return s
	}
	// the two layers alone, per file (for the model): primary-key scan with the reader settings of NewIndexContext, bloom
	// reader's MayBeInFragment
	out.HasSK = in.Cond.hasMatch()
	for fi := range files {
		ob := &out.Files[fi]
		p := guard(func() {
			pk := make(record.Schemas, 1)
			copy(pk, pkSchema)
			kc, err := sparseindex.NewKeyCondition(nil, in.Cond.expr(), pk)
			if err != nil {
				out.Err = "NewKeyCondition: " + err.Error()
				return
			}
			frs, err := sparseindex.NewPKIndexReader(util.RowsNumPerFragment, colstore.CoarseIndexFragment, colstore.MinRowsForSeek).Scan(
				files[fi].Path(), infos[fi].GetRec(), infos[fi].GetMark(), kc)
			if err != nil {
				out.Err = "pk scan: " + err.Error()
				return
			}
			ob.PK = rangesOf(frs)
		})
		if p != "" {
			out.Err = "pk scan panic: " + p
		}
		for f := 0; f < ob.NFrag; f++ {
			ob.Keep = append(ob.Keep, 1)
		}
		if out.HasSK && out.Err == "" {
			p := guard(func() {
				opt := &query.ProcessorOptions{Condition: in.Cond.expr()}
				rd, err := sparseindex.NewBloomFilterIndexReader(rpn.ConvertToRPNExpr(opt.GetCondition()),
					record.Schemas{{Name: "content", Type: influx.Field_Type_String}}, opt, true)
				if err == nil {
					err = rd.ReInit(files[fi])
				}
				if err != nil {
					out.Err = "bloom reader: " + err.Error()
					return
				}
				for f := 0; f < ob.NFrag; f++ {
					ok, e := rd.MayBeInFragment(uint32(f))
					if e != nil {
						out.Err = "MayBeInFragment: " + e.Error()
						return
					}
					ob.Keep[f] = b2i(ok)
				}
			})
			if p != "" {
				out.Err = "bloom reader panic: " + p
			}
		}
	}
	if out.Err != "" {
		out.Oracle = append(out.Oracle, out.Err)
		return out
	}
	// the production reader above them
	p := guard(func() {
		reader := engine.NewAttachedIndexReader(engine.NewIndexContext(in.ReadBatch, in.BatchCount, mkSchema(), ""), executor.NewAttachedIndexInfo(files, infos), nil)
		for calls := 0; calls < 4*len(files)+4; calls++ {
			frags, err := reader.Next()
			if err != nil {
				out.Err = "Next: " + err.Error()
				return
			}
			if frags == nil {
				return
			}
			got, ok := frags.Indexes().([]immutable.TSSPFile)
			if !ok {
				out.Err = "Next: unexpected index type"
				return
			}
			batch := []int{}
			for i := range got {
				fi := -1
				for j := range files {
					if files[j].Path() == got[i].Path() {
						fi = j
					}
				}
				if fi < 0 {
					out.Err = "Next delivered an unknown file " + got[i].Path()
					return
				}
				batch = append(batch, fi)
				out.Files[fi].Selected = append(out.Files[fi].Selected, rangesOf(frags.FragRanges()[i])...)
			}
			out.Batches = append(out.Batches, batch)
		}
		out.Err = "Next did not terminate"
	})
	if p != "" {
		out.Err = "Next panic: " + p
	}
	if out.Err != "" {
		out.Oracle = append(out.Oracle, out.Err)
		return out
	}
	pruned, any := 0, false
	for fi := range out.Files {
		ob := &out.Files[fi]
		for f, m := range ob.Match {
			cov := false
			for _, r := range ob.Selected {
				cov = cov || (r[0] <= f && f < r[1])
			}
			if !cov {
				pruned++
			}
			any = any || m
			if m && !cov {
				out.Oracle = append(out.Oracle, fmt.Sprintf("file %d fragment %d holds a matching row but is not delivered by attachedIndexReader.Next (delivered for the file: %v)", fi, f, ob.Selected))
			}
		}
	}
	out.Nontriv = any && pruned > 0
	return out
}

var mwords = []string{"needle", "hay", "alpha", "beta", "gamma", "x7", "error", "ok", "agent1", "agent2"}

func genMultiCase(r *gen.Rand) *MultiIn {
	in := &MultiIn{Kind: "multi", RPF: 1 + r.Intn(4)}
	nf := 2 + r.Intn(5)
	// a few words are rare: they occur in some files only, so that the skip index drops whole files the primary index kept
	nw := 3 + r.Intn(len(mwords)-2)
	for f := 0; f < nf; f++ {
		n := 1 + r.Intn(10)
		var rows []MRow
		base := int64(0)
		if r.Chance(1, 2) {
			base = int64(f * 5) // key ranges of the files overlap partly or not at all
		}
		fileWords := 1 + r.Intn(nw)
		for i := 0; i < n; i++ {
			row := MRow{K: base + int64(r.Intn(12))}
			if !r.Chance(1, 8) {
				s := ""
				for w := 0; w < 1+r.Intn(3); w++ {
					if w > 0 {
						s += " "
					}
					s += mwords[r.Intn(fileWords)]
				}
				row.Content = &s
			}
			if !r.Chance(1, 6) {
				s := "agent" + strconv.Itoa(r.Intn(3))
				row.Src = &s
			}
			rows = append(rows, row)
		}
		in.Files = append(in.Files, rows)
	}
	kops := []string{"k=", "k!=", "k<", "k<=", "k>", "k>="}
	var genCond func(d int) *MCond
	genCond = func(d int) *MCond {
		if d > 0 && r.Chance(3, 5) {
			return &MCond{Op: gen.Pick(r, []string{"and", "or", "and"}), Args: []*MCond{genCond(d - 1), genCond(d - 1)}}
		}
		switch k := r.Intn(10); {
		case k < 5:
			return &MCond{Op: "match", Lit: mwords[r.Intn(nw)]}
		case k < 6:
			return &MCond{Op: "smatch", Lit: "agent" + strconv.Itoa(r.Intn(3))}
		default:
			return &MCond{Op: gen.Pick(r, kops), K: int64(r.Intn(30))}
		}
	}
	in.Cond = genCond(r.Intn(3))
	if r.Chance(1, 3) { // the plain shape: one phrase, nothing else
		in.Cond = &MCond{Op: "match", Lit: mwords[r.Intn(nw)]}
	}
	in.ReadBatch = r.Bool()
	in.BatchCount = gen.Pick(r, []int{1, 1, 2, 3, 5, 1 << 20})
	return in
}
