// C20 bloom-filter skip index stream: real writer (BloomFilterWriter.GenBloomFilterData, as CreateAttachIndex calls it)
// + real attached reader path (NewBloomFilterIndexReader -> ReInit(TsspFile) -> LineFilterReader, SKConditionImpl,
// SKIndexReaderImpl.Scan / MayBeInFragment) on generated string columns (nulls, empty strings, repeated tokens,
// segment boundaries inside/at null runs) and generated conditions (MATCHPHRASE / = on indexed and non-indexed columns,
// AND / OR). DIRECT ORACLE: a segment that contains a row satisfying the condition (row semantics = the engine's own
// SimpleTokenFinder for MATCHPHRASE) must be kept.
package main

import (
	"fmt"
	"os"
	"path"
	"strconv"
	"strings"
	"unicode/utf8"

	"github.com/openGemini/openGemini/engine/immutable/colstore"
	engineindex "github.com/openGemini/openGemini/engine/index"
	"github.com/openGemini/openGemini/engine/index/bloomfilter"
	"github.com/openGemini/openGemini/engine/index/sparseindex"
	"github.com/openGemini/openGemini/lib/fragment"
	"github.com/openGemini/openGemini/lib/index"
	"github.com/openGemini/openGemini/lib/logstore"
	"github.com/openGemini/openGemini/lib/record"
	"github.com/openGemini/openGemini/lib/rpn"
	"github.com/openGemini/openGemini/lib/tokenizer"
	"github.com/openGemini/openGemini/lib/util/lifted/influx/influxql"
	"github.com/openGemini/openGemini/lib/util/lifted/influx/query"
	"github.com/openGemini/openGemini/lib/util/lifted/vm/protoparser/influx"
	"verifharness/internal/gen"
)

type BCond struct {
	Op    string   `json:"op"` // and or | match =
	Args  []*BCond `json:"args,omitempty"`
	Col   string   `json:"col,omitempty"` // content | source | n
	Lit   string   `json:"lit"`
	Paren bool     `json:"paren,omitempty"`
}

type BloomIn struct {
	Kind       string    `json:"kind"` // "bloom"
	Content    []*string `json:"content"`
	Source     []*string `json:"source"`
	N          []int64   `json:"n"`
	Sizes      []int     `json:"sizes"`
	LastMinus1 bool      `json:"lastminus1"` // rowsPerSegment's last entry is rows-1 (as GenFixRowsPerSegment) or rows
	Indexed    []string  `json:"indexed"`    // columns with a bloom filter file
	Cond       *BCond    `json:"cond"`
	RPF        int       `json:"rpf"`
	MinRows    int       `json:"minrows"`
	Tag        string    `json:"tag,omitempty"`
	// Vertical: the filters of one full vertical group (128 segments) are transposed by logstore.FlushVerticalFilter into
	// the detached/OBS file format and read back through BloomFilterIndexReader.ReInit(OBSFilterPath) -> VerticalFilterReader
	Vertical bool `json:"vertical,omitempty"`
	// Chop[i]: bytes cut off the end of content[i] at run time - a value that ends inside a multi-byte character (truncated,
	// i.e. invalid UTF-8; a JSON string cannot carry such bytes itself)
	Chop []int `json:"chop,omitempty"`
	// ViaBuilder: the bloom-filter writer is not constructed by the harness with the default split characters but the way
	// a flush constructs it: index.IndexWriterBuilder.NewIndexWriters over the index relation that CREATE MEASUREMENT ...
	// INDEXTYPE bloomfilter INDEXLIST content produces (StatementExecutor.getIndexRelation: an IndexOptions entry without options)
	ViaBuilder bool `json:"viabuilder,omitempty"`
}

// effective: the case with the chopped values
func (in *BloomIn) effective() *BloomIn {
	if len(in.Chop) == 0 {
		return in
	}
	e := *in
	e.Content = append([]*string(nil), in.Content...)
	for i, n := range in.Chop {
		if i < len(e.Content) && e.Content[i] != nil && n > 0 && n < len(*e.Content[i]) {
			s := (*e.Content[i])[:len(*e.Content[i])-n]
			e.Content[i] = &s
		}
	}
	return &e
}

type BAtomObs struct {
	Col  string `json:"col"`
	Op   string `json:"op"`
	Lit  string `json:"lit"`
	Hits []int  `json:"hits"` // per segment: single-predicate MayBeInFragment on this column's own filter (1/0), -1 n/a
	AMatch  []bool `json:"amatch"`  // per segment: some row satisfies this atom alone
	NoToken bool   `json:"notoken"` // MATCHPHRASE phrase from which the reader's tokenizer produces no token
	Gram    bool   `json:"gram"`    // the reader's tokenizer produces a multi-token gram hash for the phrase (a hash that is not the hash of a single token)
	NonAscii []bool `json:"nonascii"` // per segment: a row value this atom matches holds a byte >= 0x80 (non-ASCII text)
}

type BloomOut struct {
	BID     int        `json:"bid"`
	In      *BloomIn   `json:"in"`
	SegCnt  int        `json:"segcnt"`
	Schema  []string   `json:"schema"` // fields handed to the reader (indexed columns in order of appearance)
	Err     string     `json:"err"`
	Kept    []int      `json:"kept"`   // MayBeInFragment per segment 1/0, -1 error, -2 panic
	Ranges  [][2]int   `json:"ranges"` // SKIndexReaderImpl.Scan
	Match   []bool     `json:"match"`
	Atoms   []BAtomObs `json:"atoms"` // in left-to-right order of the condition
	Oracle  []string   `json:"oracle"`
	Nontriv bool       `json:"nontrivial"`
	Tok     *TokObs    `json:"tok,omitempty"`
}

// TokObs ties the Coq model of the tokenizers (coq/C20/TokModel.v) to the real ones on the strings of the case.
type TokObs struct {
	// values: bytes, the byte-level tokens (maximal runs of non-split bytes, computed by the harness the way TokModel.tokens
	// is defined), RealOK = the real SimpleTokenizer yields exactly the hashes of these tokens, in order; WriterBytewise = the
	// filter data GenBloomFilterData writes for the value alone equals the data SimpleTokenizer.ProcessTokenizerBatch writes
	Vals []TokVal `json:"vals"`
	// (phrase, value, real SimpleTokenFinder result)
	Pairs []TokPair `json:"pairs"`
}
type TokVal struct {
	V              []int   `json:"v"`
	Toks           [][]int `json:"toks"`
	RealOK         bool    `json:"realok"`
	WriterBytewise bool    `json:"writerbytewise"`
	ASCII          bool    `json:"ascii"`
	Skip           bool    `json:"skip,omitempty"` // not a value observation (only its pair is meant)
	// UTF-8 aware tokens (UtfTok.utokens, computed by the harness the way the model defines them); URealOK = the real
	// SimpleUtf8Tokenizer yields exactly the hashes of these tokens, in order; WriterUtf8 = the filter bytes GenBloomFilterData
	// writes for the value equal the bytes SimpleUtf8Tokenizer.ProcessTokenizerBatch writes; Valid = utf8.Valid
	UToks      [][]int `json:"utoks"`
	URealOK    bool    `json:"urealok"`
	WriterUtf8 bool    `json:"writerutf8"`
	Valid      bool    `json:"valid"`
	UPanic     bool    `json:"upanic,omitempty"` // the real UTF-8 tokenizer panicked on the value (truncated character, before fix8)
}

// utoksOf: the UTF-8 aware tokens as coq/C20/UtfTok.v defines them
func utoksOf(b []byte, table []byte) [][]byte {
	var res [][]byte
	var cur []byte
	flush := func() {
		if len(cur) > 0 {
			res = append(res, cur)
			cur = nil
		}
	}
	for i := 0; i < len(b); {
		x := b[i]
		switch {
		case x < 0x80 && table[x] > 0:
			flush()
			i++
		case x < 0x80:
			cur = append(cur, x)
			i++
		default:
			flush()
			n := 0
			if x <= 0xdf {
				n = 2
			} else if x <= 0xef {
				n = 3
			} else if x <= 0xf7 {
				n = 4
			}
			if n == 0 {
				i++
				continue
			}
			e := i + n
			if e > len(b) {
				e = len(b)
			}
			res = append(res, append([]byte(nil), b[i:e]...))
			i = e
		}
	}
	flush()
	return res
}
type TokPair struct {
	P []int `json:"p"`
	V []int `json:"v"`
	M bool  `json:"m"`
}

func bytesOf(s string) []int {
	r := make([]int, 0, len(s))
	for _, b := range []byte(s) {
		r = append(r, int(b))
	}
	return r
}

func tokProbe(in *BloomIn) *TokObs {
	ob := &TokObs{Vals: []TokVal{}, Pairs: []TokPair{}}
	table := tokenizer.CONTENT_SPLIT_TABLE
	seen := map[string]bool{}
	var vals []string
	for _, col := range [][]*string{in.Content, in.Source} {
		for _, v := range col {
			if v != nil && !seen[*v] && len(vals) < 8 {
				seen[*v] = true
				vals = append(vals, *v)
			}
		}
	}
	hashSeq := func(s string) []uint64 {
		tk := tokenizer.NewSimpleTokenizer(table)
		tk.InitInput([]byte(s))
		var hs []uint64
		for tk.Next() {
			hs = append(hs, tk.CurrentHash())
		}
		return hs
	}
	for _, v := range vals {
		tv := TokVal{V: bytesOf(v), Toks: [][]int{}, ASCII: true}
		var toks []string
		b := []byte(v)
		for pos := 0; pos < len(b); {
			for pos < len(b) && table[b[pos]] > 0 {
				pos++
			}
			st := pos
			for pos < len(b) && table[b[pos]] == 0 {
				pos++
			}
			if pos > st {
				toks = append(toks, string(b[st:pos]))
			}
		}
		for _, x := range b {
			if x >= 0x80 {
				tv.ASCII = false
			}
		}
		real := hashSeq(v)
		tv.RealOK = len(real) == len(toks)
		for i, t := range toks {
			tv.Toks = append(tv.Toks, bytesOf(t))
			one := hashSeq(t)
			if tv.RealOK && (len(one) != 1 || one[0] != real[i]) {
				tv.RealOK = false
			}
		}
		// UTF-8 aware tokens
		tv.Valid = utf8.ValidString(v)
		uhash := func(s []byte) (hs []uint64, pan bool) {
			p := guard(func() {
				tk := tokenizer.NewSimpleUtf8Tokenizer(table)
				tk.InitInput(s)
				for tk.Next() {
					hs = append(hs, tk.CurrentHash())
				}
			})
			return hs, p != ""
		}
		ureal, pan := uhash(b)
		tv.UPanic = pan
		tv.UToks = [][]int{}
		ut := utoksOf(b, table)
		tv.URealOK = !pan && len(ureal) == len(ut)
		for i, t := range ut {
			tv.UToks = append(tv.UToks, bytesOf(string(t)))
			one, p1 := uhash(t)
			if tv.URealOK && (p1 || len(one) != 1 || one[0] != ureal[i]) {
				tv.URealOK = false
			}
		}
		// what the writer inserts for this value alone
		var col record.ColVal
		col.AppendString(v)
		p := guard(func() {
			w := sparseindex.NewBloomFilterWriter("", "", "", "", tokenizer.CONTENT_SPLITTER)
			data := w.GenBloomFilterData(&col, []int{1}, influx.Field_Type_String)
			ref := make([]byte, len(data))
			offs, lens := col.GetOffsAndLens()
			tokenizer.NewSimpleTokenizer(table).ProcessTokenizerBatch(col.Val, ref[:len(ref)-4], offs, lens)
			tv.WriterBytewise = string(ref[:len(ref)-4]) == string(data[:len(data)-4])
			ref2 := make([]byte, len(data))
			tokenizer.NewSimpleUtf8Tokenizer(table).ProcessTokenizerBatch(col.Val, ref2[:len(ref2)-4], offs, lens)
			tv.WriterUtf8 = string(ref2[:len(ref2)-4]) == string(data[:len(data)-4])
		})
		_ = p // a panic of the writer on this value alone is reported by the case's own writer run (oracle), not here
		ob.Vals = append(ob.Vals, tv)
	}
	n := 0
	in.Cond.atoms(func(a *BCond) {
		if a.Op != "match" {
			return
		}
		for _, v := range vals {
			if n < 12 {
				ob.Pairs = append(ob.Pairs, TokPair{P: bytesOf(a.Lit), V: bytesOf(v), M: phraseMatches(v, a.Lit)})
				n++
			}
		}
	})
	return ob
}

type tsspFile struct{ p string }

func (t *tsspFile) Name() string { return path.Base(t.p) }
func (t *tsspFile) Path() string { return t.p }

func (c *BCond) expr() influxql.Expr {
	var e influxql.Expr
	switch c.Op {
	case "and", "or":
		op := influxql.AND
		if c.Op == "or" {
			op = influxql.OR
		}
		e = &influxql.BinaryExpr{Op: influxql.Token(op), LHS: c.Args[0].expr(), RHS: c.Args[1].expr()}
	case "match":
		e = &influxql.BinaryExpr{Op: influxql.MATCHPHRASE, LHS: &influxql.VarRef{Val: c.Col, Type: influxql.String}, RHS: &influxql.StringLiteral{Val: c.Lit}}
	default:
		if c.Col == "n" {
			v, _ := strconv.ParseInt(c.Lit, 10, 64)
			e = &influxql.BinaryExpr{Op: influxql.EQ, LHS: &influxql.VarRef{Val: c.Col, Type: influxql.Integer}, RHS: &influxql.IntegerLiteral{Val: v}}
		} else {
			e = &influxql.BinaryExpr{Op: influxql.EQ, LHS: &influxql.VarRef{Val: c.Col, Type: influxql.String}, RHS: &influxql.StringLiteral{Val: c.Lit}}
		}
	}
	if c.Paren {
		e = &influxql.ParenExpr{Expr: e}
	}
	return e
}

func (c *BCond) atoms(f func(*BCond)) {
	if c.Op == "and" || c.Op == "or" {
		c.Args[0].atoms(f)
		c.Args[1].atoms(f)
		return
	}
	f(c)
}

func phraseMatches(content, phrase string) bool {
	tf := tokenizer.NewSimpleTokenFinder(tokenizer.CONTENT_SPLIT_TABLE)
	tf.InitInput([]byte(content), []byte(phrase))
	return tf.Next()
}

func (in *BloomIn) evalRow(c *BCond, r int) bool {
	switch c.Op {
	case "and":
		return in.evalRow(c.Args[0], r) && in.evalRow(c.Args[1], r)
	case "or":
		return in.evalRow(c.Args[0], r) || in.evalRow(c.Args[1], r)
	}
	if c.Col == "n" {
		v, _ := strconv.ParseInt(c.Lit, 10, 64)
		return in.N[r] == v
	}
	var x *string
	if c.Col == "content" {
		x = in.Content[r]
	} else {
		x = in.Source[r]
	}
	if x == nil {
		return false
	}
	if c.Op == "match" {
		return phraseMatches(*x, c.Lit)
	}
	return *x == c.Lit
}

type hashTok interface {
	InitInput([]byte)
	Next() bool
	CurrentHash() uint64
}

func hashesOf(tk hashTok, s string) map[uint64]bool {
	res := map[uint64]bool{}
	tk.InitInput([]byte(s))
	for tk.Next() {
		if tk.CurrentHash() == 0 {
			continue
		}
		res[tk.CurrentHash()] = true
	}
	return res
}

func has(xs []string, x string) bool {
	for _, y := range xs {
		if x == y {
			return true
		}
	}
	return false
}

func colOf(in *BloomIn, name string) []*string {
	if name == "content" {
		return in.Content
	}
	return in.Source
}

// scanWith builds a reader for the given condition and schema and returns MayBeInFragment per segment and Scan ranges.
func scanWith(file interface{}, cond influxql.Expr, schemaNames []string, segCnt int, rpf, minRows int) (kept []int, ranges [][2]int, errs string) {
	var schema record.Schemas
	for _, n := range schemaNames {
		schema = append(schema, record.Field{Name: n, Type: influx.Field_Type_String})
	}
	mk := func() (*sparseindex.BloomFilterIndexReader, error) {
		option := &query.ProcessorOptions{Condition: cond}
		reader, err := sparseindex.NewBloomFilterIndexReader(rpn.ConvertToRPNExpr(option.GetCondition()), schema, option, true)
		if err != nil {
			return nil, err
		}
		if err = reader.ReInit(file); err != nil {
			return nil, err
		}
		return reader, nil
	}
	reader, err := mk()
	if err != nil {
		return nil, nil, err.Error()
	}
	for f := 0; f < segCnt; f++ {
		res := -1
		p := guard(func() {
			ok, e := reader.MayBeInFragment(uint32(f))
			if e == nil {
				res = b2i(ok)
			}
		})
		if p != "" {
			res = -2
			errs = "panic: " + p
		}
		kept = append(kept, res)
	}
	reader2, err := mk()
	if err != nil {
		return kept, nil, err.Error()
	}
	p := guard(func() {
		frs, e := sparseindex.NewSKIndexReader(rpf, 2, minRows).Scan(reader2, fragment.FragmentRanges{fragment.NewFragmentRange(0, uint32(segCnt))})
		if e != nil {
			errs = e.Error()
			return
		}
		for _, fr := range frs {
			ranges = append(ranges, [2]int{int(fr.Start), int(fr.End)})
		}
	})
	if p != "" {
		errs = "panic: " + p
	}
	return
}

func runBloomCase(id int, orig *BloomIn, work string) *BloomOut {
	in := orig.effective()
	out := &BloomOut{BID: id, In: orig, SegCnt: len(in.Sizes), Ranges: [][2]int{}, Oracle: []string{}, Atoms: []BAtomObs{}}
	n := len(in.Content)
	dir := path.Join(work, "bloom", strconv.Itoa(id))
	if err := os.MkdirAll(dir, 0700); err != nil {
		out.Err = err.Error()
		return out
	}
	defer os.RemoveAll(dir)
	var rowsPer []int
	acc := 0
	for j, s := range in.Sizes {
		acc += s
		if j == len(in.Sizes)-1 && in.LastMinus1 {
			rowsPer = append(rowsPer, n-1)
		} else {
			rowsPer = append(rowsPer, acc)
		}
	}
	// writer
	for _, cn := range in.Indexed {
		var col record.ColVal
		for _, v := range colOf(in, cn) {
			if v == nil {
				col.AppendStringNull()
			} else {
				col.AppendString(*v)
			}
		}
		var data []byte
		p := guard(func() {
			w := sparseindex.NewBloomFilterWriter("", "", "", "", tokenizer.CONTENT_SPLITTER)
			if in.ViaBuilder {
				ir := influxql.IndexRelation{Oids: []uint32{uint32(index.BloomFilter)}, IndexNames: []string{index.BloomFilterIndex},
					IndexList: []*influxql.IndexList{{IList: []string{cn}}}, IndexOptions: []*influxql.IndexOptions{{}}}
				b := engineindex.NewIndexWriterBuilder()
				b.NewIndexWriters(dir, "m", path.Join(dir, "00000001-0001-00000001.tssp"), "", record.Schemas{{Name: cn, Type: influx.Field_Type_String}}, ir)
				bw, ok := b.GetSkipIndexWriters()[0].(*sparseindex.BloomFilterWriter)
				if !ok {
					panic("the builder did not make a BloomFilterWriter")
				}
				w = bw
			}
			data = w.GenBloomFilterData(&col, append([]int(nil), rowsPer...), influx.Field_Type_String)
		})
		if p != "" {
			out.Err = "writer panic: " + p
			out.Oracle = append(out.Oracle, out.Err)
			return out
		}
		name := path.Join(dir, "00000001-0001-00000001."+cn+colstore.BloomFilterIndexFileSuffix)
		if in.Vertical {
			p := guard(func() { data = logstore.FlushVerticalFilter(nil, data) })
			if p != "" {
				out.Err = "FlushVerticalFilter panic: " + p
				out.Oracle = append(out.Oracle, out.Err)
				return out
			}
			name = path.Join(dir, sparseindex.BloomFilterFilePrefix+cn+sparseindex.BloomFilterFileSuffix)
		}
		if err := os.WriteFile(name, data, 0600); err != nil {
			out.Err = err.Error()
			return out
		}
	}
	if !in.Vertical {
		out.Tok = tokProbe(in)
		if id == 0 {
			// fixed adversarial pairs for the finder model: self-overlapping phrases (the search resumes BEHIND a rejected
			// occurrence), empty strings, separator-only phrases, non-ASCII neighbours
			for _, pv := range [][2]string{{"a a", "xa a a"}, {"aa", "aaa"}, {"aa", "xaaa"}, {"ab ab", "xab ab ab"}, {"a.a", "ba.a.a"},
				{" ", "a b"}, {"", ""}, {"", "a"}, {"a", ""}, {"/", "a/b"}, {"b", "ab"}, {"a", "a\xe5\x8d\x8e"}, {"\xe5\x8d\x8e", "x\xe5\x8d\x8ey"},
				{"a", "ba ab a"}, {"aba", "xababa aba"}, {"a-a", "a-a-a"}, {"-a", "b-a"}, {"a-", "a-b"}} {
				out.Tok.Pairs = append(out.Tok.Pairs, TokPair{P: bytesOf(pv[0]), V: bytesOf(pv[1]), M: phraseMatches(pv[1], pv[0])})
				out.Tok.Vals = append(out.Tok.Vals, TokVal{V: bytesOf(pv[1]), Toks: nil, RealOK: true, WriterBytewise: true, ASCII: true, Skip: true})
			}
		}
	}
	var file interface{} = &tsspFile{p: dir + "/00000001-0001-00000001.tssp"}
	if in.Vertical {
		file = sparseindex.NewOBSFilterPath("", dir, nil)
	}
	// brute force
	start := 0
	for _, s := range in.Sizes {
		m := false
		for r := start; r < start+s; r++ {
			if in.evalRow(in.Cond, r) {
				m = true
			}
		}
		out.Match = append(out.Match, m)
		start += s
	}
	// schema: indexed columns in order of first appearance (getSKInfoByExpr)
	in.Cond.atoms(func(a *BCond) {
		if has(in.Indexed, a.Col) && !has(out.Schema, a.Col) {
			out.Schema = append(out.Schema, a.Col)
		}
	})
	// per-atom observations
	in.Cond.atoms(func(a *BCond) {
		ob := BAtomObs{Col: a.Col, Op: a.Op, Lit: a.Lit}
		st := 0
		for _, sz := range in.Sizes {
			m := false
			for r := st; r < st+sz; r++ {
				if in.evalRow(a, r) {
					m = true
				}
			}
			ob.AMatch = append(ob.AMatch, m)
			na := false
			if a.Col != "n" {
				for r := st; r < st+sz; r++ {
					if v := colOf(in, a.Col)[r]; v != nil && in.evalRow(a, r) {
						for _, b := range []byte(*v) {
							na = na || b >= 0x80
						}
					}
				}
			}
			ob.NonAscii = append(ob.NonAscii, na)
			st += sz
		}
		if a.Op == "match" {
			// reader side: the hashes the filter readers look the phrase up by (FilterReader.getAllHashes through the hook
			// VerifPhraseHashes, reader version 4 as NewBloomFilterIndexReader sets it); single tokens: UTF-8 aware tokenizer
			one := (&BCond{Op: "match", Col: a.Col, Lit: a.Lit}).expr()
			ph := map[uint64]bool{}
			for _, h := range bloomfilter.VerifPhraseHashes(one, 4, map[string][]byte{a.Col: tokenizer.CONTENT_SPLIT_TABLE})[a.Lit] {
				ph[h] = true
			}
			single := hashesOf(tokenizer.NewSimpleUtf8Tokenizer(tokenizer.CONTENT_SPLIT_TABLE), a.Lit)
			ob.NoToken = len(ph) == 0
			for h := range ph {
				if !single[h] {
					ob.Gram = true
				}
			}
		}
		if a.Op == "match" && has(in.Indexed, a.Col) {
			single := &BCond{Op: "match", Col: a.Col, Lit: a.Lit}
			k, _, _ := scanWith(file, single.expr(), []string{a.Col}, out.SegCnt, in.RPF, in.MinRows)
			ob.Hits = k
		}
		out.Atoms = append(out.Atoms, ob)
	})
	if len(out.Schema) == 0 {
		// no skip index reader is created for this condition: nothing is pruned
		for range in.Sizes {
			out.Kept = append(out.Kept, 1)
		}
		out.Ranges = [][2]int{{0, out.SegCnt}}
		return out
	}
	kept, ranges, errs := scanWith(file, in.Cond.expr(), out.Schema, out.SegCnt, in.RPF, in.MinRows)
	out.Kept, out.Err = kept, errs
	if ranges != nil {
		out.Ranges = ranges
	}
	if errs != "" {
		out.Oracle = append(out.Oracle, "reader error: "+errs)
	}
	pruned := 0
	for f, m := range out.Match {
		cov := false
		for _, r := range out.Ranges {
			if r[0] <= f && f < r[1] {
				cov = true
			}
		}
		if !cov {
			pruned++
		}
		if m && f < len(kept) && kept[f] == 0 {
			out.Oracle = append(out.Oracle, fmt.Sprintf("bloom MayBeInFragment(%d)=false but the segment contains a matching row", f))
		}
		if m && !cov && errs == "" {
			out.Oracle = append(out.Oracle, fmt.Sprintf("bloom skip-index scan pruned segment %d which contains a matching row", f))
		}
	}
	anyMatch := false
	for _, m := range out.Match {
		anyMatch = anyMatch || m
	}
	out.Nontriv = anyMatch && pruned > 0
	return out
}

// ---------------------------------------------------------------------------------------------

var vocab = []string{"hello", "world", "foo", "bar", "agent7", "agent1", "a", "b1", "x", "lorem", "ipsum", "GET", "404", "hello2", "he", "error", "Error"}
var seps = []string{" ", " ", " ", ",", "-", "/", ":", ", ", "  ", "=", "."}

// non-ASCII words: CJK (3-byte characters), Latin-1 letters (2 bytes), an emoji (4 bytes), ASCII glued to non-ASCII
var vocabNA = []string{"华为", "华", "日志", "错误", "naïve", "é", "ab华", "华ab", "x😀", "größe", "ошибка"}

// nonASCII: share (percent) of words taken from vocabNA; words may then also be glued without a separator
var nonASCII int

func genText(r *gen.Rand, nv int) *string {
	k := r.Intn(5)
	s := ""
	if r.Chance(1, 12) {
		s = gen.Pick(r, seps)
	}
	for i := 0; i < k; i++ {
		if i > 0 && !(nonASCII > 0 && r.Chance(1, 4)) {
			s += gen.Pick(r, seps)
		}
		if r.Intn(100) < nonASCII {
			s += gen.Pick(r, vocabNA)
		} else {
			s += vocab[r.Intn(nv)]
		}
	}
	if r.Chance(1, 12) {
		s += gen.Pick(r, seps)
	}
	return &s
}

func genBloomCase(r *gen.Rand) *BloomIn {
	in := &BloomIn{Kind: "bloom"}
	nonASCII = 0
	if r.Chance(1, 4) {
		nonASCII = 20 + r.Intn(60)
		in.Tag = "nonascii"
	}
	n := 2 + r.Intn(30)
	nv := 4 + r.Intn(len(vocab)-3)
	nullPct := 0
	if r.Chance(3, 5) {
		nullPct = 5 + r.Intn(45)
	}
	for i := 0; i < n; i++ {
		if r.Intn(100) < nullPct {
			in.Content = append(in.Content, nil)
		} else {
			in.Content = append(in.Content, genText(r, nv))
		}
		if r.Intn(100) < nullPct/2 {
			in.Source = append(in.Source, nil)
		} else {
			s := "agent" + strconv.Itoa(r.Intn(4))
			if r.Chance(1, 5) {
				s = *genText(r, nv)
			}
			in.Source = append(in.Source, &s)
		}
		in.N = append(in.N, int64(r.Intn(3)))
	}
	// null runs at segment boundaries
	if r.Chance(1, 3) && n > 4 {
		at := 1 + r.Intn(n-3)
		for k := 0; k < 1+r.Intn(3) && at+k < n-1; k++ {
			in.Content[at+k] = nil
		}
	}
	switch r.Intn(3) {
	case 0:
		sz := 1 + r.Intn(5)
		for left := n; left > 0; left -= sz {
			in.Sizes = append(in.Sizes, min(sz, left))
		}
		in.RPF = sz
	default:
		for left := n; left > 0; {
			s := 1 + r.Intn(6)
			if s > left {
				s = left
			}
			in.Sizes = append(in.Sizes, s)
			left -= s
		}
		in.RPF = 1 + r.Intn(5)
	}
	if nonASCII > 0 && r.Chance(1, 2) {
		in.Chop = make([]int, n)
		for i := range in.Content {
			if v := in.Content[i]; v != nil && len(*v) > 2 && (*v)[len(*v)-1] >= 0x80 && r.Chance(1, 2) {
				in.Chop[i] = 1 + r.Intn(2)
			}
		}
	}
	in.ViaBuilder = r.Chance(1, 5)
	in.LastMinus1 = r.Bool()
	switch r.Intn(10) {
	case 0, 1:
		in.Indexed = []string{"content", "source"}
	case 2:
		in.Indexed = []string{"source"}
	default:
		in.Indexed = []string{"content"}
	}
	in.MinRows = gen.Pick(r, []int{0, 0, 1, in.RPF, 3 * in.RPF})
	pickPhrase := func(col string) string {
		vals := colOf(in, col)
		for try := 0; try < 6; try++ {
			v := vals[r.Intn(n)]
			if v == nil || *v == "" {
				continue
			}
			switch k := r.Intn(10); {
			case k < 6: // a token of an existing value
				var toks []string
				b := []byte(*v)
				pos := 0
				for pos < len(b) {
					for pos < len(b) && tokenizer.CONTENT_SPLIT_TABLE[b[pos]] > 0 {
						pos++
					}
					st := pos
					for pos < len(b) && tokenizer.CONTENT_SPLIT_TABLE[b[pos]] == 0 {
						pos++
					}
					if pos > st {
						toks = append(toks, string(b[st:pos]))
					}
				}
				if len(toks) > 0 {
					return toks[r.Intn(len(toks))]
				}
			case k < 8: // the whole value (a phrase of several tokens)
				return *v
			default:
				if nonASCII > 0 && r.Bool() {
					return gen.Pick(r, []string{"华", "华为", "ab", "为", "é", "na", "ve", "x", "志", "日志", "ошибка", "gr"})
				}
				return vocab[r.Intn(len(vocab))]
			}
		}
		return vocab[r.Intn(len(vocab))]
	}
	var genCond func(d int) *BCond
	genCond = func(d int) *BCond {
		if d > 0 && r.Chance(3, 5) {
			return &BCond{Op: gen.Pick(r, []string{"and", "or"}), Args: []*BCond{genCond(d - 1), genCond(d - 1)}, Paren: r.Chance(1, 3)}
		}
		switch k := r.Intn(10); {
		case k < 5:
			return &BCond{Op: "match", Col: "content", Lit: pickPhrase("content")}
		case k < 8:
			return &BCond{Op: "match", Col: "source", Lit: pickPhrase("source")}
		case k < 9:
			col := gen.Pick(r, []string{"content", "source"})
			lit := "zz"
			if v := colOf(in, col)[r.Intn(n)]; v != nil {
				lit = *v
			}
			return &BCond{Op: "=", Col: col, Lit: lit}
		default:
			return &BCond{Op: "=", Col: "n", Lit: strconv.Itoa(r.Intn(3))}
		}
	}
	in.Cond = genCond(1 + r.Intn(3))
	return in
}

// probeMinMaxSet records what the other two registered skip-index readers do when they are handed a data file, so that
// the check notices if they ever become functional (then they need their own stream).
func probeMinMaxSet() {
	cond := (&BCond{Op: "=", Col: "n", Lit: "1"}).expr()
	option := &query.ProcessorOptions{Condition: cond}
	schema := record.Schemas{{Name: "n", Type: influx.Field_Type_Int}}
	res := map[string]string{}
	mm, err := sparseindex.NewMinMaxIndexReader(rpn.ConvertToRPNExpr(cond), schema, option, true)
	if err != nil {
		res["minmax"] = "constructor error: " + err.Error()
	} else {
		res["minmax_readfunc_nil"] = strconv.FormatBool(mm.ReadFunc == nil)
		p := guard(func() { err = mm.ReInit(&tsspFile{p: "/nonexistent/00000001-0001-00000001.tssp"}) })
		switch {
		case p != "":
			res["minmax"] = "ReInit panics: " + p
		case err != nil:
			res["minmax"] = "ReInit error: " + err.Error()
		default:
			res["minmax"] = "ReInit ok"
		}
	}
	// the reader a query gets: through the registered creator (createSKFileReaders)
	if creator, ok := sparseindex.GetSKFileReaderFactoryInstance().Find(uint32(index.MinMax)); ok {
		if rd, e := creator.CreateSKFileReader(rpn.ConvertToRPNExpr(cond), schema, option, true); e == nil {
			if m2, isMM := rd.(*sparseindex.MinMaxIndexReader); isMM {
				res["minmax_factory_readfunc_nil"] = strconv.FormatBool(m2.ReadFunc == nil)
			} else {
				res["minmax_factory_readfunc_nil"] = fmt.Sprintf("other reader type %T", rd)
			}
		}
	} else {
		res["minmax_factory_readfunc_nil"] = "no creator"
	}
	// the writers: nothing is written
	{
		dir := path.Join(workDir(), "skprobe")
		_ = os.MkdirAll(dir, 0700)
		rec := record.NewRecord(record.Schemas{{Name: "n", Type: influx.Field_Type_Int}, {Name: "time", Type: influx.Field_Type_Int}}, false)
		for i := 0; i < 4; i++ {
			rec.Column(0).AppendInteger(int64(i))
			rec.Column(1).AppendInteger(int64(i))
		}
		probeW := func(name string, attach func() error, detach func() ([][]byte, []string)) {
			p := guard(func() {
				e := attach()
				d, f := detach()
				ents, _ := os.ReadDir(dir)
				res[name] = fmt.Sprintf("attach_err=%v detach_bufs=%d detach_files=%d files_written=%d", e != nil, len(d), len(f), len(ents))
			})
			if p != "" {
				res[name] = "panic: " + p
			}
		}
		mw := sparseindex.NewMinMaxWriter(dir, "m", path.Join(dir, "00000001-0001-00000001.tssp"), "", "")
		probeW("minmax_writer", func() error { return mw.CreateAttachIndex(rec, []int{0}, []int{2, 3}) },
			func() ([][]byte, []string) { return mw.CreateDetachIndex(rec, []int{0}, []int{2, 3}, make([][]byte, 1)) })
		sw := sparseindex.NewSetWriter(dir, "m", path.Join(dir, "00000001-0001-00000001.tssp"), "", "")
		probeW("set_writer", func() error { return sw.CreateAttachIndex(rec, []int{0}, []int{2, 3}) },
			func() ([][]byte, []string) { return sw.CreateDetachIndex(rec, []int{0}, []int{2, 3}, make([][]byte, 1)) })
		_ = os.RemoveAll(dir)
	}
	// which skip-index types the column-store grammar admits (real parser)
	for _, ty := range []string{"set", "minmax", "bloomfilter"} {
		q := "create measurement db0.rp0.m (n int64 field) WITH ENGINETYPE=COLUMNSTORE INDEXTYPE " + ty + " INDEXLIST n"
		p := guard(func() {
			yp := influxql.NewYyParser(influxql.NewScanner(strings.NewReader(q)), make(map[string]interface{}))
			yp.ParseTokens()
			_, e := yp.GetQuery()
			res["grammar_"+ty] = strconv.FormatBool(e == nil)
		})
		if p != "" {
			res["grammar_"+ty] = "panic: " + p
		}
	}
	st, err := sparseindex.NewSetIndexReader(rpn.ConvertToRPNExpr(cond), schema, option, true)
	if err == nil {
		_ = st.ReInit(&tsspFile{p: "/nonexistent/x.tssp"})
		ok, _ := st.MayBeInFragment(0)
		res["set_maybe"] = strconv.FormatBool(ok)
	}
	var sp []int
	for b := 0; b < 256; b++ {
		if tokenizer.CONTENT_SPLIT_TABLE[b] > 0 {
			sp = append(sp, b)
		}
	}
	gen.Emit(map[string]interface{}{"skprobe": res, "splitbytes": sp})
}

// genVerticalCase: exactly one vertical group (FilterCntPerVerticalGorup segments of one row), column content indexed.
func genVerticalCase(r *gen.Rand) *BloomIn {
	in := genBloomCase(r)
	n := int(logstore.GetConstant(logstore.CurrentLogTokenizerVersion).FilterCntPerVerticalGorup)
	in.Vertical, in.Tag = true, "vertical"
	in.Indexed = []string{"content"}
	for len(in.Content) < n {
		k := len(in.Content)
		in.Content = append(in.Content, in.Content[k%len(in.N)])
		in.Source = append(in.Source, in.Source[k%len(in.N)])
		in.N = append(in.N, int64(k%3))
	}
	in.Content, in.Source, in.N = in.Content[:n], in.Source[:n], in.N[:n]
	in.Sizes = nil
	for i := 0; i < n; i++ {
		in.Sizes = append(in.Sizes, 1)
	}
	in.LastMinus1 = false
	in.RPF = 1
	return in
}
