// C20 grouped stream: the primary index of the production ATTACHED flush. The rows of a generated case are handed, unsorted
// order irrelevant, to the real ColumnStoreTSSPWriter.sortRecord (hook VerifColumnStoreSortRecord): rows grouped by primary
// key, groups sorted by colstore.KeySorter (a null strictly before every value), every group cut into segments of
// GetMaxRowsPerSegment rows (set to 8 here, so a group may span several segments); the index record is one row per group plus
// the column __fragment__ (segment offset << 32 | segment count), WITHOUT a trailing last-key row; the mark is
// NewIndexFragmentVariable of the raw __fragment__ values, exactly as WriteAttached.flushRecord / fileLoader build it.
// Real NewKeyCondition + PKIndexReaderImpl.Scan over that record and mark, then the real getSegmentRanges of
// ColumnStoreReader.initReadCursor (hook VerifGetSegmentRanges). DIRECT ORACLE: every SEGMENT that holds a row satisfying
// the condition lies in a returned segment range.
package main

import (
	"fmt"

	"github.com/openGemini/openGemini/engine"
	"github.com/openGemini/openGemini/engine/immutable"
	"github.com/openGemini/openGemini/engine/index/sparseindex"
	"github.com/openGemini/openGemini/lib/fragment"
	"github.com/openGemini/openGemini/lib/record"
	"github.com/openGemini/openGemini/lib/util"
)

type GroupedOut struct {
	GID       int        `json:"gid"`
	In        *CaseIn    `json:"in"`
	IsInt     []bool     `json:"isint"`
	Pads      []int64    `json:"pads"`
	EffCond   *Cond      `json:"effcond,omitempty"`
	Groups    [][]*int64 `json:"groups"`    // index rows (key groups) in index order, encoded
	Counts    []int      `json:"counts"`    // segments per group (low half of __fragment__)
	Offsets   []int      `json:"offsets"`   // segment offset per group (high half of __fragment__)
	GMatch    []bool     `json:"gmatch"`    // per group: holds a row satisfying the condition
	SegMatch  []bool     `json:"segmatch"`  // per segment
	SegGroup  []int      `json:"seggroup"`  // per segment: the group whose rows it holds (-1: rows of several groups)
	CondErr   string     `json:"conderr"`
	ScanErr   string     `json:"scanerr"`
	Used      int        `json:"used"`
	MinMarks  int        `json:"minmarks"`
	Ranges    [][2]int   `json:"ranges"`    // fragment (= group) ranges of Scan
	SegRanges [][2]int   `json:"segranges"` // after getSegmentRanges
	Oracle    []string   `json:"oracle"`
	Nontriv   bool       `json:"nontrivial"`
}

func runGroupedCase(id int, in *CaseIn) *GroupedOut {
	out := &GroupedOut{GID: id, In: in, Oracle: []string{}, Ranges: [][2]int{}, SegRanges: [][2]int{}}
	unsorted := *in
	unsorted.WriterSort = false
	w := newWorld(&unsorted)
	encs := make([]*encoder, w.nk)
	for c := 0; c < w.nk; c++ {
		encs[c] = &encoder{ty: in.Types[c]}
		out.IsInt = append(out.IsInt, in.Types[c] == "int" || in.Types[c] == "time")
		for _, r := range w.rows {
			encs[c].add(r[c])
		}
		encs[c].add(padVal(in.Types[c]))
	}
	eff := in.Cond
	collectLits(eff, func(a *Cond) {
		if a.Col >= 0 && a.Op != "in" {
			encs[a.Col].add(parseVal(in.Types[a.Col], &a.Lit))
		}
	})
	for c := 0; c < w.nk; c++ {
		encs[c].finish()
		out.Pads = append(out.Pads, *encs[c].enc(padVal(in.Types[c])))
	}
	collectLits(eff, func(a *Cond) {
		if a.Op == "in" {
			return
		}
		if a.Col >= 0 {
			a.Enc = encs[a.Col].enc(parseVal(in.Types[a.Col], &a.Lit))
		} else {
			v := parseVal("int", &a.Lit)
			a.Enc = &v.i
		}
	})
	// the real attached-flush sort: 8 rows per segment
	conf := immutable.GetColStoreConfig()
	old := conf.GetMaxRowsPerSegment()
	conf.SetMaxRowsPerSegment(8)
	defer conf.SetMaxRowsPerSegment(old)
	var pkRec *record.Record
	var fragments []int64
	var segs [][]int64
	p := guard(func() {
		pk := make(record.Schemas, len(w.pkSch))
		copy(pk, w.pkSch)
		sk := make(record.Schemas, len(w.pkSch))
		copy(sk, w.pkSch)
		pkRec, fragments, segs = immutable.VerifColumnStoreSortRecord(w.src, pk, sk)
		immutable.AppendFragmentsToPKRecord(pkRec, fragments)
	})
	if p != "" {
		out.ScanErr = "sortRecord panic: " + p
		out.Oracle = append(out.Oracle, out.ScanErr)
		return out
	}
	ng := pkRec.RowNums()
	for g := 0; g < ng; g++ {
		kr := make([]*int64, w.nk)
		for c := 0; c < w.nk; c++ {
			kr[c] = encs[c].enc(readVal(pkRec.Column(c), in.Types[c], g))
		}
		out.Groups = append(out.Groups, kr)
		out.Offsets = append(out.Offsets, int(fragments[g]>>32))
		out.Counts = append(out.Counts, int(fragments[g]&0xffffffff))
		out.GMatch = append(out.GMatch, false)
	}
	// which group does a row belong to: the index row equal to its key
	sameKey := func(row []tval, g int) bool {
		for c := 0; c < w.nk; c++ {
			x := readVal(pkRec.Column(c), in.Types[c], g)
			if x.null != row[c].null || (!x.null && cmpVal(in.Types[c], x, row[c]) != 0) {
				return false
			}
		}
		return true
	}
	for _, seg := range segs {
		m, grp := false, -2
		for _, off := range seg {
			row := w.rows[off]
			g := -1
			for k := 0; k < ng; k++ {
				if sameKey(row, k) {
					g = k
					break
				}
			}
			if grp == -2 {
				grp = g
			} else if grp != g {
				grp = -1
			}
			if w.eval(eff, row) {
				m = true
				if g >= 0 {
					out.GMatch[g] = true
				}
			}
		}
		out.SegMatch = append(out.SegMatch, m)
		out.SegGroup = append(out.SegGroup, grp)
	}
	if in.RPF > 0 {
		out.MinMarks = (in.MinRows + in.RPF - 1) / in.RPF
	}
	var kc *sparseindex.KeyConditionImpl
	var err error
	p = guard(func() { kc, err = sparseindex.NewKeyCondition(nil, w.expr(in.Cond), pkRec.Schema) })
	if p != "" || err != nil {
		out.CondErr = fmt.Sprintf("%s%v", p, err)
		return out
	}
	out.Used = kc.GetMaxKeyIndex() + 1
	mark := fragment.NewIndexFragmentVariable(util.Bytes2Uint64Slice(util.Int64Slice2byte(fragments)))
	var frs fragment.FragmentRanges
	p = guard(func() {
		frs, err = sparseindex.NewPKIndexReader(in.RPF, in.Coarse, in.MinRows).Scan("verif.idx", pkRec, mark, kc)
	})
	if p != "" {
		out.ScanErr = "panic: " + p
		out.Oracle = append(out.Oracle, "scan panic: "+p)
		return out
	}
	if err != nil {
		out.ScanErr = err.Error()
		return out
	}
	out.Ranges = rangesOf(frs)
	var srs fragment.FragmentRanges
	p = guard(func() { srs, err = engine.VerifGetSegmentRanges(frs, mark.GetSegmentsFromFragmentRange()) })
	if p != "" || err != nil {
		out.ScanErr = fmt.Sprintf("getSegmentRanges: %s%v", p, err)
		out.Oracle = append(out.Oracle, out.ScanErr)
		return out
	}
	out.SegRanges = rangesOf(srs)
	pruned := 0
	for s, m := range out.SegMatch {
		cov := false
		for _, r := range out.SegRanges {
			cov = cov || (r[0] <= s && s < r[1])
		}
		if !cov {
			pruned++
		}
		if m && !cov {
			out.Oracle = append(out.Oracle, fmt.Sprintf("segment %d (key group %d) holds a matching row but lies in no segment range (fragment ranges %v, segment ranges %v)", s, out.SegGroup[s], out.Ranges, out.SegRanges))
		}
	}
	for _, m := range out.SegMatch {
		out.Nontriv = out.Nontriv || (m && pruned > 0 && out.Used > 0)
	}
	return out
}
